/-
  Atto/Props/C09.lean — property C09: "redirect following is bounded, selective and ends where the
  server pointed".  Everything is about `send s req cap url hops` / `sendLoop` for ARBITRARY `hops`
  (each hop's script is an arbitrary scripted transport and `resolved` an arbitrary resolution
  result, so every chain, graph or cycle of responses is an instance).  No assumption on the proxy
  settings: the statements that look at a response exclude only the hop on which the CONNECT-tunnel
  branch is taken (`rd_tunnels s u = true`: an https URL for which a proxy applies), where the model
  stops at the TLS handshake.
    (a) at most `max_redirections + 1` requests;
    (b) a followed status on the request number `max_redirections + 1`: `TooManyRedirections`;
    (c) following disabled: exactly one request, the 3xx response is returned;
    (d) only 301, 302, 303, 307, 308 are followed;
    (e) a followed status without `Location`, or with one that does not resolve, is an error;
    (f) hop i+1 goes to the URL that hop i's `Location` resolved to against hop i's URL, and the
        final response carries the URL of the last hop.
  Helper lemmas: Atto/Lemmas/Redirect.lean; example data: Atto/Lemmas/RedirectExamples.lean.
-/
import Atto.Gen.Consts
import Atto.Lemmas.Redirect
import Atto.Lemmas.RedirectExamples
namespace Atto
open Atto.Rd Atto.RdEx

/-! ### (a) bounded -/

/-- The loop invariant: with `n` redirections already followed, at most `max - n + 1` further
    requests are made (and never more than there are connections). -/
theorem C09_bound_loop (s : SendSettings) (req : Req) (cap : Nat) (hops : List Hop) (url : Url)
    (n : Nat) (hdrs : Headers) (first : Bool) :
    (sendLoop s req cap hops url n hdrs first).1.length ≤ s.maxRedirections - n + 1 ∧
    (sendLoop s req cap hops url n hdrs first).1.length ≤ hops.length := by
  rw [rd_outs_length]
  have := rd_trace_length_le (rd_trace s req cap hops url n hdrs first)
  exact ⟨this.2, this.1⟩

theorem C09_bound (s : SendSettings) (req : Req) (cap : Nat) (url : Url) (hops : List Hop) :
    (send s req cap url hops).1.length ≤ s.maxRedirections + 1 :=
  (C09_bound_loop s req cap hops url 0 req.headers true).1

/-- 40 connections of an endless a ⇄ b cycle, limit 5: six requests, then `TooManyRedirections`. -/
example : (send (rx_settings true 5) rx_req 64 rx_a (rx_cycle 20)).1.length ≤ 5 + 1 :=
  C09_bound _ _ _ _ _
example : (send (rx_settings true 5) rx_req 64 rx_a (rx_cycle 20)).1.length = 6 ∧
    (send (rx_settings true 5) rx_req 64 rx_a (rx_cycle 20)).2 = .tooManyRedirections := by
  decide +kernel

/-! ### (b) the limit -/

theorem C09_exceed (s : SendSettings) (req : Req) (cap n : Nat) (url : Url) (hop : Hop) (resp : Resp) :
    n + 1 > s.maxRedirections → s.followRedirects = true →
    parseResponse req.methodM s.maxHeaders cap hop.script = .ok resp →
    isRedirectStatus resp.status = true →
    exchange s req cap n url hop = .final .tooManyRedirections :=
  fun hn hf hp hr => rd_exchange_exceed hp hf hr hn

/-- Limit 0, first response is a 302. -/
example : exchange (rx_settings true 0) rx_req 64 0 rx_a
    { script := rx_redirect "302 Found" "http://b/2", resolved := some rx_b }
      = .final .tooManyRedirections := by
  obtain ⟨resp, hp, hst, _⟩ := rx_parse (m := .post) (mh := 100) (cap := 64)
    (t := rx_redirect "302 Found" "http://b/2") (st := 302)
    (hs := [(str "location", str "http://b/2"), (str "content-length", str "0")]) (by decide +kernel)
  exact C09_exceed _ _ _ _ _ _ resp (by decide) rfl hp (by rw [hst]; decide)

/-- Lifted to the loop: the request is still made, it is the last one, the outcome is the error. -/
theorem C09_exceed_loop (s : SendSettings) (req : Req) (cap n : Nat) (url : Url) (hop : Hop)
    (rest : List Hop) (hdrs : Headers) (first : Bool) (resp : Resp) :
    rd_tunnels s url = false →
    n + 1 > s.maxRedirections → s.followRedirects = true →
    parseResponse req.methodM s.maxHeaders cap hop.script = .ok resp →
    isRedirectStatus resp.status = true →
    sendLoop s req cap (hop :: rest) url n hdrs first =
      ([rd_plainOut s req url hdrs first], .tooManyRedirections) :=
  fun ht hn hf hp hr => rd_sendLoop_final ht (rd_exchange_exceed hp hf hr hn)

/-- Lifted to `send`: if the hop with index `max_redirections` is reached (at URL `u`) and answers
    with a followed status, the outcome is `TooManyRedirections` after exactly `max + 1` requests. -/
theorem C09_exceed_send (s : SendSettings) (req : Req) (cap : Nat) (url : Url) (hops : List Hop)
    (u : Url) (hop : Hop) (resp : Resp) :
    (urlsVisited s req cap url hops)[s.maxRedirections]? = some u →
    hops[s.maxRedirections]? = some hop → rd_tunnels s u = false →
    s.followRedirects = true →
    parseResponse req.methodM s.maxHeaders cap hop.script = .ok resp →
    isRedirectStatus resp.status = true →
    (send s req cap url hops).2 = .tooManyRedirections ∧
    (send s req cap url hops).1.length = s.maxRedirections + 1 := by
  intro hu hh ht hf hp hr
  have htr := rd_trace s req cap hops url 0 req.headers true
  have he : exchange s req cap (0 + s.maxRedirections) u hop = .final .tooManyRedirections :=
    rd_exchange_exceed hp hf hr (by omega)
  obtain ⟨h1, h2⟩ := rd_trace_final_at htr _ u hop _ hu hh ht he
  refine ⟨h1, ?_⟩
  unfold send; rw [rd_outs_length]; exact h2

/-- Limit 2 on the chain a → b → c → …: hop 2 (to `c`) is reached; were its answer a redirect … -/
example :
    let hops := rx_chain.take 2 ++ [{ script := rx_redirect "303 See Other" "/x", resolved := some rx_a }]
    (send (rx_settings true 2) rx_req 64 rx_a hops).2 = .tooManyRedirections ∧
    (send (rx_settings true 2) rx_req 64 rx_a hops).1.length = 2 + 1 := by
  intro hops
  obtain ⟨resp, hp, hst, _⟩ := rx_parse (m := .post) (mh := 100) (cap := 64)
    (t := rx_redirect "303 See Other" "/x") (st := 303)
    (hs := [(str "location", str "/x"), (str "content-length", str "0")]) (by decide +kernel)
  exact C09_exceed_send (rx_settings true 2) rx_req 64 rx_a hops rx_c _ resp (by decide +kernel) rfl
    (by decide +kernel) rfl hp (by rw [hst]; decide)

/-! ### (c) following disabled -/

theorem C09_off (s : SendSettings) (req : Req) (cap : Nat) (url : Url) (hops : List Hop) :
    s.followRedirects = false →
    (send s req cap url hops).1.length ≤ 1 ∧
    (∀ hop rest resp, hops = hop :: rest → rd_tunnels s url = false →
      parseResponse req.methodM s.maxHeaders cap hop.script = .ok resp →
      (send s req cap url hops).1.length = 1 ∧
      (send s req cap url hops).2 = .ok resp.status url) := by
  intro hf
  have hnf : ∀ n u hop next, exchange s req cap n u hop ≠ .follow next := by
    intro n u hop next he
    obtain ⟨_, _, _, h, _⟩ := rd_exchange_follow_inv he
    rw [hf] at h; cases h
  constructor
  · unfold send
    cases hops with
    | nil => simp [sendLoop]
    | cons hop rest =>
      cases ht : rd_tunnels s url with
      | true => rw [rd_sendLoop_tunnel ht]; simp
      | false =>
        cases he : exchange s req cap 0 url hop with
        | final f => rw [rd_sendLoop_final ht he]; simp
        | follow next => exact absurd he (hnf _ _ _ _)
  · intro hop rest resp hh ht hp
    subst hh
    unfold send
    rw [rd_sendLoop_final ht (rd_exchange_off hp hf)]
    exact ⟨rfl, rfl⟩

/-- The chain a → b → c with following off: one request, the 302 comes back with URL `a`. -/
example : (send (rx_settings false 5) rx_req 64 rx_a rx_chain).1.length = 1 ∧
    (send (rx_settings false 5) rx_req 64 rx_a rx_chain).2 = .ok 302 rx_a := by
  obtain ⟨resp, hp, hst, _⟩ := rx_parse (m := .post) (mh := 100) (cap := 64)
    (t := rx_redirect "302 Found" "http://b/2") (st := 302)
    (hs := [(str "location", str "http://b/2"), (str "content-length", str "0")]) (by decide +kernel)
  have := (C09_off (rx_settings false 5) rx_req 64 rx_a rx_chain rfl).2 _ _ resp rfl
    (by decide +kernel) hp
  rw [hst] at this; exact this

/-! ### (d) selective -/

theorem C09_selective (s : SendSettings) (req : Req) (cap n : Nat) (url : Url) (hop : Hop) (resp : Resp) :
    parseResponse req.methodM s.maxHeaders cap hop.script = .ok resp →
    isRedirectStatus resp.status = false →
    exchange s req cap n url hop = .final (.ok resp.status url) :=
  fun hp hr => rd_exchange_selective hp hr

theorem C09_followed_set (st : Nat) :
    isRedirectStatus st = true ↔ st = 301 ∨ st = 302 ∨ st = 303 ∨ st = 307 ∨ st = 308 :=
  rd_isRedirect_iff st

example : isRedirectStatus 300 = false ∧ isRedirectStatus 304 = false ∧ isRedirectStatus 305 = false ∧
    isRedirectStatus 306 = false ∧ isRedirectStatus 200 = false ∧ isRedirectStatus 399 = false := by
  decide
example : isRedirectStatus 307 = true := (C09_followed_set 307).mpr (by decide)

/-- A 304 with following enabled is returned as it is. -/
example : exchange (rx_settings true 5) rx_req 64 0 rx_a { script := rx_notModified, resolved := some rx_b }
    = .final (.ok 304 rx_a) := by
  obtain ⟨resp, hp, hst, _⟩ := rx_parse (m := .post) (mh := 100) (cap := 64)
    (t := rx_notModified) (st := 304) (hs := []) (by decide +kernel)
  have := C09_selective (rx_settings true 5) rx_req 64 0 rx_a
    { script := rx_notModified, resolved := some rx_b } resp hp (by rw [hst]; decide)
  rw [hst] at this; exact this

/-- Lifted to the loop: a non-followed status ends the loop on that hop, with that hop's URL. -/
theorem C09_selective_loop (s : SendSettings) (req : Req) (cap n : Nat) (url : Url) (hop : Hop)
    (rest : List Hop) (hdrs : Headers) (first : Bool) (resp : Resp) :
    rd_tunnels s url = false →
    parseResponse req.methodM s.maxHeaders cap hop.script = .ok resp →
    isRedirectStatus resp.status = false →
    sendLoop s req cap (hop :: rest) url n hdrs first =
      ([rd_plainOut s req url hdrs first], .ok resp.status url) :=
  fun ht hp hr => rd_sendLoop_final ht (rd_exchange_selective hp hr)

example : (sendLoop (rx_settings true 5) rx_req 64 [{ script := rx_ok, resolved := none }] rx_c 2
    rx_req.headers false).2 = .ok 200 rx_c := by
  obtain ⟨resp, hp, hst, _⟩ := rx_parse (m := .post) (mh := 100) (cap := 64)
    (t := rx_ok) (st := 200) (hs := [(str "content-length", str "2")]) (by decide +kernel)
  rw [C09_selective_loop (rx_settings true 5) rx_req 64 2 rx_c { script := rx_ok, resolved := none }
    [] _ _ resp (by decide +kernel) hp (by rw [hst]; decide), hst]

/-! ### (e) `Location` -/

theorem C09_location (s : SendSettings) (req : Req) (cap n : Nat) (url : Url) (hop : Hop) (resp : Resp) :
    parseResponse req.methodM s.maxHeaders cap hop.script = .ok resp →
    isRedirectStatus resp.status = true → s.followRedirects = true → n + 1 ≤ s.maxRedirections →
    (resp.headers.get (hName "location") = none →
      exchange s req cap n url hop = .final .locationHeader) ∧
    (∀ v, resp.headers.get (hName "location") = some v → hop.resolved = none →
      exchange s req cap n url hop = .final .redirectionUrl) ∧
    (∀ v next, resp.headers.get (hName "location") = some v → hop.resolved = some next →
      undialable next = none → exchange s req cap n url hop = .follow next) ∧
    -- a target without host, without known port or with a scheme other than http(s) is unusable too:
    -- the call ends with the error of the next turn, and nothing further is dialled or written
    (∀ v next e, resp.headers.get (hName "location") = some v → hop.resolved = some next →
      undialable next = some e → exchange s req cap n url hop = .final (.err e)) :=
  fun hp hr hf hn =>
    ⟨fun hl => rd_exchange_noLocation hp hf hr hn hl,
     fun _ hl hres => rd_exchange_badLocation hp hf hr hn hl hres,
     fun _ _ hl hres hd => rd_exchange_follow hp hf hr hn hl hres hd,
     fun _ _ _ hl hres hd => rd_exchange_undialable hp hf hr hn hl hres hd⟩

/-- 301 without `Location`. -/
example : exchange (rx_settings true 5) rx_req 64 0 rx_a { script := rx_noLocation, resolved := none }
    = .final .locationHeader := by
  obtain ⟨resp, hp, hst, hh⟩ := rx_parse (m := .post) (mh := 100) (cap := 64)
    (t := rx_noLocation) (st := 301) (hs := [(str "content-length", str "0")]) (by decide +kernel)
  exact (C09_location (rx_settings true 5) rx_req 64 0 rx_a
    { script := rx_noLocation, resolved := none } resp hp (by rw [hst]; decide) rfl
    (by decide)).1 (by rw [hh]; decide +kernel)
/-- 302 whose `Location` does not resolve; and one that does. -/
example : exchange (rx_settings true 5) rx_req 64 0 rx_a
      { script := rx_redirect "302 Found" "http://[", resolved := none } = .final .redirectionUrl ∧
    exchange (rx_settings true 5) rx_req 64 0 rx_a
      { script := rx_redirect "302 Found" "http://[", resolved := some rx_b } = .follow rx_b := by
  obtain ⟨resp, hp, hst, hh⟩ := rx_parse (m := .post) (mh := 100) (cap := 64)
    (t := rx_redirect "302 Found" "http://[") (st := 302)
    (hs := [(str "location", str "http://["), (str "content-length", str "0")]) (by decide +kernel)
  have hl : resp.headers.get (hName "location") = some (str "http://[") := by rw [hh]; decide +kernel
  exact ⟨(C09_location (rx_settings true 5) rx_req 64 0 rx_a
      { script := rx_redirect "302 Found" "http://[", resolved := none } resp hp
      (by rw [hst]; decide) rfl (by decide)).2.1 _ hl rfl,
    (C09_location (rx_settings true 5) rx_req 64 0 rx_a
      { script := rx_redirect "302 Found" "http://[", resolved := some rx_b } resp hp
      (by rw [hst]; decide) rfl (by decide)).2.2.1 _ _ hl rfl (by decide +kernel)⟩

/-- `Location: ftp://files.test/x` resolves, but the client cannot dial it: error, no further hop. -/
example : undialable { rx_b with scheme := str "ftp", effPort := 21 } = some .invalidBaseUrl ∧
    undialable { rx_b with scheme := str "mailto", hostKind := 9, effPort := 0 } = some .invalidUrlHost ∧
    undialable { rx_b with scheme := str "gopher2", effPort := 0 } = some .invalidUrlPort ∧
    undialable rx_b = none := by decide +kernel

/-- Conversely, a redirect is followed only under exactly these conditions. -/
theorem C09_follow_only (s : SendSettings) (req : Req) (cap n : Nat) (url : Url) (hop : Hop) (next : Url) :
    exchange s req cap n url hop = .follow next →
    ∃ resp v, parseResponse req.methodM s.maxHeaders cap hop.script = .ok resp ∧
      s.followRedirects = true ∧ isRedirectStatus resp.status = true ∧
      n + 1 ≤ s.maxRedirections ∧ resp.headers.get (hName "location") = some v ∧
      hop.resolved = some next ∧ undialable next = none :=
  rd_exchange_follow_inv

example : ∃ resp v, parseResponse .post 100 64 (rx_redirect "302 Found" "http://b/2") = .ok resp ∧
      isRedirectStatus resp.status = true ∧ resp.headers.get (hName "location") = some v := by
  obtain ⟨resp, v, h1, _, h3, _, h5, _, _⟩ := C09_follow_only (rx_settings true 5) rx_req 64 0 rx_a
    { script := rx_redirect "302 Found" "http://b/2", resolved := some rx_b } rx_b (by decide +kernel)
  exact ⟨resp, v, h1, h3, h5⟩

/-! ### (f) the chain of URLs -/

/-- One step of the loop: a followed redirect sends the next request to `next`, with one more
    redirection counted and the header map of this hop carried over. -/
theorem C09_chain_step (s : SendSettings) (req : Req) (cap n : Nat) (url next : Url)
    (hop h2 : Hop) (rest : List Hop) (hdrs : Headers) (first : Bool) :
    rd_tunnels s url = false → exchange s req cap n url hop = .follow next →
    sendLoop s req cap (hop :: h2 :: rest) url n hdrs first =
      (rd_plainOut s req url hdrs first ::
        (sendLoop s req cap (h2 :: rest) next (n + 1) (rd_hopHdrs s hdrs url) false).1,
       (sendLoop s req cap (h2 :: rest) next (n + 1) (rd_hopHdrs s hdrs url) false).2) :=
  fun ht he => rd_sendLoop_follow_cons ht he

example : sendLoop (rx_settings true 5) rx_req 64 rx_chain rx_a 0 rx_req.headers true =
    (rd_plainOut (rx_settings true 5) rx_req rx_a rx_req.headers true ::
      (sendLoop (rx_settings true 5) rx_req 64 (rx_chain.drop 1) rx_b 1
        (rd_hopHdrs (rx_settings true 5) rx_req.headers rx_a) false).1,
     (sendLoop (rx_settings true 5) rx_req 64 (rx_chain.drop 1) rx_b 1
        (rd_hopHdrs (rx_settings true 5) rx_req.headers rx_a) false).2) :=
  C09_chain_step _ _ _ _ _ _ _ _ _ _ _ (by decide +kernel) (by decide +kernel)

/-- `send` realises the inductive characterisation `Trace`, with `urlsVisited` as the URL list. -/
theorem C09_trace (s : SendSettings) (req : Req) (cap : Nat) (url : Url) (hops : List Hop) :
    Trace s req cap hops url 0 (urlsVisited s req cap url hops) (send s req cap url hops).2 :=
  rd_trace s req cap hops url 0 req.headers true

/-- … and `Trace` determines both (it is a function of the inputs). -/
theorem C09_trace_unique (s : SendSettings) (req : Req) (cap : Nat) (url : Url) (hops : List Hop)
    (us : List Url) (f : Final) :
    Trace s req cap hops url 0 us f →
    us = urlsVisited s req cap url hops ∧ f = (send s req cap url hops).2 :=
  fun h => rd_trace_unique h (C09_trace s req cap url hops)

/-- The chain a → b → c, by hand. -/
example : urlsVisited (rx_settings true 5) rx_req 64 rx_a rx_chain = [rx_a, rx_b, rx_c] ∧
    (send (rx_settings true 5) rx_req 64 rx_a rx_chain).2 = .ok 200 rx_c := by
  have h := C09_trace_unique (rx_settings true 5) rx_req 64 rx_a rx_chain [rx_a, rx_b, rx_c] (.ok 200 rx_c)
    (Trace.follow _ _ _ _ _ rx_b _ _ (by decide +kernel) (by decide +kernel)
      (Trace.follow _ _ _ _ _ rx_c _ _ (by decide +kernel) (by decide +kernel)
        (Trace.final _ _ _ _ _ (by decide +kernel) (by decide +kernel))))
  exact ⟨h.1.symm, h.2.symm⟩

/-- One observation per URL visited. -/
theorem C09_chain_length (s : SendSettings) (req : Req) (cap : Nat) (url : Url) (hops : List Hop) :
    (send s req cap url hops).1.length = (urlsVisited s req cap url hops).length :=
  rd_outs_length s req cap hops url 0 req.headers true

/-- The first request goes to the caller's URL. -/
theorem C09_chain_first (s : SendSettings) (req : Req) (cap : Nat) (url : Url) (hops : List Hop) :
    hops ≠ [] → (urlsVisited s req cap url hops)[0]? = some url := by
  intro h
  rw [← List.head?_eq_getElem?]
  exact rd_trace_head (C09_trace s req cap url hops) h

/-- Hop `i+1` goes to `next` where `hops[i].resolved = some next`: the resolution of hop `i`'s
    `Location` against hop `i`'s URL `u` (the previous hop, not the original URL) — and hop `i`'s
    response was a followed redirect within the limit. -/
theorem C09_chain_next (s : SendSettings) (req : Req) (cap : Nat) (url : Url) (hops : List Hop)
    (i : Nat) (next : Url) :
    (urlsVisited s req cap url hops)[i + 1]? = some next →
    ∃ hop u, hops[i]? = some hop ∧ (urlsVisited s req cap url hops)[i]? = some u ∧
      hop.resolved = some next ∧ exchange s req cap i u hop = .follow next := by
  intro h
  obtain ⟨hop, u, h1, h2, h3, h4⟩ := rd_trace_next (C09_trace s req cap url hops) i next h
  exact ⟨hop, u, h1, h2, h3, by simpa using h4⟩

/-- The final response carries the URL of the last hop. -/
theorem C09_chain_last (s : SendSettings) (req : Req) (cap : Nat) (url : Url) (hops : List Hop)
    (st : Nat) (u : Url) :
    (send s req cap url hops).2 = .ok st u → (urlsVisited s req cap url hops).getLast? = some u :=
  fun h => rd_trace_ok_last (C09_trace s req cap url hops) st u h

/-- The `i`-th connection is made for the `i`-th URL: to the proxy chosen for that URL, or — when
    no proxy applies to it — to that URL's own host and port. -/
theorem C09_chain_dial (s : SendSettings) (req : Req) (cap : Nat) (url : Url) (hops : List Hop)
    (i : Nat) (out : HopOut) :
    (send s req cap url hops).1[i]? = some out →
    ∃ u, (urlsVisited s req cap url hops)[i]? = some u ∧
      out.dialHost = ((s.proxy.forUrl u).getD u).host ∧
      out.dialPort = ((s.proxy.forUrl u).getD u).effPort ∧
      (s.proxy.forUrl u = none → out.dialHost = u.host ∧ out.dialPort = u.effPort ∧
        out.dialScheme = u.scheme) := by
  intro h
  obtain ⟨u, _, h1, _, h3, h4, h5, _, _⟩ := rd_outs s req cap hops url 0 req.headers true i out h
  refine ⟨u, h1, h4, h5, ?_⟩
  intro hn
  rw [rd_target_none hn] at h3 h4 h5
  exact ⟨h4, h5, h3⟩

/-- On the chain a → b → c: the third connection goes to `c` (resolved from `b`'s answer), the
    response's URL is `c`. -/
example :
    (urlsVisited (rx_settings true 5) rx_req 64 rx_a rx_chain)[2]? = some rx_c ∧
    (∃ hop u, rx_chain[1]? = some hop ∧ (urlsVisited (rx_settings true 5) rx_req 64 rx_a rx_chain)[1]? = some u ∧
      hop.resolved = some rx_c ∧ exchange (rx_settings true 5) rx_req 64 1 u hop = .follow rx_c) ∧
    (urlsVisited (rx_settings true 5) rx_req 64 rx_a rx_chain).getLast? = some rx_c :=
  ⟨by decide +kernel,
   C09_chain_next (rx_settings true 5) rx_req 64 rx_a rx_chain 1 rx_c (by decide +kernel),
   C09_chain_last (rx_settings true 5) rx_req 64 rx_a rx_chain 200 rx_c (by decide +kernel)⟩
example : ((send (rx_settings true 5) rx_req 64 rx_a rx_chain).1.map (·.dialHost)) =
    [str "a", str "b", str "c"] := by decide +kernel
example (out : HopOut) (h : (send (rx_settings true 5) rx_req 64 rx_a rx_chain).1[2]? = some out) :
    out.dialHost = str "c" := by
  obtain ⟨u, hu, _, _, hn⟩ := C09_chain_dial (rx_settings true 5) rx_req 64 rx_a rx_chain 2 out h
  have : u = rx_c := by
    have e : (urlsVisited (rx_settings true 5) rx_req 64 rx_a rx_chain)[2]? = some rx_c := by
      decide +kernel
    rw [e] at hu; exact (Option.some.inj hu).symm
  subst this
  exact (hn (by decide +kernel)).1


/-- Tie to the source: the model's set of followed statuses is the `matches!` list extracted from
    `PreparedRequest::send` on this run (`Gen/Consts.lean`), and that list is exactly the five
    statuses of the statement. -/
theorem C09_redirect_table :
    Consts.redirectStatuses.Perm [301, 302, 303, 307, 308] ∧
    ∀ s, isRedirectStatus s = Consts.redirectStatuses.contains s := by
  refine ⟨by decide, ?_⟩
  intro s
  simp only [isRedirectStatus, Consts.redirectStatuses, List.contains, List.elem]
  cases h1 : s == 301 <;> cases h2 : s == 302 <;> cases h3 : s == 303 <;> cases h4 : s == 307 <;>
    cases h5 : s == 308 <;> simp_all

end Atto
