/-
  Atto/Lemmas/BodyReads.lean — glue between the real pipeline model (`parseResponse`, `reads` over a
  scripted transport through the BufReader model) and the flat-stream theorems:
  * caller-visible events (`Ev`), `deliveredEv`;
  * the head of a well-formed response is parsed whatever the segmentation (`head_buf`,
    `parseResponse_of_head`);
  * a chunked body read through the BufReader model produces the events of the flat decoder
    (`reads_chunked_flat`);
  * one-step specifications and run invariants for `Content-Length` and close-delimited bodies.
-/
import Atto.Model.Response
import Atto.Model.Reads
import Atto.Spec.HeadSpec
import Atto.Lemmas.BufSim
import Atto.Lemmas.ReadsSim
import Atto.Lemmas.ChunkedFlat
import Atto.Lemmas.HeadFlat
namespace Atto

/-! ## Events -/

def Ev.isOk : Ev → Bool
  | .ok _ => true
  | _ => false

/-- the bytes an event hands to the caller -/
def Ev.bytes : Ev → Bytes
  | .ok bs => bs
  | _ => []

/-- concatenation of the payloads of the `.ok` events -/
def deliveredEv : List Ev → Bytes
  | [] => []
  | .ok bs :: es => bs ++ deliveredEv es
  | _ :: es => deliveredEv es

@[simp] theorem deliveredEv_nil : deliveredEv [] = [] := rfl

theorem deliveredEv_cons (e : Ev) (es : List Ev) :
    deliveredEv (e :: es) = e.bytes ++ deliveredEv es := by
  cases e <;> simp [deliveredEv, Ev.bytes]

theorem deliveredEv_map_ofRR (rs : List (RR Bytes)) :
    deliveredEv (rs.map Ev.ofRR) = delivered rs := by
  induction rs with
  | nil => rfl
  | cons r rs ih => cases r <;> simp [deliveredEv, delivered, Ev.ofRR, ih]

theorem Ev.ofRR_inj {x y : RR Bytes} (h : Ev.ofRR x = Ev.ofRR y) : x = y := by
  cases x <;> cases y <;> simp [Ev.ofRR] at h ⊢ <;> exact h

theorem getElem?_map_ofRR (rs : List (RR Bytes)) (i : Nat) (x : RR Bytes) :
    (rs.map Ev.ofRR)[i]? = some (Ev.ofRR x) ↔ rs[i]? = some x := by
  rw [List.getElem?_map]
  cases h : rs[i]? with
  | none => simp
  | some y =>
    simp only [Option.map_some, Option.some.injEq]
    exact ⟨Ev.ofRR_inj, fun h => by rw [h]⟩

theorem getElem?_map_ofRR_ok (rs : List (RR Bytes)) (i : Nat) (bs : Bytes) :
    (rs.map Ev.ofRR)[i]? = some (.ok bs) ↔ rs[i]? = some (.ok bs) :=
  getElem?_map_ofRR rs i (.ok bs)

theorem deliveredEv_take_map (rs : List (RR Bytes)) (i : Nat) :
    deliveredEv ((rs.map Ev.ofRR).take i) = delivered (rs.take i) := by
  rw [← List.map_take, deliveredEv_map_ofRR]

/-! ## Runs of reads on a body -/

theorem reads_cons (m n : Nat) (ns : List Nat) (b : Body) :
    (reads m (n :: ns) b).1 = Ev.ofRR (b.read m n).1 :: (reads m ns (b.read m n).2).1 := by
  rcases h : b.read m n with ⟨res, b'⟩
  simp [reads, h]

theorem reads_length (m : Nat) (ns : List Nat) (b : Body) : (reads m ns b).1.length = ns.length := by
  induction ns generalizing b with
  | nil => simp [reads]
  | cons n ns ih => simp [reads_cons, ih]

theorem reads_take (m : Nat) (ns : List Nat) (b : Body) (i : Nat) :
    (reads m ns b).1.take i = (reads m (ns.take i) b).1 := by
  induction ns generalizing b i with
  | nil => simp [reads]
  | cons n ns ih =>
    cases i with
    | zero => simp [reads]
    | succ i => simp [reads_cons, ih]

theorem chunked_read_eq (c : Chunked BufR) (m n : Nat) :
    (Body.chunked c).read m n = ((c.read bufSrc m n).1, .chunked (c.read bufSrc m n).2) := by
  simp [Body.read]

/-- the events of a chunked body are the results of the generic decoder over `bufSrc` -/
theorem reads_chunked (m : Nat) (ns : List Nat) (c : Chunked BufR) :
    (reads m ns (.chunked c)).1 = (readsC bufSrc m ns c).1.map Ev.ofRR := by
  induction ns generalizing c with
  | nil => simp [reads, readsC]
  | cons n ns ih =>
    rw [reads_cons, readsC_cons, chunked_read_eq]
    simp [ih]

/-- a chunked body behind the BufReader model over ANY well-formed transport produces the events of
    the decoder on the flat stream -/
theorem reads_chunked_flat (r1 : BufR) (hok : r1.Ok) (m : Nat) (ns : List Nat) :
    (reads m ns (.chunked { inner := r1 })).1 =
      (readsC flatSrc m ns (fresh r1.flat)).1.map Ev.ofRR := by
  rw [reads_chunked]
  have := (readsC_sim bufSim m ns ({ inner := r1 } : Chunked BufR) hok).1
  rw [this]
  rfl

/-! ## The head -/

/-- the BufReader `parse_response` starts with -/
def r0 (cap : Nat) (t : Transport) : BufR := { buf := [], cap := cap, inner := t }

theorem r0_flat (cap : Nat) (t : Transport) : (r0 cap t).flat = flatT t := by simp [r0, BufR.flat]

/-- whatever the segmentation, the head parser over the BufReader model returns what it returns on
    the flat stream, and leaves a healthy reader positioned where the flat parser stops -/
theorem headBuf_flatT (t : Transport) (cap mh : Nat) (hwf : wfT t) (hcap : 0 < cap) :
    ∃ r1, parseResponseHead bufSrc (r0 cap t) mh =
        ((parseResponseHead flatSrc (flatT t) mh).1, r1) ∧
      r1.Ok ∧ r1.flat = (parseResponseHead flatSrc (flatT t) mh).2 := by
  obtain ⟨a, b, hx, hy, hb⟩ :=
    (parseResponseHead_sim bufSim (r0 cap t) mh (show (r0 cap t).Ok from ⟨hwf, hcap⟩)).elim
  rw [r0_flat] at hy
  refine ⟨b, ?_, hb, ?_⟩
  · rw [hx, hy]
  · rw [hy]

theorem head_buf (h : HeadS) (hh : h.WF Consts.maxLineLen) (rest : List Item) (t : Transport)
    (cap mh : Nat) (hwf : wfT t) (hcap : 0 < cap)
    (hmh : h.fields.length ≤ mh) (hms : h.fields.length ≤ Headers.maxSize)
    (hflat : flatT t = bytesI h.render ++ rest) :
    ∃ r1, parseResponseHead bufSrc (r0 cap t) mh = (.ok (h.code, h.seen), r1) ∧
      r1.Ok ∧ r1.flat = rest := by
  obtain ⟨r1, h1, h2, h3⟩ := headBuf_flatT t cap mh hwf hcap
  rw [hflat, head_roundtrip h hh rest mh hmh hms] at h1 h3
  exact ⟨r1, h1, h2, h3⟩

/-- `parse_response` on a well-formed head: only the framing decision is left -/
theorem parseResponse_of_head (h : HeadS) (hh : h.WF Consts.maxLineLen) (rest : List Item)
    (t : Transport) (cap mh : Nat) (hwf : wfT t) (hcap : 0 < cap)
    (hmh : h.fields.length ≤ mh) (hms : h.fields.length ≤ Headers.maxSize)
    (hflat : flatT t = bytesI h.render ++ rest) :
    ∃ r1, r1.Ok ∧ r1.flat = rest ∧ ∀ m f, chooseFraming m h.code h.seen = .ok f →
      parseResponse m mh cap t = .ok {
        status := h.code, headers := h.seen.remove nameTE,
        rawHeaders := h.seen, coding := codingFor (bodyless m h.code) m h.seen, body := Body.new f r1 } := by
  obtain ⟨r1, h1, h2, h3⟩ := head_buf h hh rest t cap mh hwf hcap hmh hms hflat
  refine ⟨r1, h2, h3, ?_⟩
  intro m f hf
  have h1' : parseResponseHead bufSrc { buf := [], cap := cap, inner := t } mh =
      (.ok (h.code, h.seen), r1) := h1
  simp only [parseResponse, h1', hf]

theorem chooseFraming_chunked (m : Method) (code : Nat) (hs : Headers)
    (hnb : bodyless m code = false) (hch : isChunked hs = true) :
    chooseFraming m code hs = .ok .chunked := by
  simp [chooseFraming, hnb, hch]

theorem chooseFraming_length (m : Method) (code : Nat) (hs : Headers) (n : Nat)
    (hnb : bodyless m code = false) (hch : isChunked hs = false)
    (hcl : isContentLength hs = .ok (some n)) :
    chooseFraming m code hs = .ok (.length n) := by
  simp [chooseFraming, hnb, hch, hcl]

theorem chooseFraming_close (m : Method) (code : Nat) (hs : Headers)
    (hnb : bodyless m code = false) (hch : isChunked hs = false)
    (hcl : isContentLength hs = .ok none) :
    chooseFraming m code hs = .ok .close := by
  simp [chooseFraming, hnb, hch, hcl]

/-! ## Chunked bodies: the flat theorems at the level of events -/

section chunked
variable (r1 : BufR) (hok : r1.Ok) (maxBuf : Nat) (hmb : 0 < maxBuf) (ns : List Nat)
include hok hmb

theorem chunked_complete_ev (cs : List ChunkS) (hcs : ∀ c ∈ cs, c.WF Consts.chunkSizeLineLimit)
    (last : LastS) (hl : last.WF Consts.chunkSizeLineLimit) (trail : List Item)
    (hfl : r1.flat = bytesI (encChunks cs ++ last.enc) ++ trail) :
    let evs := (reads maxBuf ns (.chunked { inner := r1 })).1
    (∀ e ∈ evs, e.isOk) ∧ deliveredEv evs <+: payloadOf cs ∧
    (∀ i (hi : i < ns.length), 0 < ns[i] → evs[i]? = some (.ok []) →
        deliveredEv (evs.take i) = payloadOf cs) ∧
    (∀ i (hi : i < ns.length), 0 < ns[i] → deliveredEv (evs.take i) = payloadOf cs →
        evs[i]? = some (.ok [])) := by
  intro evs
  have he : evs = (readsC flatSrc maxBuf ns
      (fresh (bytesI (encChunks cs ++ last.enc) ++ trail))).1.map Ev.ofRR := by
    rw [← hfl]; exact reads_chunked_flat r1 hok maxBuf ns
  obtain ⟨h1, h2, h3, h4⟩ := chunked_complete cs hcs last hl trail maxBuf hmb ns
  rw [he]
  refine ⟨?_, ?_, ?_, ?_⟩
  · intro e hmem
    obtain ⟨x, hx, rfl⟩ := List.mem_map.1 hmem
    obtain ⟨bs, rfl⟩ := h1 x hx
    rfl
  · rw [deliveredEv_map_ofRR]; exact h2
  · intro i hi hn hev
    rw [deliveredEv_take_map]
    exact h3 i hi hn ((getElem?_map_ofRR_ok _ i []).1 hev)
  · intro i hi hn hd
    rw [deliveredEv_take_map] at hd
    exact (getElem?_map_ofRR_ok _ i []).2 (h4 i hi hn hd)

theorem chunked_progress_ev (cs : List ChunkS) (hcs : ∀ c ∈ cs, c.WF Consts.chunkSizeLineLimit)
    (rest : List Item) (hfl : r1.flat = bytesI (encChunks cs) ++ rest) :
    let evs := (reads maxBuf ns (.chunked { inner := r1 })).1
    ∀ i (hi : i < ns.length), (deliveredEv (evs.take i)).length < (payloadOf cs).length →
      (ns[i] = 0 → evs[i]? = some (.ok [])) ∧
      (0 < ns[i] → ∃ bs, evs[i]? = some (.ok bs) ∧ bs ≠ [] ∧ bs.length ≤ ns[i] ∧
                     deliveredEv (evs.take (i+1)) <+: payloadOf cs) ∧
      deliveredEv (evs.take i) <+: payloadOf cs := by
  intro evs
  have he : evs = (readsC flatSrc maxBuf ns (fresh (bytesI (encChunks cs) ++ rest))).1.map Ev.ofRR := by
    rw [← hfl]; exact reads_chunked_flat r1 hok maxBuf ns
  have hp := chunked_progress cs hcs rest maxBuf hmb ns
  rw [he]
  intro i hi hlt
  rw [deliveredEv_take_map] at hlt
  obtain ⟨h1, h2, h3⟩ := hp i hi hlt
  refine ⟨?_, ?_, ?_⟩
  · intro hn; exact (getElem?_map_ofRR_ok _ i []).2 (h1 hn)
  · intro hn
    obtain ⟨bs, hb1, hb2, hb3, hb4⟩ := h2 hn
    exact ⟨bs, (getElem?_map_ofRR_ok _ i bs).2 hb1, hb2, hb3, by rw [deliveredEv_take_map]; exact hb4⟩
  · rw [deliveredEv_take_map]; exact h3

theorem chunked_truncated_ev (cs : List ChunkS) (hcs : ∀ c ∈ cs, c.WF Consts.chunkSizeLineLimit)
    (part : Bytes) (tailItems : List Item)
    (hp : (∃ c : ChunkS, c.WF Consts.chunkSizeLineLimit ∧ part.length < c.enc.length ∧ part <+: c.enc) ∨
          (∃ l : LastS, l.WF Consts.chunkSizeLineLimit ∧ part.length < l.enc.length ∧ part <+: l.enc))
    (ht : tailItems = [] ∨ (∃ k r, k ≠ 0 ∧ tailItems = .err k :: r) ∨
          (∃ r, tailItems = .pause :: r))
    (hfl : r1.flat = bytesI (encChunks cs ++ part) ++ tailItems) :
    let evs := (reads maxBuf ns (.chunked { inner := r1 })).1
    (∀ i (hi : i < ns.length), 0 < ns[i] → evs[i]? ≠ some (.ok [])) ∧
    (∀ e ∈ evs, e ≠ .panic) ∧
    (∃ d : Bytes,
      ((∃ c : ChunkS, c.WF Consts.chunkSizeLineLimit ∧ part.length < c.enc.length ∧ part <+: c.enc ∧
          d = c.data) ∨
       (d = [] ∧ ∃ l : LastS, l.WF Consts.chunkSizeLineLimit ∧ part.length < l.enc.length ∧
          part <+: l.enc)) ∧
      deliveredEv evs <+: payloadOf cs ++ d) ∧
    (∀ i j, i ≤ j → j < evs.length → (∀ bs, evs[i]? ≠ some (.ok bs)) →
      (∀ bs, evs[j]? ≠ some (.ok bs))) := by
  intro evs
  have he : evs = (readsC flatSrc maxBuf ns
      (fresh (bytesI (encChunks cs ++ part) ++ tailItems))).1.map Ev.ofRR := by
    rw [← hfl]; exact reads_chunked_flat r1 hok maxBuf ns
  obtain ⟨h1, h2, ⟨d, hd, h3⟩, h4⟩ := chunked_truncated cs hcs part tailItems maxBuf hmb ns hp ht
  rw [he]
  refine ⟨?_, ?_, ⟨d, hd, ?_⟩, ?_⟩
  · intro i hi hn hev
    exact h1 i hi hn ((getElem?_map_ofRR_ok _ i []).1 hev)
  · intro e hmem
    obtain ⟨x, hx, rfl⟩ := List.mem_map.1 hmem
    have := h2 x hx
    cases x <;> simp_all [Ev.ofRR]
  · rw [deliveredEv_map_ofRR]; exact h3
  · intro i j hij hj hi bs hb
    rw [List.length_map] at hj
    refine h4 i j hij hj ?_ bs ((getElem?_map_ofRR_ok _ j bs).1 hb)
    intro bs' hb'
    exact hi bs' ((getElem?_map_ofRR_ok _ i bs').2 hb')

end chunked

/-! ## Segmentation independence of `parse_response` -/

/-- `parse_response` over any segmentation, in terms of the head parser on the flat stream -/
theorem parseResponse_flat (t : Transport) (cap mh : Nat) (m : Method) (hwf : wfT t) (hcap : 0 < cap) :
    ∃ r1, r1.Ok ∧ r1.flat = (parseResponseHead flatSrc (flatT t) mh).2 ∧
      parseResponse m mh cap t =
        match (parseResponseHead flatSrc (flatT t) mh).1 with
        | .ok (status, hs) =>
          (match chooseFraming m status hs with
           | .error e => .err e
           | .ok f => .ok {
               status := status, headers := hs.remove nameTE, rawHeaders := hs,
               coding := codingFor (bodyless m status) m hs, body := Body.new f r1 })
        | .err e => .err e
        | .blocked => .blocked
        | .panic => .panic := by
  obtain ⟨r1, h1, h2, h3⟩ := headBuf_flatT t cap mh hwf hcap
  refine ⟨r1, h2, h3, ?_⟩
  have h1' : parseResponseHead bufSrc { buf := [], cap := cap, inner := t } mh =
      ((parseResponseHead flatSrc (flatT t) mh).1, r1) := h1
  simp only [parseResponse, h1']
  rcases (parseResponseHead flatSrc (flatT t) mh).1 with ⟨status, hs⟩ | e | _ | _ <;> rfl

theorem parseResponse_seg_indep (t1 t2 : Transport) (cap1 cap2 mh maxBuf : Nat) (m : Method)
    (ns : List Nat) (hw1 : wfT t1) (hw2 : wfT t2) (hc1 : 0 < cap1) (hc2 : 0 < cap2)
    (hf : flatT t1 = flatT t2) :
    (parseResponse m mh cap1 t1).map (fun r => (r.status, r.headers, r.coding)) =
      (parseResponse m mh cap2 t2).map (fun r => (r.status, r.headers, r.coding)) ∧
    ∀ ra rb ca cb, parseResponse m mh cap1 t1 = .ok ra → parseResponse m mh cap2 t2 = .ok rb →
      ra.body = .chunked ca → rb.body = .chunked cb →
      (reads maxBuf ns ra.body).1 = (reads maxBuf ns rb.body).1 := by
  obtain ⟨r1, hok1, hfl1, hp1⟩ := parseResponse_flat t1 cap1 mh m hw1 hc1
  obtain ⟨r2, hok2, hfl2, hp2⟩ := parseResponse_flat t2 cap2 mh m hw2 hc2
  rw [hf] at hfl1 hp1
  have hfl : r1.flat = r2.flat := hfl1.trans hfl2.symm
  rw [hp1, hp2]
  rcases (parseResponseHead flatSrc (flatT t2) mh).1 with ⟨status, hs⟩ | e | _ | _
  · simp only
    cases hcf : chooseFraming m status hs with
    | error e => simp
    | ok f =>
      simp only [RR.map_ok, true_and]
      intro ra rb ca cb ha hb hca hcb
      cases ha; cases hb
      cases f with
      | chunked =>
        simp only [Body.new]
        rw [reads_chunked_flat r1 hok1, reads_chunked_flat r2 hok2, hfl]
      | length n => simp [Body.new] at hca
      | close => simp [Body.new] at hca
  all_goals simp

end Atto
