/-
  Atto/Lemmas/RqRoundTrip.lean — the independent request parser of Spec/RequestSpec.lean reads back
  what the model's writer (`writeRequest`, `writeHeaders`, `writeBody`, `connectRequest`) writes:
  lines, request line, field lines, field section, chunked body.  Used by Props/C07 and Props/C12.
-/
import Atto.Spec.RequestSpec
import Atto.Lemmas.RqLex
import Atto.Lemmas.RqRadix
import Atto.Lemmas.RqHeaders
namespace Atto

/-! ### byte classes: the model's (http crate) classes against the spec's -/

theorem rq_tchar_facts : ∀ b : UInt8, isTchar b = true →
    rqIsTokenByte b = true ∧ b ≠ 32 ∧ b ≠ 13 ∧ b ≠ 10 ∧ b ≠ 58 ∧ b ≠ 9 := by
  apply rq_all_u8
  decide +kernel

theorem rq_valueByte_facts : ∀ b : UInt8, isValueByte b = true →
    rqIsFieldByte b = true ∧ b ≠ 13 ∧ b ≠ 10 := by
  apply rq_all_u8
  decide +kernel

/-! ### well-formedness of what the caller hands to the writer -/

/-- a field name / method: non-empty token -/
def rqToken (n : Bytes) : Prop := n ≠ [] ∧ ∀ b ∈ n, isTchar b = true

/-- a field value: value bytes (no CR, LF, NUL …), no leading or trailing SP / HTAB -/
def rqWFValue (v : Bytes) : Prop :=
  (∀ b ∈ v, isValueByte b = true) ∧ v.head? ≠ some 32 ∧ v.head? ≠ some 9 ∧
  v.getLast? ≠ some 32 ∧ v.getLast? ≠ some 9

instance (n : Bytes) : Decidable (rqToken n) := by unfold rqToken; infer_instance
instance (v : Bytes) : Decidable (rqWFValue v) := by unfold rqWFValue; infer_instance

/-- every name a non-empty token, every value well-formed -/
def Headers.WFHead (h : Headers) : Prop := ∀ p ∈ h, rqToken p.1 ∧ rqWFValue p.2

/-- what the request builder guarantees (`HeaderName` is lower-case): every name a non-empty
    lower-case token, every value made of value bytes without CR / LF and without leading or
    trailing SP / HTAB -/
def Headers.WFReq (h : Headers) : Prop := ∀ p ∈ h, rqToken p.1 ∧ lowerBytes p.1 = p.1 ∧ rqWFValue p.2

instance (h : Headers) : Decidable (Headers.WFHead h) := by unfold Headers.WFHead; infer_instance
instance (h : Headers) : Decidable (Headers.WFReq h) := by unfold Headers.WFReq; infer_instance

theorem Headers.WFReq.head {h : Headers} (hw : h.WFReq) : h.WFHead :=
  fun p hp => ⟨(hw p hp).1, (hw p hp).2.2⟩

/-! ### lines -/

theorem rq_splitCRLF_append (l r : Bytes) (h : (13 : UInt8) ∉ l) :
    rqSplitCRLF (l ++ 13 :: 10 :: r) = some (l, r) := by
  induction l with
  | nil => simp [rqSplitCRLF]
  | cons a l ih =>
    have ha : a ≠ 13 := fun e => h (by simp [e])
    have hl : (13 : UInt8) ∉ l := fun e => h (by simp [e])
    simp [rqSplitCRLF, ha, ih hl]

theorem rq_dropWhile_ows (v : Bytes) (h1 : v.head? ≠ some 32) (h2 : v.head? ≠ some 9) :
    v.dropWhile rqIsOWS = v := by
  cases v with
  | nil => rfl
  | cons a v =>
    have ha : rqIsOWS a = false := by
      simp only [List.head?_cons, ne_eq, Option.some.injEq] at h1 h2
      simp [rqIsOWS, h1, h2]
    simp [ha]

theorem rq_trimOWS (v : Bytes) (hv : rqWFValue v) : rqTrimOWS (32 :: v) = v := by
  obtain ⟨_, h1, h2, h3, h4⟩ := hv
  unfold rqTrimOWS
  have : (32 :: v).dropWhile rqIsOWS = v.dropWhile rqIsOWS := by simp [rqIsOWS]
  rw [this, rq_dropWhile_ows v h1 h2, rq_dropWhile_ows v.reverse (by simpa using h3) (by simpa using h4)]
  simp

/-- the request line -/
theorem rq_parseRequestLine (m t : Bytes) (hm : rqToken m) (ht : t ≠ [])
    (ht' : ∀ c ∈ t, c ≠ 32 ∧ c ≠ 13 ∧ c ≠ 10) :
    rqParseRequestLine (m ++ 32 :: (t ++ 32 :: str "HTTP/1.1")) = some (m, t) := by
  have hm32 : (32 : UInt8) ∉ m := fun h => (rq_tchar_facts 32 (hm.2 32 h)).2.1 rfl
  have ht32 : (32 : UInt8) ∉ t := fun h => (ht' 32 h).1 rfl
  unfold rqParseRequestLine
  rw [rq_takeWhile_ne 32 m _ hm32, rq_dropWhile_ne 32 m _ hm32]
  simp only
  rw [rq_takeWhile_ne 32 t _ ht32, rq_dropWhile_ne 32 t _ ht32]
  have h1 : m.all rqIsTokenByte = true := by
    rw [List.all_eq_true]; intro b hb; exact (rq_tchar_facts b (hm.2 b hb)).1
  have h2 : rqNoCRLF (m ++ 32 :: (t ++ 32 :: str "HTTP/1.1")) = true := by
    unfold rqNoCRLF
    rw [List.all_eq_true]
    intro b hb
    simp only [List.mem_append, List.mem_cons] at hb
    rcases hb with hb | rfl | hb | rfl | hb
    · have := rq_tchar_facts b (hm.2 b hb); simp [this.2.2.1, this.2.2.2.1]
    · decide
    · have := ht' b hb; simp [this.2.1, this.2.2]
    · decide
    · rw [rq_str_http11] at hb
      revert b; decide
  simp [hm.1, h1, ht, h2]

/-- one field line -/
theorem rq_parseFieldLine (n v : Bytes) (hn : rqToken n) (hv : rqWFValue v) :
    rqParseFieldLine (n ++ str ": " ++ v) = some (n, v) := by
  have hn58 : (58 : UInt8) ∉ n := fun h => (rq_tchar_facts 58 (hn.2 58 h)).2.2.2.2.1 rfl
  unfold rqParseFieldLine
  rw [rq_str_colonsp]
  simp only [List.append_assoc, List.cons_append, List.nil_append]
  rw [rq_takeWhile_ne 58 n _ hn58, rq_dropWhile_ne 58 n _ hn58]
  simp only
  rw [rq_trimOWS v hv]
  have h1 : n.all rqIsTokenByte = true := by
    rw [List.all_eq_true]; intro b hb; exact (rq_tchar_facts b (hn.2 b hb)).1
  have h2 : v.all rqIsFieldByte = true := by
    rw [List.all_eq_true]; intro b hb; exact (rq_valueByte_facts b (hv.1 b hb)).1
  simp [hn.1, h1, h2]

theorem rq_fieldLine_no13 (n v : Bytes) (hn : rqToken n) (hv : rqWFValue v) :
    (13 : UInt8) ∉ n ++ str ": " ++ v := by
  rw [rq_str_colonsp]
  simp only [List.mem_append, List.mem_cons, List.not_mem_nil, or_false, not_or]
  refine ⟨⟨fun h => (rq_tchar_facts 13 (hn.2 13 h)).2.2.1 rfl, by decide⟩,
    fun h => (rq_valueByte_facts 13 (hv.1 13 h)).2.1 rfl⟩

/-- the field section -/
theorem rq_parseFields (h : Headers) (hw : h.WFHead) (rest : Bytes) :
    ∀ fuel, h.length < fuel → rqParseFields fuel (writeHeaders h ++ rest) = some (h, rest) := by
  induction h with
  | nil =>
    intro fuel hf
    cases fuel with
    | zero => omega
    | succ f => simp [writeHeaders, rqParseFields, rqSplitCRLF]
  | cons p h ih =>
    intro fuel hf
    cases fuel with
    | zero => omega
    | succ f =>
      have hp := hw p (by simp)
      have hw' : Headers.WFHead h := fun q hq => hw q (by simp [hq])
      have e : writeHeaders (p :: h) ++ rest =
          (p.1 ++ str ": " ++ p.2) ++ 13 :: 10 :: (writeHeaders h ++ rest) := by
        simp [writeHeaders, List.append_assoc]
      rw [e, rqParseFields, rq_splitCRLF_append _ _ (rq_fieldLine_no13 p.1 p.2 hp.1 hp.2)]
      have hne : p.1 ++ str ": " ++ p.2 ≠ [] := by
        intro h0
        have := hp.1.1
        simp at h0
        exact this h0.1
      simp only [hne, if_false, rq_parseFieldLine p.1 p.2 hp.1 hp.2,
        ih hw' f (by simp at hf; omega), Option.map_some]

/-! ### chunked body -/

/-- one chunk as `ChunkedWriter::write` emits it for a non-empty slice -/
def rqEncChunk (w : Bytes) : Bytes := hexLower w.length ++ [13, 10] ++ w ++ [13, 10]

def rqNonEmpty (ws : List Bytes) : List Bytes := ws.filter (fun w => w ≠ [])

theorem rq_chunkedWrite_nil : chunkedWrite [] = [] := rfl

theorem rq_chunkedWrite_cons (a : UInt8) (w : Bytes) : chunkedWrite (a :: w) = rqEncChunk (a :: w) := by
  simp [chunkedWrite, rqEncChunk]

/-- empty slices produce no bytes: the chunk stream is the encoding of the non-empty writes -/
theorem rq_chunks_flatten (ws : List Bytes) :
    (ws.map chunkedWrite).flatten = ((rqNonEmpty ws).map rqEncChunk).flatten := by
  induction ws with
  | nil => rfl
  | cons w ws ih =>
    cases w with
    | nil => simpa [rqNonEmpty, chunkedWrite] using ih
    | cons a w =>
      have : rqNonEmpty ((a :: w) :: ws) = (a :: w) :: rqNonEmpty ws := by simp [rqNonEmpty]
      rw [this]
      simp only [List.map_cons, List.flatten_cons, rq_chunkedWrite_cons, ih]

theorem rq_nonEmpty_flatten (ws : List Bytes) : (rqNonEmpty ws).flatten = ws.flatten := by
  induction ws with
  | nil => rfl
  | cons w ws ih =>
    cases w with
    | nil => simpa [rqNonEmpty] using ih
    | cons a w =>
      have : rqNonEmpty ((a :: w) :: ws) = (a :: w) :: rqNonEmpty ws := by simp [rqNonEmpty]
      rw [this]; simp [ih]

theorem rq_nonEmpty_ne (ws : List Bytes) : ∀ w ∈ rqNonEmpty ws, 1 ≤ w.length := by
  intro w hw
  simp only [rqNonEmpty, List.mem_filter, decide_eq_true_eq] at hw
  cases w with
  | nil => exact absurd rfl hw.2
  | cons a w => simp

theorem rq_parseHex_zero : rqParseHex [48] = some 0 := by decide

/-- the spec decoder reads back a sequence of non-empty chunks followed by the last-chunk, and
    leaves what follows untouched -/
theorem rq_decodeChunks_enc (ws : List Bytes) (hne : ∀ w ∈ ws, 1 ≤ w.length) (rest : Bytes) :
    ∀ fuel, ((ws.map rqEncChunk).flatten ++ [48, 13, 10, 13, 10] ++ rest).length < fuel →
      rqDecodeChunks fuel ((ws.map rqEncChunk).flatten ++ [48, 13, 10, 13, 10] ++ rest) = some (ws, rest) := by
  induction ws with
  | nil =>
    intro fuel hf
    cases fuel with
    | zero => omega
    | succ f =>
      have e : ([] : List Bytes).map rqEncChunk = [] := rfl
      simp only [e, List.flatten_nil, List.nil_append, List.cons_append]
      have hs := rq_splitCRLF_append [48] (13 :: 10 :: rest) (by decide)
      simp only [List.cons_append, List.nil_append] at hs
      rw [rqDecodeChunks, hs]
      simp [rq_parseHex_zero]
  | cons w ws ih =>
    intro fuel hf
    cases fuel with
    | zero => omega
    | succ f =>
      have hw := hne w (by simp)
      have hne' : ∀ x ∈ ws, 1 ≤ x.length := fun x hx => hne x (by simp [hx])
      generalize htl : (ws.map rqEncChunk).flatten ++ [48, 13, 10, 13, 10] ++ rest = tail at ih hf
      have e : ((w :: ws).map rqEncChunk).flatten ++ [48, 13, 10, 13, 10] ++ rest =
          hexLower w.length ++ 13 :: 10 :: (w ++ 13 :: 10 :: tail) := by
        rw [← htl]; simp [rqEncChunk, List.append_assoc]
      rw [e] at hf ⊢
      rw [rqDecodeChunks, rq_splitCRLF_append _ _ (rq_hexLower_no13 w.length)]
      simp only []
      rw [rq_hexLower_parse]
      obtain ⟨k, hk⟩ : ∃ k, w.length = k + 1 := ⟨w.length - 1, by omega⟩
      have h1 : ¬ ((w ++ 13 :: 10 :: tail).length < w.length + 2 ∨
          ((w ++ 13 :: 10 :: tail).drop w.length).take 2 ≠ [13, 10]) := by
        simp
      have h2 : (w ++ 13 :: 10 :: tail).drop (w.length + 2) = tail := by
        rw [← List.drop_drop]; simp
      have h3 : (w ++ 13 :: 10 :: tail).take w.length = w := by simp
      have hrec := ih hne' f (by
        simp only [List.length_append, List.length_cons] at hf; omega)
      revert h1 h2 h3
      rw [hk]
      intro h1 h2 h3
      simp only [h1, if_false, h2, h3, hrec, Option.map_some]

theorem rq_decodeChunks_enc' (ws : List Bytes) (hne : ∀ w ∈ ws, 1 ≤ w.length) (rest : Bytes) :
    decodeChunks ((ws.map rqEncChunk).flatten ++ [48, 13, 10, 13, 10] ++ rest) = some (ws, rest) :=
  rq_decodeChunks_enc ws hne rest _ (Nat.lt_succ_self _)

/-- `writeBody` of a chunked body, decoded -/
theorem rq_writeBody_chunked (b : BodyM) (hk : b.kind = .chunked) :
    writeBody b = ((rqNonEmpty b.writes).map rqEncChunk).flatten ++ [48, 13, 10, 13, 10] := by
  simp only [writeBody, hk, rq_chunks_flatten, rq_str_last]

/-! ### looking fields up -/

theorem rq_fieldValues_getAll (hs : Headers) (n : Bytes) (hl : ∀ p ∈ hs, lowerBytes p.1 = p.1) :
    rqFieldValues hs n = hs.getAll n := by
  induction hs with
  | nil => rfl
  | cons p hs ih =>
    have hp := hl p (by simp)
    have ih' := ih (fun q hq => hl q (by simp [hq]))
    rw [rq_getAll_cons, ← ih']
    unfold rqFieldValues
    by_cases h : p.1 = n
    · subst h; simp [hp]
    · simp [hp, h]

/-! ### well-formedness is preserved by the header-map operations -/

theorem rq_WFReq_remove (h : Headers) (n : Bytes) (hw : h.WFReq) : (h.remove n).WFReq := by
  intro p hp
  simp only [Headers.remove, List.mem_filter] at hp
  exact hw p hp.1

theorem rq_WFReq_append (h : Headers) (n v : Bytes) (hw : h.WFReq) (hn : rqToken n)
    (hl : lowerBytes n = n) (hv : rqWFValue v) : Headers.WFReq (h ++ [(n, v)]) := by
  intro p hp
  simp only [List.mem_append, List.mem_cons, List.not_mem_nil, or_false] at hp
  rcases hp with hp | rfl
  · exact hw p hp
  · exact ⟨hn, hl, hv⟩

theorem rq_WFReq_insert (h : Headers) (n v : Bytes) (hw : h.WFReq) (hn : rqToken n)
    (hl : lowerBytes n = n) (hv : rqWFValue v) : (h.insert n v).WFReq :=
  rq_WFReq_append _ n v (rq_WFReq_remove h n hw) hn hl hv

theorem rq_WFReq_insertIfMissing (h : Headers) (n v : Bytes) (hw : h.WFReq) (hn : rqToken n)
    (hl : lowerBytes n = n) (hv : rqWFValue v) : (h.insertIfMissing n v).WFReq := by
  unfold Headers.insertIfMissing
  split
  · exact hw
  · exact rq_WFReq_append h n v hw hn hl hv

theorem rq_natDigits_WFValue (n : Nat) : rqWFValue (natDigits n) := by
  have h := rq_natDigits_valueBytes n
  refine ⟨fun b hb => (h b hb).1, ?_, ?_, ?_, ?_⟩
  · intro e; exact (h 32 (List.mem_of_mem_head? e)).2.1 rfl
  · intro e; exact (h 9 (List.mem_of_mem_head? e)).2.2.1 rfl
  · intro e; exact (h 32 (List.mem_of_getLast? e)).2.1 rfl
  · intro e; exact (h 9 (List.mem_of_getLast? e)).2.2.1 rfl

/-- `tryPrepare` keeps the header map well-formed provided the configured User-Agent and the body's
    Content-Type are well-formed values -/
theorem rq_WFReq_tryPrepare (s : PrepSettings) (h0 : Headers) (b : BodyM) (hw : h0.WFReq)
    (hua : rqWFValue s.userAgent) (hct : ∀ t, b.contentType = some t → rqWFValue t) :
    (tryPrepare s h0 b).WFReq := by
  unfold tryPrepare
  apply rq_WFReq_insertIfMissing _ _ _ _ (by rw [rq_hName]; decide +kernel) (by rw [rq_hName]; decide +kernel) hua
  apply rq_WFReq_insertIfMissing _ _ _ _ (by rw [rq_hName]; decide +kernel) (by rw [rq_hName]; decide +kernel)
    (by decide +kernel)
  have h1 : Headers.WFReq (if s.allowCompression then h0.insert (hName "accept-encoding") (str "gzip, deflate") else h0) := by
    split
    · exact rq_WFReq_insert _ _ _ hw (by rw [rq_hName]; decide +kernel) (by rw [rq_hName]; decide +kernel)
        (by decide +kernel)
    · exact hw
  have h2 := rq_WFReq_insert _ (hName "connection") (str "close") h1 (by rw [rq_hName]; decide +kernel)
    (by rw [rq_hName]; decide +kernel) (by decide +kernel)
  have h3 := rq_WFReq_remove _ nameTE (rq_WFReq_remove _ nameCL h2)
  have h4 : Headers.WFReq (match b.kind with
      | .empty => ((Headers.insert (if s.allowCompression then h0.insert (hName "accept-encoding") (str "gzip, deflate") else h0)
          (hName "connection") (str "close")).remove nameCL).remove nameTE
      | .known len => (((Headers.insert (if s.allowCompression then h0.insert (hName "accept-encoding") (str "gzip, deflate") else h0)
          (hName "connection") (str "close")).remove nameCL).remove nameTE).insert nameCL (natDigits len)
      | .chunked => (((Headers.insert (if s.allowCompression then h0.insert (hName "accept-encoding") (str "gzip, deflate") else h0)
          (hName "connection") (str "close")).remove nameCL).remove nameTE).insert nameTE (str "chunked")) := by
    split
    · exact h3
    · exact rq_WFReq_insert _ _ _ h3 (by rw [rq_nameCL]; decide +kernel) (by rw [rq_nameCL]; decide +kernel)
        (rq_natDigits_WFValue _)
    · exact rq_WFReq_insert _ _ _ h3 (by rw [rq_nameTE]; decide +kernel) (by rw [rq_nameTE]; decide +kernel)
        (by decide +kernel)
  split
  · next t ht => exact rq_WFReq_insert _ _ _ h4 (by rw [rq_hName]; decide +kernel) (by rw [rq_hName]; decide +kernel) (hct t ht)
  · exact h4

theorem rq_WFReq_setHost (h : Headers) (u : Url) (hw : h.WFReq) (hau : rqWFValue u.authority) :
    (setHost h u).WFReq :=
  rq_WFReq_insert _ _ _ hw (by rw [rq_hName]; decide +kernel) (by rw [rq_hName]; decide +kernel) hau

theorem rq_writeHeaders_length (h : Headers) : h.length < (writeHeaders h).length := by
  induction h with
  | nil => simp [writeHeaders]
  | cons p h ih =>
    have : writeHeaders (p :: h) = (p.1 ++ str ": " ++ p.2 ++ [13, 10]) ++ writeHeaders h := by
      simp [writeHeaders, List.append_assoc]
    rw [this]
    simp only [List.length_append, List.length_cons, List.length_nil]
    omega

/-- head of a request: request line and field section are read back, the rest is untouched -/
theorem rq_parse_head (m t : Bytes) (h : Headers) (rest : Bytes) (hm : rqToken m) (ht : t ≠ [])
    (ht' : ∀ c ∈ t, c ≠ 32 ∧ c ≠ 13 ∧ c ≠ 10) (hw : h.WFHead) :
    parseRequest (m ++ [32] ++ t ++ str " HTTP/1.1\r\n" ++ writeHeaders h ++ rest) =
      match rqParseBody h rest with
      | none => none
      | some (body, left) => some ({ method := m, target := t, headers := h, body := body }, left) := by
  have e : m ++ [32] ++ t ++ str " HTTP/1.1\r\n" ++ writeHeaders h ++ rest =
      (m ++ 32 :: (t ++ 32 :: str "HTTP/1.1")) ++ 13 :: 10 :: (writeHeaders h ++ rest) := by
    rw [rq_str_http11crlf]; simp [List.append_assoc]
  have h13 : (13 : UInt8) ∉ m ++ 32 :: (t ++ 32 :: str "HTTP/1.1") := by
    rw [rq_str_http11]
    simp only [List.mem_append, List.mem_cons, List.not_mem_nil, or_false, not_or]
    refine ⟨fun hh => (rq_tchar_facts 13 (hm.2 13 hh)).2.2.1 rfl, by decide, fun hh => (ht' 13 hh).2.1 rfl, ?_⟩
    decide
  rw [e, parseRequest, rq_splitCRLF_append _ _ h13]
  simp only []
  rw [rq_parseRequestLine m t hm ht ht']
  simp only []
  rw [rq_parseFields h hw rest _ (by
    have := rq_writeHeaders_length h
    simp only [List.length_append]; omega)]
  rfl

end Atto
