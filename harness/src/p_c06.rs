//! C06 — gzip/deflate bodies are decoded transparently and damage is reported.
use std::io::Write;

use crate::case::{Case, Sink};
use crate::delivery;
use crate::resp::{run_resp, Ev, HeadOut, Reads, RespCase};
use crate::respgen::{interesting_offsets, segment};
use crate::rng::Rng;
use crate::spec::{Decoded, End};
use flate2::Compression;

fn payload(rng: &mut Rng) -> (Vec<u8>, &'static str) {
    match rng.below(6) {
        0 => (vec![], "empty"),
        1 => {
            let n = rng.range(1, 3000) as usize;
            (rng.bytes(n), "incompressible")
        }
        2 => {
            let n = rng.range(1000, 100_000) as usize;
            (b"abcabcabcabcabc ".iter().cycle().take(n).copied().collect(), "repetitive")
        }
        3 => {
            let n = rng.range(66_000, 200_000) as usize;
            (rng.bytes(n), ">64K")
        }
        4 => (b"x".to_vec(), "1-byte"),
        _ => {
            let n = rng.range(1, 2000) as usize;
            ((0..n).map(|i| (i % 97) as u8 + 32).collect(), "text")
        }
    }
}

pub fn gzip(data: &[u8], level: u32, rng: &mut Rng) -> Vec<u8> {
    let mut b = flate2::GzBuilder::new();
    if rng.chance(1, 3) {
        b = b.filename("name.txt");
    }
    if rng.chance(1, 3) {
        b = b.comment("a comment");
    }
    if rng.chance(1, 3) {
        b = b.extra(vec![1, 2, 3, 4, 5]);
    }
    let mut e = b.write(Vec::new(), Compression::new(level));
    e.write_all(data).unwrap();
    e.finish().unwrap()
}

pub fn deflate(data: &[u8], level: u32) -> Vec<u8> {
    let mut e = flate2::write::DeflateEncoder::new(Vec::new(), Compression::new(level));
    e.write_all(data).unwrap();
    e.finish().unwrap()
}

pub fn generate(seed: u64, tier: &str, sink: &mut Sink) {
    let mut rng = Rng::new(seed ^ 0xC06);
    let thorough = tier == "thorough";
    let n = if thorough { 20_000 } else { 1500 };
    for _ in 0..n {
        let (data, pname) = payload(&mut rng);
        let level = rng.below(10) as u32;
        // how the coding is declared
        let (coding, header): (&str, Vec<u8>) = match rng.below(12) {
            0 => ("plain", vec![]),
            1 => ("plain", b"Content-Encoding: identity\r\n".to_vec()),
            2 => ("gzip", b"Content-Encoding: gzip\r\n".to_vec()),
            3 => ("gzip", b"content-encoding: GZip\r\n".to_vec()),
            4 => ("gzip", b"Content-Encoding: identity, gzip\r\n".to_vec()),
            5 => ("deflate", b"Content-Encoding: deflate\r\n".to_vec()),
            6 => ("deflate", b"CONTENT-ENCODING: Deflate\r\n".to_vec()),
            7 => ("deflate", b"Content-Encoding: x, deflate , y\r\n".to_vec()),
            8 => ("gzip", b"Content-Encoding: gzip\r\nX-Other: 1\r\n".to_vec()),
            9 => ("plain", b"Content-Encoding: xgzip, gzipx, de-flate\r\n".to_vec()),
            10 => ("gzip-te", vec![]),
            _ => ("deflate", b"Content-Encoding: br\r\nContent-Encoding: deflate\r\n".to_vec()),
        };
        let method = if rng.chance(1, 10) { "HEAD" } else { *rng.pick(&["GET", "POST"]) };
        let encoded = match coding {
            "gzip" | "gzip-te" => gzip(&data, level, &mut rng),
            "deflate" => deflate(&data, level),
            _ => data.clone(),
        };
        // damage
        let (wire_body, damage): (Vec<u8>, &str) = if coding != "plain" && method != "HEAD" {
            match rng.below(6) {
                0 if encoded.len() > 1 => {
                    let k = rng.below(encoded.len() as u64 - 1) as usize + 1;
                    (encoded[..k].to_vec(), "truncated")
                }
                1 if coding.starts_with("gzip") && encoded.len() >= 8 => {
                    let mut e = encoded.clone();
                    let p = e.len() - 1 - rng.below(8) as usize;
                    e[p] ^= 1 << rng.below(8);
                    (e, "trailer-bitflip")
                }
                _ => (encoded.clone(), "none"),
            }
        } else {
            (encoded.clone(), "none")
        };
        // framing
        let framing = rng.below(3);
        // (a content coding is taken off whatever the status: a 206 that carries a complete coded representation, an
        // error page — seed C06-seed12: 206 handed out raw)
        let status = *rng.pick(&[200u16, 200, 200, 206, 206, 201, 203, 404, 500, 226]);
        let mut head = format!("HTTP/1.1 {} X\r\n", status).into_bytes();
        head.extend_from_slice(&header);
        let mut body = vec![];
        match framing {
            0 => {
                // every spelling of "chunked is the final transfer coding": one list, one field line per coding,
                // empty list elements (RFC 9110 §5.6.1), HTAB as optional whitespace (seed C06-seed8)
                let te: &[u8] = if coding == "gzip-te" {
                    *rng.pick(&[
                        &b"Transfer-Encoding: gzip, chunked\r\n"[..],
                        b"Transfer-Encoding: gzip, chunked\r\n",
                        b"Transfer-Encoding: gzip\r\nTransfer-Encoding: chunked\r\n",
                        b"Transfer-Encoding: gzip, chunked,\r\n",
                        b"transfer-encoding: GZIP\t,\tChunked\r\n",
                        b"Transfer-Encoding: gzip\r\nX-Between: 1\r\nTransfer-Encoding: , chunked\r\n",
                    ])
                } else {
                    *rng.pick(&[
                        &b"Transfer-Encoding: chunked\r\n"[..],
                        b"Transfer-Encoding: chunked\r\n",
                        b"Transfer-Encoding: chunked\r\n",
                        b"Transfer-Encoding: identity\r\nTransfer-Encoding: chunked\r\n",
                        b"Transfer-Encoding: chunked,\r\n",
                        b"Transfer-Encoding: ,chunked\r\n",
                    ])
                };
                head.extend_from_slice(te);
                let mut i = 0;
                // chunk sizes: small pieces, or a few large chunks (beyond the 64 KiB piece buffer)
                let big_chunks = rng.chance(1, 3);
                while i < wire_body.len() {
                    let k = if big_chunks { rng.range(60_000, 200_000) as usize } else { rng.range(1, 5000) as usize };
                    let piece = &wire_body[i..(i + k).min(wire_body.len())];
                    body.extend_from_slice(format!("{:x}\r\n", piece.len()).as_bytes());
                    body.extend_from_slice(piece);
                    body.extend_from_slice(b"\r\n");
                    i += k;
                }
                body.extend_from_slice(b"0\r\n\r\n");
            }
            1 => {
                if coding == "gzip-te" {
                    head.extend_from_slice(b"Transfer-Encoding: gzip\r\n");
                }
                head.extend_from_slice(format!("Content-Length: {}\r\n", wire_body.len()).as_bytes());
                body = wire_body.clone();
            }
            _ => {
                if coding == "gzip-te" {
                    head.extend_from_slice(b"Transfer-Encoding: gzip\r\n");
                }
                body = wire_body.clone();
            }
        }
        // `Transfer-Encoding: gzip` without chunked on a length/close framing is still "declares gzip"
        head.extend_from_slice(b"\r\n");
        let mut wire = head.clone();
        wire.extend_from_slice(&body);
        // what follows the frame on the connection is not body: where the framing marks the end (chunked,
        // Content-Length), one case in three is followed by more bytes — for a truncated stream by the very bytes
        // that were cut off, so a decoder that is handed anything beyond the frame would find its stream complete
        // (seed C03-seed9); the verdict must be that of the frame alone
        if framing != 2 && rng.chance(1, 3) {
            if damage == "truncated" {
                wire.extend_from_slice(&encoded[wire_body.len()..]);
            } else {
                wire.extend_from_slice(b"HTTP/1.1 200 OK\r\nContent-Length: 9\r\n\r\nsmuggled!");
            }
        }
        let (mut segs, segname) = segment(&mut rng, &wire, &interesting_offsets(&wire, head.len()));
        // a transient transport error (a read timeout, a reset that the caller retries) right behind the head or
        // somewhere in the body of an undamaged response; the caller goes on reading: whatever is handed out
        // must still be decoded payload, never the raw coded bytes
        let transient = damage == "none" && method != "HEAD" && !wire_body.is_empty() && rng.chance(1, 5);
        if transient {
            let p = if rng.chance(1, 2) { head.len() } else { head.len() + rng.below(body.len() as u64) as usize };
            segs = crate::p_c02::splice(&segs, p, Some(crate::script::Seg::Err(*rng.pick(&[1u8, 2, 2, 3]))), false);
        }
        let reads = if rng.chance(1, 3) && !transient {
            Reads::Drain(8192)
        } else {
            let s = *rng.pick(&[1usize, 7, 100, 8192, 65536, 1 << 20]);
            // every read may consume as little as one segment
            // (a read may also stop short at the end of a chunk: one extra read per 64 wire bytes covers every chunking)
            let k = data.len() / s + segs.len() + wire.len() / 64 + 8;
            if k > 6000 && transient {
                Reads::Sizes(vec![1 << 16; 40])
            } else if k > 6000 {
                Reads::Drain(8192)
            } else if rng.chance(1, 3) {
                // a caller that fills fixed-size records issues a read of 0 bytes now and then (`read(&mut rec[filled..])`
                // with the record full): that is not the end of the body (seed C06-seed10)
                let mut ns = vec![];
                for j in 0..k {
                    ns.push(s);
                    if j % 3 == 1 {
                        ns.push(0);
                    }
                }
                Reads::Sizes(ns)
            } else {
                Reads::Sizes(vec![s; k])
            }
        };
        let case = RespCase { method: method.into(), max_headers: 100, segs, reads };
        let out = run_resp(&case);
        let declared = if method == "HEAD" { "plain" } else if coding.starts_with("gzip") { "gzip" } else { coding };
        let tag = format!("{}-{}", declared, damage);
        let o: Result<(), (String, String)> = (|| {
            match &out.head {
                HeadOut::Ok(st) if *st == status => {}
                // flate2's GzDecoder parses the gzip header eagerly: a stream cut inside it may fail send()
                h if damage == "truncated" => {
                    return if matches!(h, HeadOut::Panic) { Err(("panic".into(), "panic".into())) } else { Ok(()) };
                }
                h => return Err((format!("head-{}", tag), format!("{:?}", h))),
            }
            if out.coding != declared {
                return Err((format!("wrong-decoder-{}", declared), format!("headers {:?} method {}: decoder {}, statement gives {}", String::from_utf8_lossy(&header), method, out.coding, declared)));
            }
            if method == "HEAD" {
                return Ok(());
            }
            if transient {
                // every Ok event, before and after the error: a prefix of the decoded payload
                let mut got: Vec<u8> = vec![];
                for (i, ev) in out.events.iter().enumerate() {
                    match ev {
                        Ev::Panic => return Err((format!("panic-{}", tag), format!("event #{} panicked", i))),
                        Ev::Ok(bs) => {
                            got.extend_from_slice(bs);
                            if !data.starts_with(&got) {
                                return Err((format!("not-decoded-after-transient-error-{}", declared), format!("after a transient transport error the bytes handed out ({} B by event #{}) are not a prefix of the decoded payload ({} B)", got.len(), i, data.len())));
                            }
                        }
                        _ => {}
                    }
                }
                return Ok(());
            }
            let exp = if damage == "none" { Decoded { payload: data.clone(), end: End::Complete(0) } } else { Decoded { payload: data.clone(), end: End::Truncated } };
            // C06 constrains the stream up to and including the first error; what a decoder answers
            // to reads issued after it has reported the damage is not part of the statement
            let upto = out.events.iter().position(|e| matches!(e, Ev::Err(_) | Ev::Blocked)).map(|i| i + 1).unwrap_or(out.events.len());
            let reads_upto = match &case.reads {
                Reads::Sizes(ns) => Reads::Sizes(ns[..upto.min(ns.len())].to_vec()),
                r => r.clone(),
            };
            let d = delivery::check(&exp, &reads_upto, &out.events[..upto], &tag)?;
            if damage == "none" {
                if d.saw_err {
                    return Err((format!("error-on-valid-{}", tag), format!("level {} payload {}: {:?}", level, pname, out.events.iter().find(|e| matches!(e, Ev::Err(_))).map(|e| e.to_string()))));
                }
                if d.got != data {
                    return Err((format!("incomplete-{}", tag), format!("decoded {} of {} bytes", d.got.len(), data.len())));
                }
            } else if !d.saw_err {
                return Err((format!("damage-unreported-{}", tag), format!("{} stream ({} of {} bytes) read to the end without an error; delivered {} of {}", damage, wire_body.len(), encoded.len(), d.got.len(), data.len())));
            }
            Ok(())
        })();
        sink.push(Case {
            tags: vec![format!("coding={}", coding), format!("damage={}", damage), format!("level={}", level), format!("payload={}", pname), format!("framing={}", ["chunked", "length", "close"][framing as usize]), format!("seg={}", segname), format!("method={}", method), format!("transient-error={}", transient)],
            op: case.op_line(),
            impl_line: out.line(),
            oracle: o,
        });
    }
}
