/-
  Atto/Props/C02c.lean — "Incomplete or corrupt framing never reads as complete", for CODED bodies
  (`Content-Encoding: gzip` / `deflate`; src/parsing/compressed_reader.rs, `finish_body` and the
  `Deflate` / `Gzip` arms of `impl Read for CompressedReader`).

  The situation. A gzip / deflate decoder sits on top of the body reader (chunked / Content-Length /
  close-delimited, `Body.read`). It reads the body with buffer sizes of its own choosing and stops
  where ITS compressed stream ends — which can be before the point where the body's framing ends
  (the last-chunk `0 CRLF CRLF` of a chunked body carries no compressed data, so the decoder never
  asks for it). Before the change a response cut right there (all compressed data present, the
  terminator missing) was reported as complete. Now, when the decoder returns `Ok(0)`, the library
  calls `finish_body`: it reads the body on, 512 bytes at a time, until the body reader itself says
  `Ok(0)` or fails; the caller's read returns that. Model: Model/CodedEnd.lean — `finishBody`, and
  `codedEnd maxBuf fuel ns b`, the result of the caller's read at the moment the decoder reports its
  end after having issued the reads `ns` on the body `b`. The decoder is NOT modelled: `ns` is an
  arbitrary list of buffer sizes, and every statement below holds for every `ns` (and every `fuel`,
  the bound on the iterations of `finish_body`'s loop; running out of fuel is `panic`, never `ok`).

  What is proved (everything in this file is proved; no `sorry`, no axiom besides Lean's own):

  * `C02_coded_end_is_body_end` (the bridge): if the coded read reports a clean end
    (`codedEnd … = .ok ()`), then the PLAIN body reader reports a clean end (`Ok(0)` on a 512-byte
    buffer) to a caller that issues the decoder's reads `ns` and then reads 512 bytes at a time:
    event number `ns.length + j` of the schedule `ns ++ [512, …, 512]` (`j + 1` times) is `ok []`.
    (`C02_coded_end_is_body_end_k`: the same with `k = j + 1`, `0 < k`, index `ns.length + k - 1`.)
    Hence every theorem of Props/C02, C02u that says "no clean end for any schedule unless …"
    carries over to coded bodies. Three of them are carried over here:

  * `C02_coded_chunked_clean_end_needs_terminator` (from `C02_chunked_clean_end_needs_terminator_tr`):
    chunked framing over ANY stream `rest` after the head. A coded read reports a clean end only if
    `rest` really contains — free of errors and stalls up to there, Interrupted errors excepted — a
    chunk-size line that parses to 0, a trailer section and a line ending.

  * `C02_coded_length_cut` (from `C02_length_cut`): `Content-Length: n`, the connection closed after
    fewer than `n` bytes: the coded read never reports a clean end, whatever the decoder read.

  * `C02_coded_chunked_cut` (from `C02_chunked_cut`): a chunked body cut inside a chunk or inside the
    last-chunk / trailer section (in particular: cut right BEFORE the last-chunk, the case the change
    is about), followed by EOF, a non-Interrupted I/O error or a stall: the coded read never reports
    a clean end, whatever the decoder read.

  The `example`s at the end evaluate the model on concrete transports: a complete chunked body on
  which the decoder stopped after 3 bytes ends cleanly (`ok ()`, so the statements are not vacuous);
  the same body without its last-chunk, all data read by the decoder, ends with `UnexpectedEof`.

  Not stated here: WHICH error / stall a cut body ends with (only that it is not a clean end), and
  that `finish_body` terminates (`fuel`); the decoder's own verdict on its data (CRC, length) is
  outside the model.
-/
import Atto.Model.CodedEnd
import Atto.Props.C02
import Atto.Props.C02u
namespace Atto

local notation "L" => Consts.maxLineLen
local notation "CL" => Consts.chunkSizeLineLimit

/-- the reads of an appended schedule: first `ns`, then `ms` on the reader `ns` left behind -/
theorem reads_append (m : Nat) (ns ms : List Nat) (b : Body) :
    reads m (ns ++ ms) b =
      ((reads m ns b).1 ++ (reads m ms (reads m ns b).2).1, (reads m ms (reads m ns b).2).2) := by
  induction ns generalizing b with
  | nil => simp [reads]
  | cons n ns ih =>
    rcases h : b.read m n with ⟨res, b'⟩
    simp only [List.cons_append, reads, h, ih, List.cons_append]

/-- `finish_body` returns `Ok(0)` only because one of its 512-byte reads of the body did -/
theorem finishBody_ok (maxBuf : Nat) : ∀ (fuel : Nat) (b : Body),
    (finishBody maxBuf fuel b).1 = .ok () →
    ∃ j, (reads maxBuf (List.replicate (j + 1) 512) b).1[j]? = some (.ok []) := by
  intro fuel
  induction fuel with
  | zero => intro b h; simp [finishBody] at h
  | succ fuel ih =>
    intro b h
    have step : ∀ b', (b.read maxBuf 512).2 = b' → (finishBody maxBuf fuel b').1 = .ok () →
        ∃ j, (reads maxBuf (List.replicate (j + 1) 512) b).1[j]? = some (.ok []) := by
      intro b' hb' hf
      obtain ⟨j, hj⟩ := ih b' hf
      refine ⟨j + 1, ?_⟩
      rw [List.replicate_succ, reads_cons, hb', List.getElem?_cons_succ]
      exact hj
    rcases hr : b.read maxBuf 512 with ⟨res, b'⟩
    have hb' : (b.read maxBuf 512).2 = b' := by rw [hr]
    unfold finishBody at h
    rw [hr] at h
    cases res with
    | ok bs =>
      cases bs with
      | nil =>
        refine ⟨0, ?_⟩
        rw [List.replicate_succ, reads_cons, hr]
        rfl
      | cons x xs => exact step b' hb' h
    | err e =>
      cases e with
      | io k =>
        cases k with
        | zero => exact step b' hb' h
        | succ k => simp at h
      | _ => simp at h
    | blocked => simp at h
    | panic => simp at h

/-- (the bridge) a clean end of the coded body IS a clean end of the plain body: if the coded read
    returns `Ok(0)` after the decoder issued the reads `ns`, then a caller of the plain body reader
    who issues `ns` and then reads 512 bytes at a time gets `Ok(0)` on one of those 512-byte reads
    (the `j`-th of them, counting from 0). For every body reader `b`, in any state. -/
theorem C02_coded_end_is_body_end (maxBuf fuel : Nat) (ns : List Nat) (b : Body)
    (h : codedEnd maxBuf fuel ns b = .ok ()) :
    ∃ j, (reads maxBuf (ns ++ List.replicate (j + 1) 512) b).1[ns.length + j]? = some (.ok []) := by
  obtain ⟨j, hj⟩ := finishBody_ok maxBuf fuel _ h
  refine ⟨j, ?_⟩
  rw [reads_append]
  simp only
  rw [List.getElem?_append_right (by rw [reads_length]; omega), reads_length,
    Nat.add_sub_cancel_left]
  exact hj

/-- the bridge with a count `k` of 512-byte reads instead of an index: `0 < k`, and the last of the
    `k` reads (event number `ns.length + k - 1`) returns `Ok(0)` -/
theorem C02_coded_end_is_body_end_k (maxBuf fuel : Nat) (ns : List Nat) (b : Body)
    (h : codedEnd maxBuf fuel ns b = .ok ()) :
    ∃ k, 0 < k ∧
      (reads maxBuf (ns ++ List.replicate k 512) b).1[ns.length + k - 1]? = some (.ok []) := by
  obtain ⟨j, hj⟩ := C02_coded_end_is_body_end maxBuf fuel ns b h
  refine ⟨j + 1, Nat.succ_pos j, ?_⟩
  rw [show ns.length + (j + 1) - 1 = ns.length + j by omega]
  exact hj

/-- chunked framing over ANY stream `rest` after the head, a coded body on top: whatever the decoder
    read (`ns`) before it reported the end of its stream, the caller's read reports a clean end ONLY
    if `rest = head ++ post` where `head`, once its Interrupted errors (`err 0`, retried inside std)
    are removed, is exactly the bytes `pre ++ line ++ trs ++ eol`: `line` a chunk-size line that
    parses to 0, `trs` a trailer section (at most `MAX_TRAILER_LINES` lines, none empty), `eol` LF or
    CRLF. Same hypotheses and same conclusion as `C02_chunked_clean_end_needs_terminator_tr`
    (Props/C02u.lean), which is the statement for an uncoded body. -/
theorem C02_coded_chunked_clean_end_needs_terminator (h : HeadS) (rest : List Item)
    (t : Transport) (cap maxBuf mh : Nat) (m : Method)
    (hwf : wfT t) (hcap : 0 < cap) (hmb : 0 < maxBuf) (hh : h.WF L)
    (hmh : h.fields.length ≤ mh) (hms : h.fields.length ≤ Headers.maxSize)
    (hf : chooseFraming m h.code h.seen = .ok .chunked)
    (hflat : flatT t = bytesI h.render ++ rest) :
    ∃ resp, parseResponse m mh cap t = .ok resp ∧
      ∀ (fuel : Nat) (ns : List Nat), codedEnd maxBuf fuel ns resp.body = .ok () →
        ∃ (pre line trs eol : Bytes) (head post : List Item), rest = head ++ post ∧
          head.filter (fun x => x != Item.err 0) = bytesI (pre ++ line ++ trs ++ eol) ∧
          (∃ l, stripEol line = some l ∧ parseChunkSize l = .ok 0) ∧
          (∃ raws : List Bytes, trs = raws.flatten ∧ raws.length ≤ Consts.maxTrailerLines ∧
            ∀ raw ∈ raws, ∃ t, stripEol raw = some t ∧ t ≠ []) ∧
          (eol = [10] ∨ eol = [13, 10]) := by
  obtain ⟨resp, hr, _⟩ := C02_chunked_clean_end_needs_terminator_tr h rest t cap maxBuf mh m []
    hwf hcap hmb hh hmh hms hf hflat
  refine ⟨resp, hr, ?_⟩
  intro fuel ns hc
  obtain ⟨j, hj⟩ := C02_coded_end_is_body_end maxBuf fuel ns resp.body hc
  obtain ⟨resp', hr', hp⟩ := C02_chunked_clean_end_needs_terminator_tr h rest t cap maxBuf mh m
    (ns ++ List.replicate (j + 1) 512) hwf hcap hmb hh hmh hms hf hflat
  rw [hr] at hr'
  cases hr'
  have hi : ns.length + j < (ns ++ List.replicate (j + 1) 512).length := by
    rw [List.length_append, List.length_replicate]; omega
  refine hp (ns.length + j) hi ?_ hj
  rw [List.getElem_append_right (by omega), List.getElem_replicate]
  decide

/-- `Content-Length: n` but the connection is closed after `pre`, fewer than `n` bytes, a coded body
    on top: whatever the decoder read (`ns`) before it reported the end of its stream — even if its
    compressed stream was complete within `pre` — the caller's read does not report a clean end.
    Same hypotheses as `C02_length_cut` (Props/C02.lean). -/
theorem C02_coded_length_cut (h : HeadS) (pre : Bytes) (n : Nat)
    (t : Transport) (cap maxBuf mh : Nat) (m : Method)
    (hwf : wfT t) (hcap : 0 < cap) (hh : h.WF L)
    (hmh : h.fields.length ≤ mh) (hms : h.fields.length ≤ Headers.maxSize)
    (hnb : bodyless m h.code = false) (hch : isChunked h.seen = false)
    (hcl : isContentLength h.seen = .ok (some n)) (hpre : pre.length < n)
    (hflat : flatT t = bytesI (h.render ++ pre)) :
    ∃ resp, parseResponse m mh cap t = .ok resp ∧ resp.status = h.code ∧
      resp.headers = h.seen.remove nameTE ∧
      ∀ (fuel : Nat) (ns : List Nat), codedEnd maxBuf fuel ns resp.body ≠ .ok () := by
  obtain ⟨resp, hr, hs, hhd, _⟩ := C02_length_cut h pre n t cap maxBuf mh m []
    hwf hcap hh hmh hms hnb hch hcl hpre hflat
  refine ⟨resp, hr, hs, hhd, ?_⟩
  intro fuel ns hc
  obtain ⟨j, hj⟩ := C02_coded_end_is_body_end maxBuf fuel ns resp.body hc
  obtain ⟨resp', hr', _, _, hp, _⟩ := C02_length_cut h pre n t cap maxBuf mh m
    (ns ++ List.replicate (j + 1) 512) hwf hcap hh hmh hms hnb hch hcl hpre hflat
  rw [hr] at hr'
  cases hr'
  have hi : ns.length + j < (ns ++ List.replicate (j + 1) 512).length := by
    rw [List.length_append, List.length_replicate]; omega
  refine hp (ns.length + j) hi ?_ hj
  rw [List.getElem_append_right (by omega), List.getElem_replicate]
  decide

/-- a chunked body cut strictly inside a chunk or inside the last-chunk with its trailer section
    (`part = []` with the `LastS` alternative: cut right before the last-chunk, all data chunks
    complete), then EOF, a non-Interrupted I/O error followed by anything, or a stall; a coded body on
    top: whatever the decoder read (`ns`) before it reported the end of its stream, the caller's
    read does not report a clean end. Same hypotheses as `C02_chunked_cut` (Props/C02.lean). -/
theorem C02_coded_chunked_cut (h : HeadS) (cs : List ChunkS) (part : Bytes) (tailItems : List Item)
    (t : Transport) (cap maxBuf mh : Nat) (m : Method)
    (hwf : wfT t) (hcap : 0 < cap) (hmb : 0 < maxBuf) (hh : h.WF L)
    (hcs : ∀ c ∈ cs, c.WF CL)
    (hmh : h.fields.length ≤ mh) (hms : h.fields.length ≤ Headers.maxSize)
    (hnb : bodyless m h.code = false) (hch : isChunked h.seen = true)
    (hp : (∃ c : ChunkS, c.WF CL ∧ part.length < c.enc.length ∧ part <+: c.enc) ∨
          (∃ l : LastS, l.WF CL ∧ part.length < l.enc.length ∧ part <+: l.enc))
    (ht : tailItems = [] ∨ (∃ k r, k ≠ 0 ∧ tailItems = .err k :: r) ∨
          (∃ r, tailItems = .pause :: r))
    (hflat : flatT t = bytesI (h.render ++ encChunks cs ++ part) ++ tailItems) :
    ∃ resp, parseResponse m mh cap t = .ok resp ∧ resp.status = h.code ∧
      resp.headers = h.seen.remove nameTE ∧
      ∀ (fuel : Nat) (ns : List Nat), codedEnd maxBuf fuel ns resp.body ≠ .ok () := by
  obtain ⟨resp, hr, hs, hhd, _⟩ := C02_chunked_cut h cs part tailItems t cap maxBuf mh m []
    hwf hcap hmb hh hcs hmh hms hnb hch hp ht hflat
  refine ⟨resp, hr, hs, hhd, ?_⟩
  intro fuel ns hc
  obtain ⟨j, hj⟩ := C02_coded_end_is_body_end maxBuf fuel ns resp.body hc
  obtain ⟨resp', hr', _, _, hq, _⟩ := C02_chunked_cut h cs part tailItems t cap maxBuf mh m
    (ns ++ List.replicate (j + 1) 512) hwf hcap hmb hh hcs hmh hms hnb hch hp ht hflat
  rw [hr] at hr'
  cases hr'
  have hi : ns.length + j < (ns ++ List.replicate (j + 1) 512).length := by
    rw [List.length_append, List.length_replicate]; omega
  refine hq (ns.length + j) hi ?_ hj
  rw [List.getElem_append_right (by omega), List.getElem_replicate]
  decide

/-! ### non-vacuity, on concrete transports (capacity 8, `MAX_BUFFER_LEN` 4, `max_headers` 100) -/

deriving instance DecidableEq for RR

namespace C02c
/-- two complete chunks, the last-chunk missing: the stream ends (EOF) right behind the data -/
def noLastT : Transport := Ex.seg2 (Ex.headTE.render ++ encChunks Ex.chunks)
/-- one complete chunk, the second cut after 9 of its 16 bytes, a connection reset, more bytes -/
def resetT : Transport :=
  Ex.seg (Ex.headTE.render ++ encChunks [Ex.chunks[0]] ++ Ex.chunks[1].enc.take 9) ++
    [.err 104, .data [1, 2]]
/-- `Content-Length: 11`, only `hello` arrives -/
def shortT : Transport := Ex.seg (Ex.headCL.render ++ str "hello")
end C02c

/-- a COMPLETE chunked body (two chunks, last-chunk, then bytes of the next response); the decoder
    stopped after one read of 3 bytes: `finish_body` reads the rest and the coded read ends cleanly.
    (So `codedEnd … = .ok ()` does occur: the theorems above are not vacuous.) -/
example : (parseResponse .get 100 8 C02u.okT).bind (fun r => codedEnd 4 20 [3] r.body) = .ok () := by
  decide +kernel

/-- the same with a trailer section behind the last-chunk, the decoder having read all the data -/
example : (parseResponse .get 100 8 C02u.okTT).bind
    (fun r => codedEnd 4 20 [100, 100, 100] r.body) = .ok () := by
  decide +kernel

/-- … and `finish_body` out of fuel is a `panic`, not a clean end -/
example : (parseResponse .get 100 8 C02u.okT).bind (fun r => codedEnd 4 2 [3] r.body) = .panic := by
  decide +kernel

/-- the case the change is about: all data chunks complete and read by the decoder (three reads of
    up to 100 bytes), the last-chunk missing: `UnexpectedEof`, not a clean end -/
example : (parseResponse .get 100 8 C02c.noLastT).bind
    (fun r => codedEnd 4 20 [100, 100, 100] r.body) = .err .eof := by
  decide +kernel

/-- … the theorem on that transport (`cs` both chunks, `part = []`, cut before `Ex.last`) -/
example := C02_coded_chunked_cut Ex.headTE Ex.chunks [] [] C02c.noLastT 8 4 100 .get
  (by decide +kernel) (by decide) (by decide) (by decide +kernel) (by decide +kernel)
  (by decide +kernel) (by decide +kernel) (by decide +kernel) (by decide +kernel)
  (.inr ⟨Ex.last, by decide +kernel, by decide +kernel, Ex.last.enc, by simp⟩)
  (.inl rfl)
  (by decide +kernel)

/-- a chunk cut by a connection reset (kind 104), the decoder stopped after 3 bytes: the reset is
    what the coded read returns -/
example : (parseResponse .get 100 8 C02c.resetT).bind
    (fun r => codedEnd 4 20 [3] r.body) = .err (.io 104) := by
  decide +kernel

/-- … the theorem on that transport -/
example := C02_coded_chunked_cut Ex.headTE [Ex.chunks[0]] (Ex.chunks[1].enc.take 9)
  [.err 104, .byte 1, .byte 2] C02c.resetT 8 4 100 .get
  (by decide +kernel) (by decide) (by decide) (by decide +kernel) (by decide +kernel)
  (by decide +kernel) (by decide +kernel) (by decide +kernel) (by decide +kernel)
  (.inl ⟨Ex.chunks[1], by decide +kernel, by decide +kernel, Ex.chunks[1].enc.drop 9, by decide +kernel⟩)
  (.inr (.inl ⟨104, [.byte 1, .byte 2], by decide, rfl⟩))
  (by decide +kernel)

/-- `Content-Length: 11`, `hello`, EOF; the decoder stopped after 3 bytes: `UnexpectedEof` -/
example : (parseResponse .get 100 8 C02c.shortT).bind
    (fun r => codedEnd 4 20 [3] r.body) = .err .eof := by
  decide +kernel

/-- … the theorem on that transport -/
example := C02_coded_length_cut Ex.headCL (str "hello") 11 C02c.shortT 8 4 100 .get
  (by decide +kernel) (by decide) (by decide +kernel) (by decide +kernel) (by decide +kernel)
  (by decide +kernel) (by decide +kernel) (by decide +kernel) (by decide +kernel)
  (by decide +kernel)

/-- the clean-end theorem on the complete body -/
example := C02_coded_chunked_clean_end_needs_terminator Ex.headTE C02u.okRest C02u.okT 8 4 100 .get
  (by decide +kernel) (by decide) (by decide) (by decide +kernel) (by decide +kernel)
  (by decide +kernel) (by decide +kernel) (by decide +kernel)

end Atto
