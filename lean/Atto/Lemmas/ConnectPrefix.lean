/-
  Atto/Lemmas/ConnectPrefix.lean — exact characterisation of a successful
  `take(limit).read_to_end` (`readToEndTake`) against the flat item stream of the reader:
  the collected body is exactly the first `limit` of the "leading bytes" of the stream
  (bytes up to the first item that is neither a byte nor an Interrupted error).
-/
import Atto.Lemmas.ConnectCap
namespace Atto

/-- the bytes an observer gets from a flat stream before anything other than a byte or an
    Interrupted (`err 0`) error: `err 0` items are skipped, any other error / pause / end of
    stream stops. -/
def rqLeadingBytes : List Item → Bytes
  | [] => []
  | .byte b :: is => b :: rqLeadingBytes is
  | .err k :: is => if k = 0 then rqLeadingBytes is else []
  | .pause :: _ => []

@[simp] theorem rq_leadingBytes_nil : rqLeadingBytes [] = [] := rfl
@[simp] theorem rq_leadingBytes_byte (b : UInt8) (is : List Item) :
    rqLeadingBytes (.byte b :: is) = b :: rqLeadingBytes is := rfl
@[simp] theorem rq_leadingBytes_err_zero (is : List Item) :
    rqLeadingBytes (.err 0 :: is) = rqLeadingBytes is := by simp [rqLeadingBytes]
@[simp] theorem rq_leadingBytes_err_succ (k : Nat) (is : List Item) :
    rqLeadingBytes (.err (k+1) :: is) = [] := by simp [rqLeadingBytes]
@[simp] theorem rq_leadingBytes_pause (is : List Item) :
    rqLeadingBytes (.pause :: is) = [] := rfl

theorem rq_leadingBytes_bytes_append (bs : Bytes) (is : List Item) :
    rqLeadingBytes (bs.map .byte ++ is) = bs ++ rqLeadingBytes is := by
  induction bs with
  | nil => simp
  | cons b bs ih => simp [ih]

/-- taking `limit` from `bs ++ rest` when `bs` fits below the limit -/
theorem rq_take_append_of_le (bs rest : Bytes) (limit : Nat) (h : bs.length ≤ limit) :
    (bs ++ rest).take limit = bs ++ rest.take (limit - bs.length) := by
  rw [List.take_append, List.take_of_length_le h]

/-- exact characterisation of a successful `take(limit).read_to_end` -/
theorem rq_readToEndTake_exact (fuel : Nat) (r : BufR) (limit : Nat) (acc body : Bytes) :
    r.Ok → readToEndTake fuel r limit acc = .ok body →
    body = acc ++ (rqLeadingBytes r.flat).take limit := by
  induction fuel generalizing r limit acc with
  | zero => intro _ h; simp [readToEndTake] at h
  | succ fuel ih =>
    intro h
    unfold readToEndTake
    by_cases hl : limit = 0
    · simp only [hl, if_true, RR.ok.injEq]; intro hb; subst hb; simp
    · simp only [hl, if_false]
      have hn : 0 < min limit 32 := by omega
      have hs := read_spec_strong r (min limit 32) h hn
      rcases hrd : r.read (min limit 32) with ⟨res, r'⟩
      rw [hrd] at hs
      simp only at hs
      obtain ⟨hok, _, hlen, hm⟩ := hs
      rcases hfl : r.flat with _ | ⟨(b | k | _), rest⟩ <;> rw [hfl] at hm <;> simp only at hm
      · obtain ⟨rfl, _⟩ := hm
        simp only [RR.ok.injEq]
        intro hb; subst hb; simp
      · obtain ⟨bs, rfl, hne, hle, hfeq⟩ := hm
        cases bs with
        | nil => exact absurd rfl hne
        | cons c bs =>
          simp only
          intro hb
          have hrec := ih r' (limit - (c :: bs).length) (acc ++ c :: bs) hok hb
          have hle' : (c :: bs).length ≤ limit := by omega
          rw [← hfeq, rq_leadingBytes_bytes_append,
            rq_take_append_of_le (c :: bs) _ limit hle', hrec, List.append_assoc]
      · obtain ⟨rfl, hf', hlt⟩ := hm
        cases k with
        | zero =>
          simp only
          intro hb
          have hrec := ih r' limit acc hok hb
          rw [hf'] at hrec
          simpa using hrec
        | succ k => intro hb; simp at hb
      · obtain ⟨rfl, _⟩ := hm
        intro hb; simp at hb

/-- weaker, prefix form of `rq_readToEndTake_exact` -/
theorem rq_readToEndTake_prefix_gen (fuel : Nat) (r : BufR) (limit : Nat) (acc body : Bytes) :
    r.Ok → readToEndTake fuel r limit acc = .ok body →
    ∃ got, body = acc ++ got ∧ got <+: rqLeadingBytes r.flat ∧ got.length ≤ limit := by
  intro h hb
  refine ⟨(rqLeadingBytes r.flat).take limit, rq_readToEndTake_exact fuel r limit acc body h hb,
    List.take_prefix _ _, ?_⟩
  simp only [List.length_take]; omega

/-- the body of a non-2xx CONNECT answer is exactly the first `CONNECT_BODY_CAP` leading bytes -/
theorem rq_readToEndTake_prefix (fuel : Nat) (r : BufR) (body : Bytes) :
    r.Ok → readToEndTake fuel r Consts.connectBodyCap [] = .ok body →
    body <+: rqLeadingBytes r.flat ∧ body.length ≤ Consts.connectBodyCap ∧
    body = (rqLeadingBytes r.flat).take Consts.connectBodyCap := by
  intro h hb
  have he := rq_readToEndTake_exact fuel r Consts.connectBodyCap [] body h hb
  simp only [List.nil_append] at he
  refine ⟨?_, readToEndTake_cap fuel r body hb, he⟩
  rw [he]
  exact List.take_prefix _ _

/-! ### non-vacuity: a concrete segmented transport with an Interrupted error in the middle -/

/-- a reader with two buffered bytes and a segmented transport containing an `.err 0` -/
def rqExampleR : BufR := { buf := [1, 2], cap := 3, inner := [.data [3], .err 0, .data [4, 5]] }

example : rqExampleR.Ok := by
  refine ⟨?_, by decide⟩
  simp [rqExampleR, wfT]

example : rqLeadingBytes rqExampleR.flat = [1, 2, 3, 4, 5] := by decide

example : readToEndTake 10 rqExampleR 4 [] = .ok [1, 2, 3, 4] := by rfl

example : readToEndTake 10 rqExampleR 4 [] = .ok ((rqLeadingBytes rqExampleR.flat).take 4) := by
  rfl

/-- the limit is not reached: the stream ends first -/
example : readToEndTake 10 rqExampleR 9 [7] = .ok [7, 1, 2, 3, 4, 5] := by rfl

/-- a non-Interrupted error is not skipped: the read fails, and the leading bytes stop there -/
example :
    readToEndTake 10 { buf := [1], cap := 3, inner := [.err 5, .data [4]] } 4 [] = .err (.io 5) ∧
    rqLeadingBytes ({ buf := [1], cap := 3, inner := [.err 5, .data [4]] } : BufR).flat = [1] := by
  exact ⟨rfl, rfl⟩

end Atto
