#!/bin/bash
# usage: tools/benign_run.sh <dir with <k>/patch.diff> [k ...]
# False-alarm test: applies each behaviour-preserving patch to /repo, runs every quick check,
# undoes it. Prints one line per check that does NOT answer OK.
D=$1; shift
KS=${@:-$(ls $D)}
cd /verif
for k in $KS; do
  P=$D/$k/patch.diff
  [ -f $P ] || continue
  cd /repo; git diff --quiet || { echo "repo dirty"; exit 2; }
  git apply $P || { echo "benign $k: patch does not apply"; continue; }
  cd /verif
  for i in 01 02 03 04 05 06 07 08 09 10 11 12 13 14 15 16 17 18 19; do
    r=$(timeout 1800 ./check C$i quick 2>/dev/null | grep -E "^(VIOLATION|OK)" | head -2 | tr '\n' ' ')
    case "$r" in OK*) ;; *) echo "benign $k C$i: $r"; mkdir -p /tmp/benign-res/$k; cp -r replays/C$i /tmp/benign-res/$k/ 2>/dev/null;; esac
  done
  echo "benign $k done"
  git -C /repo checkout -- .
done
(cd /verif/harness && CARGO_NET_OFFLINE=true cargo build --release --offline >/dev/null 2>&1)
echo ALL-DONE
