/-
  Main.lean — `attodriver`: line protocol over Atto/Model and Atto/Spec.
  One op per input line, one canonical output line per op.
-/
import Atto.Driver.Ops
open Atto

partial def loop (h : IO.FS.Stream) (out : IO.FS.Stream) : IO Unit := do
  let line ← h.getLine
  if line.isEmpty then return ()
  out.putStrLn (Driver.runLine line)
  loop h out

def main : IO Unit := do
  let stdin ← IO.getStdin
  let stdout ← IO.getStdout
  loop stdin stdout
