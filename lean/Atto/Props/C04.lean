/-
  Atto/Props/C04.lean — "status code and header fields are reported exactly as sent", at the level
  of the real pipeline: the model of `BufReader<BaseStream>` over an ARBITRARY scripted transport `t`
  (any segmentation of the byte stream, any BufReader capacity `cap > 0`).
  Helper lemmas: Lemmas/Pipeline.lean, Lemmas/HeadFlat.lean, Lemmas/BufSim.lean, Lemmas/Sim.lean.
-/
import Atto.Lemmas.Pipeline
namespace Atto

/-! ### example data for the non-vacuity checks -/

/-- `HTTP/1.1 200 OK` with a repeated field (different letter case, different padding). -/
def C04.exHead : HeadS :=
  { version := str "HTTP/1.1", sp1 := 1, code := 200, reason := str "OK",
    fields := [{ name := str "Set-Cookie", padL := 1, value := str "a=1", padR := 0 },
               { name := str "Transfer-Encoding", padL := 1, value := str "chunked", padR := 0 },
               { name := str "set-cookie", padL := 0, value := str "b=2", padR := 2 }] }

/-- the same head cut after 3 bytes, followed by something that is not part of the head -/
def C04.exT : Transport :=
  [.data (C04.exHead.render.take 3), .data (C04.exHead.render.drop 3), .err 5, .data [1, 2], .pause]

def C04.exRest : List Item := [.err 5, .byte 1, .byte 2, .pause]

/-! ### (h) the head, exactly -/

/-- (h) Whatever the segmentation of the transport and the BufReader capacity, a well-formed head
    is reported exactly (code, then every field in wire order, names lower-cased, values trimmed),
    and the reader is left exactly at the first byte after the head. -/
theorem C04_head_exact (h : HeadS) (rest : List Item) (t : Transport) (cap mh : Nat)
    (hw : wfT t) (hc : 0 < cap) (hwf : h.WF Consts.maxLineLen)
    (hmh : h.fields.length ≤ mh) (hcap : h.fields.length ≤ Headers.maxSize)
    (hflat : flatT t = bytesI h.render ++ rest) :
    ∃ r', parseResponseHead bufSrc { buf := [], cap := cap, inner := t } mh = (.ok (h.code, h.seen), r') ∧
      r'.flat = rest := by
  have hok : (BufR.fresh cap t).Ok := BufR.fresh_ok cap t hw hc
  obtain ⟨r', h1, h2, _⟩ := head_buf_flat_eq (BufR.fresh cap t) mh hok (.ok (h.code, h.seen)) rest
    (by rw [BufR.fresh_flat, hflat]; exact head_roundtrip h hwf rest mh hmh hcap)
  exact ⟨r', h1, h2⟩

example : wfT C04.exT ∧ 0 < 1 ∧ C04.exHead.WF Consts.maxLineLen ∧ C04.exHead.fields.length ≤ 3 ∧
    C04.exHead.fields.length ≤ Headers.maxSize ∧
    flatT C04.exT = bytesI C04.exHead.render ++ C04.exRest := by decide +kernel

/-- what the caller sees for the example: repeated fields in wire order -/
example : C04.exHead.seen =
    [(str "set-cookie", str "a=1"), (str "transfer-encoding", str "chunked"),
     (str "set-cookie", str "b=2")] := by decide +kernel

/-! ### (i) the response object -/

/-- `Transfer-Encoding` is hidden from the caller, every other field keeps its values in wire
    order (a repeated field stays repeated). -/
theorem C04_getAll_remove (hs : Headers) (n n' : Bytes) :
    Headers.getAll (hs.remove n) n' = if n' = n then [] else hs.getAll n' :=
  Headers.getAll_remove hs n n'

example : Headers.getAll (C04.exHead.seen.remove nameTE) (str "set-cookie") = [str "a=1", str "b=2"] ∧
    Headers.getAll (C04.exHead.seen.remove nameTE) nameTE = [] := by decide +kernel

/-- (i) `parse_response` reports the status and the fields exactly as sent. -/
theorem C04_response (m : Method) (h : HeadS) (rest : List Item) (t : Transport) (cap mh : Nat)
    (f : Framing) (hw : wfT t) (hc : 0 < cap) (hwf : h.WF Consts.maxLineLen)
    (hmh : h.fields.length ≤ mh) (hcap : h.fields.length ≤ Headers.maxSize)
    (hflat : flatT t = bytesI h.render ++ rest)
    (hf : chooseFraming m h.code h.seen = .ok f) :
    ∃ resp, parseResponse m mh cap t = .ok resp ∧ resp.status = h.code ∧
      resp.headers = h.seen.remove nameTE ∧ resp.rawHeaders = h.seen ∧
      (∀ n, n ≠ nameTE → resp.headers.getAll n = h.seen.getAll n) ∧ resp.headers.getAll nameTE = [] ∧
      ∃ r', resp.body = Body.new f r' ∧ r'.flat = rest ∧ r'.Ok := by
  have hok : (BufR.fresh cap t).Ok := BufR.fresh_ok cap t hw hc
  obtain ⟨r', h1, h2, h3⟩ := head_buf_flat_eq (BufR.fresh cap t) mh hok (.ok (h.code, h.seen)) rest
    (by rw [BufR.fresh_flat, hflat]; exact head_roundtrip h hwf rest mh hmh hcap)
  simp only [BufR.fresh] at h1
  refine ⟨_, by simp only [parseResponse, h1, hf]; rfl, rfl, rfl, rfl, ?_, ?_, r', rfl, h2, h3⟩
  · intro n hn; simp [Headers.getAll_remove, hn]
  · simp [Headers.getAll_remove]

example : chooseFraming .get C04.exHead.code C04.exHead.seen = .ok .chunked := by
  with_unfolding_all rfl

/-! ### (j) the `max_headers` bound is exact -/

/-- (j) one field more than `max_headers` is refused (and (h) says `max_headers` fields pass). -/
theorem C04_max_exact (h : HeadS) (rest : List Item) (t : Transport) (cap mh : Nat)
    (hw : wfT t) (hc : 0 < cap) (hwf : h.WF Consts.maxLineLen)
    (hmh : mh < h.fields.length) (hcap : mh ≤ Headers.maxSize)
    (hflat : flatT t = bytesI h.render ++ rest) :
    (parseResponseHead bufSrc { buf := [], cap := cap, inner := t } mh).1 = .err .header := by
  have hok : (BufR.fresh cap t).Ok := BufR.fresh_ok cap t hw hc
  have := (head_buf_flat (BufR.fresh cap t) mh hok).1
  rw [BufR.fresh_flat, hflat, head_too_many h hwf rest mh hmh hcap] at this
  exact this

example : wfT C04.exT ∧ 0 < 7 ∧ C04.exHead.WF Consts.maxLineLen ∧ 2 < C04.exHead.fields.length ∧
    2 ≤ Headers.maxSize ∧ flatT C04.exT = bytesI C04.exHead.render ++ C04.exRest := by decide +kernel

/-! ### (k) segmentation independence, for ANY input -/

/-- (k) Two transports that carry the same flat stream (bytes, errors and pauses in the same order)
    give the same head result, valid or not, whatever the segmentation and the capacities. -/
theorem C04_seg_indep (t1 t2 : Transport) (cap1 cap2 mh : Nat)
    (hw1 : wfT t1) (hw2 : wfT t2) (hc1 : 0 < cap1) (hc2 : 0 < cap2) (hflat : flatT t1 = flatT t2) :
    (parseResponseHead bufSrc { buf := [], cap := cap1, inner := t1 } mh).1 =
      (parseResponseHead bufSrc { buf := [], cap := cap2, inner := t2 } mh).1 ∧
    (parseResponseHead bufSrc { buf := [], cap := cap1, inner := t1 } mh).2.flat =
      (parseResponseHead bufSrc { buf := [], cap := cap2, inner := t2 } mh).2.flat := by
  have a := head_buf_flat (BufR.fresh cap1 t1) mh (BufR.fresh_ok cap1 t1 hw1 hc1)
  have b := head_buf_flat (BufR.fresh cap2 t2) mh (BufR.fresh_ok cap2 t2 hw2 hc2)
  rw [BufR.fresh_flat] at a b
  rw [hflat] at a
  exact ⟨a.1.trans b.1.symm, a.2.1.trans b.2.1.symm⟩

/-- an invalid head (`HTTP/1.1 2x0`), byte by byte versus in one piece -/
example : let t1 : Transport := [.data [72], .data [84, 84, 80, 47, 49, 46, 49, 32], .err 0, .data [50, 120, 48, 13], .data [10]]
    let t2 : Transport := [.data [72, 84, 84, 80, 47, 49, 46, 49, 32], .err 0, .data [50, 120, 48, 13, 10]]
    wfT t1 ∧ wfT t2 ∧ flatT t1 = flatT t2 := by decide

/-- the same for the whole `parse_response` (status, headers, framing, error) -/
theorem C04_seg_indep_response (m : Method) (t1 t2 : Transport) (cap1 cap2 mh : Nat)
    (hw1 : wfT t1) (hw2 : wfT t2) (hc1 : 0 < cap1) (hc2 : 0 < cap2) (hflat : flatT t1 = flatT t2) :
    (parseResponse m mh cap1 t1).map (fun r => (r.status, r.headers, r.rawHeaders, r.coding)) =
      (parseResponse m mh cap2 t2).map (fun r => (r.status, r.headers, r.rawHeaders, r.coding)) := by
  have := (C04_seg_indep t1 t2 cap1 cap2 mh hw1 hw2 hc1 hc2 hflat).1
  unfold parseResponse
  simp only
  rcases h1 : parseResponseHead bufSrc { buf := [], cap := cap1, inner := t1 } mh with ⟨a1, s1⟩
  rcases h2 : parseResponseHead bufSrc { buf := [], cap := cap2, inner := t2 } mh with ⟨a2, s2⟩
  rw [h1, h2] at this
  simp only at this
  subst this
  cases a1 with
  | ok v => obtain ⟨st, hs⟩ := v; simp only; cases chooseFraming m st hs <;> rfl
  | err e => rfl
  | blocked => rfl
  | panic => rfl

/-! ### (l) status codes -/

/-- (l) every three-digit code 100…999 is parsed to itself … -/
theorem C04_status_codes (c : Nat) (hlo : 100 ≤ c) (hhi : c ≤ 999) :
    statusFromBytes (render3 c) = some c :=
  (render3_facts c (by omega) hlo).2.2

/-- … and nothing else is a status code: exactly three ASCII digits, the first one not `0`. -/
theorem C04_status_codes_only (bs : Bytes) (c : Nat) (h : statusFromBytes bs = some c) :
    100 ≤ c ∧ c ≤ 999 ∧ bs = render3 c :=
  statusFromBytes_some bs c h

example : statusFromBytes (render3 100) = some 100 ∧ statusFromBytes (render3 999) = some 999 ∧
    statusFromBytes [48, 57, 57] = none ∧ statusFromBytes [50, 48] = none ∧
    statusFromBytes [50, 48, 48, 48] = none ∧ statusFromBytes [50, 120, 48] = none := by decide

end Atto
