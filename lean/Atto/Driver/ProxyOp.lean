/- Atto/Driver/ProxyOp.lean — ops `pfor` (ProxySettings::for_url) and `penv` (from_env + for_url). -/
import Atto.Driver.SendOp
import Atto.Model.Proxy
namespace Atto.Driver
open Atto

def showChoice (o : Option Url) : String :=
  match o with
  | none => "none"
  | some p => hexOfBytes p.absoluteForm

/-- `pfor <disabled 0|1> <httpproxy|~> <httpsproxy|~> <noproxy hex,hex|-> <probe urlrec>` -/
def opPfor (args : List String) : String :=
  match args with
  | [di, hp, hsp, np, probe] =>
    match optUrl hp, optUrl hsp, (splitComma np).mapM bytesOfHex, urlOfString probe with
    | some hp, some hsp, some np, some u =>
      let s : ProxySettings := { httpProxy := hp, httpsProxy := hsp, disabled := di == "1", noProxy := np }
      showChoice (s.forUrl u)
    | _, _, _, _ => "bad-op"
  | _ => "bad-op"

/-- `penv <8 values hex|~ comma-separated: all_proxy,ALL_PROXY,http_proxy,HTTP_PROXY,https_proxy,HTTPS_PROXY,no_proxy,NO_PROXY>
        <parse table: valhex=urlrec|~ joined by ;  or ->  <probes: urlrec joined by ;>` -/
def opPenv (args : List String) : String :=
  match args with
  | [vals, table, probes] =>
    match (vals.splitOn ",").mapM optBytes with
    | some [a, A, h, H, s, S, n, N] =>
      let entries := (if table == "-" then [] else table.splitOn ";").filterMap (fun e =>
        match e.splitOn "=" with
        | [k, v] => match bytesOfHex k, optUrl v with
          | some k, some v => some (k, v)
          | _, _ => none
        | _ => none)
      let parse : Bytes → Option Url := fun v => (entries.find? (fun e => e.1 == v)).bind (·.2)
      let env : Env := { all_proxy := a, ALL_PROXY := A, http_proxy := h, HTTP_PROXY := H,
                         https_proxy := s, HTTPS_PROXY := S, no_proxy := n, NO_PROXY := N }
      let st := fromEnv parse env
      let res := (probes.splitOn ";").map (fun p =>
        match urlOfString p with
        | some u => showChoice (st.forUrl u)
        | none => "bad-probe")
      s!"choices={",".intercalate res}"
    | _ => "bad-op"
  | _ => "bad-op"

end Atto.Driver
