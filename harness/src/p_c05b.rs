//! C05 — a hostile peer cannot hang the client: not the call that talks to it beyond its timeouts, and not
//! any OTHER call of the process. While one call is held by a hostile peer (silent inside the TLS handshake,
//! silent behind a CONNECT, silent in the head, dripping a body), calls made from other threads to peers that
//! send a finite input return promptly (seed C05-seed11: a process-wide lock held across the TLS handshake).
//! Real loopback sockets and real time.
use std::io::{Read, Write};
use std::net::TcpListener;
use std::sync::mpsc;
use std::time::{Duration, Instant};

use crate::case::{Case, Sink};

/// how a hostile peer holds the call that talks to it
#[derive(Clone, Copy, Debug)]
enum Hold {
    TlsHandshakeSilent,
    TunnelTlsHandshakeSilent,
    HeadSilent,
    BodyDrip,
}

/// a listener whose connections are handled by `f` (each on its own thread); lives as long as the process
fn listener(f: impl Fn(std::net::TcpStream) + Send + Sync + 'static) -> u16 {
    let l = TcpListener::bind("127.0.0.1:0").unwrap();
    let port = l.local_addr().unwrap().port();
    let f = std::sync::Arc::new(f);
    std::thread::spawn(move || {
        for s in l.incoming().flatten() {
            let f = f.clone();
            std::thread::spawn(move || f(s));
        }
    });
    port
}

fn read_head(s: &mut std::net::TcpStream) {
    s.set_read_timeout(Some(Duration::from_millis(500))).ok();
    let mut seen = vec![];
    let mut buf = [0u8; 2048];
    while !seen.windows(4).any(|w| w == b"\r\n\r\n") {
        match s.read(&mut buf) {
            Ok(0) | Err(_) => break,
            Ok(n) => seen.extend_from_slice(&buf[..n]),
        }
    }
}

fn hostile(h: Hold, hold_ms: u64) -> (String, Option<String>) {
    match h {
        Hold::TlsHandshakeSilent => {
            let p = listener(move |_s| std::thread::sleep(Duration::from_millis(hold_ms)));
            (format!("https://127.0.0.1:{}/", p), None)
        }
        Hold::TunnelTlsHandshakeSilent => {
            let p = listener(move |mut s| {
                read_head(&mut s);
                let _ = s.write_all(b"HTTP/1.1 200 Connection established\r\n\r\n");
                std::thread::sleep(Duration::from_millis(hold_ms));
            });
            ("https://held.test/".to_string(), Some(format!("http://127.0.0.1:{}", p)))
        }
        Hold::HeadSilent => {
            let p = listener(move |mut s| {
                read_head(&mut s);
                let _ = s.write_all(b"HTTP/1.1 200 OK\r\nX-Half");
                std::thread::sleep(Duration::from_millis(hold_ms));
            });
            (format!("http://127.0.0.1:{}/", p), None)
        }
        Hold::BodyDrip => {
            let p = listener(move |mut s| {
                read_head(&mut s);
                let _ = s.write_all(b"HTTP/1.1 200 OK\r\nTransfer-Encoding: chunked\r\n\r\n");
                let t0 = Instant::now();
                while t0.elapsed() < Duration::from_millis(hold_ms) {
                    if s.write_all(b"1\r\nx\r\n").is_err() {
                        return;
                    }
                    std::thread::sleep(Duration::from_millis(50));
                }
            });
            (format!("http://127.0.0.1:{}/", p), None)
        }
    }
}

/// the calls of the bystanders: each talks to a peer that sends a finite input and is over at once
fn bystander(kind: &str) -> Result<String, String> {
    match kind {
        // an https peer that hangs up as soon as the connection stands: an error, at once
        "https-peer-closes" => {
            let p = listener(|s| drop(s));
            match attohttpc::get(format!("https://127.0.0.1:{}/", p)).read_timeout(Duration::from_millis(5000)).send() {
                Ok(r) => Err(format!("a peer that closed at once gave status {}", r.status().as_u16())),
                Err(_) => Ok("err".into()),
            }
        }
        // an https peer that answers the ClientHello with plain text: an error, at once
        "https-peer-not-tls" => {
            let p = listener(|mut s| {
                let _ = s.write_all(b"HTTP/1.1 400 Bad Request\r\nContent-Length: 0\r\n\r\n");
                std::thread::sleep(Duration::from_millis(100));
            });
            match attohttpc::get(format!("https://127.0.0.1:{}/", p)).read_timeout(Duration::from_millis(5000)).send() {
                Ok(r) => Err(format!("a peer that does not speak TLS gave status {}", r.status().as_u16())),
                Err(_) => Ok("err".into()),
            }
        }
        // https through a proxy that refuses the CONNECT: ConnectError, at once
        "tunnel-refused" => {
            let p = listener(|mut s| {
                read_head(&mut s);
                let _ = s.write_all(b"HTTP/1.1 403 Forbidden\r\nContent-Length: 2\r\n\r\nno");
            });
            let ps = attohttpc::ProxySettings::builder().https_proxy(url::Url::parse(&format!("http://127.0.0.1:{}", p)).ok()).build();
            match attohttpc::get("https://bystander.test/").proxy_settings(ps).read_timeout(Duration::from_millis(5000)).send() {
                Ok(r) => Err(format!("a refused CONNECT gave status {}", r.status().as_u16())),
                Err(_) => Ok("err".into()),
            }
        }
        // a plain http peer with a complete small response
        _ => {
            let p = listener(|mut s| {
                read_head(&mut s);
                let _ = s.write_all(b"HTTP/1.1 200 OK\r\nContent-Length: 2\r\n\r\nok");
            });
            match attohttpc::get(format!("http://127.0.0.1:{}/", p)).read_timeout(Duration::from_millis(5000)).send().and_then(|r| r.bytes()) {
                Ok(b) if b == b"ok" => Ok("ok".into()),
                Ok(b) => Err(format!("a complete response read as {} bytes", b.len())),
                Err(e) => Err(format!("a complete response failed: {:?}", e.kind())),
            }
        }
    }
}

/// A peer that answers with a cycle of PERMANENT redirects (301 / 308): every call into the cycle ends with the
/// too-many-redirections error — the first one and every later one through the same session or the same prepared
/// request (seed C05-seed13: remembered permanent redirects are resolved with an unbounded loop; the second call
/// spins without any I/O, so no timeout can end it).
fn permanent_redirect_cycle(sink: &mut Sink) {
    let l = TcpListener::bind("127.0.0.1:0").unwrap();
    let port = l.local_addr().unwrap().port();
    std::thread::spawn(move || {
        for mut s in l.incoming().flatten() {
            std::thread::spawn(move || {
                s.set_read_timeout(Some(Duration::from_millis(500))).ok();
                let mut seen = vec![];
                let mut buf = [0u8; 2048];
                while !seen.windows(4).any(|w| w == b"\r\n\r\n") {
                    match s.read(&mut buf) {
                        Ok(0) | Err(_) => break,
                        Ok(n) => seen.extend_from_slice(&buf[..n]),
                    }
                }
                let reply = if seen.starts_with(b"GET /a") {
                    format!("HTTP/1.1 301 Moved Permanently\r\nLocation: http://127.0.0.1:{}/b\r\nContent-Length: 0\r\n\r\n", port)
                } else if seen.starts_with(b"GET /b") {
                    format!("HTTP/1.1 308 Permanent Redirect\r\nLocation: /c\r\nContent-Length: 0\r\n\r\n")
                } else {
                    format!("HTTP/1.1 301 Moved Permanently\r\nLocation: http://127.0.0.1:{}/a\r\nContent-Length: 0\r\n\r\n", port)
                };
                let _ = s.write_all(reply.as_bytes());
            });
        }
    });
    for how in ["session", "prepared-request"] {
        let (tx, rx) = mpsc::channel();
        std::thread::spawn(move || {
            let url = format!("http://127.0.0.1:{}/a", port);
            let show = |r: Result<attohttpc::Response, attohttpc::Error>| match r {
                Ok(r) => format!("ok:{}", r.status().as_u16()),
                Err(e) => format!("{:?}", e.kind()).chars().take(40).collect::<String>(),
            };
            let mut outcomes = vec![];
            if how == "session" {
                let mut sess = attohttpc::Session::new();
                sess.read_timeout(Duration::from_millis(1000));
                for _ in 0..3 {
                    outcomes.push(show(sess.get(&url).send()));
                    let _ = tx.send(outcomes.clone());
                }
            } else {
                let mut p = attohttpc::get(&url).read_timeout(Duration::from_millis(1000)).prepare();
                for _ in 0..3 {
                    outcomes.push(show(p.send()));
                    let _ = tx.send(outcomes.clone());
                }
            }
        });
        let mut last: Vec<String> = vec![];
        let end = Instant::now() + Duration::from_millis(4000);
        while last.len() < 3 {
            match rx.recv_timeout(end.saturating_duration_since(Instant::now())) {
                Ok(v) => last = v,
                Err(_) => break,
            }
        }
        let o = if last.len() < 3 {
            Err((format!("hung-in-redirect-cycle-{}", how), format!("call #{} into a cycle of permanent redirects (through the same {}) had not returned after 4 s; the earlier calls ended {:?}", last.len() + 1, how, last)))
        } else if last.iter().any(|o| !o.contains("TooManyRedirections")) {
            Err((format!("redirect-cycle-outcome-{}", how), format!("{:?}", last)))
        } else {
            Ok(())
        };
        sink.push(Case { tags: vec!["kind=redirect-cycle".into(), format!("through={}", how)], op: format!("nop redirect-cycle {}", how), impl_line: "nop".into(), oracle: o });
    }
}

pub fn generate(sink: &mut Sink) {
    permanent_redirect_cycle(sink);
    let hs: Vec<_> = [Hold::TlsHandshakeSilent, Hold::TunnelTlsHandshakeSilent, Hold::HeadSilent, Hold::BodyDrip].into_iter().map(|h| std::thread::spawn(move || one(h))).collect();
    for h in hs {
        for c in h.join().unwrap() {
            sink.push(c);
        }
    }
}

fn one(h: Hold) -> Vec<Case> {
    // the held call gives up after its read timeout (3 s); the peers stay silent a little longer
    let hold_ms = 3500u64;
    let limit_ms = 1500u64;
    let mut out = vec![];
    {
        let (url, proxy) = hostile(h, hold_ms);
        // the held call: no overall timeout, read timeout 3 s
        let (htx, hrx) = mpsc::channel();
        std::thread::spawn(move || {
            attohttpc::verif_hooks::set_plain_tunnels(false);
            let mut rb = attohttpc::get(&url).read_timeout(Duration::from_millis(3000));
            if let Some(p) = proxy {
                rb = rb.proxy_settings(attohttpc::ProxySettings::builder().https_proxy(url::Url::parse(&p).ok()).build());
            }
            let t0 = Instant::now();
            let r = rb.send().and_then(|r| r.bytes());
            let _ = htx.send((t0.elapsed().as_millis() as u64, r.is_ok()));
        });
        // let it reach the stall
        std::thread::sleep(Duration::from_millis(250));
        let held_early = hrx.try_recv().ok();
        let kinds = ["https-peer-closes", "https-peer-not-tls", "tunnel-refused", "http-complete"];
        let (tx, rx) = mpsc::channel();
        for k in kinds {
            let tx = tx.clone();
            std::thread::spawn(move || {
                attohttpc::verif_hooks::set_plain_tunnels(false);
                let t0 = Instant::now();
                let r = bystander(k);
                let _ = tx.send((k, t0.elapsed().as_millis() as u64, r));
            });
        }
        drop(tx);
        let mut pending: Vec<&str> = kinds.to_vec();
        let end = Instant::now() + Duration::from_millis(limit_ms);
        let mut rows: Vec<(&str, Result<(), (String, String)>)> = vec![];
        while !pending.is_empty() {
            match rx.recv_timeout(end.saturating_duration_since(Instant::now())) {
                Ok((k, el, r)) => {
                    pending.retain(|p| *p != k);
                    rows.push((
                        k,
                        match r {
                            Ok(_) => Ok(()),
                            Err(d) => Err((format!("bystander-wrong-{}", k), format!("while another call was held ({:?}): {} (after {} ms)", h, d, el))),
                        },
                    ));
                }
                Err(_) => break,
            }
        }
        for k in pending {
            rows.push((k, Err((format!("bystander-hung-{}", k), format!("a call to a peer that sends a finite input had not returned after {} ms while ANOTHER call of the process was held by a hostile peer ({:?}, read timeout 3 s)", limit_ms, h)))));
        }
        let valid = held_early.is_none();
        for (k, o) in rows {
            let mut tags = vec!["kind=bystander".to_string(), format!("held={:?}", h), format!("bystander={}", k)];
            if !valid {
                // the hostile peer did not hold its call (it ended within 250 ms): nothing was shown
                tags.push("trivial".into());
            }
            out.push(Case { tags, op: format!("nop bystander {:?} {}", h, k), impl_line: "nop".into(), oracle: o });
        }
        // the held call itself ends with its read timeout (C13 decides how soon; here: it does end)
        let o = match hrx.recv_timeout(Duration::from_millis(3000 + 2500)) {
            Ok(_) => Ok(()),
            Err(_) if held_early.is_some() => Ok(()),
            Err(_) => Err((format!("held-call-never-ends-{:?}", h), "the call held by the hostile peer had not returned 2.5 s after its read timeout (3 s)".to_string())),
        };
        out.push(Case { tags: vec!["kind=bystander".into(), format!("held={:?}", h), "bystander=the-held-call".into()], op: format!("nop held {:?}", h), impl_line: "nop".into(), oracle: o });
    }
    out
}
