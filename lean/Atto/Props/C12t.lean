/-
  Atto/Props/C12t.lean — what is written INSIDE a CONNECT tunnel, and following redirects through
  tunnels (properties C12, C08, C10, C09 continued behind the proxy's `2xx`).

  `sendLoopT` / `sendT` (Model/SendT.lean) are `sendLoop` / `send` with the TLS layer of tunnels
  left out: after the proxy's `2xx` the request is written in clear on the same connection
  (`HopOutT.inner`), the origin's answer is read from what follows the proxy's head, and the
  redirect loop goes on.  The chain of URLs is `urlsVisitedT` (`tn_urls`): the caller's URL, then
  what each followed hop's `Location` resolved to; `hdrsVisitedT` (`rd_hdrsSeq`) is the header map
  each hop starts from: the prepared headers, to which only `set_host` is ever applied.
    (1) `tunnelHead` is `initiateTunnel` that keeps the reader;
    (2) `sendLoopT` refines `sendLoop`;
    (3) inside the tunnel goes the origin-form request for THAT hop's URL with that hop's own `Host`;
        the TLS name is the origin's;
    (4) the proxy URL's credentials never enter a tunnel — header statement and non-interference;
    (5) nothing is written after a CONNECT that was not answered `2xx`;
    (6) tunnelled hops replay method and body by the same rule as plain hops;
    (7) the redirect limit holds through tunnels.
  Helper lemmas: Lemmas/SendTLemmas.lean (and Lemmas/Redirect.lean).
-/
import Atto.Lemmas.SendTLemmas
import Atto.Lemmas.RedirectExamples
import Atto.Props.C12
namespace Atto
open Atto.Rd Atto.RdEx

deriving instance DecidableEq for HopOutT
deriving instance DecidableEq for BufR

/-! ### example data -/
namespace C12t
def proxyUrl : Url :=
  { scheme := str "http", user := str "pu", pass := some (str "pp"), host := str "proxy.test", hostKind := 0,
    port := some 3128, effPort := 3128, path := str "/", query := none, fragment := none }
/-- the same proxy with other credentials -/
def proxyUrl2 : Url := { proxyUrl with user := str "other", pass := none }
/-- `https://c.test/three` -/
def c3 : Url :=
  { scheme := str "https", user := [], pass := none, host := str "c.test", hostKind := 0, port := none,
    effPort := 443, path := str "/three", query := none, fragment := none }
/-- `http://a.test/one` -/
def a1 : Url := rx_url "a.test" "/one"
def viaProxy : SendSettings :=
  { followRedirects := true, maxRedirections := 5, maxHeaders := 100,
    proxy := { httpProxy := some proxyUrl, httpsProxy := some proxyUrl, disabled := false, noProxy := [] } }
def proxy2 : ProxySettings :=
  { httpProxy := some proxyUrl2, httpsProxy := some proxyUrl2, disabled := false, noProxy := [] }
/-- the caller set a `Proxy-Authorization` of its own -/
def reqPA : Req :=
  { rx_req with headers := rx_req.headers ++ [(str "proxy-authorization", str "Basic Y2FsbGVy")] }
/-- hop 0: the proxy agrees (the first bytes of the origin's answer arrive in the same segment as the
    proxy's head), the origin answers 307 → `http://a.test/one`; hop 1: 200. -/
def hopTunnel : Hop :=
  { script := [.data (str "HTTP/1.1 200 Connection established\r\n\r\nHTTP/1.1 307 T"),
               .data (str "emporary Redirect\r\nLocation: http://a.test/one\r\n"),
               .data (str "Content-Length: 0\r\n\r\n")],
    resolved := some a1 }
def chain : List Hop := [hopTunnel, { script := rx_ok, resolved := none }]
/-- `http://a.test/one` → 307 → `https://c.test/three` (tunnel) → 307 → `http://a.test/one` → 200 -/
def chain3 : List Hop :=
  { script := rx_redirect "307 Temporary Redirect" "https://c.test/three", resolved := some c3 } :: chain
/-- hop 0: the proxy refuses (407) -/
def hopRefused : Hop := { script := C12.refuse.script, resolved := some a1 }
def refused : List Hop := [hopRefused, { script := rx_ok, resolved := none }]

theorem same : viaProxy.proxy.sameUpToCreds proxy2 := by
  unfold ProxySettings.sameUpToCreds; exact ⟨rfl, rfl, rfl, rfl⟩
theorem urls : urlsVisitedT viaProxy rx_req 64 c3 chain = [c3, a1] := by decide +kernel
theorem urls3 : urlsVisitedT viaProxy rx_reqOneShot 64 a1 chain3 = [a1, c3, a1] := by decide +kernel
end C12t
open C12t

/-! ### (1) `tunnelHead` -/

/-- `initiate_tunnel` answers what `tunnelHead` answers: the refusal / error if there is one, and
    `tlsStarted` exactly when `tunnelHead` hands the reader over (the proxy said `2xx`). -/
theorem C12t_tunnelHead_initiateTunnel (mh cap : Nat) (t : Transport) :
    initiateTunnel mh cap t = match tunnelHead mh cap t with | .inl f => f | .inr _ => .tlsStarted :=
  tn_tunnelHead_initiateTunnel mh cap t

/-- non-vacuity: agreed — the bytes that followed the proxy's head in the same segment are what the
    next reader sees first; refused — 407 with its body. -/
example : (match tunnelHead 100 64 hopTunnel.script with
    | .inl _ => none | .inr r => some (tunnelRest r)) =
    some [.data (str "HTTP/1.1 307 T"), .data (str "emporary Redirect\r\nLocation: http://a.test/one\r\n"),
          .data (str "Content-Length: 0\r\n\r\n")] := by decide +kernel
example : initiateTunnel 100 64 hopTunnel.script = .tlsStarted := by
  rw [C12t_tunnelHead_initiateTunnel]; decide +kernel
example : (match tunnelHead 100 8 C12.refuse.script with | .inl f => some f | .inr _ => none) =
    some (.connectError 407 (str "no way")) := by decide +kernel

/-! ### (2) `sendLoopT` refines `sendLoop` -/

/-- The loop with transparent tunnels refines the loop that stops where TLS begins.
    If `sendLoop` does not end with `tlsStarted` — no CONNECT was agreed — both observe the same
    connections (every field of every `HopOut`, `tlsName` included) and end in the same way.
    In general the observations of `sendLoop`, up to and including the first agreed tunnel, are
    literally the first observations of `sendLoopT`. -/
theorem C12t_agrees_with_send (s : SendSettings) (req : Req) (cap : Nat) (hops : List Hop) (url : Url)
    (n : Nat) (hdrs : Headers) (first : Bool) :
    ((sendLoop s req cap hops url n hdrs first).2 ≠ .tlsStarted →
      (sendLoopT s req cap hops url n hdrs first).1.map (·.out) = (sendLoop s req cap hops url n hdrs first).1 ∧
      (sendLoopT s req cap hops url n hdrs first).2 = (sendLoop s req cap hops url n hdrs first).2) ∧
    (sendLoop s req cap hops url n hdrs first).1 <+: (sendLoopT s req cap hops url n hdrs first).1.map (·.out) :=
  ⟨tn_agree_eq s req cap hops url n hdrs first, tn_agree_prefix s req cap hops url n hdrs first⟩

/-- for `send` / `sendT` -/
theorem C12t_agrees_with_send_top (s : SendSettings) (req : Req) (cap : Nat) (url : Url) (hops : List Hop) :
    ((send s req cap url hops).2 ≠ .tlsStarted →
      (sendT s req cap url hops).1.map (·.out) = (send s req cap url hops).1 ∧
      (sendT s req cap url hops).2 = (send s req cap url hops).2) ∧
    (send s req cap url hops).1 <+: (sendT s req cap url hops).1.map (·.out) :=
  C12t_agrees_with_send s req cap hops url 0 req.headers true

/-- `sendLoop` ends with `tlsStarted` exactly when its last observation is an agreed tunnel (a TLS
    name is set): the hypothesis of the first part excludes nothing else. -/
theorem C12t_send_stops_at_agreed_tunnel (s : SendSettings) (req : Req) (cap : Nat) (hops : List Hop)
    (url : Url) (n : Nat) (hdrs : Headers) (first : Bool) :
    (sendLoop s req cap hops url n hdrs first).2 = .tlsStarted ↔
    ∃ o, (sendLoop s req cap hops url n hdrs first).1.getLast? = some o ∧ o.tlsName.isSome :=
  tn_sendLoop_tls_iff s req cap hops url n hdrs first

/-- non-vacuity, first part: the proxy refuses — same observation, same `connectError`; and a plain
    chain a → b → c through a proxy that excludes `b`. -/
example : (sendT viaProxy rx_req 64 c3 refused).1.map (·.out) = (send viaProxy rx_req 64 c3 refused).1 ∧
    (sendT viaProxy rx_req 64 c3 refused).2 = .connectError 407 (str "no way") := by
  have h := (C12t_agrees_with_send_top viaProxy rx_req 64 c3 refused).1 (by decide +kernel)
  refine ⟨h.1, ?_⟩
  rw [h.2]; decide +kernel
example := (C12t_agrees_with_send_top rx_settingsProxy rx_req 64 rx_a rx_chain).1 (by decide +kernel)
/-- non-vacuity, second part: `send` stops after the CONNECT (one observation, `tlsStarted`),
    `sendT` goes on to `http://a.test/one` (two observations, 200). -/
example : (send viaProxy rx_req 64 c3 chain).2 = .tlsStarted ∧ (send viaProxy rx_req 64 c3 chain).1.length = 1 ∧
    (sendT viaProxy rx_req 64 c3 chain).1.length = 2 ∧ (sendT viaProxy rx_req 64 c3 chain).2 = .ok 200 a1 := by
  decide +kernel
example := (C12t_agrees_with_send_top viaProxy rx_req 64 c3 chain).2
example := (C12t_send_stops_at_agreed_tunnel viaProxy rx_req 64 chain c3 0 rx_req.headers true).mp (by decide +kernel)

/-! ### the chain of URLs -/

/-- The chain: hop 0 goes to the caller's URL, hop `i+1` to what hop `i`'s `Location` resolved to
    (and hop `i` was followed: a followed status below the limit) — tunnel hops included. -/
theorem C12t_chain (s : SendSettings) (req : Req) (cap : Nat) (url : Url) (hops : List Hop) :
    (hops ≠ [] → (urlsVisitedT s req cap url hops)[0]? = some url) ∧
    (∀ i u', (urlsVisitedT s req cap url hops)[i + 1]? = some u' →
      ∃ hop u, hops[i]? = some hop ∧ (urlsVisitedT s req cap url hops)[i]? = some u ∧
        hop.resolved = some u' ∧ i + 1 ≤ s.maxRedirections) ∧
    (sendT s req cap url hops).1.length = (urlsVisitedT s req cap url hops).length := by
  refine ⟨?_, ?_, tn_outs_length s req cap hops url 0 req.headers true⟩
  · intro hne
    cases hops with
    | nil => exact absurd rfl hne
    | cons hop rest => exact tn_urls_head s req cap hop rest url 0
  · intro i u' h
    obtain ⟨hop, u, h1, h2, h3, h4⟩ := tn_urls_next s req cap hops url 0 i u' h
    obtain ⟨_, hn, _⟩ := tn_step_follow_inv h4
    exact ⟨hop, u, h1, h2, h3, by omega⟩

example : urlsVisitedT viaProxy rx_req 64 c3 chain = [c3, a1] := C12t.urls
/-- hop 1's URL is what hop 0 (the tunnel hop) resolved its `Location` to -/
example := (C12t_chain viaProxy rx_req 64 c3 chain).2.1 0 a1 (by decide +kernel)

/-! ### (3) the request inside the tunnel -/

/-- Every observation of the loop that has a request inside a tunnel (`inner = some w`), by
    position `i`: `u` is the `i`-th URL of the chain, `hin` the header map left by the hops before;
    a proxy `p` is selected for `u` and `u` is `https`; the proxy connection (dialled: `p`) carries
    `connectRequest u p` and nothing else before TLS; the TLS name is `u`'s host — the origin's,
    never the proxy's; and `w` is the origin-form request for `u` with the header map
    `setHost hin u`, whose only `Host` value is `u`'s authority. -/
theorem C12t_inner_is_origin_request (s : SendSettings) (req : Req) (cap : Nat) (hops : List Hop)
    (url : Url) (n : Nat) (hdrs : Headers) (first : Bool) (i : Nat) (o : HopOutT) (w : Bytes) :
    (sendLoopT s req cap hops url n hdrs first).1[i]? = some o → o.inner = some w →
    ∃ u hin p, (tn_urls s req cap hops url n)[i]? = some u ∧
      (rd_hdrsSeq s hdrs (tn_urls s req cap hops url n))[i]? = some hin ∧
      s.proxy.forUrl u = some p ∧ u.scheme = str "https" ∧
      w = writeRequest req.method u false (setHost hin u) (rd_body req (first && i == 0)) ∧
      (setHost hin u).getAll (hName "host") = [u.authority] ∧
      o.out.wrote = connectRequest u p ∧ o.out.tlsName = some u.host ∧
      o.out.dialHost = p.host ∧ o.out.dialPort = p.effPort ∧ o.out.dialScheme = p.scheme := by
  intro ho hw
  obtain ⟨u, hin, hop, h1, h2, _, h4⟩ := tn_outs s req cap hops url n hdrs first i o ho
  subst h4
  obtain ⟨ht, _, hw', hout⟩ := tn_obs_inner hw
  obtain ⟨p, hp, hs⟩ := (tn_tunnels_iff s u).mp ht
  refine ⟨u, hin, p, h1, h2, hp, hs, hw', tn_setHost_host hin u, ?_⟩
  rw [hout]
  simp only [tn_agreedOut, tn_connectOut, tn_target_of_tunnels hp, and_self]

/-- The same for every element of the output, without positions: there are a URL `u` of the chain,
    headers `h`, a body `b` and the proxy `p` chosen for `u` with … -/
theorem C12t_inner_is_origin_request_mem (s : SendSettings) (req : Req) (cap : Nat) (hops : List Hop)
    (url : Url) (n : Nat) (hdrs : Headers) (first : Bool) (o : HopOutT) (w : Bytes) :
    o ∈ (sendLoopT s req cap hops url n hdrs first).1 → o.inner = some w →
    ∃ u h b p, u ∈ tn_urls s req cap hops url n ∧
      w = writeRequest req.method u false (setHost h u) b ∧
      s.proxy.forUrl u = some p ∧ (s.proxy.forUrl u).isSome ∧ u.scheme = str "https" ∧
      o.out.wrote = connectRequest u p ∧ o.out.tlsName = some u.host := by
  intro hm hw
  obtain ⟨i, hi⟩ := List.getElem?_of_mem hm
  obtain ⟨u, hin, p, h1, _, hp, hs, hw', _, hc, ht, _⟩ :=
    C12t_inner_is_origin_request s req cap hops url n hdrs first i o w hi hw
  exact ⟨u, hin, _, p, List.mem_of_getElem? h1, hw', hp, by simp [hp], hs, hc, ht⟩

/-- (C08 inside the tunnel) the request target of the inner request is the origin-form of the hop's
    URL: `method SP path[?query] SP HTTP/1.1 CRLF …` — no scheme, no authority, no userinfo. -/
theorem C08t_inner_origin_form (s : SendSettings) (req : Req) (cap : Nat) (hops : List Hop)
    (url : Url) (n : Nat) (hdrs : Headers) (first : Bool) (i : Nat) (o : HopOutT) (w : Bytes) :
    (sendLoopT s req cap hops url n hdrs first).1[i]? = some o → o.inner = some w →
    ∃ u after, (tn_urls s req cap hops url n)[i]? = some u ∧
      w = req.method ++ [32] ++ u.originForm ++ str " HTTP/1.1\r\n" ++ after := by
  intro ho hw
  obtain ⟨u, hin, p, h1, _, _, _, hw', _⟩ :=
    C12t_inner_is_origin_request s req cap hops url n hdrs first i o w ho hw
  refine ⟨u, writeHeaders (setHost hin u) ++ writeBody (rd_body req (first && i == 0)), h1, ?_⟩
  rw [hw']
  simp [writeRequest, requestTarget, List.append_assoc]

/-- non-vacuity: the two-hop chain; hop 0 is the tunnel towards `c.test` -/
example : (sendT viaProxy rx_req 64 c3 chain).1.map (fun o => (o.inner, o.out.wrote, o.out.tlsName)) =
    [(some (str "POST /three HTTP/1.1\r\naccept: */*\r\nx-caller: 1\r\ncontent-length: 3\r\nhost: c.test\r\n\r\nabc"),
      str "CONNECT c.test:443 HTTP/1.1\r\nHost: proxy.test:3128\r\nConnection: close\r\nProxy-Authorization: Basic cHU6cHA=\r\n\r\n",
      some (str "c.test")),
     (none,
      str "POST http://a.test/one HTTP/1.1\r\naccept: */*\r\nx-caller: 1\r\ncontent-length: 3\r\nhost: proxy.test:3128\r\n\r\nabc",
      none)] := by
  decide +kernel
example (o : HopOutT) (w : Bytes) (ho : (sendT viaProxy rx_req 64 c3 chain).1[0]? = some o)
    (hw : o.inner = some w) :
    ∃ hin, w = writeRequest (str "POST") c3 false (setHost hin c3) rx_body ∧
      o.out.wrote = connectRequest c3 proxyUrl ∧ o.out.tlsName = some (str "c.test") := by
  obtain ⟨u, hin, p, h1, _, hp, _, hw', _, hc, ht, _⟩ :=
    C12t_inner_is_origin_request viaProxy rx_req 64 chain c3 0 rx_req.headers true 0 o w ho hw
  have e : (tn_urls viaProxy rx_req 64 chain c3 0)[0]? = some c3 := by decide +kernel
  rw [e] at h1; cases h1
  have e2 : viaProxy.proxy.forUrl c3 = some proxyUrl := by decide +kernel
  rw [e2] at hp; cases hp
  exact ⟨hin, hw', hc, ht⟩
example (o : HopOutT) (w : Bytes) (hm : o ∈ (sendT viaProxy rx_req 64 c3 chain).1) (hw : o.inner = some w) :=
  C12t_inner_is_origin_request_mem viaProxy rx_req 64 chain c3 0 rx_req.headers true o w hm hw
example (o : HopOutT) (w : Bytes) (ho : (sendT viaProxy rx_req 64 c3 chain).1[0]? = some o)
    (hw : o.inner = some w) : ∃ after, w = str "POST" ++ [32] ++ str "/three" ++ str " HTTP/1.1\r\n" ++ after := by
  obtain ⟨u, after, h1, h2⟩ := C08t_inner_origin_form viaProxy rx_req 64 chain c3 0 rx_req.headers true 0 o w ho hw
  have e : (tn_urls viaProxy rx_req 64 chain c3 0)[0]? = some c3 := by decide +kernel
  rw [e] at h1; cases h1
  exact ⟨after, h2⟩
/-- the hypotheses can be met: hop 0 of the chain has an inner request -/
example : ((sendT viaProxy rx_req 64 c3 chain).1[0]?.bind (·.inner)).isSome = true := by
  decide +kernel

/-! ### (4) the proxy's credentials stay outside -/

/-- The header map of every inner request is `setHost hin u` where every field other than `Host` —
    `Proxy-Authorization` in particular — has exactly the values the loop was started with:
    `hdrs` only ever changes by `set_host`.  The proxy URL's credentials (which are in
    `connectRequest`) are never copied into the request that goes through the tunnel. -/
theorem C12t_no_proxy_creds_inside (s : SendSettings) (req : Req) (cap : Nat) (hops : List Hop)
    (url : Url) (n : Nat) (hdrs : Headers) (first : Bool) (i : Nat) (o : HopOutT) (w : Bytes) :
    (sendLoopT s req cap hops url n hdrs first).1[i]? = some o → o.inner = some w →
    ∃ u hin, (tn_urls s req cap hops url n)[i]? = some u ∧
      (rd_hdrsSeq s hdrs (tn_urls s req cap hops url n))[i]? = some hin ∧
      w = writeRequest req.method u false (setHost hin u) (rd_body req (first && i == 0)) ∧
      (setHost hin u).getAll (str "proxy-authorization") = hdrs.getAll (str "proxy-authorization") ∧
      (∀ m, m ≠ hName "host" → (setHost hin u).getAll m = hdrs.getAll m) := by
  intro ho hw
  obtain ⟨u, hin, p, h1, h2, _, _, hw', _⟩ :=
    C12t_inner_is_origin_request s req cap hops url n hdrs first i o w ho hw
  have hk : ∀ m, m ≠ hName "host" → (setHost hin u).getAll m = hdrs.getAll m := by
    intro m hm
    rw [tn_setHost_other hin u m hm]
    exact tn_hdrsSeq_other s m hm _ hdrs i hin h2
  refine ⟨u, hin, h1, h2, hw', ?_, hk⟩
  rw [(C12_no_proxy_creds_inside ⟨false, []⟩ [] { kind := .empty } u).2.2 hin]
  exact tn_hdrsSeq_other s _ tn_pa_ne_host _ hdrs i hin h2

/-- for `sendT`: the `Proxy-Authorization` values inside a tunnel are exactly the caller's own -/
theorem C12t_no_proxy_creds_inside_top (s : SendSettings) (req : Req) (cap : Nat) (url : Url)
    (hops : List Hop) (i : Nat) (o : HopOutT) (w : Bytes) :
    (sendT s req cap url hops).1[i]? = some o → o.inner = some w →
    ∃ u hin, (urlsVisitedT s req cap url hops)[i]? = some u ∧
      (hdrsVisitedT s req cap url hops)[i]? = some hin ∧
      w = writeRequest req.method u false (setHost hin u) (rd_body req (i == 0)) ∧
      (setHost hin u).getAll (str "proxy-authorization") = req.headers.getAll (str "proxy-authorization") ∧
      (∀ m, m ≠ hName "host" → (setHost hin u).getAll m = req.headers.getAll m) := by
  intro ho hw
  obtain ⟨u, hin, h1, h2, h3, h4, h5⟩ :=
    C12t_no_proxy_creds_inside s req cap hops url 0 req.headers true i o w ho hw
  refine ⟨u, hin, h1, h2, ?_, h4, h5⟩
  rw [h3]; simp

/-- non-vacuity: a caller without `Proxy-Authorization` — none inside (the proxy URL has `pu:pp`);
    a caller with its own — exactly that one. -/
example (o : HopOutT) (w : Bytes) (ho : (sendT viaProxy rx_req 64 c3 chain).1[0]? = some o)
    (hw : o.inner = some w) :
    ∃ hin, w = writeRequest (str "POST") c3 false (setHost hin c3) rx_body ∧
      (setHost hin c3).getAll (str "proxy-authorization") = [] := by
  obtain ⟨u, hin, h1, _, h3, h4, _⟩ := C12t_no_proxy_creds_inside_top viaProxy rx_req 64 c3 chain 0 o w ho hw
  rw [C12t.urls] at h1; cases h1
  refine ⟨hin, h3, ?_⟩
  rw [h4]; decide +kernel
example : (sendT viaProxy reqPA 64 c3 chain).1.map (·.inner) =
    [some (str "POST /three HTTP/1.1\r\naccept: */*\r\nx-caller: 1\r\ncontent-length: 3\r\nproxy-authorization: Basic Y2FsbGVy\r\nhost: c.test\r\n\r\nabc"),
     none] := by decide +kernel

/-- Non-interference: two runs of `sendT` whose settings differ only in the `user` / `pass` fields
    of the proxy URLs (`ProxySettings.sameUpToCreds`) end in the same way and observe, connection by
    connection, the same inner request, the same peer, the same TLS name; what is written before TLS
    is the same too, except on tunnel hops, where both write the CONNECT head for the same URL — the
    only place the credentials appear. -/
theorem C12t_creds_noninterference (s : SendSettings) (ps : ProxySettings) (h : s.proxy.sameUpToCreds ps)
    (req : Req) (cap : Nat) (url : Url) (hops : List Hop) :
    (sendT { s with proxy := ps } req cap url hops).2 = (sendT s req cap url hops).2 ∧
    (sendT { s with proxy := ps } req cap url hops).1.map (·.inner) = (sendT s req cap url hops).1.map (·.inner) ∧
    (sendT { s with proxy := ps } req cap url hops).1.map
        (fun o => (o.out.dialScheme, o.out.dialHost, o.out.dialPort, o.out.tlsName, o.out.tlsNameIsDomain)) =
      (sendT s req cap url hops).1.map
        (fun o => (o.out.dialScheme, o.out.dialHost, o.out.dialPort, o.out.tlsName, o.out.tlsNameIsDomain)) ∧
    (∀ (i : Nat) (o o' : HopOutT), (sendT s req cap url hops).1[i]? = some o →
      (sendT { s with proxy := ps } req cap url hops).1[i]? = some o' →
      o'.out.wrote = o.out.wrote ∨
      ∃ u p p', s.proxy.forUrl u = some p ∧ ps.forUrl u = some p' ∧ p.sameUpToCreds p' ∧
        o.out.wrote = connectRequest u p ∧ o'.out.wrote = connectRequest u p') := by
  obtain ⟨h1, h2⟩ := tn_nonint h req cap hops url 0 req.headers true
  refine ⟨h1, ?_, ?_, ?_⟩
  · have := congrArg (List.map Prod.fst) h2
    simp only [List.map_map] at this
    exact this
  · have := congrArg (List.map Prod.snd) h2
    simp only [List.map_map] at this
    exact this
  · intro i o o' ho ho'
    exact tn_nonint_wrote h req cap hops url 0 req.headers true i o o' ho ho'

/-- non-vacuity: proxy credentials `pu:pp` versus `other` (no password): same inner requests, same
    result; the CONNECT heads differ. -/
example := C12t_creds_noninterference viaProxy proxy2 C12t.same rx_req 64 c3 chain
example : (sendT { viaProxy with proxy := proxy2 } rx_req 64 c3 chain).1.map (·.out.wrote) ≠
    (sendT viaProxy rx_req 64 c3 chain).1.map (·.out.wrote) := by decide +kernel
example : (sendT { viaProxy with proxy := proxy2 } rx_req 64 c3 chain).1.map (·.inner) =
    (sendT viaProxy rx_req 64 c3 chain).1.map (·.inner) :=
  (C12t_creds_noninterference viaProxy proxy2 C12t.same rx_req 64 c3 chain).2.1

/-! ### (5) refusal -/

/-- If hop `i` is reached at URL `u`, the CONNECT branch is taken there and the proxy's answer is
    not an agreement (`tunnelHead` gives `inl f`: a non-2xx status, a broken head, a transport
    error, silence), then hop `i` is the last observation, it has no inner request and no TLS name,
    only the CONNECT head was written on it, and the outcome of the whole loop is `f`. -/
theorem C12t_refusal_stops (s : SendSettings) (req : Req) (cap : Nat) (hops : List Hop) (url : Url)
    (n : Nat) (hdrs : Headers) (first : Bool) (i : Nat) (u : Url) (hop : Hop) (f : Final) :
    (tn_urls s req cap hops url n)[i]? = some u → hops[i]? = some hop → rd_tunnels s u = true →
    tunnelHead s.maxHeaders cap hop.script = .inl f →
    (sendLoopT s req cap hops url n hdrs first).2 = f ∧
    (sendLoopT s req cap hops url n hdrs first).1.length = i + 1 ∧
    ∃ o, (sendLoopT s req cap hops url n hdrs first).1[i]? = some o ∧
      (sendLoopT s req cap hops url n hdrs first).1.getLast? = some o ∧
      o.inner = none ∧ o.out.tlsName = none ∧ o.out.wrote = connectRequest u (rd_target s u) := by
  intro hu hh ht hf
  obtain ⟨h1, h2⟩ := tn_final_at s req cap hops url n hdrs first i u hop f hu hh (tn_step_refused ht hf)
  refine ⟨h1, h2, ?_⟩
  have hlt : i < (sendLoopT s req cap hops url n hdrs first).1.length := by omega
  have hget : (sendLoopT s req cap hops url n hdrs first).1[i]? =
      some ((sendLoopT s req cap hops url n hdrs first).1[i]) := List.getElem?_eq_getElem hlt
  obtain ⟨u', hin, hop', a1, _, a3, a4⟩ := tn_outs s req cap hops url n hdrs first i _ hget
  rw [hu] at a1; cases a1
  rw [hh] at a3; cases a3
  rw [tn_obs_refused ht hf] at a4
  refine ⟨_, hget, ?_, ?_⟩
  · rw [List.getLast?_eq_getElem?, h2]; exact hget
  · rw [a4]; exact ⟨rfl, rfl, rfl⟩

/-- the first hop: a refused CONNECT is the only observation, whatever connections remain -/
theorem C12t_refusal_first (s : SendSettings) (req : Req) (cap : Nat) (hop : Hop) (rest : List Hop)
    (url : Url) (n : Nat) (hdrs : Headers) (first : Bool) (f : Final)
    (ht : rd_tunnels s url = true) (hf : tunnelHead s.maxHeaders cap hop.script = .inl f) :
    sendLoopT s req cap (hop :: rest) url n hdrs first = ([{ out := tn_connectOut s url }], f) := by
  rw [tn_loop_final (tn_step_refused ht hf), tn_obs_refused ht hf]

/-- non-vacuity: a → (307) → c, where the proxy answers the CONNECT with 407: two observations, the
    second without inner request, result `connectError 407`. -/
example : (sendT viaProxy rx_req 8 a1
      ({ script := rx_redirect "307 Temporary Redirect" "https://c.test/three", resolved := some c3 } :: refused)).2 =
    .connectError 407 (str "no way") :=
  (C12t_refusal_stops viaProxy rx_req 8 _ a1 0 rx_req.headers true 1 c3 hopRefused _
    (by decide +kernel) rfl (by decide +kernel) (by decide +kernel)).1
example : sendT viaProxy rx_req 8 c3 refused = ([{ out := tn_connectOut viaProxy c3 }], .connectError 407 (str "no way")) :=
  C12t_refusal_first viaProxy rx_req 8 _ _ c3 0 rx_req.headers true _ (by decide +kernel) (by decide +kernel)

/-! ### (6) method and body inside the tunnel -/

/-- The inner request of hop `i` is written with the caller's method and ends with the body bytes
    given by the same rule as for plain hops: the whole body on hop 0 or when the body can be
    rewound, nothing (`writes := []`, under the unchanged framing header) for a one-shot body on a
    later hop. -/
theorem C10t_body_inside (s : SendSettings) (req : Req) (cap : Nat) (url : Url) (hops : List Hop)
    (i : Nat) (o : HopOutT) (w : Bytes) :
    (sendT s req cap url hops).1[i]? = some o → o.inner = some w →
    let body : BodyM := if i = 0 ∨ req.bodyRewindable = true then req.body else { req.body with writes := [] }
    ∃ u hin, (urlsVisitedT s req cap url hops)[i]? = some u ∧
      (hdrsVisitedT s req cap url hops)[i]? = some hin ∧
      w = writeRequest req.method u false (setHost hin u) body ∧
      ∃ head, w = req.method ++ [32] ++ head ++ writeBody body := by
  intro ho hw body
  obtain ⟨u, hin, h1, h2, h3, _, _⟩ := C12t_no_proxy_creds_inside_top s req cap url hops i o w ho hw
  have hb : rd_body req (i == 0) = body := by
    simp only [rd_body, body]
    by_cases hi : i = 0 <;> cases req.bodyRewindable <;> simp [hi]
  rw [hb] at h3
  refine ⟨u, hin, h1, h2, h3, requestTarget u false ++ str " HTTP/1.1\r\n" ++ writeHeaders (setHost hin u), ?_⟩
  rw [h3]; simp [writeRequest, List.append_assoc]

/-- non-vacuity: a rewindable body is replayed inside a tunnel reached on hop 1 … -/
example (o : HopOutT) (w : Bytes) (ho : (sendT viaProxy rx_req 64 a1 chain3).1[1]? = some o)
    (hw : o.inner = some w) : ∃ head, w = str "POST" ++ [32] ++ head ++ str "abc" := by
  obtain ⟨_, _, _, _, _, head, hh⟩ := C10t_body_inside viaProxy rx_req 64 a1 chain3 1 o w ho hw
  have e : writeBody (if 1 = 0 ∨ rx_req.bodyRewindable = true then rx_req.body else { rx_req.body with writes := [] })
      = str "abc" := by decide +kernel
  rw [e] at hh
  exact ⟨head, hh⟩
/-- … and a one-shot body is not (known finding F-multipart of C10, also inside tunnels): the head
    announces `content-length: 3`, no body byte follows. -/
example : (sendT viaProxy rx_reqOneShot 64 a1 chain3).1.map (·.inner) =
    [none,
     some (str "POST /three HTTP/1.1\r\naccept: */*\r\nx-caller: 1\r\ncontent-length: 3\r\nhost: c.test\r\n\r\n"),
     none] := by decide +kernel
example : ((sendT viaProxy rx_req 64 a1 chain3).1[1]?.bind (·.inner)).isSome = true := by decide +kernel

/-! ### (7) the redirect limit -/

/-- The loop invariant through tunnels: with `n` redirections already followed at most
    `max - n + 1` further connections are made, and never more than there are scripts. -/
theorem C09t_bound_loop (s : SendSettings) (req : Req) (cap : Nat) (hops : List Hop) (url : Url)
    (n : Nat) (hdrs : Headers) (first : Bool) :
    (sendLoopT s req cap hops url n hdrs first).1.length ≤ s.maxRedirections - n + 1 ∧
    (sendLoopT s req cap hops url n hdrs first).1.length ≤ hops.length := by
  rw [tn_outs_length]
  have := tn_urls_length_le s req cap hops url n
  exact ⟨this.2, this.1⟩

/-- `sendT` makes at most `max_redirections + 1` connections (a tunnel counts as one: the CONNECT
    and the request inside it share the connection). -/
theorem C09t_bound (s : SendSettings) (req : Req) (cap : Nat) (url : Url) (hops : List Hop) :
    (sendT s req cap url hops).1.length ≤ s.maxRedirections + 1 :=
  (C09t_bound_loop s req cap hops url 0 req.headers true).1

/-- non-vacuity: limit 1 on the three-hop chain through a tunnel: two connections, then
    `TooManyRedirections` (raised on the answer read inside the tunnel). -/
example : (sendT { viaProxy with maxRedirections := 1 } rx_req 64 a1 chain3).1.length ≤ 1 + 1 :=
  C09t_bound _ _ _ _ _
example : (sendT { viaProxy with maxRedirections := 1 } rx_req 64 a1 chain3).1.length = 2 ∧
    (sendT { viaProxy with maxRedirections := 1 } rx_req 64 a1 chain3).2 = .tooManyRedirections := by
  decide +kernel

end Atto
