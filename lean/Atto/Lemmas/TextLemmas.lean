/-
  Atto/Lemmas/TextLemmas.lean — helper lemmas for property C18: the `charset=` label extraction and
  the reference decoders of Atto/Spec/TextSpec.lean (streaming = whole).
-/
import Atto.Model.Charset
import Atto.Spec.TextSpec
namespace Atto

/-! ### constants -/

theorem tx_str_charset : str "charset=" = [99, 104, 97, 114, 115, 101, 116, 61] := by decide +kernel

/-! ### `charsetLabel` -/

theorem tx_idxOf_first (c : UInt8) : ∀ (pre rest : Bytes), c ∉ pre →
    (pre ++ c :: rest).idxOf? c = some pre.length := by
  intro pre
  induction pre with
  | nil => intro rest _; simp [List.idxOf?_cons]
  | cons x xs ih =>
    intro rest h
    have hx : ¬ x = c := fun e => h (by simp [e])
    have hxs : c ∉ xs := fun e => h (by simp [e])
    rw [List.cons_append, List.idxOf?_cons, ih rest hxs]
    simp [hx]

theorem tx_idxOf_none (c : UInt8) : ∀ (s : Bytes), c ∉ s → s.idxOf? c = none := by
  intro s
  induction s with
  | nil => intro _; rfl
  | cons x xs ih =>
    intro h
    have hx : ¬ x = c := fun e => h (by simp [e])
    have hxs : c ∉ xs := fun e => h (by simp [e])
    rw [List.idxOf?_cons, ih hxs]
    simp [hx]

theorem tx_trimRight_id (c : UInt8) (s : Bytes) (h : s.getLast? ≠ some c) : trimRight c s = s := by
  unfold trimRight
  cases hr : s.reverse with
  | nil => simp [List.reverse_eq_nil_iff.mp hr]
  | cons x xs =>
    have hx : ¬ x = c := by
      intro e
      apply h
      rw [List.getLast?_eq_head?_reverse, hr, e]; rfl
    rw [List.dropWhile_cons]
    simp only [beq_iff_eq, hx, if_false]
    rw [← hr, List.reverse_reverse]

theorem tx_trimLeft_spaces (c : UInt8) (k : Nat) (s : Bytes) (h : s.head? ≠ some c) :
    trimLeft c (List.replicate k c ++ s) = s := by
  unfold trimLeft
  induction k with
  | zero =>
    cases s with
    | nil => rfl
    | cons x xs =>
      have hx : ¬ x = c := fun e => h (by simp [e])
      simp [hx]
  | succ k ih =>
    rw [List.replicate_succ, List.cons_append, List.dropWhile_cons]
    simpa using ih

/-- everything after the FIRST `;` is what the label is taken from -/
theorem tx_charsetLabel_split (ty rest : Bytes) (hty : (59 : UInt8) ∉ ty) :
    charsetLabel (ty ++ 59 :: rest) =
      if isPrefixOfB (str "charset=") (trimByte 32 rest) then some ((trimByte 32 rest).drop 8)
      else none := by
  have hd : (ty ++ 59 :: rest).drop (ty.length + 1) = rest := by
    induction ty with
    | nil => rfl
    | cons x xs ih => exact ih (fun e => hty (by simp [e]))
  unfold charsetLabel
  rw [tx_idxOf_first 59 ty rest hty]
  simp only [hd]

theorem tx_charsetLabel_none (v : Bytes) (h : (59 : UInt8) ∉ v) : charsetLabel v = none := by
  unfold charsetLabel
  rw [tx_idxOf_none 59 v h]

theorem tx_trim_param (k : Nat) (l : Bytes) (hl : l.getLast? ≠ some 32) :
    trimByte 32 (List.replicate k 32 ++ str "charset=" ++ l) = str "charset=" ++ l := by
  unfold trimByte
  rw [tx_trimRight_id]
  · rw [List.append_assoc, tx_trimLeft_spaces]
    rw [tx_str_charset]; simp
  · rw [List.getLast?_append]
    cases hq : l.getLast? with
    | some x => rw [hq] at hl; simpa using hl
    | none =>
      rw [Option.none_or, List.getLast?_append, tx_str_charset]
      simp

/-! ### single-byte decoders -/

theorem tx_decodeSB_append (table : UInt8 → Char) (a b : Bytes) :
    decodeSB table (a ++ b) = decodeSB table a ++ decodeSB table b := by
  simp [decodeSB]

theorem tx_decodeSBChunks (table : UInt8 → Char) (chunks : List Bytes) :
    decodeSBChunks table chunks = decodeSB table chunks.flatten := by
  induction chunks with
  | nil => rfl
  | cons c cs ih =>
    unfold decodeSBChunks at ih ⊢
    rw [List.map_cons, List.flatten_cons, List.flatten_cons, tx_decodeSB_append, ih]

/-! ### the UTF-8 automaton -/

theorem tx_utf8Run_append (a b : Bytes) : ∀ s : U8State,
    utf8Run s (a ++ b) =
      ((utf8Run (utf8Run s a).1 b).1, (utf8Run s a).2 ++ (utf8Run (utf8Run s a).1 b).2) := by
  induction a with
  | nil => intro s; simp [utf8Run]
  | cons x xs ih =>
    intro s
    simp only [List.cons_append, utf8Run, ih, List.append_assoc]

theorem tx_utf8RunChunks (chunks : List Bytes) : ∀ s : U8State,
    utf8RunChunks s chunks = utf8Run s chunks.flatten := by
  induction chunks with
  | nil => intro s; rfl
  | cons c cs ih =>
    intro s
    rw [List.flatten_cons, tx_utf8Run_append, utf8RunChunks, ih]

theorem tx_decodeUtf8Chunks (chunks : List Bytes) :
    decodeUtf8Chunks chunks = decodeUtf8 chunks.flatten := by
  unfold decodeUtf8Chunks decodeUtf8
  rw [tx_utf8RunChunks]

/-- the number of characters owed for the pending sequence -/
def tx_pending (s : U8State) : Nat := if s.needed = 0 then 0 else 1

theorem tx_utf8Start_count (b : UInt8) :
    (utf8Start b).2.length + tx_pending (utf8Start b).1 = 1 := by
  unfold utf8Start
  split
  · rfl
  · split
    · rfl
    · split
      · rfl
      · split <;> rfl

theorem tx_utf8Step_count (s : U8State) (b : UInt8) :
    (utf8Step s b).2.length + tx_pending (utf8Step s b).1 ≤ tx_pending s + 1 ∧
    1 ≤ (utf8Step s b).2.length + tx_pending (utf8Step s b).1 := by
  unfold utf8Step
  by_cases h0 : s.needed = 0
  · simp only [h0, if_true]
    have := tx_utf8Start_count b
    simp only [tx_pending, h0, if_true] at this ⊢
    omega
  · simp only [h0, if_false]
    split
    · by_cases h1 : s.needed = 1
      · simp [h1, tx_pending]
      · have : s.needed - 1 ≠ 0 := by omega
        simp [h1, tx_pending, this, h0]
    · have := tx_utf8Start_count b
      simp only [tx_pending, h0, if_false, List.length_cons] at this ⊢
      omega

theorem tx_pending_le (s : U8State) : tx_pending s ≤ 1 := by
  unfold tx_pending; split <;> omega

theorem tx_utf8Run_count (bs : Bytes) : ∀ s : U8State,
    (utf8Run s bs).2.length + tx_pending (utf8Run s bs).1 ≤ tx_pending s + bs.length ∧
    tx_pending s ≤ (utf8Run s bs).2.length + tx_pending (utf8Run s bs).1 ∧
    (bs ≠ [] → 1 ≤ (utf8Run s bs).2.length + tx_pending (utf8Run s bs).1) := by
  induction bs with
  | nil => intro s; simp [utf8Run]
  | cons x xs ih =>
    intro s
    have h0 := tx_pending_le s
    have h1 := tx_utf8Step_count s x
    have h2 := ih (utf8Step s x).1
    simp only [utf8Run, List.length_append, List.length_cons]
    refine ⟨by omega, by omega, fun _ => by omega⟩

theorem tx_utf8Finish_length (s : U8State) : (utf8Finish s).length = tx_pending s := by
  unfold utf8Finish tx_pending
  split <;> rfl

/-- pure ASCII goes through unchanged and leaves no pending state -/
theorem tx_utf8Run_ascii (bs : Bytes) (h : ∀ b ∈ bs, b ≤ 0x7F) :
    utf8Run .init bs = (.init, bs.map (fun b => Char.ofNat b.toNat)) := by
  induction bs with
  | nil => rfl
  | cons x xs ih =>
    have hx : x ≤ 0x7F := h x (by simp)
    have e : utf8Step .init x = (.init, [Char.ofNat x.toNat]) := by
      simp [utf8Step, U8State.init, utf8Start, hx]
    simp only [utf8Run, e, ih (fun b hb => h b (by simp [hb]))]
    rfl

end Atto
