#!/bin/bash
# usage: tools/coverage.sh [tier]      (scratch: /tmp/atto-cov, removed at the end except report)
# Line/region coverage of /repo/src achieved by the harness generators (all properties, native variant).
# Informational: tells which parts of the library the correspondence check exercises at all.
set -e
TIER=${1:-quick}
S=/tmp/atto-cov; rm -rf $S; mkdir -p $S/raw $S/out
NB=$(ls -d ~/.rustup/toolchains/nightly-x86_64-unknown-linux-gnu/lib/rustlib/x86_64-unknown-linux-gnu/bin)
cd /verif/harness
CONSTS=$(python3 /verif/tools/extract_consts.py --repo /repo | tail -1)
export CARGO_NET_OFFLINE=true
# (build scripts and proc macros are instrumented too: keep their profiles out of the crate directories)
LLVM_PROFILE_FILE="$S/raw/build-%p-%m.profraw" RUSTFLAGS="-C instrument-coverage" cargo +nightly build --release --offline --target-dir $S/target >$S/build.log 2>&1
rm -f $S/raw/build-*.profraw
for i in 01 02 03 04 05 06 07 08 09 10 11 12 13 14 15 16 17 18 19; do
  LLVM_PROFILE_FILE="$S/raw/C$i-%p-%m.profraw" ATTO_CONSTS="$CONSTS" timeout 1800 $S/target/release/atto-verif gen C$i 1 $TIER $S/out/C$i >/dev/null 2>&1 || echo "C$i gen rc=$?"
  $NB/llvm-profdata merge -sparse $S/raw/C$i-*.profraw -o $S/C$i.profdata
  rm -f $S/raw/C$i-*.profraw
done
$NB/llvm-profdata merge -sparse $S/C*.profdata -o $S/all.profdata
$NB/llvm-cov report $S/target/release/atto-verif -instr-profile=$S/all.profdata --ignore-filename-regex='(\.cargo|rustc|harness)' > /verif/notes/coverage_$TIER.txt 2>&1 || true
$NB/llvm-cov show $S/target/release/atto-verif -instr-profile=$S/all.profdata --ignore-filename-regex='(\.cargo|rustc|harness)' --show-line-counts-or-regions > $S/show.txt 2>&1 || true
# uncovered lines of /repo/src
python3 - <<'PY' > /verif/notes/uncovered_$TIER.txt
import re
cur=None
for l in open('/tmp/atto-cov/show.txt',errors='replace'):
    m=re.match(r'^(/repo/src/\S+):$',l)
    if m: cur=m.group(1); continue
    m=re.match(r'^\s*(\d+)\|\s*0\|(.*)$',l)
    if m and cur: print('%s:%s: %s'%(cur,m.group(1),m.group(2)))
PY
rm -rf $S/target $S/raw $S/out
cat /verif/notes/coverage_$TIER.txt
