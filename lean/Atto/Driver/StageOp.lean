/- Atto/Driver/StageOp.lean — op `stage`: the `TextReader` staging logic over a recorded decoder. -/
import Atto.Driver.Codec
import Atto.Model.TextStage
namespace Atto.Driver
open Atto

/-- the decoder as a table of its successive answers (recorded from the real
    `encoding_rs_io::DecodeReaderBytes` by the harness): the `k`-th call returns the `k`-th answer,
    whatever size it is asked for; an exhausted table is end of stream. -/
def tableRead : InnerRead (List (RR Bytes)) := fun st _ =>
  match st with
  | [] => (.ok [], [])
  | a :: rest => (a, rest)

/-- `stage <caller read sizes n,n,…|-> <decoder answers o<hex>|e|…,…|->`
    → the events of `TextReader::read` over that schedule -/
def opStage (args : List String) : String :=
  match args with
  | [ns, answers] =>
    let ns := (splitComma ns).filterMap String.toNat?
    let parse (a : String) : Option (RR Bytes) :=
      match a.toList with
      | 'o' :: rest => (bytesOfHex (let r := String.ofList rest; if r.isEmpty then "-" else r)).map RR.ok
      | ['e'] => some (.err .other)
      | _ => none
    match (if answers == "-" then some [] else (splitComma answers).mapM parse) with
    | some table =>
      let evs := (TextStage.run tableRead { inner := table } ns).1
      "ev=" ++ ",".intercalate (evs.map (fun e => evToString (Ev.ofRR e)))
    | none => "bad-op"
  | _ => "bad-op"

end Atto.Driver
