/- Atto/Driver/WdOp.lean — op `wd`: a timed scenario on the watchdog/reader protocol. -/
import Atto.Driver.Codec
import Atto.Model.Watchdog
namespace Atto.Driver
open Atto Atto.Wd

def wdEvOfString (s : String) : Option (Nat × Wd.Ev) :=
  match s.splitOn ":" with
  | [t, e] =>
    match t.toNat?, e.toList with
    | some t, 'S' :: n => (String.ofList n).toNat?.map (fun n => (t, Wd.Ev.send n))
    | some t, ['C'] => some (t, .close)
    | some t, 'R' :: n => (String.ofList n).toNat?.map (fun n => (t, Wd.Ev.read n))
    | some t, ['X'] => some (t, .drop)
    | _, _ => none
  | _ => none

def rdOutToString : RdOut → String
  | .data n => s!"d{n}"
  | .eof => "z"
  | .timedOut => "T"
  | .wouldBlock => "W"

/-- `wd <deadline|~> <readTimeout> <t:ev,t:ev,…>` → read results -/
def opWd (args : List String) : String :=
  match args with
  | [dl, rt, evs] =>
    match rt.toNat?, (splitComma evs).mapM wdEvOfString with
    | some rt, some evs =>
      let s0 : St := match dl.toNat? with
        | some d => { now := 0, deadline := d, readTimeout := rt }
        | none => { now := 0, deadline := 0, readTimeout := rt, hasTx := false, wd := .exited }
      "reads=" ++ ",".intercalate ((run s0 evs).map rdOutToString)
    | _, _ => "bad-op"
  | _ => "bad-op"

end Atto.Driver
