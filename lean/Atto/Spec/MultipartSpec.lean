/-
  Atto/Spec/MultipartSpec.lean — a multipart/form-data *decoder*, specification side: what a
  receiving server reads out of the body.  Written from RFC 7578 §4 and RFC 2046 §5.1.1, not from
  the model's writer.

    multipart-body := [preamble CRLF] dash-boundary CRLF body-part *(delimiter CRLF body-part)
                      close-delimiter [CRLF epilogue]
    dash-boundary  := "--" boundary           delimiter := CRLF dash-boundary
    close-delimiter := delimiter "--"
    body-part      := *(header CRLF) CRLF data      -- data runs up to the next delimiter

  * no preamble is accepted; the CRLF in front of the first dash-boundary is optional;
  * an empty form is `[CRLF] dash-boundary "--"` (what every implementation emits and accepts);
  * anything after the close delimiter (epilogue) is ignored;
  * no transport padding after a boundary;
  * part headers: field names compared case-insensitively, leading SP / HTAB of the value skipped;
    `Content-Disposition: form-data; name="…"[; filename="…"]` is mandatory (RFC 7578 §4.2), the
    quoted strings run to the next `"` (no escapes); `Content-Type` is optional (§4.4) and returned
    verbatim; other header lines are ignored (§4.8);
  * the data of a part is everything up to the FIRST occurrence of the delimiter `CRLF "--" boundary`
    (as a plain byte string: RFC 2046 requires that it does not occur in the data);
  * a missing close delimiter is an error (`none`).
-/
import Atto.Std.HeaderMap
namespace Atto

structure Part where
  name : Bytes
  filename : Option Bytes
  contentType : Option Bytes
  data : Bytes
  deriving Repr, DecidableEq

/-- first occurrence of the byte string `pat` in `s`: what precedes it and what follows it -/
def mpSplitAt (pat : Bytes) : Bytes → Option (Bytes × Bytes)
  | [] => if pat = [] then some ([], []) else none
  | c :: cs =>
    if pat.isPrefixOf (c :: cs) then some ([], (c :: cs).drop pat.length)
    else (mpSplitAt pat cs).map (fun p => (c :: p.1, p.2))

/-- `pat` occurs in `s` as a contiguous byte string -/
def occursIn (pat s : Bytes) : Bool := (mpSplitAt pat s).isSome

/-- header lines up to and including the empty line; what follows it -/
def mpHeaderLines : Nat → Bytes → Option (List Bytes × Bytes)
  | 0, _ => none
  | fuel + 1, inp =>
    match mpSplitAt [13, 10] inp with
    | none => none
    | some (line, rest) =>
      if line = [] then some ([], rest)
      else (mpHeaderLines fuel rest).map (fun p => (line :: p.1, p.2))

/-- `lname ":" OWS value` (field name in any letter case; `lname` in lower case) -/
def mpFieldValue (lname line : Bytes) : Option Bytes :=
  if lowerBytes (line.take (lname.length + 1)) = lname ++ [58] then
    some ((line.drop (lname.length + 1)).dropWhile (fun c => c == 32 || c == 9))
  else none

/-- value of the first header line with that field name -/
def mpField (lname : Bytes) (lines : List Bytes) : Option Bytes :=
  lines.findSome? (mpFieldValue lname)

def mpExpect (p s : Bytes) : Option Bytes :=
  if p.isPrefixOf s then some (s.drop p.length) else none

/-- the inside of a quoted string whose opening `"` was just consumed, and what follows the closing `"` -/
def mpQuoted (s : Bytes) : Option (Bytes × Bytes) :=
  match s.dropWhile (· != 34) with
  | [] => none
  | _ :: r => some (s.takeWhile (· != 34), r)

/-- `form-data; name="…"[; filename="…"]` -/
def mpDisposition (v : Bytes) : Option (Bytes × Option Bytes) :=
  match mpExpect (str "form-data; name=\"") v with
  | none => none
  | some r =>
    match mpQuoted r with
    | none => none
    | some (n, r) =>
      if r = [] then some (n, none) else
      match mpExpect (str "; filename=\"") r with
      | none => none
      | some r =>
        match mpQuoted r with
        | none => none
        | some (fn, r) => if r = [] then some (n, some fn) else none

/-- `inp` is what follows a delimiter. -/
def mpParts (delim : Bytes) : Nat → Bytes → Option (List Part)
  | 0, _ => none
  | fuel + 1, inp =>
    if inp.take 2 = [45, 45] then some []
    else if inp.take 2 = [13, 10] then
      match mpHeaderLines inp.length (inp.drop 2) with
      | none => none
      | some (lines, rest) =>
        match (mpField (str "content-disposition") lines).bind mpDisposition with
        | none => none
        | some (name, filename) =>
          match mpSplitAt delim rest with
          | none => none
          | some (data, after) =>
            (mpParts delim fuel after).map (fun ps =>
              { name := name, filename := filename,
                contentType := mpField (str "content-type") lines, data := data } :: ps)
    else none

def decodeMultipart (boundary body : Bytes) : Option (List Part) :=
  let dash : Bytes := [45, 45] ++ boundary
  let delim : Bytes := [13, 10] ++ dash
  if delim.isPrefixOf body then mpParts delim (body.length + 1) (body.drop delim.length)
  else if dash.isPrefixOf body then mpParts delim (body.length + 1) (body.drop dash.length)
  else none

/-! ### sanity: evaluation -/

/-- the example of RFC 7578 §4.1-4.4 in spirit: a text field and a file -/
example : decodeMultipart (str "AaB03x") (str ("--AaB03x\r\n" ++
    "content-disposition: form-data; name=\"field1\"\r\n\r\nJoe owes =E2=82=AC100.\r\n--AaB03x\r\n" ++
    "Content-Disposition:form-data; name=\"pics\"; filename=\"file1.txt\"\r\nContent-Type: \t text/plain\r\n" ++
    "X-Other: 1\r\n\r\n... contents\r\n--AaB03 of file1.txt ...\r\n--AaB03x--\r\nepilogue"))
  = some [⟨str "field1", none, none, str "Joe owes =E2=82=AC100."⟩,
          ⟨str "pics", some (str "file1.txt"), some (str "text/plain"),
            str "... contents\r\n--AaB03 of file1.txt ..."⟩] := by decide +kernel

/-- empty form: only the close delimiter, with or without the leading CRLF -/
example : decodeMultipart (str "b") (str "\r\n--b--") = some [] := by decide +kernel
example : decodeMultipart (str "b") (str "--b--\r\n") = some [] := by decide +kernel
/-- missing close delimiter, wrong boundary, missing / malformed Content-Disposition: rejected -/
example : decodeMultipart (str "b") (str "--b\r\nContent-Disposition: form-data; name=\"a\"\r\n\r\nx") = none := by
  decide +kernel
example : decodeMultipart (str "c") (str "\r\n--b--") = none := by decide +kernel
example : decodeMultipart (str "b") (str "--b\r\nContent-Type: text/plain\r\n\r\nx\r\n--b--") = none := by
  decide +kernel
example : decodeMultipart (str "b") (str "--b\r\nContent-Disposition: form-data; name=a\r\n\r\nx\r\n--b--") = none := by
  decide +kernel
example : decodeMultipart (str "b") (str "--b\r\nContent-Disposition: attachment; name=\"a\"\r\n\r\nx\r\n--b--") = none := by
  decide +kernel
/-- empty data, data that is only CRLFs, data containing a look-alike delimiter of another boundary -/
example : decodeMultipart (str "b7") (str ("\r\n--b7\r\nContent-Disposition: form-data; name=\"a\"\r\n\r\n\r\n--b7\r\n" ++
    "Content-Disposition: form-data; name=\"\"\r\n\r\n\r\n\r\n--b8\r\n--\r\n--b7--"))
  = some [⟨str "a", none, none, []⟩, ⟨[], none, none, str "\r\n\r\n--b8\r\n--"⟩] := by decide +kernel

example : occursIn (str "\r\n--b") (str "xx\r\r\n--b") = true := by decide +kernel
example : occursIn (str "\r\n--b") (str "xx\r\r\n-b\r\n--") = false := by decide +kernel

end Atto
