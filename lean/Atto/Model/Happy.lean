/-
  Atto/Model/Happy.lean — src/happy.rs: `intertwine` and `connect` as a discrete-event function of
  the per-address behaviour. Times in milliseconds.
-/
import Atto.Std.Io
namespace Atto
namespace Happy

/-- `intertwine(ita, itb)`: alternate, starting with the first list; once one list is exhausted the
    rest of the other follows (the iterator's one-slot `valb` buffer realises exactly this). -/
def intertwine {α : Type} : List α → List α → List α
  | [], bs => bs
  | as, [] => as
  | a :: as, b :: bs => a :: b :: intertwine as bs

inductive Fam where | v6 | v4 deriving Repr, DecidableEq

/-- What happens when one address is dialled. -/
inductive Beh where
  | accept (d : Nat)        -- the peer accepts after d ms
  | refuse (d : Nat)        -- the peer refuses after d ms
  | blackhole               -- no answer, ever
  deriving Repr, DecidableEq

structure Addr where
  fam : Fam
  beh : Beh
  id : Nat                  -- position in the resolver's answer
  deriving Repr, DecidableEq

inductive ConnErr where | refused | timedOut deriving Repr, DecidableEq

/-- an attempt that has been started: when it completes and how -/
structure Pending where
  id : Nat
  done : Nat
  res : Option ConnErr       -- none = connected
  deriving Repr

inductive ConnOut where
  | ok (id : Nat) (t : Nat)
  | err (id : Nat) (e : ConnErr) (t : Nat)     -- the error of the first attempt that completed
  | noDns
  deriving Repr, DecidableEq

/-- one attempt started at `t` with an effective timeout `lim` -/
def startAttempt (a : Addr) (t lim : Nat) : Pending :=
  match a.beh with
  | .accept d => if d ≤ lim then { id := a.id, done := t + d, res := none } else { id := a.id, done := t + lim, res := some .timedOut }
  | .refuse d => if d ≤ lim then { id := a.id, done := t + d, res := some .refused } else { id := a.id, done := t + lim, res := some .timedOut }
  | .blackhole => { id := a.id, done := t + lim, res := some .timedOut }

/-- the per-attempt limit: `timeout`, cut by the overall deadline; `none` = deadline already passed -/
def attemptLimit (timeout : Nat) (deadline : Option Nat) (t : Nat) : Option Nat :=
  match deadline with
  | none => some timeout
  | some dl => if dl ≤ t then none else some (min timeout (dl - t))   -- (at dl = t the code asks for a zero timeout, which fails at once as well)

def earliest : List Pending → Option Pending
  | [] => none
  | p :: ps => match earliest ps with
    | none => some p
    | some q => if p.done ≤ q.done then some p else some q

def removeId (ps : List Pending) (id : Nat) : List Pending := ps.filter (·.id != id)

/-- after the spawn loop: `for (addr, res) in rx.iter()` — results in completion order -/
def drain : Nat → List Pending → Nat → Option (Nat × ConnErr) → ConnOut
  | 0, _, _, _ => .noDns
  | fuel+1, ps, t, firstErr =>
    match earliest ps with
    | none => (match firstErr with
        | some (id, e) => .err id e t
        | none => .noDns)
    | some p =>
      let t' := max t p.done
      match p.res with
      | none => .ok p.id t'
      | some e => drain fuel (removeId ps p.id) t' (firstErr.orElse (fun _ => some (p.id, e)))

/-- the racing loop: spawn an attempt, wait up to `raceDelay` for ANY result -/
def race (timeout : Nat) (deadline : Option Nat) (raceDelay : Nat) :
    List Addr → List Pending → Nat → Option (Nat × ConnErr) → ConnOut
  | [], ps, t, firstErr => drain (ps.length + 1) ps t firstErr
  | a :: rest, ps, t, firstErr =>
    let p := match attemptLimit timeout deadline t with
      | some lim => startAttempt a t lim
      | none => { id := a.id, done := t, res := some .timedOut }
    let ps := ps ++ [p]
    match earliest ps with
    | some q =>
      if q.done ≤ t + raceDelay then
        let t' := max t q.done
        match q.res with
        | none => .ok q.id t'
        | some e => race timeout deadline raceDelay rest (removeId ps q.id) t' (firstErr.orElse (fun _ => some (q.id, e)))
      else race timeout deadline raceDelay rest ps (t + raceDelay) firstErr
    | none => race timeout deadline raceDelay rest ps (t + raceDelay) firstErr

/-- `happy::connect` for a domain name whose resolver answer is `addrs` -/
def connect (addrs : List Addr) (timeout : Nat) (deadline : Option Nat) (raceDelay : Nat) : ConnOut :=
  match addrs with
  | [] => .noDns
  | [a] =>
    -- fast path: a single address is dialled at once, like any attempt with the connect timeout cut to
    -- what is left until the overall deadline (fix F19; before it the deadline was not consulted here)
    let p : Pending := match attemptLimit timeout deadline 0 with
      | some lim => startAttempt a 0 lim
      | none => { id := a.id, done := 0, res := some .timedOut }
    (match p.res with
     | none => .ok a.id p.done
     | some e => .err a.id e p.done)
  | _ =>
    let sorted := intertwine (addrs.filter (·.fam == .v6)) (addrs.filter (·.fam == .v4))
    race timeout deadline raceDelay sorted [] 0 none

end Happy
end Atto
