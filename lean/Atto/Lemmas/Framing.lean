/-
  Atto/Lemmas/Framing.lean — helper lemmas for property C03 (message framing, RFC 9112 §6.3):
  `parseContentLength` against the `1*DIGIT` spec, the `Content-Length` agreement loop, the
  `Transfer-Encoding: chunked` test and the case analysis of `chooseFraming`.
-/
import Atto.Model.Body
import Atto.Spec.FramingSpec
namespace Atto.Framing

/-! ### constants -/

theorem str_chunked : str "chunked" = [99, 104, 117, 110, 107, 101, 100] := by decide +kernel

theorem lower_chunked : lowerBytes (str "chunked") = str "chunked" := by decide +kernel

theorem u64Bound_eq : u64Bound = 2 ^ 64 := by decide

/-! ### the spec predicates are decidable (used by the concrete examples) -/

instance (v : Bytes) : Decidable (allDigits v) := by unfold allDigits; exact inferInstance
instance (v : Bytes) : Decidable (validCL v) := by unfold validCL; exact inferInstance

/-! ### digits -/

theorem isDigit_iff (b : UInt8) : isDigit b = true ↔ 48 ≤ b ∧ b ≤ 57 := by simp [isDigit]

theorem digit_visible {b : UInt8} (h : 48 ≤ b ∧ b ≤ 57) : isVisibleAscii b = true := by
  have h1 := UInt8.le_iff_toNat_le.mp h.1
  have h2 := UInt8.le_iff_toNat_le.mp h.2
  have a : (32 : UInt8) ≤ b := UInt8.le_iff_toNat_le.mpr (by simp at h1 ⊢; omega)
  have c : b < (127 : UInt8) := UInt8.lt_iff_toNat_lt.mpr (by simp at h2 ⊢; omega)
  simp [isVisibleAscii, a, c]

theorem decVal_digit {b : UInt8} (h : 48 ≤ b ∧ b ≤ 57) : decVal? b = some (b.toNat - 48) := by
  simp [decVal?, h.1, h.2]

theorem digitsVal_digits (v : Bytes) (acc : Nat) (h : ∀ b ∈ v, 48 ≤ b ∧ b ≤ 57) :
    digitsVal decVal? 10 v acc = some (v.foldl (fun acc b => acc * 10 + (b.toNat - 48)) acc) := by
  induction v generalizing acc with
  | nil => simp [digitsVal]
  | cons b bs ih =>
    have hb := h b (by simp)
    simp only [digitsVal, decVal_digit hb, List.foldl_cons]
    exact ih _ (fun c hc => h c (by simp [hc]))

theorem all_visible_of_digits {v : Bytes} (h : ∀ b ∈ v, 48 ≤ b ∧ b ≤ 57) :
    v.all isVisibleAscii = true := by
  simp only [List.all_eq_true]
  exact fun b hb => digit_visible (h b hb)

theorem all_isDigit_iff (v : Bytes) : v.all isDigit = true ↔ ∀ b ∈ v, 48 ≤ b ∧ b ≤ 57 := by
  simp only [List.all_eq_true, isDigit_iff]

theorem parseUnsigned_digits {v : Bytes} (h : allDigits v) :
    parseUnsigned decVal? 10 v = if decValue v < 2 ^ 64 then some (decValue v) else none := by
  obtain ⟨hne, hd⟩ := h
  have hplus : ∀ rest, v ≠ 43 :: rest := by
    intro rest e
    have hb := hd 43 (by simp [e])
    exact absurd hb.1 (by decide)
  unfold parseUnsigned
  -- the `+`-stripping match is reduced by `simp` using `hplus` from the context
  simp only [hne, if_false, digitsVal_digits v 0 hd, u64Bound_eq]
  rfl

/-- On a `1*DIGIT` string the model parser is the decimal value, refused iff it does not fit. -/
theorem parseContentLength_digits {v : Bytes} (h : allDigits v) :
    parseContentLength v = if decValue v < 2 ^ 64 then some (decValue v) else none := by
  have hvis := all_visible_of_digits h.2
  have hdig := (all_isDigit_iff v).mpr h.2
  unfold parseContentLength
  simp only [valueToStr, hvis, if_true, hdig, h.1, not_true_eq_false, or_self, if_false]
  exact parseUnsigned_digits h

/-- Whatever the model parser accepts is `1*DIGIT`. -/
theorem allDigits_of_parse {v : Bytes} {n : Nat} (h : parseContentLength v = some n) :
    allDigits v := by
  unfold parseContentLength valueToStr at h
  by_cases hvis : v.all isVisibleAscii = true
  · simp only [hvis, if_true] at h
    split at h
    · cases h
    · next hc =>
      have hc' := not_or.mp hc
      exact ⟨hc'.1, (all_isDigit_iff v).mp (Classical.not_not.mp hc'.2)⟩
  · simp [hvis] at h

theorem parseContentLength_iff (v : Bytes) (n : Nat) :
    parseContentLength v = some n ↔ validCL v ∧ n = decValue v := by
  constructor
  · intro h
    have hd := allDigits_of_parse h
    rw [parseContentLength_digits hd] at h
    by_cases hlt : decValue v < 2 ^ 64
    · simp only [hlt, if_true, Option.some.injEq] at h
      exact ⟨⟨hd, hlt⟩, h.symm⟩
    · simp [hlt] at h
  · rintro ⟨⟨hd, hlt⟩, rfl⟩
    rw [parseContentLength_digits hd]; simp [hlt]

theorem parseContentLength_none_iff (v : Bytes) : parseContentLength v = none ↔ ¬ validCL v := by
  constructor
  · intro h hv
    have := (parseContentLength_iff v (decValue v)).mpr ⟨hv, rfl⟩
    rw [h] at this; cases this
  · intro h
    cases hp : parseContentLength v with
    | none => rfl
    | some n => exact absurd ((parseContentLength_iff v n).mp hp).1 h

/-! ### the Content-Length agreement loop -/

theorem loop_error {L : List Bytes} {last : Option Nat} {e : E}
    (h : isContentLengthLoop L last = .error e) : e = .contentLength := by
  induction L generalizing last with
  | nil => simp [isContentLengthLoop] at h
  | cons v vs ih =>
    unfold isContentLengthLoop at h
    split at h
    · cases h; rfl
    · split at h
      · exact ih h
      · split at h
        · exact ih h
        · cases h; rfl

theorem loop_ok {L : List Bytes} {last r : Option Nat}
    (h : isContentLengthLoop L last = .ok r) :
    (∀ v ∈ L, ∃ n, parseContentLength v = some n ∧ r = some n) ∧
    (∀ l, last = some l → r = some l) := by
  induction L generalizing last with
  | nil =>
    simp only [isContentLengthLoop, Except.ok.injEq] at h
    subst h
    exact ⟨by simp, fun l hl => hl⟩
  | cons v vs ih =>
    unfold isContentLengthLoop at h
    split at h
    · cases h
    · next n hn =>
      have key : isContentLengthLoop vs (some n) = .ok r → (last = none ∨ last = some n) →
          (∀ w ∈ v :: vs, ∃ n, parseContentLength w = some n ∧ r = some n) ∧
          (∀ l, last = some l → r = some l) := by
        intro h' hl
        obtain ⟨a, b⟩ := ih h'
        have hr := b n rfl
        refine ⟨?_, ?_⟩
        · intro w hw
          rcases List.mem_cons.mp hw with rfl | hw
          · exact ⟨n, hn, hr⟩
          · exact a w hw
        · intro l hl'
          rcases hl with hl | hl
          · rw [hl] at hl'; cases hl'
          · rw [hl] at hl'; cases hl'; exact hr
      split at h
      · exact key h (Or.inl rfl)
      · next l =>
        split at h
        · next heq => subst heq; exact key h (Or.inr rfl)
        · cases h

theorem loop_all {L : List Bytes} {last : Option Nat} {n : Nat}
    (hall : ∀ v ∈ L, parseContentLength v = some n) (hlast : last = none ∨ last = some n) :
    isContentLengthLoop L last = .ok (if L = [] then last else some n) := by
  induction L generalizing last with
  | nil => simp [isContentLengthLoop]
  | cons v vs ih =>
    have hv := hall v (by simp)
    have ih' := ih (last := some n) (fun w hw => hall w (by simp [hw])) (Or.inr rfl)
    have : (if vs = [] then some n else some n) = some n := by split <;> rfl
    rw [this] at ih'
    unfold isContentLengthLoop
    rcases hlast with rfl | rfl <;> simp [hv, ih']

/-! ### the loop against the spec -/

/-- One or several identical valid values are accepted. -/
theorem loop_length {L : List Bytes} {n : Nat} (hne : L ≠ [])
    (h : ∀ v ∈ L, validCL v ∧ decValue v = n) :
    isContentLengthLoop L none = .ok (some n) := by
  have hall : ∀ v ∈ L, parseContentLength v = some n := by
    intro v hv
    obtain ⟨a, b⟩ := h v hv
    exact (parseContentLength_iff v n).mpr ⟨a, b.symm⟩
  rw [loop_all hall (Or.inl rfl)]
  simp [hne]

/-- An invalid value, or two valid values that differ, are refused. -/
theorem loop_refuse {L : List Bytes}
    (h : (∃ v ∈ L, ¬ validCL v) ∨
      (∃ v w, v ∈ L ∧ w ∈ L ∧ validCL v ∧ validCL w ∧ decValue v ≠ decValue w)) :
    isContentLengthLoop L none = .error .contentLength := by
  cases hr : isContentLengthLoop L none with
  | error e => rw [loop_error hr]
  | ok r =>
    exfalso
    obtain ⟨hall, _⟩ := loop_ok hr
    rcases h with ⟨v, hv, hbad⟩ | ⟨v, w, hv, hw, _, _, hne⟩
    · obtain ⟨n, hn, _⟩ := hall v hv
      exact hbad ((parseContentLength_iff v n).mp hn).1
    · obtain ⟨n, hn, hrn⟩ := hall v hv
      obtain ⟨k, hk, hrk⟩ := hall w hw
      have e1 := ((parseContentLength_iff v n).mp hn).2
      have e2 := ((parseContentLength_iff w k).mp hk).2
      rw [hrn] at hrk
      cases hrk
      exact hne (e1.symm.trans e2)

/-- Exhaustive (classical) case analysis on the list of `Content-Length` values. -/
theorem cl_cases (L : List Bytes) :
    L = [] ∨
    (L ≠ [] ∧ ∃ n, ∀ v ∈ L, validCL v ∧ decValue v = n) ∨
    ((∃ v ∈ L, ¬ validCL v) ∨
      (∃ v w, v ∈ L ∧ w ∈ L ∧ validCL v ∧ validCL w ∧ decValue v ≠ decValue w)) := by
  cases L with
  | nil => exact Or.inl rfl
  | cons v0 vs =>
    refine Or.inr ?_
    by_cases hbad : ∃ v ∈ v0 :: vs, ¬ validCL v
    · exact Or.inr (Or.inl hbad)
    · have hval : ∀ v ∈ v0 :: vs, validCL v := by
        intro v hv
        exact Classical.byContradiction (fun hn => hbad ⟨v, hv, hn⟩)
      by_cases hsame : ∀ v ∈ v0 :: vs, decValue v = decValue v0
      · exact Or.inl ⟨by simp, decValue v0, fun v hv => ⟨hval v hv, hsame v hv⟩⟩
      · have : ∃ w, w ∈ v0 :: vs ∧ decValue w ≠ decValue v0 := by
          apply Classical.byContradiction
          intro hn
          apply hsame
          intro v hv
          exact Classical.byContradiction (fun hne => hn ⟨v, hv, hne⟩)
        obtain ⟨w, hw, hne⟩ := this
        exact Or.inr (Or.inr ⟨w, v0, hw, by simp, hval w hw, hval v0 (by simp), hne⟩)

/-! ### `is_chunked` -/

theorem valueToStr_eq_some (v s : Bytes) :
    valueToStr v = some s ↔ (∀ b ∈ v, isVisibleAscii b = true) ∧ s = v := by
  unfold valueToStr
  by_cases h : v.all isVisibleAscii = true
  · have h' := List.all_eq_true.mp h
    simp only [h, if_true, Option.some.injEq]
    exact ⟨fun e => ⟨h', e.symm⟩, fun e => e.2.symm⟩
  · simp only [h]
    constructor
    · intro e; cases e
    · intro e; exact absurd (List.all_eq_true.mpr e.1) h

theorem listHasToken_chunked (v : Bytes) :
    listHasToken v (str "chunked") = true ↔
      ∃ tok ∈ splitOnByte 44 v, lowerBytes (strTrim tok) = str "chunked" := by
  simp [listHasToken, eqIgnoreAsciiCase, lower_chunked]

theorem isChunked_iff (hs : Headers) :
    isChunked hs = true ↔
      ∃ v ∈ hs.getAll nameTE, (∀ b ∈ v, isVisibleAscii b = true) ∧
        ∃ tok ∈ splitOnByte 44 v, lowerBytes (strTrim tok) = str "chunked" := by
  unfold isChunked
  simp only [List.any_eq_true, List.mem_filterMap, listHasToken_chunked]
  constructor
  · rintro ⟨s, ⟨v, hv, hs'⟩, htok⟩
    obtain ⟨hvis, rfl⟩ := (valueToStr_eq_some v s).mp hs'
    exact ⟨s, hv, hvis, htok⟩
  · rintro ⟨v, hv, hvis, htok⟩
    exact ⟨v, ⟨v, hv, (valueToStr_eq_some v v).mpr ⟨hvis, rfl⟩⟩, htok⟩

/-! ### `bodyless` -/

theorem bodyless_iff (m : Method) (status : Nat) :
    bodyless m status = true ↔
      (m = .head ∨ (100 ≤ status ∧ status < 200) ∨ status = 204 ∨ status = 304) := by
  simp [bodyless, or_assoc]

/-! ### `chooseFraming` after the bodyless / chunked tests -/

theorem chooseFraming_cl {m : Method} {s : Nat} {hs : Headers}
    (hb : bodyless m s = false) (hc : isChunked hs = false) :
    chooseFraming m s hs =
      match isContentLengthLoop (hs.getAll nameCL) none with
      | .error e => .error e
      | .ok (some n) => .ok (.length n)
      | .ok none => .ok .close := by
  unfold chooseFraming isContentLength
  rw [hb, hc]
  rfl

end Atto.Framing
