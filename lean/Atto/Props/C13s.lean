/-
  Atto/Props/C13s.lean — property C13 at interleaving granularity: "a body cut by the deadline is
  never reported as complete … however the library's internal threads are scheduled".

  Model: Atto/Model/WatchdogSteps.lean (`Atto.WdS`): the watchdog's reaction to the deadline is TWO
  steps — `drop(rx)` and `stream.shutdown(Both)` — and any step of the reader, the peer, the clock
  or the caller may come between them.  `df` (`dropFirst`) is the source order of the two; `true` =
  receiver dropped first, which is what src/streams.rs does (extracted on every run into
  `Consts.wdDropsRxBeforeShutdown`).  All statements quantify over EVERY interleaving: every list
  of enabled actions from `init` (`WdS.Reach df s`, or `run df init acts = some (s, outs)`).
  Lemmas: Atto/Lemmas/WatchdogStepsLemmas.lean.

    order (1);(2) (`df = true`):
      `C13s_shut_rx_dropped`        invariant: socket shut ⇒ receiver gone;
      `C13s_cut_not_clean`          shut socket, nothing pending, response alive: `TimedOut`, never `Ok(0)`;
      `C13s_eof_genuine`            `Ok(0)` with the sender held ⇒ peer closed, socket not shut,
                                    watchdog had not acted (and it exits, never touching the socket);
      `C13s_no_close_no_eof`        the peer never closes, the response is not dropped ⇒ no `Ok(0)`, ever;
      `C13s_late_ping_fails`, `C13s_late_ping_genuine`  the reader's 0-length read and its ping taken apart;
      `C13s_refines_atomic`(`_read`) the atomic model `Atto.Wd` reproduces every `Ok(0)`/`TimedOut`;
    both orders:
      `C13s_complete_never_timedout` after an `Ok(0)`: only `Ok(0)` or data, never `TimedOut`;
      `C13s_timedout_due`           a `TimedOut` is reported only once the deadline has been reached;
    the other order (`df = false`):
      `C13s_order_matters`          an explicit interleaving: peer never closes, deadline passes, a
                                    read returns `Ok(0)` — the property fails;
    `C13s_source_order`             the order found in the source ⇒ all of the `df = true` statements.
-/
import Atto.Lemmas.WatchdogStepsLemmas
import Atto.Gen.Consts
namespace Atto
open Atto.WdS

/-! ### order (1);(2): a cut body is not a complete body -/

/-- With `drop(rx)` before `shutdown`: in every state of every interleaving, if the watchdog has
    shut the socket then its receiver is already gone — so a ping sent after a read was woken by
    the shutdown must fail. -/
theorem C13s_shut_rx_dropped {df : Bool} (h : df = true) {s : St} (r : Reach df s)
    (hs : s.shut = true) : s.rxAlive = false := by
  subst h; exact inv_shut_rx_dead (inv_reach r) hs

/-- The watchdog has shut the socket, nothing is left to deliver, the response is alive: the read
    (any non-empty buffer) returns `TimedOut` and changes nothing — in every reachable state, i.e.
    however the watchdog's two actions, the reader, the peer and the clock were interleaved. -/
theorem C13s_cut_not_clean {df : Bool} (h : df = true) {s : St} (r : Reach df s) (n : Nat)
    (hn : 0 < n) (hs : s.shut = true) (hp : s.pending = 0) (hx : s.hasTx = true) :
    step df s (.read n) = some (s, some .timedOut) := by
  subst h; exact step_read_iff.mpr (read_cut (inv_reach r) n hn hs hp hx)

/-- … in particular never `Ok(0)` -/
theorem C13s_cut_never_eof {df : Bool} (h : df = true) {s s' : St} (r : Reach df s) (n : Nat)
    (hs : s.shut = true) (hp : s.pending = 0) (hx : s.hasTx = true) :
    step df s (.read n) ≠ some (s', some .eof) := by
  intro he
  have hn : 0 < n := (read_cases (step_read_iff.mp he)).1
  rw [C13s_cut_not_clean h r n hn hs hp hx] at he
  cases he

/-- the same as the last step of a whole interleaving -/
theorem C13s_cut_not_clean_run {df : Bool} (h : df = true) {s : St} {acts : List Act}
    {outs : List Out} (hr : run df init acts = some (s, outs)) (n : Nat) (hn : 0 < n)
    (hs : s.shut = true) (hp : s.pending = 0) (hx : s.hasTx = true) :
    run df init (acts ++ [.read n]) = some (s, outs ++ [.timedOut]) :=
  run_append.mpr ⟨s, outs, [.timedOut], hr,
    run_cons.mpr ⟨s, some .timedOut, [], C13s_cut_not_clean h ⟨acts, outs, hr⟩ n hn hs hp hx, rfl, rfl⟩, rfl⟩

/-- 10 bytes of a longer body arrive, the deadline passes, the watchdog drops its receiver, the
    reader takes the data, the watchdog shuts the socket: `TimedOut`, again and again -/
example : run true init [.send 10, .tick, .wdFire, .read 8, .wdFire, .read 8, .read 8, .read 8] =
    some ({ pc := .done, rxAlive := false, shut := true, due := true }, [.data 8, .data 2, .timedOut, .timedOut]) := by
  decide
example : step true { pc := .done, rxAlive := false, shut := true, due := true } (.read 8) =
    some ({ pc := .done, rxAlive := false, shut := true, due := true }, some .timedOut) :=
  C13s_cut_not_clean rfl ⟨[.tick, .wdFire, .wdFire], [], by decide⟩ 8 (by decide) rfl rfl rfl
/-- between the two actions the socket is still open: the read blocks (is not enabled) -/
example : run true init [.tick, .wdFire, .read 8] = none := by decide

/-! ### order (1);(2): only a genuine end of stream is passed on -/

/-- With the sender held, a read returns `Ok(0)` only if the peer has closed, the socket is not
    shut and the watchdog has not begun to act; the ping then makes the watchdog exit (its receiver
    goes with it), the reader forgets its sender, and the socket stays open. -/
theorem C13s_eof_genuine {df : Bool} (h : df = true) {s s' : St} {n : Nat} (r : Reach df s)
    (hx : s.hasTx = true) (hst : step df s (.read n) = some (s', some .eof)) :
    s.peerClosed = true ∧ s.shut = false ∧ s.pc = .waiting ∧ s.pending = 0 ∧
      s'.pc = .exited ∧ s'.rxAlive = false ∧ s'.hasTx = false ∧ s'.shut = false := by
  subst h
  obtain ⟨h1, h2, h3, h4, h5⟩ := read_eof_genuine (inv_reach r) hx (step_read_iff.mp hst)
  subst h5
  exact ⟨h1, h2, h3, h4, rfl, rfl, rfl, h2⟩

/-- … and afterwards, whatever happens, this watchdog never shuts the socket -/
theorem C13s_eof_never_shuts {df : Bool} (h : df = true) {s s1 s' : St} {n : Nat} {acts : List Act}
    {outs : List Out} (r : Reach df s) (hx : s.hasTx = true)
    (hst : step df s (.read n) = some (s1, some .eof)) (hr : run df s1 acts = some (s', outs)) :
    s'.shut = false := by
  obtain ⟨_, _, _, _, h5, _, _, h8⟩ := C13s_eof_genuine h r hx hst
  rw [(exited_run hr h5).2, h8]

/-- the peer closes after 3 bytes, long before the deadline; the deadline passing later changes nothing -/
example : run true init [.send 3, .close, .read 8, .read 8, .tick, .read 8] =
    some ({ pc := .exited, rxAlive := false, hasTx := false, peerClosed := true, due := true },
      [.data 3, .eof, .eof]) := by decide
example := C13s_eof_genuine (df := true) rfl (s := { peerClosed := true }) (n := 8)
  (s' := { pc := .exited, rxAlive := false, hasTx := false, peerClosed := true })
  ⟨[.close], [], by decide⟩ rfl (by decide)
/-- the deadline has passed but the watchdog has not acted yet: the peer's close is still genuine -/
example : run true init [.close, .tick, .read 8, .read 8] =
    some ({ pc := .exited, rxAlive := false, hasTx := false, peerClosed := true, due := true },
      [.eof, .eof]) := by decide
/-- the peer closed, but the watchdog dropped its receiver first: `TimedOut`, not `Ok(0)` -/
example : (run true init [.close, .tick, .wdFire, .read 8]).map (·.2) = some [.timedOut] := by decide

/-- The property itself, on whole interleavings: if the peer never closes and the response is not
    dropped, then NO read ever returns `Ok(0)` — whenever the deadline strikes and however the
    watchdog's two actions are scheduled against the reader; the response stays alive. -/
theorem C13s_no_close_no_eof {df : Bool} (h : df = true) {s : St} {acts : List Act} {outs : List Out}
    (hr : run df init acts = some (s, outs)) (hnc : Act.close ∉ acts)
    (hnd : Act.dropResponse ∉ acts) : Out.eof ∉ outs ∧ s.hasTx = true := by
  subst h
  obtain ⟨h1, h2, _⟩ := no_close_no_eof (inv_init true) rfl rfl hr hnc hnd
  exact ⟨h1, h2⟩

example : Out.eof ∉ [Out.data 8, .data 2, .timedOut, .timedOut] :=
  (C13s_no_close_no_eof (df := true) rfl (s := { pc := .done, rxAlive := false, shut := true, due := true })
    (acts := [.send 10, .tick, .wdFire, .read 8, .wdFire, .read 8, .read 8, .read 8])
    (by decide) (by decide) (by decide)).1

/-! ### order (1);(2): the reader's socket read and its ping taken apart

  `read` performs the 0-length socket read and the ping in one step.  The two statements below are
  the reason nothing is lost by that: take the state `s0` in which the socket read returned 0 and
  ANY later state `s1` of the interleaving in which the ping is sent. -/

/-- the 0 came from the watchdog's shutdown: the ping fails, however late it is sent -/
theorem C13s_late_ping_fails {df : Bool} (h : df = true) {s0 s1 : St} {acts : List Act}
    {outs : List Out} (r : Reach df s0) (hs : s0.shut = true)
    (hr : run df s0 acts = some (s1, outs)) : (ping s1).1 = false := by
  rw [ping_fst]
  exact rx_dead_run hr (C13s_shut_rx_dropped h r hs)

/-- the ping succeeds, however late: the 0 was the peer's end of stream and the socket was (and
    still is) not shut -/
theorem C13s_late_ping_genuine {df : Bool} (h : df = true) {s0 s1 : St} {acts : List Act}
    {outs : List Out} (r : Reach df s0) (hz : s0.peerClosed = true ∨ s0.shut = true)
    (hr : run df s0 acts = some (s1, outs)) (hp : (ping s1).1 = true) :
    s0.peerClosed = true ∧ s0.shut = false ∧ s1.shut = false := by
  rw [ping_fst] at hp
  have h1 : s1.shut = false := by
    cases hs1 : s1.shut with
    | false => rfl
    | true => rw [C13s_shut_rx_dropped h (r.along hr) hs1] at hp; cases hp
  have h0 : s0.shut = false := by
    cases hs0 : s0.shut with
    | false => rfl
    | true => rw [shut_run hr hs0] at h1; cases h1
  refine ⟨?_, h0, h1⟩
  rcases hz with hz | hz
  · exact hz
  · rw [h0] at hz; cases hz

/-- the socket read sees the shutdown; the caller drops nothing, the peer closes, time passes: the
    ping still fails -/
example : (ping { pc := .done, rxAlive := false, shut := true, peerClosed := true, due := true }).1 = false :=
  C13s_late_ping_fails (df := true) rfl (s0 := { pc := .done, rxAlive := false, shut := true, due := true })
    (acts := [.close]) (outs := []) ⟨[.tick, .wdFire, .wdFire], [], by decide⟩ rfl (by decide)
/-- the peer closed, the socket read returned 0, then the deadline is reached but the watchdog has
    not acted when the ping is sent -/
example := C13s_late_ping_genuine (df := true) rfl (s0 := { peerClosed := true })
  (s1 := { peerClosed := true, due := true }) (acts := [.tick]) (outs := [])
  ⟨[.close], [], by decide⟩ (.inl rfl) (by decide) (by decide)

/-! ### both orders -/

/-- After a read has returned `Ok(0)`, every later read of the interleaving returns `Ok(0)` or data,
    never `TimedOut` — for either order of the watchdog's actions, from any state, whatever the
    watchdog, the peer, the clock and the caller do in between. -/
theorem C13s_complete_never_timedout {df : Bool} {s s' : St} {acts : List Act} {outs o1 o2 : List Out}
    (hr : run df s acts = some (s', outs)) (ho : outs = o1 ++ .eof :: o2) :
    ∀ x ∈ o2, (x = .eof ∨ ∃ k, x = .data k) ∧ x ≠ .timedOut := by
  intro x hx
  have := after_eof hr ho x hx
  refine ⟨this, ?_⟩
  rcases this with h | ⟨k, h⟩ <;> rw [h] <;> simp

/-- the step form: the state after an `Ok(0)` admits no `TimedOut` -/
theorem C13s_complete_never_timedout' {df : Bool} {s s1 s' : St} {n : Nat} {acts : List Act}
    {outs : List Out} (hst : step df s (.read n) = some (s1, some .eof))
    (hr : run df s1 acts = some (s', outs)) : ∀ x ∈ outs, x ≠ .timedOut := by
  intro x hx
  rcases noTx_run hr (eof_step_noTx hst) x hx with h | ⟨k, h⟩ <;> rw [h] <;> simp

/-- the end is seen before the deadline; afterwards the deadline passes and the watchdog would have
    nothing to do; more reads, a late segment: `Ok(0)`, data, `Ok(0)` -/
example : (run true init [.close, .read 8, .tick, .read 8, .send 2, .read 8, .read 1]).map (·.2) =
    some [.eof, .eof, .data 2, .eof] := by decide
example := C13s_complete_never_timedout (df := true) (s := init)
  (acts := [.close, .read 8, .tick, .read 8, .send 2, .read 8, .read 1])
  (outs := [.eof, .eof, .data 2, .eof]) (o1 := []) (o2 := [.eof, .data 2, .eof])
  (s' := { pc := .exited, rxAlive := false, hasTx := false, peerClosed := true, due := true })
  (by decide) rfl
/-- also for the other order, where the `Ok(0)` was a wrong one -/
example : (run false init [.tick, .wdFire, .read 8, .wdFire, .read 8]).map (·.2) = some [.eof, .eof] := by
  decide

/-- For either order: a `TimedOut` is reported only once the deadline has been reached (and by a
    reader that holds its sender and finds the receiver gone); the read changes nothing. -/
theorem C13s_timedout_due {df : Bool} {s s' : St} {n : Nat} (r : Reach df s)
    (hst : step df s (.read n) = some (s', some .timedOut)) :
    s.due = true ∧ s.hasTx = true ∧ s.rxAlive = false ∧ s' = s :=
  read_timedOut_due (inv_reach r) (step_read_iff.mp hst)

example := C13s_timedout_due (df := true) (s := { pc := .done, rxAlive := false, shut := true, due := true })
  (n := 8) ⟨[.tick, .wdFire, .wdFire], [], by decide⟩
  (s' := { pc := .done, rxAlive := false, shut := true, due := true }) (by decide)

/-! ### the other order: the property fails -/

/-- If the socket were shut BEFORE the receiver is dropped (`df = false`), there is an interleaving
    in which the peer never closes and the response is never dropped, the deadline passes, the
    watchdog shuts the socket, and the reader — scheduled between the watchdog's two actions — gets
    a successful ping and returns `Ok(0)`: 5 bytes of a longer body, then a clean end. -/
theorem C13s_order_matters :
    ∃ (acts : List Act) (s : St), run false init acts = some (s, [.data 5, .eof]) ∧
      Act.close ∉ acts ∧ Act.dropResponse ∉ acts ∧ s.peerClosed = false ∧ s.due = true :=
  ⟨[.send 5, .tick, .wdFire, .read 8, .read 8],
    { pc := .afterFirst, shut := true, hasTx := false, due := true }, by decide, by decide, by decide, rfl, rfl⟩

/-- hence the statement of `C13s_no_close_no_eof` is false for that order -/
theorem C13s_order_matters' :
    ¬ (∀ (s : St) (acts : List Act) (outs : List Out), run false init acts = some (s, outs) →
        Act.close ∉ acts → Act.dropResponse ∉ acts → Out.eof ∉ outs) := by
  intro hall
  obtain ⟨acts, s, hr, h1, h2, _⟩ := C13s_order_matters
  exact hall s acts _ hr h1 h2 (by decide)

/-- and so is the invariant: a shut socket with the receiver still alive is reachable -/
theorem C13s_order_matters_inv : ∃ s, Reach false s ∧ s.shut = true ∧ s.rxAlive = true :=
  ⟨{ pc := .afterFirst, shut := true, due := true }, ⟨[.tick, .wdFire], [], by decide⟩, rfl, rfl⟩

/-- the very same schedule under the source's order: the read between the two actions blocks (the
    socket is not shut yet), and after the second action it reports the timeout -/
example : run true init [.send 5, .tick, .wdFire, .read 8, .read 8] = none := by decide
example : (run true init [.send 5, .tick, .wdFire, .read 8, .wdFire, .read 8]).map (·.2) =
    some [.data 5, .timedOut] := by decide

/-! ### order (1);(2): the atomic model is a sound abstraction -/

/-- Outcome correspondence.  `WdS.Rel c a` relates a state of the interleaving model to a state of
    the atomic model `Atto.Wd` (armed / fired — from `drop(rx)` on — / ended).  In related states,
    an `Ok(0)` or `TimedOut` returned by the interleaving model's read is exactly what `Wd.read`
    returns, and the states after the read are related again. -/
theorem C13s_refines_atomic_read {df : Bool} (h : df = true) {c c' : St} {a : Wd.St} {n : Nat}
    {x : Out} (r : Reach df c) (hrel : Rel c a) (hst : step df c (.read n) = some (c', some x))
    (hx : x = .eof ∨ x = .timedOut) :
    ∃ a', Wd.read a n = (absOut x, a') ∧ Rel c' a' := by
  subst h
  obtain ⟨a', h1, h2, _⟩ := read_refines (inv_reach r) hrel (step_read_iff.mp hst) hx
  exact ⟨a', h1, h2⟩

/-- Simulation.  Every interleaving from `init` in which the response is not dropped is matched,
    step by step, by a run of the atomic model from `Wd.init d rt` (any deadline `d > 0`, any
    receive timeout): `drop(rx)` ↦ the clock reaching the deadline (the atomic firing), `close` ↦
    `close`, a read returning `Ok(0)`/`TimedOut` ↦ a read returning the same; `tick`, `shutdown`,
    arriving bytes and data reads ↦ nothing.  The run of the atomic model reports the same sequence
    of `Ok(0)`/`TimedOut` results, and the final states are related. -/
theorem C13s_refines_atomic {df : Bool} (h : df = true) {c : St} {acts : List Act} {outs : List Out}
    (d rt : Nat) (hd : 0 < d) (hr : run df init acts = some (c, outs))
    (hnd : Act.dropResponse ∉ acts) :
    ∃ l a, Wd.Trace (Wd.init d rt) l a ∧ l.filterMap lblOut = outs.filterMap endOf ∧ Rel c a := by
  subst h
  obtain ⟨l, a, h1, h2, h3, _⟩ := sim_run (inv_init true) (rel_init d rt hd) rfl rfl hr hnd
  exact ⟨l, a, h1, h2, h3⟩

/-- bytes, the deadline, `drop(rx)`, a read, `shutdown`, two more reads: the atomic model reports
    `TimedOut` twice as well -/
example : ∃ l a, Wd.Trace (Wd.init 100 30) l a ∧ l.filterMap lblOut = [.timedOut, .timedOut] ∧
    Rel { pc := .done, rxAlive := false, shut := true, due := true } a :=
  C13s_refines_atomic (df := true) rfl 100 30 (by decide)
    (acts := [.send 10, .tick, .wdFire, .read 8, .wdFire, .read 8, .read 8, .read 8])
    (outs := [.data 8, .data 2, .timedOut, .timedOut]) (by decide) (by decide)
example : Rel init (Wd.init 100 30) := rel_init 100 30 (by decide)
example : ∃ a', Wd.read { Wd.init 100 30 with peerClosed := true } 8 = (absOut .eof, a') ∧
    Rel { pc := .exited, rxAlive := false, hasTx := false, peerClosed := true } a' :=
  C13s_refines_atomic_read (df := true) rfl (c := { peerClosed := true }) (n := 8)
    ⟨[.close], [], by decide⟩
    ⟨rfl, rfl, fun _ => ⟨rfl, rfl⟩, .inl ⟨rfl, rfl, rfl, by decide, rfl⟩⟩ (by decide) (.inl rfl)

/-! ### the order found in the source -/

/-- the statements that hold for the order `drop(rx)`; `shutdown` -/
def C13sGuarantee (df : Bool) : Prop :=
  (∀ s, Reach df s → s.shut = true → s.rxAlive = false) ∧
  (∀ s n, Reach df s → 0 < n → s.shut = true → s.pending = 0 → s.hasTx = true →
    step df s (.read n) = some (s, some .timedOut)) ∧
  (∀ s s' n, Reach df s → s.hasTx = true → step df s (.read n) = some (s', some .eof) →
    s.peerClosed = true ∧ s.shut = false ∧ s.pc = .waiting ∧ s.pending = 0 ∧
      s'.pc = .exited ∧ s'.rxAlive = false ∧ s'.hasTx = false ∧ s'.shut = false) ∧
  (∀ s acts outs, run df init acts = some (s, outs) → Act.close ∉ acts → Act.dropResponse ∉ acts →
    Out.eof ∉ outs ∧ s.hasTx = true) ∧
  (∀ c c' a n x, Reach df c → Rel c a → step df c (.read n) = some (c', some x) →
    x = .eof ∨ x = .timedOut → ∃ a', Wd.read a n = (absOut x, a') ∧ Rel c' a') ∧
  (∀ c acts outs d rt, 0 < d → run df init acts = some (c, outs) → Act.dropResponse ∉ acts →
    ∃ l a, Wd.Trace (Wd.init d rt) l a ∧ l.filterMap lblOut = outs.filterMap endOf ∧ Rel c a)

theorem C13s_of_order (df : Bool) (h : df = true) : C13sGuarantee df :=
  ⟨fun _ r hs => C13s_shut_rx_dropped h r hs,
   fun _ n r hn hs hp hx => C13s_cut_not_clean h r n hn hs hp hx,
   fun _ _ _ r hx hst => C13s_eof_genuine h r hx hst,
   fun _ _ _ hr hnc hnd => C13s_no_close_no_eof h hr hnc hnd,
   fun _ _ _ _ _ r hrel hst hx => C13s_refines_atomic_read h r hrel hst hx,
   fun _ _ _ d rt hd hr hnd => C13s_refines_atomic h d rt hd hr hnd⟩

/-- The order of the two statements in the watchdog thread of src/streams.rs, as extracted from the
    source on every run: if `drop(rx)` comes before `stream.shutdown(..)`, all of the above holds
    for the library as written. -/
theorem C13s_source_order :
    Consts.wdDropsRxBeforeShutdown = true → C13sGuarantee Consts.wdDropsRxBeforeShutdown :=
  C13s_of_order _

/-- and the guarantee does not hold for the opposite order -/
theorem C13s_not_other_order : ¬ C13sGuarantee false := by
  intro ⟨h1, _⟩
  obtain ⟨s, r, hs, hrx⟩ := C13s_order_matters_inv
  rw [h1 s r hs] at hrx; cases hrx

/-- THE PROOF OBLIGATION tied to the source: the extracted order is "receiver dropped first", hence the
    guarantee holds for the library as written.  A change of `src/streams.rs` that shuts the socket
    down before dropping the receiver (or leaves the drop to the end of the thread) regenerates
    `Consts.wdDropsRxBeforeShutdown = false` and this theorem no longer checks. -/
theorem C13s_source_order_holds : C13sGuarantee Consts.wdDropsRxBeforeShutdown :=
  C13s_source_order (by decide)

end Atto
