/- Atto/Driver/Codec.lean — text encoding of op lines and canonical outputs. -/
import Atto.Model.Response
namespace Atto.Driver
open Atto

def hexDigit (n : Nat) : Char :=
  if n < 10 then Char.ofNat (48 + n) else Char.ofNat (87 + n)

def hexOfBytes (bs : Bytes) : String :=
  String.ofList (bs.foldr (fun b acc => hexDigit (b.toNat / 16) :: hexDigit (b.toNat % 16) :: acc) [])

def nibble? (c : Char) : Option Nat :=
  if '0' ≤ c ∧ c ≤ '9' then some (c.toNat - 48)
  else if 'a' ≤ c ∧ c ≤ 'f' then some (c.toNat - 87)
  else if 'A' ≤ c ∧ c ≤ 'F' then some (c.toNat - 55)
  else none

def bytesOfHexList : List Char → Option Bytes
  | [] => some []
  | a :: b :: rest =>
    match nibble? a, nibble? b, bytesOfHexList rest with
    | some x, some y, some r => some (UInt8.ofNat (x * 16 + y) :: r)
    | _, _, _ => none
  | _ => none

/-- `-` denotes the empty byte string. -/
def bytesOfHex (s : String) : Option Bytes :=
  if s == "-" then some [] else bytesOfHexList s.toList

def hexOrDash (bs : Bytes) : String := if bs = [] then "-" else hexOfBytes bs

def splitComma (s : String) : List String :=
  if s == "-" || s == "" then [] else s.splitOn ","

def errName : E → String
  | .io k => s!"io{k}"
  | .eof => "eof"
  | .statusLine => "statusLine"
  | .statusCode => "statusCode"
  | .header => "header"
  | .headerValue => "headerValue"
  | .chunkSize => "chunkSize"
  | .chunk => "chunk"
  | .contentLength => "contentLength"
  | .other => "other"
  | .invalidBaseUrl => "invalidBaseUrl"
  | .invalidUrlHost => "invalidUrlHost"
  | .invalidUrlPort => "invalidUrlPort"

def segOfString (s : String) : Option Seg :=
  match s.toList with
  | 'd' :: rest => (bytesOfHexList rest).map Seg.data
  | 'e' :: rest => (String.ofList rest).toNat?.map Seg.err
  | ['p'] => some .pause
  | _ => none

def segsOfString (s : String) : Option Transport :=
  (splitComma s).mapM segOfString

def methodOfString : String → Method
  | "GET" => .get | "HEAD" => .head | "POST" => .post | "PUT" => .put | "DELETE" => .delete
  | "OPTIONS" => .options | "PATCH" => .patch | "TRACE" => .trace | _ => .other

def evToString : Ev → String
  | .ok bs => "o" ++ hexOfBytes bs
  | .err e => "e:" ++ errName e
  | .blocked => "b"
  | .panic => "P"

/-- Insertion sort by name (stable), so per-name wire order is kept. -/
def insertSorted (p : Bytes × Bytes) : List (Bytes × Bytes) → List (Bytes × Bytes)
  | [] => [p]
  | q :: qs => if (hexOfBytes q.1) ≤ (hexOfBytes p.1) then q :: insertSorted p qs else p :: q :: qs

def canonHeaders (hs : Headers) : String :=
  let sorted := hs.foldl (fun acc p => insertSorted p acc) []
  if sorted = [] then "-" else
  ",".intercalate (sorted.map (fun p => hexOfBytes p.1 ++ ":" ++ hexOrDash p.2))

end Atto.Driver
