#!/bin/sh
# usage: tools/seed_test.sh <patch.diff> <tier> <PROP> [<PROP> ...]
# Applies a seeded change to /repo, runs the given checks, and undoes it straight afterwards.
set -u
PATCH=$(readlink -f "$1"); TIER=$2; shift 2
cd /repo || exit 2
if ! git diff --quiet; then echo "/repo has uncommitted changes"; exit 2; fi
git apply "$PATCH" || { echo "patch does not apply"; exit 2; }
cd /verif
# the evidence files of the unchanged tree must survive a seeded run
rm -rf work/evidence.keep && cp -r evidence work/evidence.keep
for P in "$@"; do
  printf '%s: ' "$P"
  timeout 1800 ./check "$P" --tier "$TIER" 2>/dev/null | grep -E "^(VIOLATION|OK|KNOWN)" | sed -E 's/^(KNOWN-FINDING: property=[^ ]+ sig=[^ ]+).*/\1/' | head -5 | tr '\n' ' '
  echo
done
git -C /repo checkout -- . 
# a seeded change may add files: remove what is not tracked under src/ and tests/
git -C /repo clean -fdq src tests
rm -rf evidence && mv work/evidence.keep evidence
# leave the harness built against the clean tree again
(cd /verif/harness && CARGO_NET_OFFLINE=true cargo build --release --offline >/dev/null 2>&1)
