/-
  Atto/Props/C01.lean — "Response body bytes equal the payload the server framed".
  Stated on the real pipeline model: `parseResponse` over an arbitrary well-formed scripted
  transport `t` (every segmentation: `t` is constrained only through `flatT t`), any BufReader
  capacity `cap > 0`, any chunk-buffer bound `maxBuf > 0`, any caller read-size schedule `ns`.
-/
import Atto.Lemmas.BodyReads
import Atto.Lemmas.LengthClose
import Atto.Lemmas.ExampleData
namespace Atto

local notation "L" => Consts.maxLineLen
local notation "CL" => Consts.chunkSizeLineLimit

/-- (1) chunked framing: only `Ok` events, the bytes handed out are a prefix of the concatenated
    chunk data, and a read with a non-empty buffer returns `Ok(0)` exactly when all of it was
    delivered. `trail` is arbitrary garbage after the frame. -/
theorem C01_chunked (h : HeadS) (cs : List ChunkS) (last : LastS) (trail : List Item)
    (t : Transport) (cap maxBuf mh : Nat) (m : Method) (ns : List Nat)
    (hwf : wfT t) (hcap : 0 < cap) (hmb : 0 < maxBuf) (hh : h.WF L)
    (hcs : ∀ c ∈ cs, c.WF CL) (hl : last.WF CL)
    (hmh : h.fields.length ≤ mh) (hms : h.fields.length ≤ Headers.maxSize)
    (hnb : bodyless m h.code = false) (hch : isChunked h.seen = true)
    (hflat : flatT t = bytesI (h.render ++ encChunks cs ++ last.enc) ++ trail) :
    ∃ resp, parseResponse m mh cap t = .ok resp ∧ resp.status = h.code ∧
      resp.headers = h.seen.remove nameTE ∧
      let evs := (reads maxBuf ns resp.body).1
      (∀ e ∈ evs, e.isOk) ∧ deliveredEv evs <+: payloadOf cs ∧
      (∀ i (hi : i < ns.length), 0 < ns[i] → evs[i]? = some (.ok []) →
          deliveredEv (evs.take i) = payloadOf cs) ∧
      (∀ i (hi : i < ns.length), 0 < ns[i] → deliveredEv (evs.take i) = payloadOf cs →
          evs[i]? = some (.ok [])) := by
  have hflat' : flatT t = bytesI h.render ++ (bytesI (encChunks cs ++ last.enc) ++ trail) := by
    rw [hflat]; simp [bytesI]
  obtain ⟨r1, hok, hfl, hp⟩ := parseResponse_of_head h hh _ t cap mh hwf hcap hmh hms hflat'
  refine ⟨_, hp m _ (chooseFraming_chunked m h.code h.seen hnb hch), rfl, rfl, ?_⟩
  exact chunked_complete_ev r1 hok maxBuf hmb ns cs hcs last hl trail hfl

/-- non-vacuity: a head with `Transfer-Encoding: chunked`, two chunks (one with an extension and a
    leading zero), a 4-way segmentation, capacity 8, chunk buffer 4, trailing garbage -/
example := C01_chunked Ex.headTE Ex.chunks Ex.last [.byte 7, .pause]
  (Ex.seg (Ex.headTE.render ++ encChunks Ex.chunks ++ Ex.last.enc) ++ [.data [7], .pause]) 8 4 100 .get
  [0, 3, 100, 1, 5, 5, 0, 2]
  (by decide +kernel) (by decide) (by decide) (by decide +kernel) (by decide +kernel)
  (by decide +kernel) (by decide +kernel) (by decide +kernel) (by decide +kernel) (by decide +kernel)
  (by decide +kernel)

/-- non-vacuity, with a trailer section: the same, but the last-chunk (`00;q`) is followed by two
    trailer field lines (`Expires: never`, `X-Sum: 1`) before the final empty line; the payload is the
    same and the garbage behind the frame is not touched -/
example := C01_chunked Ex.headTE Ex.chunks Ex.lastT [.byte 7, .pause]
  (Ex.seg (Ex.headTE.render ++ encChunks Ex.chunks ++ Ex.lastT.enc) ++ [.data [7], .pause]) 8 4 100 .get
  [0, 3, 100, 1, 5, 5, 0, 2]
  (by decide +kernel) (by decide) (by decide) (by decide +kernel) (by decide +kernel)
  (by decide +kernel) (by decide +kernel) (by decide +kernel) (by decide +kernel) (by decide +kernel)
  (by decide +kernel)

/-- (2) `Content-Length` framing: only `Ok` events, the bytes handed out are a prefix of the
    `Content-Length` octets `body` (nothing from `trail`, the bytes after the frame), a read with a
    non-empty buffer returns `Ok(0)` exactly when all of `body` was delivered, and returns a non-empty
    piece before that. -/
theorem C01_length (h : HeadS) (body : Bytes) (trail : List Item)
    (t : Transport) (cap maxBuf mh : Nat) (m : Method) (ns : List Nat)
    (hwf : wfT t) (hcap : 0 < cap) (hh : h.WF L)
    (hmh : h.fields.length ≤ mh) (hms : h.fields.length ≤ Headers.maxSize)
    (hnb : bodyless m h.code = false) (hch : isChunked h.seen = false)
    (hcl : isContentLength h.seen = .ok (some body.length))
    (hflat : flatT t = bytesI (h.render ++ body) ++ trail) :
    ∃ resp, parseResponse m mh cap t = .ok resp ∧ resp.status = h.code ∧
      resp.headers = h.seen.remove nameTE ∧
      let evs := (reads maxBuf ns resp.body).1
      (∀ e ∈ evs, e.isOk) ∧ deliveredEv evs <+: body ∧
      (∀ i (hi : i < ns.length), 0 < ns[i] → evs[i]? = some (.ok []) →
          deliveredEv (evs.take i) = body) ∧
      (∀ i (hi : i < ns.length), 0 < ns[i] → deliveredEv (evs.take i) = body →
          evs[i]? = some (.ok [])) ∧
      (∀ i (hi : i < ns.length), 0 < ns[i] → (deliveredEv (evs.take i)).length < body.length →
          ∃ bs, evs[i]? = some (.ok bs) ∧ bs ≠ []) := by
  have hflat' : flatT t = bytesI h.render ++ (bytesI body ++ trail) := by
    rw [hflat]; simp [bytesI]
  obtain ⟨r1, hok, hfl, hp⟩ := parseResponse_of_head h hh _ t cap mh hwf hcap hmh hms hflat'
  refine ⟨_, hp m _ (chooseFraming_length m h.code h.seen _ hnb hch hcl), rfl, rfl, ?_⟩
  exact clean_run maxBuf ns (.length r1 body.length) body ⟨hok, rfl, trail, hfl⟩

/-- non-vacuity: `Content-Length: 11`, body `hello world`, then garbage and a stall -/
example := C01_length Ex.headCL Ex.body [.byte 7, .pause]
  (Ex.seg (Ex.headCL.render ++ Ex.body) ++ [.data [7], .pause]) 8 4 100 .get
  [0, 3, 100, 1, 5, 5, 0, 2]
  (by decide +kernel) (by decide) (by decide +kernel) (by decide +kernel) (by decide +kernel)
  (by decide +kernel) (by decide +kernel) (by decide +kernel) (by decide +kernel)

/-- (3) close-delimited framing (no `Transfer-Encoding: chunked`, no `Content-Length`): the payload
    is everything up to EOF. -/
theorem C01_close (h : HeadS) (body : Bytes)
    (t : Transport) (cap maxBuf mh : Nat) (m : Method) (ns : List Nat)
    (hwf : wfT t) (hcap : 0 < cap) (hh : h.WF L)
    (hmh : h.fields.length ≤ mh) (hms : h.fields.length ≤ Headers.maxSize)
    (hnb : bodyless m h.code = false) (hch : isChunked h.seen = false)
    (hcl : isContentLength h.seen = .ok none)
    (hflat : flatT t = bytesI (h.render ++ body)) :
    ∃ resp, parseResponse m mh cap t = .ok resp ∧ resp.status = h.code ∧
      resp.headers = h.seen.remove nameTE ∧
      let evs := (reads maxBuf ns resp.body).1
      (∀ e ∈ evs, e.isOk) ∧ deliveredEv evs <+: body ∧
      (∀ i (hi : i < ns.length), 0 < ns[i] → evs[i]? = some (.ok []) →
          deliveredEv (evs.take i) = body) ∧
      (∀ i (hi : i < ns.length), 0 < ns[i] → deliveredEv (evs.take i) = body →
          evs[i]? = some (.ok [])) ∧
      (∀ i (hi : i < ns.length), 0 < ns[i] → (deliveredEv (evs.take i)).length < body.length →
          ∃ bs, evs[i]? = some (.ok bs) ∧ bs ≠ []) := by
  have hflat' : flatT t = bytesI h.render ++ bytesI body := by
    rw [hflat]; simp [bytesI]
  obtain ⟨r1, hok, hfl, hp⟩ := parseResponse_of_head h hh _ t cap mh hwf hcap hmh hms hflat'
  refine ⟨_, hp m _ (chooseFraming_close m h.code h.seen hnb hch hcl), rfl, rfl, ?_⟩
  exact clean_run maxBuf ns (.close r1) body ⟨hok, hfl⟩

/-- non-vacuity: an HTTP/1.0 404 without framing headers, body up to EOF -/
example := C01_close Ex.headClose Ex.body
  (Ex.seg (Ex.headClose.render ++ Ex.body)) 8 4 100 .get
  [0, 3, 100, 1, 5, 5, 0, 2]
  (by decide +kernel) (by decide) (by decide +kernel) (by decide +kernel) (by decide +kernel)
  (by decide +kernel) (by decide +kernel) (by decide +kernel) (by decide +kernel)

/-- (4) segmentation independence: two transports (and BufReader capacities) that carry the same
    flat stream — ANY stream, well-formed response or not — give the same status, headers and
    decoder selection (or the same error / stall), and for chunked framing the same list of caller
    events for every read-size schedule. -/
theorem C01_seg_indep (t1 t2 : Transport) (cap1 cap2 mh maxBuf : Nat) (m : Method) (ns : List Nat)
    (hw1 : wfT t1) (hw2 : wfT t2) (hc1 : 0 < cap1) (hc2 : 0 < cap2)
    (hf : flatT t1 = flatT t2) :
    (parseResponse m mh cap1 t1).map (fun r => (r.status, r.headers, r.coding)) =
      (parseResponse m mh cap2 t2).map (fun r => (r.status, r.headers, r.coding)) ∧
    ∀ r1 r2 c1 c2, parseResponse m mh cap1 t1 = .ok r1 → parseResponse m mh cap2 t2 = .ok r2 →
      r1.body = .chunked c1 → r2.body = .chunked c2 →
      (reads maxBuf ns r1.body).1 = (reads maxBuf ns r2.body).1 :=
  parseResponse_seg_indep t1 t2 cap1 cap2 mh maxBuf m ns hw1 hw2 hc1 hc2 hf

/-- non-vacuity: the same wire bytes in four segments / capacity 8 and in one segment / capacity 3 -/
example := C01_seg_indep
  (Ex.seg (Ex.headTE.render ++ encChunks Ex.chunks ++ Ex.last.enc))
  [.data (Ex.headTE.render ++ encChunks Ex.chunks ++ Ex.last.enc)] 8 3 100 4 .get [0, 3, 100, 1]
  (by decide +kernel) (by decide +kernel) (by decide) (by decide) (by decide +kernel)

/-- (5) a read with an empty caller buffer never returns bytes, on any body in any state. -/
theorem C01_zero_read (b : Body) (maxBuf : Nat) (bs : Bytes)
    (h : (b.read maxBuf 0).1 = .ok bs) : bs = [] :=
  body_read_zero b maxBuf bs h

/-- non-vacuity: such a read does return `Ok` on a body with buffered data -/
example : ((Body.length { buf := [1, 2], cap := 8, inner := [] } 2).read 4 0).1 = .ok [] := rfl
