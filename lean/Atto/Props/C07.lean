/-
  Atto/Props/C07.lean — "each connection carries exactly one well-formed, faithfully framed request".

  The bytes `writeRequest` puts on a connection are read back by the INDEPENDENT request parser of
  Spec/RequestSpec.lean (`parseRequest`, written from RFC 9112) to the same method, target, header
  fields and body octets, with nothing left over; the framing headers `tryPrepare` leaves are
  consistent whatever the caller put into the header map; the chunked encoder never emits a
  zero-size chunk except the terminator; Basic credentials decode back; defaults are defaults.
  Helper lemmas: Lemmas/RqRoundTrip.lean, Lemmas/RqHeaders.lean, Lemmas/RqRadix.lean,
  Lemmas/B64RoundTrip.lean, Lemmas/RqLex.lean.

  Hypotheses of (a) that the brief did not list but that are necessary (all three values are
  written verbatim into a field line by the model; in the Rust code they are `HeaderValue`s, whose
  constructor rejects CR / LF, but may carry leading / trailing blanks which a parser strips):
  `rqWFValue s.userAgent`, `rqWFValue t` for the body's Content-Type `t`, `rqWFValue u.authority`.
-/
import Atto.Lemmas.RqRoundTrip
import Atto.Lemmas.B64RoundTrip
import Atto.Lemmas.RqSend
namespace Atto

/-! ### example data -/
namespace C07
def url : Url :=
  { scheme := str "http", user := str "bob", pass := some (str "pw"), host := str "example.com", hostKind := 0,
    port := some 8080, effPort := 8080, path := str "/a/b", query := some (str "x=1&y=%20"),
    fragment := some (str "frag") }
def settings : PrepSettings := { allowCompression := true, userAgent := str "attohttpc/0.30" }
/-- caller headers, among them framing headers the caller should not have set, and a stale Host -/
def hdrs : Headers :=
  [(str "x-note", str "a  b\tc"), (str "content-length", str "999"), (str "accept", str "text/html"),
   (str "transfer-encoding", str "gzip"), (str "x-empty", []), (str "host", str "stale"), (str "accept", str "*/*;q=0.1")]
/-- a 9000-byte slice (> 8 KiB, the size of the writer's internal buffer) -/
def big : Bytes := List.replicate 9000 120
/-- a streaming body: empty slices, a big slice, a slice that looks like a terminator -/
def chunkedBody : BodyM :=
  { kind := .chunked, contentType := some (str "application/json"),
    writes := [[], str "hello", [], [], big, str "\r\n0\r\n\r\n", []] }
def knownBody : BodyM := { kind := .known 11, writes := [str "hello", [], str " world"] }
def emptyBody : BodyM := { kind := .empty, writes := [str "ignored"] }
def req : Req :=
  { method := str "POST", methodM := .post, headers := tryPrepare settings hdrs knownBody, body := knownBody,
    bodyRewindable := true }
def proxyUrl : Url :=
  { scheme := str "http", user := str "pu", pass := some (str "pp"), host := str "proxy.local", hostKind := 0,
    port := some 3128, effPort := 3128, path := str "/", query := none, fragment := none }
def viaProxy : SendSettings :=
  { followRedirects := true, maxRedirections := 5, maxHeaders := 100,
    proxy := { httpProxy := some proxyUrl, httpsProxy := none, disabled := false, noProxy := [] } }
def hop : Hop := { script := [.data (str "HTTP/1.1 200 OK\r\ncontent-length: 0\r\n\r\n")], resolved := none }
end C07

/-! ### (b) framing headers -/

/-- (b) Whatever the caller put into the header map (also `content-length` / `transfer-encoding`
    of their own), after `try_prepare` the framing fields are exactly: one `content-length` with
    the decimal length and no `transfer-encoding` for a body of known length; one
    `transfer-encoding: chunked` and no `content-length` for a streaming body; neither for no body.
    Never both, never neither for a non-empty kind. And `connection: close`, once. -/
theorem C07_framing (s : PrepSettings) (h0 : Headers) (b : BodyM) :
    ((tryPrepare s h0 b).getAll nameCL, (tryPrepare s h0 b).getAll nameTE) =
      (match b.kind with
       | .known n => ([natDigits n], [])
       | .chunked => ([], [str "chunked"])
       | .empty => ([], [])) ∧
    (tryPrepare s h0 b).getAll (str "connection") = [str "close"] := by
  obtain ⟨k, ct, ws⟩ := b
  obtain ⟨ac, ua⟩ := s
  cases k <;> cases ct <;> cases ac <;>
    simp [tryPrepare, rq_getAll_insertIfMissing, rq_getAll_insert, rq_getAll_remove, rq_hName, rq_nameCL, rq_nameTE]

/-- the same after `set_host` (what is actually written) -/
theorem C07_framing_setHost (s : PrepSettings) (h0 : Headers) (b : BodyM) (u : Url) :
    ((setHost (tryPrepare s h0 b) u).getAll nameCL, (setHost (tryPrepare s h0 b) u).getAll nameTE) =
      (match b.kind with
       | .known n => ([natDigits n], [])
       | .chunked => ([], [str "chunked"])
       | .empty => ([], [])) ∧
    (setHost (tryPrepare s h0 b) u).getAll (str "connection") = [str "close"] := by
  have h := C07_framing s h0 b
  have e : ∀ n, n ≠ str "host" → (setHost (tryPrepare s h0 b) u).getAll n = (tryPrepare s h0 b).getAll n := by
    intro n hn; simp [setHost, rq_getAll_insert, rq_hName, hn]
  rw [e nameCL (by rw [rq_nameCL]; simp), e nameTE (by rw [rq_nameTE]; simp), e (str "connection") (by simp)]
  exact h

/-- non-vacuity: the caller's `content-length: 999` and `transfer-encoding: gzip` are gone -/
example : ((tryPrepare C07.settings C07.hdrs C07.chunkedBody).getAll nameCL,
    (tryPrepare C07.settings C07.hdrs C07.chunkedBody).getAll nameTE) = ([], [str "chunked"]) :=
  (C07_framing C07.settings C07.hdrs C07.chunkedBody).1
example : ((tryPrepare C07.settings C07.hdrs C07.knownBody).getAll nameCL,
    (tryPrepare C07.settings C07.hdrs C07.knownBody).getAll nameTE) = ([natDigits 11], []) :=
  (C07_framing C07.settings C07.hdrs C07.knownBody).1

/-! ### (c) chunked encoding: only the terminator has size zero -/

/-- (c) A streaming body is written as the chunks of its NON-EMPTY writes followed by the
    terminator `0 CRLF CRLF`: a zero-length write produces no bytes, every emitted chunk has a size
    ≥ 1 whose lower-case hex size line has no leading zero and parses back to the size, and the
    independent chunk decoder reads back exactly the non-empty writes with nothing left over. -/
theorem C07_only_last_chunk_is_zero (b : BodyM) (hk : b.kind = .chunked) :
    writeBody b = ((rqNonEmpty b.writes).map rqEncChunk).flatten ++ str "0\r\n\r\n" ∧
    decodeChunks (writeBody b) = some (rqNonEmpty b.writes, []) ∧
    (∀ w ∈ rqNonEmpty b.writes, 1 ≤ w.length) ∧
    chunkedWrite [] = [] ∧
    (∀ w : Bytes, w ≠ [] →
      chunkedWrite w = hexLower w.length ++ [13, 10] ++ w ++ [13, 10] ∧
      rqParseHex (hexLower w.length) = some w.length ∧ (hexLower w.length).head? ≠ some 48) := by
  refine ⟨by rw [rq_writeBody_chunked b hk, rq_str_last], ?_, rq_nonEmpty_ne b.writes, rfl, ?_⟩
  · rw [rq_writeBody_chunked b hk]
    have := rq_decodeChunks_enc' (rqNonEmpty b.writes) (rq_nonEmpty_ne b.writes) []
    simpa using this
  · intro w hw
    refine ⟨by simp [chunkedWrite, hw], rq_hexLower_parse _, rq_hexLower_no_leading_zero _ ?_⟩
    cases w with
    | nil => exact absurd rfl hw
    | cons a w => simp

/-- non-vacuity: empty slices, a slice > 8 KiB, a slice that looks like a terminator -/
example : decodeChunks (writeBody C07.chunkedBody) =
    some ([str "hello", C07.big, str "\r\n0\r\n\r\n"], []) := by
  rw [(C07_only_last_chunk_is_zero C07.chunkedBody rfl).2.1]
  have h1 : C07.big ≠ [] := by
    intro h
    have := congrArg List.length h
    simp only [C07.big, List.length_replicate, List.length_nil] at this
    omega
  have h2 : str "hello" ≠ [] := by decide +kernel
  have h3 : str "\r\n0\r\n\r\n" ≠ [] := by decide +kernel
  simp [rqNonEmpty, C07.chunkedBody, h1, h2, h3]

/-! ### (d) Basic credentials -/

/-- (d) `basic_auth(user, pass)` sets `Authorization: Basic ` followed by the base64 of
    `user ":" pass` (RFC 7617): decoding what follows the scheme gives back exactly those octets,
    for all byte strings. -/
theorem C07_basic (user : Bytes) (pass : Option Bytes) :
    (basicAuthValue user pass).take 6 = str "Basic " ∧
    b64Decode ((basicAuthValue user pass).drop 6) = some (user ++ [58] ++ pass.getD []) ∧
    ∀ h : Headers, (HOp.apply h (.basic user pass)).getAll (str "authorization") = [basicAuthValue user pass] := by
  refine ⟨?_, ?_, ?_⟩
  · simp [basicAuthValue, rq_str_basic]
  · simp [basicAuthValue, rq_str_basic, b64Decode_b64Encode]
  · intro h; simp [HOp.apply, rq_getAll_insert, rq_hName]

example : b64Decode ((basicAuthValue (str "Aladdin") (some (str "open sesame"))).drop 6) =
    some (str "Aladdin:open sesame") := by
  rw [(C07_basic _ _).2.1]; decide +kernel
example : basicAuthValue (str "Aladdin") (some (str "open sesame")) = str "Basic QWxhZGRpbjpvcGVuIHNlc2FtZQ==" := by
  decide +kernel

/-! ### (e) defaults -/

/-- (e) `Accept: */*` and the default User-Agent are present iff the caller supplied none (the
    caller's values are kept otherwise); `Accept-Encoding` is `gzip, deflate` iff compression is
    allowed, else whatever the caller set. -/
theorem C07_defaults (s : PrepSettings) (h0 : Headers) (b : BodyM) :
    (tryPrepare s h0 b).getAll (str "accept") =
      (if h0.getAll (str "accept") = [] then [str "*/*"] else h0.getAll (str "accept")) ∧
    (tryPrepare s h0 b).getAll (str "user-agent") =
      (if h0.getAll (str "user-agent") = [] then [s.userAgent] else h0.getAll (str "user-agent")) ∧
    (tryPrepare s h0 b).getAll (str "accept-encoding") =
      (if s.allowCompression then [str "gzip, deflate"] else h0.getAll (str "accept-encoding")) := by
  obtain ⟨k, ct, ws⟩ := b
  obtain ⟨ac, ua⟩ := s
  cases k <;> cases ct <;> cases ac <;>
    simp [tryPrepare, rq_getAll_insertIfMissing, rq_getAll_insert, rq_getAll_remove, rq_hName, rq_nameCL, rq_nameTE]

/-- non-vacuity: the caller's two Accept values are kept in order, the User-Agent is the default -/
example : (tryPrepare C07.settings C07.hdrs C07.knownBody).getAll (str "accept") = [str "text/html", str "*/*;q=0.1"] ∧
    (tryPrepare C07.settings C07.hdrs C07.knownBody).getAll (str "user-agent") = [str "attohttpc/0.30"] := by
  obtain ⟨h1, h2, _⟩ := C07_defaults C07.settings C07.hdrs C07.knownBody
  rw [h1, h2]; decide +kernel

/-! ### (a) the round trip -/

/-- an honest `Body`: it writes as many octets as the length it announced -/
def BodyM.Honest (b : BodyM) : Prop :=
  match b.kind with
  | .known n => b.writes.flatten.length = n
  | _ => True

instance (b : BodyM) : Decidable b.Honest := by
  unfold BodyM.Honest; cases b.kind <;> infer_instance

/-- the octets a server must receive as the body -/
def expectedBody (b : BodyM) : Bytes :=
  match b.kind with
  | .empty => []
  | _ => b.writes.flatten

/-- the body alone: the parser, told the headers the model wrote, reads back the body octets and
    leaves nothing (`hu` is the URL `set_host` was called with) -/
theorem C07_body_roundtrip (s : PrepSettings) (h0 : Headers) (b : BodyM) (hu : Url)
    (hw : (setHost (tryPrepare s h0 b) hu).WFReq) (hb : b.Honest) :
    rqParseBody (setHost (tryPrepare s h0 b) hu) (writeBody b) = some (expectedBody b, []) := by
  have hl : ∀ p ∈ setHost (tryPrepare s h0 b) hu, lowerBytes p.1 = p.1 := fun p hp => (hw p hp).2.1
  have hfr := (C07_framing_setHost s h0 b hu).1
  rw [rq_nameCL, rq_nameTE] at hfr
  unfold rqParseBody rqFraming
  rw [rq_fieldValues_getAll _ _ hl, rq_fieldValues_getAll _ _ hl]
  cases hk : b.kind with
  | empty =>
    rw [hk] at hfr
    simp only [Prod.mk.injEq] at hfr
    simp [hfr.1, hfr.2, writeBody, expectedBody, hk]
  | known n =>
    rw [hk] at hfr
    simp only [Prod.mk.injEq] at hfr
    have hlen : b.writes.flatten.length = n := by simpa [BodyM.Honest, hk] using hb
    have htk : List.take n b.writes.flatten = b.writes.flatten := List.take_of_length_le (by omega)
    simp [hfr.1, hfr.2, rq_natDigits_parse, writeBody, expectedBody, hk, hlen, htk]
  | chunked =>
    rw [hk] at hfr
    simp only [Prod.mk.injEq] at hfr
    have hd := (C07_only_last_chunk_is_zero b hk).2.1
    have hlow : lowerBytes (str "chunked") = str "chunked" := by decide +kernel
    simp [hfr.1, hfr.2, hlow, hd, expectedBody, hk, rq_nonEmpty_flatten]

/-- (a), general form: either target form (`vp` = plain http through a proxy: absolute-form), the
    Host field taken from any URL `hu` (the proxy's for plain http through a proxy), and the
    well-formedness hypothesis put on the header map that is actually WRITTEN — so `h0` itself may
    contain anything `tryPrepare` / `setHost` drop (framing fields, a stale Host). -/
theorem C07_roundtrip_gen (m : Bytes) (u hu : Url) (vp : Bool) (s : PrepSettings) (h0 : Headers) (b : BodyM)
    (hm : rqToken m) (ht : requestTarget u vp ≠ [])
    (ht' : ∀ c ∈ requestTarget u vp, c ≠ 32 ∧ c ≠ 13 ∧ c ≠ 10)
    (hw : (setHost (tryPrepare s h0 b) hu).WFReq) (hb : b.Honest) :
    parseRequest (writeRequest m u vp (setHost (tryPrepare s h0 b) hu) b) =
      some ({ method := m, target := requestTarget u vp, headers := setHost (tryPrepare s h0 b) hu,
              body := expectedBody b }, []) := by
  unfold writeRequest
  rw [rq_parse_head m (requestTarget u vp) _ _ hm ht ht' hw.head, C07_body_roundtrip s h0 b hu hw hb]

/-- (a) For every method (non-empty token), every URL whose origin-form is non-empty and free of
    SP / CR / LF, every well-formed caller header map, every honest body (known length: the writes
    add up to the announced length; streaming: ANY sequence of writes, empty and huge slices
    included; none), the bytes written are exactly one HTTP/1.1 request: the independent parser
    decodes them to the same method, target, header fields (in order) and body octets, and
    nothing is left over on the connection.
    (`_partial`: the brief's statement has no hypothesis on the three values `tryPrepare` / `setHost`
    add verbatim — User-Agent, the body's Content-Type, the authority; without them it is false,
    see `C07_roundtrip_full_refuted`.) -/
theorem C07_roundtrip_partial (m : Bytes) (u : Url) (s : PrepSettings) (h0 : Headers) (b : BodyM)
    (hm : rqToken m) (ht : u.originForm ≠ []) (ht' : ∀ c ∈ u.originForm, c ≠ 32 ∧ c ≠ 13 ∧ c ≠ 10)
    (hh : h0.WFReq) (hua : rqWFValue s.userAgent) (hct : ∀ t, b.contentType = some t → rqWFValue t)
    (hau : rqWFValue u.authority) (hb : b.Honest) :
    parseRequest (writeRequest m u false (setHost (tryPrepare s h0 b) u) b) =
      some ({ method := m, target := u.originForm, headers := setHost (tryPrepare s h0 b) u,
              body := expectedBody b }, []) :=
  C07_roundtrip_gen m u u false s h0 b hm ht ht'
    (rq_WFReq_setHost _ u (rq_WFReq_tryPrepare s h0 b hh hua hct) hau) hb

/-- non-vacuity: POST, streaming body with empty and > 8 KiB slices, caller framing headers -/
example := C07_roundtrip_partial (str "POST") C07.url C07.settings C07.hdrs C07.chunkedBody
  (by decide +kernel) (by decide +kernel) (by decide +kernel) (by decide +kernel) (by decide +kernel)
  (by decide +kernel) (by decide +kernel) trivial
/-- known length -/
example := C07_roundtrip_partial (str "PUT") C07.url C07.settings C07.hdrs C07.knownBody
  (by decide +kernel) (by decide +kernel) (by decide +kernel) (by decide +kernel) (by decide +kernel)
  (by decide +kernel) (by decide +kernel) (by decide +kernel)
/-- no body: a `Body` of kind `empty` is not asked to write -/
example : (parseRequest (writeRequest (str "GET") C07.url false
    (setHost (tryPrepare C07.settings C07.hdrs C07.emptyBody) C07.url) C07.emptyBody)).map (fun p => (p.1.body, p.2)) =
    some ([], []) := by
  rw [C07_roundtrip_partial (str "GET") C07.url C07.settings C07.hdrs C07.emptyBody
    (by decide +kernel) (by decide +kernel) (by decide +kernel) (by decide +kernel) (by decide +kernel)
    (by decide +kernel) (by decide +kernel) trivial]
  rfl
/-- absolute-form target and the Host of another URL (plain http through a proxy) -/
example := C07_roundtrip_gen (str "DELETE") C07.url { C07.url with host := str "proxy.local", port := none } true
  C07.settings C07.hdrs C07.knownBody (by decide +kernel) (by decide +kernel) (by decide +kernel)
  (by decide +kernel) (by decide +kernel)

/-- the brief's statement of (a): hypotheses on `h0` only -/
def C07_roundtrip_full : Prop :=
  ∀ (m : Bytes) (u : Url) (s : PrepSettings) (h0 : Headers) (b : BodyM),
    rqToken m → u.originForm ≠ [] → (∀ c ∈ u.originForm, c ≠ 32 ∧ c ≠ 13 ∧ c ≠ 10) → h0.WFReq → b.Honest →
    parseRequest (writeRequest m u false (setHost (tryPrepare s h0 b) u) b) =
      some ({ method := m, target := u.originForm, headers := setHost (tryPrepare s h0 b) u,
              body := expectedBody b }, [])

/-- counterexample: a configured User-Agent with a trailing blank is written verbatim; a reader
    strips optional whitespace around field values, so the field read back is `ua`, not `ua ` -/
theorem C07_roundtrip_full_refuted : ¬ C07_roundtrip_full := by
  intro h
  have := h (str "GET") C07.url { allowCompression := false, userAgent := str "ua " } [] { kind := .empty }
    (by decide +kernel) (by decide +kernel) (by decide +kernel) (by decide +kernel) trivial
  revert this
  decide +kernel

/-! ### (a) on the connection: the first hop of `send` -/

theorem rq_setHost_setHost (h : Headers) (a c : Url) : setHost (setHost h a) c = setHost h c := by
  simp [setHost, Headers.insert, Headers.remove, List.filter_append, List.filter_filter]

/-- (a) for what `send` writes on its first connection when that is not a CONNECT tunnel (direct,
    or plain http through a proxy): exactly one request, decoded back to the caller's method, the
    target of Props/C08, the prepared header fields with the hop's Host, and the body octets. -/
theorem C07_roundtrip_first_hop (S : SendSettings) (req : Req) (cap : Nat) (url : Url) (hop : Hop)
    (rest : List Hop) (s : PrepSettings) (h0 : Headers)
    (hprep : req.headers = tryPrepare s h0 req.body) (htun : rqIsTunnel S url = false)
    (hm : rqToken req.method)
    (ht : requestTarget url (url.scheme == str "http" && (S.proxy.forUrl url).isSome) ≠ [])
    (ht' : ∀ c ∈ requestTarget url (url.scheme == str "http" && (S.proxy.forUrl url).isSome),
      c ≠ 32 ∧ c ≠ 13 ∧ c ≠ 10)
    (hw : (rqHopHeaders S url req.headers).WFReq) (hb : req.body.Honest) :
    ∃ o tail f, send S req cap url (hop :: rest) = (o :: tail, f) ∧
      parseRequest o.wrote =
        some ({ method := req.method,
                target := requestTarget url (url.scheme == str "http" && (S.proxy.forUrl url).isSome),
                headers := rqHopHeaders S url req.headers, body := expectedBody req.body }, []) := by
  obtain ⟨tail, f, h⟩ := rq_sendLoop_plain S req cap hop rest url 0 req.headers true htun
  refine ⟨_, tail, f, h, ?_⟩
  have hbody : rqHopBody req true = req.body := by simp [rqHopBody]
  simp only [rqPlainOut, hbody]
  obtain ⟨hu, hhu⟩ : ∃ hu, rqHopHeaders S url req.headers = setHost (tryPrepare s h0 req.body) hu := by
    unfold rqHopHeaders
    rw [hprep]
    cases S.proxy.forUrl url with
    | none => exact ⟨url, rfl⟩
    | some p =>
      by_cases hs : url.scheme = str "http"
      · exact ⟨p, by simp [hs]⟩
      · exact ⟨url, by simp [hs]⟩
  rw [hhu] at hw ⊢
  exact C07_roundtrip_gen req.method url hu _ s h0 req.body hm ht ht' hw hb

/-- non-vacuity: `send` through an http proxy; absolute-form target, the proxy's Host -/
example : ∃ o tail f, send C07.viaProxy C07.req 8 C07.url [C07.hop] = (o :: tail, f) ∧
    (parseRequest o.wrote).map (fun p => (p.1.method, p.1.target, p.1.body, p.2)) =
      some (str "POST", str "http://example.com:8080/a/b?x=1&y=%20", str "hello world", []) := by
  obtain ⟨o, tail, f, h, hp⟩ := C07_roundtrip_first_hop C07.viaProxy C07.req 8 C07.url C07.hop [] C07.settings
    C07.hdrs rfl (by decide +kernel) (by decide +kernel) (by decide +kernel) (by decide +kernel)
    (by decide +kernel) (by decide +kernel)
  refine ⟨o, tail, f, h, ?_⟩
  rw [hp]
  decide +kernel

/-! ### necessity of the honesty and value hypotheses (counterexamples, evaluated) -/

/-- a body that announces 5 octets and writes 3: the parser finds no complete request -/
example : parseRequest (writeRequest (str "PUT") C07.url false
    (setHost (tryPrepare C07.settings [] { kind := .known 5, writes := [str "abc"] }) C07.url)
    { kind := .known 5, writes := [str "abc"] }) = none := by decide +kernel
/-- a body that announces 1 octet and writes 3: two octets are left over on the connection -/
example : (parseRequest (writeRequest (str "PUT") C07.url false
    (setHost (tryPrepare C07.settings [] { kind := .known 1, writes := [str "abc"] }) C07.url)
    { kind := .known 1, writes := [str "abc"] })).map (·.2) = some (str "bc") := by decide +kernel
/-- a User-Agent with a trailing blank is not read back identically (OWS is stripped) -/
example : (parseRequest (writeRequest (str "GET") C07.url false
    (setHost (tryPrepare { allowCompression := false, userAgent := str "ua " } [] { kind := .empty }) C07.url)
    { kind := .empty })).map (fun p => p.1.headers.getAll (str "user-agent")) = some [str "ua"] := by
  decide +kernel

end Atto
