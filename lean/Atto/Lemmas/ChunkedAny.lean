/-
  Atto/Lemmas/ChunkedAny.lean — the chunked decoder (`Chunked` on the flat item stream) over ANY
  stream: arbitrary corruption (garbage size lines, data not followed by CRLF), I/O errors and
  stalls anywhere, the caller reading on after an error.
  * what the two primitives and the line readers consume (`Adv`): a piece of the stream made of
    the bytes they return and of Interrupted errors (which `read_exact` / `read_until` retry);
  * nothing fabricated: the bytes handed out so far are a subsequence of the bytes of the stream
    (`any_sublist_run`);
  * a failure is latched (`any_latched_run`);
  * `Ok(0)` on a non-empty caller buffer only after a size line that parses to 0, a trailer section
    (possibly empty, bounded) and a line ending (`any_clean_end_run`).
  Used by Props/C02u.
-/
import Atto.Lemmas.BodyReads
import Atto.Lemmas.LengthClose
namespace Atto

/-! ## Pieces of the stream -/

/-- the stream without its Interrupted errors (`err 0`), which std's `read_exact` and `read_until`
    retry without the caller noticing -/
def noIntr (is : List Item) : List Item := is.filter (fun x => x != Item.err 0)

@[simp] theorem noIntr_nil : noIntr [] = [] := rfl
@[simp] theorem noIntr_byte (b : UInt8) (is : List Item) :
    noIntr (.byte b :: is) = .byte b :: noIntr is := by
  simp [noIntr]
@[simp] theorem noIntr_intr (is : List Item) : noIntr (.err 0 :: is) = noIntr is := by
  simp [noIntr]
theorem noIntr_append (a b : List Item) : noIntr (a ++ b) = noIntr a ++ noIntr b := by
  simp [noIntr]

theorem bytesOf_append (a b : List Item) : bytesOf (a ++ b) = bytesOf a ++ bytesOf b := by
  induction a with
  | nil => rfl
  | cons x a ih => cases x <;> simp [bytesOf, ih]

theorem bytesOf_noIntr (a : List Item) : bytesOf (noIntr a) = bytesOf a := by
  induction a with
  | nil => rfl
  | cons x a ih =>
    cases x with
    | byte b => simp [bytesOf, ih]
    | err k =>
      by_cases hk : k = 0
      · subst hk; simp [bytesOf, ih]
      · simp [noIntr, hk, bytesOf] at ih ⊢; exact ih
    | pause => simp [noIntr, bytesOf] at ih ⊢; exact ih

theorem suffix_bytesOf_sublist {a b : List Item} (h : a <:+ b) : (bytesOf a).Sublist (bytesOf b) := by
  obtain ⟨t, rfl⟩ := h
  rw [bytesOf_append]
  exact List.sublist_append_right _ _

/-- going from `is` to `is'` consumed exactly the bytes `bs`, plus Interrupted errors: no other
    error, no stall in between -/
def Adv (is is' : List Item) (bs : Bytes) : Prop :=
  ∃ head, is = head ++ is' ∧ noIntr head = bytesI bs

theorem Adv.refl (is : List Item) : Adv is is [] := ⟨[], rfl, rfl⟩

theorem Adv.trans {a b c : List Item} {x y : Bytes} (h1 : Adv a b x) (h2 : Adv b c y) :
    Adv a c (x ++ y) := by
  obtain ⟨p, rfl, hp⟩ := h1
  obtain ⟨q, rfl, hq⟩ := h2
  exact ⟨p ++ q, by simp, by rw [noIntr_append, hp, hq]; simp [bytesI]⟩

theorem Adv.byte {is is' : List Item} {bs : Bytes} (b : UInt8) (h : Adv is is' bs) :
    Adv (.byte b :: is) is' (b :: bs) := by
  obtain ⟨p, rfl, hp⟩ := h
  exact ⟨.byte b :: p, rfl, by simp [hp, bytesI]⟩

theorem Adv.intr {is is' : List Item} {bs : Bytes} (h : Adv is is' bs) :
    Adv (.err 0 :: is) is' bs := by
  obtain ⟨p, rfl, hp⟩ := h
  exact ⟨.err 0 :: p, rfl, by simp [hp]⟩

theorem Adv.suffix {is is' : List Item} {bs : Bytes} (h : Adv is is' bs) : is' <:+ is := by
  obtain ⟨p, rfl, _⟩ := h
  exact List.suffix_append _ _

theorem Adv.bytesOf_eq {is is' : List Item} {bs : Bytes} (h : Adv is is' bs) :
    bytesOf is = bs ++ bytesOf is' := by
  obtain ⟨p, rfl, hp⟩ := h
  rw [bytesOf_append, ← bytesOf_noIntr p, hp, bytesOf_bytesI]

theorem Adv.of_suffix_left {a b c : List Item} {x : Bytes} (h1 : b <:+ a) (h2 : Adv b c x) :
    (x ++ bytesOf c).Sublist (bytesOf a) := by
  rw [← h2.bytesOf_eq]
  exact suffix_bytesOf_sublist h1

/-! ## The primitives on any stream -/

theorem flatSrc_readExact (is : List Item) (n : Nat) : flatSrc.readExact is n = specExact n is := rfl

theorem specExact_adv (n : Nat) (is : List Item) :
    (specExact n is).2 <:+ is ∧
    ∀ bs, (specExact n is).1 = .ok bs → Adv is (specExact n is).2 bs := by
  fun_induction specExact n is with
  | case1 is =>
    refine ⟨List.suffix_refl _, ?_⟩
    intro bs h
    simp only [RR.ok.injEq] at h
    subst h
    exact Adv.refl _
  | case2 => exact ⟨List.suffix_refl _, by simp⟩
  | case3 n b is p ih =>
    obtain ⟨h1, h2⟩ := ih
    refine ⟨h1.trans (List.suffix_cons _ _), ?_⟩
    intro bs h
    simp only at h
    cases hp : p.1 with
    | ok v =>
      rw [hp] at h
      simp only [RR.map_ok, RR.ok.injEq] at h
      subst h
      exact (h2 v hp).byte b
    | err e => rw [hp] at h; simp at h
    | blocked => rw [hp] at h; simp at h
    | panic => rw [hp] at h; simp at h
  | case4 n is ih =>
    obtain ⟨h1, h2⟩ := ih
    exact ⟨h1.trans (List.suffix_cons _ _), fun bs h => (h2 bs h).intr⟩
  | case5 => exact ⟨List.suffix_cons _ _, by simp⟩
  | case6 => exact ⟨List.suffix_refl _, by simp⟩

theorem specUntil_adv (l : Nat) (is : List Item) (acc : Bytes) :
    (specUntil l is acc).2 <:+ is ∧
    ∀ bs l', (specUntil l is acc).1 = .ok (bs, l') →
      ∃ more, bs = acc ++ more ∧ Adv is (specUntil l is acc).2 more := by
  fun_induction specUntil l is acc with
  | case1 is acc =>
    refine ⟨List.suffix_refl _, ?_⟩
    intro bs l' h
    simp only [RR.ok.injEq, Prod.mk.injEq] at h
    exact ⟨[], by simp [h.1], Adv.refl _⟩
  | case2 l acc =>
    refine ⟨List.suffix_refl _, ?_⟩
    intro bs l' h
    simp only [RR.ok.injEq, Prod.mk.injEq] at h
    exact ⟨[], by simp [h.1], Adv.refl _⟩
  | case3 l is acc =>
    refine ⟨List.suffix_cons _ _, ?_⟩
    intro bs l' h
    simp only [RR.ok.injEq, Prod.mk.injEq] at h
    exact ⟨[10], by simp [h.1], (Adv.refl _).byte 10⟩
  | case4 l b is acc hb ih =>
    obtain ⟨h1, h2⟩ := ih
    refine ⟨h1.trans (List.suffix_cons _ _), ?_⟩
    intro bs l' h
    obtain ⟨more, e1, e2⟩ := h2 bs l' h
    exact ⟨b :: more, by simp [e1], e2.byte b⟩
  | case5 l is acc ih =>
    obtain ⟨h1, h2⟩ := ih
    refine ⟨h1.trans (List.suffix_cons _ _), ?_⟩
    intro bs l' h
    obtain ⟨more, e1, e2⟩ := h2 bs l' h
    exact ⟨more, e1, e2.intr⟩
  | case6 l k is acc hk => exact ⟨List.suffix_cons _ _, by simp⟩
  | case7 l is acc => exact ⟨List.suffix_refl _, by simp⟩

/-- `read_line` on any stream: where it stops is further down the stream; a returned line is the
    raw line (with its line ending) that was consumed, stripped. -/
theorem readLine_flat_adv (is : List Item) (lim : Nat) (res : RR Bytes) (is' : List Item)
    (h : readLine flatSrc is lim = (res, is')) :
    is' <:+ is ∧ ∀ line, res = .ok line → ∃ raw, stripEol raw = some line ∧ Adv is is' raw := by
  obtain ⟨h1, h2⟩ := specUntil_adv lim is []
  unfold readLine at h
  simp only [flatSrc_readUntil] at h
  rcases hs : specUntil lim is [] with ⟨r, j⟩
  rw [hs] at h h1 h2
  cases r with
  | ok v =>
    obtain ⟨bs, l'⟩ := v
    obtain ⟨more, e1, e2⟩ := h2 bs l' rfl
    simp only [List.nil_append] at e1
    subst e1
    simp only at h
    cases hst : stripEol bs with
    | none =>
      rw [hst] at h
      simp only [Prod.mk.injEq] at h
      obtain ⟨rfl, rfl⟩ := h
      exact ⟨h1, by simp⟩
    | some line =>
      rw [hst] at h
      simp only [Prod.mk.injEq] at h
      obtain ⟨rfl, rfl⟩ := h
      refine ⟨h1, ?_⟩
      intro line' hl
      simp only [RR.ok.injEq] at hl
      subst hl
      exact ⟨bs, hst, e2⟩
  | err e =>
    simp only [Prod.mk.injEq] at h
    obtain ⟨rfl, rfl⟩ := h
    exact ⟨h1, by simp⟩
  | blocked =>
    simp only [Prod.mk.injEq] at h
    obtain ⟨rfl, rfl⟩ := h
    exact ⟨h1, by simp⟩
  | panic =>
    simp only [Prod.mk.injEq] at h
    obtain ⟨rfl, rfl⟩ := h
    exact ⟨h1, by simp⟩

/-- a line ending as `read_line_ending` accepts it -/
def EolOK (eol : Bytes) : Prop := eol = [10] ∨ eol = [13, 10]

theorem readLineEnding_flat_adv (is : List Item) (res : RR Bool) (is' : List Item)
    (h : readLineEnding flatSrc is = (res, is')) :
    is' <:+ is ∧ (res = .ok true → ∃ eol, EolOK eol ∧ Adv is is' eol) := by
  unfold readLineEnding at h
  simp only [flatSrc] at h
  obtain ⟨h1, h2⟩ := specExact_adv 1 is
  rcases hs : specExact 1 is with ⟨r, j⟩
  rw [hs] at h h1 h2
  cases r with
  | ok bs =>
    obtain ⟨b, rfl⟩ := specExact_one_ok (r := is) (by rw [hs])
    have ha := h2 [b] rfl
    simp only at h
    by_cases hb : b = 13
    · subst hb
      simp only [if_true] at h
      obtain ⟨g1, g2⟩ := specExact_adv 1 j
      rcases hs2 : specExact 1 j with ⟨r2, j2⟩
      rw [hs2] at h g1 g2
      cases r2 with
      | ok bs2 =>
        obtain ⟨b2, rfl⟩ := specExact_one_ok (r := j) (by rw [hs2])
        simp only [Prod.mk.injEq] at h
        obtain ⟨rfl, rfl⟩ := h
        refine ⟨g1.trans h1, ?_⟩
        intro hr
        simp only [RR.ok.injEq, decide_eq_true_eq] at hr
        subst hr
        exact ⟨[13, 10], .inr rfl, ha.trans (g2 [10] rfl)⟩
      | err e =>
        simp only [Prod.mk.injEq] at h
        obtain ⟨rfl, rfl⟩ := h
        exact ⟨g1.trans h1, by simp⟩
      | blocked =>
        simp only [Prod.mk.injEq] at h
        obtain ⟨rfl, rfl⟩ := h
        exact ⟨g1.trans h1, by simp⟩
      | panic =>
        simp only [Prod.mk.injEq] at h
        obtain ⟨rfl, rfl⟩ := h
        exact ⟨g1.trans h1, by simp⟩
    · simp only [hb, if_false, Prod.mk.injEq] at h
      obtain ⟨rfl, rfl⟩ := h
      refine ⟨h1, ?_⟩
      intro hr
      simp only [RR.ok.injEq, decide_eq_true_eq] at hr
      subst hr
      exact ⟨[10], .inl rfl, ha⟩
  | err e =>
    simp only [Prod.mk.injEq] at h
    obtain ⟨rfl, rfl⟩ := h
    exact ⟨h1, by simp⟩
  | blocked =>
    simp only [Prod.mk.injEq] at h
    obtain ⟨rfl, rfl⟩ := h
    exact ⟨h1, by simp⟩
  | panic =>
    simp only [Prod.mk.injEq] at h
    obtain ⟨rfl, rfl⟩ := h
    exact ⟨h1, by simp⟩

theorem stripEol_nil_eol (raw : Bytes) (h : stripEol raw = some []) : EolOK raw := by
  unfold stripEol at h
  split at h
  · rename_i r heq
    simp only [Option.some.injEq, List.reverse_eq_nil_iff] at h
    subst h
    exact .inr (by simpa using congrArg List.reverse heq)
  · rename_i r _ heq
    simp only [Option.some.injEq, List.reverse_eq_nil_iff] at h
    subst h
    exact .inl (by simpa using congrArg List.reverse heq)
  · cases h

/-- a trailer section as `skip_trailers` lets it pass: at most `MAX_TRAILER_LINES` `read_line` lines
    (each ends in LF) whose content is not empty -/
def TrailerSec (trs : Bytes) : Prop :=
  ∃ raws : List Bytes, trs = raws.flatten ∧ raws.length ≤ Consts.maxTrailerLines ∧
    ∀ raw ∈ raws, ∃ t, stripEol raw = some t ∧ t ≠ []

theorem TrailerSec.nil : TrailerSec [] := ⟨[], rfl, Nat.zero_le _, fun _ h => by simp at h⟩

/-- `skip_trailers` on any stream: `Ok(true)` only behind fewer than `k` non-empty lines and an
    empty line, all read from a clean piece of the stream -/
theorem skipTrailersLoop_flat_adv (k : Nat) : ∀ (is : List Item) (res : RR Bool) (is' : List Item),
    skipTrailersLoop flatSrc k is = (res, is') →
    is' <:+ is ∧ (res = .ok true → ∃ (raws : List Bytes) (eol : Bytes), raws.length < k ∧
      (∀ raw ∈ raws, ∃ t, stripEol raw = some t ∧ t ≠ []) ∧ EolOK eol ∧
      Adv is is' (raws.flatten ++ eol)) := by
  induction k with
  | zero =>
    intro is res is' h
    simp only [skipTrailersLoop, Prod.mk.injEq] at h
    obtain ⟨rfl, rfl⟩ := h
    exact ⟨List.suffix_refl _, by simp⟩
  | succ k ih =>
    intro is res is' h
    unfold skipTrailersLoop at h
    rcases hr : readLine flatSrc is Consts.trailerLineLimit with ⟨r, j⟩
    obtain ⟨h1, h2⟩ := readLine_flat_adv _ _ _ _ hr
    rw [hr] at h
    cases r with
    | ok line =>
      obtain ⟨raw, hst, ha⟩ := h2 line rfl
      simp only at h
      by_cases hl : line = []
      · subst hl
        simp only [if_true, Prod.mk.injEq] at h
        obtain ⟨rfl, rfl⟩ := h
        refine ⟨h1, fun _ => ⟨[], raw, Nat.succ_pos _, fun _ hx => by simp at hx,
          stripEol_nil_eol raw hst, by simpa using ha⟩⟩
      · simp only [hl, if_false] at h
        obtain ⟨g1, g2⟩ := ih _ _ _ h
        refine ⟨g1.trans h1, ?_⟩
        intro hres
        obtain ⟨raws, eol, hlen, hall, he, hae⟩ := g2 hres
        refine ⟨raw :: raws, eol, by simpa using hlen, ?_, he, ?_⟩
        · intro x hx
          rcases List.mem_cons.mp hx with rfl | hx
          · exact ⟨line, hst, hl⟩
          · exact hall x hx
        · simpa [List.append_assoc] using ha.trans hae
    | err e =>
      simp only [Prod.mk.injEq] at h
      obtain ⟨rfl, rfl⟩ := h
      exact ⟨h1, by simp⟩
    | blocked =>
      simp only [Prod.mk.injEq] at h
      obtain ⟨rfl, rfl⟩ := h
      exact ⟨h1, by simp⟩
    | panic =>
      simp only [Prod.mk.injEq] at h
      obtain ⟨rfl, rfl⟩ := h
      exact ⟨h1, by simp⟩

/-- what ends a chunk, on any stream: `Ok(true)` only behind a (possibly empty; always empty after a
    chunk that is not the last) trailer section and a line ending -/
theorem chunkEnd_flat_adv (last : Bool) (is : List Item) (res : RR Bool) (is' : List Item)
    (h : chunkEnd flatSrc last is = (res, is')) :
    is' <:+ is ∧ (res = .ok true → ∃ trs eol, TrailerSec trs ∧ (last = false → trs = []) ∧
      EolOK eol ∧ Adv is is' (trs ++ eol)) := by
  unfold chunkEnd at h
  cases last with
  | false =>
    obtain ⟨h1, h2⟩ := readLineEnding_flat_adv _ _ _ (by simpa using h)
    refine ⟨h1, fun hr => ?_⟩
    obtain ⟨eol, he, ha⟩ := h2 hr
    exact ⟨[], eol, TrailerSec.nil, fun _ => rfl, he, by simpa using ha⟩
  | true =>
    obtain ⟨h1, h2⟩ := skipTrailersLoop_flat_adv _ _ _ _ (by simpa [skipTrailers] using h)
    refine ⟨h1, fun hr => ?_⟩
    obtain ⟨raws, eol, hlen, hall, he, ha⟩ := h2 hr
    exact ⟨raws.flatten, eol, ⟨raws, rfl, by omega, hall⟩, fun hf => Bool.noConfusion hf, he, ha⟩

/-! ## The refill on any stream -/

theorem readChunkSize_flat_adv (c : Chunked (List Item)) (res : RR Nat) (c' : Chunked (List Item))
    (h : c.readChunkSize flatSrc = (res, c')) :
    c'.inner <:+ c.inner ∧ c'.failed = c.failed ∧ c'.reachedEof = c.reachedEof ∧
    c'.remaining = c.remaining ∧
    ∀ n, res = .ok n → ∃ raw l, stripEol raw = some l ∧ parseChunkSize l = .ok n ∧
      Adv c.inner c'.inner raw := by
  unfold Chunked.readChunkSize at h
  rcases hr : readLine flatSrc c.inner Consts.chunkSizeLineLimit with ⟨r, j⟩
  obtain ⟨h1, h2⟩ := readLine_flat_adv _ _ _ _ hr
  rw [hr] at h
  cases r with
  | ok line =>
    obtain ⟨raw, hst, ha⟩ := h2 line rfl
    simp only at h
    by_cases hl : line = []
    · simp only [hl, if_true, Prod.mk.injEq] at h
      obtain ⟨rfl, rfl⟩ := h
      exact ⟨h1, rfl, rfl, rfl, by simp⟩
    · simp only [hl, if_false] at h
      cases hp : parseChunkSize line with
      | ok n =>
        rw [hp] at h
        simp only [Prod.mk.injEq] at h
        obtain ⟨rfl, rfl⟩ := h
        refine ⟨h1, rfl, rfl, rfl, ?_⟩
        intro n' hn
        simp only [RR.ok.injEq] at hn
        subst hn
        exact ⟨raw, line, hst, hp, ha⟩
      | error e =>
        rw [hp] at h
        simp only [Prod.mk.injEq] at h
        obtain ⟨rfl, rfl⟩ := h
        exact ⟨h1, rfl, rfl, rfl, by simp⟩
  | err e =>
    simp only [Prod.mk.injEq] at h
    obtain ⟨rfl, rfl⟩ := h
    exact ⟨h1, rfl, rfl, rfl, by simp⟩
  | blocked =>
    simp only [Prod.mk.injEq] at h
    obtain ⟨rfl, rfl⟩ := h
    exact ⟨h1, rfl, rfl, rfl, by simp⟩
  | panic =>
    simp only [Prod.mk.injEq] at h
    obtain ⟨rfl, rfl⟩ := h
    exact ⟨h1, rfl, rfl, rfl, by simp⟩

/-- the state after a successful data refill that started at stream position `i0` with `rem0`
    bytes of the chunk outstanding: the buffer holds `min rem0 m` bytes of the stream, and if the
    chunk is complete what ends it (after the last-chunk: the trailer section `trs`; the line
    ending) was consumed too -/
def DataOK (i0 : List Item) (rem0 m : Nat) (c' : Chunked (List Item)) : Prop :=
  c'.consumed = 0 ∧ c'.buffer.length = min rem0 m ∧ c'.remaining = rem0 - min rem0 m ∧
  ((c'.remaining ≠ 0 ∧ Adv i0 c'.inner c'.buffer) ∨
   (c'.remaining = 0 ∧ ∃ trs eol, TrailerSec trs ∧ (c'.reachedEof = false → trs = []) ∧
      EolOK eol ∧ Adv i0 c'.inner (c'.buffer ++ trs ++ eol)))

theorem DataOK.adv {i0 : List Item} {rem0 m : Nat} {c' : Chunked (List Item)}
    (h : DataOK i0 rem0 m c') : ∃ t, Adv i0 c'.inner (c'.buffer ++ t) := by
  rcases h.2.2.2 with ⟨_, ha⟩ | ⟨_, trs, eol, _, _, _, ha⟩
  · exact ⟨[], by simpa using ha⟩
  · exact ⟨trs ++ eol, by simpa [List.append_assoc] using ha⟩

theorem refillData_flat_adv (c1 : Chunked (List Item)) (m : Nat) (res : RR Unit)
    (c' : Chunked (List Item)) (h : Chunked.refillData flatSrc c1 m = (res, c')) :
    c'.inner <:+ c1.inner ∧ c'.failed = c1.failed ∧
    (res = .ok () → c'.reachedEof = c1.reachedEof ∧ DataOK c1.inner c1.remaining m c') := by
  unfold Chunked.refillData at h
  simp only [flatSrc_readExact] at h
  obtain ⟨h1, h2⟩ := specExact_adv (min c1.remaining m) c1.inner
  have hlen := specExact_ok_length (min c1.remaining m) c1.inner
  rcases hs : specExact (min c1.remaining m) c1.inner with ⟨r, j⟩
  rw [hs] at h h1 h2 hlen
  cases r with
  | ok bs =>
    have ha := h2 bs rfl
    have hl := hlen bs rfl
    have hnp : ¬ c1.remaining < bs.length := by omega
    simp only [hnp, if_false] at h
    by_cases h0 : c1.remaining - bs.length = 0
    · simp only [h0, if_true] at h
      rcases hle : chunkEnd flatSrc c1.reachedEof j with ⟨r2, j2⟩
      obtain ⟨g1, g2⟩ := chunkEnd_flat_adv _ _ _ _ hle
      rw [hle] at h
      cases r2 with
      | ok b =>
        cases b with
        | true =>
          simp only [Prod.mk.injEq] at h
          obtain ⟨rfl, rfl⟩ := h
          refine ⟨g1.trans h1, rfl, ?_⟩
          intro _
          obtain ⟨trs, eol, ht, htl, he, hae⟩ := g2 rfl
          refine ⟨rfl, rfl, hl, ?_, .inr ⟨rfl, trs, eol, ht, htl, he, ?_⟩⟩
          · simp only; omega
          · simpa [List.append_assoc] using ha.trans hae
        | false =>
          simp only [Prod.mk.injEq] at h
          obtain ⟨rfl, rfl⟩ := h
          exact ⟨g1.trans h1, rfl, by simp⟩
      | err e =>
        simp only [Prod.mk.injEq] at h
        obtain ⟨rfl, rfl⟩ := h
        exact ⟨g1.trans h1, rfl, by simp⟩
      | blocked =>
        simp only [Prod.mk.injEq] at h
        obtain ⟨rfl, rfl⟩ := h
        exact ⟨g1.trans h1, rfl, by simp⟩
      | panic =>
        simp only [Prod.mk.injEq] at h
        obtain ⟨rfl, rfl⟩ := h
        exact ⟨g1.trans h1, rfl, by simp⟩
    · simp only [h0, if_false, Prod.mk.injEq] at h
      obtain ⟨rfl, rfl⟩ := h
      refine ⟨h1, rfl, ?_⟩
      intro _
      refine ⟨rfl, rfl, hl, ?_, .inl ⟨?_, ha⟩⟩
      · simp only; omega
      · simp only; omega
  | err e =>
    simp only [Prod.mk.injEq] at h
    obtain ⟨rfl, rfl⟩ := h
    exact ⟨h1, rfl, by simp⟩
  | blocked =>
    simp only [Prod.mk.injEq] at h
    obtain ⟨rfl, rfl⟩ := h
    exact ⟨h1, rfl, by simp⟩
  | panic =>
    simp only [Prod.mk.injEq] at h
    obtain ⟨rfl, rfl⟩ := h
    exact ⟨h1, rfl, by simp⟩

/-- a successful refill: either in the middle of a chunk (data only), or at a chunk boundary
    (a size line `raw` that parses to `sz`, then data) -/
def RefillOK (c : Chunked (List Item)) (m : Nat) (c' : Chunked (List Item)) : Prop :=
  (c.remaining ≠ 0 ∧ c'.reachedEof = c.reachedEof ∧ DataOK c.inner c.remaining m c') ∨
  (c.remaining = 0 ∧ ∃ raw l sz i1, stripEol raw = some l ∧ parseChunkSize l = .ok sz ∧
    Adv c.inner i1 raw ∧ c'.reachedEof = (c.reachedEof || sz == 0) ∧ DataOK i1 sz m c')

theorem refill_flat_adv (c : Chunked (List Item)) (m : Nat) (res : RR Unit)
    (c' : Chunked (List Item)) (h : c.refill flatSrc m = (res, c')) :
    c'.inner <:+ c.inner ∧ c'.failed = c.failed ∧ (res = .ok () → RefillOK c m c') := by
  unfold Chunked.refill at h
  by_cases hr : c.remaining = 0
  · simp only [hr, if_true] at h
    rcases hrc : c.readChunkSize flatSrc with ⟨r, c1⟩
    obtain ⟨h1, h2, h3, h4, h5⟩ := readChunkSize_flat_adv _ _ _ hrc
    rw [hrc] at h
    cases r with
    | ok sz =>
      simp only at h
      obtain ⟨g1, g2, g3⟩ := refillData_flat_adv _ _ _ _ h
      obtain ⟨raw, l, hst, hp, ha⟩ := h5 sz rfl
      refine ⟨g1.trans h1, g2.trans h2, ?_⟩
      intro hok
      obtain ⟨e1, e2⟩ := g3 hok
      exact .inr ⟨hr, raw, l, sz, c1.inner, hst, hp, ha, by rw [e1]; simp [h3], e2⟩
    | err e =>
      simp only [Prod.mk.injEq] at h
      obtain ⟨rfl, rfl⟩ := h
      exact ⟨h1, h2, by simp⟩
    | blocked =>
      simp only [Prod.mk.injEq] at h
      obtain ⟨rfl, rfl⟩ := h
      exact ⟨h1, h2, by simp⟩
    | panic =>
      simp only [Prod.mk.injEq] at h
      obtain ⟨rfl, rfl⟩ := h
      exact ⟨h1, h2, by simp⟩
  · simp only [hr, if_false] at h
    obtain ⟨g1, g2, g3⟩ := refillData_flat_adv _ _ _ _ h
    refine ⟨g1, g2, ?_⟩
    intro hok
    obtain ⟨e1, e2⟩ := g3 hok
    exact .inl ⟨hr, e1, e2⟩

theorem RefillOK.adv {c c' : Chunked (List Item)} {m : Nat} (h : RefillOK c m c') :
    c'.consumed = 0 ∧ ∃ pre t, Adv c.inner c'.inner (pre ++ c'.buffer ++ t) := by
  rcases h with ⟨_, _, hd⟩ | ⟨_, raw, l, sz, i1, _, _, ha, _, hd⟩
  · obtain ⟨t, ht⟩ := hd.adv
    exact ⟨hd.1, [], t, by simpa using ht⟩
  · obtain ⟨t, ht⟩ := hd.adv
    exact ⟨hd.1, raw, t, by simpa [List.append_assoc] using ha.trans ht⟩

/-! ## `fill_buf` and `read` on any stream: the four cases -/

/-- the four ways a `fill_buf` of the decoder can go, on any stream -/
theorem fillBuf_flat_cases (c : Chunked (List Item)) (m : Nat) (hc : c.consumed ≤ c.buffer.length) :
    (c.failed = true ∧ c.fillBuf flatSrc m = (.err .chunk, c)) ∨
    (c.failed = false ∧ ¬ (c.buffer.length = c.consumed ∧ ¬ (c.remaining = 0 ∧ c.reachedEof)) ∧
      c.fillBuf flatSrc m = (.ok (avail c), c)) ∨
    (c.failed = false ∧ (c.buffer.length = c.consumed ∧ ¬ (c.remaining = 0 ∧ c.reachedEof)) ∧
      ∃ c', c.fillBuf flatSrc m = (.ok (avail c'), c') ∧ c'.failed = false ∧ RefillOK c m c') ∨
    (c.failed = false ∧ (c.buffer.length = c.consumed ∧ ¬ (c.remaining = 0 ∧ c.reachedEof)) ∧
      ∃ res c', c.fillBuf flatSrc m = (res, c') ∧ res.Bad ∧ c'.failed = true ∧ c'.buffer = [] ∧
        c'.consumed = 0 ∧ c'.inner <:+ c.inner) := by
  cases hf : c.failed with
  | true => exact .inl ⟨rfl, fillBuf_failed _ _ _ hf⟩
  | false =>
    by_cases hcond : c.buffer.length = c.consumed ∧ ¬ (c.remaining = 0 ∧ c.reachedEof)
    · have hnp := (refill_flat_ne_panic c m).1
      rcases hr : c.refill flatSrc m with ⟨res, c'⟩
      obtain ⟨h1, h2, h3⟩ := refill_flat_adv _ _ _ _ hr
      rw [hr] at hnp
      cases res with
      | ok u =>
        have hro := h3 rfl
        refine .inr (.inr (.inl ⟨rfl, hcond, c', ?_, by rw [h2, hf], hro⟩))
        exact fillBuf_refill_ok _ _ _ m hf hcond hr (by rw [hro.adv.1]; exact Nat.zero_le _)
      | err e =>
        refine .inr (.inr (.inr ⟨rfl, hcond, .err e, { c' with failed := true, buffer := [], consumed := 0 }, ?_, .inl ⟨e, rfl⟩, rfl, rfl, rfl, h1⟩))
        rw [fillBuf_refill _ _ _ hf hcond, hr]
      | blocked =>
        refine .inr (.inr (.inr ⟨rfl, hcond, .blocked, { c' with failed := true, buffer := [], consumed := 0 }, ?_, .inr rfl, rfl, rfl, rfl, h1⟩))
        rw [fillBuf_refill _ _ _ hf hcond, hr]
      | panic => exact absurd rfl hnp
    · exact .inr (.inl ⟨rfl, hcond, by rw [fillBuf_noRefill _ _ _ hf hcond hc]; rfl⟩)

theorem take_append_drop_min {α : Type} (l : List α) (n : Nat) :
    l.take n ++ l.drop (l.take n).length = l := by
  rw [List.length_take]
  by_cases h : n ≤ l.length
  · rw [Nat.min_eq_left h, List.take_append_drop]
  · rw [Nat.min_eq_right (by omega), List.drop_eq_nil_of_le (Nat.le_refl _),
      List.take_of_length_le (by omega), List.append_nil]

/-- the four ways a `read` of the decoder can go, on any stream -/
theorem read_flat_cases (c : Chunked (List Item)) (m n : Nat) (hc : c.consumed ≤ c.buffer.length) :
    (c.failed = true ∧ c.read flatSrc m n = (.err .chunk, c)) ∨
    (c.failed = false ∧ ¬ (c.buffer.length = c.consumed ∧ ¬ (c.remaining = 0 ∧ c.reachedEof)) ∧
      c.read flatSrc m n = (.ok ((avail c).take n), c.consume ((avail c).take n).length)) ∨
    (c.failed = false ∧ (c.buffer.length = c.consumed ∧ ¬ (c.remaining = 0 ∧ c.reachedEof)) ∧
      ∃ c', c.read flatSrc m n = (.ok ((avail c').take n), c'.consume ((avail c').take n).length) ∧
        c'.failed = false ∧ RefillOK c m c') ∨
    (c.failed = false ∧ (c.buffer.length = c.consumed ∧ ¬ (c.remaining = 0 ∧ c.reachedEof)) ∧
      ∃ res c', c.read flatSrc m n = (res, c') ∧ res.Bad ∧ c'.failed = true ∧ c'.buffer = [] ∧
        c'.consumed = 0 ∧ c'.inner <:+ c.inner) := by
  rcases fillBuf_flat_cases c m hc with ⟨hf, h⟩ | ⟨hf, hcond, h⟩ | ⟨hf, hcond, c', h, hf', hro⟩ |
      ⟨hf, hcond, res, c', h, hb, h1, h2, h3, h4⟩
  · exact .inl ⟨hf, read_of_fillBuf_err _ _ _ _ _ _ h⟩
  · exact .inr (.inl ⟨hf, hcond, read_of_fillBuf _ _ _ _ n _ h⟩)
  · exact .inr (.inr (.inl ⟨hf, hcond, c', read_of_fillBuf _ _ _ _ n _ h, hf', hro⟩))
  · refine .inr (.inr (.inr ⟨hf, hcond, res, c', ?_, hb, h1, h2, h3, h4⟩))
    rcases hb with ⟨e, rfl⟩ | rfl
    · exact read_of_fillBuf_err _ _ _ _ _ _ h
    · exact read_of_fillBuf_blocked _ _ _ _ _ h

/-! ## (U1) nothing fabricated -/

/-- the bytes a result hands to the caller -/
def rbytes : RR Bytes → Bytes
  | .ok bs => bs
  | _ => []

theorem delivered_cons (r : RR Bytes) (rs : List (RR Bytes)) :
    delivered (r :: rs) = rbytes r ++ delivered rs := by
  cases r <;> simp [delivered, rbytes]

/-- everything the decoder can still hand out: the unread part of its buffer, then the bytes of
    the stream -/
def pot (c : Chunked (List Item)) : Bytes := avail c ++ bytesOf c.inner

theorem pot_fresh (is : List Item) : pot (fresh is) = bytesOf is := by
  simp [pot, avail, fresh]

theorem pot_take_consume (c : Chunked (List Item)) (n : Nat) :
    (avail c).take n ++ pot (c.consume ((avail c).take n).length) = pot c := by
  unfold pot
  rw [avail_consume, ← List.append_assoc, take_append_drop_min]
  rfl

/-- one `read` hands out bytes from the front of what was available, in order -/
theorem read_pot (c : Chunked (List Item)) (m n : Nat) (hc : c.consumed ≤ c.buffer.length) :
    (rbytes (c.read flatSrc m n).1 ++ pot (c.read flatSrc m n).2).Sublist (pot c) := by
  rcases read_flat_cases c m n hc with ⟨_, h⟩ | ⟨_, _, h⟩ | ⟨_, hcond, c', h, _, hro⟩ |
      ⟨_, hcond, res, c', h, hb, _, h2, h3, h4⟩
  · rw [h]; exact List.Sublist.refl _
  · rw [h]; simp only [rbytes]; rw [pot_take_consume]; exact List.Sublist.refl _
  · rw [h]; simp only [rbytes]; rw [pot_take_consume]
    have hav : avail c = [] := (avail_eq_nil_iff c hc).mpr hcond.1
    obtain ⟨h0, pre, t, ha⟩ := hro.adv
    have hav' : avail c' = c'.buffer := by simp [avail, h0]
    simp only [pot, hav, hav', List.nil_append]
    rw [ha.bytesOf_eq, List.append_assoc, List.append_assoc]
    exact (List.sublist_append_right pre _).trans
      ((List.sublist_append_right t _).append_left _ |>.append_left _)
  · rw [h]
    have hr : rbytes res = [] := by rcases hb with ⟨e, rfl⟩ | rfl <;> rfl
    have hav' : avail c' = [] := by simp [avail, h2]
    simp only [hr, pot, hav', List.nil_append]
    exact (suffix_bytesOf_sublist h4).trans (List.sublist_append_right _ _)

theorem any_sublist_run (m : Nat) (ns : List Nat) : ∀ (c : Chunked (List Item)),
    c.consumed ≤ c.buffer.length →
    ∀ i, (delivered ((readsC flatSrc m ns c).1.take i)).Sublist (pot c) := by
  induction ns with
  | nil => intro c _ i; simp [readsC, delivered]
  | cons n ns ih =>
    intro c hc i
    cases i with
    | zero => simp [delivered]
    | succ i =>
      rw [readsC_cons, List.take_succ_cons, delivered_cons]
      exact ((ih _ (read_flat_ne_panic c m n hc).2 i).append_left _).trans (read_pot c m n hc)

/-! ## (U2) a failure is latched -/

theorem read_flat_not_ok_failed (c : Chunked (List Item)) (m n : Nat)
    (hc : c.consumed ≤ c.buffer.length) (h : ∀ bs, (c.read flatSrc m n).1 ≠ .ok bs) :
    (c.read flatSrc m n).2.failed = true := by
  rcases read_flat_cases c m n hc with ⟨hf, e⟩ | ⟨_, _, e⟩ | ⟨_, _, c', e, _, _⟩ |
      ⟨_, _, res, c', e, _, h1, _⟩
  · rw [e]; exact hf
  · rw [e] at h; exact absurd rfl (h _)
  · rw [e] at h; exact absurd rfl (h _)
  · rw [e]; exact h1

theorem any_latched_run (m : Nat) (ns : List Nat) : ∀ (c : Chunked (List Item)),
    c.consumed ≤ c.buffer.length → Latched (readsC flatSrc m ns c).1 := by
  induction ns with
  | nil => intro c _ i j _ hj; simp [readsC] at hj
  | cons n ns ih =>
    intro c hc
    rw [readsC_cons]
    have hc' := (read_flat_ne_panic c m n hc).2
    cases hr : (c.read flatSrc m n).1 with
    | ok out => exact (ih _ hc').cons_ok out
    | err e =>
      refine Latched.of_noOk _ _ (fun x hx bs => ?_)
      rw [failed_run _ m ns _ (read_flat_not_ok_failed c m n hc (by simp [hr])) x hx]; simp
    | blocked =>
      refine Latched.of_noOk _ _ (fun x hx bs => ?_)
      rw [failed_run _ m ns _ (read_flat_not_ok_failed c m n hc (by simp [hr])) x hx]; simp
    | panic =>
      refine Latched.of_noOk _ _ (fun x hx bs => ?_)
      rw [failed_run _ m ns _ (read_flat_not_ok_failed c m n hc (by simp [hr])) x hx]; simp

/-! ## (U3) a clean end needs the terminator -/

/-- the stream really contains, free of errors other than Interrupted ones up to that point, a
    chunk-size line that parses to 0 followed by a trailer section (possibly empty: at most
    `MAX_TRAILER_LINES` lines with non-empty content) and a line ending (the empty line) -/
def TermT (rest : List Item) : Prop :=
  ∃ (pre line trs eol : Bytes) (post : List Item), Adv rest post (pre ++ line ++ trs ++ eol) ∧
    (∃ l, stripEol line = some l ∧ parseChunkSize l = .ok 0) ∧ TrailerSec trs ∧ EolOK eol

/-- as long as the decoder has not failed, what it consumed of `rest` is clean (`Adv`), and it
    believes to be at the end only if the terminator was there -/
def KInv (rest : List Item) (c : Chunked (List Item)) : Prop :=
  c.failed = false →
    (∃ bs, Adv rest c.inner bs) ∧ (c.reachedEof = true → c.remaining = 0 ∧ TermT rest)

theorem KInv.fresh (rest : List Item) : KInv rest (fresh rest) :=
  fun _ => ⟨⟨[], Adv.refl _⟩, fun h => by simp [Atto.fresh] at h⟩

theorem KInv.consume {rest : List Item} {c : Chunked (List Item)} (h : KInv rest c) (k : Nat) :
    KInv rest (c.consume k) := h

/-- a size line that parses to 0, read at a clean position, then a data refill: the terminator -/
theorem term_of_zero {rest : List Item} {c c' : Chunked (List Item)} {bs raw l : Bytes} {m : Nat}
    {i1 : List Item} (ha0 : Adv rest c.inner bs) (hst : stripEol raw = some l)
    (hp : parseChunkSize l = .ok 0) (ha : Adv c.inner i1 raw) (hd : DataOK i1 0 m c') :
    c'.remaining = 0 ∧ TermT rest := by
  obtain ⟨_, hlen, hrem, hcase⟩ := hd
  have hb : c'.buffer = [] := List.length_eq_zero_iff.mp (by rw [hlen]; simp)
  have hr0 : c'.remaining = 0 := by rw [hrem]; simp
  refine ⟨hr0, ?_⟩
  rcases hcase with ⟨hne, _⟩ | ⟨_, trs, eol, ht, _, he, hae⟩
  · exact absurd hr0 hne
  · rw [hb, List.nil_append] at hae
    refine ⟨bs, raw, trs, eol, c'.inner, ?_, ⟨l, hst, hp⟩, ht, he⟩
    simpa [List.append_assoc] using (ha0.trans ha).trans hae

/-- one `read`: the invariant is kept, and `Ok(0)` on a non-empty caller buffer means that the
    terminator is in the stream -/
theorem read_clean (rest : List Item) (c : Chunked (List Item)) (m n : Nat) (hm : 0 < m)
    (hc : c.consumed ≤ c.buffer.length) (hk : KInv rest c) :
    KInv rest (c.read flatSrc m n).2 ∧
    (0 < n → (c.read flatSrc m n).1 = .ok [] → TermT rest) := by
  rcases read_flat_cases c m n hc with ⟨hf, e⟩ | ⟨hf, hcond, e⟩ | ⟨hf, hcond, c', e, hf', hro⟩ |
      ⟨_, _, res, c', e, hb, h1, _⟩
  · rw [e]; exact ⟨hk, by simp⟩
  · rw [e]
    refine ⟨hk.consume _, ?_⟩
    intro hn hout
    simp only [RR.ok.injEq] at hout
    have hav : avail c = [] := by
      cases hx : avail c with
      | nil => rfl
      | cons x xs =>
        rw [hx] at hout
        obtain ⟨k, rfl⟩ : ∃ k, n = k + 1 := ⟨n - 1, by omega⟩
        simp at hout
    have hlen := (avail_eq_nil_iff c hc).mp hav
    have : c.remaining = 0 ∧ c.reachedEof = true := by
      by_cases h : c.remaining = 0 ∧ c.reachedEof = true
      · exact h
      · exact absurd ⟨hlen, h⟩ hcond
    exact ((hk hf).2 this.2).2
  · rw [e]
    obtain ⟨⟨bs, ha0⟩, hke⟩ := hk hf
    have heof : c.reachedEof = false := by
      cases he : c.reachedEof with
      | false => rfl
      | true => exact absurd ⟨(hke he).1, he⟩ hcond.2
    -- facts about the refilled state
    have key : (∃ bs', Adv rest c'.inner bs') ∧ (c'.reachedEof = true → c'.remaining = 0 ∧ TermT rest) ∧
        (c'.buffer = [] → TermT rest) := by
      rcases hro with ⟨hrem, he', hd⟩ | ⟨hrem, raw, l, sz, i1, hst, hp, ha, he', hd⟩
      · obtain ⟨t, ht⟩ := hd.adv
        refine ⟨⟨_, ha0.trans ht⟩, ?_, ?_⟩
        · intro h; rw [he', heof] at h; cases h
        · intro hb
          have := hd.2.1
          rw [hb] at this
          simp only [List.length_nil] at this
          omega
      · obtain ⟨t, ht⟩ := hd.adv
        have hz : sz = 0 → c'.remaining = 0 ∧ TermT rest := by
          intro h0; subst h0; exact term_of_zero ha0 hst hp ha hd
        refine ⟨⟨_, (ha0.trans ha).trans ht⟩, ?_, ?_⟩
        · intro h
          rw [he', heof] at h
          exact hz (by simpa using h)
        · intro hb
          have := hd.2.1
          rw [hb] at this
          simp only [List.length_nil] at this
          exact (hz (by omega)).2
    obtain ⟨k1, k2, k3⟩ := key
    refine ⟨fun _ => ⟨k1, k2⟩, ?_⟩
    intro hn hout
    simp only [RR.ok.injEq] at hout
    have hav : avail c' = [] := by
      cases hx : avail c' with
      | nil => rfl
      | cons x xs =>
        rw [hx] at hout
        obtain ⟨k, rfl⟩ : ∃ k, n = k + 1 := ⟨n - 1, by omega⟩
        simp at hout
    have h0 := hro.adv.1
    exact k3 (by simpa [avail, h0] using hav)
  · rw [e]
    refine ⟨?_, ?_⟩
    · intro hf
      simp only at hf
      rw [h1] at hf
      cases hf
    intro _ hout
    simp only at hout
    exact absurd hout (hb.ne_ok [])

theorem any_clean_end_run (rest : List Item) (m : Nat) (hm : 0 < m) (ns : List Nat) :
    ∀ (c : Chunked (List Item)), c.consumed ≤ c.buffer.length → KInv rest c →
    ∀ i (hi : i < ns.length), 0 < ns[i] → (readsC flatSrc m ns c).1[i]? = some (.ok []) →
      TermT rest := by
  induction ns with
  | nil => intro c _ _ i hi; simp at hi
  | cons n ns ih =>
    intro c hc hk i hi hn hev
    obtain ⟨k1, k2⟩ := read_clean rest c m n hm hc hk
    rw [readsC_cons] at hev
    cases i with
    | zero =>
      simp only [List.getElem_cons_zero] at hn
      simp only [List.getElem?_cons_zero, Option.some.injEq] at hev
      exact k2 hn hev
    | succ i =>
      simp only [List.getElem_cons_succ] at hn
      simp only [List.getElem?_cons_succ] at hev
      exact ih _ (read_flat_ne_panic c m n hc).2 k1 i (by simpa using hi) hn hev

/-! ## Interrupted errors are invisible: a clean end behind one -/

theorem readLine_flat_intr (X : List Item) (l : Nat) :
    readLine flatSrc (.err 0 :: X) (l + 1) = readLine flatSrc X (l + 1) := by
  unfold readLine
  simp only [flatSrc_readUntil]
  rw [show specUntil (l + 1) (.err 0 :: X) [] = specUntil (l + 1) X [] by simp [specUntil]]

theorem readChunkSize_fresh_intr (X : List Item) :
    (fresh (.err 0 :: X)).readChunkSize flatSrc = (fresh X).readChunkSize flatSrc := by
  unfold Chunked.readChunkSize
  rw [show (fresh (.err 0 :: X)).inner = .err 0 :: X from rfl,
    show Consts.chunkSizeLineLimit = 127 + 1 from rfl, readLine_flat_intr]
  rfl

theorem refill_fresh (Z : List Item) (m : Nat) :
    Chunked.refill flatSrc (fresh Z) m =
      match (fresh Z).readChunkSize flatSrc with
      | (.ok n, c') =>
        Chunked.refillData flatSrc { c' with remaining := n, reachedEof := c'.reachedEof || n == 0 } m
      | (.err e, c') => (.err e, c')
      | (.blocked, c') => (.blocked, c')
      | (.panic, c') => (.panic, c') := by
  unfold Chunked.refill
  rw [if_pos (show (fresh Z).remaining = 0 from rfl)]
  rcases Chunked.readChunkSize flatSrc (fresh Z) with ⟨r, c'⟩
  cases r <;> rfl

/-- an Interrupted error in front of the stream changes nothing for a fresh decoder -/
theorem read_fresh_intr (X : List Item) (m n : Nat) :
    ((fresh (.err 0 :: X)).read flatSrc m n).1 = ((fresh X).read flatSrc m n).1 := by
  have hc : ∀ Z : List Item, (fresh Z).buffer.length = (fresh Z).consumed ∧
      ¬ ((fresh Z).remaining = 0 ∧ (fresh Z).reachedEof) := fun Z => by simp [fresh]
  have hfb : ((fresh (.err 0 :: X)).fillBuf flatSrc m).1 = ((fresh X).fillBuf flatSrc m).1 := by
    rw [fillBuf_refill _ _ _ rfl (hc _), fillBuf_refill _ _ _ rfl (hc _), refill_fresh, refill_fresh,
      readChunkSize_fresh_intr]
  unfold Chunked.read
  rcases h1 : (fresh (.err 0 :: X)).fillBuf flatSrc m with ⟨r1, c1⟩
  rcases h2 : (fresh X).fillBuf flatSrc m with ⟨r2, c2⟩
  rw [h1, h2] at hfb
  simp only at hfb
  subst hfb
  cases r1 <;> rfl

/-- `Ok(0)` is reported by the first read on a last-chunk (with its trailer section, if any) -/
theorem last_clean_end (last : LastS) (hl : last.WF Consts.chunkSizeLineLimit)
    (trail : List Item) (m n : Nat) :
    ((fresh (bytesI last.enc ++ trail)).read flatSrc m n).1 = .ok [] := by
  have hrep : Rep (fresh (bytesI last.enc ++ trail)) [] (bytesI last.enc ++ trail) := by
    have := rep_fresh [] (by simp) (bytesI last.enc ++ trail)
    simpa [encChunks, payloadOf, bytesI] using this
  exact (step_last _ last hl trail m n hrep).1

/-- `Ok(0)` is reported on `Interrupted, 0 CRLF CRLF`: the decoder does not see the error -/
theorem intr_then_last_clean_end (last : LastS) (hl : last.WF Consts.chunkSizeLineLimit)
    (trail : List Item) (m n : Nat) :
    ((fresh (.err 0 :: (bytesI last.enc ++ trail))).read flatSrc m n).1 = .ok [] := by
  rw [read_fresh_intr]
  exact last_clean_end last hl trail m n

/-- three consecutive pieces of a list, recovered by their lengths -/
theorem split3 (pre line eol t : Bytes) :
    ((pre ++ line ++ eol ++ t).drop pre.length).take line.length = line ∧
    ((pre ++ line ++ eol ++ t).drop (pre.length + line.length)).take eol.length = eol := by
  constructor
  · simp [List.append_assoc]
  · rw [List.append_assoc, List.append_assoc, ← List.drop_drop]
    simp

/-! ## Why `0 < maxBuf` is needed for (U3) -/

/-- with `MAX_BUFFER_LEN = 0` the decoder would report `Ok(0)` right after the size line of a
    non-empty chunk (`buffer.resize(min(remaining, 0))`) -/
theorem maxbuf_zero_clean_end (sr ext : Bytes) (n : Nat) (Y : List Item) (hs : SizeOK sr ext n)
    (hn : n ≠ 0) (k : Nat) :
    ((fresh (bytesI (sr ++ ext ++ [13, 10]) ++ Y)).read flatSrc 0 k).1 = .ok [] := by
  have hc : (fresh (bytesI (sr ++ ext ++ [13, 10]) ++ Y)).buffer.length =
      (fresh (bytesI (sr ++ ext ++ [13, 10]) ++ Y)).consumed ∧
      ¬ ((fresh (bytesI (sr ++ ext ++ [13, 10]) ++ Y)).remaining = 0 ∧
        (fresh (bytesI (sr ++ ext ++ [13, 10]) ++ Y)).reachedEof) := by simp [fresh]
  have hrc := readChunkSize_ok (fresh (bytesI (sr ++ ext ++ [13, 10]) ++ Y)) sr ext n Y hs rfl
  have hrf : (fresh (bytesI (sr ++ ext ++ [13, 10]) ++ Y)).refill flatSrc 0 =
      (.ok (), { inner := Y, buffer := [], consumed := 0, remaining := n, reachedEof := false,
                 failed := false }) := by
    rw [refill_fresh, hrc]
    simp [Chunked.refillData, flatSrc_readExact, hn, fresh]
  rw [read_of_fillBuf _ _ _ _ k _ (fillBuf_refill_ok _ _ _ 0 rfl hc hrf (by simp))]
  simp [avail]

theorem stripEol_some_mem (raw l : Bytes) (h : stripEol raw = some l) : (10 : UInt8) ∈ raw := by
  unfold stripEol at h
  split at h
  · rename_i r heq; exact List.mem_reverse.mp (by rw [heq]; simp)
  · rename_i r _ heq; exact List.mem_reverse.mp (by rw [heq]; simp)
  · cases h

/-- the terminator holds two LFs -/
theorem TermT.two_lf {rest : List Item} (h : TermT rest) : 2 ≤ (bytesOf rest).count 10 := by
  obtain ⟨pre, line, trs, eol, post, ha, ⟨l, hst, _⟩, _, he⟩ := h
  rw [ha.bytesOf_eq]
  simp only [List.count_append]
  have h1 : 1 ≤ line.count 10 := List.one_le_count_iff.mpr (stripEol_some_mem _ _ hst)
  have h2 : 1 ≤ eol.count 10 := by
    rcases he with rfl | rfl <;> decide
  omega

/-! ## The same at the level of caller-visible events, through the BufReader model -/

section events
variable (r1 : BufR) (hok : r1.Ok) (maxBuf : Nat) (ns : List Nat)
include hok

theorem reads_chunked_flat' :
    (reads maxBuf ns (Body.new .chunked r1)).1 =
      (readsC flatSrc maxBuf ns (fresh r1.flat)).1.map Ev.ofRR :=
  reads_chunked_flat r1 hok maxBuf ns

theorem chunked_any_sublist_ev :
    let evs := (reads maxBuf ns (Body.new .chunked r1)).1
    (∀ i, (deliveredEv (evs.take i)).Sublist (bytesOf r1.flat)) ∧ (∀ e ∈ evs, e ≠ .panic) := by
  intro evs
  have he : evs = (readsC flatSrc maxBuf ns (fresh r1.flat)).1.map Ev.ofRR :=
    reads_chunked_flat' r1 hok maxBuf ns
  rw [he]
  refine ⟨?_, ?_⟩
  · intro i
    rw [deliveredEv_take_map, ← pot_fresh]
    exact any_sublist_run maxBuf ns _ (Nat.le_refl _) i
  · intro e hmem
    obtain ⟨x, hx, rfl⟩ := List.mem_map.1 hmem
    have := chunked_no_panic [] maxBuf ns (fresh r1.flat) (Nat.le_refl _) x hx
    cases x <;> simp_all [Ev.ofRR]

theorem chunked_any_latched_ev :
    let evs := (reads maxBuf ns (Body.new .chunked r1)).1
    ∀ i j, i ≤ j → j < evs.length → (∀ bs, evs[i]? ≠ some (.ok bs)) →
      (∀ bs, evs[j]? ≠ some (.ok bs)) := by
  intro evs
  have he : evs = (readsC flatSrc maxBuf ns (fresh r1.flat)).1.map Ev.ofRR :=
    reads_chunked_flat' r1 hok maxBuf ns
  rw [he]
  have h4 := any_latched_run maxBuf ns (fresh r1.flat) (Nat.le_refl _)
  intro i j hij hj hi bs hb
  rw [List.length_map] at hj
  refine h4 i j hij hj ?_ bs ((getElem?_map_ofRR_ok _ j bs).1 hb)
  intro bs' hb'
  exact hi bs' ((getElem?_map_ofRR_ok _ i bs').2 hb')

theorem chunked_any_clean_end_ev (hmb : 0 < maxBuf) :
    let evs := (reads maxBuf ns (Body.new .chunked r1)).1
    ∀ i (hi : i < ns.length), 0 < ns[i] → evs[i]? = some (.ok []) → TermT r1.flat := by
  intro evs
  have he : evs = (readsC flatSrc maxBuf ns (fresh r1.flat)).1.map Ev.ofRR :=
    reads_chunked_flat' r1 hok maxBuf ns
  rw [he]
  intro i hi hn hev
  exact any_clean_end_run r1.flat maxBuf hmb ns _ (Nat.le_refl _) (KInv.fresh _) i hi hn
    ((getElem?_map_ofRR_ok _ i []).1 hev)

end events

end Atto
