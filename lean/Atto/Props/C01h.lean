/-
  Atto/Props/C01h.lean — the "bytes / write_to / text helpers" clause of C01 and the "convenience
  readers return Err" clause of C02.  `drain maxBuf sz body` models `Response::bytes()`,
  `write_to()` (an `io::copy` loop) and `text_utf8()` (`read_to_end`): read with a positive buffer
  size `sz` until `Ok(0)`, retrying Interrupted.  Stated on the real pipeline model exactly like
  `C01_chunked` etc.: `parseResponse` over an arbitrary well-formed scripted transport `t`
  (constrained only through `flatT t`), any BufReader capacity `cap > 0`, any chunk-buffer bound
  `maxBuf > 0`, and EVERY positive internal read size `sz` of the helper.
-/
import Atto.Lemmas.Drain
import Atto.Lemmas.ExampleData
namespace Atto

local notation "L" => Consts.maxLineLen
local notation "CL" => Consts.chunkSizeLineLimit

/-- (a) chunked framing: the helpers return exactly the concatenated chunk data (nothing of the
    framing, nothing of the garbage `trail` after the frame), whatever their buffer size. -/
theorem C01_drain_chunked (h : HeadS) (cs : List ChunkS) (last : LastS) (trail : List Item)
    (t : Transport) (cap maxBuf mh : Nat) (m : Method) (sz : Nat)
    (hwf : wfT t) (hcap : 0 < cap) (hmb : 0 < maxBuf) (hsz : 0 < sz) (hh : h.WF L)
    (hcs : ∀ c ∈ cs, c.WF CL) (hl : last.WF CL)
    (hmh : h.fields.length ≤ mh) (hms : h.fields.length ≤ Headers.maxSize)
    (hnb : bodyless m h.code = false) (hch : isChunked h.seen = true)
    (hflat : flatT t = bytesI (h.render ++ encChunks cs ++ last.enc) ++ trail) :
    ∃ resp, parseResponse m mh cap t = .ok resp ∧
      (drain maxBuf sz resp.body).1 = .ok (payloadOf cs) := by
  have hflat' : flatT t = bytesI h.render ++ (bytesI (encChunks cs ++ last.enc) ++ trail) := by
    rw [hflat]; simp [bytesI]
  obtain ⟨r1, hok, hfl, hp⟩ := parseResponse_of_head h hh _ t cap mh hwf hcap hmh hms hflat'
  refine ⟨_, hp m _ (chooseFraming_chunked m h.code h.seen hnb hch), ?_⟩
  exact Dr.drain_chunked_complete maxBuf sz hsz r1 hok hmb cs hcs last hl trail hfl

/-- non-vacuity: the data of `C01_chunked`'s example, helper buffer of 3 bytes -/
example := C01_drain_chunked Ex.headTE Ex.chunks Ex.last [.byte 7, .pause]
  (Ex.seg (Ex.headTE.render ++ encChunks Ex.chunks ++ Ex.last.enc) ++ [.data [7], .pause]) 8 4 100 .get
  3
  (by decide +kernel) (by decide) (by decide) (by decide) (by decide +kernel) (by decide +kernel)
  (by decide +kernel) (by decide +kernel) (by decide +kernel) (by decide +kernel) (by decide +kernel)
  (by decide +kernel)

/-- non-vacuity, with a trailer section behind the last-chunk (skipped: not part of the bytes) -/
example := C01_drain_chunked Ex.headTE Ex.chunks Ex.lastT [.byte 7, .pause]
  (Ex.seg (Ex.headTE.render ++ encChunks Ex.chunks ++ Ex.lastT.enc) ++ [.data [7], .pause]) 8 4 100 .get
  3
  (by decide +kernel) (by decide) (by decide) (by decide) (by decide +kernel) (by decide +kernel)
  (by decide +kernel) (by decide +kernel) (by decide +kernel) (by decide +kernel) (by decide +kernel)
  (by decide +kernel)

/-- (b) `Content-Length` framing: the helpers return exactly the `Content-Length` octets. -/
theorem C01_drain_length (h : HeadS) (body : Bytes) (trail : List Item)
    (t : Transport) (cap maxBuf mh : Nat) (m : Method) (sz : Nat)
    (hwf : wfT t) (hcap : 0 < cap) (hsz : 0 < sz) (hh : h.WF L)
    (hmh : h.fields.length ≤ mh) (hms : h.fields.length ≤ Headers.maxSize)
    (hnb : bodyless m h.code = false) (hch : isChunked h.seen = false)
    (hcl : isContentLength h.seen = .ok (some body.length))
    (hflat : flatT t = bytesI (h.render ++ body) ++ trail) :
    ∃ resp, parseResponse m mh cap t = .ok resp ∧
      (drain maxBuf sz resp.body).1 = .ok body := by
  have hflat' : flatT t = bytesI h.render ++ (bytesI body ++ trail) := by
    rw [hflat]; simp [bytesI]
  obtain ⟨r1, hok, hfl, hp⟩ := parseResponse_of_head h hh _ t cap mh hwf hcap hmh hms hflat'
  refine ⟨_, hp m _ (chooseFraming_length m h.code h.seen _ hnb hch hcl), ?_⟩
  exact Dr.drain_clean maxBuf sz hsz (.length r1 body.length) body ⟨hok, rfl, trail, hfl⟩

/-- non-vacuity: `Content-Length: 11`, body `hello world`, then garbage and a stall -/
example := C01_drain_length Ex.headCL Ex.body [.byte 7, .pause]
  (Ex.seg (Ex.headCL.render ++ Ex.body) ++ [.data [7], .pause]) 8 4 100 .get
  3
  (by decide +kernel) (by decide) (by decide) (by decide +kernel) (by decide +kernel)
  (by decide +kernel) (by decide +kernel) (by decide +kernel) (by decide +kernel) (by decide +kernel)

/-- (c) close-delimited framing: the helpers return everything up to EOF. -/
theorem C01_drain_close (h : HeadS) (body : Bytes)
    (t : Transport) (cap maxBuf mh : Nat) (m : Method) (sz : Nat)
    (hwf : wfT t) (hcap : 0 < cap) (hsz : 0 < sz) (hh : h.WF L)
    (hmh : h.fields.length ≤ mh) (hms : h.fields.length ≤ Headers.maxSize)
    (hnb : bodyless m h.code = false) (hch : isChunked h.seen = false)
    (hcl : isContentLength h.seen = .ok none)
    (hflat : flatT t = bytesI (h.render ++ body)) :
    ∃ resp, parseResponse m mh cap t = .ok resp ∧
      (drain maxBuf sz resp.body).1 = .ok body := by
  have hflat' : flatT t = bytesI h.render ++ bytesI body := by
    rw [hflat]; simp [bytesI]
  obtain ⟨r1, hok, hfl, hp⟩ := parseResponse_of_head h hh _ t cap mh hwf hcap hmh hms hflat'
  refine ⟨_, hp m _ (chooseFraming_close m h.code h.seen hnb hch hcl), ?_⟩
  exact Dr.drain_clean maxBuf sz hsz (.close r1) body ⟨hok, hfl⟩

/-- non-vacuity: an HTTP/1.0 404 without framing headers, body up to EOF -/
example := C01_drain_close Ex.headClose Ex.body
  (Ex.seg (Ex.headClose.render ++ Ex.body)) 8 4 100 .get
  3
  (by decide +kernel) (by decide) (by decide) (by decide +kernel) (by decide +kernel)
  (by decide +kernel) (by decide +kernel) (by decide +kernel) (by decide +kernel) (by decide +kernel)

/-- The three complete framings of (a)–(c), as one hypothesis on the head and the flat stream. -/
def CompleteFrame (h : HeadS) (t : Transport) : Prop :=
  (∃ (cs : List ChunkS) (last : LastS) (trail : List Item),
      (∀ c ∈ cs, c.WF CL) ∧ last.WF CL ∧ isChunked h.seen = true ∧
      flatT t = bytesI (h.render ++ encChunks cs ++ last.enc) ++ trail) ∨
  (∃ (body : Bytes) (trail : List Item),
      isChunked h.seen = false ∧ isContentLength h.seen = .ok (some body.length) ∧
      flatT t = bytesI (h.render ++ body) ++ trail) ∨
  (∃ body : Bytes,
      isChunked h.seen = false ∧ isContentLength h.seen = .ok none ∧
      flatT t = bytesI (h.render ++ body))

/-- (d) the helpers' internal buffer sizes do not matter: for the three complete framings two
    helpers with any positive read sizes `sz1`, `sz2` (`io::copy`'s 8 KiB stack buffer,
    `read_to_end`'s adaptive probes, …) return the same bytes. -/
theorem C01_drain_size_indep (h : HeadS) (t : Transport) (cap maxBuf mh : Nat) (m : Method)
    (sz1 sz2 : Nat)
    (hwf : wfT t) (hcap : 0 < cap) (hmb : 0 < maxBuf) (hsz1 : 0 < sz1) (hsz2 : 0 < sz2)
    (hh : h.WF L) (hmh : h.fields.length ≤ mh) (hms : h.fields.length ≤ Headers.maxSize)
    (hnb : bodyless m h.code = false) (hfr : CompleteFrame h t) :
    ∃ resp, parseResponse m mh cap t = .ok resp ∧
      (drain maxBuf sz1 resp.body).1 = (drain maxBuf sz2 resp.body).1 ∧
      ∃ bs, (drain maxBuf sz1 resp.body).1 = .ok bs := by
  rcases hfr with ⟨cs, last, trail, hcs, hl, hch, hflat⟩ | ⟨body, trail, hch, hcl, hflat⟩ |
      ⟨body, hch, hcl, hflat⟩
  · obtain ⟨r1, hp1, hd1⟩ := C01_drain_chunked h cs last trail t cap maxBuf mh m sz1
      hwf hcap hmb hsz1 hh hcs hl hmh hms hnb hch hflat
    obtain ⟨r2, hp2, hd2⟩ := C01_drain_chunked h cs last trail t cap maxBuf mh m sz2
      hwf hcap hmb hsz2 hh hcs hl hmh hms hnb hch hflat
    rw [hp1] at hp2; cases hp2
    exact ⟨r1, hp1, by rw [hd1, hd2], _, hd1⟩
  · obtain ⟨r1, hp1, hd1⟩ := C01_drain_length h body trail t cap maxBuf mh m sz1
      hwf hcap hsz1 hh hmh hms hnb hch hcl hflat
    obtain ⟨r2, hp2, hd2⟩ := C01_drain_length h body trail t cap maxBuf mh m sz2
      hwf hcap hsz2 hh hmh hms hnb hch hcl hflat
    rw [hp1] at hp2; cases hp2
    exact ⟨r1, hp1, by rw [hd1, hd2], _, hd1⟩
  · obtain ⟨r1, hp1, hd1⟩ := C01_drain_close h body t cap maxBuf mh m sz1
      hwf hcap hsz1 hh hmh hms hnb hch hcl hflat
    obtain ⟨r2, hp2, hd2⟩ := C01_drain_close h body t cap maxBuf mh m sz2
      hwf hcap hsz2 hh hmh hms hnb hch hcl hflat
    rw [hp1] at hp2; cases hp2
    exact ⟨r1, hp1, by rw [hd1, hd2], _, hd1⟩

/-- non-vacuity: the chunked example read with a 1-byte and with an 8 KiB helper buffer -/
example := C01_drain_size_indep Ex.headTE
  (Ex.seg (Ex.headTE.render ++ encChunks Ex.chunks ++ Ex.last.enc) ++ [.data [7], .pause]) 8 4 100 .get
  1 8192
  (by decide +kernel) (by decide) (by decide) (by decide) (by decide) (by decide +kernel)
  (by decide +kernel) (by decide +kernel) (by decide +kernel)
  (.inl ⟨Ex.chunks, Ex.last, [.byte 7, .pause], by decide +kernel, by decide +kernel,
    by decide +kernel, by decide +kernel⟩)

/-- non-vacuity of the other two disjuncts of `CompleteFrame` -/
example : CompleteFrame Ex.headCL (Ex.seg (Ex.headCL.render ++ Ex.body) ++ [.data [7], .pause]) :=
  .inr (.inl ⟨Ex.body, [.byte 7, .pause], by decide +kernel, by decide +kernel, by decide +kernel⟩)
example : CompleteFrame Ex.headClose (Ex.seg (Ex.headClose.render ++ Ex.body)) :=
  .inr (.inr ⟨Ex.body, by decide +kernel, by decide +kernel, by decide +kernel⟩)

/-- (e) a chunked body cut strictly inside a chunk or inside the last-chunk (then EOF, a
    non-Interrupted I/O error followed by anything, or a stall): `bytes()` / `write_to()` /
    `text()` fail — the result is an error or a stall, never `Ok`, and the loop neither panics nor
    runs out of fuel. -/
theorem C02_drain_chunked_cut (h : HeadS) (cs : List ChunkS) (part : Bytes) (tailItems : List Item)
    (t : Transport) (cap maxBuf mh : Nat) (m : Method) (sz : Nat)
    (hwf : wfT t) (hcap : 0 < cap) (hmb : 0 < maxBuf) (hsz : 0 < sz) (hh : h.WF L)
    (hcs : ∀ c ∈ cs, c.WF CL)
    (hmh : h.fields.length ≤ mh) (hms : h.fields.length ≤ Headers.maxSize)
    (hnb : bodyless m h.code = false) (hch : isChunked h.seen = true)
    (hp : (∃ c : ChunkS, c.WF CL ∧ part.length < c.enc.length ∧ part <+: c.enc) ∨
          (∃ l : LastS, l.WF CL ∧ part.length < l.enc.length ∧ part <+: l.enc))
    (ht : tailItems = [] ∨ (∃ k r, k ≠ 0 ∧ tailItems = .err k :: r) ∨
          (∃ r, tailItems = .pause :: r))
    (hflat : flatT t = bytesI (h.render ++ encChunks cs ++ part) ++ tailItems) :
    ∃ resp, parseResponse m mh cap t = .ok resp ∧
      ((∃ e, (drain maxBuf sz resp.body).1 = .err e) ∨ (drain maxBuf sz resp.body).1 = .blocked) ∧
      (∀ bs, (drain maxBuf sz resp.body).1 ≠ .ok bs) ∧
      (drain maxBuf sz resp.body).1 ≠ .panic := by
  have hflat' : flatT t = bytesI h.render ++ (bytesI (encChunks cs ++ part) ++ tailItems) := by
    rw [hflat]; simp [bytesI]
  obtain ⟨r1, hok, hfl, hpr⟩ := parseResponse_of_head h hh _ t cap mh hwf hcap hmh hms hflat'
  refine ⟨_, hpr m _ (chooseFraming_chunked m h.code h.seen hnb hch), ?_⟩
  have hbad : (drain maxBuf sz (Body.new .chunked r1)).1.Bad :=
    Dr.drain_chunked_cut maxBuf sz hsz r1 hok hmb cs hcs part tailItems hp ht hfl
  refine ⟨hbad, fun bs => hbad.ne_ok bs, ?_⟩
  rcases hbad with ⟨e, he⟩ | he <;> rw [he] <;> simp

/-- non-vacuity: one complete chunk, the second one cut after 9 of its 16 bytes, then a
    connection reset (kind 104) after which the script would even deliver more bytes -/
example := C02_drain_chunked_cut Ex.headTE [Ex.chunks[0]] (Ex.chunks[1].enc.take 9)
  [.err 104, .byte 1, .byte 2]
  (Ex.seg (Ex.headTE.render ++ encChunks [Ex.chunks[0]] ++ Ex.chunks[1].enc.take 9) ++
    [.err 104, .data [1, 2]]) 8 4 100 .get
  3
  (by decide +kernel) (by decide) (by decide) (by decide) (by decide +kernel) (by decide +kernel)
  (by decide +kernel) (by decide +kernel) (by decide +kernel) (by decide +kernel)
  (.inl ⟨Ex.chunks[1], by decide +kernel, by decide +kernel, Ex.chunks[1].enc.drop 9, by decide +kernel⟩)
  (.inr (.inl ⟨104, [.byte 1, .byte 2], by decide, rfl⟩))
  (by decide +kernel)

/-- (f) `Content-Length: n` but the connection is closed after `pre`, fewer than `n` bytes: the
    helpers return `UnexpectedEof` (the bytes of `pre` they had collected are dropped). -/
theorem C02_drain_length_cut (h : HeadS) (pre : Bytes) (n : Nat)
    (t : Transport) (cap maxBuf mh : Nat) (m : Method) (sz : Nat)
    (hwf : wfT t) (hcap : 0 < cap) (hsz : 0 < sz) (hh : h.WF L)
    (hmh : h.fields.length ≤ mh) (hms : h.fields.length ≤ Headers.maxSize)
    (hnb : bodyless m h.code = false) (hch : isChunked h.seen = false)
    (hcl : isContentLength h.seen = .ok (some n)) (hpre : pre.length < n)
    (hflat : flatT t = bytesI (h.render ++ pre)) :
    ∃ resp, parseResponse m mh cap t = .ok resp ∧
      (drain maxBuf sz resp.body).1 = .err .eof := by
  have hflat' : flatT t = bytesI h.render ++ bytesI pre := by
    rw [hflat]; simp [bytesI]
  obtain ⟨r1, hok, hfl, hp⟩ := parseResponse_of_head h hh _ t cap mh hwf hcap hmh hms hflat'
  refine ⟨_, hp m _ (chooseFraming_length m h.code h.seen n hnb hch hcl), ?_⟩
  exact Dr.drain_cut maxBuf sz hsz (.length r1 n) pre ⟨hok, hpre, hfl⟩

/-- non-vacuity: `Content-Length: 11` but only `hello` arrives before the connection closes -/
example := C02_drain_length_cut Ex.headCL (str "hello") 11
  (Ex.seg (Ex.headCL.render ++ str "hello")) 8 4 100 .get
  3
  (by decide +kernel) (by decide) (by decide) (by decide +kernel) (by decide +kernel)
  (by decide +kernel) (by decide +kernel) (by decide +kernel) (by decide +kernel)
  (by decide +kernel) (by decide +kernel)

end Atto
