//! The library's `Certificate` type depends on its TLS backend.
#[cfg(feature = "backend-native")]
pub fn from_pem(pem: &[u8]) -> Option<native_tls::Certificate> {
    native_tls::Certificate::from_pem(pem).ok()
}

#[cfg(all(feature = "backend-rustls", not(feature = "backend-native")))]
pub fn from_pem(pem: &[u8]) -> Option<rustls_pki_types::CertificateDer<'static>> {
    // first CERTIFICATE block, base64 → DER
    let text = std::str::from_utf8(pem).ok()?;
    let begin = text.find("-----BEGIN CERTIFICATE-----")? + 27;
    let end = text[begin..].find("-----END CERTIFICATE-----")? + begin;
    let b64: Vec<u8> = text[begin..end].bytes().filter(|b| !b.is_ascii_whitespace()).collect();
    let val = |c: u8| -> Option<u32> {
        Some(match c {
            b'A'..=b'Z' => (c - b'A') as u32,
            b'a'..=b'z' => (c - b'a') as u32 + 26,
            b'0'..=b'9' => (c - b'0') as u32 + 52,
            b'+' => 62,
            b'/' => 63,
            _ => return None,
        })
    };
    let mut der = vec![];
    for q in b64.chunks(4) {
        let pad = q.iter().filter(|&&c| c == b'=').count();
        let mut n = 0u32;
        for &c in q {
            n = (n << 6) | if c == b'=' { 0 } else { val(c)? };
        }
        der.push((n >> 16) as u8);
        if pad < 2 {
            der.push((n >> 8) as u8);
        }
        if pad < 1 {
            der.push(n as u8);
        }
    }
    Some(rustls_pki_types::CertificateDer::from(der))
}

/// the DER inside the first PEM block with the given label (base64 decoded by hand: no PEM crate needed)
#[cfg(feature = "backend-rustls")]
pub fn pem_block(pem: &[u8], label: &str) -> Option<Vec<u8>> {
    let text = std::str::from_utf8(pem).ok()?;
    let b = format!("-----BEGIN {}-----", label);
    let e = format!("-----END {}-----", label);
    let begin = text.find(&b)? + b.len();
    let end = text[begin..].find(&e)? + begin;
    let b64: Vec<u8> = text[begin..end].bytes().filter(|b| !b.is_ascii_whitespace()).collect();
    let val = |c: u8| -> Option<u32> {
        Some(match c {
            b'A'..=b'Z' => (c - b'A') as u32,
            b'a'..=b'z' => (c - b'a') as u32 + 26,
            b'0'..=b'9' => (c - b'0') as u32 + 52,
            b'+' => 62,
            b'/' => 63,
            _ => return None,
        })
    };
    let mut der = vec![];
    for q in b64.chunks(4) {
        let pad = q.iter().filter(|&&c| c == b'=').count();
        let mut n = 0u32;
        for &c in q {
            n = (n << 6) | if c == b'=' { 0 } else { val(c)? };
        }
        der.push((n >> 16) as u8);
        if pad < 2 {
            der.push((n >> 8) as u8);
        }
        if pad < 1 {
            der.push(n as u8);
        }
    }
    Some(der)
}

pub fn backend() -> &'static str {
    if cfg!(feature = "backend-native") {
        "native-tls"
    } else {
        "rustls"
    }
}
