//! C01 — response body bytes equal the payload the server framed.
use crate::case::{Case, Sink};
use crate::resp::{run_resp, Ev, HeadOut, Reads, RespCase, RespOut};
use crate::respgen::*;
use crate::rng::Rng;

/// The oracle: stated on the implementation's observable behaviour and the generator's payload.
pub fn oracle(spec: &RespSpec, case: &RespCase, out: &RespOut) -> Result<(), (String, String)> {
    let fr = spec.framing_name();
    let payload = spec.payload();
    match &out.head {
        HeadOut::Ok(st) if *st == spec.status => {}
        h => return Err((format!("head-{}", fr), format!("send() gave {:?} for a well-formed response", h))),
    }
    let mut got: Vec<u8> = vec![];
    match &case.reads {
        Reads::BufOps(ops) => {
            // the BufRead view: judged as the equivalent sequence of reads
            let (ns, evs, tracked) = crate::bufview::convert(ops, &out.events)?;
            let case2 = RespCase { reads: Reads::Sizes(ns), ..case.clone() };
            let mut out2 = out.clone();
            out2.events = evs;
            if tracked {
                oracle(spec, &case2, &out2)
            } else {
                let exp = crate::spec::Decoded { payload: payload.clone(), end: crate::spec::End::Complete(0) };
                crate::delivery::check(&exp, &case2.reads, &out2.events, fr).map(|_| ())
            }
        }
        Reads::Text(_) => match out.events.as_slice() {
            [Ev::Ok(bs)] if *bs == String::from_utf8_lossy(&payload).as_bytes() => Ok(()),
            [Ev::Ok(bs)] => Err((format!("text-mismatch-{}", fr), format!("text_utf8() returned {} bytes for a {}-byte payload and it is not its lossy UTF-8 decoding", bs.len(), payload.len()))),
            other => Err((format!("text-error-{}", fr), format!("text_utf8() gave {:?}", other.first().map(|e| e.to_string())))),
        },
        Reads::Drain(how) if *how == crate::resp::DRAIN_ERR_FOR_STATUS && !(200..300).contains(&spec.status) => match out.events.as_slice() {
            [Ev::Err(k)] if *k == format!("status{}", spec.status) => Ok(()),
            other => Err((format!("error-for-status-{}", fr), format!("error_for_status() on status {} gave {:?}", spec.status, other.first().map(|e| e.to_string())))),
        },
        // the text family: the whole body is read and decoded (what the text is, is C18's business)
        Reads::Drain(how) if crate::resp::is_text_drain(*how) => match out.events.as_slice() {
            [Ev::Ok(_)] => Ok(()),
            other => Err((format!("text-error-{}", fr), format!("text() / text_with() / text_reader() gave {:?} on a well-formed response", other.first().map(|e| e.to_string())))),
        },
        Reads::Drain(_) => match out.events.as_slice() {
            [Ev::Ok(bs)] if *bs == payload => Ok(()),
            [Ev::Ok(bs)] => Err((format!("bytes-mismatch-{}", fr), format!("bytes() returned {} bytes, payload has {}", bs.len(), payload.len()))),
            other => Err((format!("bytes-error-{}", fr), format!("bytes() gave {:?}", other.first().map(|e| e.to_string())))),
        },
        Reads::Sizes(ns) => {
            for (i, ev) in out.events.iter().enumerate() {
                match ev {
                    Ev::Ok(bs) => {
                        if bs.len() > ns[i] {
                            return Err((format!("overlong-read-{}", fr), format!("read #{} of size {} returned {} bytes", i, ns[i], bs.len())));
                        }
                        got.extend_from_slice(bs);
                        if !payload.starts_with(&got) {
                            return Err((format!("not-prefix-{}", fr), format!("after read #{} delivered bytes are not a prefix of the payload", i)));
                        }
                        if bs.is_empty() && ns[i] > 0 && got.len() != payload.len() {
                            return Err((format!("early-eof-{}", fr), format!("read #{} returned Ok(0) after {} of {} payload bytes", i, got.len(), payload.len())));
                        }
                    }
                    other => {
                        return Err((format!("read-error-{}", fr), format!("read #{} gave {} on a well-formed response", i, other.to_string())));
                    }
                }
            }
            if out.events.len() != ns.len() {
                return Err((format!("missing-events-{}", fr), "fewer events than reads".into()));
            }
            if got != payload {
                return Err((format!("incomplete-{}", fr), format!("drained schedule delivered {} of {} bytes", got.len(), payload.len())));
            }
            Ok(())
        }
    }
}

pub fn pieces(spec: &RespSpec, nsegs: usize, max_buf: usize) -> usize {
    match &spec.body {
        BodySpec::Chunked { chunks, .. } => chunks.iter().map(|c| c.data.len() / max_buf + 1).sum::<usize>() + 1,
        _ => nsegs + 1,
    }
}

/// Big chunks read with big buffers whose ends fall exactly on chunk ends (seed C01-seed8: a read that takes
/// exactly the rest of a chunk, straight from a transport that has it all): chunk sizes around multiples of
/// the client's chunk buffer, read sizes that divide them, the whole response in one segment or in segments
/// of the read size. Deterministic: an alignment like this is never met by chance.
fn aligned_big_reads(rng: &mut Rng, thorough: bool, sink: &mut Sink) {
    let mb = crate::resp::max_buffer_len();
    let chunk_sizes: Vec<usize> = if thorough { vec![mb, 2 * mb, 2 * mb + 1, 3 * mb, 4 * mb, 2 * mb - 1] } else { vec![2 * mb, 2 * mb + 1, 3 * mb] };
    let read_sizes: Vec<usize> = if thorough { vec![mb, mb + 1, 2 * mb, mb / 2, 3 * mb] } else { vec![mb, mb + 1, 2 * mb] };
    for &cs in &chunk_sizes {
        for &rs in &read_sizes {
            for seg_mode in 0..2 {
                let chunks = vec![
                    Chunk { data: payload_bytes(rng, cs), size_repr: format!("{:x}", cs).into_bytes(), ext: vec![] },
                    Chunk { data: payload_bytes(rng, 5), size_repr: b"5".to_vec(), ext: vec![] },
                ];
                let spec = RespSpec {
                    version: b"HTTP/1.1".to_vec(),
                    status: 200,
                    reason: b"OK".to_vec(),
                    fields: vec![],
                    te_name: b"Transfer-Encoding".to_vec(),
                    te_value: b"chunked".to_vec(),
                    body: BodySpec::Chunked { chunks, last_repr: b"0".to_vec(), last_ext: vec![], trailers: vec![] },
                    trail: vec![],
                };
                let wire = spec.wire();
                let segs: Vec<crate::script::Seg> = if seg_mode == 0 {
                    vec![crate::script::Seg::Data(wire.clone())]
                } else {
                    // the head and the size line first, then the body in pieces of the read size
                    let head_len = spec.head_bytes().len() + format!("{:x}\r\n", cs).len();
                    let mut v = vec![crate::script::Seg::Data(wire[..head_len].to_vec())];
                    v.extend(wire[head_len..].chunks(rs).map(|c| crate::script::Seg::Data(c.to_vec())));
                    v
                };
                let ns = vec![rs; (cs + 5) / rs.min(mb) + 6];
                let case = RespCase { method: "GET".into(), max_headers: 100, segs, reads: Reads::Sizes(ns) };
                let out = run_resp(&case);
                let o = oracle(&spec, &case, &out);
                sink.push(Case {
                    tags: vec!["framing=chunked".into(), format!("seg={}", if seg_mode == 0 { "one" } else { "read-sized" }), "reads=aligned-big".into(), "payload>64K".into()],
                    op: case.op_line(),
                    impl_line: out.line(),
                    oracle: o,
                });
            }
        }
    }
}

/// Two responses read one after the other on the same thread; the first is abandoned part-way through its body
/// (dropped after a few reads) — the payload of the second is exactly what ITS server framed, whatever the reader
/// of the first left behind (seeds C01-seed9 / C02-seed9: a staging buffer recycled through a thread-local).
fn abandoned_then_next(rng: &mut Rng, thorough: bool, sink: &mut Sink) {
    let max_buf = crate::resp::max_buffer_len();
    let rounds = if thorough { 20 } else { 3 };
    for _ in 0..rounds {
        for fa in 0..3u64 {
            for fb in 0..3u64 {
                let big = fa == 0 && rng.chance(1, 3);
                let a = gen_valid(rng, fa, big);
                let b = gen_valid(rng, fb, false);
                if a.payload().len() < 2 {
                    continue;
                }
                // the first response: a few reads that stop short of the end of its body, then it is dropped
                let wa = a.wire();
                let take = 1 + rng.below(a.payload().len() as u64 - 1) as usize;
                let ca = RespCase { method: "GET".into(), max_headers: 100, segs: vec![crate::script::Seg::Data(wa)], reads: Reads::Sizes(vec![take.min(7), take]) };
                let _ = run_resp(&ca);
                // the second one, read to its end
                let wb = b.wire();
                let head_len = b.head_bytes().len();
                let (segs, segname) = segment(rng, &wb, &interesting_offsets(&wb, head_len));
                let (ns, _) = read_schedule(rng, b.payload().len(), pieces(&b, segs.len(), max_buf));
                let drain = rng.chance(1, 3);
                let cb = RespCase { method: "GET".into(), max_headers: 100, segs, reads: if drain { Reads::Drain(crate::resp::DRAIN_BYTES) } else { Reads::Sizes(ns) } };
                let out = run_resp(&cb);
                let o = oracle(&b, &cb, &out);
                sink.push(Case {
                    tags: vec![format!("framing={}", b.framing_name()), format!("seg={}", segname), format!("reads=after-abandoned-{}", a.framing_name())],
                    op: cb.op_line(),
                    impl_line: out.line(),
                    oracle: o,
                });
            }
        }
    }
}

pub fn generate(seed: u64, tier: &str, sink: &mut Sink) {
    abandoned_then_next(&mut Rng::new(seed ^ 0xC01A), tier == "thorough", sink);
    let mut rng = Rng::new(seed ^ 0xC01);
    let n = if tier == "thorough" { 60_000 } else { 2500 };
    let max_buf = crate::resp::max_buffer_len();
    aligned_big_reads(&mut rng, tier == "thorough", sink);
    for i in 0..n {
        let framing = i % 3;
        // big payloads are expensive in hex; keep them to a share of the cases
        let big = rng.chance(1, if tier == "thorough" { 6 } else { 12 });
        let spec = gen_valid(&mut rng, framing as u64, big);
        let wire = spec.wire();
        let head_len = spec.head_bytes().len();
        let (mut segs, segname) = segment(&mut rng, &wire, &interesting_offsets(&wire, head_len));
        // the usual keep-alive server does not close the connection behind the response, it goes silent:
        // where the framing itself says where the body ends (chunked, Content-Length) the whole payload and
        // the end of the body are delivered without waiting for the peer (seed C19-seed7)
        let keep_alive = !matches!(spec.body, BodySpec::Close(_)) && rng.chance(1, 3);
        if keep_alive {
            segs.push(crate::script::Seg::Pause);
        }
        let payload_len = spec.payload().len();
        let (reads, rname) = if rng.chance(1, 12) {
            (Reads::Text(8192), "text_utf8()")
        } else if rng.chance(1, 4) {
            match rng.below(8) {
                5 => (Reads::Drain(crate::resp::DRAIN_TEXT), "text()"),
                6 => (Reads::Drain(crate::resp::DRAIN_TEXT_WITH), "text_with()"),
                7 => (Reads::Drain(crate::resp::DRAIN_TEXT_READER), "text_reader()+read_to_string"),
                4 => (Reads::Drain(crate::resp::DRAIN_WRITE_TO_SHORT), "write_to(short-writing sink)"),
                0 => (Reads::Drain(crate::resp::DRAIN_WRITE_TO), "write_to()"),
                1 => (Reads::Drain(crate::resp::DRAIN_SPLIT), "split()+read_to_end"),
                2 => (Reads::Drain(crate::resp::DRAIN_ERR_FOR_STATUS), "error_for_status()+bytes()"),
                _ => (Reads::Drain(crate::resp::DRAIN_BYTES), "bytes()"),
            }
        } else if rng.chance(1, 5) {
            // the BufRead view of the body reader (what the content decoders drive), mixed with read()
            let tail = pieces(&spec, segs.len(), max_buf) + payload_len / 8192 + 3;
            let (ops, name) = crate::bufview::gen_ops(&mut rng, payload_len, tail);
            (Reads::BufOps(ops), name)
        } else {
            let (ns, name) = read_schedule(&mut rng, payload_len, pieces(&spec, segs.len(), max_buf));
            (Reads::Sizes(ns), name)
        };
        // "whatever sequence of reads": one case in eight has a read that fails with a transient transport
        // error (a read timeout and the like) somewhere in the body, after which the rest arrives and the
        // caller goes on reading; what is handed out must still be a prefix of the payload, never more
        let transient = matches!(reads, Reads::Sizes(_)) && wire.len() > head_len && rng.chance(1, 8);
        if transient {
            let p = head_len + rng.below((wire.len() - head_len) as u64) as usize;
            let k = *rng.pick(&[1u8, 2, 2, 3]);
            let segs2 = crate::p_c02::splice(&segs, p, Some(crate::script::Seg::Err(k)), false);
            let m = crate::p_c02::Mutated { kind: "ioerr-resume", arrived: crate::p_c02::flat(&segs2), segs: segs2.clone(), err_at: Some((p, k)) };
            let mut ns = match &reads { Reads::Sizes(ns) => ns.clone(), _ => vec![] };
            ns.extend_from_slice(&[1 << 16, 7, 1 << 16, 1 << 16]);
            let case = RespCase { method: "GET".into(), max_headers: 100, segs: segs2, reads: Reads::Sizes(ns) };
            let out = run_resp(&case);
            let o = crate::p_c02::oracle(&spec, &m, head_len, &case, &out, crate::consts().chunk_size_line_limit);
            sink.push(Case {
                tags: vec![format!("framing={}", spec.framing_name()), format!("seg={}", segname), "reads=after-transient-error".to_string()],
                op: case.op_line(),
                impl_line: out.line(),
                oracle: o,
            });
            continue;
        }
        let case = RespCase { method: "GET".into(), max_headers: 100, segs, reads };
        let out = run_resp(&case);
        let o = oracle(&spec, &case, &out);
        let size_bucket = match payload_len {
            0 => "payload=0",
            1..=300 => "payload<=300",
            301..=8192 => "payload<=8K",
            8193..=65536 => "payload<=64K",
            _ => "payload>64K",
        };
        sink.push(Case {
            tags: vec![
                format!("framing={}", spec.framing_name()),
                format!("seg={}", segname),
                format!("reads={}", rname),
                size_bucket.to_string(),
                format!("trail={}", !spec.trail.is_empty()),
                format!("then={}", if keep_alive { "silence" } else { "close" }),
                format!("trailers={}", match &spec.body { BodySpec::Chunked { trailers, .. } => match trailers.len() { 0 => "0", 1..=5 => "1-5", _ => ">5" }, _ => "-" }),
            ],
            op: case.op_line(),
            impl_line: out.line(),
            oracle: o,
        });
    }
}
