/-
  Atto/Spec/RequestSpec.lean — an HTTP/1.1 *request* parser, specification side: what a strict
  RFC 9112 server reads from a connection.  Written from the RFC (§3 request line, §5 field
  syntax, §6 message body, §7.1 chunked coding), not from the model's writer.

  `parseRequest inp = some (req, leftover)`: exactly one request was recognised at the start of `inp`
  and `leftover` is what follows it on the connection (`[]` = nothing but that request was sent).

  What it REJECTS (returns `none`), on purpose (strict reader):
    * a request line that is not `token SP target SP "HTTP/1.1"` (one SP each, other versions,
      empty method / target, a method with a non-token byte, CR or LF or SP inside the target;
      the target is otherwise not inspected: any byte except SP / CR / LF is let through);
    * a bare CR or LF inside a line (lines end at the first CRLF);
    * a field line without `:`; an empty or non-token field name (so also: whitespace before the
      colon, obs-fold continuation lines); a field value with a byte that is not
      VCHAR / obs-text / SP / HTAB;  optional whitespace around the value is stripped (OWS);
    * `content-length` (any letter case) present more than once, or not 1*DIGIT;
    * `transfer-encoding` present more than once or with a value other than `chunked`
      (any letter case);  both `content-length` and `transfer-encoding` present;
    * a body shorter than its `content-length`;
    * chunked: a size line that is not 1*HEXDIG (no chunk extensions), data not followed by CRLF,
      a last-chunk not directly followed by CRLF (no trailer section), a truncated chunk.
  A chunk of size 0 followed by CRLF TERMINATES the body wherever it occurs: a premature zero
  chunk leaves the remaining chunks in `leftover`.
  Without either framing field the body is empty (§6.3 rule 7) and everything after the head is
  leftover.
-/
import Atto.Std.HeaderMap
namespace Atto

structure ParsedReq where
  method : Bytes
  target : Bytes
  headers : Headers
  body : Bytes
  deriving Repr, DecidableEq

/-! ### lexical classes (RFC 9110 §5.6.2, §5.5; RFC 5234 B.1) -/

def rqIsDigit (b : UInt8) : Bool := 48 ≤ b && b ≤ 57
def rqIsAlpha (b : UInt8) : Bool := (65 ≤ b && b ≤ 90) || (97 ≤ b && b ≤ 122)

/-- tchar = "!" / "#" / "$" / "%" / "&" / "'" / "*" / "+" / "-" / "." / "^" / "_" / "`" / "|" / "~"
    / DIGIT / ALPHA -/
def rqIsTokenByte (b : UInt8) : Bool :=
  rqIsDigit b || rqIsAlpha b || [33, 35, 36, 37, 38, 39, 42, 43, 45, 46, 94, 95, 96, 124, 126].contains b

/-- field-vchar / SP / HTAB:  VCHAR (0x21–0x7E), obs-text (0x80–0xFF), SP, HTAB -/
def rqIsFieldByte (b : UInt8) : Bool := (33 ≤ b && b ≤ 126) || 128 ≤ b || b == 32 || b == 9

/-- OWS = *( SP / HTAB ) -/
def rqIsOWS (b : UInt8) : Bool := b == 32 || b == 9

def rqDecVal? (b : UInt8) : Option Nat := if rqIsDigit b then some (b.toNat - 48) else none

def rqHexVal? (b : UInt8) : Option Nat :=
  if rqIsDigit b then some (b.toNat - 48)
  else if 97 ≤ b && b ≤ 102 then some (b.toNat - 87)
  else if 65 ≤ b && b ≤ 70 then some (b.toNat - 55)
  else none

/-- value of 1*digit in the given radix, most significant digit first; `none` on a non-digit -/
def rqRadixAux (dv : UInt8 → Option Nat) (base : Nat) : Bytes → Nat → Option Nat
  | [], acc => some acc
  | b :: bs, acc =>
    match dv b with
    | some d => rqRadixAux dv base bs (acc * base + d)
    | none => none

def rqParseRadix (dv : UInt8 → Option Nat) (base : Nat) (bs : Bytes) : Option Nat :=
  if bs = [] then none else rqRadixAux dv base bs 0

/-- 1*DIGIT -/
def rqParseDec (bs : Bytes) : Option Nat := rqParseRadix rqDecVal? 10 bs
/-- 1*HEXDIG -/
def rqParseHex (bs : Bytes) : Option Nat := rqParseRadix rqHexVal? 16 bs

/-! ### lines -/

/-- Split at the first CRLF: the line before it and everything after it. -/
def rqSplitCRLF : Bytes → Option (Bytes × Bytes)
  | [] => none
  | b :: rest =>
    if b = 13 ∧ rest.head? = some 10 then some ([], rest.drop 1)
    else (rqSplitCRLF rest).map (fun p => (b :: p.1, p.2))

/-- no bare CR / LF inside a line -/
def rqNoCRLF (line : Bytes) : Bool := line.all (fun b => b != 13 && b != 10)

def rqTrimOWS (bs : Bytes) : Bytes := ((bs.dropWhile rqIsOWS).reverse.dropWhile rqIsOWS).reverse

/-- request-line = method SP request-target SP "HTTP/1.1"  (without the CRLF) -/
def rqParseRequestLine (line : Bytes) : Option (Bytes × Bytes) :=
  let m := line.takeWhile (· != 32)
  match line.dropWhile (· != 32) with
  | [] => none
  | _ :: r2 =>
    let t := r2.takeWhile (· != 32)
    let r3 := r2.dropWhile (· != 32)
    if m ≠ [] ∧ m.all rqIsTokenByte ∧ t ≠ [] ∧ rqNoCRLF line ∧ r3 = 32 :: str "HTTP/1.1" then some (m, t)
    else none

/-- field-line = field-name ":" OWS field-value OWS  (without the CRLF) -/
def rqParseFieldLine (line : Bytes) : Option (Bytes × Bytes) :=
  let name := line.takeWhile (· != 58)
  match line.dropWhile (· != 58) with
  | [] => none
  | _ :: r =>
    let value := rqTrimOWS r
    if name ≠ [] ∧ name.all rqIsTokenByte ∧ value.all rqIsFieldByte then some (name, value) else none

/-- field lines up to and including the empty line -/
def rqParseFields : Nat → Bytes → Option (Headers × Bytes)
  | 0, _ => none
  | fuel + 1, inp =>
    match rqSplitCRLF inp with
    | none => none
    | some (line, rest) =>
      if line = [] then some ([], rest)
      else match rqParseFieldLine line with
        | none => none
        | some f => (rqParseFields fuel rest).map (fun p => (f :: p.1, p.2))

/-- all values of a field, the name compared case-insensitively (`n` in lower case) -/
def rqFieldValues (hs : Headers) (n : Bytes) : List Bytes :=
  hs.filterMap (fun p => if lowerBytes p.1 = n then some p.2 else none)

/-! ### message body (RFC 9112 §6, §7.1) -/

/-- chunked-body without extensions and trailers: the data of the chunks before the first
    zero-size chunk, and what follows that chunk's terminating CRLF. -/
def rqDecodeChunks : Nat → Bytes → Option (List Bytes × Bytes)
  | 0, _ => none
  | fuel + 1, inp =>
    match rqSplitCRLF inp with
    | none => none
    | some (sizeLine, rest) =>
      match rqParseHex sizeLine with
      | none => none
      | some 0 => if rest.take 2 = [13, 10] then some ([], rest.drop 2) else none
      | some n =>
        if rest.length < n + 2 ∨ (rest.drop n).take 2 ≠ [13, 10] then none
        else (rqDecodeChunks fuel (rest.drop (n + 2))).map (fun p => (rest.take n :: p.1, p.2))

/-- every chunk takes at least 5 bytes: fuel `length + 1` is never exhausted on a parsable input -/
def decodeChunks (inp : Bytes) : Option (List Bytes × Bytes) := rqDecodeChunks (inp.length + 1) inp

inductive RqFraming where
  | none
  | length (n : Nat)
  | chunked
  deriving Repr, DecidableEq

/-- §6.3: which framing the field section announces; `none` (outer) = reject. -/
def rqFraming (hs : Headers) : Option RqFraming :=
  match rqFieldValues hs (str "content-length"), rqFieldValues hs (str "transfer-encoding") with
  | [], [] => some .none
  | [v], [] => (rqParseDec v).map .length
  | [], [v] => if lowerBytes v = str "chunked" then some .chunked else none
  | _, _ => none

def rqParseBody (hs : Headers) (inp : Bytes) : Option (Bytes × Bytes) :=
  match rqFraming hs with
  | none => none
  | some .none => some ([], inp)
  | some (.length n) => if inp.length < n then none else some (inp.take n, inp.drop n)
  | some .chunked => (decodeChunks inp).map (fun p => (p.1.flatten, p.2))

/-- One request from the start of `inp`, and the leftover bytes. -/
def parseRequest (inp : Bytes) : Option (ParsedReq × Bytes) :=
  match rqSplitCRLF inp with
  | none => none
  | some (line, rest) =>
    match rqParseRequestLine line with
    | none => none
    | some (m, t) =>
      match rqParseFields (rest.length + 1) rest with
      | none => none
      | some (hs, rest2) =>
        match rqParseBody hs rest2 with
        | none => none
        | some (body, left) => some ({ method := m, target := t, headers := hs, body := body }, left)

/-! ### sanity: evaluation -/

/-- info: some ({ method := [71, 69, 84], target := [47, 120], headers := [([104], [97])], body := [] }, [90]) -/
#guard_msgs in
#eval parseRequest (str "GET /x HTTP/1.1\r\nh: \ta \r\n\r\nZ")

/-- a premature zero chunk ends the body: the rest is leftover -/
example : (parseRequest (str "POST / HTTP/1.1\r\nTransfer-Encoding: Chunked\r\n\r\n1\r\na\r\n0\r\n\r\n1\r\nb\r\n0\r\n\r\n")).map
    (fun p => (p.1.body, p.2)) = some (str "a", str "1\r\nb\r\n0\r\n\r\n") := by decide +kernel

example : (parseRequest (str "POST / HTTP/1.1\r\ncontent-length: 3\r\n\r\nabcd")).map
    (fun p => (p.1.body, p.2)) = some (str "abc", str "d") := by decide +kernel

/-- both framing fields: rejected -/
example : parseRequest (str "POST / HTTP/1.1\r\ncontent-length: 1\r\ntransfer-encoding: chunked\r\n\r\n0\r\n\r\n")
    = none := by decide +kernel
/-- two spaces, HTTP/1.0, bare LF, obs-fold, space before colon: rejected -/
example : parseRequest (str "GET  / HTTP/1.1\r\n\r\n") = none := by decide +kernel
example : parseRequest (str "GET / HTTP/1.0\r\n\r\n") = none := by decide +kernel
example : parseRequest (str "GET / HTTP/1.1\r\na: b\nc: d\r\n\r\n") = none := by decide +kernel
example : parseRequest (str "GET / HTTP/1.1\r\na: b\r\n c\r\n\r\n") = none := by decide +kernel
example : parseRequest (str "GET / HTTP/1.1\r\na : b\r\n\r\n") = none := by decide +kernel
/-- chunk extension, trailer: rejected -/
example : decodeChunks (str "1;x\r\na\r\n0\r\n\r\n") = none := by decide +kernel
example : decodeChunks (str "0\r\nt: v\r\n\r\n") = none := by decide +kernel
example : decodeChunks (str "a\r\n0123456789\r\n0\r\n\r\nXY") = some ([str "0123456789"], str "XY") := by
  decide +kernel

end Atto
