#!/usr/bin/env python3
"""Translator part of the tie between /repo and the Lean model.

Regenerates lean/Atto/Gen/Consts.lean from /repo's *current* sources. Anchors are item names and
token shapes, not line numbers. If an anchor is not found the extraction fails (exit 2) and the
properties that depend on the constant report a broken tie.

usage: extract_consts.py [--repo /repo] [--out FILE] [--json FILE]
"""
import json, os, re, sys

def read(repo, rel):
    with open(os.path.join(repo, rel), encoding="utf-8") as f:
        return f.read()

def strip_comments(src):
    src = re.sub(r"//[^\n]*", "", src)
    src = re.sub(r"/\*.*?\*/", "", src, flags=re.S)
    return src

def eval_int(expr):
    expr = expr.strip().replace("_", "")
    expr = re.sub(r"(?<=\d)(u8|u16|u32|u64|usize|i32|i64)\b", "", expr)
    if not re.fullmatch(r"[0-9\s\*\+\(\)<]+", expr):
        raise ValueError("not a constant integer expression: %r" % expr)
    return int(eval(expr, {"__builtins__": {}}, {}))

class Missing(Exception):
    pass

def need(m, what):
    if not m:
        raise Missing(what)
    return m

def fn_body(src, name):
    """text of `fn name ... { ... }` (brace matched)"""
    m = need(re.search(r"\bfn\s+%s\b" % re.escape(name), src), "fn " + name)
    i = src.index("{", m.end())
    depth, j = 0, i
    while True:
        c = src[j]
        if c == "{":
            depth += 1
        elif c == "}":
            depth -= 1
            if depth == 0:
                return src[i:j + 1]
        j += 1

def extract(repo):
    c = {}
    resp = strip_comments(read(repo, "src/parsing/response.rs"))
    m = need(re.search(r"const\s+MAX_LINE_LEN\s*:\s*u64\s*=\s*([^;]+);", resp), "MAX_LINE_LEN")
    c["maxLineLen"] = eval_int(m.group(1))
    head = fn_body(resp, "parse_response_head")
    # both the status line and the header lines must be read under MAX_LINE_LEN
    need(re.search(r"read_line\(\s*reader\s*,\s*&mut\s+line\s*,\s*MAX_LINE_LEN\s*\)", head), "status line limit")
    need(re.search(r"read_line_strict\(\s*reader\s*,\s*&mut\s+line\s*,\s*MAX_LINE_LEN\s*\)", head), "header line limit")

    chunked = strip_comments(read(repo, "src/parsing/chunked_reader.rs"))
    m = need(re.search(r"const\s+MAX_BUFFER_LEN\s*:\s*usize\s*=\s*([^;]+);", chunked), "MAX_BUFFER_LEN")
    c["maxBufferLen"] = eval_int(m.group(1))
    rcs = fn_body(chunked, "read_chunk_size")
    m = need(re.search(r"read_line\(\s*&mut\s+self\.inner\s*,\s*&mut\s+self\.buffer\s*,\s*([^)]+)\)", rcs), "chunk size line limit")
    c["chunkSizeLineLimit"] = eval_int(m.group(1))

    streams = strip_comments(read(repo, "src/streams.rs"))
    tun = fn_body(streams, "initiate_tunnel")
    m = need(re.search(r"\.take\(\s*([^)]+)\)\s*\.read_to_end", tun), "CONNECT body cap")
    c["connectBodyCap"] = eval_int(m.group(1))
    happy = strip_comments(read(repo, "src/happy.rs"))
    m = need(re.search(r"const\s+RACE_DELAY\s*:\s*Duration\s*=\s*Duration::from_millis\(\s*([^)]+)\)\s*;", happy), "RACE_DELAY")
    c["raceDelayMs"] = eval_int(m.group(1))
    # --- capacity of the BufReader in front of the connection (a parameter of the model)
    pr = fn_body(resp, "parse_response")
    m = re.search(r"BufReader::with_capacity\(\s*([^,]+),", pr)
    if m:
        c["bufReaderCap"] = eval_int(m.group(1))
    else:
        need(re.search(r"BufReader::new\(", pr), "BufReader in parse_response")
        c["bufReaderCap"] = 8192      # std's DEFAULT_BUF_SIZE
    cargo = read(repo, "Cargo.toml")
    m = need(re.search(r'^version\s*=\s*"([^"]+)"', cargo, flags=re.M), "package version")
    c["pkgVersion"] = m.group(1)
    # --- decision tables and defaults -------------------------------------------------------------
    reqmod = strip_comments(read(repo, "src/request/mod.rs"))
    send = fn_body(reqmod, "send")
    m = need(re.search(r"let\s+is_redirect\s*=\s*matches!\(\s*resp\.status\(\)\s*,(.*?)\)\s*;", send, flags=re.S), "is_redirect matches!")
    names = re.findall(r"StatusCode::([A-Z_]+)", m.group(1))
    table = {"MOVED_PERMANENTLY": 301, "FOUND": 302, "SEE_OTHER": 303, "NOT_MODIFIED": 304, "USE_PROXY": 305,
             "TEMPORARY_REDIRECT": 307, "PERMANENT_REDIRECT": 308, "MULTIPLE_CHOICES": 300}
    if not names or any(n not in table for n in names):
        raise Missing("redirect status names %r" % names)
    c["redirectStatuses"] = [table[n] for n in names]

    settings = strip_comments(read(repo, "src/request/settings.rs"))
    dflt = fn_body(settings, "default")
    def field(name, pat):
        mm = need(re.search(r"\b%s\s*:\s*%s" % (name, pat), dflt), "default " + name)
        return mm.group(1)
    c["defaultMaxHeaders"] = eval_int(field("max_headers", r"([0-9_]+)\s*,"))
    c["defaultMaxRedirections"] = eval_int(field("max_redirections", r"([0-9_]+)\s*,"))
    c["defaultFollowRedirects"] = field("follow_redirects", r"(true|false)") == "true"
    c["defaultConnectTimeoutMs"] = 1000 * eval_int(field("connect_timeout", r"Duration::from_secs\(\s*([0-9_]+)\s*\)"))
    c["defaultReadTimeoutMs"] = 1000 * eval_int(field("read_timeout", r"Duration::from_secs\(\s*([0-9_]+)\s*\)"))
    c["defaultTimeoutNone"] = field("timeout", r"(None|Some)") == "None"
    c["defaultAcceptInvalidCerts"] = field("accept_invalid_certs", r"(true|false)") == "true"
    c["defaultAcceptInvalidHostnames"] = field("accept_invalid_hostnames", r"(true|false)") == "true"
    c["defaultAllowCompression"] = field("allow_compression", r"(true|false)") == "true"

    mp = strip_comments(read(repo, "src/multipart_crate/mod.rs"))
    m = need(re.search(r"const\s+BOUNDARY_LEN\s*:\s*usize\s*=\s*([^;]+);", mp), "BOUNDARY_LEN")
    c["boundaryLen"] = eval_int(m.group(1))
    return c

LEAN_NAMES = ["maxLineLen", "chunkSizeLineLimit", "maxBufferLen", "connectBodyCap", "raceDelayMs"]

def render(c):
    lines = ["/- GENERATED by tools/extract_consts.py from /repo/src — do not edit. -/",
             "namespace Atto.Consts"]
    for k in LEAN_NAMES:
        lines.append("def %s : Nat := %d" % (k, c[k]))
    lines.append("/-- the statuses in the `matches!` of `send` -/")
    lines.append("def redirectStatuses : List Nat := [%s]" % ", ".join(str(x) for x in c["redirectStatuses"]))
    for k in ["defaultMaxHeaders", "defaultMaxRedirections", "defaultConnectTimeoutMs", "defaultReadTimeoutMs", "boundaryLen"]:
        lines.append("def %s : Nat := %d" % (k, c[k]))
    for k in ["defaultFollowRedirects", "defaultTimeoutNone", "defaultAcceptInvalidCerts", "defaultAcceptInvalidHostnames", "defaultAllowCompression"]:
        lines.append("def %s : Bool := %s" % (k, "true" if c[k] else "false"))
    lines.append("end Atto.Consts")
    return "\n".join(lines) + "\n"

def main():
    args = sys.argv[1:]
    repo = "/repo"
    here = os.path.dirname(os.path.dirname(os.path.abspath(__file__)))
    out = os.path.join(here, "lean", "Atto", "Gen", "Consts.lean")
    jout = None
    while args:
        a = args.pop(0)
        if a == "--repo":
            repo = args.pop(0)
        elif a == "--out":
            out = args.pop(0)
        elif a == "--json":
            jout = args.pop(0)
    try:
        c = extract(repo)
    except Missing as e:
        print("extract_consts: anchor not found: %s" % e, file=sys.stderr)
        sys.exit(2)
    except (ValueError, OSError) as e:
        print("extract_consts: %s" % e, file=sys.stderr)
        sys.exit(2)
    text = render(c)
    old = None
    if os.path.exists(out):
        with open(out, encoding="utf-8") as f:
            old = f.read()
    if old != text:
        with open(out, "w", encoding="utf-8") as f:
            f.write(text)
    if jout:
        with open(jout, "w") as f:
            json.dump(c, f)
    print(json.dumps(c))

if __name__ == "__main__":
    main()
