/-
  Atto/Props/C10w.lean — property C10, "each request sent while following redirects is itself a
  complete well-formed request", on the error path: a hop whose connection breaks while the request
  is written is the LAST hop — whatever could have been read on that connection (a redirect, say) is
  not acted upon — and every hop before it carries exactly the request of the fault-free exchange.
  Model: Atto/Model/SendW.lean (tied to the code by op `sendf`, harness family write_fault_chains).
-/
import Atto.Model.SendW
import Atto.Lemmas.RedirectExamples
namespace Atto

/-- the two defining equations of `sendW` -/
theorem sendW_fault (s : SendSettings) (req : Req) (cap : Nat) (url : Url) (hops : List Hop)
    (f : WriteFault) (o : HopOut)
    (hreach : (send s req cap url hops).1[f.hop]? = some o) (hcut : f.takes < o.wrote.length) :
    sendW s req cap url hops f =
      ((send s req cap url hops).1.take f.hop ++ [{ o with wrote := o.wrote.take f.takes }], .err f.err) := by
  unfold sendW
  dsimp only
  rw [hreach]
  dsimp only
  rw [if_pos hcut]

theorem sendW_nofault (s : SendSettings) (req : Req) (cap : Nat) (url : Url) (hops : List Hop)
    (f : WriteFault)
    (h : ∀ o, (send s req cap url hops).1[f.hop]? = some o → o.wrote.length ≤ f.takes) :
    sendW s req cap url hops f = send s req cap url hops := by
  unfold sendW
  dsimp only
  cases hr : (send s req cap url hops).1[f.hop]? with
  | none => rfl
  | some o =>
    have := h o hr
    dsimp only
    rw [if_neg (by omega)]

/-- The faulted hop is the last one, the call ends with the write error, the hops before it are those
    of the fault-free exchange and the faulted connection carries a strict prefix of its request. -/
theorem C10_write_fault_ends (s : SendSettings) (req : Req) (cap : Nat) (url : Url) (hops : List Hop)
    (f : WriteFault) (o : HopOut)
    (hreach : (send s req cap url hops).1[f.hop]? = some o) (hcut : f.takes < o.wrote.length) :
    (sendW s req cap url hops f).2 = .err f.err ∧
    (sendW s req cap url hops f).1.length = f.hop + 1 ∧
    (sendW s req cap url hops f).1.take f.hop = (send s req cap url hops).1.take f.hop ∧
    (∃ last, (sendW s req cap url hops f).1[f.hop]? = some last ∧
      last.wrote = o.wrote.take f.takes ∧ last.wrote.length = f.takes ∧
      last.wrote.length < o.wrote.length) := by
  have hlen : f.hop < (send s req cap url hops).1.length := by
    rcases List.getElem?_eq_some_iff.mp hreach with ⟨h, _⟩; exact h
  have htake : ((send s req cap url hops).1.take f.hop).length = f.hop := by
    rw [List.length_take]; omega
  rw [sendW_fault s req cap url hops f o hreach hcut]
  refine ⟨rfl, ?_, ?_, ?_⟩
  · show List.length (_ ++ _) = _
    rw [List.length_append, htake]; rfl
  · show List.take _ (_ ++ _) = _
    rw [List.take_append_of_le_length (by omega), List.take_take]; simp
  · refine ⟨{ o with wrote := o.wrote.take f.takes }, ?_, rfl, ?_, ?_⟩
    · show (List.append _ _)[f.hop]? = _
      show (_ ++ _ : List HopOut)[f.hop]? = _
      rw [List.getElem?_append_right (by omega), htake]; simp
    · show (o.wrote.take f.takes).length = _
      rw [List.length_take]; omega
    · show (o.wrote.take f.takes).length < _
      rw [List.length_take]; omega

/-- Read the other way round — the clause of the property: in an exchange with a write fault every hop
    that is followed by another hop carries the complete request of the fault-free exchange. -/
theorem C10_followed_hops_are_complete (s : SendSettings) (req : Req) (cap : Nat) (url : Url)
    (hops : List Hop) (f : WriteFault) (i : Nat)
    (hi : i + 1 < (sendW s req cap url hops f).1.length) :
    (sendW s req cap url hops f).1[i]? = (send s req cap url hops).1[i]? := by
  cases hr : (send s req cap url hops).1[f.hop]? with
  | none =>
    rw [sendW_nofault s req cap url hops f (by intro o ho; rw [hr] at ho; cases ho)]
  | some o =>
    by_cases hc : f.takes < o.wrote.length
    · have hlen : f.hop < (send s req cap url hops).1.length := by
        rcases List.getElem?_eq_some_iff.mp hr with ⟨h, _⟩; exact h
      have htake : ((send s req cap url hops).1.take f.hop).length = f.hop := by
        rw [List.length_take]; omega
      rw [sendW_fault s req cap url hops f o hr hc] at hi ⊢
      have hi' : i + 1 < ((send s req cap url hops).1.take f.hop ++ [{ o with wrote := o.wrote.take f.takes }]).length := hi
      rw [List.length_append, htake] at hi'
      simp only [List.length_cons, List.length_nil] at hi'
      have hif : i < f.hop := by omega
      show (_ ++ _ : List HopOut)[i]? = _
      rw [List.getElem?_append_left (by omega), List.getElem?_take]
      simp [hif]
    · rw [sendW_nofault s req cap url hops f (by intro o' ho; rw [hr] at ho; cases ho; omega)]

/-- a fault that never shows (the connection is not reached, or everything fits) changes nothing -/
theorem C10_write_fault_unreached (s : SendSettings) (req : Req) (cap : Nat) (url : Url)
    (hops : List Hop) (f : WriteFault)
    (h : ∀ o, (send s req cap url hops).1[f.hop]? = some o → o.wrote.length ≤ f.takes) :
    sendW s req cap url hops f = send s req cap url hops :=
  sendW_nofault s req cap url hops f h

open RdEx in
/-- non-vacuity: the chain a → b → c → 200 of the C09 examples (three requests of 77 bytes); the second
    connection takes 10 bytes and breaks with a broken pipe (kind 5): two connections, the second one
    carries 10 bytes, the call ends with that error -/
example : (sendW (rx_settings true 5) rx_req 64 rx_a rx_chain ⟨1, 10, .io 5⟩).1.map (fun o => o.wrote.length) = [77, 10] ∧
    (match (sendW (rx_settings true 5) rx_req 64 rx_a rx_chain ⟨1, 10, .io 5⟩).2 with
      | .err (.io k) => some k | _ => none) = some 5 ∧
    (send (rx_settings true 5) rx_req 64 rx_a rx_chain).1.map (fun o => o.wrote.length) = [77, 77, 77] := by
  decide +kernel

end Atto
