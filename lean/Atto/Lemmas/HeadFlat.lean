/-
  Atto/Lemmas/HeadFlat.lean — `parse_response_head` on the flat item stream: round trip of a
  well-formed head (`head_roundtrip`), the `max_headers` bound (`head_too_many`) and absence of
  panics on arbitrary input (`head_no_panic`).
-/
import Atto.Model.Head
import Atto.Spec.HeadSpec
namespace Atto

/-! ### (C) monotonicity of `specUntil`, no panic -/

theorem specUntil_mono (l : Nat) (is : List Item) (acc : Bytes) :
    (specUntil l is acc).2.length ≤ is.length ∧ (specUntil l is acc).1 ≠ .panic ∧
    ∀ bs l', (specUntil l is acc).1 = .ok (bs, l') →
      ∃ more, bs = acc ++ more ∧ l' + more.length = l ∧
        (specUntil l is acc).2.length + more.length ≤ is.length := by
  fun_induction specUntil l is acc with
  | case1 is acc =>
    refine ⟨Nat.le_refl _, by simp, ?_⟩
    intro bs l' h
    simp only [RR.ok.injEq, Prod.mk.injEq] at h
    exact ⟨[], by simp [h.1], by simp [h.2], by simp⟩
  | case2 l acc =>
    refine ⟨Nat.le_refl _, by simp, ?_⟩
    intro bs l' h
    simp only [RR.ok.injEq, Prod.mk.injEq] at h
    exact ⟨[], by simp [h.1], by simp [h.2], by simp⟩
  | case3 l is acc =>
    refine ⟨by simp, by simp, ?_⟩
    intro bs l' h
    simp only [RR.ok.injEq, Prod.mk.injEq] at h
    exact ⟨[10], by simp [h.1], by simp [h.2], by simp⟩
  | case4 l b is acc hb ih =>
    obtain ⟨h1, h2, h3⟩ := ih
    refine ⟨by simp; omega, h2, ?_⟩
    intro bs l' h
    obtain ⟨more, e1, e2, e3⟩ := h3 bs l' h
    exact ⟨b :: more, by simp [e1], by simp; omega, by simp; omega⟩
  | case5 l is acc ih =>
    obtain ⟨h1, h2, h3⟩ := ih
    refine ⟨by simp; omega, h2, ?_⟩
    intro bs l' h
    obtain ⟨more, e1, e2, e3⟩ := h3 bs l' h
    exact ⟨more, e1, e2, by simp; omega⟩
  | case6 l k is acc hk =>
    exact ⟨by simp, by simp, by simp⟩
  | case7 l is acc =>
    exact ⟨by simp, by simp, by simp⟩

@[simp] theorem flatSrc_readUntil (is : List Item) (l : Nat) :
    flatSrc.readUntil is l = specUntil l is [] := rfl
@[simp] theorem flatSrc_size (is : List Item) : flatSrc.size is = is.length := rfl

theorem readLineStrictLoop_flat_mono (fuel : Nat) : ∀ (is : List Item) (limit : Nat) (buf : Bytes),
    limit < fuel →
    (readLineStrictLoop flatSrc fuel is limit buf).1 ≠ .panic ∧
    ∀ line, (readLineStrictLoop flatSrc fuel is limit buf).1 = .ok line →
      (readLineStrictLoop flatSrc fuel is limit buf).2.length < is.length := by
  induction fuel with
  | zero => intro is limit buf h; omega
  | succ fuel ih =>
    intro is limit buf hf
    obtain ⟨h1, h2, h3⟩ := specUntil_mono limit is []
    unfold readLineStrictLoop
    simp only [flatSrc_readUntil]
    generalize hs : specUntil limit is [] = p at h1 h2 h3
    obtain ⟨r, is'⟩ := p
    cases r with
    | ok v =>
      obtain ⟨bs, limit'⟩ := v
      obtain ⟨more, e1, e2, e3⟩ := h3 bs limit' rfl
      simp only [List.nil_append] at e1
      subst e1
      simp only at h1 e3 ⊢
      split
      · simp
      · split
        · simp
        · split
          · rename_i hk _ hg
            refine ⟨by simp, ?_⟩
            intro _ _
            simp only
            omega
          · rename_i hk _ _
            have := ih is' limit' (buf ++ bs) (by omega)
            refine ⟨this.1, ?_⟩
            intro line hl
            have := this.2 line hl
            omega
    | err e => simp
    | blocked => simp
    | panic => simp at h2

theorem readLineStrict_flat_mono (is : List Item) (limit : Nat) :
    (readLineStrict flatSrc is limit).1 ≠ .panic ∧
    ∀ line, (readLineStrict flatSrc is limit).1 = .ok line →
      (readLineStrict flatSrc is limit).2.length < is.length :=
  readLineStrictLoop_flat_mono (limit + 1) is limit [] (Nat.lt_succ_self _)

theorem parseHeadersLoop_flat_no_panic (fuel : Nat) : ∀ (is : List Item) (mh cnt : Nat) (hs : Headers),
    is.length < fuel → (parseHeadersLoop flatSrc fuel is mh cnt hs).1 ≠ .panic := by
  induction fuel with
  | zero => intro is mh cnt hs h; omega
  | succ fuel ih =>
    intro is mh cnt hs hf
    obtain ⟨h1, h2⟩ := readLineStrict_flat_mono is Consts.maxLineLen
    unfold parseHeadersLoop
    generalize readLineStrict flatSrc is Consts.maxLineLen = p at h1 h2
    obtain ⟨r, is'⟩ := p
    cases r with
    | ok line =>
      have hlt := h2 line rfl
      simp only at hlt ⊢
      split
      · simp
      · split
        · simp
        · split
          · simp
          · exact ih _ _ _ _ (by omega)
          · split
            · simp
            · exact ih _ _ _ _ (by omega)
    | err e => simp
    | blocked => simp
    | panic => simp at h1

/-- (C) `parse_response_head` never panics, whatever the input stream. -/
theorem head_no_panic (is : List Item) (mh : Nat) : (parseResponseHead flatSrc is mh).1 ≠ .panic := by
  unfold parseResponseHead readLine
  simp only [flatSrc_readUntil]
  obtain ⟨h1, h2, -⟩ := specUntil_mono Consts.maxLineLen is []
  generalize specUntil Consts.maxLineLen is [] = p at h1 h2
  obtain ⟨r, is'⟩ := p
  cases r with
  | ok v =>
    obtain ⟨bs, l'⟩ := v
    simp only
    cases stripEol bs with
    | none => simp
    | some line =>
      simp only
      cases parseStatusLine line with
      | error e => simp
      | ok st =>
        simp only
        have := parseHeadersLoop_flat_no_panic (headFuel flatSrc is') is' mh 0 [] (by simp [headFuel])
        generalize parseHeadersLoop flatSrc (headFuel flatSrc is') is' mh 0 [] = q at this
        obtain ⟨r2, is2⟩ := q
        cases r2 <;> simp_all
  | err e => simp
  | blocked => simp
  | panic => simp at h2

/-! ### (A) reading lines of a rendered head -/

@[simp] theorem bytesI_append (a b : Bytes) : bytesI (a ++ b) = bytesI a ++ bytesI b := by
  simp [bytesI]
@[simp] theorem bytesI_nil : bytesI [] = [] := rfl
@[simp] theorem bytesI_cons (a : UInt8) (b : Bytes) : bytesI (a :: b) = .byte a :: bytesI b := rfl
@[simp] theorem bytesI_length (a : Bytes) : (bytesI a).length = a.length := by simp [bytesI]

/-- `specUntil` over a run of non-LF bytes followed by LF, within the limit. -/
theorem specUntil_run (pre : Bytes) : ∀ (limit : Nat) (acc : Bytes) (rest : List Item),
    (10 : UInt8) ∉ pre → pre.length < limit →
    specUntil limit (bytesI pre ++ .byte 10 :: rest) acc =
      (.ok (acc ++ pre ++ [10], limit - (pre.length + 1)), rest) := by
  induction pre with
  | nil =>
    intro limit acc rest _ hl
    cases limit with
    | zero => simp at hl
    | succ l => simp [specUntil]
  | cons b pre ih =>
    intro limit acc rest hn hl
    cases limit with
    | zero => simp at hl
    | succ l =>
      have hb : b ≠ 10 := by intro h; simp [h] at hn
      have hn' : (10 : UInt8) ∉ pre := by intro h; simp [h] at hn
      simp only [bytesI_cons, List.cons_append, specUntil, hb, if_false]
      rw [ih l (acc ++ [b]) rest hn' (by simpa using hl)]
      simp

theorem split_first_lf : ∀ (ln : Bytes), (10 : UInt8) ∈ ln →
    ∃ pre post, ln = pre ++ 10 :: post ∧ (10 : UInt8) ∉ pre := by
  intro ln
  induction ln with
  | nil => intro h; simp at h
  | cons b ln ih =>
    intro h
    by_cases hb : b = 10
    · exact ⟨[], ln, by simp [hb], by simp⟩
    · have : (10 : UInt8) ∈ ln := by
        simp only [List.mem_cons] at h
        rcases h with h | h
        · exact absurd h.symm hb
        · exact h
      obtain ⟨pre, post, e, hp⟩ := ih this
      refine ⟨b :: pre, post, by simp [e], ?_⟩
      simp only [List.mem_cons, not_or]
      exact ⟨fun h => hb h.symm, hp⟩

theorem readLineStrictLoop_line (fuel : Nat) : ∀ (ln buf : Bytes) (limit : Nat) (rest : List Item),
    (13 : UInt8) ∉ ln → ln.length + 2 ≤ limit → ln.length < fuel →
    readLineStrictLoop flatSrc fuel (bytesI (ln ++ [13, 10]) ++ rest) limit buf =
      (.ok (buf ++ ln), rest) := by
  induction fuel with
  | zero => intro ln buf limit rest _ _ h; omega
  | succ fuel ih =>
    intro ln buf limit rest h13 hlim hfuel
    by_cases h10 : (10 : UInt8) ∈ ln
    · obtain ⟨pre, post, e, hpre⟩ := split_first_lf ln h10
      subst e
      have hs : bytesI (pre ++ 10 :: post ++ [13, 10]) ++ rest
          = bytesI pre ++ .byte 10 :: (bytesI (post ++ [13, 10]) ++ rest) := by simp
      simp only [List.length_append, List.length_cons] at hlim hfuel
      unfold readLineStrictLoop
      rw [flatSrc_readUntil, hs, specUntil_run pre limit [] _ hpre (by omega)]
      have hg : ¬ (1 ≤ pre.length ∧
          (pre.getLast? = some 13 ∨ pre = [] ∧ List.getLast? buf = some 13)) := by
        intro ⟨hk, hl⟩
        rcases hl with hl | ⟨hl, _⟩
        · exact h13 (by simp [List.mem_of_getLast? hl])
        · simp [hl] at hk
      have h13' : (13 : UInt8) ∉ post := by intro h; exact h13 (by simp [h])
      have ih' := ih post (buf ++ (pre ++ [10])) (limit - (pre.length + 1)) rest h13' (by omega)
        (by omega)
      simp only [bytesI_append, bytesI_cons, bytesI_nil, List.append_assoc, List.cons_append,
        List.nil_append] at ih'
      simp [hg, ih']
    · have hpre : (10 : UInt8) ∉ ln ++ [13] := by simp [h10]
      have hs : bytesI (ln ++ [13, 10]) ++ rest = bytesI (ln ++ [13]) ++ .byte 10 :: rest := by simp
      unfold readLineStrictLoop
      rw [flatSrc_readUntil, hs, specUntil_run (ln ++ [13]) limit [] _ hpre (by simp; omega)]
      simp

theorem readLineStrict_line (ln : Bytes) (limit : Nat) (rest : List Item)
    (h13 : (13 : UInt8) ∉ ln) (hlim : ln.length + 2 ≤ limit) :
    readLineStrict flatSrc (bytesI (ln ++ [13, 10]) ++ rest) limit = (.ok ln, rest) := by
  unfold readLineStrict
  rw [readLineStrictLoop_line (limit + 1) ln [] limit rest h13 hlim (by omega)]
  simp

/-! ### one field line -/

theorem idxOf?_append_cons (a : UInt8) (xs : Bytes) : ∀ (name : Bytes), a ∉ name →
    (name ++ a :: xs).idxOf? a = some name.length := by
  intro name
  induction name with
  | nil => intro _; simp [List.idxOf?_cons]
  | cons b name ih =>
    intro h
    have hb : (b == a) = false := by
      simp only [List.mem_cons, not_or] at h
      simpa using fun e => h.1 e.symm
    have hn : a ∉ name := by intro h'; exact h (by simp [h'])
    simp [List.idxOf?_cons, hb, ih hn]

theorem drop_length_succ (name : Bytes) (x : UInt8) (xs : Bytes) :
    (name ++ x :: xs).drop (name.length + 1) = xs := by
  induction name with
  | nil => simp
  | cons b name ih => simp

theorem dropWhile_replicate_append (b : UInt8) (n : Nat) (ys : Bytes) :
    (List.replicate n b ++ ys).dropWhile (· == b) = ys.dropWhile (· == b) := by
  induction n with
  | zero => simp
  | succ n ih => simp [List.replicate_succ, ih]

theorem dropWhile_head_ne (b : UInt8) (ys : Bytes) (h : ys.head? ≠ some b) :
    ys.dropWhile (· == b) = ys := by
  cases ys with
  | nil => rfl
  | cons y ys =>
    have : (y == b) = false := by simpa using h
    simp [this]

theorem trimByte_padded (b : UInt8) (m n : Nat) (v : Bytes)
    (hh : v.head? ≠ some b) (hl : v.getLast? ≠ some b) :
    trimByte b (List.replicate m b ++ v ++ List.replicate n b) = v := by
  unfold trimByte trimLeft trimRight
  simp only [List.reverse_append, List.reverse_replicate, List.append_assoc]
  rw [dropWhile_replicate_append]
  by_cases hv : v = []
  · subst hv
    have : (List.replicate m b).dropWhile (· == b) = [] := by
      have := dropWhile_replicate_append b m []
      simp only [List.append_nil, List.dropWhile_nil] at this; exact this
    simp [this]
  · have hh' : (v.reverse ++ List.replicate m b).head? ≠ some b := by
      cases hr : v.reverse with
      | nil => simp at hr; exact absurd hr hv
      | cons y ys =>
        have : v.getLast? = some y := by
          rw [← List.head?_reverse, hr]; rfl
        simp only [List.cons_append, List.head?_cons]
        rw [← this]; exact hl
    rw [dropWhile_head_ne b _ hh']
    simp only [List.reverse_append, List.reverse_replicate, List.reverse_reverse]
    rw [dropWhile_replicate_append, dropWhile_head_ne b _ hh]

def lfToSp (b : UInt8) : UInt8 := if b = 10 then 32 else b

theorem FieldS.seen_eq (f : FieldS) : f.seen = (lowerBytes f.name, f.value.map lfToSp) := rfl

theorem parseFieldLine_wf (f : FieldS) (hwf : f.WF Consts.maxLineLen) :
    parseFieldLine f.line = .field (lowerBytes f.name) (f.value.map lfToSp) := by
  obtain ⟨hne, htc, hvb, hh32, hh10, hl32, hl10, hlen⟩ := hwf
  have h58 : (58 : UInt8) ∉ f.name := by intro h; have := htc _ h; revert this; decide
  have hn32h : f.name.head? ≠ some 32 := by
    intro h; have := htc _ (List.mem_of_head? h); revert this; decide
  have hn32l : f.name.getLast? ≠ some 32 := by
    intro h; have := htc _ (List.mem_of_getLast? h); revert this; decide
  have hline : f.line = f.name ++ 58 :: (spaces f.padL ++ f.value ++ spaces f.padR) := by
    simp [FieldS.line]
  have hidx := idxOf?_append_cons 58 (spaces f.padL ++ f.value ++ spaces f.padR) f.name h58
  have hname : trimByte 32 f.name = f.name := by
    have := trimByte_padded 32 0 0 f.name hn32h hn32l
    simpa using this
  have hval : trimByte 32 (replaceByte 10 32 (spaces f.padL ++ f.value ++ spaces f.padR))
      = f.value.map lfToSp := by
    have e : replaceByte 10 32 (spaces f.padL ++ f.value ++ spaces f.padR)
        = List.replicate f.padL 32 ++ f.value.map lfToSp ++ List.replicate f.padR 32 := by
      simp [replaceByte, spaces, lfToSp]
    rw [e]
    apply trimByte_padded
    · cases hv : f.value with
      | nil => simp
      | cons a t =>
        rw [hv] at hh32 hh10
        simp only [List.head?_cons, ne_eq, Option.some.injEq] at hh32 hh10
        simp only [List.map_cons, List.head?_cons, ne_eq, Option.some.injEq, lfToSp]
        split <;> simp_all
    · rw [List.getLast?_map]
      cases hv : f.value.getLast? with
      | none => simp
      | some a =>
        rw [hv] at hl32 hl10
        simp only [ne_eq, Option.some.injEq] at hl32 hl10
        simp only [Option.map_some, ne_eq, Option.some.injEq, lfToSp]
        split <;> simp_all
  have hlen' : f.name.length ≤ 65535 := by
    have : f.name.length ≤ f.line.length := by simp only [FieldS.line, List.length_append]; omega
    have : Consts.maxLineLen = 16384 := rfl
    omega
  have hhn : headerNameFromBytes f.name = some (lowerBytes f.name) := by
    unfold headerNameFromBytes
    rw [if_pos]
    refine ⟨hne, ?_, hlen'⟩
    simpa [List.all_eq_true] using htc
  have hvv : headerValueValid (f.value.map lfToSp) = true := by
    unfold headerValueValid
    simp only [List.all_map, List.all_eq_true, Function.comp]
    intro b hb
    rcases hvb b hb with h | h
    · have : b ≠ 10 := by intro e; subst e; revert h; decide
      simp [lfToSp, this, h]
    · subst h; decide
  unfold parseFieldLine
  rw [hline, hidx]
  simp only [List.take_left', hname, hhn]
  have hd : List.drop (f.name.length + 1) (f.name ++ 58 :: (spaces f.padL ++ f.value ++ spaces f.padR))
      = spaces f.padL ++ f.value ++ spaces f.padR := by
    exact drop_length_succ _ _ _
  rw [hd, hval, hvv]
  simp

theorem FieldS.line_no_cr (f : FieldS) (hwf : f.WF Consts.maxLineLen) : (13 : UInt8) ∉ f.line := by
  obtain ⟨_, htc, hvb, _⟩ := hwf
  simp only [FieldS.line, spaces, List.mem_append, List.mem_replicate, List.mem_singleton, not_or]
  refine ⟨⟨⟨⟨?_, by decide⟩, by simp⟩, ?_⟩, by simp⟩
  · intro h; have := htc _ h; revert this; decide
  · intro h
    rcases hvb _ h with h' | h'
    · revert h'; decide
    · revert h'; decide

theorem FieldS.line_ne_nil (f : FieldS) : f.line ≠ [] := by
  simp [FieldS.line]

/-! ### the header loop on rendered field lines -/

def renderFields (fs : List FieldS) : Bytes := fs.flatMap (fun f => f.line ++ [13, 10])

theorem full_of_lt (hs : Headers) (n : Bytes) (h : hs.length < Headers.maxSize) :
    Headers.full hs n = false := by
  simp [Headers.full, h]

theorem parseHeadersLoop_fields (fields : List FieldS) : ∀ (fuel : Nat) (rest : List Item) (mh : Nat)
    (acc : Headers), (∀ f ∈ fields, f.WF Consts.maxLineLen) → fields.length < fuel →
    acc.length + fields.length ≤ mh → acc.length + fields.length ≤ Headers.maxSize →
    parseHeadersLoop flatSrc fuel (bytesI (renderFields fields ++ [13, 10]) ++ rest) mh acc.length acc =
      (.ok (acc ++ fields.map FieldS.seen), rest) := by
  induction fields with
  | nil =>
    intro fuel rest mh acc _ hf _ _
    cases fuel with
    | zero => simp at hf
    | succ fuel =>
      have := readLineStrict_line [] Consts.maxLineLen rest (by simp) (by decide)
      simp only [List.nil_append] at this
      unfold parseHeadersLoop
      simp only [renderFields, List.flatMap_nil, List.nil_append]
      rw [this]
      simp
  | cons f fs ih =>
    intro fuel rest mh acc hwf hf hmh hcap
    cases fuel with
    | zero => simp at hf
    | succ fuel =>
      have hfw := hwf f (by simp)
      have hs : bytesI (renderFields (f :: fs) ++ [13, 10]) ++ rest
          = bytesI (f.line ++ [13, 10]) ++ (bytesI (renderFields fs ++ [13, 10]) ++ rest) := by
        simp [renderFields]
      have hrl := readLineStrict_line f.line Consts.maxLineLen
        (bytesI (renderFields fs ++ [13, 10]) ++ rest) (f.line_no_cr hfw) hfw.2.2.2.2.2.2.2
      simp only [List.length_cons] at hf hmh hcap
      unfold parseHeadersLoop
      rw [hs, hrl]
      simp only [f.line_ne_nil, if_false, Headers.len, parseFieldLine_wf f hfw]
      rw [if_neg (by omega), full_of_lt acc _ (by omega)]
      simp only [Bool.false_eq_true, if_false, Headers.append]
      have hl : acc.length + 1 = (acc ++ [(lowerBytes f.name, f.value.map lfToSp)]).length := by simp
      rw [hl, ih fuel rest mh (acc ++ [(lowerBytes f.name, f.value.map lfToSp)])
        (fun g hg => hwf g (by simp [hg])) (by omega) (by simp; omega) (by simp; omega)]
      simp [FieldS.seen_eq]

theorem parseHeadersLoop_too_many (fields : List FieldS) : ∀ (fuel : Nat) (rest : List Item) (mh : Nat)
    (acc : Headers), (∀ f ∈ fields, f.WF Consts.maxLineLen) → fields.length < fuel →
    acc.length ≤ mh → mh < acc.length + fields.length → mh ≤ Headers.maxSize →
    (parseHeadersLoop flatSrc fuel (bytesI (renderFields fields ++ [13, 10]) ++ rest) mh acc.length acc).1 =
      .err .header := by
  induction fields with
  | nil => intro fuel rest mh acc _ _ h1 h2 _; simp at h2; omega
  | cons f fs ih =>
    intro fuel rest mh acc hwf hf hacc hmh hcap
    cases fuel with
    | zero => simp at hf
    | succ fuel =>
      have hfw := hwf f (by simp)
      have hs : bytesI (renderFields (f :: fs) ++ [13, 10]) ++ rest
          = bytesI (f.line ++ [13, 10]) ++ (bytesI (renderFields fs ++ [13, 10]) ++ rest) := by
        simp [renderFields]
      have hrl := readLineStrict_line f.line Consts.maxLineLen
        (bytesI (renderFields fs ++ [13, 10]) ++ rest) (f.line_no_cr hfw) hfw.2.2.2.2.2.2.2
      simp only [List.length_cons] at hf hmh
      unfold parseHeadersLoop
      rw [hs, hrl]
      simp only [f.line_ne_nil, if_false, Headers.len, parseFieldLine_wf f hfw]
      by_cases he : acc.length = mh
      · rw [if_pos he]
      · rw [if_neg he, full_of_lt acc _ (by omega)]
        simp only [Bool.false_eq_true, if_false, Headers.append]
        have hl : acc.length + 1 = (acc ++ [(lowerBytes f.name, f.value.map lfToSp)]).length := by simp
        rw [hl]
        exact ih fuel rest mh (acc ++ [(lowerBytes f.name, f.value.map lfToSp)])
          (fun g hg => hwf g (by simp [hg])) (by omega) (by simp; omega) (by simp; omega) hcap

/-! ### the status line -/

theorem readLine_crlf_line (ln : Bytes) (limit : Nat) (rest : List Item)
    (h10 : (10 : UInt8) ∉ ln) (hlim : ln.length + 2 ≤ limit) :
    readLine flatSrc (bytesI (ln ++ [13, 10]) ++ rest) limit = (.ok ln, rest) := by
  have hpre : (10 : UInt8) ∉ ln ++ [13] := by simp [h10]
  have hs : bytesI (ln ++ [13, 10]) ++ rest = bytesI (ln ++ [13]) ++ .byte 10 :: rest := by simp
  unfold readLine
  rw [flatSrc_readUntil, hs, specUntil_run (ln ++ [13]) limit [] _ hpre (by simp; omega)]
  simp [stripEol]

theorem splitOnByte_append_sep (sep : UInt8) (xs : Bytes) : ∀ (v : Bytes), sep ∉ v →
    splitOnByte sep (v ++ sep :: xs) = v :: splitOnByte sep xs := by
  intro v
  induction v with
  | nil => intro _; simp [splitOnByte]
  | cons b v ih =>
    intro h
    have hb : b ≠ sep := by intro e; exact h (by simp [e])
    have hv : sep ∉ v := by intro h'; exact h (by simp [h'])
    simp [splitOnByte, hb, ih hv]

theorem splitOnByte_no_sep (sep : UInt8) : ∀ (v : Bytes), sep ∉ v → splitOnByte sep v = [v] := by
  intro v
  induction v with
  | nil => intro _; simp [splitOnByte]
  | cons b v ih =>
    intro h
    have hb : b ≠ sep := by intro e; exact h (by simp [e])
    have hv : sep ∉ v := by intro h'; exact h (by simp [h'])
    simp [splitOnByte, hb, ih hv]

theorem splitSpaces_spaces (n : Nat) (ys : Bytes) : splitSpaces (spaces n ++ ys) = splitSpaces ys := by
  induction n with
  | zero => simp [spaces]
  | succ n ih =>
    simp only [splitSpaces, spaces] at ih ⊢
    simpa [List.replicate_succ, splitOnByte] using ih

theorem splitSpaces_word_sep (v xs : Bytes) (hne : v ≠ []) (h : (32 : UInt8) ∉ v) :
    splitSpaces (v ++ 32 :: xs) = v :: splitSpaces xs := by
  simp [splitSpaces, splitOnByte_append_sep 32 xs v h, hne]

theorem splitSpaces_word (v : Bytes) (hne : v ≠ []) (h : (32 : UInt8) ∉ v) :
    splitSpaces v = [v] := by
  simp [splitSpaces, splitOnByte_no_sep 32 v h, hne]

theorem render3_facts : ∀ c, c < 1000 → 100 ≤ c →
    ((32 : UInt8) ∉ render3 c ∧ (10 : UInt8) ∉ render3 c ∧
      statusFromBytes (render3 c) = some c) := by
  decide +kernel

theorem render3_ne_nil (c : Nat) : render3 c ≠ [] := by simp [render3]

theorem parseStatusLine_wf (h : HeadS) (hwf : h.WF Consts.maxLineLen) :
    parseStatusLine h.statusLine = .ok h.code := by
  obtain ⟨hvne, hv32, _, hsp, hlo, hhi, _⟩ := hwf
  obtain ⟨hc32, _, hst⟩ := render3_facts h.code (by omega) hlo
  obtain ⟨n, hn⟩ : ∃ n, h.sp1 = n + 1 := ⟨h.sp1 - 1, by omega⟩
  have hsl : ∃ tl, splitSpaces h.statusLine = h.version :: render3 h.code :: tl := by
    unfold HeadS.statusLine
    rw [hn]
    have e : spaces (n + 1) = 32 :: spaces n := by simp [spaces, List.replicate_succ]
    rw [e]
    simp only [List.append_assoc, List.cons_append]
    rw [splitSpaces_word_sep _ _ hvne hv32, splitSpaces_spaces]
    split
    · exact ⟨[], by rw [List.append_nil, splitSpaces_word _ (render3_ne_nil _) hc32]⟩
    · exact ⟨_, by rw [splitSpaces_word_sep _ _ (render3_ne_nil _) hc32]⟩
  obtain ⟨tl, htl⟩ := hsl
  simp [parseStatusLine, htl, hst]

theorem HeadS.statusLine_no_lf (h : HeadS) (hwf : h.WF Consts.maxLineLen) :
    (10 : UInt8) ∉ h.statusLine := by
  obtain ⟨_, _, hv10, _, hlo, hhi, hr10, _⟩ := hwf
  obtain ⟨_, hc10, _⟩ := render3_facts h.code (by omega) hlo
  unfold HeadS.statusLine
  simp only [List.mem_append, not_or, spaces, List.mem_replicate]
  refine ⟨⟨⟨hv10, by simp⟩, hc10⟩, ?_⟩
  split
  · simp
  · simp [hr10]

theorem renderFields_length (fs : List FieldS) : fs.length ≤ (renderFields fs).length := by
  induction fs with
  | nil => simp [renderFields]
  | cons f fs ih =>
    simp only [renderFields, List.flatMap_cons, List.length_append, List.length_cons] at ih ⊢
    omega

theorem HeadS.render_eq (h : HeadS) :
    h.render = h.statusLine ++ [13, 10] ++ (renderFields h.fields ++ [13, 10]) := by
  simp [HeadS.render, renderFields]

/-! ### main theorems -/

/-- (A) the status code and the header fields are reported exactly as sent; the body is untouched. -/
theorem head_roundtrip (h : HeadS) (hwf : h.WF Consts.maxLineLen) (rest : List Item) (mh : Nat)
    (hmh : h.fields.length ≤ mh) (hcap : h.fields.length ≤ Headers.maxSize) :
    parseResponseHead flatSrc (bytesI h.render ++ rest) mh = (.ok (h.code, h.seen), rest) := by
  have hs : bytesI h.render ++ rest = bytesI (h.statusLine ++ [13, 10]) ++
      (bytesI (renderFields h.fields ++ [13, 10]) ++ rest) := by
    rw [h.render_eq]; simp
  unfold parseResponseHead
  rw [hs, readLine_crlf_line _ _ _ (h.statusLine_no_lf hwf) hwf.2.2.2.2.2.2.2.2.1]
  simp only [parseStatusLine_wf h hwf]
  rw [show (0 : Nat) = ([] : Headers).length from rfl,
    parseHeadersLoop_fields h.fields _ rest mh [] hwf.2.2.2.2.2.2.2.2.2
    (by have := renderFields_length h.fields; simp [headFuel]; omega) (by simpa using hmh)
    (by simpa using hcap)]
  simp [HeadS.seen]

/-- (B) one field more than `max_headers` is refused. -/
theorem head_too_many (h : HeadS) (hwf : h.WF Consts.maxLineLen) (rest : List Item) (mh : Nat)
    (hmh : mh < h.fields.length) (hcap : mh ≤ Headers.maxSize) :
    (parseResponseHead flatSrc (bytesI h.render ++ rest) mh).1 = .err .header := by
  have hs : bytesI h.render ++ rest = bytesI (h.statusLine ++ [13, 10]) ++
      (bytesI (renderFields h.fields ++ [13, 10]) ++ rest) := by
    rw [h.render_eq]; simp
  unfold parseResponseHead
  rw [hs, readLine_crlf_line _ _ _ (h.statusLine_no_lf hwf) hwf.2.2.2.2.2.2.2.2.1]
  simp only [parseStatusLine_wf h hwf]
  have := parseHeadersLoop_too_many h.fields
    (headFuel flatSrc (bytesI (renderFields h.fields ++ [13, 10]) ++ rest)) rest mh []
    hwf.2.2.2.2.2.2.2.2.2
    (by have := renderFields_length h.fields; simp [headFuel]; omega) (by simp)
    (by simpa using hmh) hcap
  simp only [List.length_nil] at this
  generalize parseHeadersLoop flatSrc _ _ mh 0 [] = q at this
  obtain ⟨r, is'⟩ := q
  simp only at this
  subst this
  rfl

end Atto
