/-
  Atto/Lemmas/WatchdogStepsLemmas.lean — the interleaving model of the deadline watchdog
  (Atto/Model/WatchdogSteps.lean): runs, reachability, the invariant `Inv dropFirst` of every state
  reachable from `init` (for BOTH source orders), the consequences for a read, and the simulation
  `Rel` that ties the model with `dropFirst = true` to the atomic model (Atto/Model/Watchdog.lean).
  Used by Atto/Props/C13s.lean.
-/
import Atto.Model.WatchdogSteps
import Atto.Lemmas.WatchdogLemmas
namespace Atto
namespace WdS

/-! ### runs -/

theorem run_nil (df : Bool) (s : St) : run df s [] = some (s, []) := rfl

theorem run_cons {df : Bool} {s s' : St} {a : Act} {rest : List Act} {outs : List Out} :
    run df s (a :: rest) = some (s', outs) ↔
      ∃ s1 o os, step df s a = some (s1, o) ∧ run df s1 rest = some (s', os) ∧ outs = o.toList ++ os := by
  simp only [run]
  constructor
  · intro h
    split at h
    · cases h
    · next s1 o hst =>
      split at h
      · cases h
      · next s2 os hr =>
        injection h with h; injection h with h1 h2
        exact ⟨s1, o, os, hst, by rw [hr, h1], h2.symm⟩
  · rintro ⟨s1, o, os, hst, hr, rfl⟩
    simp [hst, hr]

theorem run_append {df : Bool} {s s' : St} {l1 l2 : List Act} {outs : List Out} :
    run df s (l1 ++ l2) = some (s', outs) ↔
      ∃ s1 o1 o2, run df s l1 = some (s1, o1) ∧ run df s1 l2 = some (s', o2) ∧ outs = o1 ++ o2 := by
  induction l1 generalizing s outs with
  | nil =>
    simp only [List.nil_append, run_nil]
    constructor
    · intro h; exact ⟨s, [], outs, rfl, h, rfl⟩
    · rintro ⟨s1, o1, o2, h1, h2, rfl⟩
      injection h1 with h1; injection h1 with h1 h1'
      subst h1 h1'; exact h2
  | cons a rest ih =>
    simp only [List.cons_append, run_cons]
    constructor
    · rintro ⟨s1, o, os, hst, hr, rfl⟩
      obtain ⟨s2, o1, o2, h1, h2, rfl⟩ := ih.mp hr
      exact ⟨s2, o.toList ++ o1, o2, ⟨s1, o, o1, hst, h1, rfl⟩, h2, by simp⟩
    · rintro ⟨s2, o1', o2, ⟨s1, o, o1, hst, h1, rfl⟩, h2, rfl⟩
      exact ⟨s1, o, o1 ++ o2, hst, ih.mpr ⟨s2, o1, o2, h1, h2, rfl⟩, by simp⟩

/-- `s` is reachable from `init` by SOME interleaving of enabled actions -/
def Reach (df : Bool) (s : St) : Prop := ∃ acts outs, run df init acts = some (s, outs)

theorem Reach.start (df : Bool) : Reach df init := ⟨[], [], rfl⟩

theorem Reach.next {df : Bool} {s s' : St} {a : Act} {o : Option Out} (r : Reach df s)
    (h : WdS.step df s a = some (s', o)) : Reach df s' := by
  obtain ⟨acts, outs, hr⟩ := r
  exact ⟨acts ++ [a], outs ++ (o.toList ++ []),
    run_append.mpr ⟨s, outs, _, hr, run_cons.mpr ⟨s', o, [], h, rfl, rfl⟩, rfl⟩⟩

theorem Reach.along {df : Bool} {s s' : St} {acts : List Act} {outs : List Out} (r : Reach df s)
    (h : WdS.run df s acts = some (s', outs)) : Reach df s' := by
  obtain ⟨a0, o0, hr⟩ := r
  exact ⟨a0 ++ acts, o0 ++ outs, run_append.mpr ⟨s, o0, outs, hr, h, rfl⟩⟩

/-- induction along a run -/
theorem run_preserves {df : Bool} {P : St → Prop}
    (hstep : ∀ s a s' o, P s → step df s a = some (s', o) → P s')
    {s s' : St} {acts : List Act} {outs : List Out} (h : run df s acts = some (s', outs)) :
    P s → P s' := by
  induction acts generalizing s outs with
  | nil => injection h with h; injection h with h1 _; subst h1; exact id
  | cons a rest ih =>
    obtain ⟨s1, o, os, hst, hr, _⟩ := run_cons.mp h
    exact fun hp => ih hr (hstep _ _ _ _ hp hst)

theorem Reach.preserves {df : Bool} {P : St → Prop} (h0 : P WdS.init)
    (hstep : ∀ s a s' o, P s → WdS.step df s a = some (s', o) → P s') {s : St} (r : Reach df s) : P s := by
  obtain ⟨acts, outs, hr⟩ := r
  exact run_preserves hstep hr h0

/-! ### the steps, by cases -/

/-- the ways a `read` can go -/
inductive ReadCase (s : St) (n : Nat) : St × Out → Prop where
  | data : 0 < s.pending →
      ReadCase s n ({ s with pending := s.pending - min n s.pending }, .data (min n s.pending))
  | eofReleased : s.pending = 0 → (s.peerClosed = true ∨ s.shut = true) → s.hasTx = false →
      ReadCase s n (s, .eof)
  | eofPingWaiting : s.pending = 0 → (s.peerClosed = true ∨ s.shut = true) → s.hasTx = true →
      s.rxAlive = true → s.pc = .waiting →
      ReadCase s n ({ s with pc := .exited, rxAlive := false, hasTx := false }, .eof)
  | eofPingLate : s.pending = 0 → (s.peerClosed = true ∨ s.shut = true) → s.hasTx = true →
      s.rxAlive = true → s.pc ≠ .waiting →
      ReadCase s n ({ s with hasTx := false }, .eof)
  | pingFailed : s.pending = 0 → (s.peerClosed = true ∨ s.shut = true) → s.hasTx = true →
      s.rxAlive = false → ReadCase s n (s, .timedOut)

theorem read_cases {s : St} {n : Nat} {r : St × Out} (h : read s n = some r) :
    0 < n ∧ ReadCase s n r := by
  unfold read at h
  split at h
  · cases h
  next hn =>
  refine ⟨Nat.pos_of_ne_zero hn, ?_⟩
  split at h
  · next hp => injection h with h; subst h; exact .data hp
  next hp =>
  have hp0 : s.pending = 0 := by omega
  split at h
  · next hz =>
    have hz' : s.peerClosed = true ∨ s.shut = true := by simpa using hz
    split at h
    · next hx =>
      unfold ping at h
      split at h
      · next s' hpg =>
        split at hpg
        · next hrx =>
          injection hpg with _ h2
          injection h with h; subst h; subst h2
          cases hpc : s.pc with
          | waiting => exact .eofPingWaiting hp0 hz' hx hrx hpc
          | afterFirst => exact .eofPingLate hp0 hz' hx hrx (by simp [hpc])
          | done => exact .eofPingLate hp0 hz' hx hrx (by simp [hpc])
          | exited => exact .eofPingLate hp0 hz' hx hrx (by simp [hpc])
        · cases hpg
      · next s' hpg =>
        split at hpg
        · cases hpg
        · next hrx =>
          injection hpg with _ h2
          injection h with h; subst h; subst h2
          exact .pingFailed hp0 hz' hx (by simpa using hrx)
    · next hx =>
      injection h with h; subst h
      exact .eofReleased hp0 hz' (by simpa using hx)
  · cases h

/-- an output comes from a read -/
theorem step_out {df : Bool} {s s' : St} {a : Act} {x : Out} (h : step df s a = some (s', some x)) :
    ∃ n, a = .read n ∧ read s n = some (s', x) := by
  cases a with
  | read n =>
    refine ⟨n, rfl, ?_⟩
    simp only [step] at h
    split at h
    · next s1 o hr => injection h with h; injection h with h1 h2; injection h2 with h2; rw [hr, h1, h2]
    · cases h
  | tick => simp [step] at h
  | send n => simp only [step] at h; split at h <;> simp at h
  | close => simp [step] at h
  | dropResponse => simp [step] at h
  | wdFire => simp only [step] at h; split at h <;> simp at h
  | wdExit => simp only [step] at h; split at h <;> simp at h

theorem step_read {df : Bool} {s s' : St} {n : Nat} {o : Option Out}
    (h : step df s (.read n) = some (s', o)) : ∃ x, o = some x ∧ read s n = some (s', x) := by
  simp only [step] at h
  split at h
  · next s1 x hr => injection h with h; injection h with h1 h2; exact ⟨x, h2.symm, by rw [hr, h1]⟩
  · cases h

theorem step_read_iff {df : Bool} {s s' : St} {n : Nat} {x : Out} :
    step df s (.read n) = some (s', some x) ↔ read s n = some (s', x) := by
  constructor
  · intro h; obtain ⟨y, hy, hr⟩ := step_read h; injection hy with hy; rw [hy]; exact hr
  · intro h; simp [step, h]

/-! ### things that only ever go one way (both orders) -/

theorem rx_dead_step {df : Bool} {s s' : St} {a : Act} {o : Option Out}
    (h : step df s a = some (s', o)) (hr : s.rxAlive = false) : s'.rxAlive = false := by
  cases a with
  | tick => simp [step] at h; obtain ⟨h, _⟩ := h; subst h; exact hr
  | send n =>
    simp only [step] at h; split at h
    · cases h
    · injection h with h; injection h with h _; subst h; exact hr
  | close => simp [step] at h; obtain ⟨h, _⟩ := h; subst h; exact hr
  | dropResponse => simp [step] at h; obtain ⟨h, _⟩ := h; subst h; exact hr
  | wdFire =>
    simp only [step] at h; split at h
    · next s1 hw =>
      injection h with h; injection h with h _; subst h
      unfold wdFire at hw
      split at hw
      · split at hw
        · injection hw with hw; subst hw; simp only [first]; split <;> simp [dropRx, shutdown, hr]
        · cases hw
      · injection hw with hw; subst hw; simp only [second]; split <;> simp [dropRx, shutdown, hr]
      · cases hw
      · cases hw
    · cases h
  | wdExit =>
    simp only [step] at h; split at h
    · next s1 hw =>
      injection h with h; injection h with h _; subst h
      unfold wdExit at hw; split at hw
      · injection hw with hw; subst hw; rfl
      · cases hw
    · cases h
  | read n =>
    obtain ⟨x, _, hrd⟩ := step_read h
    obtain ⟨_, hc⟩ := read_cases hrd
    cases hc with
    | data => exact hr
    | eofReleased => exact hr
    | eofPingWaiting => rfl
    | eofPingLate => exact hr
    | pingFailed => exact hr

theorem shut_step {df : Bool} {s s' : St} {a : Act} {o : Option Out}
    (h : step df s a = some (s', o)) (hs : s.shut = true) : s'.shut = true := by
  cases a with
  | tick => simp [step] at h; obtain ⟨h, _⟩ := h; subst h; exact hs
  | send n => simp [step, hs] at h
  | close => simp [step] at h; obtain ⟨h, _⟩ := h; subst h; exact hs
  | dropResponse => simp [step] at h; obtain ⟨h, _⟩ := h; subst h; exact hs
  | wdFire =>
    simp only [step] at h; split at h
    · next s1 hw =>
      injection h with h; injection h with h _; subst h
      unfold wdFire at hw
      split at hw
      · split at hw
        · injection hw with hw; subst hw; simp only [first]; split <;> simp [dropRx, shutdown, hs]
        · cases hw
      · injection hw with hw; subst hw; simp only [second]; split <;> simp [dropRx, shutdown, hs]
      · cases hw
      · cases hw
    · cases h
  | wdExit =>
    simp only [step] at h; split at h
    · next s1 hw =>
      injection h with h; injection h with h _; subst h
      unfold wdExit at hw; split at hw
      · injection hw with hw; subst hw; exact hs
      · cases hw
    · cases h
  | read n =>
    obtain ⟨x, _, hrd⟩ := step_read h
    obtain ⟨_, hc⟩ := read_cases hrd
    cases hc <;> exact hs

theorem rx_dead_run {df : Bool} {s s' : St} {acts : List Act} {outs : List Out}
    (h : run df s acts = some (s', outs)) (hr : s.rxAlive = false) : s'.rxAlive = false :=
  run_preserves (P := fun x => x.rxAlive = false) (fun _ _ _ _ hp hst => rx_dead_step hst hp) h hr

theorem shut_run {df : Bool} {s s' : St} {acts : List Act} {outs : List Out}
    (h : run df s acts = some (s', outs)) (hs : s.shut = true) : s'.shut = true :=
  run_preserves (P := fun x => x.shut = true) (fun _ _ _ _ hp hst => shut_step hst hp) h hs

/-- the ping succeeds iff the receiver exists -/
theorem ping_fst (s : St) : (ping s).1 = s.rxAlive := by
  unfold ping; split <;> simp_all

/-! ### the invariant (both orders) -/

/-- What holds in every state reachable from `init`: the program counter of the watchdog determines
    `rxAlive` and `shut` (given the source order `df`); an exited watchdog means the sender is gone;
    the deadline branch is entered only once the deadline has been reached. -/
structure Inv (df : Bool) (s : St) : Prop where
  rx : s.rxAlive = (decide (s.pc = .waiting) || (decide (s.pc = .afterFirst) && !df))
  sh : s.shut = (decide (s.pc = .done) || (decide (s.pc = .afterFirst) && !df))
  exited_noTx : s.pc = .exited → s.hasTx = false
  fired_due : s.pc = .afterFirst ∨ s.pc = .done → s.due = true

theorem inv_init (df : Bool) : Inv df init := by
  constructor <;> simp [init]

theorem inv_wdFire {df : Bool} {s s' : St} (h : Inv df s) (hw : wdFire df s = some s') : Inv df s' := by
  obtain ⟨h1, h2, h3, h4⟩ := h
  unfold wdFire at hw
  split at hw
  · next hpc =>
    split at hw
    · next hd =>
      injection hw with hw; subst hw
      cases df <;> constructor <;> simp_all [first, dropRx, shutdown]
    · cases hw
  · next hpc =>
    injection hw with hw; subst hw
    cases df <;> constructor <;> simp_all [second, dropRx, shutdown]
  · cases hw
  · cases hw

theorem inv_wdExit {df : Bool} {s s' : St} (h : Inv df s) (hw : wdExit s = some s') : Inv df s' := by
  obtain ⟨h1, h2, h3, h4⟩ := h
  unfold wdExit at hw
  split at hw
  · next hc =>
    injection hw with hw; subst hw
    constructor <;> simp_all
  · cases hw

theorem inv_read {df : Bool} {s : St} {n : Nat} {r : St × Out} (h : Inv df s)
    (hr : read s n = some r) : Inv df r.1 := by
  obtain ⟨h1, h2, h3, h4⟩ := h
  obtain ⟨_, hc⟩ := read_cases hr
  cases hc with
  | data => exact ⟨h1, h2, h3, h4⟩
  | eofReleased => exact ⟨h1, h2, h3, h4⟩
  | eofPingWaiting _ _ _ _ hpc => constructor <;> simp_all
  | eofPingLate => exact ⟨h1, h2, fun _ => rfl, h4⟩
  | pingFailed => exact ⟨h1, h2, h3, h4⟩

theorem inv_step {df : Bool} {s s' : St} {a : Act} {o : Option Out} (h : Inv df s)
    (hst : step df s a = some (s', o)) : Inv df s' := by
  cases a with
  | tick =>
    simp [step] at hst; obtain ⟨hst, _⟩ := hst; subst hst
    exact ⟨h.rx, h.sh, h.exited_noTx, fun _ => rfl⟩
  | send n =>
    simp only [step] at hst; split at hst
    · cases hst
    · injection hst with hst; injection hst with hst _; subst hst
      exact ⟨h.rx, h.sh, h.exited_noTx, h.fired_due⟩
  | close =>
    simp [step] at hst; obtain ⟨hst, _⟩ := hst; subst hst
    exact ⟨h.rx, h.sh, h.exited_noTx, h.fired_due⟩
  | dropResponse =>
    simp [step] at hst; obtain ⟨hst, _⟩ := hst; subst hst
    exact ⟨h.rx, h.sh, fun _ => rfl, h.fired_due⟩
  | wdFire =>
    simp only [step] at hst; split at hst
    · next s1 hw => injection hst with hst; injection hst with hst _; subst hst; exact inv_wdFire h hw
    · cases hst
  | wdExit =>
    simp only [step] at hst; split at hst
    · next s1 hw => injection hst with hst; injection hst with hst _; subst hst; exact inv_wdExit h hw
    · cases hst
  | read n =>
    obtain ⟨x, _, hrd⟩ := step_read hst
    exact inv_read h hrd

theorem inv_run {df : Bool} {s s' : St} {acts : List Act} {outs : List Out} (h : Inv df s)
    (hr : run df s acts = some (s', outs)) : Inv df s' :=
  run_preserves (fun _ _ _ _ hp hst => inv_step hp hst) hr h

theorem inv_reach {df : Bool} {s : St} (r : Reach df s) : Inv df s :=
  r.preserves (inv_init df) (fun _ _ _ _ hp hst => inv_step hp hst)

/-! ### order (1);(2): what the invariant gives -/

/-- `drop(rx)` before `shutdown`: a shut socket means the receiver is gone -/
theorem inv_shut_rx_dead {s : St} (h : Inv true s) (hs : s.shut = true) : s.rxAlive = false := by
  obtain ⟨h1, h2, _, _⟩ := h
  cases hpc : s.pc <;> simp_all

/-- … and a live receiver means a watchdog that has not started to act -/
theorem inv_rx_alive_waiting {s : St} (h : Inv true s) (hr : s.rxAlive = true) :
    s.pc = .waiting ∧ s.shut = false := by
  obtain ⟨h1, h2, _, _⟩ := h
  cases hpc : s.pc <;> simp_all

theorem read_cut {s : St} (h : Inv true s) (n : Nat) (hn : 0 < n) (hs : s.shut = true)
    (hp : s.pending = 0) (hx : s.hasTx = true) : read s n = some (s, .timedOut) := by
  have hr := inv_shut_rx_dead h hs
  unfold read ping
  simp [Nat.ne_of_gt hn, hp, hs, hx, hr]

theorem read_eof_genuine {s s' : St} {n : Nat} (h : Inv true s) (hx : s.hasTx = true)
    (hr : read s n = some (s', .eof)) :
    s.peerClosed = true ∧ s.shut = false ∧ s.pc = .waiting ∧ s.pending = 0 ∧
      s' = { s with pc := .exited, rxAlive := false, hasTx := false } := by
  obtain ⟨_, hc⟩ := read_cases hr
  cases hc with
  | eofReleased _ _ hx' => rw [hx] at hx'; cases hx'
  | eofPingWaiting hp hz _ hrx hpc =>
    obtain ⟨_, hsh⟩ := inv_rx_alive_waiting h hrx
    refine ⟨?_, hsh, hpc, hp, rfl⟩
    rcases hz with hz | hz
    · exact hz
    · rw [hsh] at hz; cases hz
  | eofPingLate _ _ _ hrx hpc => exact absurd (inv_rx_alive_waiting h hrx).1 hpc

/-! ### both orders: a `TimedOut` needs the deadline -/

theorem read_timedOut_due {df : Bool} {s s' : St} {n : Nat} (h : Inv df s)
    (hr : read s n = some (s', .timedOut)) :
    s.due = true ∧ s.hasTx = true ∧ s.rxAlive = false ∧ s' = s := by
  obtain ⟨_, hc⟩ := read_cases hr
  cases hc with
  | pingFailed _ _ hx hrx =>
    refine ⟨?_, hx, hrx, rfl⟩
    obtain ⟨h1, _, h3, h4⟩ := h
    cases hpc : s.pc with
    | waiting => simp_all
    | afterFirst => exact h4 (.inl hpc)
    | done => exact h4 (.inr hpc)
    | exited => have := h3 hpc; rw [hx] at this; cases this

/-! ### both orders: after the end of the stream -/

theorem noTx_step {df : Bool} {s s' : St} {a : Act} {o : Option Out}
    (h : step df s a = some (s', o)) (hx : s.hasTx = false) : s'.hasTx = false := by
  cases a with
  | tick => simp [step] at h; obtain ⟨h, _⟩ := h; subst h; exact hx
  | send n =>
    simp only [step] at h; split at h
    · cases h
    · injection h with h; injection h with h _; subst h; exact hx
  | close => simp [step] at h; obtain ⟨h, _⟩ := h; subst h; exact hx
  | dropResponse => simp [step] at h; obtain ⟨h, _⟩ := h; subst h; rfl
  | wdFire =>
    simp only [step] at h; split at h
    · next s1 hw =>
      injection h with h; injection h with h _; subst h
      unfold wdFire at hw
      split at hw
      · split at hw
        · injection hw with hw; subst hw; simp only [first]; split <;> simp [dropRx, shutdown, hx]
        · cases hw
      · injection hw with hw; subst hw; simp only [second]; split <;> simp [dropRx, shutdown, hx]
      · cases hw
      · cases hw
    · cases h
  | wdExit =>
    simp only [step] at h; split at h
    · next s1 hw =>
      injection h with h; injection h with h _; subst h
      unfold wdExit at hw; split at hw
      · injection hw with hw; subst hw; exact hx
      · cases hw
    · cases h
  | read n =>
    obtain ⟨x, _, hrd⟩ := step_read h
    obtain ⟨_, hc⟩ := read_cases hrd
    cases hc with
    | data => exact hx
    | eofReleased => exact hx
    | eofPingWaiting => rfl
    | eofPingLate => rfl
    | pingFailed => exact hx

/-- the sender is never handed back -/
theorem hasTx_run {df : Bool} {s s' : St} {acts : List Act} {outs : List Out}
    (hr : run df s acts = some (s', outs)) (hx : s'.hasTx = true) : s.hasTx = true := by
  cases h : s.hasTx with
  | true => rfl
  | false =>
    have := run_preserves (P := fun x => x.hasTx = false) (fun _ _ _ _ hp hst => noTx_step hst hp) hr h
    rw [hx] at this; cases this

/-- without the sender a read never reports a timeout -/
theorem noTx_step_out {df : Bool} {s s' : St} {a : Act} {x : Out}
    (h : step df s a = some (s', some x)) (hx : s.hasTx = false) : x = .eof ∨ ∃ k, x = .data k := by
  obtain ⟨n, _, hrd⟩ := step_out h
  obtain ⟨_, hc⟩ := read_cases hrd
  cases hc with
  | data => exact .inr ⟨_, rfl⟩
  | eofReleased => exact .inl rfl
  | eofPingWaiting _ _ hx' => rw [hx] at hx'; cases hx'
  | eofPingLate _ _ hx' => rw [hx] at hx'; cases hx'
  | pingFailed _ _ hx' => rw [hx] at hx'; cases hx'

theorem noTx_run {df : Bool} {s s' : St} {acts : List Act} {outs : List Out}
    (hr : run df s acts = some (s', outs)) (hx : s.hasTx = false) :
    ∀ x ∈ outs, x = .eof ∨ ∃ k, x = .data k := by
  induction acts generalizing s outs with
  | nil => injection hr with hr; injection hr with _ h2; subst h2; intro x hx; cases hx
  | cons a rest ih =>
    obtain ⟨s1, o, os, hst, hr1, rfl⟩ := run_cons.mp hr
    intro x hmem
    rcases List.mem_append.mp hmem with hm | hm
    · cases o with
      | none => cases hm
      | some y =>
        have : x = y := by simpa using hm
        subst this
        exact noTx_step_out hst hx
    · exact ih hr1 (noTx_step hst hx) x hm

/-- a read that returns `Ok(0)` leaves the reader without its sender -/
theorem eof_step_noTx {df : Bool} {s s' : St} {a : Act}
    (h : step df s a = some (s', some .eof)) : s'.hasTx = false := by
  obtain ⟨n, _, hrd⟩ := step_out h
  obtain ⟨_, hc⟩ := read_cases hrd
  cases hc with
  | eofReleased _ _ hx => exact hx
  | eofPingWaiting => rfl
  | eofPingLate => rfl

/-- in a whole interleaving: whatever follows an `Ok(0)` is `Ok(0)` or data -/
theorem after_eof {df : Bool} {s s' : St} {acts : List Act} {outs o1 o2 : List Out}
    (hr : run df s acts = some (s', outs)) (ho : outs = o1 ++ .eof :: o2) :
    ∀ x ∈ o2, x = .eof ∨ ∃ k, x = .data k := by
  induction acts generalizing s outs o1 with
  | nil =>
    injection hr with hr; injection hr with _ h2; subst h2
    cases o1 <;> cases ho
  | cons a rest ih =>
    obtain ⟨s1, o, os, hst, hr1, rfl⟩ := run_cons.mp hr
    cases o with
    | none => exact ih hr1 (by simpa using ho)
    | some y =>
      cases o1 with
      | nil =>
        simp only [Option.toList, List.cons_append, List.nil_append, List.cons.injEq] at ho
        obtain ⟨hy, hos⟩ := ho
        subst hy; subst hos
        exact noTx_run hr1 (eof_step_noTx hst)
      | cons z o1' =>
        simp only [Option.toList, List.cons_append, List.nil_append, List.cons.injEq] at ho
        exact ih hr1 ho.2

/-- a watchdog that has exited never touches the socket (both orders) -/
theorem exited_step {df : Bool} {s s' : St} {a : Act} {o : Option Out}
    (h : step df s a = some (s', o)) (hp : s.pc = .exited) : s'.pc = .exited ∧ s'.shut = s.shut := by
  cases a with
  | tick => simp [step] at h; obtain ⟨h, _⟩ := h; subst h; exact ⟨hp, rfl⟩
  | send n =>
    simp only [step] at h; split at h
    · cases h
    · injection h with h; injection h with h _; subst h; exact ⟨hp, rfl⟩
  | close => simp [step] at h; obtain ⟨h, _⟩ := h; subst h; exact ⟨hp, rfl⟩
  | dropResponse => simp [step] at h; obtain ⟨h, _⟩ := h; subst h; exact ⟨hp, rfl⟩
  | wdFire => simp [step, wdFire, hp] at h
  | wdExit => simp [step, wdExit, hp] at h
  | read n =>
    obtain ⟨x, _, hrd⟩ := step_read h
    obtain ⟨_, hc⟩ := read_cases hrd
    cases hc with
    | data => exact ⟨hp, rfl⟩
    | eofReleased => exact ⟨hp, rfl⟩
    | eofPingWaiting _ _ _ _ hpc => rw [hp] at hpc; cases hpc
    | eofPingLate => exact ⟨hp, rfl⟩
    | pingFailed => exact ⟨hp, rfl⟩

theorem exited_run {df : Bool} {s s' : St} {acts : List Act} {outs : List Out}
    (hr : run df s acts = some (s', outs)) (hp : s.pc = .exited) : s'.pc = .exited ∧ s'.shut = s.shut :=
  run_preserves (P := fun x => x.pc = .exited ∧ x.shut = s.shut)
    (fun _ _ _ _ hq hst => by
      obtain ⟨h1, h2⟩ := exited_step hst hq.1
      exact ⟨h1, h2.trans hq.2⟩) hr ⟨hp, rfl⟩

/-! ### while the response is alive and the peer has not closed -/

/-- only `close` changes `peerClosed`; only dropping the response or a read returning `Ok(0)` takes
    the sender away -/
theorem step_frame {df : Bool} {s s' : St} {a : Act} {o : Option Out} (h : step df s a = some (s', o)) :
    (s'.peerClosed = s.peerClosed ∨ a = .close) ∧
    (s'.hasTx = s.hasTx ∨ a = .dropResponse ∨ o = some .eof) := by
  cases a with
  | tick => simp [step] at h; obtain ⟨h, _⟩ := h; subst h; exact ⟨.inl rfl, .inl rfl⟩
  | send n =>
    simp only [step] at h; split at h
    · cases h
    · injection h with h; injection h with h _; subst h; exact ⟨.inl rfl, .inl rfl⟩
  | close => exact ⟨.inr rfl, by simp [step] at h; obtain ⟨h, _⟩ := h; subst h; exact .inl rfl⟩
  | dropResponse => exact ⟨by simp [step] at h; obtain ⟨h, _⟩ := h; subst h; exact .inl rfl, .inr (.inl rfl)⟩
  | wdFire =>
    simp only [step] at h; split at h
    · next s1 hw =>
      injection h with h; injection h with h _; subst h
      unfold wdFire at hw
      split at hw
      · split at hw
        · injection hw with hw; subst hw; simp only [first]
          split <;> exact ⟨.inl rfl, .inl rfl⟩
        · cases hw
      · injection hw with hw; subst hw; simp only [second]
        split <;> exact ⟨.inl rfl, .inl rfl⟩
      · cases hw
      · cases hw
    · cases h
  | wdExit =>
    simp only [step] at h; split at h
    · next s1 hw =>
      injection h with h; injection h with h _; subst h
      unfold wdExit at hw; split at hw
      · injection hw with hw; subst hw; exact ⟨.inl rfl, .inl rfl⟩
      · cases hw
    · cases h
  | read n =>
    obtain ⟨x, ho, hrd⟩ := step_read h
    subst ho
    obtain ⟨_, hc⟩ := read_cases hrd
    cases hc with
    | data => exact ⟨.inl rfl, .inl rfl⟩
    | eofReleased => exact ⟨.inl rfl, .inl rfl⟩
    | eofPingWaiting => exact ⟨.inl rfl, .inr (.inr rfl)⟩
    | eofPingLate => exact ⟨.inl rfl, .inr (.inr rfl)⟩
    | pingFailed => exact ⟨.inl rfl, .inl rfl⟩

/-- Order (1);(2).  In an interleaving in which the peer never closes and the response is not
    dropped, no read returns `Ok(0)` — and the response stays alive, the peer open. -/
theorem no_close_no_eof {s s' : St} {acts : List Act} {outs : List Out} (hi : Inv true s)
    (hx : s.hasTx = true) (hp : s.peerClosed = false) (hr : run true s acts = some (s', outs))
    (hnc : Act.close ∉ acts) (hnd : Act.dropResponse ∉ acts) :
    Out.eof ∉ outs ∧ s'.hasTx = true ∧ s'.peerClosed = false := by
  induction acts generalizing s outs with
  | nil =>
    injection hr with hr; injection hr with h1 h2; subst h1; subst h2
    exact ⟨List.not_mem_nil, hx, hp⟩
  | cons a rest ih =>
    obtain ⟨s1, o, os, hst, hr1, rfl⟩ := run_cons.mp hr
    have hne : o ≠ some .eof := by
      intro ho
      subst ho
      obtain ⟨n, _, hrd⟩ := step_out hst
      have := (read_eof_genuine hi hx hrd).1
      rw [hp] at this; cases this
    obtain ⟨f1, f2⟩ := step_frame hst
    have hp1 : s1.peerClosed = false := by
      rcases f1 with f | f
      · rw [f]; exact hp
      · exact absurd (by rw [← f]; exact List.mem_cons_self ..) hnc
    have hx1 : s1.hasTx = true := by
      rcases f2 with f | f | f
      · rw [f]; exact hx
      · exact absurd (by rw [← f]; exact List.mem_cons_self ..) hnd
      · exact absurd f hne
    obtain ⟨h1, h2, h3⟩ := ih (inv_step hi hst) hx1 hp1 hr1
      (fun h => hnc (List.mem_cons_of_mem _ h)) (fun h => hnd (List.mem_cons_of_mem _ h))
    refine ⟨fun hm => ?_, h2, h3⟩
    rcases List.mem_append.mp hm with hm | hm
    · cases o with
      | none => cases hm
      | some y =>
        have : Out.eof = y := by simpa using hm
        exact hne (by rw [this])
    · exact h1 hm

/-! ### order (1);(2): the atomic model (Atto/Model/Watchdog.lean) is a sound abstraction

  `Rel c a` relates a state `c` of the interleaving model to a state `a` of the atomic model
  `Atto.Wd`.  The atomic firing (`fireIfDue`: receiver dropped and socket shut in one step) is
  matched with action (1) `drop(rx)` — from that moment the ping fails in both models; action (2)
  is a stutter of the atomic model.  The atomic model's clock is the watchdog's view of time: its
  deadline event happens when the watchdog acts (`tick` is a stutter).  Three phases: armed, fired,
  and ended (a genuine end of stream has been passed on; the watchdog has exited).  Dropping the
  response while it is alive leaves the relation (there is no reader any more; the two models
  differ there: the atomic one lets the watchdog exit at once, here it may still fire).
  Bytes are not related beyond "nothing pending here ⇒ nothing buffered or queued there". -/

def absOut : Out → Wd.RdOut
  | .data k => .data k
  | .eof => .eof
  | .timedOut => .timedOut

structure Rel (c : St) (a : Wd.St) : Prop where
  tx : a.hasTx = c.hasTx
  pcl : a.peerClosed = c.peerClosed
  data : c.pending = 0 → a.buffered = 0 ∧ a.queued = 0
  phase :
    (c.hasTx = true ∧ c.pc = .waiting ∧ a.wd = .waiting ∧ a.now < a.deadline ∧ a.shut = false) ∨
    (c.hasTx = true ∧ (c.pc = .afterFirst ∨ c.pc = .done) ∧ a.wd = .fired ∧ a.shut = true ∧
      a.deadline ≤ a.now) ∨
    (c.hasTx = false ∧ c.pc = .exited ∧ a.wd = .exited ∧ c.peerClosed = true ∧ a.shut = false)

theorem rel_init (d rt : Nat) (hd : 0 < d) : Rel init (Wd.init d rt) :=
  ⟨rfl, rfl, fun _ => ⟨rfl, rfl⟩, .inl ⟨rfl, rfl, rfl, hd, rfl⟩⟩

/-- Outcome correspondence: an `Ok(0)` or a `TimedOut` returned by a read of the interleaving model
    is what the atomic model's `read` returns in any related state, and the states after the read
    are related again (the read moved no bytes there). -/
theorem read_refines {c c' : St} {a : Wd.St} {n : Nat} {x : Out} (hi : Inv true c) (hrel : Rel c a)
    (hr : read c n = some (c', x)) (hx : x = .eof ∨ x = .timedOut) :
    ∃ a', Wd.read a n = (absOut x, a') ∧ Rel c' a' ∧ a'.buffered = a.buffered ∧ a'.queued = a.queued := by
  obtain ⟨hn, hc⟩ := read_cases hr
  obtain ⟨h1, h2, h3, h4⟩ := hrel
  cases hc with
  | data => rcases hx with h | h <;> cases h
  | eofReleased hp hz htx =>
    obtain ⟨hb, hq⟩ := h3 hp
    rcases h4 with ⟨ht, _⟩ | ⟨ht, _⟩ | ⟨_, hpc, hwd, hpcl, hsh⟩
    · rw [htx] at ht; cases ht
    · rw [htx] at ht; cases ht
    · have hfi : Wd.fireIfDue a = a := Wd.wd_fire_of_not_waiting (by rw [hwd]; simp)
      have hcs := Wd.wd_read_cases a n
      rw [hfi] at hcs
      generalize Wd.read a n = r at hcs
      cases hcs with
      | buffered h => omega
      | socket _ h => omega
      | eofReleased => exact ⟨a, rfl, ⟨h1, h2, h3, .inr (.inr ⟨htx, hpc, hwd, hpcl, hsh⟩)⟩, rfl, rfl⟩
      | eofGenuine _ _ _ hx' => rw [h1, htx] at hx'; cases hx'
      | pingFailed _ _ _ hx' => rw [h1, htx] at hx'; cases hx'
      | woken _ _ hp' => rw [h2, hpcl] at hp'; cases hp'
      | rcvTimeout _ _ hp' => rw [h2, hpcl] at hp'; cases hp'
  | eofPingWaiting hp hz htx hrx hpc =>
    obtain ⟨hb, hq⟩ := h3 hp
    have hcsh : c.shut = false := (inv_rx_alive_waiting hi hrx).2
    have hcl : c.peerClosed = true := by
      rcases hz with hz | hz
      · exact hz
      · rw [hcsh] at hz; cases hz
    rcases h4 with ⟨_, _, hwd, hlt, hsh⟩ | ⟨_, hpc', _⟩ | ⟨ht, _⟩
    · have hfi : Wd.fireIfDue a = a := Wd.wd_fire_of_early hlt
      have hcs := Wd.wd_read_cases a n
      rw [hfi] at hcs
      generalize Wd.read a n = r at hcs
      cases hcs with
      | buffered h => omega
      | socket _ h => omega
      | eofReleased _ _ _ hx' => rw [h1, htx] at hx'; cases hx'
      | eofGenuine =>
        exact ⟨_, rfl, ⟨rfl, h2, h3, .inr (.inr ⟨rfl, rfl, rfl, hcl, hsh⟩)⟩, rfl, rfl⟩
      | pingFailed _ _ _ _ hw => exact absurd hwd hw
      | woken _ _ hp' => rw [h2, hcl] at hp'; cases hp'
      | rcvTimeout _ _ hp' => rw [h2, hcl] at hp'; cases hp'
    · rw [hpc] at hpc'; rcases hpc' with h | h <;> cases h
    · rw [htx] at ht; cases ht
  | eofPingLate _ _ _ hrx hpc => exact absurd (inv_rx_alive_waiting hi hrx).1 hpc
  | pingFailed hp hz htx hrx =>
    obtain ⟨hb, hq⟩ := h3 hp
    rcases h4 with ⟨_, hpc, _⟩ | ⟨_, hpc, hwd, hsh, hdl⟩ | ⟨ht, _⟩
    · have := hi.rx; rw [hrx, hpc] at this; simp at this
    · have hfi : Wd.fireIfDue a = a := Wd.wd_fire_of_not_waiting (by rw [hwd]; simp)
      have hcs := Wd.wd_read_cases a n
      rw [hfi] at hcs
      generalize Wd.read a n = r at hcs
      cases hcs with
      | buffered h => omega
      | socket _ h => omega
      | eofReleased _ _ _ hx' => rw [h1, htx] at hx'; cases hx'
      | eofGenuine _ _ _ _ hw => rw [hwd] at hw; cases hw
      | pingFailed =>
        exact ⟨a, rfl, ⟨h1, h2, h3, .inr (.inl ⟨htx, hpc, hwd, hsh, hdl⟩)⟩, rfl, rfl⟩
      | woken _ _ _ hs' => rw [hsh] at hs'; cases hs'
      | rcvTimeout _ _ _ hs' => rw [hsh] at hs'; cases hs'
    · rw [htx] at ht; cases ht

/-- the end-of-stream / timeout results of an interleaving (data results dropped) -/
def endOf : Out → Option Wd.RdOut
  | .data _ => none
  | .eof => some .eof
  | .timedOut => some .timedOut

/-- the result carried by a read label of the atomic model -/
def lblOut : Wd.Lbl → Option Wd.RdOut
  | .read _ o => some o
  | _ => none

theorem advance_fires {a : Wd.St} (hw : a.wd = .waiting) :
    Wd.advance a a.deadline = { a with now := max a.now a.deadline, wd := .fired, shut := true } := by
  unfold Wd.advance Wd.fireIfDue
  rw [if_pos ⟨hw, Nat.le_max_right ..⟩]

/-- One step of the interleaving model (order (1);(2)) is matched by zero or one steps of the atomic
    model, with the same end-of-stream / timeout result, and the states are related again.  The
    atomic side carries no bytes (`buffered = queued = 0`): arriving data and data reads are stutters. -/
theorem sim_step {c c' : St} {a : Wd.St} {act : Act} {o : Option Out} (hi : Inv true c)
    (hrel : Rel c a) (hb : a.buffered = 0) (hq : a.queued = 0) (hst : step true c act = some (c', o))
    (hnd : act = .dropResponse → c.hasTx = false) :
    ∃ l a', Wd.Trace a l a' ∧ l.filterMap lblOut = o.toList.filterMap endOf ∧ Rel c' a' ∧
      a'.buffered = 0 ∧ a'.queued = 0 := by
  cases act with
  | tick =>
    simp [step] at hst; obtain ⟨h, ho⟩ := hst; subst h; subst ho
    exact ⟨[], a, .nil a, rfl, ⟨hrel.tx, hrel.pcl, hrel.data, hrel.phase⟩, hb, hq⟩
  | send n =>
    simp only [step] at hst; split at hst
    · cases hst
    · injection hst with hst; injection hst with h ho; subst h; subst ho
      exact ⟨[], a, .nil a, rfl, ⟨hrel.tx, hrel.pcl, fun _ => ⟨hb, hq⟩, hrel.phase⟩, hb, hq⟩
  | close =>
    simp [step] at hst; obtain ⟨h, ho⟩ := hst; subst h; subst ho
    refine ⟨[.close], { a with peerClosed := true }, .cons (.close a) (.nil _), rfl,
      ⟨hrel.tx, rfl, hrel.data, ?_⟩, hb, hq⟩
    rcases hrel.phase with h | h | ⟨h1, h2, h3, _, h5⟩
    · exact .inl h
    · exact .inr (.inl h)
    · exact .inr (.inr ⟨h1, h2, h3, rfl, h5⟩)
  | dropResponse =>
    have hx := hnd rfl
    simp [step] at hst; obtain ⟨h, ho⟩ := hst; subst h; subst ho
    refine ⟨[], a, .nil a, rfl, ⟨hrel.tx.trans hx, hrel.pcl, hrel.data, ?_⟩, hb, hq⟩
    rcases hrel.phase with ⟨h, _⟩ | ⟨h, _⟩ | ⟨_, h2, h3, h4, h5⟩
    · rw [hx] at h; cases h
    · rw [hx] at h; cases h
    · exact .inr (.inr ⟨rfl, h2, h3, h4, h5⟩)
  | wdFire =>
    simp only [step] at hst; split at hst
    · next s1 hw =>
      injection hst with hst; injection hst with h ho; subst h; subst ho
      unfold wdFire at hw
      split at hw
      · next hpc =>
        split at hw
        · injection hw with hw; subst hw
          rcases hrel.phase with ⟨h1, _, h3, _, _⟩ | ⟨_, h2, _⟩ | ⟨_, h2, _⟩
          · refine ⟨[.adv a.deadline], Wd.advance a a.deadline, .cons (.adv a _) (.nil _), rfl, ?_⟩
            rw [advance_fires h3]
            exact ⟨⟨hrel.tx, hrel.pcl, hrel.data, .inr (.inl ⟨h1, .inl rfl, rfl, rfl, Nat.le_max_right ..⟩)⟩,
              hb, hq⟩
          · rw [hpc] at h2; rcases h2 with h | h <;> cases h
          · rw [hpc] at h2; cases h2
        · cases hw
      · next hpc =>
        injection hw with hw; subst hw
        rcases hrel.phase with ⟨_, h2, _⟩ | ⟨h1, _, h3, h4, h5⟩ | ⟨_, h2, _⟩
        · rw [hpc] at h2; cases h2
        · exact ⟨[], a, .nil a, rfl,
            ⟨hrel.tx, hrel.pcl, hrel.data, .inr (.inl ⟨h1, .inr rfl, h3, h4, h5⟩)⟩, hb, hq⟩
        · rw [hpc] at h2; cases h2
      · cases hw
      · cases hw
    · cases hst
  | wdExit =>
    simp only [step] at hst; split at hst
    · next s1 hw =>
      unfold wdExit at hw; split at hw
      · next hc =>
        rcases hrel.phase with ⟨h1, _⟩ | ⟨_, h2, _⟩ | ⟨_, h2, _⟩
        · rw [hc.2] at h1; cases h1
        · rw [hc.1] at h2; rcases h2 with h | h <;> cases h
        · rw [hc.1] at h2; cases h2
      · cases hw
    · cases hst
  | read n =>
    obtain ⟨x, ho, hrd⟩ := step_read hst
    subst ho
    cases x with
    | data k =>
      obtain ⟨_, hc⟩ := read_cases hrd
      cases hc with
      | data =>
        exact ⟨[], a, .nil a, rfl, ⟨hrel.tx, hrel.pcl, fun _ => ⟨hb, hq⟩, hrel.phase⟩, hb, hq⟩
    | eof =>
      obtain ⟨a', h1, h2, h3, h4⟩ := read_refines hi hrel hrd (.inl rfl)
      have hn := (read_cases hrd).1
      have hs := Wd.Step.read a n hn
      rw [h1] at hs
      exact ⟨[.read n .eof], a', .cons hs (.nil _), rfl, h2, by rw [h3, hb], by rw [h4, hq]⟩
    | timedOut =>
      obtain ⟨a', h1, h2, h3, h4⟩ := read_refines hi hrel hrd (.inr rfl)
      have hn := (read_cases hrd).1
      have hs := Wd.Step.read a n hn
      rw [h1] at hs
      exact ⟨[.read n .timedOut], a', .cons hs (.nil _), rfl, h2, by rw [h3, hb], by rw [h4, hq]⟩

/-- Every interleaving in which the response is not dropped is matched by a run of the atomic model
    with the same sequence of end-of-stream / timeout results. -/
theorem sim_run {c c' : St} {a : Wd.St} {acts : List Act} {outs : List Out} (hi : Inv true c)
    (hrel : Rel c a) (hb : a.buffered = 0) (hq : a.queued = 0)
    (hr : run true c acts = some (c', outs)) (hnd : Act.dropResponse ∉ acts) :
    ∃ l a', Wd.Trace a l a' ∧ l.filterMap lblOut = outs.filterMap endOf ∧ Rel c' a' ∧
      a'.buffered = 0 ∧ a'.queued = 0 := by
  induction acts generalizing c a outs with
  | nil =>
    injection hr with hr; injection hr with h1 h2; subst h1; subst h2
    exact ⟨[], a, .nil a, rfl, hrel, hb, hq⟩
  | cons act rest ih =>
    obtain ⟨c1, o, os, hst, hr1, rfl⟩ := run_cons.mp hr
    obtain ⟨l1, a1, ht1, hl1, hrel1, hb1, hq1⟩ := sim_step hi hrel hb hq hst
      (fun h => absurd (by rw [h]; exact List.mem_cons_self ..) hnd)
    obtain ⟨l2, a2, ht2, hl2, hrel2, hb2, hq2⟩ := ih (inv_step hi hst) hrel1 hb1 hq1 hr1
      (fun h => hnd (List.mem_cons_of_mem _ h))
    exact ⟨l1 ++ l2, a2, ht1.append ht2, by rw [List.filterMap_append, List.filterMap_append, hl1, hl2],
      hrel2, hb2, hq2⟩

end WdS
end Atto
