/-
  Atto/Props/C10.lean — property C10: "every redirect hop is a faithful, self-consistent replay".
  About `send s req cap url hops` for arbitrary `hops`, arbitrary proxy settings; `u_i` is the
  `i`-th element of `urlsVisited` (see C09: `u_0` = the caller's URL, `u_{i+1}` = what hop `i`'s
  `Location` resolved to).  A hop on which the CONNECT-tunnel branch is taken (`rd_tunnels s u_i`)
  writes only the CONNECT head before TLS starts and is excluded from (g), (h).
    (g) every hop writes the same method and — for a rewindable body — the same body;
        for a one-shot body (a caller's `Body` whose `write` works only once — every body kind the
        library ships, multipart included since fix a131285, can be written again) the replay cannot
        be faithful: proved here, so that the hypothesis of (g) is visibly necessary;
    (h) every hop sends the caller's header fields unchanged, and exactly one `Host`, naming
        hop i's own authority (the proxy's for plain http through a proxy);
    (i) the proxy decision is re-evaluated for every hop's URL.
  Helper lemmas: Atto/Lemmas/Redirect.lean; example data: Atto/Lemmas/RedirectExamples.lean.
-/
import Atto.Lemmas.Redirect
import Atto.Lemmas.RedirectExamples
namespace Atto
open Atto.Rd Atto.RdEx

/-! ### (i) proxy re-evaluation -/

/-- The dial target of hop `i` is `(s.proxy.forUrl u_i).getD u_i`: the proxy that `for_url` selects
    for THAT hop's URL, or the URL's own host. Holds for tunnel hops as well. -/
theorem C10_proxy_reeval (s : SendSettings) (req : Req) (cap : Nat) (url : Url) (hops : List Hop)
    (i : Nat) (out : HopOut) :
    (send s req cap url hops).1[i]? = some out →
    ∃ u, (urlsVisited s req cap url hops)[i]? = some u ∧
      out.dialScheme = ((s.proxy.forUrl u).getD u).scheme ∧
      out.dialHost = ((s.proxy.forUrl u).getD u).host ∧
      out.dialPort = ((s.proxy.forUrl u).getD u).effPort := by
  intro h
  obtain ⟨u, _, h1, _, _, h3, h4, h5, _⟩ := rd_send_hop s req cap url hops i out h
  exact ⟨u, h1, h3, h4, h5⟩

/-- Proxy for plain http except host `b`; chain a → b → c: proxy, direct, proxy. -/
example : (send rx_settingsProxy rx_req 64 rx_a rx_chain).1.map (fun o => (o.dialHost, o.dialPort)) =
    [(str "proxy", 3128), (str "b", 80), (str "proxy", 3128)] := by decide +kernel
example (out : HopOut) (h : (send rx_settingsProxy rx_req 64 rx_a rx_chain).1[1]? = some out) :
    out.dialHost = str "b" := by
  obtain ⟨u, hu, _, hh, _⟩ := C10_proxy_reeval rx_settingsProxy rx_req 64 rx_a rx_chain 1 out h
  have e : (urlsVisited rx_settingsProxy rx_req 64 rx_a rx_chain)[1]? = some rx_b := by decide +kernel
  rw [e] at hu; cases hu
  rw [hh]; decide +kernel

/-! ### (h) headers -/

/-- The header map written on hop `i` (`hdrs_i = rd_hopHdrs s hin u_i`, where `hin` is the map left
    by the previous hop): every field other than `Host` is the caller's (all values, in order —
    including the framing headers `try_prepare` chose); there is exactly one `Host` value: the
    authority of the proxy for plain http through a proxy, of `u_i` otherwise. -/
theorem C10_headers_kept (s : SendSettings) (req : Req) (cap : Nat) (url : Url) (hops : List Hop)
    (i : Nat) (out : HopOut) :
    (send s req cap url hops).1[i]? = some out →
    ∃ u hin, (urlsVisited s req cap url hops)[i]? = some u ∧
      (hdrsVisited s req cap url hops)[i]? = some hin ∧
      (rd_tunnels s u = false →
        out.wrote = writeRequest req.method u (rd_plainViaProxy s u) (rd_hopHdrs s hin u)
          (rd_body req (i == 0))) ∧
      (∀ m, m ≠ hName "host" → (rd_hopHdrs s hin u).getAll m = req.headers.getAll m) ∧
      (rd_hopHdrs s hin u).getAll (hName "host") =
        [(if rd_plainViaProxy s u = true then (s.proxy.forUrl u).getD u else u).authority] := by
  intro h
  obtain ⟨u, hin, h1, h2, h3, _, _, _, h7, _⟩ := rd_send_hop s req cap url hops i out h
  refine ⟨u, hin, h1, h2, ?_, ?_, ?_⟩
  · intro ht; rw [h7 ht]; rfl
  · intro m hm; rw [rd_hopHdrs_other s hin u m hm]; exact h3 m hm
  · rw [rd_hopHdrs_host, rd_hostUrl_eq]; rfl

/-- When is it "plain http through a proxy". -/
theorem C10_plainViaProxy_iff (s : SendSettings) (u : Url) :
    rd_plainViaProxy s u = true ↔ u.scheme = str "http" ∧ ∃ p, s.proxy.forUrl u = some p := by
  simp [rd_plainViaProxy, Option.isSome_iff_exists]

/-- a → b → c without proxy: the three header blocks differ in `Host` only (no stale `Host` of the
    previous hop), the caller's `x-caller` and `content-length` are there each time. -/
example : (send (rx_settings true 5) rx_req 64 rx_a rx_chain).1.map (·.wrote) =
    [str "POST /1 HTTP/1.1\r\naccept: */*\r\nx-caller: 1\r\ncontent-length: 3\r\nhost: a\r\n\r\nabc",
     str "POST /2 HTTP/1.1\r\naccept: */*\r\nx-caller: 1\r\ncontent-length: 3\r\nhost: b\r\n\r\nabc",
     str "POST /3 HTTP/1.1\r\naccept: */*\r\nx-caller: 1\r\ncontent-length: 3\r\nhost: c\r\n\r\nabc"] := by
  decide +kernel
/-- With the proxy that excludes `b`: `Host` names the proxy on hops 0 and 2, and `b` on hop 1. -/
example : (send rx_settingsProxy rx_req 64 rx_a rx_chain).1.map (·.wrote) =
    [str "POST http://a/1 HTTP/1.1\r\naccept: */*\r\nx-caller: 1\r\ncontent-length: 3\r\nhost: proxy:3128\r\n\r\nabc",
     str "POST /2 HTTP/1.1\r\naccept: */*\r\nx-caller: 1\r\ncontent-length: 3\r\nhost: b\r\n\r\nabc",
     str "POST http://c/3 HTTP/1.1\r\naccept: */*\r\nx-caller: 1\r\ncontent-length: 3\r\nhost: proxy:3128\r\n\r\nabc"] := by
  decide +kernel
example (out : HopOut) (h : (send rx_settingsProxy rx_req 64 rx_a rx_chain).1[2]? = some out) :
    ∃ hdrs, out.wrote = writeRequest (str "POST") rx_c true hdrs rx_body ∧
      hdrs.getAll (str "x-caller") = [str "1"] ∧ hdrs.getAll (str "host") = [str "proxy:3128"] := by
  obtain ⟨u, hin, hu, _, hw, hk, hh⟩ := C10_headers_kept rx_settingsProxy rx_req 64 rx_a rx_chain 2 out h
  have e : (urlsVisited rx_settingsProxy rx_req 64 rx_a rx_chain)[2]? = some rx_c := by decide +kernel
  rw [e] at hu; cases hu
  refine ⟨rd_hopHdrs rx_settingsProxy hin rx_c, ?_, ?_, ?_⟩
  · rw [hw (by decide +kernel)]
    have e1 : rd_plainViaProxy rx_settingsProxy rx_c = true := by decide +kernel
    rw [e1]; rfl
  · rw [hk _ (by decide +kernel)]; decide +kernel
  · have : hName "host" = str "host" := rfl
    rw [← this, hh]; decide +kernel

/-! ### (g) method and body -/

/-- Rewindable body: every non-tunnel hop writes `req.method`, its own URL's target, and the whole
    of `req.body`; the written bytes end with the same `writeBody req.body` on every hop. -/
theorem C10_same_method_body (s : SendSettings) (req : Req) (cap : Nat) (url : Url) (hops : List Hop)
    (i : Nat) (out : HopOut) :
    req.bodyRewindable = true →
    (send s req cap url hops).1[i]? = some out →
    ∃ u hin, (urlsVisited s req cap url hops)[i]? = some u ∧
      (hdrsVisited s req cap url hops)[i]? = some hin ∧
      (rd_tunnels s u = false →
        out.wrote = writeRequest req.method u (rd_plainViaProxy s u) (rd_hopHdrs s hin u) req.body ∧
        ∃ head, out.wrote = req.method ++ [32] ++ head ++ writeBody req.body) := by
  intro hr h
  obtain ⟨u, hin, h1, h2, hw, _, _⟩ := C10_headers_kept s req cap url hops i out h
  refine ⟨u, hin, h1, h2, ?_⟩
  intro ht
  have hb : rd_body req (i == 0) = req.body := by simp [rd_body, hr]
  have hw' := hw ht
  rw [hb] at hw'
  refine ⟨hw', ?_⟩
  refine ⟨requestTarget u (rd_plainViaProxy s u) ++ str " HTTP/1.1\r\n" ++
    writeHeaders (rd_hopHdrs s hin u), ?_⟩
  rw [hw']; simp [writeRequest, List.append_assoc]

/-- The first hop writes the whole body whatever its kind. -/
theorem C10_first_hop_body (s : SendSettings) (req : Req) (cap : Nat) (url : Url) (hops : List Hop)
    (out : HopOut) :
    (send s req cap url hops).1[0]? = some out → rd_tunnels s url = false →
    out.wrote = writeRequest req.method url (rd_plainViaProxy s url) (rd_hopHdrs s req.headers url)
      req.body := by
  intro h ht
  obtain ⟨u, hin, h1, h2, hw, _, _⟩ := C10_headers_kept s req cap url hops 0 out h
  have hne : hops ≠ [] := by intro h0; subst h0; simp [send, sendLoop] at h
  have hu : u = url := by
    have := rd_trace_head (rd_trace s req cap hops url 0 req.headers true) hne
    rw [List.head?_eq_getElem?] at this
    unfold urlsVisited at h1
    rw [this] at h1; exact (Option.some.inj h1).symm
  subst hu
  have hh : hin = req.headers := by
    unfold hdrsVisited at h2
    cases hl : urlsVisited s req cap u hops with
    | nil => rw [hl] at h1; simp at h1
    | cons a l => rw [hl] at h2; simp [rd_hdrsSeq] at h2; exact h2.symm
  subst hh
  rw [hw ht]; simp [rd_body]

example (out : HopOut) (h : (send (rx_settings true 5) rx_req 64 rx_a rx_chain).1[1]? = some out) :
    ∃ head, out.wrote = str "POST" ++ [32] ++ head ++ str "abc" := by
  obtain ⟨u, hin, hu, _, hw⟩ := C10_same_method_body (rx_settings true 5) rx_req 64 rx_a rx_chain 1 out rfl h
  have e : (urlsVisited (rx_settings true 5) rx_req 64 rx_a rx_chain)[1]? = some rx_b := by decide +kernel
  rw [e] at hu; cases hu
  obtain ⟨head, hh⟩ := (hw (by decide +kernel)).2
  have eb : writeBody rx_req.body = str "abc" := by decide +kernel
  rw [eb] at hh
  exact ⟨head, hh⟩

/-- One-shot body (`bodyRewindable = false`: a caller-defined `Body` that cannot be written twice; it
    was also the library's multipart body until fix a131285): from hop 1 on the request is written
    with the same head — including the framing header computed for the full body — but the body's
    `write` produces nothing. -/
theorem C10_oneshot_body (s : SendSettings) (req : Req) (cap : Nat) (url : Url) (hops : List Hop)
    (i : Nat) (out : HopOut) :
    req.bodyRewindable = false → 0 < i →
    (send s req cap url hops).1[i]? = some out →
    ∃ u hin, (urlsVisited s req cap url hops)[i]? = some u ∧
      (hdrsVisited s req cap url hops)[i]? = some hin ∧
      (rd_tunnels s u = false →
        out.wrote = writeRequest req.method u (rd_plainViaProxy s u) (rd_hopHdrs s hin u)
          { req.body with writes := [] }) := by
  intro hr hi h
  obtain ⟨u, hin, h1, h2, hw, _, _⟩ := C10_headers_kept s req cap url hops i out h
  refine ⟨u, hin, h1, h2, ?_⟩
  intro ht
  have hi0 : (i == 0) = false := by simp; omega
  have hb : rd_body req (i == 0) = { req.body with writes := [] } := by simp [rd_body, hr, hi0]
  rw [hw ht, hb]

/-- The full property "(g) for every body": every non-tunnel hop writes `req.body`. -/
def C10_same_method_body_full : Prop :=
  ∀ (s : SendSettings) (req : Req) (cap : Nat) (url : Url) (hops : List Hop) (i : Nat) (out : HopOut)
    (u : Url) (hin : Headers),
    (send s req cap url hops).1[i]? = some out →
    (urlsVisited s req cap url hops)[i]? = some u → (hdrsVisited s req cap url hops)[i]? = some hin →
    rd_tunnels s u = false →
    out.wrote = writeRequest req.method u (rd_plainViaProxy s u) (rd_hopHdrs s hin u) req.body

/-- The statement without the hypothesis `bodyRewindable = true` is FALSE (it was the known finding F9
    while the library's own multipart body was one-shot; it now concerns caller-defined bodies only). Witness: the one-shot
    3-byte body on the chain a → b → c; the request to `b` announces `content-length: 3` and
    carries no body byte. -/
theorem C10_full_refuted_oneshot : ¬ C10_same_method_body_full := by
  intro hfull
  have h := hfull (rx_settings true 5) rx_reqOneShot 64 rx_a rx_chain 1
    (rd_plainOut (rx_settings true 5) rx_reqOneShot rx_b
      (rd_hopHdrs (rx_settings true 5) rx_reqOneShot.headers rx_a) false)
    rx_b (rd_hopHdrs (rx_settings true 5) rx_reqOneShot.headers rx_a)
    (by decide +kernel) (by decide +kernel) (by decide +kernel) (by decide +kernel)
  revert h
  decide +kernel

example : (send (rx_settings true 5) rx_reqOneShot 64 rx_a rx_chain).1.map (·.wrote) =
    [str "POST /1 HTTP/1.1\r\naccept: */*\r\nx-caller: 1\r\ncontent-length: 3\r\nhost: a\r\n\r\nabc",
     str "POST /2 HTTP/1.1\r\naccept: */*\r\nx-caller: 1\r\ncontent-length: 3\r\nhost: b\r\n\r\n",
     str "POST /3 HTTP/1.1\r\naccept: */*\r\nx-caller: 1\r\ncontent-length: 3\r\nhost: c\r\n\r\n"] := by
  decide +kernel
example (out : HopOut) (h : (send (rx_settings true 5) rx_reqOneShot 64 rx_a rx_chain).1[2]? = some out) :
    ∃ hdrs, out.wrote = writeRequest (str "POST") rx_c false hdrs { rx_body with writes := [] } := by
  obtain ⟨u, hin, hu, _, hw⟩ :=
    C10_oneshot_body (rx_settings true 5) rx_reqOneShot 64 rx_a rx_chain 2 out rfl (by decide) h
  have e : (urlsVisited (rx_settings true 5) rx_reqOneShot 64 rx_a rx_chain)[2]? = some rx_c := by
    decide +kernel
  rw [e] at hu; cases hu
  refine ⟨rd_hopHdrs (rx_settings true 5) hin rx_c, ?_⟩
  rw [hw (by decide +kernel)]
  have e1 : rd_plainViaProxy (rx_settings true 5) rx_c = false := by decide +kernel
  rw [e1]; rfl

end Atto
