/-
  Atto/Lemmas/BufReaderRefine.lean — the `BufReader` model over an arbitrary well-formed scripted
  transport refines the flat-stream specifications `specExact` / `specUntil`, and the fuel-exhausted
  (`panic`) branches of the loops are unreachable.
-/
import Atto.Std.BufReader
import Atto.Spec.Flat
namespace Atto

/-- invariant preserved by every BufReader operation -/
def BufR.Ok (r : BufR) : Prop := wfT r.inner ∧ 0 < r.cap

/-! ### spec helpers -/

@[simp] theorem specExact_zero (is : List Item) : specExact 0 is = (.ok [], is) := by
  cases is <;> simp [specExact]

@[simp] theorem specUntil_zero (is : List Item) (acc : Bytes) :
    specUntil 0 is acc = (.ok (acc, 0), is) := by
  cases is <;> simp [specUntil]

theorem specExact_bytes (pre : Bytes) : ∀ (n : Nat) (rest : List Item), pre.length ≤ n →
    specExact n (pre.map .byte ++ rest) =
      ((specExact (n - pre.length) rest).1.map (pre ++ ·), (specExact (n - pre.length) rest).2) := by
  induction pre with
  | nil => intro n rest _; simp
  | cons b pre ih =>
    intro n rest h
    cases n with
    | zero => simp at h
    | succ n =>
      simp only [List.map_cons, List.cons_append, specExact, List.length_cons, Nat.add_sub_add_right]
      rw [ih n rest (by simpa using h), RR.map_map]
      rfl

theorem specExact_take (bs : Bytes) (n : Nat) (rest : List Item) (h : n ≤ bs.length) :
    specExact n (bs.map .byte ++ rest) = (.ok (bs.take n), (bs.drop n).map .byte ++ rest) := by
  induction bs generalizing n with
  | nil => simp at h; subst h; simp
  | cons b bs ih =>
    cases n with
    | zero => simp
    | succ n => simp [specExact, ih n (by simpa using h)]

/-- `specUntil` over a run of bytes whose first `limit` bytes contain LF at index `i`. -/
theorem specUntil_found (bs : Bytes) : ∀ (limit i : Nat) (acc : Bytes) (rest : List Item),
    (bs.take limit).idxOf? 10 = some i →
    specUntil limit (bs.map .byte ++ rest) acc =
      (.ok (acc ++ (bs.take limit).take (i+1), limit - (i+1)), (bs.drop (i+1)).map .byte ++ rest) := by
  induction bs with
  | nil => intro limit i acc rest h; simp at h
  | cons b bs ih =>
    intro limit i acc rest h
    cases limit with
    | zero => simp at h
    | succ l =>
      simp only [List.take_succ_cons, List.idxOf?_cons] at h
      by_cases hb : b = 10
      · subst hb
        simp at h
        subst h
        simp [specUntil]
      · have hb' : (b == 10) = false := by simpa using hb
        simp only [hb', Bool.false_eq_true, if_false, Option.map_eq_some_iff] at h
        obtain ⟨j, hj, rfl⟩ := h
        have := ih l j (acc ++ [b]) rest hj
        simp only [List.map_cons, List.cons_append, specUntil, hb, if_false, List.take_succ_cons,
          List.drop_succ_cons, Nat.add_sub_add_right]
        rw [this]
        simp

/-- `specUntil` over a run of bytes whose first `limit` bytes contain no LF. -/
theorem specUntil_none (bs : Bytes) : ∀ (limit : Nat) (acc : Bytes) (rest : List Item),
    (bs.take limit).idxOf? 10 = none →
    specUntil limit (bs.map .byte ++ rest) acc =
      specUntil (limit - (bs.take limit).length)
        ((bs.drop (bs.take limit).length).map .byte ++ rest) (acc ++ bs.take limit) := by
  induction bs with
  | nil => intro limit acc rest _; simp
  | cons b bs ih =>
    intro limit acc rest h
    cases limit with
    | zero => simp
    | succ l =>
      simp only [List.take_succ_cons, List.idxOf?_cons] at h
      by_cases hb : b = 10
      · subst hb; simp at h
      · have hb' : (b == 10) = false := by simpa using hb
        simp only [hb', Bool.false_eq_true, if_false, Option.map_eq_none_iff] at h
        have := ih l (acc ++ [b]) rest h
        simp only [List.map_cons, List.cons_append, specUntil, hb, if_false, List.take_succ_cons,
          List.length_cons, List.drop_succ_cons, Nat.add_sub_add_right]
        rw [this]
        simp

/-! ### one transport read -/

theorem transport_read_spec (t : Transport) (n : Nat) (hw : wfT t) (hn : 0 < n) :
    wfT (t.read n).2 ∧ (t.read n).2.length ≤ t.length ∧
    (match flatT t with
     | [] => (t.read n).1 = .ok [] ∧ flatT (t.read n).2 = []
     | .byte _ :: _ => ∃ bs, (t.read n).1 = .ok bs ∧ bs ≠ [] ∧ bs.length ≤ n ∧
                         bs.map Item.byte ++ flatT (t.read n).2 = flatT t
     | .err k :: rest => (t.read n).1 = .err (.io k) ∧ flatT (t.read n).2 = rest ∧
                         (t.read n).2.length < t.length
     | .pause :: rest => (t.read n).1 = .blocked ∧ flatT (t.read n).2 = .pause :: rest) := by
  cases t with
  | nil => simp [Transport.read, flatT, wfT]
  | cons s t =>
    cases s with
    | data bs =>
      obtain ⟨hne, hwt⟩ := hw
      cases bs with
      | nil => exact absurd rfl hne
      | cons b bs =>
        simp only [Transport.read, flatT, List.map_cons, List.cons_append]
        by_cases hl : (b :: bs).length ≤ n
        · simp only [hl, if_true]
          refine ⟨hwt, by simp, b :: bs, rfl, by simp, hl, by simp⟩
        · simp only [hl, if_false]
          refine ⟨⟨?_, hwt⟩, by simp, (b :: bs).take n, rfl, ?_, by simp; omega, ?_⟩
          · intro hc
            have := congrArg List.length hc
            simp at this hl; omega
          · intro hc
            have := congrArg List.length hc
            simp at this hl; omega
          · simp only [flatT]
            rw [← List.append_assoc, ← List.map_append, List.take_append_drop]
            simp
    | err k => simpa [Transport.read, flatT, wfT] using hw
    | pause => simpa [Transport.read, flatT, wfT] using hw

/-! ### fill_buf -/

theorem fillBuf_spec (r : BufR) (h : r.Ok) :
    (r.fillBuf).2.Ok ∧ (r.fillBuf).2.cap = r.cap ∧ (r.fillBuf).2.inner.length ≤ r.inner.length ∧
    (match r.flat with
     | [] => (r.fillBuf).1 = .ok () ∧ (r.fillBuf).2.buf = [] ∧ (r.fillBuf).2.flat = []
     | .byte _ :: _ => (r.fillBuf).1 = .ok () ∧ (r.fillBuf).2.buf ≠ [] ∧ (r.fillBuf).2.flat = r.flat
     | .err k :: rest => (r.fillBuf).1 = .err (.io k) ∧ (r.fillBuf).2.flat = rest ∧
                         (r.fillBuf).2.inner.length < r.inner.length
     | .pause :: rest => (r.fillBuf).1 = .blocked ∧ (r.fillBuf).2.flat = .pause :: rest) := by
  obtain ⟨buf, cap, inner⟩ := r
  obtain ⟨hw, hc⟩ := h
  simp only at hw hc
  cases buf with
  | cons b buf => simp [BufR.fillBuf, BufR.Ok, BufR.flat, hw, hc]
  | nil =>
    have ht := transport_read_spec inner cap hw hc
    simp only [BufR.fillBuf, BufR.flat, List.map_nil, List.nil_append, ne_eq, not_true_eq_false,
      if_false]
    rcases hrd : inner.read cap with ⟨res, t'⟩
    rw [hrd] at ht
    simp only at ht
    obtain ⟨hw', hlen, hm⟩ := ht
    rcases hfl : flatT inner with _ | ⟨(b | k | _), rest⟩
    · rw [hfl] at hm; simp only at hm
      obtain ⟨rfl, hf'⟩ := hm
      simp [BufR.Ok, hw', hc, hlen, hf']
    · rw [hfl] at hm; simp only at hm
      obtain ⟨bs, rfl, hne, _, hf'⟩ := hm
      simp [BufR.Ok, hw', hc, hlen, hf', hne]
    · rw [hfl] at hm; simp only at hm
      obtain ⟨rfl, hf', hlt⟩ := hm
      simp [BufR.Ok, hw', hc, hlen, hf', hlt]
    · rw [hfl] at hm; simp only at hm
      obtain ⟨rfl, hf'⟩ := hm
      simp [BufR.Ok, hw', hc, hlen, hf']

/-! ### read -/

/-- `read_spec` strengthened with the facts about `inner.length` needed for the fuel bounds. -/
theorem read_spec_strong (r : BufR) (n : Nat) (h : r.Ok) (hn : 0 < n) :
    (r.read n).2.Ok ∧ (r.read n).2.cap = r.cap ∧ (r.read n).2.inner.length ≤ r.inner.length ∧
    (match r.flat with
     | [] => (r.read n).1 = .ok [] ∧ (r.read n).2.flat = []
     | .byte _ :: _ => ∃ bs, (r.read n).1 = .ok bs ∧ bs ≠ [] ∧ bs.length ≤ n ∧
                         bs.map Item.byte ++ (r.read n).2.flat = r.flat
     | .err k :: rest => (r.read n).1 = .err (.io k) ∧ (r.read n).2.flat = rest ∧
                         (r.read n).2.inner.length < r.inner.length
     | .pause :: rest => (r.read n).1 = .blocked ∧ (r.read n).2.flat = .pause :: rest) := by
  unfold BufR.read
  by_cases hby : r.buf = [] ∧ r.cap ≤ n
  · simp only [hby, and_self, if_true]
    obtain ⟨buf, cap, inner⟩ := r
    obtain ⟨hw, hc⟩ := h
    simp only at hw hc hby
    obtain ⟨rfl, _⟩ := hby
    have ht := transport_read_spec inner n hw hn
    simp only [BufR.flat, List.map_nil, List.nil_append, BufR.Ok]
    exact ⟨⟨ht.1, hc⟩, trivial, ht.2.1, ht.2.2⟩
  · simp only [hby, if_false]
    have hf := fillBuf_spec r h
    rcases hfb : r.fillBuf with ⟨res, r'⟩
    rw [hfb] at hf
    simp only at hf
    obtain ⟨hok, hcap, hlen, hm⟩ := hf
    rcases hfl : r.flat with _ | ⟨(b | k | _), rest⟩
    · rw [hfl] at hm; simp only at hm
      obtain ⟨rfl, hb', hf'⟩ := hm
      exact ⟨hok, hcap, hlen, by simp [hb'], by simpa [BufR.consume, BufR.flat, hb'] using hf'⟩
    · rw [hfl] at hm; simp only at hm
      obtain ⟨rfl, hb', hf'⟩ := hm
      simp only [BufR.consume, BufR.Ok] at hok ⊢
      refine ⟨hok, hcap, hlen, r'.buf.take n, rfl, ?_, by simp; omega, ?_⟩
      · intro hc
        have h1 := congrArg List.length hc
        have h2 : 0 < r'.buf.length := List.length_pos_iff.mpr hb'
        simp only [List.length_take, List.length_nil] at h1; omega
      · rw [← hf']
        simp only [BufR.flat]
        rw [← List.append_assoc, ← List.map_append, List.take_append_drop]
    · rw [hfl] at hm; simp only at hm
      obtain ⟨rfl, hf', hlt⟩ := hm
      exact ⟨hok, hcap, hlen, rfl, hf', hlt⟩
    · rw [hfl] at hm; simp only at hm
      obtain ⟨rfl, hf'⟩ := hm
      exact ⟨hok, hcap, hlen, rfl, hf'⟩

/-- A single `BufReader::read` with a non-empty caller buffer: a non-empty prefix of the leading
    bytes, or the leading non-byte item, or EOF. -/
theorem read_spec (r : BufR) (n : Nat) (h : r.Ok) (hn : 0 < n) :
    (r.read n).2.Ok ∧ (r.read n).2.cap = r.cap ∧
    (match r.flat with
     | [] => (r.read n).1 = .ok [] ∧ (r.read n).2.flat = []
     | .byte _ :: _ => ∃ bs, (r.read n).1 = .ok bs ∧ bs ≠ [] ∧ bs.length ≤ n ∧
                         bs.map Item.byte ++ (r.read n).2.flat = r.flat
     | .err k :: rest => (r.read n).1 = .err (.io k) ∧ (r.read n).2.flat = rest
     | .pause :: rest => (r.read n).1 = .blocked ∧ (r.read n).2.flat = .pause :: rest) := by
  obtain ⟨h1, h2, _, hm⟩ := read_spec_strong r n h hn
  refine ⟨h1, h2, ?_⟩
  rcases hfl : r.flat with _ | ⟨(b | k | _), rest⟩ <;> rw [hfl] at hm <;> simp only at hm ⊢
  · exact hm
  · exact hm
  · exact ⟨hm.1, hm.2.1⟩
  · exact hm

/-- `read` with an empty caller buffer (n = 0) never yields bytes and never loses any. -/
theorem read_zero_spec (r : BufR) (h : r.Ok) :
    (r.read 0).2.Ok ∧ (r.read 0).2.cap = r.cap ∧
    (match r.flat with
     | .err k :: rest => (r.read 0).1 = .err (.io k) ∧ (r.read 0).2.flat = rest
     | .pause :: rest => (r.read 0).1 = .blocked ∧ (r.read 0).2.flat = .pause :: rest
     | _ => (r.read 0).1 = .ok [] ∧ (r.read 0).2.flat = r.flat) := by
  have hc : ¬ r.cap ≤ 0 := by have := h.2; omega
  unfold BufR.read
  simp only [hc, and_false, if_false]
  have hf := fillBuf_spec r h
  rcases hfb : r.fillBuf with ⟨res, r'⟩
  rw [hfb] at hf
  simp only at hf
  obtain ⟨hok, hcap, hlen, hm⟩ := hf
  rcases hfl : r.flat with _ | ⟨(b | k | _), rest⟩ <;> rw [hfl] at hm <;> simp only at hm
  · obtain ⟨rfl, hb', hf'⟩ := hm
    exact ⟨hok, hcap, rfl, hf'⟩
  · obtain ⟨rfl, hb', hf'⟩ := hm
    exact ⟨hok, hcap, rfl, hf'⟩
  · obtain ⟨rfl, hf', _⟩ := hm
    exact ⟨hok, hcap, rfl, hf'⟩
  · obtain ⟨rfl, hf'⟩ := hm
    exact ⟨hok, hcap, rfl, hf'⟩

/-! ### read_exact -/

theorem readExactLoop_refines (fuel : Nat) : ∀ (r : BufR) (n : Nat) (acc : Bytes),
    r.Ok → n + r.inner.length ≤ fuel →
    (BufR.readExactLoop fuel r n acc).1 = (specExact n r.flat).1.map (acc ++ ·) ∧
    (BufR.readExactLoop fuel r n acc).2.flat = (specExact n r.flat).2 ∧
    (BufR.readExactLoop fuel r n acc).2.Ok ∧ (BufR.readExactLoop fuel r n acc).2.cap = r.cap := by
  induction fuel with
  | zero =>
    intro r n acc h hf
    have : n = 0 := by omega
    subst this
    simp [BufR.readExactLoop, h]
  | succ fuel ih =>
    intro r n acc h hf
    by_cases hn : n = 0
    · subst hn; simp [BufR.readExactLoop, h]
    · obtain ⟨n', rfl⟩ : ∃ n', n = n' + 1 := ⟨n - 1, by omega⟩
      have hs := read_spec_strong r (n'+1) h (by omega)
      rcases hrd : r.read (n'+1) with ⟨res, r'⟩
      rw [hrd] at hs
      simp only at hs
      obtain ⟨hok, hcap, hlen, hm⟩ := hs
      simp only [BufR.readExactLoop, hn, if_false, hrd]
      rcases hfl : r.flat with _ | ⟨(b | k | _), rest⟩ <;> rw [hfl] at hm <;> simp only at hm
      · obtain ⟨rfl, hf'⟩ := hm
        simp [specExact, hf', hok, hcap]
      · obtain ⟨bs, rfl, hne, hle, hf'⟩ := hm
        cases bs with
        | nil => exact absurd rfl hne
        | cons c bs =>
          simp only
          have := ih r' (n' + 1 - (c :: bs).length) (acc ++ c :: bs) hok
            (by simp at hle ⊢; omega)
          rw [← hf', specExact_bytes (c :: bs) (n'+1) r'.flat hle]
          simp only [RR.map_map]
          refine ⟨?_, this.2.1, this.2.2.1, by rw [this.2.2.2, hcap]⟩
          rw [this.1]
          congr 1; funext v; simp
      · obtain ⟨rfl, hf', hlt⟩ := hm
        by_cases hk : k = 0
        · subst hk
          simp only
          have := ih r' (n'+1) acc hok (by omega)
          rw [hf'] at this
          simp only [specExact, if_true]
          exact ⟨this.1, this.2.1, this.2.2.1, by rw [this.2.2.2, hcap]⟩
        · obtain ⟨k', rfl⟩ : ∃ k', k = k' + 1 := ⟨k - 1, by omega⟩
          simp [specExact, hf', hok, hcap]
      · obtain ⟨rfl, hf'⟩ := hm
        simp [specExact, hf', hok, hcap]

theorem readExact_refines (r : BufR) (n : Nat) (h : r.Ok) :
    (r.readExact n).1 = (specExact n r.flat).1 ∧
    (r.readExact n).2.flat = (specExact n r.flat).2 ∧
    (r.readExact n).2.Ok ∧ (r.readExact n).2.cap = r.cap := by
  unfold BufR.readExact
  by_cases hle : n ≤ r.buf.length
  · simp only [hle, if_true]
    rw [show r.flat = r.buf.map .byte ++ flatT r.inner from rfl, specExact_take r.buf n _ hle]
    exact ⟨rfl, rfl, h, rfl⟩
  · simp only [hle, if_false]
    have := readExactLoop_refines (r.exactFuel n) r n [] h (by simp [BufR.exactFuel]; omega)
    refine ⟨?_, this.2⟩
    rw [this.1]
    simp

/-! ### read_until -/

theorem readUntilLoop_refines (fuel : Nat) : ∀ (r : BufR) (limit : Nat) (acc : Bytes),
    r.Ok → limit + r.inner.length + 1 ≤ fuel →
    (BufR.readUntilLoop fuel r limit acc).1 = (specUntil limit r.flat acc).1 ∧
    (BufR.readUntilLoop fuel r limit acc).2.flat = (specUntil limit r.flat acc).2 ∧
    (BufR.readUntilLoop fuel r limit acc).2.Ok ∧
    (BufR.readUntilLoop fuel r limit acc).2.cap = r.cap := by
  induction fuel with
  | zero => intro r limit acc h hf; omega
  | succ fuel ih =>
    intro r limit acc h hf
    by_cases hl : limit = 0
    · subst hl; simp [BufR.readUntilLoop, h]
    · obtain ⟨l', rfl⟩ : ∃ l', limit = l' + 1 := ⟨limit - 1, by omega⟩
      have hs := fillBuf_spec r h
      rcases hfb : r.fillBuf with ⟨res, r'⟩
      rw [hfb] at hs
      simp only at hs
      obtain ⟨hok, hcap, hlen, hm⟩ := hs
      simp only [BufR.readUntilLoop, hl, if_false, hfb]
      rcases hfl : r.flat with _ | ⟨(b | k | _), rest⟩ <;> rw [hfl] at hm <;> simp only at hm
      · obtain ⟨rfl, hb', hf'⟩ := hm
        simp [specUntil, hb', hf', hok, hcap]
      · obtain ⟨rfl, hb', hf'⟩ := hm
        simp only
        have hav : r'.buf.take (l'+1) ≠ [] := by
          intro hc
          have h1 := congrArg List.length hc
          have h2 : 0 < r'.buf.length := List.length_pos_iff.mpr hb'
          simp only [List.length_take, List.length_nil] at h1; omega
        simp only [hav, if_false]
        rw [← hf']
        cases hix : (r'.buf.take (l'+1)).idxOf? 10 with
        | some i =>
          rw [show r'.flat = r'.buf.map .byte ++ flatT r'.inner from rfl,
            specUntil_found r'.buf (l'+1) i acc _ hix]
          exact ⟨rfl, rfl, hok, hcap⟩
        | none =>
          simp only
          have hpos : 0 < (r'.buf.take (l'+1)).length := List.length_pos_iff.mpr hav
          have := ih (r'.consume (r'.buf.take (l'+1)).length)
            (l' + 1 - (r'.buf.take (l'+1)).length) (acc ++ r'.buf.take (l'+1))
            (by simpa [BufR.consume, BufR.Ok] using hok)
            (by simp only [BufR.consume]; omega)
          have hc4 := this.2.2.2.trans hcap
          rw [show r'.flat = r'.buf.map .byte ++ flatT r'.inner from rfl,
            specUntil_none r'.buf (l'+1) acc _ hix]
          exact ⟨this.1, this.2.1, this.2.2.1, hc4⟩
      · obtain ⟨rfl, hf', hlt⟩ := hm
        by_cases hk : k = 0
        · subst hk
          simp only
          have := ih r' (l'+1) acc hok (by omega)
          rw [hf'] at this
          simp only [specUntil, if_true]
          exact ⟨this.1, this.2.1, this.2.2.1, by rw [this.2.2.2, hcap]⟩
        · obtain ⟨k', rfl⟩ : ∃ k', k = k' + 1 := ⟨k - 1, by omega⟩
          simp [specUntil, hf', hok, hcap]
      · obtain ⟨rfl, hf'⟩ := hm
        simp [specUntil, hf', hok, hcap]

theorem readUntil_refines (r : BufR) (limit : Nat) (h : r.Ok) :
    (r.readUntil limit).1 = (specUntil limit r.flat []).1 ∧
    (r.readUntil limit).2.flat = (specUntil limit r.flat []).2 ∧
    (r.readUntil limit).2.Ok ∧ (r.readUntil limit).2.cap = r.cap := by
  unfold BufR.readUntil
  exact readUntilLoop_refines (r.untilFuel limit) r limit [] h (by simp [BufR.untilFuel])

end Atto
