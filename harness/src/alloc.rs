//! Counting global allocator: peak live bytes during a case (C05 allocation bound).
use std::alloc::{GlobalAlloc, Layout, System};
use std::sync::atomic::{AtomicUsize, Ordering};

pub struct Counting;

static LIVE: AtomicUsize = AtomicUsize::new(0);
static PEAK: AtomicUsize = AtomicUsize::new(0);

unsafe impl GlobalAlloc for Counting {
    unsafe fn alloc(&self, layout: Layout) -> *mut u8 {
        let p = System.alloc(layout);
        if !p.is_null() {
            let live = LIVE.fetch_add(layout.size(), Ordering::Relaxed) + layout.size();
            PEAK.fetch_max(live, Ordering::Relaxed);
        }
        p
    }
    unsafe fn dealloc(&self, ptr: *mut u8, layout: Layout) {
        System.dealloc(ptr, layout);
        LIVE.fetch_sub(layout.size(), Ordering::Relaxed);
    }
    unsafe fn realloc(&self, ptr: *mut u8, layout: Layout, new_size: usize) -> *mut u8 {
        let p = System.realloc(ptr, layout, new_size);
        if !p.is_null() {
            if new_size >= layout.size() {
                let d = new_size - layout.size();
                let live = LIVE.fetch_add(d, Ordering::Relaxed) + d;
                PEAK.fetch_max(live, Ordering::Relaxed);
            } else {
                LIVE.fetch_sub(layout.size() - new_size, Ordering::Relaxed);
            }
        }
        p
    }
}

/// Start a measurement: returns the live baseline and resets the peak to it.
pub fn start() -> usize {
    let live = LIVE.load(Ordering::Relaxed);
    PEAK.store(live, Ordering::Relaxed);
    live
}

/// Peak live bytes above the baseline since `start`.
pub fn peak_since(base: usize) -> usize {
    PEAK.load(Ordering::Relaxed).saturating_sub(base)
}
