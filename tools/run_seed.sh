#!/bin/bash
# usage: tools/run_seed.sh <PROP> <k> <check> [<check>…]   — confirm, test against the checks, archive under seeded/
P=$1; K=$2; shift 2
cd /verif
CONF=$(tools/seed_confirm.sh $P $K 2>&1 | tail -5)
RES=$(timeout 3000 tools/seed_test.sh /tmp/seed-out-$P/$K/patch.diff ${TIER:-quick} "$@" 2>&1 | cut -c1-900)
echo "$CONF" | tail -2
echo "$RES"
tools/seed_archive.py $P $K "$P-seed$K" "$*" "$RES" "$CONF"
