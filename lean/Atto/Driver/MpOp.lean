/- Atto/Driver/MpOp.lean — op `mpart`. -/
import Atto.Driver.SendOp
import Atto.Model.Multipart
namespace Atto.Driver
open Atto

/-- `mpart <bufSize> <boundaryhex> <texts: namehex:valhex,..|-> <files: namehex:datahex:fnhex|~:mimehex|~,..|->`
    → `ct=<hex> pieces=<hex,hex,…>` -/
def opMpart (args : List String) : String :=
  match args with
  | [bs, b, texts, files] =>
    let ts := (splitComma texts).mapM (fun s => match s.splitOn ":" with
      | [n, v] => match bytesOfHex n, bytesOfHex v with
        | some n, some v => some (n, v)
        | _, _ => none
      | _ => none)
    let fs := (splitComma files).mapM (fun s => match s.splitOn ":" with
      | [n, d, fnm, m] => match bytesOfHex n, bytesOfHex d, optBytes fnm, optBytes m with
        | some n, some d, some fnm, some m => some ({ name := n, data := d, filename := fnm, mime := m } : MFile)
        | _, _, _, _ => none
      | _ => none)
    match bs.toNat?, bytesOfHex b, ts, fs with
    | some bs, some b, some ts, some fs =>
      let form : MForm := { texts := ts, files := fs }
      match mpBoundaryOf (mpDelim b ++ [45, 45]) with
      | .ok b' =>
        let pieces := mpWrites bs b form
        s!"ct={hexOfBytes (mpContentType b')} pieces={if pieces = [] then "-" else ",".intercalate (pieces.map hexOfBytes)}"
      | _ => "P"
    | _, _, _, _ => "bad-op"
  | _ => "bad-op"

end Atto.Driver
