/-
  Atto/Lemmas/HappyLemmas.lean — lemmas about `intertwine`, `earliest`, `removeId`, `drain`, `race`
  and `connect` (Atto/Model/Happy.lean), used by Atto/Props/C17.lean.
-/
import Atto.Model.Happy
namespace Atto
namespace Happy

/-! ### `intertwine` -/

theorem hp_intertwine_nil_right {α : Type} (as : List α) : intertwine as [] = as := by
  cases as <;> rfl

theorem hp_intertwine_cons_cons {α : Type} (a b : α) (as bs : List α) :
    intertwine (a :: as) (b :: bs) = a :: b :: intertwine as bs := rfl

theorem hp_intertwine_perm {α : Type} (as bs : List α) : (intertwine as bs).Perm (as ++ bs) := by
  induction as generalizing bs with
  | nil => exact .refl _
  | cons a as ih =>
    cases bs with
    | nil => simp [intertwine]
    | cons b bs =>
      rw [hp_intertwine_cons_cons]
      exact .cons a (((ih bs).cons b).trans List.perm_middle.symm)

theorem hp_intertwine_filter {α : Type} (p : α → Bool) (as bs : List α)
    (ha : ∀ a ∈ as, p a = true) (hb : ∀ b ∈ bs, p b = false) :
    (intertwine as bs).filter p = as ∧ (intertwine as bs).filter (fun x => !p x) = bs := by
  induction as generalizing bs with
  | nil =>
    simp only [intertwine]
    exact ⟨List.filter_eq_nil_iff.mpr (fun b hb' => by simp [hb b hb']),
      List.filter_eq_self.mpr (fun b hb' => by simp [hb b hb'])⟩
  | cons a as ih =>
    cases bs with
    | nil =>
      rw [hp_intertwine_nil_right]
      exact ⟨List.filter_eq_self.mpr ha,
        List.filter_eq_nil_iff.mpr (fun a ha' => by simp [ha a ha'])⟩
    | cons b bs =>
      rw [hp_intertwine_cons_cons]
      have h1 := ha a (List.mem_cons_self ..)
      have h2 := hb b (List.mem_cons_self ..)
      obtain ⟨i1, i2⟩ := ih bs (fun x hx => ha x (List.mem_cons_of_mem _ hx))
        (fun x hx => hb x (List.mem_cons_of_mem _ hx))
      simp [h1, h2, i1, i2]

theorem hp_intertwine_even {α : Type} (as bs : List α) (k : Nat)
    (hk : k < min as.length bs.length) : (intertwine as bs)[2 * k]? = as[k]? := by
  induction as generalizing bs k with
  | nil => simp at hk
  | cons a as ih =>
    cases bs with
    | nil => simp at hk
    | cons b bs =>
      rw [hp_intertwine_cons_cons]
      cases k with
      | zero => rfl
      | succ k =>
        have : 2 * (k + 1) = 2 * k + 1 + 1 := by omega
        rw [this]
        simp only [List.getElem?_cons_succ]
        exact ih bs k (by simp only [List.length_cons] at hk; omega)

theorem hp_intertwine_odd {α : Type} (as bs : List α) (k : Nat)
    (hk : k < min as.length bs.length) : (intertwine as bs)[2 * k + 1]? = bs[k]? := by
  induction as generalizing bs k with
  | nil => simp at hk
  | cons a as ih =>
    cases bs with
    | nil => simp at hk
    | cons b bs =>
      rw [hp_intertwine_cons_cons]
      cases k with
      | zero => rfl
      | succ k =>
        have : 2 * (k + 1) + 1 = (2 * k + 1) + 1 + 1 := by omega
        rw [this]
        simp only [List.getElem?_cons_succ]
        exact ih bs k (by simp only [List.length_cons] at hk; omega)

theorem hp_intertwine_drop {α : Type} (as bs : List α) :
    (intertwine as bs).drop (2 * min as.length bs.length) =
      as.drop (min as.length bs.length) ++ bs.drop (min as.length bs.length) := by
  induction as generalizing bs with
  | nil => simp [intertwine]
  | cons a as ih =>
    cases bs with
    | nil => simp [hp_intertwine_nil_right]
    | cons b bs =>
      rw [hp_intertwine_cons_cons]
      have e : min (a :: as).length (b :: bs).length = min as.length bs.length + 1 := by
        simp only [List.length_cons]; omega
      rw [e]
      have : 2 * (min as.length bs.length + 1) = 2 * min as.length bs.length + 1 + 1 := by omega
      rw [this]
      simp only [List.drop_succ_cons]
      exact ih bs

/-- the order in which `connect` dials: IPv6 first, alternating, resolver order within a family -/
def hp_order (addrs : List Addr) : List Addr :=
  intertwine (addrs.filter (·.fam == .v6)) (addrs.filter (·.fam == .v4))

theorem hp_order_perm (addrs : List Addr) : (hp_order addrs).Perm addrs := by
  refine (hp_intertwine_perm _ _).trans ?_
  induction addrs with
  | nil => exact .refl _
  | cons a l ih =>
    cases hf : a.fam with
    | v6 =>
      have e1 : (a :: l).filter (·.fam == .v6) = a :: l.filter (·.fam == .v6) := by
        simp [hf]
      have e2 : (a :: l).filter (·.fam == .v4) = l.filter (·.fam == .v4) := by
        simp [hf]
      rw [e1, e2]; exact .cons a ih
    | v4 =>
      have e1 : (a :: l).filter (·.fam == .v6) = l.filter (·.fam == .v6) := by
        simp [hf]
      have e2 : (a :: l).filter (·.fam == .v4) = a :: l.filter (·.fam == .v4) := by
        simp [hf]
      rw [e1, e2]; exact List.perm_middle.trans (.cons a ih)

theorem hp_order_mem {addrs : List Addr} {a : Addr} : a ∈ hp_order addrs ↔ a ∈ addrs :=
  (hp_order_perm addrs).mem_iff

theorem hp_order_single (a : Addr) : hp_order [a] = [a] := by
  unfold hp_order
  cases hf : a.fam <;> simp [hf, intertwine]

theorem hp_connect_race (a b : Addr) (l : List Addr) (timeout : Nat) (deadline : Option Nat)
    (rd : Nat) :
    connect (a :: b :: l) timeout deadline rd =
      race timeout deadline rd (hp_order (a :: b :: l)) [] 0 none := rfl

theorem hp_intertwine_head {α : Type} (as bs : List α) (h : as ≠ []) :
    (intertwine as bs).head? = as.head? := by
  cases as with
  | nil => exact absurd rfl h
  | cons a as => cases bs <;> rfl

/-! ### `earliest`, `removeId` -/

theorem hp_earliest_none {ps : List Pending} : earliest ps = none ↔ ps = [] := by
  cases ps with
  | nil => simp [earliest]
  | cons p ps =>
    simp only [earliest, reduceCtorEq, iff_false]
    split
    · simp
    · split <;> simp

theorem hp_earliest_spec {ps : List Pending} {q : Pending} (h : earliest ps = some q) :
    q ∈ ps ∧ ∀ p ∈ ps, q.done ≤ p.done := by
  induction ps generalizing q with
  | nil => simp [earliest] at h
  | cons p ps ih =>
    simp only [earliest] at h
    split at h
    · next hn =>
      injection h with h; subst h
      rw [hp_earliest_none.mp hn]
      exact ⟨List.mem_cons_self .., fun x hx => by simp at hx; subst hx; exact Nat.le_refl _⟩
    · next q' hq' =>
      obtain ⟨hm, hle⟩ := ih hq'
      split at h
      · next hc =>
        injection h with h; subst h
        refine ⟨List.mem_cons_self .., fun x hx => ?_⟩
        rcases List.mem_cons.mp hx with rfl | hx
        · exact Nat.le_refl _
        · exact Nat.le_trans hc (hle x hx)
      · next hc =>
        injection h with h; subst h
        refine ⟨List.mem_cons_of_mem _ hm, fun x hx => ?_⟩
        rcases List.mem_cons.mp hx with rfl | hx
        · omega
        · exact hle x hx

theorem hp_earliest_some {ps : List Pending} (h : ps ≠ []) : ∃ q, earliest ps = some q := by
  cases he : earliest ps with
  | none => exact absurd (hp_earliest_none.mp he) h
  | some q => exact ⟨q, rfl⟩

theorem hp_mem_removeId {ps : List Pending} {p : Pending} {id : Nat} :
    p ∈ removeId ps id ↔ p ∈ ps ∧ p.id ≠ id := by
  simp [removeId, List.mem_filter]

theorem hp_removeId_length {ps : List Pending} {q : Pending} (h : q ∈ ps) :
    (removeId ps q.id).length < ps.length := by
  induction ps with
  | nil => cases h
  | cons p ps ih =>
    simp only [removeId, List.filter_cons]
    have hle : (ps.filter (·.id != q.id)).length ≤ ps.length := List.length_filter_le _ _
    split
    · next hp =>
      rcases List.mem_cons.mp h with rfl | h
      · simp at hp
      · have := ih h
        simp only [removeId] at this
        simp only [List.length_cons]; omega
    · simp only [List.length_cons]; omega

/-! ### one iteration of `race`, `drain` -/

/-- the attempt started for `a` at time `t` -/
def hp_pend (timeout : Nat) (deadline : Option Nat) (a : Addr) (t : Nat) : Pending :=
  match attemptLimit timeout deadline t with
  | some lim => startAttempt a t lim
  | none => { id := a.id, done := t, res := some .timedOut }

/-- what `race` does after having started the next attempt -/
def hp_after (timeout : Nat) (deadline : Option Nat) (rd : Nat) (rest : List Addr) (ps : List Pending)
    (t : Nat) (fe : Option (Nat × ConnErr)) : ConnOut :=
  match earliest ps with
  | some q =>
    if q.done ≤ t + rd then
      match q.res with
      | none => .ok q.id (max t q.done)
      | some e => race timeout deadline rd rest (removeId ps q.id) (max t q.done)
          (fe.orElse (fun _ => some (q.id, e)))
    else race timeout deadline rd rest ps (t + rd) fe
  | none => race timeout deadline rd rest ps (t + rd) fe

theorem hp_race_nil (timeout : Nat) (deadline : Option Nat) (rd : Nat) (ps : List Pending) (t : Nat)
    (fe : Option (Nat × ConnErr)) :
    race timeout deadline rd [] ps t fe = drain (ps.length + 1) ps t fe := rfl

theorem hp_race_cons (timeout : Nat) (deadline : Option Nat) (rd : Nat) (a : Addr) (rest : List Addr)
    (ps : List Pending) (t : Nat) (fe : Option (Nat × ConnErr)) :
    race timeout deadline rd (a :: rest) ps t fe =
      hp_after timeout deadline rd rest (ps ++ [hp_pend timeout deadline a t]) t fe := rfl

/-- the three ways an iteration continues -/
theorem hp_after_cases (timeout : Nat) (deadline : Option Nat) (rd : Nat) (rest : List Addr)
    (ps : List Pending) (t : Nat) (fe : Option (Nat × ConnErr)) (hne : ps ≠ []) :
    ∃ q, earliest ps = some q ∧
      ((q.done ≤ t + rd ∧ q.res = none ∧
          hp_after timeout deadline rd rest ps t fe = .ok q.id (max t q.done)) ∨
       (q.done ≤ t + rd ∧ ∃ e, q.res = some e ∧
          hp_after timeout deadline rd rest ps t fe =
            race timeout deadline rd rest (removeId ps q.id) (max t q.done)
              (fe.orElse (fun _ => some (q.id, e)))) ∨
       (t + rd < q.done ∧
          hp_after timeout deadline rd rest ps t fe = race timeout deadline rd rest ps (t + rd) fe)) := by
  obtain ⟨q, hq⟩ := hp_earliest_some hne
  refine ⟨q, hq, ?_⟩
  unfold hp_after
  rw [hq]
  simp only
  split
  · next hc =>
    cases hr : q.res with
    | none => exact .inl ⟨hc, rfl, rfl⟩
    | some e => exact .inr (.inl ⟨hc, e, rfl, rfl⟩)
  · next hc => exact .inr (.inr ⟨by omega, rfl⟩)

theorem hp_drain_cases (fuel : Nat) (ps : List Pending) (t : Nat) (fe : Option (Nat × ConnErr)) :
    (ps = [] ∧ drain (fuel + 1) ps t fe = (match fe with | some (id, e) => .err id e t | none => .noDns)) ∨
    ∃ q, earliest ps = some q ∧
      ((q.res = none ∧ drain (fuel + 1) ps t fe = .ok q.id (max t q.done)) ∨
       (∃ e, q.res = some e ∧ drain (fuel + 1) ps t fe =
          drain fuel (removeId ps q.id) (max t q.done) (fe.orElse (fun _ => some (q.id, e))))) := by
  cases he : earliest ps with
  | none =>
    refine .inl ⟨hp_earliest_none.mp he, ?_⟩
    simp only [drain, he]
    cases fe with
    | none => rfl
    | some x => cases x; rfl
  | some q =>
    refine .inr ⟨q, rfl, ?_⟩
    cases hr : q.res with
    | none => exact .inl ⟨rfl, by simp only [drain, he, hr]⟩
    | some e => exact .inr ⟨e, rfl, by simp only [drain, he, hr]⟩

/-! ### the attempts -/

theorem hp_pend_id (timeout : Nat) (deadline : Option Nat) (a : Addr) (t : Nat) :
    (hp_pend timeout deadline a t).id = a.id := by
  unfold hp_pend startAttempt
  split
  · split <;> (try split) <;> rfl
  · rfl

/-- an attempt that connects: the address accepts, within the connect timeout -/
theorem hp_pend_ok {timeout : Nat} {deadline : Option Nat} {a : Addr} {t : Nat}
    (h : (hp_pend timeout deadline a t).res = none) :
    ∃ d, a.beh = .accept d ∧ d ≤ timeout ∧ (hp_pend timeout deadline a t).done = t + d := by
  unfold hp_pend at h ⊢
  split at h
  · next lim hl =>
    have hlim : lim ≤ timeout := by
      unfold attemptLimit at hl
      split at hl
      · injection hl with hl; omega
      · split at hl
        · cases hl
        · injection hl with hl; omega
    unfold startAttempt at h ⊢
    split at h
    · next d hb =>
      split at h
      · next hd => rw [hb]; simp only [if_pos hd]; exact ⟨d, rfl, by omega, rfl⟩
      · cases h
    · split at h <;> cases h
    · cases h
  · cases h

/-- without a deadline an accepting address connects after its latency -/
theorem hp_pend_accept {timeout : Nat} {a : Addr} {t d : Nat} (hb : a.beh = .accept d)
    (hd : d ≤ timeout) : hp_pend timeout none a t = { id := a.id, done := t + d, res := none } := by
  simp [hp_pend, attemptLimit, startAttempt, hb, hd]

/-- an attempt that does not connect under the "nobody accepts in time" hypothesis -/
theorem hp_pend_err {timeout : Nat} {deadline : Option Nat} {a : Addr} {t : Nat}
    (hna : ∀ d, a.beh = .accept d → timeout < d) : (hp_pend timeout deadline a t).res ≠ none := by
  intro h
  obtain ⟨d, hb, hd, _⟩ := hp_pend_ok h
  have := hna d hb; omega

theorem hp_connect_single (a : Addr) (timeout : Nat) (deadline : Option Nat) (rd : Nat) :
    connect [a] timeout deadline rd =
      (match (hp_pend timeout deadline a 0).res with
       | none => .ok a.id (hp_pend timeout deadline a 0).done
       | some e => .err a.id e (hp_pend timeout deadline a 0).done) := rfl

/-- decidable form of "accepts within the connect timeout" (for examples) -/
def hp_acceptsWithin (timeout : Nat) (a : Addr) : Bool :=
  match a.beh with
  | .accept d => decide (d ≤ timeout)
  | _ => false

theorem hp_acceptsWithin_iff {timeout : Nat} {a : Addr} :
    hp_acceptsWithin timeout a = true ↔ ∃ d, a.beh = .accept d ∧ d ≤ timeout := by
  unfold hp_acceptsWithin
  split
  · next d hb => rw [hb]; simp
  · next hn =>
    simp only [Bool.false_eq_true, false_iff]
    rintro ⟨d, hb, _⟩
    exact hn d hb

theorem hp_none_accepts {timeout : Nat} {addrs : List Addr}
    (h : ∀ a ∈ addrs, hp_acceptsWithin timeout a = false) :
    ∀ a ∈ addrs, ∀ d, a.beh = .accept d → timeout < d := by
  intro a ha d hb
  apply Nat.lt_of_not_le
  intro hd
  have := hp_acceptsWithin_iff.mpr ⟨d, hb, hd⟩
  rw [h a ha] at this; cases this

/-! ### (h) a success comes from an address that accepted -/

/-- a pending attempt that connected belongs to an accepting address of `A` -/
def hp_Acc (A : List Addr) (timeout : Nat) (p : Pending) : Prop :=
  p.res = none → ∃ a ∈ A, a.id = p.id ∧ ∃ d, a.beh = .accept d ∧ d ≤ timeout

theorem hp_pend_acc {A : List Addr} {timeout : Nat} {deadline : Option Nat} {a : Addr} (t : Nat)
    (ha : a ∈ A) : hp_Acc A timeout (hp_pend timeout deadline a t) := by
  intro h
  obtain ⟨d, hb, hd, _⟩ := hp_pend_ok h
  exact ⟨a, ha, (hp_pend_id ..).symm, d, hb, hd⟩

theorem hp_drain_ok {A : List Addr} {timeout : Nat} (fuel : Nat) (ps : List Pending) (t : Nat)
    (fe : Option (Nat × ConnErr)) (hps : ∀ p ∈ ps, hp_Acc A timeout p) {id t' : Nat}
    (h : drain fuel ps t fe = .ok id t') :
    ∃ a ∈ A, a.id = id ∧ ∃ d, a.beh = .accept d ∧ d ≤ timeout := by
  induction fuel generalizing ps t fe with
  | zero => simp [drain] at h
  | succ fuel ih =>
    rcases hp_drain_cases fuel ps t fe with ⟨_, he⟩ | ⟨q, hq, ⟨hr, he⟩ | ⟨e, hr, he⟩⟩
    · rw [he] at h; split at h <;> cases h
    · rw [he] at h; injection h with h1 _
      rw [← h1]; exact hps q (hp_earliest_spec hq).1 hr
    · rw [he] at h
      exact ih _ _ _ (fun p hp => hps p (hp_mem_removeId.mp hp).1) h

theorem hp_race_ok {A : List Addr} {timeout : Nat} {deadline : Option Nat} {rd : Nat}
    (rest : List Addr) (ps : List Pending) (t : Nat) (fe : Option (Nat × ConnErr))
    (hrest : ∀ a ∈ rest, a ∈ A) (hps : ∀ p ∈ ps, hp_Acc A timeout p) {id t' : Nat}
    (h : race timeout deadline rd rest ps t fe = .ok id t') :
    ∃ a ∈ A, a.id = id ∧ ∃ d, a.beh = .accept d ∧ d ≤ timeout := by
  induction rest generalizing ps t fe with
  | nil => rw [hp_race_nil] at h; exact hp_drain_ok _ _ _ _ hps h
  | cons a rest ih =>
    rw [hp_race_cons] at h
    have hrest' : ∀ a ∈ rest, a ∈ A := fun x hx => hrest x (List.mem_cons_of_mem _ hx)
    have hps' : ∀ p ∈ ps ++ [hp_pend timeout deadline a t], hp_Acc A timeout p := by
      intro p hp
      rcases List.mem_append.mp hp with hp | hp
      · exact hps p hp
      · simp only [List.mem_singleton] at hp; subst hp
        exact hp_pend_acc t (hrest a (List.mem_cons_self ..))
    rcases hp_after_cases timeout deadline rd rest (ps ++ [hp_pend timeout deadline a t]) t fe
      (by simp) with ⟨q, hq, ⟨_, hr, he⟩ | ⟨_, e, hr, he⟩ | ⟨_, he⟩⟩
    · rw [he] at h; injection h with h1 _
      rw [← h1]; exact hps' q (hp_earliest_spec hq).1 hr
    · rw [he] at h
      exact ih _ _ _ hrest' (fun p hp => hps' p (hp_mem_removeId.mp hp).1) h
    · rw [he] at h
      exact ih _ _ _ hrest' hps' h

/-! ### (i) the shape of the result: never `noDns`, an error carries the id of an attempt -/

def hp_Shape (ids : List Nat) : ConnOut → Prop
  | .ok _ _ => True
  | .err id _ _ => id ∈ ids
  | .noDns => False

def hp_feIn (ids : List Nat) (fe : Option (Nat × ConnErr)) : Prop :=
  ∀ id e, fe = some (id, e) → id ∈ ids

theorem hp_feIn_orElse {ids : List Nat} {fe : Option (Nat × ConnErr)} {id : Nat} {e : ConnErr}
    (h : hp_feIn ids fe) (hid : id ∈ ids) :
    hp_feIn ids (fe.orElse (fun _ => some (id, e))) ∧ (fe.orElse (fun _ => some (id, e))).isSome = true := by
  cases fe with
  | none =>
    refine ⟨fun i e' hh => ?_, rfl⟩
    simp only [Option.orElse] at hh
    injection hh with hh; injection hh with h1 _; rw [← h1]; exact hid
  | some x => exact ⟨h, rfl⟩

theorem hp_drain_shape {ids : List Nat} (fuel : Nat) (ps : List Pending) (t : Nat)
    (fe : Option (Nat × ConnErr)) (hfuel : ps.length < fuel) (hps : ∀ p ∈ ps, p.id ∈ ids)
    (hfe : hp_feIn ids fe) (hne : ps ≠ [] ∨ fe.isSome = true) :
    hp_Shape ids (drain fuel ps t fe) := by
  induction fuel generalizing ps t fe with
  | zero => omega
  | succ fuel ih =>
    rcases hp_drain_cases fuel ps t fe with ⟨hnil, he⟩ | ⟨q, hq, ⟨hr, he⟩ | ⟨e, hr, he⟩⟩
    · rw [he]
      rcases hne with h | h
      · exact absurd hnil h
      · cases fe with
        | none => cases h
        | some x => obtain ⟨id, e⟩ := x; exact hfe id e rfl
    · rw [he]; trivial
    · rw [he]
      have hqm := (hp_earliest_spec hq).1
      obtain ⟨h1, h2⟩ := hp_feIn_orElse (e := e) hfe (hps q hqm)
      have := hp_removeId_length hqm
      exact ih _ _ _ (by omega) (fun p hp => hps p (hp_mem_removeId.mp hp).1) h1 (.inr h2)

theorem hp_race_shape {ids : List Nat} {timeout : Nat} {deadline : Option Nat} {rd : Nat}
    (rest : List Addr) (ps : List Pending) (t : Nat) (fe : Option (Nat × ConnErr))
    (hrest : ∀ a ∈ rest, a.id ∈ ids) (hps : ∀ p ∈ ps, p.id ∈ ids) (hfe : hp_feIn ids fe)
    (hne : rest ≠ [] ∨ ps ≠ [] ∨ fe.isSome = true) :
    hp_Shape ids (race timeout deadline rd rest ps t fe) := by
  induction rest generalizing ps t fe with
  | nil =>
    rw [hp_race_nil]
    exact hp_drain_shape _ _ _ _ (by omega) hps hfe (by
      rcases hne with h | h
      · exact absurd rfl h
      · exact h)
  | cons a rest ih =>
    rw [hp_race_cons]
    have hrest' : ∀ a ∈ rest, a.id ∈ ids := fun x hx => hrest x (List.mem_cons_of_mem _ hx)
    have hps' : ∀ p ∈ ps ++ [hp_pend timeout deadline a t], p.id ∈ ids := by
      intro p hp
      rcases List.mem_append.mp hp with hp | hp
      · exact hps p hp
      · simp only [List.mem_singleton] at hp; subst hp
        rw [hp_pend_id]; exact hrest a (List.mem_cons_self ..)
    have hne' : ps ++ [hp_pend timeout deadline a t] ≠ [] := by simp
    rcases hp_after_cases timeout deadline rd rest _ t fe hne' with
      ⟨q, hq, ⟨_, hr, he⟩ | ⟨_, e, hr, he⟩ | ⟨_, he⟩⟩
    · rw [he]; trivial
    · rw [he]
      obtain ⟨h1, h2⟩ := hp_feIn_orElse (e := e) hfe (hps' q (hp_earliest_spec hq).1)
      exact ih _ _ _ hrest' (fun p hp => hps' p (hp_mem_removeId.mp hp).1) h1 (.inr (.inr h2))
    · rw [he]
      exact ih _ _ _ hrest' hps' hfe (.inr (.inl hne'))

/-! ### (h ←), (j): an accepting address wins, and when -/

/-- `p` is a connected attempt that will not be thrown away: it is pending, the clock has not
    passed its completion, nobody else (pending or still to be started) carries its id -/
def hp_Win (p : Pending) (rest : List Addr) (ps : List Pending) (t : Nat) : Prop :=
  p ∈ ps ∧ p.res = none ∧ t ≤ p.done ∧ (∀ q ∈ ps, q.id = p.id → q.res = none) ∧
    ∀ a ∈ rest, a.id ≠ p.id

theorem hp_drain_win {p : Pending} (fuel : Nat) (ps : List Pending) (t : Nat)
    (fe : Option (Nat × ConnErr)) (hfuel : ps.length < fuel) (hw : hp_Win p [] ps t) :
    ∃ id t', drain fuel ps t fe = .ok id t' ∧ t' ≤ p.done := by
  induction fuel generalizing ps t fe with
  | zero => omega
  | succ fuel ih =>
    obtain ⟨hm, hres, ht, huniq, _⟩ := hw
    rcases hp_drain_cases fuel ps t fe with ⟨hnil, _⟩ | ⟨q, hq, ⟨hr, he⟩ | ⟨e, hr, he⟩⟩
    · rw [hnil] at hm; cases hm
    · have := (hp_earliest_spec hq).2 p hm
      exact ⟨_, _, he, by omega⟩
    · rw [he]
      obtain ⟨hqm, hqle⟩ := hp_earliest_spec hq
      have hne : p.id ≠ q.id := fun h => by
        have := huniq q hqm h.symm; rw [hr] at this; cases this
      have := hp_removeId_length hqm
      have := hqle p hm
      exact ih _ _ _ (by omega)
        ⟨hp_mem_removeId.mpr ⟨hm, hne⟩, hres, by omega,
          fun x hx => huniq x (hp_mem_removeId.mp hx).1, fun _ h => nomatch h⟩

theorem hp_after_win_aux {timeout : Nat} {deadline : Option Nat} {rd : Nat} {p : Pending}
    {rest : List Addr}
    (ih : ∀ (ps : List Pending) (t : Nat) (fe : Option (Nat × ConnErr)), hp_Win p rest ps t →
      ∃ id t', race timeout deadline rd rest ps t fe = .ok id t' ∧ t' ≤ p.done)
    (ps : List Pending) (t : Nat) (fe : Option (Nat × ConnErr)) (hw : hp_Win p rest ps t) :
    ∃ id t', hp_after timeout deadline rd rest ps t fe = .ok id t' ∧ t' ≤ p.done := by
  obtain ⟨hm, hres, ht, huniq, hrest⟩ := hw
  have hne : ps ≠ [] := fun h => by rw [h] at hm; cases hm
  rcases hp_after_cases timeout deadline rd rest ps t fe hne with
    ⟨q, hq, ⟨hc, hr, he⟩ | ⟨hc, e, hr, he⟩ | ⟨hc, he⟩⟩
  · have := (hp_earliest_spec hq).2 p hm
    exact ⟨_, _, he, by omega⟩
  · rw [he]
    obtain ⟨hqm, hqle⟩ := hp_earliest_spec hq
    have hne : p.id ≠ q.id := fun h => by
      have := huniq q hqm h.symm; rw [hr] at this; cases this
    have := hqle p hm
    exact ih _ _ _ ⟨hp_mem_removeId.mpr ⟨hm, hne⟩, hres, by omega,
      fun x hx => huniq x (hp_mem_removeId.mp hx).1, hrest⟩
  · rw [he]
    have := (hp_earliest_spec hq).2 p hm
    exact ih _ _ _ ⟨hm, hres, by omega, huniq, hrest⟩

theorem hp_race_win {timeout : Nat} {deadline : Option Nat} {rd : Nat} {p : Pending}
    (rest : List Addr) (ps : List Pending) (t : Nat) (fe : Option (Nat × ConnErr))
    (hw : hp_Win p rest ps t) :
    ∃ id t', race timeout deadline rd rest ps t fe = .ok id t' ∧ t' ≤ p.done := by
  induction rest generalizing ps t fe with
  | nil => rw [hp_race_nil]; exact hp_drain_win _ _ _ _ (by omega) hw
  | cons a rest ih =>
    rw [hp_race_cons]
    obtain ⟨hm, hres, ht, huniq, hrest⟩ := hw
    have hida : a.id ≠ p.id := hrest a (List.mem_cons_self ..)
    refine hp_after_win_aux ih _ t fe ⟨List.mem_append_left _ hm, hres, ht, ?_,
      fun x hx => hrest x (List.mem_cons_of_mem _ hx)⟩
    intro q hq hid
    rcases List.mem_append.mp hq with hq | hq
    · exact huniq q hq hid
    · simp only [List.mem_singleton] at hq; subst hq
      rw [hp_pend_id] at hid; exact absurd hid hida

theorem hp_after_win {timeout : Nat} {deadline : Option Nat} {rd : Nat} {p : Pending}
    (rest : List Addr) (ps : List Pending) (t : Nat) (fe : Option (Nat × ConnErr))
    (hw : hp_Win p rest ps t) :
    ∃ id t', hp_after timeout deadline rd rest ps t fe = .ok id t' ∧ t' ≤ p.done :=
  hp_after_win_aux (fun ps t fe h => hp_race_win rest ps t fe h) ps t fe hw

/-- The address at position `pre.length` of the race order accepts after `d ≤ timeout`, its id is
    not shared: the race succeeds, at the latest `pre.length` race intervals plus `d` after its
    start. -/
theorem hp_race_delay {timeout rd : Nat} {a : Addr} {d : Nat} (hb : a.beh = .accept d)
    (hd : d ≤ timeout) (pre post : List Addr) (ps : List Pending) (t : Nat)
    (fe : Option (Nat × ConnErr)) (hps : ∀ q ∈ ps, q.id ≠ a.id) (hpre : ∀ x ∈ pre, x.id ≠ a.id)
    (hpost : ∀ x ∈ post, x.id ≠ a.id) :
    ∃ id t', race timeout none rd (pre ++ a :: post) ps t fe = .ok id t' ∧
      t' ≤ t + pre.length * rd + d := by
  induction pre generalizing ps t fe with
  | nil =>
    simp only [List.nil_append, List.length_nil, Nat.zero_mul, Nat.add_zero]
    rw [hp_race_cons, hp_pend_accept hb hd]
    have hw : hp_Win { id := a.id, done := t + d, res := none } post
        (ps ++ [{ id := a.id, done := t + d, res := none }]) t := by
      refine ⟨by simp, rfl, by simp only; omega, ?_, hpost⟩
      intro q hq hid
      rcases List.mem_append.mp hq with hq | hq
      · exact absurd hid (hps q hq)
      · simp only [List.mem_singleton] at hq; subst hq; rfl
    exact hp_after_win post _ t fe hw
  | cons x pre ih =>
    have hpre' : ∀ y ∈ pre, y.id ≠ a.id := fun y hy => hpre y (List.mem_cons_of_mem _ hy)
    have hx : x.id ≠ a.id := hpre x (List.mem_cons_self ..)
    rw [List.cons_append, hp_race_cons]
    have hps' : ∀ q ∈ ps ++ [hp_pend timeout none x t], q.id ≠ a.id := by
      intro q hq
      rcases List.mem_append.mp hq with hq | hq
      · exact hps q hq
      · simp only [List.mem_singleton] at hq; subst hq
        rw [hp_pend_id]; exact hx
    have hlen : (x :: pre).length * rd = pre.length * rd + rd := by
      simp only [List.length_cons, Nat.add_mul, Nat.one_mul]
    rw [hlen]
    rcases hp_after_cases timeout none rd (pre ++ a :: post) (ps ++ [hp_pend timeout none x t]) t fe
      (by simp) with ⟨q, hq, ⟨hc, hr, he⟩ | ⟨hc, e, hr, he⟩ | ⟨hc, he⟩⟩
    · exact ⟨_, _, he, by omega⟩
    · rw [he]
      obtain ⟨id, t', h1, h2⟩ := ih (removeId _ q.id) (max t q.done)
        (fe.orElse (fun _ => some (q.id, e))) (fun y hy => hps' y (hp_mem_removeId.mp hy).1) hpre'
      exact ⟨id, t', h1, by omega⟩
    · rw [he]
      obtain ⟨id, t', h1, h2⟩ := ih _ (t + rd) fe hps' hpre'
      exact ⟨id, t', h1, by omega⟩

theorem hp_split_at {α : Type} {l : List α} {k : Nat} {a : α} (h : l[k]? = some a) :
    ∃ pre post, l = pre ++ a :: post ∧ pre.length = k := by
  induction l generalizing k with
  | nil => simp at h
  | cons x l ih =>
    cases k with
    | zero => simp at h; subst h; exact ⟨[], l, rfl, rfl⟩
    | succ k =>
      simp only [List.getElem?_cons_succ] at h
      obtain ⟨pre, post, h1, h2⟩ := ih h
      exact ⟨x :: pre, post, by rw [h1]; rfl, by simp [h2]⟩

theorem hp_nodup_split {pre post : List Addr} {a : Addr}
    (h : ((pre ++ a :: post).map (·.id)).Nodup) :
    (∀ x ∈ pre, x.id ≠ a.id) ∧ (∀ x ∈ post, x.id ≠ a.id) := by
  rw [List.map_append, List.map_cons, List.nodup_append] at h
  obtain ⟨_, h2, h3⟩ := h
  rw [List.nodup_cons] at h2
  refine ⟨fun x hx => h3 x.id (List.mem_map_of_mem hx) a.id (List.mem_cons_self ..), ?_⟩
  intro x hx he
  exact h2.1 (by rw [← he]; exact List.mem_map_of_mem hx)

end Happy
end Atto
