/-
  Atto/Spec/Flat.lean — the two deterministic reading primitives specified over the *flat* item
  stream (no segmentation, no buffer capacity). `Lemmas/BufReaderRefine.lean` proves that the model
  of `BufReader` over any scripted transport refines them.
-/
import Atto.Std.Io
namespace Atto

/-- `read_exact(n)`: exactly `n` bytes, Interrupted (`err 0`) skipped, EOF → UnexpectedEof,
    other errors returned (the bytes read so far are lost), pause → blocked. -/
def specExact : Nat → List Item → RR Bytes × List Item
  | 0, is => (.ok [], is)
  | _+1, [] => (.err .eof, [])
  | n+1, .byte b :: is => let p := specExact n is; (p.1.map (b :: ·), p.2)
  | n+1, .err k :: is => if k = 0 then specExact (n+1) is else (.err (.io k), is)
  | _+1, .pause :: is => (.blocked, .pause :: is)
termination_by n is => (n, is.length)

/-- `Take(limit).read_until(b'\n')`: bytes up to and including the first LF, at most `limit` of
    them; stops early at EOF. Returns the collected bytes and what is left of the limit. -/
def specUntil : Nat → List Item → Bytes → RR (Bytes × Nat) × List Item
  | 0, is, acc => (.ok (acc, 0), is)
  | l+1, [], acc => (.ok (acc, l+1), [])
  | l+1, .byte b :: is, acc =>
      if b = 10 then (.ok (acc ++ [b], l), is) else specUntil l is (acc ++ [b])
  | l+1, .err k :: is, acc => if k = 0 then specUntil (l+1) is acc else (.err (.io k), is)
  | _+1, .pause :: is, _ => (.blocked, .pause :: is)
termination_by l is _ => (l, is.length)

end Atto
