/-
  Atto/Props/C13.lean — property C13: "timeouts bound every phase, and only real timeouts are
  reported".  Model: Atto/Model/Watchdog.lean (the deadline watchdog thread of `connect_tcp` and the
  reader's side `read_timeout`, as a timed transition system).  Reachability (`Wd.Reach`, labelled
  runs `Wd.Trace`), the invariant `Wd.Inv` and the case analysis of `read` are in
  Atto/Lemmas/WatchdogLemmas.lean.  All statements quantify over EVERY state reachable from
  `init d rt` (watchdog installed and waiting, reader holds its sender) by any interleaving of clock
  advances, peer sends (while the socket is not shut), peer close, reads with a non-empty buffer and
  dropping the response — or over every `run` scenario.

    (a) `C13_timedout_sound`      a `TimedOut` is reported only once the deadline has passed (and
                                  the watchdog has fired and shut the socket);
        `C13_eof_genuine`         with the sender held, `Ok(0)` is passed on only for a peer close
                                  strictly before the deadline on a socket that is not shut;
    (b) `C13_complete_never_timedout`  after an `Ok(0)` every later read, at any later time, is `Ok(0)`;
    (c) `C13_cut_not_clean`       socket shut by the watchdog, nothing left to deliver: `TimedOut`,
                                  never `Ok(0)`; `C13_alive`: no drop, no `Ok(0)` so far ⇒ sender held;
    (d) `C13_data_first`, `C13_conserve`, `C13_no_fabrication`;
    (e) `C13_release`, `C13_release_exits`, `C13_exited_never_shuts`;
    (f) `C13_bound_model`, `C13_after_deadline_immediate`, `C13_reads_bounded`.

  `WdState.droppedRx` is never produced by the model's functions (firing is atomic: `fireIfDue`
  goes from `waiting` to `fired` and sets `shut` in one step); `Inv.noDropped` records it.
-/
import Atto.Lemmas.WatchdogLemmas
namespace Atto
open Atto.Wd

/-! ### the invariant of reachable states -/

theorem C13_invariant {d rt : Nat} {s : St} (r : Reach (init d rt) s) :
    s.wd ≠ .droppedRx ∧ (s.wd = .fired ↔ s.shut = true) ∧ (s.wd = .fired → s.deadline ≤ s.now) ∧
    (s.wd = .exited → s.hasTx = false) ∧ (s.wd = .waiting → s.hasTx = true) ∧ s.deadline = d := by
  have h := wd_inv_of_init r
  refine ⟨h.noDropped, ⟨h.fired_shut, h.shut_fired⟩, h.fired_due, h.exited_noTx, h.waiting_tx, ?_⟩
  exact r.preserves (P := fun x => x.deadline = d) (fun x a x' hp st => by
    cases st with
    | adv t => simpa using hp
    | send n _ => exact hp
    | close => exact hp
    | read n _ => rw [wd_read_deadline]; exact hp
    | drop => exact hp) rfl

/-- every `run` scenario (reads with non-empty buffers) ends in a reachable state -/
theorem C13_run_reach (d rt : Nat) (evs : List (Nat × Ev))
    (hn : ∀ e ∈ evs, wd_readPos e.2 = true) : Reach (init d rt) (wd_exec (init d rt) evs) :=
  wd_exec_reach _ evs hn

example : Reach (init 100 30) (advance (init 100 30) 80) := (Reach.refl _).step (.adv _ 80)
example : (wd_exec (init 100 30) [(10, .send 5), (120, .read 4)]).shut = true := by decide

/-! ### (a) only real timeouts -/

theorem C13_timedout_sound {d rt : Nat} {s s' : St} {n : Nat} (r : Reach (init d rt) s)
    (hr : read s n = (.timedOut, s')) : s'.deadline ≤ s'.now :=
  (wd_timedOut_sound (wd_inv_of_init r) hr).1

/-- … and by then the watchdog has fired and shut the socket down -/
theorem C13_timedout_fired {d rt : Nat} {s s' : St} {n : Nat} (r : Reach (init d rt) s)
    (hr : read s n = (.timedOut, s')) : s'.wd = .fired ∧ s'.shut = true :=
  (wd_timedOut_sound (wd_inv_of_init r) hr).2

/-- read at 80 with a 30 ms receive timeout, deadline 100: woken by the shutdown at 100 -/
example : ∃ s', read (advance (init 100 30) 80) 10 = (.timedOut, s') ∧ s'.now = 100 :=
  ⟨_, rfl, by decide⟩
example : (read (advance (init 100 30) 80) 10).2.deadline ≤ (read (advance (init 100 30) 80) 10).2.now :=
  C13_timedout_sound (s := advance (init 100 30) 80) (n := 10) ((Reach.refl _).step (.adv _ 80)) rfl
/-- the receive timeout expiring before the deadline is NOT reported as `TimedOut` by `read_timeout` -/
example : (read (advance (init 100 30) 20) 10).1 = .wouldBlock := by decide

/-- on scenarios: whenever the read that ends a scenario reports `TimedOut`, the clock has reached `d` -/
theorem C13_timedout_sound_run (d rt : Nat) (pre : List (Nat × Ev))
    (hpre : ∀ e ∈ pre, wd_readPos e.2 = true) (t n : Nat)
    (h : (read (advance (wd_exec (init d rt) pre) t) n).1 = .timedOut) :
    d ≤ (read (advance (wd_exec (init d rt) pre) t) n).2.now := by
  have r : Reach (init d rt) (advance (wd_exec (init d rt) pre) t) :=
    (wd_exec_reach _ pre hpre).step (.adv _ t)
  have h1 := C13_timedout_sound r (n := n) (s' := (read (advance (wd_exec (init d rt) pre) t) n).2)
    (by rw [← h])
  rw [wd_read_deadline, (C13_invariant r).2.2.2.2.2] at h1
  exact h1

example : 100 ≤ (read (advance (wd_exec (init 100 30) [(10, .send 4), (60, .read 9)]) 95) 9).2.now :=
  C13_timedout_sound_run 100 30 _ (by decide) 95 9 (by decide)

/-- with the sender held, `Ok(0)` reaches the caller only if the peer closed, the socket is not
    shut and the deadline has not been reached; the watchdog then stands down without ever
    touching the socket -/
theorem C13_eof_genuine {d rt : Nat} {s s' : St} {n : Nat} (r : Reach (init d rt) s)
    (hx : s.hasTx = true) (hr : read s n = (.eof, s')) :
    s.peerClosed = true ∧ s.shut = false ∧ s.now < s.deadline ∧ s'.wd = .exited ∧ s'.shut = false ∧
      s'.hasTx = false ∧ s'.now = s.now :=
  wd_eof_genuine (wd_inv_of_init r) hx hr

example : (read { advance (init 100 30) 20 with peerClosed := true } 10).1 = .eof := by decide

/-! ### (b) reads after the end of the body -/

/-- Once a read has returned `Ok(0)`, every later read — whatever the buffer sizes, whatever the
    times, also long after the deadline, also after the peer "closes again" or the response is
    dropped — returns `Ok(0)`; in particular never `TimedOut`.  (No further data: the continuation
    contains no `send`.) -/
theorem C13_complete_never_timedout {s s' : St} {n : Nat} (hr : read s n = (.eof, s'))
    (evs : List (Nat × Ev)) (hns : ∀ e ∈ evs, wd_isSend e.2 = false) :
    run s' evs = List.replicate (wd_readCount evs) .eof :=
  wd_done_run (wd_done_of_eof hr) evs hns

theorem C13_complete_never_timedout' {s s' : St} {n : Nat} (hr : read s n = (.eof, s'))
    (evs : List (Nat × Ev)) (hns : ∀ e ∈ evs, wd_isSend e.2 = false) :
    ∀ o ∈ run s' evs, o = .eof ∧ o ≠ .timedOut := by
  intro o ho
  rw [C13_complete_never_timedout hr evs hns] at ho
  rw [List.eq_of_mem_replicate ho]; exact ⟨rfl, by simp⟩

/-- the same on a whole scenario: prefix, the read that saw the end, continuation -/
theorem C13_complete_never_timedout_run (s : St) (pre : List (Nat × Ev)) (t n : Nat)
    (evs : List (Nat × Ev)) (hns : ∀ e ∈ evs, wd_isSend e.2 = false)
    (he : (read (advance (wd_exec s pre) t) n).1 = .eof) :
    run s (pre ++ (t, .read n) :: evs) = run s pre ++ .eof :: List.replicate (wd_readCount evs) .eof := by
  rw [wd_run_append]
  simp only [run]
  rw [he, C13_complete_never_timedout (s := advance (wd_exec s pre) t) (n := n) (by rw [← he]) evs hns]

/-- deadline 100; the peer closes at 10, the caller sees the end at 20, and keeps reading at 150
    and 200: `Ok(0)` every time -/
example : run (init 100 30) [(5, .send 3), (10, .close), (15, .read 8), (20, .read 8), (150, .read 8),
    (200, .read 1)] = [.data 3, .eof, .eof, .eof] := by decide
example : run (init 100 30) ([(5, .send 3), (10, .close), (15, .read 8)] ++ (20, .read 8) ::
    [(150, .read 8), (160, .drop), (200, .read 1)]) =
    run (init 100 30) [(5, .send 3), (10, .close), (15, .read 8)] ++ .eof :: List.replicate 2 .eof :=
  C13_complete_never_timedout_run _ _ 20 8 _ (by decide) (by decide)
/-- whereas an end of stream first OBSERVED after the deadline is a timeout (the watchdog has fired) -/
example : run (init 100 30) [(10, .close), (150, .read 8)] = [.timedOut] := by decide

/-! ### (c) a body cut by the deadline is never reported as complete -/

/-- The watchdog has shut the socket, nothing is left to deliver, the response is alive: the read
    returns `TimedOut` (and changes nothing) — never `Ok(0)`.  Whether the peer had closed or not
    does not matter; the form asked for (`peerClosed = false`) is the instance below. -/
theorem C13_cut_not_clean' {d rt : Nat} {s : St} (r : Reach (init d rt) s) (n : Nat)
    (hs : s.shut = true) (hq : s.queued = 0) (hb : s.buffered = 0) (hx : s.hasTx = true) :
    read s n = (.timedOut, s) :=
  wd_cut (wd_inv_of_init r) n hs hq hb hx

theorem C13_cut_not_clean {d rt : Nat} {s : St} (r : Reach (init d rt) s) (n : Nat)
    (hs : s.shut = true) (_hp : s.peerClosed = false) (hq : s.queued = 0) (hb : s.buffered = 0)
    (hx : s.hasTx = true) : (read s n).1 = .timedOut := by
  rw [C13_cut_not_clean' r n hs hq hb hx]

/-- the socket is shut only by the watchdog, at or after the deadline -/
theorem C13_shut_fired {d rt : Nat} {s : St} (r : Reach (init d rt) s) (hs : s.shut = true) :
    s.wd = .fired ∧ s.deadline ≤ s.now :=
  ⟨(wd_inv_of_init r).shut_fired hs, (wd_inv_of_init r).fired_due ((wd_inv_of_init r).shut_fired hs)⟩

/-- As long as the response has not been dropped and no read has returned `Ok(0)`, the reader holds
    its sender — so the hypothesis `hasTx` of `C13_cut_not_clean` is met. -/
theorem C13_alive {d rt : Nat} {s : St} {l : List Lbl} (tr : Trace (init d rt) l s)
    (hd : Lbl.drop ∉ l) (he : ∀ n, Lbl.read n .eof ∉ l) : s.hasTx = true :=
  wd_trace_hasTx tr rfl hd he

theorem C13_cut_not_clean_trace {d rt : Nat} {s : St} {l : List Lbl} (tr : Trace (init d rt) l s)
    (hd : Lbl.drop ∉ l) (he : ∀ n, Lbl.read n .eof ∉ l) (n : Nat)
    (hs : s.shut = true) (hq : s.queued = 0) (hb : s.buffered = 0) : read s n = (.timedOut, s) :=
  C13_cut_not_clean' ⟨l, tr⟩ n hs hq hb (C13_alive tr hd he)

/-- 10 bytes of a longer body arrive, the deadline passes: the data, then `TimedOut` for ever -/
example : run (init 100 30) [(10, .send 10), (120, .read 8), (121, .read 8), (122, .read 8),
    (300, .read 8)] = [.data 8, .data 2, .timedOut, .timedOut] := by decide
example : (read (advance (init 100 30) 120) 8).1 = .timedOut :=
  C13_cut_not_clean (s := advance (init 100 30) 120) ((Reach.refl _).step (.adv _ 120)) 8
    (by decide) (by decide) (by decide) (by decide) (by decide)
example : Trace (init 100 30) [.adv 120] (advance (init 100 30) 120) := .cons (.adv _ 120) (.nil _)

/-! ### (d) data first; nothing fabricated -/

/-- Whatever the watchdog has done: while bytes are buffered or queued, a read with a non-empty
    buffer returns data (between 1 and `n` bytes). -/
theorem C13_data_first (s : St) (n : Nat) (hn : 0 < n) (hd : 0 < s.buffered + s.queued) :
    ∃ k, 0 < k ∧ k ≤ n ∧ (read s n).1 = .data k :=
  wd_data_first s n hn hd

/-- a read hands out exactly what leaves the two buffers -/
theorem C13_conserve (s : St) (n : Nat) :
    (read s n).2.buffered + (read s n).2.queued + wd_bytes (read s n).1 = s.buffered + s.queued :=
  wd_read_conserve s n

/-- the bytes delivered by the reads of a scenario never exceed what was there plus what the peer sent -/
theorem C13_no_fabrication (s : St) (evs : List (Nat × Ev)) :
    wd_delivered (run s evs) ≤ s.buffered + s.queued + wd_sent evs :=
  wd_delivered_le s evs

theorem C13_no_fabrication_init (d rt : Nat) (evs : List (Nat × Ev)) :
    wd_delivered (run (init d rt) evs) ≤ wd_sent evs := by
  have := C13_no_fabrication (init d rt) evs
  simpa [init] using this

/-- shut socket, 10 bytes still queued: they are delivered (small caller buffer: through the BufReader) -/
example : ∃ k, 0 < k ∧ k ≤ 4 ∧
    (read { advance (init 100 30) 120 with queued := 10 } 4).1 = .data k :=
  C13_data_first _ 4 (by decide) (by decide)
example : run (init 100 30) [(10, .send 10), (120, .read 4), (120, .read 4), (120, .read 4),
    (120, .read 4)] = [.data 4, .data 4, .data 2, .timedOut] := by decide
/-- bytes sent after the shutdown are lost, none are invented -/
example : wd_delivered (run (init 100 30) [(10, .send 10), (120, .send 7), (130, .read 64), (131, .read 64)])
    = 10 ∧ wd_sent [(10, .send 10), (120, .send 7), (130, .read 64), (131, .read 64)] = 17 := by decide

/-! ### (e) dropping the response releases the watchdog -/

/-- in one step: no sender, no pending wait -/
theorem C13_release (s : St) : (dropResponse s).hasTx = false ∧ (dropResponse s).wd ≠ .waiting :=
  wd_drop_release s

/-- in a reachable state whose socket is not shut, the watchdog exits -/
theorem C13_release_exits {d rt : Nat} {s : St} (r : Reach (init d rt) s) (hs : s.shut = false) :
    (dropResponse s).wd = .exited ∧ (dropResponse s).shut = false :=
  wd_drop_exited (wd_inv_of_init r) hs

/-- a watchdog that has exited stays exited and never shuts the socket, whatever happens later -/
theorem C13_exited_never_shuts {s s' : St} (r : Reach s s') (h : s.wd = .exited) :
    s'.wd = .exited ∧ s'.shut = s.shut :=
  wd_exited_reach r h

/-- dropped before the deadline: the socket is never shut by this watchdog -/
theorem C13_drop_never_shuts {d rt : Nat} {s s' : St} (r : Reach (init d rt) s) (hs : s.shut = false)
    (r' : Reach (dropResponse s) s') : s'.shut = false := by
  obtain ⟨h1, h2⟩ := C13_release_exits r hs
  rw [(C13_exited_never_shuts r' h1).2, h2]

/-- the same after a genuine end of stream (the ping released the watchdog) -/
theorem C13_eof_never_shuts {d rt : Nat} {s s1 s' : St} {n : Nat} (r : Reach (init d rt) s)
    (hx : s.hasTx = true) (hr : read s n = (.eof, s1)) (r' : Reach s1 s') : s'.shut = false := by
  obtain ⟨_, _, _, h1, h2, _⟩ := C13_eof_genuine r hx hr
  rw [(C13_exited_never_shuts r' h1).2, h2]

example : (dropResponse (advance (init 100 30) 20)).wd = .exited := by decide
example : (wd_exec (init 100 30) [(20, .drop), (500, .send 3), (600, .read 2)]).shut = false :=
  C13_drop_never_shuts (s := advance (init 100 30) 20) ((Reach.refl _).step (.adv _ 20)) (by decide)
    (wd_exec_reach _ [(500, .send 3), (600, .read 2)] (by decide))
/-- dropped after the watchdog fired: nothing left to release (it is gone already) -/
example : (dropResponse (advance (init 100 30) 120)).wd = .fired := by decide

/-! ### (f) how long a read can block -/

/-- One read never takes longer than the receive timeout, and while the watchdog is armed it
    returns by `max now deadline`. -/
theorem C13_bound_model (s : St) (n : Nat) :
    s.now ≤ (read s n).2.now ∧ (read s n).2.now ≤ s.now + s.readTimeout ∧
    (s.wd = .waiting → s.hasTx = true → (read s n).2.now ≤ max s.now s.deadline) :=
  wd_read_time s n

/-- the single-formula form -/
theorem C13_bound_model' (s : St) (n : Nat) :
    (read s n).2.now ≤ max s.now (min (s.now + s.readTimeout)
      (if s.hasTx = true ∧ s.wd = .waiting then max s.now s.deadline else s.now + s.readTimeout)) := by
  obtain ⟨_, h2, h3⟩ := C13_bound_model s n
  split
  · next h => have := h3 h.2 h.1; omega
  · omega

/-- At or after the deadline, with the response alive, every read returns at once — with data or
    with `TimedOut` (never `Ok(0)`, never after blocking). -/
theorem C13_after_deadline_immediate {d rt : Nat} {s : St} (r : Reach (init d rt) s) (n : Nat)
    (hx : s.hasTx = true) (hd : s.deadline ≤ s.now) :
    (read s n).2.now = s.now ∧ ((∃ k, (read s n).1 = .data k) ∨ (read s n).1 = .timedOut) :=
  wd_read_immediate (wd_inv_of_init r) n hx hd

/-- the form with the watchdog's state: armed or fired, deadline reached ⇒ the read does not block
    (also when the response has been dropped after the firing) -/
theorem C13_after_deadline_immediate' {d rt : Nat} {s : St} (r : Reach (init d rt) s) (n : Nat)
    (hw : s.wd = .waiting ∨ s.wd = .fired) (hd : s.deadline ≤ s.now) :
    (read s n).2.now = s.now ∧ (read s n).1 ≠ .wouldBlock :=
  wd_read_shut_immediate n (wd_fire_due_shut (wd_inv_of_init r) hd hw)

/-- the response is alive exactly when the watchdog is armed or has fired -/
theorem C13_alive_armed_or_fired {d rt : Nat} {s : St} (r : Reach (init d rt) s)
    (hx : s.hasTx = true) : s.wd = .waiting ∨ s.wd = .fired := by
  have h := wd_inv_of_init r
  cases hw : s.wd with
  | waiting => exact .inl rfl
  | fired => exact .inr rfl
  | droppedRx => exact absurd hw h.noDropped
  | exited => have := h.exited_noTx hw; rw [hx] at this; cases this

/-- Hence: a caller that does nothing but read — any number of reads, any buffer sizes, each
    returning data, `WouldBlock`, `TimedOut` or `Ok(0)` — is never kept past `max now deadline`. -/
theorem C13_reads_bounded {d rt : Nat} {s s' : St} {l : List Lbl} (r : Reach (init d rt) s)
    (hx : s.hasTx = true) (tr : Trace s l s') (hl : ∀ a ∈ l, ∃ n o, a = .read n o) :
    s'.now ≤ max s.now s.deadline :=
  wd_reads_bounded (wd_inv_of_init r) hx tr hl

/-- deadline 100, receive timeout 30, a silent peer: reads from 20 on return at 50, 80, 100, 100, … -/
example : (read (advance (init 100 30) 20) 8).2.now = 50 ∧
    (read (read (advance (init 100 30) 20) 8).2 8).2.now = 80 ∧
    (read (read (read (advance (init 100 30) 20) 8).2 8).2 8).2.now = 100 ∧
    (read (read (read (read (advance (init 100 30) 20) 8).2 8).2 8).2 8).2.now = 100 := by decide
example : (read (read (advance (init 100 30) 20) 8).2 8).2.now ≤ max 20 100 :=
  C13_reads_bounded (s := advance (init 100 30) 20) ((Reach.refl _).step (.adv _ 20)) (by decide)
    (.cons (.read _ 8 (by decide)) (.cons (.read _ 8 (by decide)) (.nil _)))
    (by intro a ha; simp only [List.mem_cons, List.not_mem_nil, or_false] at ha
        rcases ha with h | h <;> exact ⟨_, _, h⟩)
example : (read (advance (init 100 30) 130) 8).2.now = (advance (init 100 30) 130).now :=
  (C13_after_deadline_immediate (s := advance (init 100 30) 130) ((Reach.refl _).step (.adv _ 130)) 8
    (by decide) (by decide)).1
/-- without a deadline watchdog (sender released) the bound is the receive timeout only -/
example : (read (dropResponse (advance (init 100 30) 90)) 8).2.now = 120 := by decide

end Atto
