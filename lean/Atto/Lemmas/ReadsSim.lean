/-
  Atto/Lemmas/ReadsSim.lean — a whole read history on the chunked decoder is the same on two
  simulating sources.
-/
import Atto.Lemmas.Sim
import Atto.Model.Reads
namespace Atto

variable {σ τ : Type} {S : Src σ} {T : Src τ} {abs : σ → τ} {inv : σ → Prop}

theorem readsC_sim (h : Sim S T abs inv) (maxBuf : Nat) (ns : List Nat) :
    ∀ (c : Chunked σ), inv c.inner →
    (readsC S maxBuf ns c).1 = (readsC T maxBuf ns (c.mapInner abs)).1 ∧
    (readsC S maxBuf ns c).2.mapInner abs = (readsC T maxBuf ns (c.mapInner abs)).2 ∧
    inv (readsC S maxBuf ns c).2.inner := by
  induction ns with
  | nil => intro c hi; exact ⟨rfl, rfl, hi⟩
  | cons n ns ih =>
    intro c hi
    obtain ⟨a, b, hx, hy, hb⟩ := (Chunked.read_sim h c maxBuf n hi).elim
    simp only [readsC]
    rw [hx, hy]
    obtain ⟨h1, h2, h3⟩ := ih b hb
    exact ⟨by simp only [h1], h2, h3⟩

end Atto
