#!/bin/sh
# usage: tools/seed_confirm.sh <PROP> <k>      (scratch worktree /tmp/wt-<PROP>, deliverables /tmp/seed-out-<PROP>/<k>)
# Confirms: with the patch the crate builds, the existing suite passes and the demo FAILS; without it the demo PASSES.
P=$1; K=$2; WT=${WT:-/tmp/wt-$P}; OUT=/tmp/seed-out-$P/$K
export CARGO_NET_OFFLINE=true
cd $WT || exit 2
git checkout -q -- src Cargo.toml 2>/dev/null
cp $OUT/demo.rs tests/seed_demo_$K.rs
git apply $OUT/patch.diff || { echo "APPLY-FAILED"; exit 2; }
LIB=$(timeout 900 cargo test --offline --lib 2>&1 | grep -E "^test result" | head -1)
ITS=$(timeout 900 cargo test --offline --test test_proxy --test test_redirection --test test_timeout 2>&1 | grep -E "^test result" | tr '\n' ' ')
FEAT=$(timeout 900 cargo test --offline --lib --features charsets,json,form,multipart-form 2>&1 | grep -E "^test result" | head -1)
WITH=$(timeout 900 cargo test --offline ${DEMO_FEATURES:---features charsets,json,form,multipart-form,verif-hooks} --test seed_demo_$K 2>&1 | grep -E "^test result" | head -1)
git checkout -q -- src Cargo.toml
WITHOUT=$(timeout 900 cargo test --offline ${DEMO_FEATURES:---features charsets,json,form,multipart-form,verif-hooks} --test seed_demo_$K 2>&1 | grep -E "^test result" | head -1)
echo "suite(lib) with patch : $LIB"
echo "suite(integration)    : $ITS"
echo "suite(lib, features)  : $FEAT"
echo "demo WITH patch       : $WITH"
echo "demo WITHOUT patch    : $WITHOUT"
