/-
  Atto/Props/C18s.lean — the staging buffer of `TextReader` (src/parsing/text_reader.rs, model
  `Atto/Model/TextStage.lean`) is transparent: for EVERY decoder `R` honouring the contract of
  `Read::read` (never more bytes than asked), every schedule of caller read sizes and every start
  state satisfying `TextStage.Inv`, the adaptor neither loses, duplicates, reorders nor invents
  anything, never panics by itself, and never asks the decoder for 1..3 bytes.

  Helper lemmas: `Atto/Lemmas/TextStageLemmas.lean` (`evBytes`, `nonOk`, `askSize`, the shapes of one
  `read`).
-/
import Atto.Model.TextStage
import Atto.Lemmas.TextStageLemmas
namespace Atto
open TextStage

variable {σ : Type}

/-! ## concrete decoders for the non-vacuity examples -/

/-- a decoder over a byte string that hands out at most 3 bytes at a time -/
def exR3 : InnerRead Bytes := fun bs n => (.ok (bs.take (min n 3)), bs.drop (min n 3))

/-- the same, but every call whose number is 1 mod 3 fails (`io c`, so that the ORDER of the errors
    is visible) and call number 6 would block -/
def exRflaky : InnerRead (Nat × Bytes) := fun (c, bs) n =>
  if c = 6 then (.blocked, (c + 1, bs))
  else if c % 3 = 1 then (.err (.io c), (c + 1, bs))
  else (.ok (bs.take (min n 3)), (c + 1, bs.drop (min n 3)))

/-- a decoder that breaks the `Read` contract: 9 bytes whatever the buffer -/
def exRbig : InnerRead Unit := fun _ _ => (.ok [1, 2, 3, 4, 5, 6, 7, 8, 9], ())

/-- a decoder that panics -/
def exRpanic : InnerRead Unit := fun _ _ => (.panic, ())

def exText : Bytes := [10, 11, 12, 13, 14, 15, 16, 17, 18, 19, 20, 21]
def exSched : List Nat := [1, 2, 0, 5, 1, 1, 3]

theorem exR3_contract : ∀ i n, ∀ bs, (exR3 i n).1 = .ok bs → bs.length ≤ n := by
  intro i n bs h
  simp only [exR3, RR.ok.injEq] at h
  subst h
  simp only [List.length_take]
  omega

theorem exRflaky_contract : ∀ i n, ∀ bs, (exRflaky i n).1 = .ok bs → bs.length ≤ n := by
  intro i n bs h
  obtain ⟨c, t⟩ := i
  simp only [exRflaky] at h
  split at h
  · cases h
  · split at h
    · cases h
    · simp only [RR.ok.injEq] at h
      subst h
      simp only [List.length_take]
      omega

theorem exRpanic_contract : ∀ i n, ∀ bs, (exRpanic i n).1 = .ok bs → bs.length ≤ n := by
  intro i n bs h; cases h

/-! ## (1) the invariant; no panic of the adaptor's own -/

/-- (1) `Inv` holds of a fresh `TextReader`, is preserved by `read` and hence by `run` (for ANY
    decoder), and — for a decoder honouring the `Read` contract — `read` returns `.panic` only if the
    decoder call it made did: the `usize` subtraction and the slice indexing of the Rust code are
    unreachable. -/
theorem C18_stage_inv (R : InnerRead σ)
    (hR : ∀ i n, ∀ bs, (R i n).1 = .ok bs → bs.length ≤ n) :
    (∀ i : σ, ({ inner := i } : TextStage σ).Inv)
    ∧ (∀ (s : TextStage σ) (n : Nat), s.Inv → (s.read R n).2.Inv)
    ∧ (∀ (s : TextStage σ) (ns : List Nat), s.Inv → (TextStage.run R s ns).2.Inv)
    ∧ (∀ (s : TextStage σ) (n : Nat), s.Inv → (s.read R n).1 = .panic →
        (R s.inner n).1 = .panic ∨ (R s.inner stageCap).1 = .panic) :=
  ⟨inv_fresh, fun s n hI => read_inv R s n hI, fun s ns hI => run_inv R s ns hI,
   fun s n hI hp => read_panic R hR s n hI hp⟩

/-- the invariant part needs no assumption on the decoder at all -/
theorem C18_stage_inv_any (R : InnerRead σ) (s : TextStage σ) (hI : s.Inv) :
    (∀ n, (s.read R n).2.Inv) ∧ (∀ ns, (TextStage.run R s ns).2.Inv) :=
  ⟨fun n => read_inv R s n hI, fun ns => run_inv R s ns hI⟩

/-- consequence over a whole schedule: a decoder that never panics gives a run without `.panic` -/
theorem C18_stage_run_no_panic (R : InnerRead σ)
    (hR : ∀ i n, ∀ bs, (R i n).1 = .ok bs → bs.length ≤ n)
    (hP : ∀ i n, (R i n).1 ≠ .panic)
    (s : TextStage σ) (hI : s.Inv) (ns : List Nat) :
    ∀ ev ∈ (TextStage.run R s ns).1, ev ≠ .panic := by
  induction ns generalizing s with
  | nil => intro ev h; cases h
  | cons n ns ih =>
    intro ev h
    rw [run_cons] at h
    rcases List.mem_cons.mp h with h | h
    · subst h
      intro hp
      rcases read_panic R hR s n hI hp with h | h
      · exact hP _ _ h
      · exact hP _ _ h
    · exact ih _ (read_inv R s n hI) ev h

-- non-vacuity: the invariant of a concrete run, a panic that IS the decoder's, and the necessity of
-- `hR` (a decoder returning 9 bytes for an 8-byte buffer makes the adaptor panic by itself)
example : (TextStage.run exR3 { inner := exText } exSched).2.Inv :=
  (C18_stage_inv exR3 exR3_contract).2.2.1 _ _ ((C18_stage_inv exR3 exR3_contract).1 _)
example : (TextStage.run exR3 { inner := exText } exSched).2.staged = [16, 17, 18]
    ∧ (TextStage.run exR3 { inner := exText } exSched).2.pos = 3 := by decide
example : (TextStage.read exRpanic { inner := () } 2).1 = .panic
    ∧ (exRpanic () stageCap).1 = .panic := ⟨rfl, rfl⟩
example : (exRpanic () 2).1 = .panic ∨ (exRpanic () stageCap).1 = .panic :=
  (C18_stage_inv exRpanic exRpanic_contract).2.2.2 { inner := () } 2 (inv_fresh ()) rfl
example : (TextStage.read exRbig { inner := () } 2).1 = .panic
    ∧ (exRbig () 2).1 ≠ .panic ∧ (exRbig () stageCap).1 ≠ .panic
    ∧ ¬ (∀ i n, ∀ bs, (exRbig i n).1 = .ok bs → bs.length ≤ n) :=
  ⟨rfl, (fun h => by cases h), (fun h => by cases h),
   fun h => absurd (h () 8 _ rfl) (by decide)⟩
example : ∀ ev ∈ (TextStage.run exRflaky { inner := (0, exText) } exSched).1, ev ≠ .panic :=
  C18_stage_run_no_panic exRflaky exRflaky_contract
    (by
      intro i n h
      obtain ⟨c, t⟩ := i
      simp only [exRflaky] at h
      split at h
      · cases h
      · split at h <;> cases h)
    _ (inv_fresh _) _

/-! ## (2) the adaptor honours the `Read` contract itself -/

/-- (2) an `Ok` result never holds more bytes than the caller's buffer (`Inv` is not needed). -/
theorem C18_stage_le (R : InnerRead σ)
    (hR : ∀ i n, ∀ bs, (R i n).1 = .ok bs → bs.length ≤ n)
    (s : TextStage σ) (n : Nat) (bs : Bytes) (h : (s.read R n).1 = .ok bs) : bs.length ≤ n := by
  rcases Nat.lt_trichotomy s.pos s.staged.length with hlt | h1 | hgt
  · rw [read_served R s n hlt] at h
    simp only [RR.ok.injEq] at h
    subst h
    simp only [List.length_take]
    exact Nat.min_le_left _ _
  · by_cases h2 : stageMin ≤ n ∨ n = 0
    · rw [read_pass R s n h1 h2] at h; exact hR _ _ _ h
    · cases hr : (R s.inner stageCap).1 with
      | ok bs' =>
        by_cases hl : bs'.length ≤ stageCap
        · rw [read_fill_ok R s n h1 h2 bs' hr hl] at h
          simp only [RR.ok.injEq] at h
          subst h
          simp only [List.length_take]
          exact Nat.min_le_left _ _
        · rw [read_fill_big R s n h1 h2 bs' hr (Nat.not_le.mp hl)] at h; cases h
      | err e => rw [read_fill_nonok R s n h1 h2 (by rw [hr]; rfl), hr] at h; cases h
      | blocked => rw [read_fill_nonok R s n h1 h2 (by rw [hr]; rfl), hr] at h; cases h
      | panic => rw [read_fill_nonok R s n h1 h2 (by rw [hr]; rfl), hr] at h; cases h
  · rw [read_underflow R s n hgt] at h; cases h

example : (TextStage.read exR3 { inner := exText } 2).1 = .ok [10, 11] := rfl
example : ([10, 11] : Bytes).length ≤ 2 :=
  C18_stage_le exR3 exR3_contract { inner := exText } 2 _ rfl
-- from the staging buffer, with more room than staged bytes
example : (TextStage.read exR3 { inner := [], staged := [1, 2, 3], pos := 1 } 3).1 = .ok [2, 3] := rfl

/-! ## (3) transparency -/

/-- (3) MAIN THEOREM.  For every decoder honouring the `Read` contract, every start state satisfying
    `Inv` and every schedule of caller read sizes: what was staged before plus what the bare decoder
    yields over the sizes it is asked for is exactly what the caller got plus what is still staged;
    the decoder ends in the same state; and the errors / blocked / panic events are the same list in
    the same order. -/
theorem C18_stage_transparent (R : InnerRead σ)
    (hR : ∀ i n, ∀ bs, (R i n).1 = .ok bs → bs.length ≤ n)
    (s : TextStage σ) (hI : s.Inv) (ns : List Nat) :
    s.pending ++ okBytes (runInner R s.inner (TextStage.innerSizes R s ns)).1
        = okBytes (TextStage.run R s ns).1 ++ (TextStage.run R s ns).2.pending
    ∧ (TextStage.run R s ns).2.inner = (runInner R s.inner (TextStage.innerSizes R s ns)).2
    ∧ nonOk (TextStage.run R s ns).1
        = nonOk (runInner R s.inner (TextStage.innerSizes R s ns)).1 := by
  induction ns generalizing s with
  | nil => simp [TextStage.run, TextStage.innerSizes, runInner, okBytes]
  | cons n ns ih =>
    rcases Nat.lt_or_eq_of_le hI.1 with hlt | h1
    · obtain ⟨hi, hInv', hb, hn⟩ := step_served R s n hlt hI.2
      obtain ⟨ih1, ih2, ih3⟩ := ih _ hInv'
      rw [hi] at ih1 ih2 ih3
      rw [run_cons, innerSizes_cons, if_neg (Nat.ne_of_lt hlt)]
      refine ⟨?_, ih2, ?_⟩
      · simp only []
        rw [okBytes_cons, hb, List.append_assoc, List.append_assoc, ih1]
      · simp only []
        rw [nonOk_cons, hn, List.nil_append, ih3]
    · obtain ⟨hi, hInv', hb, hn⟩ := step_called R hR s n h1 hI.2
      obtain ⟨ih1, ih2, ih3⟩ := ih _ hInv'
      rw [hi] at ih1 ih2 ih3
      have hp : s.pending = [] := by simp [pending, h1]
      rw [run_cons, innerSizes_cons, if_pos h1, runInner_cons]
      refine ⟨?_, ih2, ?_⟩
      · simp only []
        rw [okBytes_cons, okBytes_cons, hp, hb, List.nil_append, List.append_assoc,
          List.append_assoc, ih1]
      · simp only []
        rw [nonOk_cons, nonOk_cons _ (runInner _ _ _).1, hn, ih3]

-- non-vacuity: the healthy 3-byte decoder
example : (TextStage.run exR3 { inner := exText } exSched).1
    = [.ok [10], .ok [11, 12], .ok [], .ok [13, 14, 15], .ok [16], .ok [17], .ok [18]] := rfl
example : TextStage.innerSizes exR3 { inner := exText } exSched = [8, 0, 8, 8] := by decide
example : (runInner exR3 exText [8, 0, 8, 8]).1
    = [.ok [10, 11, 12], .ok [], .ok [13, 14, 15], .ok [16, 17, 18]] := rfl
example : okBytes (TextStage.run exR3 { inner := exText } exSched).1
      ++ (TextStage.run exR3 { inner := exText } exSched).2.pending
    = [10, 11, 12, 13, 14, 15, 16, 17, 18] := by decide
-- a flaky decoder, started with two bytes already staged: errors and the block come through in order
def exStart : TextStage (Nat × Bytes) :=
  { inner := (0, exText ++ [22, 23, 24, 25]), staged := [7, 8, 9], pos := 1 }
def exSched2 : List Nat := [1, 2, 1, 1, 5, 2, 3, 2, 2, 2, 4, 1, 1, 2]
theorem exStart_inv : exStart.Inv := by constructor <;> decide
example : (TextStage.run exRflaky exStart exSched2).1
    = [.ok [8], .ok [9], .ok [10], .ok [11], .ok [12], .err (.io 1), .ok [13, 14, 15], .ok [16, 17],
       .ok [18], .err (.io 4), .ok [19, 20, 21], .blocked, .err (.io 7), .ok [22, 23]] := rfl
example : TextStage.innerSizes exRflaky exStart exSched2 = [8, 8, 8, 8, 8, 8, 8, 8, 8] := by decide
example : (runInner exRflaky exStart.inner [8, 8, 8, 8, 8, 8, 8, 8, 8]).1
    = [.ok [10, 11, 12], .err (.io 1), .ok [13, 14, 15], .ok [16, 17, 18], .err (.io 4),
       .ok [19, 20, 21], .blocked, .err (.io 7), .ok [22, 23, 24]] := rfl
example : nonOk (TextStage.run exRflaky exStart exSched2).1
    = [.err (.io 1), .err (.io 4), .blocked, .err (.io 7)] := rfl
example :
    exStart.pending = [8, 9]
    ∧ okBytes (TextStage.run exRflaky exStart exSched2).1
      = [8, 9, 10, 11, 12, 13, 14, 15, 16, 17, 18, 19, 20, 21, 22, 23]
    ∧ (TextStage.run exRflaky exStart exSched2).2.pending = [24]
    ∧ (TextStage.run exRflaky exStart exSched2).2.inner = (9, [25]) := by decide
example := C18_stage_transparent exRflaky exRflaky_contract exStart exStart_inv exSched2
-- `hR` is necessary: with the contract-breaking decoder the adaptor turns an `Ok` into a panic
example : nonOk (TextStage.run exRbig { inner := () } [1]).1 = [.panic]
    ∧ nonOk (runInner exRbig () (TextStage.innerSizes exRbig { inner := () } [1])).1 = [] :=
  ⟨rfl, rfl⟩
-- `Inv` is necessary: a state with `pos` beyond the staged bytes panics without any decoder call
example : nonOk (TextStage.run exR3 { inner := exText, staged := [1], pos := 2 } [1]).1 = [.panic]
    ∧ TextStage.innerSizes exR3 { inner := exText, staged := [1], pos := 2 } [1] = [] :=
  ⟨rfl, rfl⟩

/-! ## (4) end of stream is never invented -/

/-- (4) a caller read with a non-empty buffer answers `Ok(0)` only when nothing is staged and the
    decoder itself answered `Ok(0)` to the call made (neither `hR` nor `Inv` is needed). -/
theorem C18_stage_progress (R : InnerRead σ) (s s' : TextStage σ) (n : Nat) (hn : 0 < n)
    (h : s.read R n = (.ok [], s')) :
    s.pending = [] ∧ (R s.inner (if stageMin ≤ n then n else stageCap)).1 = .ok [] := by
  have hn0 : n ≠ 0 := Nat.pos_iff_ne_zero.mp hn
  rcases Nat.lt_trichotomy s.pos s.staged.length with hlt | h1 | hgt
  · rw [read_served R s n hlt] at h
    have h' := congrArg Prod.fst h
    simp only [RR.ok.injEq, List.take_eq_nil_iff, hn0, false_or] at h'
    have hlen := congrArg List.length h'
    simp only [List.length_drop, List.length_nil] at hlen
    omega
  · have hp : s.pending = [] := by simp [pending, h1]
    refine ⟨hp, ?_⟩
    by_cases h2 : stageMin ≤ n
    · rw [read_pass R s n h1 (Or.inl h2)] at h
      rw [if_pos h2]; exact congrArg Prod.fst h
    · have h2' : ¬ (stageMin ≤ n ∨ n = 0) := by
        intro hh; rcases hh with hh | hh
        · exact h2 hh
        · exact hn0 hh
      rw [if_neg h2]
      cases hr : (R s.inner stageCap).1 with
      | ok bs' =>
        by_cases hl : bs'.length ≤ stageCap
        · rw [read_fill_ok R s n h1 h2' bs' hr hl] at h
          have h' := congrArg Prod.fst h
          simp only [RR.ok.injEq, List.take_eq_nil_iff, hn0, false_or] at h'
          rw [h']
        · rw [read_fill_big R s n h1 h2' bs' hr (Nat.not_le.mp hl)] at h
          cases congrArg Prod.fst h
      | err e =>
        rw [read_fill_nonok R s n h1 h2' (by rw [hr]; rfl), hr] at h; cases congrArg Prod.fst h
      | blocked =>
        rw [read_fill_nonok R s n h1 h2' (by rw [hr]; rfl), hr] at h; cases congrArg Prod.fst h
      | panic =>
        rw [read_fill_nonok R s n h1 h2' (by rw [hr]; rfl), hr] at h; cases congrArg Prod.fst h
  · rw [read_underflow R s n hgt] at h; cases congrArg Prod.fst h

-- non-vacuity: the hypothesis is satisfiable (exhausted decoder), small and large caller buffer
example : TextStage.read exR3 { inner := [] } 2 = (.ok [], { inner := [] }) := rfl
example : ({ inner := [] } : TextStage Bytes).pending = [] ∧ (exR3 [] stageCap).1 = .ok [] :=
  C18_stage_progress exR3 { inner := [] } { inner := [] } 2 (by decide) rfl
example : ({ inner := [] } : TextStage Bytes).pending = [] ∧ (exR3 [] 6).1 = .ok [] :=
  C18_stage_progress exR3 { inner := [] } { inner := [] } 6 (by decide) rfl
-- `0 < n` is necessary: an empty caller buffer gets `Ok(0)` while bytes are staged
example : (TextStage.read exR3 { inner := exText, staged := [1, 2], pos := 1 } 0).1 = .ok []
    ∧ ({ inner := exText, staged := [1, 2], pos := 1 } : TextStage Bytes).pending = [2] :=
  ⟨rfl, rfl⟩

/-! ## (5) the point of the fix: the decoder never sees a 1..3-byte buffer -/

/-- (5) every size the decoder is asked for is 0 (the caller's buffer was empty) or at least 4; no
    assumption on the decoder, the start state or the schedule. -/
theorem C18_stage_small_reads_ask_big (R : InnerRead σ) (s : TextStage σ) (ns : List Nat) :
    ∀ k ∈ TextStage.innerSizes R s ns, k = 0 ∨ stageMin ≤ k := by
  induction ns generalizing s with
  | nil => intro k h; cases h
  | cons n ns ih =>
    intro k h
    rw [innerSizes_cons] at h
    split at h
    · rcases List.mem_cons.mp h with h | h
      · rw [h]; exact askSize_spec n
      · exact ih _ k h
    · exact ih _ k h

/-- the sizes are, more precisely, the caller's own size when it is 0 or ≥ 4 and 8 otherwise — and a
    size of 0 is only ever asked on behalf of a caller whose buffer is empty -/
theorem C18_stage_sizes_from_schedule (R : InnerRead σ) (s : TextStage σ) (ns : List Nat) :
    ∀ k ∈ TextStage.innerSizes R s ns, k = stageCap ∨ (k ∈ ns ∧ (k = 0 ∨ stageMin ≤ k)) := by
  induction ns generalizing s with
  | nil => intro k h; cases h
  | cons n ns ih =>
    intro k h
    rw [innerSizes_cons] at h
    have hrest : k ∈ TextStage.innerSizes R (s.read R n).2 ns →
        k = stageCap ∨ (k ∈ n :: ns ∧ (k = 0 ∨ stageMin ≤ k)) := by
      intro h
      rcases ih _ k h with h | ⟨h, h'⟩
      · exact Or.inl h
      · exact Or.inr ⟨List.mem_cons_of_mem _ h, h'⟩
    split at h
    · rcases List.mem_cons.mp h with h | h
      · rw [h]
        unfold askSize
        split
        · rename_i hc
          refine Or.inr ⟨List.mem_cons_self, ?_⟩
          rcases hc with hc | hc
          · exact Or.inr hc
          · exact Or.inl hc
        · exact Or.inl rfl
      · exact hrest h
    · exact hrest h

example : TextStage.innerSizes exR3 { inner := exText } exSched = [8, 0, 8, 8] := by decide
example : ∀ k ∈ ([8, 0, 8, 8] : List Nat), k = 0 ∨ stageMin ≤ k :=
  C18_stage_small_reads_ask_big exR3 { inner := exText } exSched
-- a schedule of one-byte reads only: the decoder sees nothing but 8-byte buffers
example : TextStage.innerSizes exR3 { inner := exText } [1, 1, 1, 1, 1, 1, 1, 1] = [8, 8, 8] := by
  decide

/-! ## (6) the split into reads does not matter -/

/-- a pure byte-stream decoder yields its string: what it handed out plus what it still holds -/
theorem runInner_stream (R : InnerRead Bytes)
    (hS : ∀ i n, ∃ k, k ≤ n ∧ (0 < n → i ≠ [] → 0 < k) ∧ R i n = (.ok (i.take k), i.drop k))
    (i : Bytes) (ks : List Nat) :
    okBytes (runInner R i ks).1 ++ (runInner R i ks).2 = i := by
  induction ks generalizing i with
  | nil => rfl
  | cons n ks ih =>
    obtain ⟨k, _, _, he⟩ := hS i n
    rw [runInner_cons, he]
    simp only [okBytes, List.append_assoc]
    rw [ih, List.take_append_drop]

/-- (6) for a decoder that is a pure byte stream over `text` (handing out SOME prefix of what is
    left, of a length that may depend on the state and the size asked in any way), whatever the
    caller's read sizes: what was handed out, then what is staged, then what the decoder still holds
    is exactly `text`. -/
theorem C18_stage_split_independent (R : InnerRead Bytes)
    (hS : ∀ i n, ∃ k, k ≤ n ∧ (0 < n → i ≠ [] → 0 < k) ∧ R i n = (.ok (i.take k), i.drop k))
    (text : Bytes) (ns : List Nat) :
    okBytes (TextStage.run R { inner := text } ns).1
      ++ (TextStage.run R { inner := text } ns).2.pending
      ++ (TextStage.run R { inner := text } ns).2.inner = text := by
  have hR : ∀ i n, ∀ bs, (R i n).1 = .ok bs → bs.length ≤ n := by
    intro i n bs h
    obtain ⟨k, hk, _, he⟩ := hS i n
    rw [he] at h
    simp only [RR.ok.injEq] at h
    subst h
    simp only [List.length_take]
    omega
  obtain ⟨h1, h2, _⟩ := C18_stage_transparent R hR { inner := text } (inv_fresh text) ns
  have hp : ({ inner := text } : TextStage Bytes).pending = [] := rfl
  rw [hp, List.nil_append] at h1
  rw [← h1, h2]
  exact runInner_stream R hS text _

/-- the same, read as independence of the split: two schedules whatsoever account for the same
    string -/
theorem C18_stage_split_independent' (R : InnerRead Bytes)
    (hS : ∀ i n, ∃ k, k ≤ n ∧ (0 < n → i ≠ [] → 0 < k) ∧ R i n = (.ok (i.take k), i.drop k))
    (text : Bytes) (ns ms : List Nat) :
    okBytes (TextStage.run R { inner := text } ns).1
      ++ (TextStage.run R { inner := text } ns).2.pending
      ++ (TextStage.run R { inner := text } ns).2.inner
    = okBytes (TextStage.run R { inner := text } ms).1
      ++ (TextStage.run R { inner := text } ms).2.pending
      ++ (TextStage.run R { inner := text } ms).2.inner := by
  rw [C18_stage_split_independent R hS text ns, C18_stage_split_independent R hS text ms]

theorem exR3_stream :
    ∀ i n, ∃ k, k ≤ n ∧ (0 < n → i ≠ [] → 0 < k) ∧ exR3 i n = (.ok (i.take k), i.drop k) := by
  intro i n
  refine ⟨min n 3, Nat.min_le_left _ _, ?_, rfl⟩
  intro h _
  omega

example : okBytes (TextStage.run exR3 { inner := exText } exSched).1
      = [10, 11, 12, 13, 14, 15, 16, 17, 18]
    ∧ (TextStage.run exR3 { inner := exText } exSched).2.pending = []
    ∧ (TextStage.run exR3 { inner := exText } exSched).2.inner = [19, 20, 21] := by decide
example : okBytes (TextStage.run exR3 { inner := exText } [1, 1, 7, 2]).1 = [10, 11, 12, 13, 14]
    ∧ (TextStage.run exR3 { inner := exText } [1, 1, 7, 2]).2.pending = [15]
    ∧ (TextStage.run exR3 { inner := exText } [1, 1, 7, 2]).2.inner = [16, 17, 18, 19, 20, 21] := by
  decide
example := C18_stage_split_independent exR3 exR3_stream exText exSched

/-- (tie to the source) the staging buffer, whose size is regenerated from `text_reader.rs` on every run,
    has room for the largest piece the decoder writes in one go when it flushes at the end of the stream
    (two replacement characters, 6 bytes, for ISO-2022-JP — `encoding_rs`, third-party, see DESIGN §5),
    and a read is served from it exactly when it has less room than that buffer. -/
theorem C18_stage_cap : 6 ≤ stageCap ∧ stageMin = stageCap ∧ stageCap = Consts.textStageCap := by
  decide

end Atto
