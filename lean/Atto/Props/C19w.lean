/-
  Atto/Props/C19w.lean — C19 for `Response::write_to(writer)` = `io::copy(&mut body, &mut writer)`:
  body data is handed to the caller's writer AS IT ARRIVES. Stated on the trace model `copyTrace`
  (Model/Copy.lean: every `read` of the body with its result and every `write_all` on the writer, in
  order) over the real pipeline (`parseResponse` on an arbitrary well-formed scripted transport `t`,
  constrained only through `flatT t`):
  * (w1) nothing is held back: a non-empty `Ok` read is followed at once by the `write_all` of the
    same bytes, and nothing else is ever written;
  * (w2) the trace agrees with the drain model `drainLoop` (which keeps only the accumulator);
  * (w3), (w4) when the peer goes silent after `x` (Content-Length / close-delimited) or after the
    complete chunks `cs` (chunked), everything that has arrived is with the writer when the copy
    goes back to the connection that has nothing more (the trace ends with the read that cannot
    return), and (w4') the same bound when the peer goes silent inside a chunk.
-/
import Atto.Lemmas.CopyTrace
import Atto.Lemmas.ExampleData
namespace Atto

local notation "L" => Consts.maxLineLen
local notation "CL" => Consts.chunkSizeLineLimit

/-! ## (w1) nothing is held back -/

/-- (w1) In any trace of `io::copy` on any body in any state: a `read` that returned bytes is
    followed AT ONCE by the `write_all` of exactly these bytes (before any other read); every
    `write_all` is that of the read just before it; hence the writer has been given exactly what
    the reads returned, in order; and the reads are the first results of the constant schedule
    `sz, sz, …` (the copy issues no other read). -/
theorem C19w_nothing_held_back (maxBuf sz fuel : Nat) (b : Body) :
    let tr := copyTrace maxBuf sz fuel b
    (∀ i bs, tr[i]? = some (.read (.ok bs)) → bs ≠ [] → tr[i+1]? = some (.wrote bs)) ∧
    (∀ i bs, tr[i]? = some (.wrote bs) →
      ∃ j, i = j + 1 ∧ tr[j]? = some (.read (.ok bs)) ∧ bs ≠ []) ∧
    writtenOf tr = readOf tr ∧ readOf tr = deliveredEv (readsOf tr) ∧
    readsOf tr <+: (reads maxBuf (List.replicate fuel sz) b).1 := by
  intro tr
  have htr : tr = Cp.traceEv (reads maxBuf (List.replicate fuel sz) b).1 :=
    Cp.copyTrace_eq maxBuf sz fuel b
  rw [htr]
  exact ⟨Cp.traceEv_next _, Cp.traceEv_prev _, Cp.writtenOf_traceEv _, Cp.readOf_eq _,
    Cp.readsOf_traceEv_prefix _⟩

/-! ## (w2) agreement with the drain model -/

/-- (w2) `drainLoop` (the model of `io::copy` / `read_to_end` that keeps only the accumulated bytes)
    started with the accumulator `acc0` ends the way the trace ends: on `Ok acc`, the trace ends
    with the read that returned `Ok(0)` and `acc` is `acc0` followed by what the writer got; on an
    error / a stall the trace ends with the read that returned it (`drainLoop` then drops its
    accumulator — see `C19w_accumulated` for it); `panic` is a panicking read or fuel exhaustion
    (all `fuel` reads of the schedule were performed). -/
theorem C19w_drain_agrees (maxBuf sz fuel : Nat) (b : Body) (acc0 : Bytes) :
    let tr := copyTrace maxBuf sz fuel b
    let res := (drainLoop maxBuf sz fuel b acc0).1
    (∀ acc, res = .ok acc →
      acc = acc0 ++ writtenOf tr ∧ tr.getLast? = some (.read (.ok []))) ∧
    (∀ e, res = .err e → tr.getLast? = some (.read (.err e)) ∧ e ≠ .io 0) ∧
    (res = .blocked → tr.getLast? = some (.read .blocked)) ∧
    (res = .panic → tr.getLast? = some (.read .panic) ∨
      readsOf tr = (reads maxBuf (List.replicate fuel sz) b).1) := by
  intro tr res
  have htr : tr = Cp.traceEv (reads maxBuf (List.replicate fuel sz) b).1 :=
    Cp.copyTrace_eq maxBuf sz fuel b
  have hres : res = Dr.drEv (reads maxBuf (List.replicate fuel sz) b).1 acc0 :=
    Dr.drainLoop_eq maxBuf sz fuel b acc0
  rw [htr, hres]
  exact Cp.drEv_trace _ acc0

/-- (w2), the form asked for: whenever `drainLoop … [] = (Ok acc, b')`, the writer of the trace got
    exactly `acc` and the trace ends with the read that returned `Ok(0)` -/
theorem C19w_drain_ok (maxBuf sz fuel : Nat) (b b' : Body) (acc : Bytes)
    (h : drainLoop maxBuf sz fuel b [] = (.ok acc, b')) :
    writtenOf (copyTrace maxBuf sz fuel b) = acc ∧
    (copyTrace maxBuf sz fuel b).getLast? = some (.read (.ok [])) := by
  obtain ⟨h1, h2⟩ := (C19w_drain_agrees maxBuf sz fuel b []).1 acc (by rw [h])
  exact ⟨by simpa using h1.symm, h2⟩

/-- `drainLoop` with the accumulator returned however the loop ends (`drainLoop` itself drops it
    unless the result is `Ok`) -/
def drainAcc (maxBuf sz : Nat) : Nat → Body → Bytes → RR Unit × Bytes
  | 0, _, acc => (.panic, acc)
  | fuel+1, b, acc =>
    match b.read maxBuf sz with
    | (.ok [], _) => (.ok (), acc)
    | (.ok bs, b') => drainAcc maxBuf sz fuel b' (acc ++ bs)
    | (.err (.io 0), b') => drainAcc maxBuf sz fuel b' acc
    | (.err e, _) => (.err e, acc)
    | (.blocked, _) => (.blocked, acc)
    | (.panic, _) => (.panic, acc)

/-- (w2) for the runs that do not end with `Ok`: `drainAcc` is `drainLoop` (same result), and its
    accumulator at the moment the loop ends — with `Ok(0)`, an error, a stall, a panic or no fuel —
    is `acc0` followed by exactly what the writer of the trace got. -/
theorem C19w_accumulated (maxBuf sz : Nat) : ∀ (fuel : Nat) (b : Body) (acc0 : Bytes),
    drainAcc maxBuf sz fuel b acc0 =
      ((drainLoop maxBuf sz fuel b acc0).1.map (fun _ => ()),
        acc0 ++ writtenOf (copyTrace maxBuf sz fuel b)) := by
  intro fuel
  induction fuel with
  | zero => intro b acc0; simp [drainAcc, drainLoop, copyTrace, writtenOf]
  | succ fuel ih =>
    intro b acc0
    unfold drainAcc drainLoop copyTrace
    rcases h : b.read maxBuf sz with ⟨res, b'⟩
    cases res with
    | ok bs =>
      cases bs with
      | nil => simp [writtenOf]
      | cons x xs => simp [ih, writtenOf]
    | err e =>
      by_cases he : e = .io 0
      · subst he; simp [ih, writtenOf]
      · cases e with
        | io k =>
          cases k with
          | zero => exact absurd rfl he
          | succ k => simp [writtenOf]
        | _ => simp [writtenOf]
    | blocked => simp [writtenOf]
    | panic => simp [writtenOf]

/-! ## (w3) Content-Length / close-delimited: the peer goes silent after `x` -/

/-- (w3) `Content-Length` (`o = some n`, `x` within the announced length) or close-delimited
    (`o = none`) body of which `x` has arrived, then the peer is silent for ever (`pause`; what the
    script holds after it, `rest`, is never reached). With a copy buffer of `sz > 0` bytes and any
    fuel of at least `x.length + 1` reads: EVERYTHING THAT HAS ARRIVED IS WITH THE WRITER —
    `writtenOf = x` — and the trace ends with the read that cannot return (`blocked`); unless `x`
    is the complete announced body (`o = some x.length`), when it ends with `Ok(0)`. -/
theorem C19w_length_close (h : HeadS) (x : Bytes) (o : Option Nat) (rest : List Item)
    (t : Transport) (cap maxBuf mh : Nat) (m : Method) (sz : Nat)
    (hwf : wfT t) (hcap : 0 < cap) (hh : h.WF L)
    (hmh : h.fields.length ≤ mh) (hms : h.fields.length ≤ Headers.maxSize)
    (hnb : bodyless m h.code = false) (hch : isChunked h.seen = false)
    (hcl : isContentLength h.seen = .ok o) (hx : ∀ n, o = some n → x.length ≤ n)
    (hsz : 0 < sz)
    (hflat : flatT t = bytesI (h.render ++ x) ++ .pause :: rest) :
    ∃ resp, parseResponse m mh cap t = .ok resp ∧
      ∀ fuel, x.length + 1 ≤ fuel →
        writtenOf (copyTrace maxBuf sz fuel resp.body) = x ∧
        (copyTrace maxBuf sz fuel resp.body).getLast? =
          some (.read (if o = some x.length then .ok [] else .blocked)) := by
  have hflat' : flatT t = bytesI h.render ++ (bytesI x ++ .pause :: rest) := by
    rw [hflat]; simp [bytesI]
  obtain ⟨r1, hok, hfl, hp⟩ := parseResponse_of_head h hh _ t cap mh hwf hcap hmh hms hflat'
  cases o with
  | none =>
    refine ⟨_, hp m _ (chooseFraming_close m h.code h.seen hnb hch hcl), ?_⟩
    intro fuel hfuel
    have hif : (if (none : Option Nat) = some x.length then Ev.ok [] else Ev.blocked) = .blocked := by
      simp
    rw [hif]
    exact Cp.stall_trace maxBuf sz hsz fuel (.close r1) x ⟨hok, rest, hfl⟩ hfuel
  | some n =>
    refine ⟨_, hp m _ (chooseFraming_length m h.code h.seen n hnb hch hcl), ?_⟩
    intro fuel hfuel
    have hxn := hx n rfl
    by_cases hn : n = x.length
    · subst hn
      rw [if_pos rfl]
      exact Cp.clean_trace maxBuf sz hsz fuel (.length r1 x.length) x ⟨hok, rfl, _, hfl⟩ hfuel
    · have : ¬ (some n = some x.length) := by simpa using hn
      simp only [this, if_false]
      exact Cp.stall_trace maxBuf sz hsz fuel (.length r1 n) x ⟨hok, by omega, rest, hfl⟩ hfuel

/-! ## (w4) chunked: the peer goes silent after the complete chunks `cs` -/

/-- (w4) chunked body, the chunks `cs` have arrived completely (each with its CRLF), then the peer
    is silent for ever. With any fuel of at least `(payloadOf cs).length + 1` reads: the data of
    all the chunks that have arrived is with the writer — `writtenOf = payloadOf cs` — and the
    trace ends with the read that cannot return. -/
theorem C19w_chunked (h : HeadS) (cs : List ChunkS) (rest : List Item)
    (t : Transport) (cap maxBuf mh : Nat) (m : Method) (sz : Nat)
    (hwf : wfT t) (hcap : 0 < cap) (hmb : 0 < maxBuf) (hh : h.WF L)
    (hcs : ∀ c ∈ cs, c.WF CL)
    (hmh : h.fields.length ≤ mh) (hms : h.fields.length ≤ Headers.maxSize)
    (hnb : bodyless m h.code = false) (hch : isChunked h.seen = true)
    (hsz : 0 < sz)
    (hflat : flatT t = bytesI (h.render ++ encChunks cs) ++ .pause :: rest) :
    ∃ resp, parseResponse m mh cap t = .ok resp ∧
      ∀ fuel, (payloadOf cs).length + 1 ≤ fuel →
        writtenOf (copyTrace maxBuf sz fuel resp.body) = payloadOf cs ∧
        (copyTrace maxBuf sz fuel resp.body).getLast? = some (.read .blocked) := by
  have hflat' : flatT t = bytesI h.render ++ (bytesI (encChunks cs) ++ .pause :: rest) := by
    rw [hflat]; simp [bytesI]
  obtain ⟨r1, hok, hfl, hp⟩ := parseResponse_of_head h hh _ t cap mh hwf hcap hmh hms hflat'
  refine ⟨_, hp m _ (chooseFraming_chunked m h.code h.seen hnb hch), ?_⟩
  intro fuel hfuel
  show writtenOf (copyTrace maxBuf sz fuel (.chunked { inner := r1 })) = _ ∧
    (copyTrace maxBuf sz fuel (.chunked { inner := r1 })).getLast? = _
  rw [Cp.copyTrace_chunked_flat r1 hok, hfl]
  exact Cp.chunk_stall_trace maxBuf sz hmb hsz rest fuel _ _ (rep_fresh cs hcs _) hfuel

/-- (w4') chunked body, the chunks `cs` have arrived completely, then only a strict prefix `part` of
    the next chunk `c` (anything from nothing to all but its final LF), then the connection is
    `Dead` (silent for ever, closed, or failing with an error other than Interrupted). All the data
    of the complete chunks is with the writer, possibly followed by data of the cut chunk (the
    decoder hands out the data of a chunk in pieces of up to `maxBuf` bytes as they arrive, before
    the chunk is complete) and nothing else; the copy ends in the read that stalls or fails. -/
theorem C19w_chunked_cut_in_chunk (h : HeadS) (cs : List ChunkS) (c : ChunkS) (part : Bytes)
    (tailItems : List Item)
    (t : Transport) (cap maxBuf mh : Nat) (m : Method) (sz : Nat)
    (hwf : wfT t) (hcap : 0 < cap) (hmb : 0 < maxBuf) (hh : h.WF L)
    (hcs : ∀ c ∈ cs, c.WF CL) (hc : c.WF CL)
    (hlen : part.length < c.enc.length) (hpre : part <+: c.enc) (ht : Dead tailItems)
    (hmh : h.fields.length ≤ mh) (hms : h.fields.length ≤ Headers.maxSize)
    (hnb : bodyless m h.code = false) (hch : isChunked h.seen = true)
    (hsz : 0 < sz)
    (hflat : flatT t = bytesI (h.render ++ encChunks cs ++ part) ++ tailItems) :
    ∃ resp, parseResponse m mh cap t = .ok resp ∧
      ∀ fuel, (payloadOf cs).length + c.data.length + 2 ≤ fuel →
        let tr := copyTrace maxBuf sz fuel resp.body
        (∃ w, writtenOf tr = payloadOf cs ++ w ∧ w <+: c.data) ∧
        (tr.getLast? = some (.read .blocked) ∨
          ∃ e, e ≠ .io 0 ∧ tr.getLast? = some (.read (.err e))) := by
  have hflat' : flatT t =
      bytesI h.render ++ (bytesI (encChunks cs) ++ (bytesI part ++ tailItems)) := by
    rw [hflat]; simp [bytesI]
  obtain ⟨r1, hok, hfl, hp⟩ := parseResponse_of_head h hh _ t cap mh hwf hcap hmh hms hflat'
  refine ⟨_, hp m _ (chooseFraming_chunked m h.code h.seen hnb hch), ?_⟩
  intro fuel hfuel
  have key := Cp.cut_trace maxBuf sz hmb hsz tailItems ht c.sizeRepr c.ext c.data [] part
    (CutOK.of_chunk hc) (by rw [cutEnc_chunk]; exact hpre) (by rw [cutEnc_chunk]; exact hlen)
    fuel (fresh r1.flat) _ (by rw [hfl]; exact rep_fresh cs hcs _) hfuel
  rw [← Cp.copyTrace_chunked_flat r1 hok] at key
  exact key

/-- (w4') the stream is cut inside the last-chunk (or its trailer section): the writer has exactly
    the data of the complete chunks. -/
theorem C19w_chunked_cut_in_last (h : HeadS) (cs : List ChunkS) (l : LastS) (part : Bytes)
    (tailItems : List Item)
    (t : Transport) (cap maxBuf mh : Nat) (m : Method) (sz : Nat)
    (hwf : wfT t) (hcap : 0 < cap) (hmb : 0 < maxBuf) (hh : h.WF L)
    (hcs : ∀ c ∈ cs, c.WF CL) (hl : l.WF CL)
    (hlen : part.length < l.enc.length) (hpre : part <+: l.enc) (ht : Dead tailItems)
    (hmh : h.fields.length ≤ mh) (hms : h.fields.length ≤ Headers.maxSize)
    (hnb : bodyless m h.code = false) (hch : isChunked h.seen = true)
    (hsz : 0 < sz)
    (hflat : flatT t = bytesI (h.render ++ encChunks cs ++ part) ++ tailItems) :
    ∃ resp, parseResponse m mh cap t = .ok resp ∧
      ∀ fuel, (payloadOf cs).length + 2 ≤ fuel →
        let tr := copyTrace maxBuf sz fuel resp.body
        writtenOf tr = payloadOf cs ∧
        (tr.getLast? = some (.read .blocked) ∨
          ∃ e, e ≠ .io 0 ∧ tr.getLast? = some (.read (.err e))) := by
  have hflat' : flatT t =
      bytesI h.render ++ (bytesI (encChunks cs) ++ (bytesI part ++ tailItems)) := by
    rw [hflat]; simp [bytesI]
  obtain ⟨r1, hok, hfl, hp⟩ := parseResponse_of_head h hh _ t cap mh hwf hcap hmh hms hflat'
  refine ⟨_, hp m _ (chooseFraming_chunked m h.code h.seen hnb hch), ?_⟩
  intro fuel hfuel
  have key := Cp.cut_trace maxBuf sz hmb hsz tailItems ht l.zeros l.ext [] l.trailers
    part (CutOK.of_last hl) (by rw [cutEnc_last]; exact hpre) (by rw [cutEnc_last]; exact hlen)
    fuel (fresh r1.flat) _ (by rw [hfl]; exact rep_fresh cs hcs _) (by simpa using hfuel)
  rw [← Cp.copyTrace_chunked_flat r1 hok] at key
  obtain ⟨⟨w, h1, h2⟩, h3⟩ := key
  have hw : w = [] := List.prefix_nil.mp h2
  subst hw
  rw [List.append_nil] at h1
  exact ⟨h1, h3⟩

/-! ## Non-vacuity and concrete traces -/

namespace C19wEx

deriving instance DecidableEq for Ev
deriving instance DecidableEq for CopyEv

/-- `write_to` on the response read from `t` (`GET`, at most 100 headers, BufReader capacity 8) -/
def traceOn (maxBuf sz fuel : Nat) (t : Transport) : List CopyEv :=
  match parseResponse .get 100 8 t with
  | .ok resp => copyTrace maxBuf sz fuel resp.body
  | _ => []

/-- `Content-Length: 11`, `hello` has arrived, then the peer is silent -/
def tCL : Transport := Ex.seg (Ex.headCL.render ++ str "hello") ++ [.pause]
/-- the same response, complete -/
def tCLfull : Transport := Ex.seg (Ex.headCL.render ++ Ex.body) ++ [.pause]
/-- close-delimited, `hello` has arrived, then the peer is silent -/
def tClose : Transport := Ex.seg2 (Ex.headClose.render ++ str "hello") ++ [.pause]
/-- chunked, two complete chunks, then the peer is silent -/
def tTE : Transport := Ex.seg (Ex.headTE.render ++ encChunks Ex.chunks) ++ [.pause]
/-- chunked, two complete chunks, five of the seven bytes of a third one, then silence -/
def tTEpart : Transport :=
  Ex.seg (Ex.headTE.render ++ encChunks Ex.chunks) ++ [.data (str "7\r\nabcde"), .pause]

/-- a close-delimited body in mid-stream: `ab` buffered, then an Interrupted read, `cdefg`, an I/O
    error, `h` -/
def bIntr : Body :=
  .close ({ buf := str "ab", cap := 8,
            inner := [.err 0, .data (str "cdefg"), .err 5, .data (str "h")] } : BufR)

end C19wEx

/-- non-vacuity of (w3): `Content-Length: 11`, `hello` has arrived, then the peer is silent -/
example := C19w_length_close Ex.headCL (str "hello") (some 11) [] C19wEx.tCL 8 4 100 .get 4
  (by decide +kernel) (by decide) (by decide +kernel) (by decide +kernel) (by decide +kernel)
  (by decide +kernel) (by decide +kernel) (by decide +kernel) (by decide +kernel) (by decide)
  (by decide +kernel)

/-- the concrete trace of that run with `sz = 4` (the first read returns the one body byte left in
    the BufReader after the head; six reads of fuel = `x.length + 1`): every piece is written before
    the next read, and the copy sits in the third read -/
example : C19wEx.traceOn 4 4 6 C19wEx.tCL =
    [.read (.ok (str "h")), .wrote (str "h"), .read (.ok (str "ello")), .wrote (str "ello"),
     .read .blocked] := by decide +kernel

example : writtenOf (C19wEx.traceOn 4 4 6 C19wEx.tCL) = str "hello" := by decide +kernel

/-- (w2) on the same run: the drain model only reports the stall -/
example : (match parseResponse .get 100 8 C19wEx.tCL with
    | .ok resp =>
      (match drainAcc 4 4 6 resp.body [] with
       | (.blocked, acc) => acc == str "hello"
       | _ => false)
    | _ => false) = true := by decide +kernel

/-- non-vacuity of (w3), the complete announced body: the copy ends with `Ok(0)` -/
example := C19w_length_close Ex.headCL Ex.body (some 11) [] C19wEx.tCLfull 8 4 100 .get 4
  (by decide +kernel) (by decide) (by decide +kernel) (by decide +kernel) (by decide +kernel)
  (by decide +kernel) (by decide +kernel) (by decide +kernel) (by decide +kernel) (by decide)
  (by decide +kernel)

example : (C19wEx.traceOn 4 4 12 C19wEx.tCLfull).getLast? = some (.read (.ok [])) ∧
    writtenOf (C19wEx.traceOn 4 4 12 C19wEx.tCLfull) = str "hello world" := by decide +kernel

/-- non-vacuity of (w3), close-delimited -/
example := C19w_length_close Ex.headClose (str "hello") none [] C19wEx.tClose 8 4 100 .get 4
  (by decide +kernel) (by decide) (by decide +kernel) (by decide +kernel) (by decide +kernel)
  (by decide +kernel) (by decide +kernel) (by decide +kernel) (by simp) (by decide)
  (by decide +kernel)

example : C19wEx.traceOn 4 4 6 C19wEx.tClose =
    [.read (.ok (str "hell")), .wrote (str "hell"), .read (.ok (str "o")), .wrote (str "o"),
     .read .blocked] := by decide +kernel

/-- non-vacuity of (w4): two complete chunks, then silence -/
example := C19w_chunked Ex.headTE Ex.chunks [] C19wEx.tTE 8 4 100 .get 4
  (by decide +kernel) (by decide) (by decide) (by decide +kernel) (by decide +kernel)
  (by decide +kernel) (by decide +kernel) (by decide +kernel) (by decide +kernel) (by decide)
  (by decide +kernel)

example : C19wEx.traceOn 4 4 12 C19wEx.tTE =
    [.read (.ok (str "hell")), .wrote (str "hell"), .read (.ok (str "o")), .wrote (str "o"),
     .read (.ok (str " wor")), .wrote (str " wor"), .read (.ok (str "ld")), .wrote (str "ld"),
     .read .blocked] := by decide +kernel

/-- non-vacuity of (w4'): two complete chunks, `7\r\nabcde` of a third one (`abcdefg`), silence -/
example := C19w_chunked_cut_in_chunk Ex.headTE Ex.chunks ⟨str "abcdefg", str "7", []⟩
  (str "7\r\nabcde") [.pause] C19wEx.tTEpart 8 4 100 .get 4
  (by decide +kernel) (by decide) (by decide) (by decide +kernel) (by decide +kernel)
  (by decide +kernel) (by decide +kernel) (by decide +kernel) (.inr (.inr ⟨[], rfl⟩))
  (by decide +kernel) (by decide +kernel) (by decide +kernel) (by decide +kernel) (by decide)
  (by decide +kernel)

/-- … and why (w4') cannot say `writtenOf = payloadOf cs`: with `maxBuf = 4` the decoder hands out
    the first four data bytes of the incomplete third chunk (its `read_exact` of
    `min(remaining, maxBuf)` bytes succeeds) — they, too, are with the writer before the stall -/
example : writtenOf (C19wEx.traceOn 4 4 14 C19wEx.tTEpart) = payloadOf Ex.chunks ++ str "abcd" ∧
    (C19wEx.traceOn 4 4 14 C19wEx.tTEpart).getLast? = some (.read .blocked) := by decide +kernel

/-- non-vacuity of (w1), (w2) beyond the trivial trace: an Interrupted read is retried, another
    error ends the copy after what had arrived was written -/
example : copyTrace 4 4 9 C19wEx.bIntr =
    [.read (.ok (str "ab")), .wrote (str "ab"), .read (.err (.io 0)),
     .read (.ok (str "cdef")), .wrote (str "cdef"), .read (.ok (str "g")), .wrote (str "g"),
     .read (.err (.io 5))] := by decide +kernel

end Atto
