/-
  Atto/Props/C15.lean — property C15: "multipart forms decode back to exactly the fields that were
  added".

    (a) `C15_roundtrip`: the body `mpBody b form` is read back by the INDEPENDENT multipart/form-data
        decoder of Spec/MultipartSpec.lean (written from RFC 7578 / RFC 2046 §5.1.1) to exactly the
        parts that were added — texts in order, then files in REVERSE order of addition, file parts
        with `application/octet-stream` when no MIME type was given — provided the delimiter
        `CRLF "--" b` occurs in no value / file data and names carry no `"`, CR, LF.  The data may
        contain anything else.
    (b) `C15_prepare_total`: `boundary()` never panics (the close delimiter is always there, also for
        the empty form) and the `Content-Type` announces the boundary used in the delimiters.
    (c) `C15_copybuf_indep`, `C15_writes_indep`, `C15_chunked_wire`: the transmitted body does not
        depend on the copy-buffer size, also through the chunked writer.
    (d) `C15_collision_position`, `C15_collision_count`: at most `data.length` 16-byte boundaries
        collide with a given data.
  Spec side: Atto/Spec/MultipartSpec.lean.  Helper lemmas: Atto/Lemmas/MultipartLemmas.lean.
-/
import Atto.Gen.Consts
import Atto.Lemmas.MultipartLemmas
import Atto.Props.C07
namespace Atto

/-! ### glue: what was added to the form, as decoder-side parts -/

def textPart (t : Bytes × Bytes) : Part :=
  { name := t.1, filename := none, contentType := none, data := t.2 }

def filePart (f : MFile) : Part :=
  { name := f.name, filename := f.filename,
    contentType := some (f.mime.getD (str "application/octet-stream")), data := f.data }

/-- the parts in the order they are transmitted: texts, then the files last-added first -/
def parts (form : MForm) : List Part := form.texts.map textPart ++ form.files.reverse.map filePart

/-- the parts in the order they were added -/
def partsAdded (form : MForm) : List Part := form.texts.map textPart ++ form.files.map filePart

def isAlnum (c : UInt8) : Bool := isDigit c || isUpper c || isLower c

/-- `fresh` of the brief (the name `Atto.fresh` is taken by Lemmas/ChunkedFlat.lean):
    the boundary is non-empty alphanumeric (`gen_boundary`: 16 alphanumeric bytes) and the delimiter
    `CRLF "--" b` occurs in no text value and in no file data -/
def mpFresh (b : Bytes) (form : MForm) : Prop :=
  b ≠ [] ∧ (∀ c ∈ b, isAlnum c = true) ∧
  (∀ t ∈ form.texts, occursIn (mpDelim b) t.2 = false) ∧
  (∀ f ∈ form.files, occursIn (mpDelim b) f.data = false)

def noQuoteCRLF (s : Bytes) : Prop := (34 : UInt8) ∉ s ∧ (13 : UInt8) ∉ s ∧ (10 : UInt8) ∉ s

/-- names and file names contain no `"`, CR, LF; MIME strings contain no CR, LF and do not start
    with a blank (a `Mime` prints as `type/subtype[; param=value]`) -/
def validNames (form : MForm) : Prop :=
  (∀ t ∈ form.texts, noQuoteCRLF t.1) ∧
  (∀ f ∈ form.files, noQuoteCRLF f.name ∧ (∀ fn, f.filename = some fn → noQuoteCRLF fn) ∧
    (∀ m, f.mime = some m → (13 : UInt8) ∉ m ∧ (10 : UInt8) ∉ m ∧
      m.head? ≠ some 32 ∧ m.head? ≠ some 9))

/-! ### (b) `boundary()` is total; the announced boundary is the one in use -/

theorem C15_prepare_total (b : Bytes) :
    mpBoundaryOf (mpDelim b ++ [45, 45]) = .ok b ∧
    (∀ form : MForm, ∃ pre, mpBody b form = pre ++ (mpDelim b ++ [45, 45])) ∧
    mpBody b ⟨[], []⟩ = mpDelim b ++ [45, 45] ∧
    mpDelim b = [13, 10, 45, 45] ++ b ∧
    (str "multipart/form-data; boundary=").isPrefixOf (mpContentType b) = true ∧
    (mpContentType b).drop (str "multipart/form-data; boundary=").length = b := by
  refine ⟨mp_boundaryOf b, ?_, ?_, rfl, ?_, ?_⟩
  · intro form
    exact ⟨(form.texts.map (mpText b)).flatten ++
      (form.files.reverse.map (fun f => mpFileHeader b f ++ f.data)).flatten,
      by simp only [mpBody, List.append_assoc]⟩
  · simp [mpBody]
  · exact List.isPrefixOf_iff_prefix.mpr ⟨b, rfl⟩
  · simp [mpContentType]

/-- non-vacuity: the empty boundary (the shortest close delimiter, 6 bytes) and a 16-byte one -/
example : mpBoundaryOf (mpDelim [] ++ [45, 45]) = .ok [] := (C15_prepare_total []).1
example : mpBoundaryOf (str "\r\n--0123456789abcdef--") = .ok (str "0123456789abcdef") := by
  with_unfolding_all rfl
example : mpBody (str "XyZ") ⟨[], []⟩ = str "\r\n--XyZ--" := by decide +kernel
/-- a shorter `end_boundary` would panic: the theorem is about the value `from_fields` stores -/
example : mpBoundaryOf (str "\r\n--") = .panic := by with_unfolding_all rfl

/-! ### (c) the copy buffer does not show in the transmitted body -/

theorem C15_copybuf_indep (n fuel : Nat) (bs : Bytes) (hn : 1 ≤ n) (hf : bs.length + 1 ≤ fuel) :
    (copyPieces n fuel bs).flatten = bs ∧
    (∀ p ∈ copyPieces n fuel bs, p ≠ [] ∧ p.length ≤ n) ∧
    (∀ p ∈ (copyPieces n fuel bs).dropLast, p.length = n) :=
  ⟨mp_copyPieces_flatten n hn fuel bs hf, mp_copyPieces_pieces n hn fuel bs,
    mp_copyPieces_full n hn fuel bs hf⟩

example : copyPieces 3 8 [1, 2, 3, 4, 5, 6, 7] = [[1, 2, 3], [4, 5, 6], [7]] := by decide
example : (copyPieces 3 8 [1, 2, 3, 4, 5, 6, 7]).flatten = [1, 2, 3, 4, 5, 6, 7] :=
  (C15_copybuf_indep 3 8 _ (by decide) (by decide)).1

theorem C15_writes_indep (n1 n2 : Nat) (b : Bytes) (form : MForm) (h1 : 1 ≤ n1) (h2 : 1 ≤ n2) :
    (mpWrites n1 b form).flatten = mpBody b form ∧
    (mpWrites n2 b form).flatten = mpBody b form ∧
    (mpWrites n1 b form).flatten = (mpWrites n2 b form).flatten := by
  have e1 : (mpWrites n1 b form).flatten = mpBody b form :=
    mp_copyPieces_flatten n1 h1 _ _ (Nat.le_refl _)
  have e2 : (mpWrites n2 b form).flatten = mpBody b form :=
    mp_copyPieces_flatten n2 h2 _ _ (Nat.le_refl _)
  exact ⟨e1, e2, e1.trans e2.symm⟩

namespace C15
def form : MForm :=
  { texts := [(str "k", str "v\r\n--B8\r\n"), (str "", str "")],
    files := [{ name := str "f", data := [0, 13, 10, 45, 45, 255], filename := some (str "a;b.bin"), mime := none },
              { name := str "g", data := str "--B7--", filename := none, mime := some (str "text/plain; charset=utf-8") }] }
end C15

example : (mpWrites 1 (str "B7") C15.form).flatten = (mpWrites 8192 (str "B7") C15.form).flatten :=
  (C15_writes_indep 1 8192 _ _ (by decide) (by decide)).2.2
example : (mpWrites 7 (str "B7") C15.form).length = 49 := by decide +kernel

/-- through the chunked writer: the independent chunk decoder of Spec/RequestSpec.lean reads back
    exactly the pieces (none of them empty, so none ends the body early), nothing is left over, and
    their concatenation is the body whatever the buffer size. -/
theorem C15_chunked_wire (n : Nat) (b : Bytes) (form : MForm) (hn : 1 ≤ n) :
    let wire := writeBody { kind := .chunked, writes := mpWrites n b form }
    decodeChunks wire = some (mpWrites n b form, []) ∧
    (decodeChunks wire).map (fun p => (p.1.flatten, p.2)) = some (mpBody b form, []) := by
  have hne : ∀ p ∈ mpWrites n b form, p ≠ [] := fun p hp => (mp_copyPieces_pieces n hn _ _ p hp).1
  have hfil : rqNonEmpty (mpWrites n b form) = mpWrites n b form := by
    unfold rqNonEmpty
    exact List.filter_eq_self.mpr (fun p hp => by simpa using hne p hp)
  have h := (C07_only_last_chunk_is_zero
    { kind := .chunked, writes := mpWrites n b form } rfl).2.1
  simp only [hfil] at h
  refine ⟨h, ?_⟩
  simp only [h, Option.map_some, (C15_writes_indep n n b form hn hn).1]

example : (decodeChunks (writeBody { kind := .chunked, writes := mpWrites 7 (str "B7") C15.form })).map
    (fun p => (p.1.flatten, p.2)) = some (mpBody (str "B7") C15.form, []) :=
  (C15_chunked_wire 7 _ _ (by decide)).2


/-! ### (a) the round trip -/

theorem alnum_ne_cr {b : Bytes} (h : ∀ c ∈ b, isAlnum c = true) : (13 : UInt8) ∉ b := by
  intro hm
  have := h 13 hm
  revert this
  decide

/-- (a) The independent decoder, given the boundary, reads back exactly the parts that were added:
    the texts in order, then the files last-added first, each file with its MIME type or
    `application/octet-stream`.  The values and file data are arbitrary bytes (CR, LF, dashes,
    delimiter look-alikes of another boundary …) as long as the delimiter itself does not occur. -/
theorem C15_roundtrip (b : Bytes) (form : MForm) (hf : mpFresh b form) (hv : validNames form) :
    decodeMultipart b (mpBody b form) = some (parts form) := by
  obtain ⟨texts, files⟩ := form
  obtain ⟨_, hal, hft, hff⟩ := hf
  obtain ⟨hvt, hvf⟩ := hv
  rw [mp_body_tail]
  apply mp_decode_tail b (alnum_ne_cr hal)
  intro p hp
  rcases List.mem_append.mp hp with hp | hp
  · obtain ⟨t, ht, rfl⟩ := List.mem_map.mp hp
    have hn := hvt t ht
    exact ⟨⟨hn.1, hn.2.1⟩, fun fn h => (by cases h), fun m h => (by cases h), hft t ht⟩
  · obtain ⟨f, hfm, rfl⟩ := List.mem_map.mp hp
    have hfm' : f ∈ files := List.mem_reverse.mp hfm
    obtain ⟨hn, hfn, hm⟩ := hvf f hfm'
    refine ⟨⟨hn.1, hn.2.1⟩, fun fn h => ⟨(hfn fn h).1, (hfn fn h).2.1⟩, ?_, hff f hfm'⟩
    intro m h
    simp only [Option.some.injEq] at h
    subst h
    cases hmime : f.mime with
    | none => simp only [Option.getD_none]; decide +kernel
    | some m =>
      obtain ⟨h1, _, h3, h4⟩ := hm m hmime
      exact ⟨h1, h3, h4⟩

/-- as a multiset: exactly the parts that were added (texts, then files, in the order of addition) -/
theorem C15_roundtrip_perm (b : Bytes) (form : MForm) (hf : mpFresh b form) (hv : validNames form) :
    ∃ ps, decodeMultipart b (mpBody b form) = some ps ∧ ps.Perm (partsAdded form) ∧
      ps.length = form.texts.length + form.files.length := by
  refine ⟨parts form, C15_roundtrip b form hf hv, ?_, by simp [parts]⟩
  exact List.Perm.append_left _ ((List.reverse_perm _).map _)

/-- non-vacuity: the form of `C15.form` — a value with a delimiter look-alike of boundary `B8`, an
    empty name with an empty value, binary file data with CR LF `--`, a file name with `;`, data that
    looks like a close delimiter without CRLF — under boundary `B7` -/
theorem C15.form_fresh : mpFresh (str "B7") C15.form := by
  unfold mpFresh; decide +kernel

theorem C15.form_valid : validNames C15.form := by
  refine ⟨by unfold noQuoteCRLF; decide +kernel, ?_⟩
  intro f hf
  have : f = C15.form.files[0] ∨ f = C15.form.files[1] := by
    simpa [C15.form] using hf
  rcases this with rfl | rfl
  · refine ⟨by unfold noQuoteCRLF; decide +kernel, ?_, ?_⟩
    · intro fn h
      have : fn = str "a;b.bin" := by simpa [C15.form] using h.symm
      subst this; unfold noQuoteCRLF; decide +kernel
    · intro m h; simp [C15.form] at h
  · refine ⟨by unfold noQuoteCRLF; decide +kernel, ?_, ?_⟩
    · intro fn h; simp [C15.form] at h
    · intro m h
      have : m = str "text/plain; charset=utf-8" := by simpa [C15.form] using h.symm
      subst this; decide +kernel

example : decodeMultipart (str "B7") (mpBody (str "B7") C15.form) =
    some [⟨str "k", none, none, str "v\r\n--B8\r\n"⟩, ⟨[], none, none, []⟩,
      ⟨str "g", none, some (str "text/plain; charset=utf-8"), str "--B7--"⟩,
      ⟨str "f", some (str "a;b.bin"), some (str "application/octet-stream"), [0, 13, 10, 45, 45, 255]⟩] := by
  rw [C15_roundtrip _ _ C15.form_fresh C15.form_valid]
  decide +kernel

example : ∃ ps, decodeMultipart (str "B7") (mpBody (str "B7") C15.form) = some ps ∧
    ps.Perm (partsAdded C15.form) ∧ ps.length = 4 :=
  C15_roundtrip_perm _ _ C15.form_fresh C15.form_valid

/-- the empty form -/
example : decodeMultipart (str "B7") (mpBody (str "B7") ⟨[], []⟩) = some [] :=
  C15_roundtrip _ _ ⟨by decide +kernel, by decide +kernel, by simp, by simp⟩ ⟨by simp, by simp⟩

/-- the freshness hypothesis is necessary: a value containing the delimiter (here because the
    boundary `B` is a prefix of the look-alike's `B8`) is cut there and the rest is misread -/
example : decodeMultipart (str "B") (mpBody (str "B") ⟨[(str "k", str "v\r\n--B8\r\n")], []⟩) = none := by
  decide +kernel

/-- The statement with `validNames` as first phrased — MIME strings only free of CR / LF — is false
    for the RFC decoder, which skips optional whitespace in front of a field value: a MIME string
    that starts with a blank comes back without it.  (`Mime`'s `Display` never starts with a blank,
    which is what `validNames` adds.) -/
def validNamesWeak (form : MForm) : Prop :=
  (∀ t ∈ form.texts, noQuoteCRLF t.1) ∧
  (∀ f ∈ form.files, noQuoteCRLF f.name ∧ (∀ fn, f.filename = some fn → noQuoteCRLF fn) ∧
    (∀ m, f.mime = some m → (13 : UInt8) ∉ m ∧ (10 : UInt8) ∉ m))

def C15_roundtrip_full : Prop :=
  ∀ (b : Bytes) (form : MForm), mpFresh b form → validNamesWeak form →
    decodeMultipart b (mpBody b form) = some (parts form)

theorem C15_roundtrip_full_refuted : ¬ C15_roundtrip_full := by
  intro h
  have := h (str "B7") ⟨[], [{ name := str "f", data := [], filename := none, mime := some (str " x") }]⟩
    (by unfold mpFresh; decide +kernel)
    ⟨by simp, by
      intro f hf
      have : f = { name := str "f", data := [], filename := none, mime := some (str " x") } := by
        simpa using hf
      subst this
      refine ⟨by unfold noQuoteCRLF; decide +kernel, fun fn h => by simp at h, ?_⟩
      intro m h
      have : m = str " x" := by simpa using h.symm
      subst this; decide +kernel⟩
  revert this
  decide +kernel

/-- the closest true statement is `C15_roundtrip` itself (same conclusion, `validNames` instead of
    `validNamesWeak`) -/
theorem C15_roundtrip_partial (b : Bytes) (form : MForm) (hf : mpFresh b form) (hv : validNames form) :
    decodeMultipart b (mpBody b form) = some (parts form) := C15_roundtrip b form hf hv

/-! ### (d) how many boundaries can collide with a given data -/

/-- each occurrence position determines the boundary -/
theorem C15_collision_position (data B : Bytes) (hB : B.length = 16)
    (h : occursIn (mpDelim B) data = true) :
    ∃ i, i < data.length ∧ B = (data.drop (i + 4)).take 16 := by
  obtain ⟨a, c, rfl⟩ := (mp_occursIn_iff _ _).mp h
  refine ⟨a.length, by simp [mpDelim], ?_⟩
  have : (a ++ mpDelim B ++ c).drop (a.length + 4) = B ++ c := by
    rw [List.append_assoc, List.drop_append]
    simp [mpDelim]
  rw [this, ← hB]; simp

/-- any duplicate-free list of colliding 16-byte boundaries has at most `data.length` elements:
    a boundary drawn uniformly from the `62 ^ 16` alphanumeric ones is fresh with probability
    at least `1 - data.length / 62 ^ 16`. -/
theorem C15_collision_count (data : Bytes) (Bs : List Bytes) (hnd : Bs.Nodup)
    (hB : ∀ B ∈ Bs, B.length = 16 ∧ occursIn (mpDelim B) data = true) :
    Bs.length ≤ data.length := by
  have hsub : Bs ⊆ (List.range data.length).map (fun i => (data.drop (i + 4)).take 16) := by
    intro B hm
    obtain ⟨i, hi, he⟩ := C15_collision_position data B (hB B hm).1 (hB B hm).2
    exact List.mem_map.mpr ⟨i, List.mem_range.mpr hi, he.symm⟩
  have := hnd.length_le_of_subset hsub
  simpa using this

/-- non-vacuity: a data with two delimiter look-alikes; both boundaries collide, and no third can -/
example : occursIn (mpDelim (str "0123456789abcdef")) (str "x\r\n--0123456789abcdefgh\r\n--123456789abcdefgh") = true := by
  decide +kernel
example : [str "0123456789abcdef", str "123456789abcdefg"].length ≤
    (str "x\r\n--0123456789abcdefgh\r\n--123456789abcdefgh").length :=
  C15_collision_count _ _ (by decide +kernel) (by
    intro B hB
    have : B = str "0123456789abcdef" ∨ B = str "123456789abcdefg" := by simpa using hB
    rcases this with rfl | rfl <;> exact ⟨by decide +kernel, by decide +kernel⟩)
example : ∃ i, i < 10 ∧ (str "AAAAAAAAAAAAAAAA") = ((str "\r\n--AAAAAAAAAAAAAAAA").drop (i + 4)).take 16 :=
  ⟨0, by decide, by decide +kernel⟩


/-- Tie to the source: the boundary drawn by `gen_boundary` has the 16 characters the collision
    bound is stated for (`BOUNDARY_LEN`, extracted on this run). -/
theorem C15_boundary_len : Consts.boundaryLen = 16 := by decide

end Atto
