/-
  Atto/Lemmas/BufViewLemmas.lean — the seven lemmas behind Props/BufView.lean: the `BufRead` view
  (`fill_buf` / `consume`, mixed with `read`) of the body `parse_response` returns, over an arbitrary
  well-formed scripted transport.
  Helper files: Lemmas/BufViewRun.lean (runs, generic induction), Lemmas/BufViewLC.lean
  (`Content-Length` and close-delimited bodies), Lemmas/BufViewChunked.lean (chunked bodies).
-/
import Atto.Lemmas.BufViewChunked
import Atto.Lemmas.NoPanic
namespace Atto

local notation "L" => Consts.maxLineLen
local notation "CL" => Consts.chunkSizeLineLimit

theorem lawful_of_lawfulT {m : Method} {mh cap maxBuf : Nat} {ops : List BOp} {t : Transport}
    {resp : Resp} (hp : parseResponse m mh cap t = .ok resp)
    (hlaw : lawfulT m mh cap maxBuf ops t = true) : lawful maxBuf ops resp.body = true := by
  simpa only [lawfulT, hp] using hlaw

/-! ## (b1) chunked -/

theorem bv_chunked (h : HeadS) (cs : List ChunkS) (last : LastS) (trail : List Item)
    (t : Transport) (cap maxBuf mh : Nat) (m : Method) (ops : List BOp)
    (hwf : wfT t) (hcap : 0 < cap) (hmb : 0 < maxBuf) (hh : h.WF L)
    (hcs : ∀ c ∈ cs, c.WF CL) (hl : last.WF CL)
    (hmh : h.fields.length ≤ mh) (hms : h.fields.length ≤ Headers.maxSize)
    (hnb : bodyless m h.code = false) (hch : isChunked h.seen = true)
    (hflat : flatT t = bytesI (h.render ++ encChunks cs ++ last.enc) ++ trail)
    :
    ∃ resp, parseResponse m mh cap t = .ok resp ∧
      let evs := (bufRun maxBuf ops resp.body).1
      (∀ e ∈ evs, e.isFault = false) ∧ takenEv evs <+: payloadOf cs ∧
      (∀ i bs, evs[i]? = some (.peek bs) → takenEv (evs.take i) ++ bs <+: payloadOf cs) ∧
      (∀ i, ops[i]? = some .fill →
          (evs[i]? = some (.peek []) ↔ takenEv (evs.take i) = payloadOf cs)) ∧
      (∀ i n, ops[i]? = some (.read n) → 0 < n →
          (evs[i]? = some (.got []) ↔ takenEv (evs.take i) = payloadOf cs)) := by
  have hflat' : flatT t = bytesI h.render ++ (bytesI (encChunks cs ++ last.enc) ++ trail) := by
    rw [hflat]; simp [bytesI]
  obtain ⟨r1, hok, hfl, hp⟩ := parseResponse_of_head h hh _ t cap mh hwf hcap hmh hms hflat'
  refine ⟨_, hp m _ (chooseFraming_chunked m h.code h.seen hnb hch), ?_⟩
  exact clean_buf_run maxBuf (fun _ _ => True) (ChClean last trail)
    (fun b rem op hinv _ => chunked_clean_step last hl trail maxBuf hmb b rem op hinv)
    ops _ _ (chClean_fresh cs hcs last trail r1 hok hfl) (runA_true maxBuf ops _)

/-! ## (b2) `Content-Length` -/

theorem bv_length (h : HeadS) (body : Bytes) (trail : List Item)
    (t : Transport) (cap maxBuf mh : Nat) (m : Method) (ops : List BOp)
    (hwf : wfT t) (hcap : 0 < cap) (hh : h.WF L)
    (hmh : h.fields.length ≤ mh) (hms : h.fields.length ≤ Headers.maxSize)
    (hnb : bodyless m h.code = false) (hch : isChunked h.seen = false)
    (hcl : isContentLength h.seen = .ok (some body.length))
    (hflat : flatT t = bytesI (h.render ++ body) ++ trail)
    (hlaw : lawfulT m mh cap maxBuf ops t = true) :
    ∃ resp, parseResponse m mh cap t = .ok resp ∧
      let evs := (bufRun maxBuf ops resp.body).1
      (∀ e ∈ evs, e.isFault = false) ∧ takenEv evs <+: body ∧
      (∀ i bs, evs[i]? = some (.peek bs) → takenEv (evs.take i) ++ bs <+: body) ∧
      (∀ i, ops[i]? = some .fill →
          (evs[i]? = some (.peek []) ↔ takenEv (evs.take i) = body)) ∧
      (∀ i n, ops[i]? = some (.read n) → 0 < n →
          (evs[i]? = some (.got []) ↔ takenEv (evs.take i) = body)) := by
  have hflat' : flatT t = bytesI h.render ++ (bytesI body ++ trail) := by
    rw [hflat]; simp [bytesI]
  obtain ⟨r1, hok, hfl, hp⟩ := parseResponse_of_head h hh _ t cap mh hwf hcap hmh hms hflat'
  have hp' := hp m _ (chooseFraming_length m h.code h.seen _ hnb hch hcl)
  refine ⟨_, hp', ?_⟩
  exact clean_buf_run maxBuf Body.allows LengthClean (length_clean_step maxBuf) ops _ body
    ⟨r1, body.length, rfl, hok, rfl, trail, hfl⟩
    (runA_of_lawful maxBuf ops _ (lawful_of_lawfulT hp' hlaw))

/-! ## (b3) close-delimited -/

theorem bv_close (h : HeadS) (body : Bytes)
    (t : Transport) (cap maxBuf mh : Nat) (m : Method) (ops : List BOp)
    (hwf : wfT t) (hcap : 0 < cap) (hh : h.WF L)
    (hmh : h.fields.length ≤ mh) (hms : h.fields.length ≤ Headers.maxSize)
    (hnb : bodyless m h.code = false) (hch : isChunked h.seen = false)
    (hcl : isContentLength h.seen = .ok none)
    (hflat : flatT t = bytesI (h.render ++ body))
    :
    ∃ resp, parseResponse m mh cap t = .ok resp ∧
      let evs := (bufRun maxBuf ops resp.body).1
      (∀ e ∈ evs, e.isFault = false) ∧ takenEv evs <+: body ∧
      (∀ i bs, evs[i]? = some (.peek bs) → takenEv (evs.take i) ++ bs <+: body) ∧
      (∀ i, ops[i]? = some .fill →
          (evs[i]? = some (.peek []) ↔ takenEv (evs.take i) = body)) ∧
      (∀ i n, ops[i]? = some (.read n) → 0 < n →
          (evs[i]? = some (.got []) ↔ takenEv (evs.take i) = body)) := by
  have hflat' : flatT t = bytesI h.render ++ bytesI body := by
    rw [hflat]; simp [bytesI]
  obtain ⟨r1, hok, hfl, hp⟩ := parseResponse_of_head h hh _ t cap mh hwf hcap hmh hms hflat'
  refine ⟨_, hp m _ (chooseFraming_close m h.code h.seen hnb hch hcl), ?_⟩
  exact clean_buf_run maxBuf (fun _ _ => True) CloseClean
    (fun b rem op hinv _ => close_clean_step maxBuf b rem op hinv)
    ops _ body ⟨r1, rfl, hok, hfl⟩ (runA_true maxBuf ops _)

/-! ## (b4) `Content-Length`, closed early -/

theorem bv_length_cut (h : HeadS) (pre : Bytes) (n : Nat)
    (t : Transport) (cap maxBuf mh : Nat) (m : Method) (ops : List BOp)
    (hwf : wfT t) (hcap : 0 < cap) (hh : h.WF L)
    (hmh : h.fields.length ≤ mh) (hms : h.fields.length ≤ Headers.maxSize)
    (hnb : bodyless m h.code = false) (hch : isChunked h.seen = false)
    (hcl : isContentLength h.seen = .ok (some n)) (hpre : pre.length < n)
    (hflat : flatT t = bytesI (h.render ++ pre))
    (hlaw : lawfulT m mh cap maxBuf ops t = true) :
    ∃ resp, parseResponse m mh cap t = .ok resp ∧
      let evs := (bufRun maxBuf ops resp.body).1
      (∀ e ∈ evs, e ≠ .peek [] ∧ e ≠ .panic) ∧
      (∀ (i n' : Nat), ops[i]? = some (BOp.read n') → 0 < n' → evs[i]? ≠ some (BEv.got [])) ∧
      takenEv evs <+: pre ∧
      (∀ i, ops[i]? = some .fill → takenEv (evs.take i) = pre → evs[i]? = some (.err .eof)) ∧
      (∀ i n', ops[i]? = some (.read n') → 0 < n' → takenEv (evs.take i) = pre →
          evs[i]? = some (.err .eof)) := by
  have hflat' : flatT t = bytesI h.render ++ bytesI pre := by
    rw [hflat]; simp [bytesI]
  obtain ⟨r1, hok, hfl, hp⟩ := parseResponse_of_head h hh _ t cap mh hwf hcap hmh hms hflat'
  have hp' := hp m _ (chooseFraming_length m h.code h.seen n hnb hch hcl)
  refine ⟨_, hp', ?_⟩
  exact cut_buf_run maxBuf ops (.length r1 n) pre ⟨hok, hpre, hfl⟩
    (runA_of_lawful maxBuf ops _ (lawful_of_lawfulT hp' hlaw))

/-! ## (b5) arrived bytes -/

theorem bv_arrived (h : HeadS) (x : Bytes) (o : Option Nat) (rest : List Item)
    (t : Transport) (cap maxBuf mh : Nat) (m : Method) (ops : List BOp)
    (hwf : wfT t) (hcap : 0 < cap) (hh : h.WF L)
    (hmh : h.fields.length ≤ mh) (hms : h.fields.length ≤ Headers.maxSize)
    (hnb : bodyless m h.code = false) (hch : isChunked h.seen = false)
    (hcl : isContentLength h.seen = .ok o) (hx : ∀ n, o = some n → x.length ≤ n)
    (hflat : flatT t = bytesI (h.render ++ x) ++ rest)
    (hlaw : lawfulT m mh cap maxBuf ops t = true) :
    ∃ resp, parseResponse m mh cap t = .ok resp ∧
      let evs := (bufRun maxBuf ops resp.body).1
      ∀ i, (takenEv (evs.take i)).length < x.length →
        (ops[i]? = some .fill → ∃ bs, evs[i]? = some (.peek bs) ∧ bs ≠ []) ∧
        (∀ n, ops[i]? = some (.read n) → 0 < n →
          ∃ bs, evs[i]? = some (.got bs) ∧ bs ≠ [] ∧ bs.length ≤ n) := by
  have hflat' : flatT t = bytesI h.render ++ (bytesI x ++ rest) := by
    rw [hflat]; simp [bytesI]
  obtain ⟨r1, hok, hfl, hp⟩ := parseResponse_of_head h hh _ t cap mh hwf hcap hmh hms hflat'
  cases o with
  | none =>
    have hp' := hp m _ (chooseFraming_close m h.code h.seen hnb hch hcl)
    refine ⟨_, hp', ?_⟩
    exact avail_buf_run maxBuf ops (.close r1) x ⟨hok, rest, hfl⟩
      (runA_of_lawful maxBuf ops _ (lawful_of_lawfulT hp' hlaw))
  | some n =>
    have hp' := hp m _ (chooseFraming_length m h.code h.seen n hnb hch hcl)
    refine ⟨_, hp', ?_⟩
    exact avail_buf_run maxBuf ops (.length r1 n) x ⟨hok, hx n rfl, rest, hfl⟩
      (runA_of_lawful maxBuf ops _ (lawful_of_lawfulT hp' hlaw))

/-! ## (b6) no panic, any stream, any consumer (lawful or not) -/

theorem Body.fillBuf_no_panic (b : Body) (maxBuf : Nat) (h : b.Ok) :
    (b.fillBuf maxBuf).1 ≠ .panic ∧ (b.fillBuf maxBuf).2.Ok := by
  cases b with
  | chunked c =>
    obtain ⟨h1, h2, h3⟩ := fillBuf_sim bufSim c maxBuf h.1
    have hf := NoPanic.fillBuf_flat_ne_panic (c.mapInner BufR.flat) maxBuf h.2
    rw [← h1, ← h2] at hf
    rw [chunked_fill_eq]
    exact ⟨hf.1, h3, hf.2⟩
  | close r =>
    have hok := (fillBuf_spec r h).1
    have hnp := bufr_fillBuf_ne_panic r h
    simp only [Body.fillBuf]
    rcases hfb : r.fillBuf with ⟨res, r'⟩
    rw [hfb] at hok hnp
    rcases res with ⟨⟨⟩⟩ | e | _ | _
    · exact ⟨by simp, hok⟩
    · exact ⟨by simp, hok⟩
    · exact ⟨by simp, hok⟩
    · exact absurd rfl hnp
  | length r lim =>
    have hok := (fillBuf_spec r h).1
    have hnp := bufr_fillBuf_ne_panic r h
    simp only [Body.fillBuf]
    by_cases hl : lim = 0
    · simp only [hl, if_true]; exact ⟨by simp, h⟩
    · simp only [hl, if_false]
      rcases hfb : r.fillBuf with ⟨res, r'⟩
      rw [hfb] at hok hnp
      rcases res with ⟨⟨⟩⟩ | e | _ | _
      · simp only
        split
        · exact ⟨by simp, hok⟩
        · exact ⟨by simp, hok⟩
      · exact ⟨by simp, hok⟩
      · exact ⟨by simp, hok⟩
      · exact absurd rfl hnp

theorem Body.consume_ok (b : Body) (k : Nat) (h : b.Ok) : (b.consume k).Ok := by
  cases b with
  | chunked c => exact ⟨h.1, consume_inv c k⟩
  | close r => exact h
  | length r lim => exact h

theorem Body.step_no_panic (b : Body) (maxBuf : Nat) (op : BOp) (h : b.Ok) :
    (b.step maxBuf op).1 ≠ .panic ∧ (b.step maxBuf op).2.Ok := by
  cases op with
  | read n =>
    obtain ⟨h1, h2⟩ := Body.read_no_panic b maxBuf n h
    rw [step_read]
    refine ⟨?_, h2⟩
    generalize (b.read maxBuf n).1 = res at h1 ⊢
    rcases res with bs | e | _ | _ <;> simp_all [BEv.ofRead]
  | fill =>
    obtain ⟨h1, h2⟩ := Body.fillBuf_no_panic b maxBuf h
    rw [step_fill]
    refine ⟨?_, h2⟩
    generalize (b.fillBuf maxBuf).1 = res at h1 ⊢
    rcases res with bs | e | _ | _ <;> simp_all [BEv.ofFill]
  | consume k =>
    rw [step_consume]
    exact ⟨by simp, Body.consume_ok b k h⟩

theorem bufRun_no_panic (maxBuf : Nat) (ops : List BOp) : ∀ (b : Body), b.Ok →
    ∀ e ∈ (bufRun maxBuf ops b).1, e ≠ BEv.panic := by
  induction ops with
  | nil => intro b _ e he; simp [bufRun] at he
  | cons op ops ih =>
    intro b h e he
    obtain ⟨h1, h2⟩ := Body.step_no_panic b maxBuf op h
    rw [bufRun_cons] at he
    rcases List.mem_cons.1 he with rfl | he
    · exact h1
    · exact ih _ h2 e he

theorem bv_no_panic (m : Method) (t : Transport) (cap mh maxBuf : Nat) (ops : List BOp)
    (resp : Resp) (hw : wfT t) (hc : 0 < cap) (hr : parseResponse m mh cap t = .ok resp) :
    ∀ e ∈ (bufRun maxBuf ops resp.body).1, e ≠ BEv.panic := by
  obtain ⟨f, r1, hb, hok, _⟩ := (parseResponse_ok m t cap mh hw hc).2 resp hr
  rw [hb]
  exact bufRun_no_panic maxBuf ops _ (Body.new_ok f r1 hok)

/-! ## (b7) a `read` takes the first bytes of the window -/

theorem bv_read_window (b : Body) (maxBuf n : Nat) (bs : Bytes)
    (hw : b.window ≠ []) (hr : (b.read maxBuf n).1 = .ok bs) :
    bs = b.window.take n := by
  cases b with
  | chunked c =>
    simp only [Body.window, ne_eq, List.drop_eq_nil_iff, Nat.not_le] at hw
    rw [chunked_read_eq] at hr
    simp only at hr
    cases hf : c.failed with
    | true =>
      rw [Chunked.read, fillBuf_failed _ _ _ hf] at hr
      cases hr
    | false =>
      have hfb : c.fillBuf bufSrc maxBuf = (.ok (c.buffer.drop c.consumed), c) :=
        fillBuf_noRefill _ _ _ hf (by omega) (by omega)
      rw [read_of_fillBuf _ _ _ _ n _ hfb] at hr
      simp only [RR.ok.injEq] at hr
      rw [← hr]; rfl
  | close r =>
    simp only [Body.window] at hw ⊢
    rw [close_read_eq] at hr
    simp only [BufR.read, hw, false_and, if_false, BufR.fillBuf, ne_eq, not_false_eq_true,
      if_true, RR.ok.injEq] at hr
    exact hr.symm
  | length r lim =>
    simp only [Body.window] at hw ⊢
    have hb : r.buf ≠ [] := by intro hc; simp [hc] at hw
    have hl : lim ≠ 0 := by intro hc; simp [hc] at hw
    have hrd : r.read (min n lim) = (.ok (r.buf.take (min n lim)), r.consume (min n lim)) := by
      simp only [BufR.read, hb, false_and, if_false, BufR.fillBuf, ne_eq, not_false_eq_true,
        if_true]
    simp only [Body.read, hl, if_false, hrd] at hr
    have hlen : ¬ lim < (r.buf.take (min n lim)).length := by
      simp only [List.length_take]; omega
    rw [if_neg hlen] at hr
    split at hr
    · cases hr
    · simp only [RR.ok.injEq] at hr
      rw [← hr, List.take_take]

end Atto
