//! C07 — each connection carries exactly one well-formed, faithfully framed request.
use crate::case::{Case, Sink};
use crate::rng::Rng;
use crate::script::Seg;
use crate::send::*;
use crate::spec;

pub const OK_RESPONSE: &[u8] = b"HTTP/1.1 200 OK\r\nContent-Length: 0\r\n\r\n";

pub fn set(m: &mut Vec<(String, Vec<u8>)>, n: &str, v: &[u8]) {
    m.retain(|(k, _)| k != n);
    m.push((n.to_string(), v.to_vec()));
}
pub fn append(m: &mut Vec<(String, Vec<u8>)>, n: &str, v: &[u8]) {
    m.push((n.to_string(), v.to_vec()));
}
pub fn default(m: &mut Vec<(String, Vec<u8>)>, n: &str, v: &[u8]) {
    if !m.iter().any(|(k, _)| k == n) {
        m.push((n.to_string(), v.to_vec()));
    }
}

pub fn apply_steps_spec(m: &mut Vec<(String, Vec<u8>)>, steps: &[Step]) {
    for s in steps {
        match s {
            Step::Header(n, v) => set(m, &n.to_ascii_lowercase(), v),
            Step::Append(n, v) => append(m, &n.to_ascii_lowercase(), v),
            Step::Basic(u, p) => {
                let cred = format!("{}:{}", u, p.clone().unwrap_or_default());
                set(m, "authorization", format!("Basic {}", spec::b64(cred.as_bytes())).as_bytes())
            }
            Step::Bearer(t) => set(m, "authorization", format!("Bearer {}", t).as_bytes()),
        }
    }
}

/// (framing, expected body bytes if the harness can know them independently)
pub fn body_expect(b: &BodyR) -> (&'static str, Option<Vec<u8>>, Option<&'static str>) {
    match b {
        BodyR::Empty => ("none", Some(vec![]), None),
        BodyR::Text(s) => ("length", Some(s.as_bytes().to_vec()), Some("text/plain; charset=utf-8")),
        BodyR::Bytes(v) => ("length", Some(v.clone()), Some("application/octet-stream")),
        BodyR::File(v) => ("length", Some(v.clone()), Some("application/octet-stream")),
        BodyR::Json(j) => ("length", Some(serde_json::to_vec(&serde_json_value::parse(j)).unwrap()), Some("application/json; charset=utf-8")),
        BodyR::JsonStreaming(j) => ("chunked", Some(serde_json::to_vec(&serde_json_value::parse(j)).unwrap()), Some("application/json; charset=utf-8")),
        BodyR::Form(_) => ("length", None, Some("application/x-www-form-urlencoded")),
        BodyR::Multipart { .. } => ("chunked", None, None),
        BodyR::Custom { kind, writes, .. } => (
            match kind {
                CustomKind::Empty => "none",
                CustomKind::Known(_) => "length",
                CustomKind::Chunked => "chunked",
            },
            Some(if *kind == CustomKind::Empty { vec![] } else { writes.concat() }),
            None,
        ),
    }
}

/// what must be on the wire for a request sent directly to `host_header` (header multiset)
pub fn expected_headers(case: &SendCase, host_header: &str, body_len: usize, multipart_ct: Option<&[u8]>) -> Vec<(String, Vec<u8>)> {
    let mut m: Vec<(String, Vec<u8>)> = vec![];
    apply_steps_spec(&mut m, &case.pre);
    let (framing, _, ct_default) = body_expect(&case.body);
    if let Some(ct) = ct_default {
        default(&mut m, "content-type", ct.as_bytes());
    }
    apply_steps_spec(&mut m, &case.post);
    if case.compress {
        set(&mut m, "accept-encoding", b"gzip, deflate");
    }
    set(&mut m, "connection", b"close");
    m.retain(|(k, _)| k != "content-length" && k != "transfer-encoding");
    match framing {
        "length" => set(&mut m, "content-length", body_len.to_string().as_bytes()),
        "chunked" => set(&mut m, "transfer-encoding", b"chunked"),
        _ => {}
    }
    if let BodyR::Custom { ctype: Some(ct), .. } = &case.body {
        set(&mut m, "content-type", ct.as_bytes());
    }
    if let Some(ct) = multipart_ct {
        set(&mut m, "content-type", ct);
    }
    default(&mut m, "accept", b"*/*");
    default(&mut m, "user-agent", user_agent().as_bytes());
    set(&mut m, "host", host_header.as_bytes());
    m
}

pub fn multiset_diff(exp: &[(String, Vec<u8>)], got: &[(String, Vec<u8>)]) -> Option<String> {
    crate::p_c04::compare(exp, got)
}

pub fn honest(case: &SendCase) -> bool {
    match &case.body {
        BodyR::Custom { kind: CustomKind::Known(n), writes, .. } => *n as usize == writes.iter().map(|w| w.len()).sum::<usize>(),
        BodyR::Custom { kind: CustomKind::Empty, writes, .. } => writes.iter().all(|w| w.is_empty()),
        _ => true,
    }
}

/// The C07 oracle for one recorded request (also used per hop by C10).
pub fn check_request(case: &SendCase, written: &[u8], url: &url::Url, host_header: &str, expect_target: &[u8], tag: &str, first_hop: bool) -> Result<(), (String, String)> {
    let pr = spec::parse_request(written).map_err(|e| (format!("malformed-request-{}", tag), e))?;
    if !pr.leftover.is_empty() {
        return Err((format!("bytes-after-request-{}", tag), format!("{} bytes follow the request; first: {:?}", pr.leftover.len(), String::from_utf8_lossy(&pr.leftover[..pr.leftover.len().min(24)]))));
    }
    if pr.method != case.method.as_bytes() {
        return Err((format!("method-{}", tag), format!("method {:?} written as {:?}", case.method, String::from_utf8_lossy(&pr.method))));
    }
    if pr.target != expect_target {
        return Err((format!("target-{}", tag), format!("target {:?}, expected {:?}", String::from_utf8_lossy(&pr.target), String::from_utf8_lossy(expect_target))));
    }
    let (framing, body, _) = body_expect(&case.body);
    let multipart_ct: Option<Vec<u8>> = if matches!(case.body, BodyR::Multipart { .. }) {
        pr.headers.iter().find(|(n, _)| n == "content-type").map(|(_, v)| v.clone())
    } else {
        None
    };
    if pr.framing != framing {
        return Err((format!("framing-{}", tag), format!("body kind needs framing {:?}, request has {:?}", framing, pr.framing)));
    }
    let exp = expected_headers(case, host_header, pr.body.len(), multipart_ct.as_deref());
    if let Some(d) = multiset_diff(&exp, &pr.headers) {
        return Err((format!("headers-{}", tag), d));
    }
    if let Some(b) = body {
        if first_hop || !matches!(case.body, BodyR::Multipart { .. }) {
            if pr.body != b {
                return Err((format!("body-{}", tag), format!("body has {} octets, expected {}", pr.body.len(), b.len())));
            }
        }
    }
    if let BodyR::Form(pairs) = &case.body {
        let dec = spec::form_decode(&pr.body);
        let want: Vec<(Vec<u8>, Vec<u8>)> = pairs.iter().map(|(k, v)| (k.as_bytes().to_vec(), v.as_bytes().to_vec())).collect();
        if dec != want {
            return Err((format!("form-body-{}", tag), "form body does not decode to the given pairs".into()));
        }
    }
    // query pairs
    if !case.params.is_empty() {
        let q = url.query().unwrap_or("");
        let dec = spec::form_decode(q.as_bytes());
        let n = dec.len();
        let want: Vec<(Vec<u8>, Vec<u8>)> = case.params.iter().map(|(k, v)| (k.as_bytes().to_vec(), v.as_bytes().to_vec())).collect();
        if n < want.len() || dec[n - want.len()..] != want[..] {
            return Err((format!("query-{}", tag), format!("query {:?} does not decode back to the params", q)));
        }
    }
    Ok(())
}

fn gen_string(rng: &mut Rng, max: usize) -> String {
    let n = rng.below(max as u64 + 1) as usize;
    (0..n)
        .map(|_| match rng.below(10) {
            0 => *rng.pick(&['é', 'ü', '日', '本', '😀', 'Ω']),
            1 => *rng.pick(&[' ', '&', '=', '+', '%', '#', '?', '/', ':', '@']),
            _ => rng.range(0x21, 0x7e) as u8 as char,
        })
        .collect()
}

fn gen_hval(rng: &mut Rng) -> Vec<u8> {
    let n = rng.below(20) as usize;
    let v: Vec<u8> = (0..n)
        .map(|_| match rng.below(12) {
            0 => b' ',
            1 => rng.range(0x80, 0xff) as u8,
            _ => rng.range(0x21, 0x7e) as u8,
        })
        .collect();
    // surrounding blanks are not part of a field value
    let s: &[u8] = &v;
    let s = match s.iter().position(|&b| b != b' ') {
        Some(i) => &s[i..],
        None => &[],
    };
    let s = match s.iter().rposition(|&b| b != b' ') {
        Some(i) => &s[..=i],
        None => &[],
    };
    s.to_vec()
}

pub fn gen_steps(rng: &mut Rng, max: usize, framing_headers: bool) -> Vec<Step> {
    let n = rng.below(max as u64 + 1) as usize;
    let names = ["x-a", "X-B", "x-a", "Accept", "User-Agent", "Content-Type", "Authorization", "Accept-Encoding", "X-Long-Header-Name", "connection", "Cookie", "Host"];
    (0..n)
        .map(|_| match rng.below(if framing_headers { 12 } else { 10 }) {
            0 => Step::Basic(gen_string(rng, 8).replace(':', ""), if rng.chance(1, 3) { None } else { Some(gen_string(rng, 8)) }),
            // (a token is sent as given: blanks at its ends — ASCII or not — are part of it; seed C07-seed13)
            1 if rng.chance(1, 4) => Step::Bearer(rng.pick(&["\u{a0}s3cr3t", "s3cr3t\u{3000}", " lead", "\u{2003}both\u{85}", "in ner", "\ttab"]).to_string()),
            1 => Step::Bearer((0..rng.range(1, 12)).map(|_| rng.range(0x21, 0x7e) as u8 as char).collect()),
            2 | 3 | 4 => Step::Append(rng.pick(&names).to_string(), gen_hval(rng)),
            10 => Step::Header(rng.pick(&["Transfer-Encoding", "transfer-encoding"]).to_string(), rng.pick(&[&b"chunked"[..], b"gzip", b"identity"]).to_vec()),
            11 => Step::Header("Content-Length".into(), rng.pick(&[&b"7"[..], b"0", b"999"]).to_vec()),
            _ => Step::Header(rng.pick(&names).to_string(), gen_hval(rng)),
        })
        .collect()
}

pub fn gen_writes(rng: &mut Rng) -> Vec<Vec<u8>> {
    let n = rng.below(6) as usize;
    (0..n)
        .map(|_| {
            let len = match rng.below(12) {
                0 | 1 => 0,
                2 => rng.range(8190, 8200) as usize,
                3 => rng.range(9000, 20000) as usize,
                // single writes around and beyond 32 KiB / 64 KiB / 128 KiB
                4 => *rng.pick(&[32767usize, 32768, 32769, 40000, 65535, 65536, 65537, 70000, 131073, 200000]),
                _ => rng.range(1, 40) as usize,
            };
            rng.bytes(len)
        })
        .collect()
}

pub fn gen_body(rng: &mut Rng) -> BodyR {
    match rng.below(12) {
        0 => BodyR::Empty,
        1 => BodyR::Text(gen_string(rng, 40)),
        2 => BodyR::Bytes({ let n = rng.below(300) as usize; rng.bytes(n) }),
        3 => BodyR::File({ let n = *rng.pick(&[0usize, 5, 8191, 8192, 8193, 20000]); rng.bytes(n) }),
        4 => BodyR::Json(format!("{{\"k\":{},\"s\":\"{}\",\"a\":[1,2,null,true]}}", rng.below(1000), gen_string(rng, 6).replace(['"', '\\'], ""))),
        5 => BodyR::JsonStreaming(format!("{{\"k\":{},\"big\":\"{}\"}}", rng.below(1000), "x".repeat(*rng.pick(&[0usize, 10, 9000, 40000, 70000])))),
        6 => BodyR::Form((0..rng.below(4)).map(|_| (gen_string(rng, 6), gen_string(rng, 8))).collect()),
        7 => BodyR::Multipart {
            texts: (0..rng.range(0, 2)).map(|i| (format!("t{}", i), gen_string(rng, 10))).collect(),
            files: (0..rng.range(1, 2)).map(|i| (format!("f{}", i), { let n = rng.below(200) as usize; rng.bytes(n) }, Some(format!("n{}.bin", i)), None)).collect(),
        },
        8 => {
            let writes = gen_writes(rng);
            let total: usize = writes.iter().map(|w| w.len()).sum();
            BodyR::Custom { kind: CustomKind::Known(total as u64), ctype: if rng.chance(1, 2) { Some("application/x-custom".into()) } else { None }, writes }
        }
        9 if rng.chance(1, 2) => BodyR::Custom { kind: CustomKind::Chunked, ctype: Some(ONE_SHOT.into()), writes: gen_writes(rng) },
        9 => BodyR::Custom { kind: CustomKind::Empty, ctype: None, writes: vec![] },
        _ => BodyR::Custom { kind: CustomKind::Chunked, ctype: match rng.below(4) { 0 => Some("text/x-stream".into()), 1 => Some(FLUSHING.into()), _ => None }, writes: gen_writes(rng) },
    }
}

pub fn body_tag(b: &BodyR) -> &'static str {
    match b {
        BodyR::Empty => "empty",
        BodyR::Text(_) => "text",
        BodyR::Bytes(_) => "bytes",
        BodyR::File(_) => "file",
        BodyR::Json(_) => "json",
        BodyR::JsonStreaming(_) => "json-streaming",
        BodyR::Form(_) => "form",
        BodyR::Multipart { .. } => "multipart",
        BodyR::Custom { kind: CustomKind::Chunked, ctype: Some(c), .. } if c == ONE_SHOT => "custom-one-shot",
        BodyR::Custom { kind: CustomKind::Chunked, .. } => "custom-chunked",
        BodyR::Custom { kind: CustomKind::Known(_), .. } => "custom-known",
        BodyR::Custom { .. } => "custom-empty",
    }
}

pub fn host_header_of(u: &url::Url) -> String {
    match u.port() {
        Some(p) => format!("{}:{}", u.host_str().unwrap_or(""), p),
        None => u.host_str().unwrap_or("").to_string(),
    }
}

pub fn origin_form(u: &url::Url) -> Vec<u8> {
    let mut t = u.path().as_bytes().to_vec();
    if let Some(q) = u.query() {
        t.push(b'?');
        t.extend_from_slice(q.as_bytes());
    }
    t
}

pub fn generate(seed: u64, tier: &str, sink: &mut Sink) {
    // a request whose first transmission broke in the middle of its body and that is sent again: the connection
    // that follows a broken one carries the whole request the caller built (multipart forms are the body kind
    // that has state to get wrong here; seed C07-seed9). The cases are C15's.
    crate::p_c15::resend_cases(&mut Rng::new(seed ^ 0xC07C15), if tier == "thorough" { 100 } else { 12 }, sink);
    // "each connection": also the connections made while following redirects (every body kind)
    crate::p_c09::generate_chains(seed ^ 0xC07C, if tier == "thorough" { 3000 } else { 300 }, false, false, sink);
    let mut rng = Rng::new(seed ^ 0xC07);
    let n = if tier == "thorough" { 40_000 } else { 3000 };
    // (method tokens are case-sensitive: `patch` is an extension method of its own, seed C07-seed12)
    let methods = ["GET", "POST", "PUT", "DELETE", "HEAD", "OPTIONS", "PATCH", "TRACE", "FOO", "M-SEARCH", "get", "Post", "patch", "connect", "Head", "PURGE"];
    for _ in 0..n {
        let path: String = format!("/{}", gen_string(&mut rng, 12).replace(['#', '?'], ""));
        let base_q = if rng.chance(1, 3) { format!("?{}", rng.pick(&["a=1", "a=1&b=2", "x"])) } else { String::new() };
        let port = rng.pick(&["", ":80", ":8080"]).to_string();
        // a fragment is not part of the request target (and must not disturb the query pairs added with param())
        let frag = if rng.chance(1, 4) { rng.pick(&["#sec-2", "#", "#a?b=c&d", "#/x/y"]).to_string() } else { String::new() };
        let url = format!("http://verif.test{}{}{}{}", port, path, base_q, frag);
        let params: Vec<(String, String)> = (0..rng.below(4)).map(|_| (gen_string(&mut rng, 6), gen_string(&mut rng, 8))).collect();
        let body = gen_body(&mut rng);
        let case = SendCase {
            method: rng.pick(&methods).to_string(),
            url,
            follow: false,
            max_redirections: 5,
            max_headers: 100,
            compress: rng.chance(2, 3),
            proxy: ProxyCfg { http: None, https: None, no_proxy: vec![] },
            params,
            pre: gen_steps(&mut rng, 4, true),
            body,
            post: gen_steps(&mut rng, 2, true),
            hops: vec![(vec![Seg::Data(OK_RESPONSE.to_vec())], None)],
            plain_tunnel: false,
        };
        let obs = run_send(&case);
        let tag = body_tag(&case.body);
        let o: Result<(), (String, String)> = (|| {
            obs.resend_check(&tag)?;
            if obs.prepare_error.as_deref() == Some("panic") {
                return Err((format!("prepare-panic-{}", tag), "building or preparing the request panicked".into()));
            }
            if let Some(e) = &obs.prepare_error {
                return Err((format!("prepare-failed-{}", tag), e.clone()));
            }
            let url = obs.url.clone().ok_or(("no-url".to_string(), "url".to_string()))?;
            if obs.hops.len() != 1 {
                return Err((format!("connections-{}", tag), format!("{} connections for one request; final {:?}", obs.hops.len(), obs.fin)));
            }
            if !honest(&case) {
                return Ok(());
            }
            check_request(&case, &obs.hops[0].written, &url, &host_header_of(&url), &origin_form(&url), tag, true)?;
            match &obs.fin {
                FinalObs::Ok(200, _) => Ok(()),
                f => Err((format!("exchange-{}", tag), format!("{:?}", f))),
            }
        })();
        let op = case.op_line(&obs);
        sink.push(Case {
            tags: vec![
                format!("body={}", tag),
                format!("method={}", case.method),
                format!("params={}", case.params.len()),
                format!("fragment={}", case.url.contains('#')),
                format!("steps={}", case.pre.len() + case.post.len()),
                format!("empty-write={}", matches!(&case.body, BodyR::Custom { writes, .. } if writes.iter().any(|w| w.is_empty()))),
                format!("caller-framing-header={}", case.pre.iter().chain(case.post.iter()).any(|s| matches!(s, Step::Header(n, _) if n.eq_ignore_ascii_case("content-length") || n.eq_ignore_ascii_case("transfer-encoding")))),
            ],
            op,
            impl_line: obs.line(),
            oracle: o,
        });
    }
}
