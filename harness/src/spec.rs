//! Independent specification-side decoders, written from RFC 9112 (not from the code, not from the
//! Lean model).  They work on the *flat* byte stream: segmentation cannot influence them.

#[derive(Clone, Debug, PartialEq, Eq)]
pub enum End {
    /// the frame is complete; `usize` = number of body bytes the frame occupies
    Complete(usize),
    /// the stream ended inside the frame
    Truncated,
    /// the framing is malformed at some point
    Malformed,
}

#[derive(Clone, Debug)]
pub struct Decoded {
    /// every payload byte that a perfect decoder could have handed out from what arrived
    pub payload: Vec<u8>,
    pub end: End,
}

fn hexval(b: u8) -> Option<u64> {
    match b {
        b'0'..=b'9' => Some((b - b'0') as u64),
        b'a'..=b'f' => Some((b - b'a' + 10) as u64),
        b'A'..=b'F' => Some((b - b'A' + 10) as u64),
        _ => None,
    }
}

/// chunked-body = *chunk last-chunk CRLF (no trailer section: the client never sends `TE: trailers`).
/// A size line is `1*HEXDIG [ ";" ext ] CRLF`, at most `line_limit` bytes including its line ending;
/// the code also accepts a bare LF and blanks around the number — the spec is deliberately permissive
/// there (`lenient`): it is used as an upper bound for "bytes that may be handed out".
pub fn decode_chunked(body: &[u8], line_limit: usize) -> Decoded {
    let mut payload = vec![];
    let mut i = 0;
    loop {
        // size line
        let window = &body[i..body.len().min(i + line_limit)];
        let lf = match window.iter().position(|&b| b == b'\n') {
            Some(p) => p,
            None => {
                let end = if body.len() - i >= line_limit { End::Malformed } else { End::Truncated };
                return Decoded { payload, end };
            }
        };
        let mut line = &body[i..i + lf];
        if line.last() == Some(&b'\r') {
            line = &line[..line.len() - 1];
        }
        let num = match line.iter().position(|&b| b == b';') {
            Some(p) => &line[..p],
            None => line,
        };
        // blanks around the number are tolerated, blanks inside it are not
        let num: &[u8] = {
            let mut n = num;
            while let [first, rest @ ..] = n {
                if first.is_ascii_whitespace() { n = rest } else { break }
            }
            while let [rest @ .., last] = n {
                if last.is_ascii_whitespace() { n = rest } else { break }
            }
            n
        };
        let num = if num.first() == Some(&b'+') { &num[1..] } else { num };
        if num.is_empty() {
            return Decoded { payload, end: End::Malformed };
        }
        let mut size: u64 = 0;
        for &b in num {
            match hexval(b).and_then(|d| size.checked_mul(16).and_then(|s| s.checked_add(d))) {
                Some(s) => size = s,
                None => return Decoded { payload, end: End::Malformed },
            }
        }
        i += lf + 1;
        let size = size as usize;
        let avail = body.len() - i;
        if size > 0 {
            if avail < size {
                payload.extend_from_slice(&body[i..]);
                return Decoded { payload, end: End::Truncated };
            }
            payload.extend_from_slice(&body[i..i + size]);
            i += size;
        }
        // line ending after the data (or after the last-chunk line)
        if i >= body.len() {
            return Decoded { payload, end: End::Truncated };
        }
        if body[i] == b'\r' {
            if i + 1 >= body.len() {
                return Decoded { payload, end: End::Truncated };
            }
            if body[i + 1] != b'\n' {
                return Decoded { payload, end: End::Malformed };
            }
            i += 2;
        } else if body[i] == b'\n' {
            i += 1;
        } else {
            return Decoded { payload, end: End::Malformed };
        }
        if size == 0 {
            return Decoded { payload, end: End::Complete(i) };
        }
    }
}

pub fn decode_length(body: &[u8], n: usize) -> Decoded {
    if body.len() >= n {
        Decoded { payload: body[..n].to_vec(), end: End::Complete(n) }
    } else {
        Decoded { payload: body.to_vec(), end: End::Truncated }
    }
}

pub fn decode_close(body: &[u8]) -> Decoded {
    Decoded { payload: body.to_vec(), end: End::Complete(body.len()) }
}
