import Atto.Spec.RequestSpec
import Atto.Model.Request

/-!
# Radix round trips: `hexLower` / `natDigits` against `rqParseHex` / `rqParseDec`

`hexLower n` and `natDigits n` are both `(Nat.toDigits base n).flatMap String.utf8EncodeChar`
(`rq_hexLower_eq`, `rq_natDigits_eq`).  The digit list unfolds one least-significant digit at a time
(`rq_digits_lt`, `rq_digits_ge`), each digit is a single byte `rq_digitByte d`, and the spec's
most-significant-first accumulator `rqRadixAux` splits over `++` (`rq_radixAux_append`).
-/

namespace Atto

/-! ### `ByteArray.toList` is the underlying list -/

theorem rq_toList_loop (bs : ByteArray) (i : Nat) (r : List UInt8) :
    ByteArray.toList.loop bs i r = r.reverse ++ bs.data.toList.drop i := by
  fun_induction ByteArray.toList.loop bs i r with
  | case1 i r h ih =>
    rw [ih]
    have h' : i < bs.data.toList.length := h
    have h'' : i < bs.data.size := h
    rw [List.drop_eq_getElem_cons h']
    simp [ByteArray.get!, getElem!_pos bs.data i h'']
  | case2 i r h =>
    have h' : bs.data.toList.length ≤ i := Nat.le_of_not_lt h
    simp [List.drop_eq_nil_of_le h']

theorem rq_byteArray_toList (bs : ByteArray) : bs.toList = bs.data.toList := by
  simp [ByteArray.toList, rq_toList_loop]

theorem rq_toByteArray_toList (l : List UInt8) : l.toByteArray.toList = l := by
  rw [rq_byteArray_toList, List.toList_data_toByteArray]

/-! ### digit strings -/

/-- the bytes of `n` written in `base` (lower case), most significant digit first -/
def rq_digits (base n : Nat) : Bytes := (Nat.toDigits base n).flatMap String.utf8EncodeChar

theorem rq_hexLower_eq (n : Nat) : hexLower n = rq_digits 16 n := by
  unfold hexLower rq_digits
  simp [String.toUTF8, String.ofList, List.utf8Encode, rq_toByteArray_toList]

theorem rq_natDigits_eq (n : Nat) : natDigits n = rq_digits 10 n := by
  unfold natDigits rq_digits
  show (Nat.repr n).toUTF8.toList = _
  simp [Nat.repr, String.toUTF8, String.ofList, List.utf8Encode, rq_toByteArray_toList]

/-- the byte of the digit `d < 16`: `'0'..'9'`, `'a'..'f'` -/
def rq_digitByte (d : Nat) : UInt8 := if d < 10 then UInt8.ofNat (48 + d) else UInt8.ofNat (87 + d)

theorem rq_encode_digit : ∀ d, d < 16 → String.utf8EncodeChar d.digitChar = [rq_digitByte d] := by
  decide +kernel

theorem rq_digitByte_hexVal : ∀ d, d < 16 → rqHexVal? (rq_digitByte d) = some d := by
  decide +kernel

theorem rq_digitByte_decVal : ∀ d, d < 10 → rqDecVal? (rq_digitByte d) = some d := by
  decide +kernel

theorem rq_digitByte_hexdig : ∀ d, d < 16 →
    (48 ≤ rq_digitByte d ∧ rq_digitByte d ≤ 57) ∨ (97 ≤ rq_digitByte d ∧ rq_digitByte d ≤ 102) := by
  decide +kernel

theorem rq_digitByte_isDigit : ∀ d, d < 10 → rqIsDigit (rq_digitByte d) = true := by
  decide +kernel

theorem rq_digitByte_ne_zero : ∀ d, d < 16 → 1 ≤ d → rq_digitByte d ≠ 48 := by
  decide +kernel

theorem rq_digits_lt {base n : Nat} (hb : base ≤ 16) (h : n < base) :
    rq_digits base n = [rq_digitByte n] := by
  unfold rq_digits
  rw [Nat.toDigits_of_lt_base h]
  simp [rq_encode_digit n (by omega)]

theorem rq_digits_ge {base n : Nat} (hb1 : 1 < base) (hb : base ≤ 16) (h : base ≤ n) :
    rq_digits base n = rq_digits base (n / base) ++ [rq_digitByte (n % base)] := by
  unfold rq_digits
  rw [Nat.toDigits_of_base_le hb1 h]
  have : n % base < base := Nat.mod_lt _ (by omega)
  simp [rq_encode_digit (n % base) (by omega)]

theorem rq_digits_ne_nil {base n : Nat} (hb1 : 1 < base) (hb : base ≤ 16) : rq_digits base n ≠ [] := by
  by_cases h : n < base
  · rw [rq_digits_lt hb h]; simp
  · rw [rq_digits_ge hb1 hb (by omega)]; simp

/-- every byte of a digit string is the byte of a digit below the base -/
theorem rq_digits_mem {base : Nat} (hb1 : 1 < base) (hb : base ≤ 16) (n : Nat) :
    ∀ b ∈ rq_digits base n, ∃ d, d < base ∧ b = rq_digitByte d := by
  induction n using Nat.strongRecOn with
  | _ n ih =>
    intro b hmem
    by_cases h : n < base
    · rw [rq_digits_lt hb h] at hmem
      exact ⟨n, h, by simpa using hmem⟩
    · rw [rq_digits_ge hb1 hb (by omega)] at hmem
      rcases List.mem_append.mp hmem with hm | hm
      · exact ih (n / base) (Nat.div_lt_self (by omega) hb1) b hm
      · exact ⟨n % base, Nat.mod_lt _ (by omega), by simpa using hm⟩

/-- a positive number has no leading zero digit -/
theorem rq_digits_head {base : Nat} (hb1 : 1 < base) (hb : base ≤ 16) (n : Nat) (hn : 1 ≤ n) :
    (rq_digits base n).head? ≠ some 48 := by
  induction n using Nat.strongRecOn with
  | _ n ih =>
    by_cases h : n < base
    · rw [rq_digits_lt hb h]
      have := rq_digitByte_ne_zero n (by omega) hn
      simpa using this
    · rw [rq_digits_ge hb1 hb (by omega)]
      have hne := rq_digits_ne_nil (n := n / base) hb1 hb
      have hpos : 1 ≤ n / base := (Nat.le_div_iff_mul_le (by omega)).mpr (by omega)
      have := ih (n / base) (Nat.div_lt_self (by omega) hb1) hpos
      cases hl : rq_digits base (n / base) with
      | nil => exact absurd hl hne
      | cons x xs => rw [hl] at this; simpa using this

/-! ### the accumulator over `++` -/

theorem rq_radixAux_append (dv : UInt8 → Option Nat) (base : Nat) (l1 l2 : Bytes) (acc : Nat) :
    rqRadixAux dv base (l1 ++ l2) acc =
      (rqRadixAux dv base l1 acc).bind (fun a => rqRadixAux dv base l2 a) := by
  induction l1 generalizing acc with
  | nil => simp [rqRadixAux]
  | cons b bs ih =>
    simp only [List.cons_append, rqRadixAux]
    cases dv b with
    | none => simp
    | some d => simp [ih]

theorem rq_radixAux_digits (dv : UInt8 → Option Nat) {base : Nat} (hb1 : 1 < base) (hb : base ≤ 16)
    (hdv : ∀ d, d < base → dv (rq_digitByte d) = some d) (n : Nat) :
    rqRadixAux dv base (rq_digits base n) 0 = some n := by
  induction n using Nat.strongRecOn with
  | _ n ih =>
    by_cases h : n < base
    · rw [rq_digits_lt hb h]
      simp [rqRadixAux, hdv n h]
    · rw [rq_digits_ge hb1 hb (by omega), rq_radixAux_append,
        ih (n / base) (Nat.div_lt_self (by omega) hb1)]
      simp only [Option.bind_some, rqRadixAux, hdv (n % base) (Nat.mod_lt _ (by omega))]
      congr 1
      rw [Nat.mul_comm]
      exact Nat.div_add_mod n base

theorem rq_parseRadix_digits (dv : UInt8 → Option Nat) {base : Nat} (hb1 : 1 < base) (hb : base ≤ 16)
    (hdv : ∀ d, d < base → dv (rq_digitByte d) = some d) (n : Nat) :
    rqParseRadix dv base (rq_digits base n) = some n := by
  unfold rqParseRadix
  rw [if_neg (rq_digits_ne_nil hb1 hb)]
  exact rq_radixAux_digits dv hb1 hb hdv n

/-! ### byte-level case analysis -/

theorem rq_forall_u8 (P : UInt8 → Prop) (h : ∀ n, n < 256 → P (UInt8.ofNat n)) : ∀ b, P b := by
  intro b
  have := h b.toNat b.toNat_lt
  simpa using this

theorem rq_isDigit_valueByte : ∀ b : UInt8, rqIsDigit b = true →
    isValueByte b = true ∧ b ≠ 32 ∧ b ≠ 9 ∧ b ≠ 13 ∧ b ≠ 10 := by
  apply rq_forall_u8
  decide +kernel

/-! ### the theorems -/

theorem rq_hexLower_parse (n : Nat) : rqParseHex (hexLower n) = some n := by
  rw [rq_hexLower_eq]
  exact rq_parseRadix_digits rqHexVal? (by omega) (by omega) rq_digitByte_hexVal n

theorem rq_natDigits_parse (n : Nat) : rqParseDec (natDigits n) = some n := by
  rw [rq_natDigits_eq]
  exact rq_parseRadix_digits rqDecVal? (by omega) (by omega) rq_digitByte_decVal n

theorem rq_hexLower_ne_nil (n : Nat) : hexLower n ≠ [] := by
  rw [rq_hexLower_eq]; exact rq_digits_ne_nil (by omega) (by omega)

theorem rq_natDigits_ne_nil (n : Nat) : natDigits n ≠ [] := by
  rw [rq_natDigits_eq]; exact rq_digits_ne_nil (by omega) (by omega)

/-- lower-case hex digits only -/
theorem rq_hexLower_hexdig (n : Nat) :
    ∀ b ∈ hexLower n, (48 ≤ b ∧ b ≤ 57) ∨ (97 ≤ b ∧ b ≤ 102) := by
  intro b hb
  rw [rq_hexLower_eq] at hb
  obtain ⟨d, hd, rfl⟩ := rq_digits_mem (by omega) (by omega) n b hb
  exact rq_digitByte_hexdig d hd

theorem rq_natDigits_digit (n : Nat) : ∀ b ∈ natDigits n, rqIsDigit b = true := by
  intro b hb
  rw [rq_natDigits_eq] at hb
  obtain ⟨d, hd, rfl⟩ := rq_digits_mem (by omega) (by omega) n b hb
  exact rq_digitByte_isDigit d hd

theorem rq_hexLower_no_leading_zero (n : Nat) (h : 1 ≤ n) : (hexLower n).head? ≠ some 48 := by
  rw [rq_hexLower_eq]; exact rq_digits_head (by omega) (by omega) n h

theorem rq_hexLower_no13 (n : Nat) : (13 : UInt8) ∉ hexLower n := by
  intro hmem
  have := rq_hexLower_hexdig n 13 hmem
  revert this
  decide

theorem rq_natDigits_valueBytes (n : Nat) :
    ∀ b ∈ natDigits n, isValueByte b = true ∧ b ≠ 32 ∧ b ≠ 9 ∧ b ≠ 13 ∧ b ≠ 10 :=
  fun b hb => rq_isDigit_valueByte b (rq_natDigits_digit n b hb)

/-! ### sanity -/

example : hexLower 255 = [102, 102] := by rw [rq_hexLower_eq]; decide +kernel
example : hexLower 0 = [48] := by rw [rq_hexLower_eq]; decide +kernel
example : hexLower 4096 = [49, 48, 48, 48] := by rw [rq_hexLower_eq]; decide +kernel
example : natDigits 1024 = [49, 48, 50, 52] := by rw [rq_natDigits_eq]; decide +kernel
example : natDigits 0 = [48] := by rw [rq_natDigits_eq]; decide +kernel
example : rqParseHex [70, 102] = some 255 := by decide +kernel
example : rqParseHex [] = none := by decide +kernel

end Atto
