/-
  Atto/Model/Copy.lean — src/parsing/response_reader.rs `Response::write_to(writer)`, i.e.
  `io::copy(&mut body, &mut writer)`, as a TRACE of what the two parties see: every `read` of the body
  with its result and every `write_all` on the caller's writer, in order.  (`drainLoop` in
  Model/Response.lean is the same loop with only the accumulated bytes kept.)

  The loop: `read(buf of sz bytes)`; `Ok(0)` → done; `Ok(n)` → `writer.write_all(&buf[..n])`, then
  the next read; `Interrupted` (`io 0`) → retry; any other error → return it.  A `pause` of the
  scripted transport shows as a read that never returns (`blocked`): the trace ends there.
-/
import Atto.Model.Response
namespace Atto

/-- one step of `io::copy(body, writer)` as the two parties see it -/
inductive CopyEv where
  | read (res : Ev)          -- a `read` of the body returned this
  | wrote (bs : Bytes)       -- `write_all(bs)` on the caller's writer
  deriving Repr

/-- `io::copy` with a buffer of `sz` bytes: the trace of reads and writes, and how it ends -/
def copyTrace (maxBuf sz : Nat) : Nat → Body → List CopyEv
  | 0, _ => []
  | fuel+1, b =>
    match b.read maxBuf sz with
    | (.ok [], _) => [.read (.ok [])]
    | (.ok bs, b') => .read (.ok bs) :: .wrote bs :: copyTrace maxBuf sz fuel b'
    | (.err (.io 0), b') => .read (.err (.io 0)) :: copyTrace maxBuf sz fuel b'
    | (.err e, _) => [.read (.err e)]
    | (.blocked, _) => [.read .blocked]
    | (.panic, _) => [.read .panic]

/-- what the writer has been given -/
def writtenOf : List CopyEv → Bytes
  | [] => []
  | .wrote bs :: r => bs ++ writtenOf r
  | _ :: r => writtenOf r

/-- the results of the `read`s of a trace, in order -/
def readsOf : List CopyEv → List Ev
  | [] => []
  | .read e :: r => e :: readsOf r
  | _ :: r => readsOf r

/-- what the `read`s of a trace have returned: the bytes of the `.read (.ok _)` events -/
def readOf : List CopyEv → Bytes
  | [] => []
  | .read (.ok bs) :: r => bs ++ readOf r
  | _ :: r => readOf r

end Atto
