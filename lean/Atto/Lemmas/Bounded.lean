/-
  Atto/Lemmas/Bounded.lean — a hostile peer cannot make the line readers consume or keep more than
  their limit: what `specUntil` consumes, endless lines, the exact point where the header loop
  stops when there are too many fields.
-/
import Atto.Lemmas.Pipeline
import Atto.Model.Body
namespace Atto

/-! ### `take(limit).read_until` -/

/-- What a successful `read_until` under a `Take(limit)` consumed: a prefix `pre` of the stream in
    which every item is either a byte that was appended to the result or an Interrupted error that
    was skipped; at most `limit` bytes were appended. -/
theorem specUntil_consumed (l : Nat) (is : List Item) (acc : Bytes) :
    ∀ bs l', (specUntil l is acc).1 = .ok (bs, l') →
      ∃ pre more, is = pre ++ (specUntil l is acc).2 ∧ bs = acc ++ more ∧
        pre.length = more.length + pre.count (Item.err 0) ∧ more.length + l' = l := by
  fun_induction specUntil l is acc with
  | case1 is acc =>
    intro bs l' h
    simp only [RR.ok.injEq, Prod.mk.injEq] at h
    exact ⟨[], [], by simp, by simp [h.1], by simp, by simp [h.2]⟩
  | case2 l acc =>
    intro bs l' h
    simp only [RR.ok.injEq, Prod.mk.injEq] at h
    exact ⟨[], [], by simp, by simp [h.1], by simp, by simp [h.2]⟩
  | case3 l is acc =>
    intro bs l' h
    simp only [RR.ok.injEq, Prod.mk.injEq] at h
    exact ⟨[.byte 10], [10], by simp, by simp [h.1], by simp, by simp [h.2]; omega⟩
  | case4 l b is acc hb ih =>
    intro bs l' h
    obtain ⟨pre, more, e1, e2, e3, e4⟩ := ih bs l' h
    refine ⟨.byte b :: pre, b :: more, by simp [← e1], by simp [e2], ?_, by simp; omega⟩
    simp only [List.length_cons, List.count_cons]
    simp; omega
  | case5 l is acc ih =>
    intro bs l' h
    obtain ⟨pre, more, e1, e2, e3, e4⟩ := ih bs l' h
    refine ⟨.err 0 :: pre, more, by simp [← e1], e2, ?_, e4⟩
    simp only [List.length_cons, List.count_cons]
    simp; omega
  | case6 l k is acc hk => intro bs l' h; simp at h
  | case7 l is acc => intro bs l' h; simp at h

/-- `limit` bytes without LF: the `Take` is exhausted exactly there; nothing beyond is touched. -/
theorem specUntil_full (pre : Bytes) : ∀ (limit : Nat) (acc : Bytes) (rest : List Item),
    (∀ b ∈ pre, b ≠ 10) → pre.length = limit →
    specUntil limit (bytesI pre ++ rest) acc = (.ok (acc ++ pre, 0), rest) := by
  induction pre with
  | nil => intro limit acc rest _ hl; simp at hl; subst hl; simp
  | cons b pre ih =>
    intro limit acc rest hn hl
    cases limit with
    | zero => simp at hl
    | succ l =>
      have hb : b ≠ 10 := hn b (by simp)
      simp only [bytesI_cons, List.cons_append, specUntil, hb, if_false]
      rw [ih l (acc ++ [b]) rest (fun c hc => hn c (by simp [hc])) (by simpa using hl)]
      simp

theorem stripEol_no_lf (q : Bytes) (h10 : ∀ b ∈ q, b ≠ 10) : stripEol q = none := by
  unfold stripEol
  split
  · rename_i r heq
    exact absurd rfl (h10 10 (List.mem_reverse.mp (by rw [heq]; simp)))
  · rename_i r _ heq
    exact absurd rfl (h10 10 (List.mem_reverse.mp (by rw [heq]; simp)))
  · rfl

/-- `read_line` on `limit` bytes without LF: UnexpectedEof, the rest of the stream untouched. -/
theorem readLine_endless (pre : Bytes) (limit : Nat) (rest : List Item)
    (hn : ∀ b ∈ pre, b ≠ 10) (hl : pre.length = limit) :
    readLine flatSrc (bytesI pre ++ rest) limit = (.err .eof, rest) := by
  unfold readLine
  rw [flatSrc_readUntil, specUntil_full pre limit [] rest hn hl]
  simp [stripEol_no_lf pre hn]

/-- The head parser on a first line of `maxLineLen` bytes without LF. -/
theorem head_endless (pre : Bytes) (rest : List Item) (mh : Nat)
    (hn : ∀ b ∈ pre, b ≠ 10) (hl : pre.length = Consts.maxLineLen) :
    parseResponseHead flatSrc (bytesI pre ++ rest) mh = (.err .eof, rest) := by
  unfold parseResponseHead
  rw [readLine_endless pre _ rest hn hl]

/-- The chunked decoder at a chunk boundary, on a size line of `chunkSizeLineLimit` bytes without
    LF: the read fails with UnexpectedEof after exactly that many bytes, the failure is latched,
    the buffer is empty. -/
theorem chunked_endless_size_line (c : Chunked (List Item)) (pre : Bytes) (rest : List Item)
    (maxBuf n : Nat) (hf : c.failed = false) (hb : c.buffer.length = c.consumed)
    (hr : c.remaining = 0) (he : c.reachedEof = false) (hi : c.inner = bytesI pre ++ rest)
    (hn : ∀ b ∈ pre, b ≠ 10) (hl : pre.length = Consts.chunkSizeLineLimit) :
    (c.read flatSrc maxBuf n).1 = .err .eof ∧ (c.read flatSrc maxBuf n).2.inner = rest ∧
    (c.read flatSrc maxBuf n).2.failed = true ∧ (c.read flatSrc maxBuf n).2.buffer = [] := by
  have hrl := readLine_endless pre Consts.chunkSizeLineLimit rest hn hl
  simp [Chunked.read, Chunked.fillBuf, Chunked.refill, Chunked.readChunkSize, hf, hb, hr, he, hi, hrl]

/-! ### too many header fields: where the loop stops -/

theorem parseHeadersLoop_too_many_state (pre : List FieldS) (f : FieldS) (post : List FieldS) :
    ∀ (fuel : Nat) (rest : List Item) (mh : Nat) (acc : Headers),
    (∀ g ∈ pre ++ f :: post, g.WF Consts.maxLineLen) → pre.length < fuel →
    acc.length + pre.length = mh → mh ≤ Headers.maxSize →
    parseHeadersLoop flatSrc fuel (bytesI (renderFields (pre ++ f :: post) ++ [13, 10]) ++ rest) mh acc.length acc =
      (.err .header, bytesI (renderFields post ++ [13, 10]) ++ rest) := by
  induction pre with
  | nil =>
    intro fuel rest mh acc hwf hf hacc hcap
    cases fuel with
    | zero => simp at hf
    | succ fuel =>
      have hfw := hwf f (by simp)
      have hs : bytesI (renderFields ([] ++ f :: post) ++ [13, 10]) ++ rest
          = bytesI (f.line ++ [13, 10]) ++ (bytesI (renderFields post ++ [13, 10]) ++ rest) := by
        simp [renderFields]
      have hrl := readLineStrict_line f.line Consts.maxLineLen
        (bytesI (renderFields post ++ [13, 10]) ++ rest) (f.line_no_cr hfw) hfw.2.2.2.2.2.2.2
      unfold parseHeadersLoop
      rw [hs, hrl]
      have hacc' : acc.length = mh := by simpa using hacc
      simp [f.line_ne_nil, Headers.len, hacc']
  | cons g pre ih =>
    intro fuel rest mh acc hwf hf hacc hcap
    cases fuel with
    | zero => simp at hf
    | succ fuel =>
      have hgw := hwf g (by simp)
      have hs : bytesI (renderFields (g :: pre ++ f :: post) ++ [13, 10]) ++ rest
          = bytesI (g.line ++ [13, 10]) ++
            (bytesI (renderFields (pre ++ f :: post) ++ [13, 10]) ++ rest) := by
        simp [renderFields]
      have hrl := readLineStrict_line g.line Consts.maxLineLen
        (bytesI (renderFields (pre ++ f :: post) ++ [13, 10]) ++ rest) (g.line_no_cr hgw)
        hgw.2.2.2.2.2.2.2
      simp only [List.length_cons] at hf hacc
      unfold parseHeadersLoop
      rw [hs, hrl]
      simp only [g.line_ne_nil, if_false, Headers.len, parseFieldLine_wf g hgw]
      rw [if_neg (by omega), full_of_lt acc _ (by omega)]
      simp only [Bool.false_eq_true, if_false, Headers.append]
      have hl : acc.length + 1 = (acc ++ [(lowerBytes g.name, g.value.map lfToSp)]).length := by simp
      rw [hl]
      exact ih fuel rest mh (acc ++ [(lowerBytes g.name, g.value.map lfToSp)])
        (fun x hx => hwf x (List.mem_cons_of_mem g hx)) (by omega) (by simp; omega) hcap

/-- With more than `mh` fields the head parser stops with `Header` right after the `(mh+1)`-th
    field line: the remaining field lines and everything behind them are not consumed. -/
theorem head_too_many_state (h : HeadS) (hwf : h.WF Consts.maxLineLen) (rest : List Item) (mh : Nat)
    (hmh : mh < h.fields.length) (hcap : mh ≤ Headers.maxSize) :
    parseResponseHead flatSrc (bytesI h.render ++ rest) mh =
      (.err .header, bytesI (renderFields (h.fields.drop (mh + 1)) ++ [13, 10]) ++ rest) := by
  have hsplit : h.fields = h.fields.take mh ++ h.fields[mh] :: h.fields.drop (mh + 1) := by
    rw [List.getElem_cons_drop, List.take_append_drop]
  have hs : bytesI h.render ++ rest = bytesI (h.statusLine ++ [13, 10]) ++
      (bytesI (renderFields h.fields ++ [13, 10]) ++ rest) := by
    rw [h.render_eq]; simp
  unfold parseResponseHead
  rw [hs, readLine_crlf_line _ _ _ (h.statusLine_no_lf hwf) hwf.2.2.2.2.2.2.2.2.1]
  simp only [parseStatusLine_wf h hwf]
  have hlen : (h.fields.take mh).length = mh := by simp; omega
  have := parseHeadersLoop_too_many_state (h.fields.take mh) h.fields[mh] (h.fields.drop (mh + 1))
    (headFuel flatSrc (bytesI (renderFields h.fields ++ [13, 10]) ++ rest)) rest mh []
    (by rw [← hsplit]; exact hwf.2.2.2.2.2.2.2.2.2)
    (by have := renderFields_length h.fields; simp [headFuel]; omega) (by simp [hlen]) hcap
  rw [← hsplit] at this
  simp only [List.length_nil] at this
  rw [this]

end Atto
