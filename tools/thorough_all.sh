#!/bin/bash
# usage: tools/thorough_all.sh [PROP ...]   — thorough tier of every check on the unchanged tree, in a scratch
# copy (/tmp/thor/{verif,repo}) so that /repo and /verif stay free; result lines in /tmp/thor/result.txt
R=/tmp/thor
rm -rf $R; mkdir -p $R
git clone -q /repo $R/repo
rsync -a --exclude work --exclude replays /verif/ $R/verif/
sed -i "s#path = \"/repo\"#path = \"$R/repo\"#" $R/verif/harness/Cargo.toml
export VERIF_REPO=$R/repo CARGO_NET_OFFLINE=true
cd $R/verif
PS="$@"; [ -z "$PS" ] && PS="C01 C02 C03 C04 C05 C06 C07 C08 C09 C10 C11 C12 C13 C14 C15 C16 C17 C18 C19"
: > $R/result.txt
for P in $PS; do
  /usr/bin/time -f "$P %es" ./check $P --tier thorough 2>$R/$P.err | grep -E "^(OK|VIOLATION|KNOWN)" | cut -c1-300 | tee -a $R/result.txt
  tail -1 $R/$P.err >> $R/result.txt
done
echo ALLDONE >> $R/result.txt
