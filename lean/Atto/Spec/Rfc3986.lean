/-
  Atto/Spec/Rfc3986.lean — RFC 3986 §5.2.4 "Remove Dot Segments", as a specification on the list
  of path segments.  The `url` crate's `join` is a PARAMETER of the model (`Hop.resolved`), so this
  file is not used by any model definition; it serves the harness comparison only.

  An absolute path `"/" seg *( "/" seg )` is split at every `/` after the leading one; the segments
  are scanned left to right with an output stack: `.` is dropped, `..` drops the segment itself and
  pops the stack (nothing to pop at the root), anything else is pushed.  When the LAST segment is
  `.` or `..` the result ends with an empty segment (i.e. a trailing `/`), exactly as the RFC's
  rules 2B/2C ("/." → "/", "/.." → "/") prescribe.  Paths that do not start with `/` are returned
  unchanged (the RFC applies the algorithm to merged paths, which are absolute whenever the base
  has an authority — always the case for http(s)).
-/
import Atto.Std.HeaderMap
namespace Atto
namespace Rfc3986

/-! ### split at `/` and join with `/` -/

def splitSlash : Bytes → List Bytes
  | [] => [[]]
  | b :: bs =>
    if b = 47 then [] :: splitSlash bs
    else match splitSlash bs with
      | [] => [[b]]
      | s :: r => (b :: s) :: r

def joinSlash : List Bytes → Bytes
  | [] => []
  | [s] => s
  | s :: t :: r => s ++ 47 :: joinSlash (t :: r)

theorem splitSlash_ne_nil (bs : Bytes) : splitSlash bs ≠ [] := by
  cases bs with
  | nil => simp [splitSlash]
  | cons b bs =>
    unfold splitSlash
    by_cases h : b = 47
    · simp [h]
    · simp only [h, if_false]; split <;> simp

theorem joinSlash_cons_cons (b : UInt8) (s : Bytes) (r : List Bytes) :
    joinSlash ((b :: s) :: r) = b :: joinSlash (s :: r) := by
  cases r <;> simp [joinSlash]

theorem join_split (bs : Bytes) : joinSlash (splitSlash bs) = bs := by
  induction bs with
  | nil => rfl
  | cons b bs ih =>
    unfold splitSlash
    by_cases h : b = 47
    · simp only [h, if_true]
      cases hs : splitSlash bs with
      | nil => exact absurd hs (splitSlash_ne_nil bs)
      | cons t r => rw [hs] at ih; simp [joinSlash, ih]
    · simp only [h, if_false]
      cases hs : splitSlash bs with
      | nil => exact absurd hs (splitSlash_ne_nil bs)
      | cons t r => rw [hs] at ih; simp only []; rw [joinSlash_cons_cons, ih]

theorem splitSlash_noSlash (bs : Bytes) : ∀ s ∈ splitSlash bs, (47 : UInt8) ∉ s := by
  induction bs with
  | nil => intro s hs; simp [splitSlash] at hs; subst hs; simp
  | cons b bs ih =>
    intro s hs
    unfold splitSlash at hs
    by_cases h : b = 47
    · simp only [h, if_true, List.mem_cons] at hs
      rcases hs with rfl | hs
      · simp
      · exact ih s hs
    · simp only [h, if_false] at hs
      cases hsp : splitSlash bs with
      | nil => exact absurd hsp (splitSlash_ne_nil bs)
      | cons t r =>
        rw [hsp] at hs ih
        simp only [List.mem_cons] at hs
        rcases hs with rfl | hs
        · have := ih t (by simp)
          simp only [List.mem_cons, not_or]
          exact ⟨fun e => h e.symm, this⟩
        · exact ih s (by simp [hs])

theorem split_single (s : Bytes) : (47 : UInt8) ∉ s → splitSlash s = [s] := by
  induction s with
  | nil => intro _; rfl
  | cons b s ih =>
    intro h
    simp only [List.mem_cons, not_or] at h
    have hb : b ≠ 47 := fun e => h.1 e.symm
    unfold splitSlash
    simp only [hb, if_false, ih h.2]

theorem split_append (s X : Bytes) : (47 : UInt8) ∉ s →
    splitSlash (s ++ 47 :: X) = s :: splitSlash X := by
  induction s with
  | nil => intro _; simp [splitSlash]
  | cons b s ih =>
    intro h
    simp only [List.mem_cons, not_or] at h
    have hb : b ≠ 47 := fun e => h.1 e.symm
    rw [List.cons_append, splitSlash]
    simp only [hb, if_false, ih h.2]

theorem split_join (l : List Bytes) : l ≠ [] → (∀ s ∈ l, (47 : UInt8) ∉ s) →
    splitSlash (joinSlash l) = l := by
  induction l with
  | nil => intro h; exact absurd rfl h
  | cons s r ih =>
    intro _ hall
    cases r with
    | nil => simp only [joinSlash]; exact split_single s (hall s (by simp))
    | cons t r =>
      simp only [joinSlash]
      rw [split_append s _ (hall s (by simp)), ih (by simp) (fun x hx => hall x (by simp [hx]))]

/-! ### dot segments -/

def isDot (s : Bytes) : Bool := s == [46] || s == [46, 46]

/-- One step of the scan; `out` is the output stack (last pushed segment first). -/
def dotStep (out : List Bytes) (seg : Bytes) : List Bytes :=
  if seg = [46] then out else if seg = [46, 46] then out.drop 1 else seg :: out

def removeDotSegs (segs : List Bytes) : List Bytes :=
  (segs.foldl dotStep []).reverse ++
    (match segs.getLast? with
     | some s => if isDot s then [[]] else []
     | none => [])

/-- RFC 3986 §5.2.4 on an absolute path. -/
def removeDotSegments (p : Bytes) : Bytes :=
  match p with
  | 47 :: rest => 47 :: joinSlash (removeDotSegs (splitSlash rest))
  | _ => p

theorem isDot_false_iff (s : Bytes) : isDot s = false ↔ s ≠ [46] ∧ s ≠ [46, 46] := by
  simp [isDot]

theorem mem_dotStep {out : List Bytes} {seg s : Bytes} : s ∈ dotStep out seg → s ∈ out ∨ s = seg := by
  unfold dotStep
  intro h
  split at h
  · exact Or.inl h
  · split at h
    · exact Or.inl (List.mem_of_mem_drop h)
    · simp only [List.mem_cons] at h
      rcases h with h | h
      · exact Or.inr h
      · exact Or.inl h

theorem dotStep_noDot {out : List Bytes} {seg : Bytes} :
    (∀ s ∈ out, isDot s = false) → ∀ s ∈ dotStep out seg, isDot s = false := by
  intro hall s hs
  unfold dotStep at hs
  split at hs
  · exact hall s hs
  · rename_i h1
    split at hs
    · exact hall s (List.mem_of_mem_drop hs)
    · rename_i h2
      simp only [List.mem_cons] at hs
      rcases hs with rfl | hs
      · exact (isDot_false_iff _).mpr ⟨h1, h2⟩
      · exact hall s hs

theorem mem_foldl (l : List Bytes) : ∀ (acc : List Bytes) (s : Bytes),
    s ∈ l.foldl dotStep acc → s ∈ acc ∨ s ∈ l := by
  induction l with
  | nil => intro acc s h; exact Or.inl h
  | cons a l ih =>
    intro acc s h
    rw [List.foldl_cons] at h
    rcases ih _ s h with h | h
    · rcases mem_dotStep h with h | h
      · exact Or.inl h
      · exact Or.inr (by simp [h])
    · exact Or.inr (by simp [h])

theorem foldl_noDot (l : List Bytes) : ∀ (acc : List Bytes),
    (∀ s ∈ acc, isDot s = false) → ∀ s ∈ l.foldl dotStep acc, isDot s = false := by
  induction l with
  | nil => intro acc h; exact h
  | cons a l ih => intro acc h; rw [List.foldl_cons]; exact ih _ (dotStep_noDot h)

theorem foldl_fixed (l : List Bytes) : (∀ s ∈ l, isDot s = false) →
    ∀ acc, l.foldl dotStep acc = l.reverse ++ acc := by
  induction l with
  | nil => intro _ acc; rfl
  | cons a l ih =>
    intro h acc
    have ha := (isDot_false_iff a).mp (h a (by simp))
    rw [List.foldl_cons, ih (fun s hs => h s (by simp [hs]))]
    simp [dotStep, ha.1, ha.2]

/-- No `.` or `..` segment survives. -/
theorem removeDotSegs_noDot (segs : List Bytes) :
    ∀ s ∈ removeDotSegs segs, s ≠ [46] ∧ s ≠ [46, 46] := by
  intro s hs
  rw [← isDot_false_iff]
  unfold removeDotSegs at hs
  rw [List.mem_append] at hs
  rcases hs with hs | hs
  · exact foldl_noDot segs [] (by simp) s (by simpa using hs)
  · split at hs
    · split at hs
      · simp at hs; subst hs; rfl
      · simp at hs
    · simp at hs

/-- A segment list without dot segments is left as it is. -/
theorem removeDotSegs_fixed (l : List Bytes) : (∀ s ∈ l, isDot s = false) → removeDotSegs l = l := by
  intro h
  unfold removeDotSegs
  rw [foldl_fixed l h []]
  cases hl : l.getLast? with
  | none => simp
  | some s =>
    have : isDot s = false := h s (List.mem_of_getLast? hl)
    simp [this]

/-- Idempotent. -/
theorem removeDotSegs_idem (segs : List Bytes) :
    removeDotSegs (removeDotSegs segs) = removeDotSegs segs :=
  removeDotSegs_fixed _ (fun s hs => (isDot_false_iff s).mpr (removeDotSegs_noDot segs s hs))

/-- Every output segment is an input segment or empty. -/
theorem removeDotSegs_mem (segs : List Bytes) : ∀ s ∈ removeDotSegs segs, s ∈ segs ∨ s = [] := by
  intro s hs
  unfold removeDotSegs at hs
  rw [List.mem_append] at hs
  rcases hs with hs | hs
  · rcases mem_foldl segs [] s (by simpa using hs) with h | h
    · simp at h
    · exact Or.inl h
  · split at hs
    · split at hs
      · simp at hs; exact Or.inr hs
      · simp at hs
    · simp at hs

theorem removeDotSegs_ne_nil (segs : List Bytes) : segs ≠ [] → removeDotSegs segs ≠ [] := by
  intro hne
  have key : ∀ (s : Bytes), segs.dropLast ++ [s] = segs → segs.getLast? = some s →
      removeDotSegs segs ≠ [] := by
    intro s hsplit hl
    unfold removeDotSegs
    rw [hl]
    cases hd : isDot s with
    | true => simp [hd]
    | false =>
      have hd' := (isDot_false_iff _).mp hd
      have hf : segs.foldl dotStep [] ≠ [] := by
        rw [← hsplit, List.foldl_append]; simp [dotStep, hd'.1, hd'.2]
      simp [hf]
  exact key (segs.getLast hne) (List.dropLast_concat_getLast hne) (List.getLast?_eq_some_getLast hne)

/-! ### the path-level statements -/

theorem removeDotSegments_abs (rest : Bytes) :
    removeDotSegments (47 :: rest) = 47 :: joinSlash (removeDotSegs (splitSlash rest)) := rfl

theorem removeDotSegs_split_noSlash (rest : Bytes) :
    ∀ s ∈ removeDotSegs (splitSlash rest), (47 : UInt8) ∉ s := by
  intro s hs
  rcases removeDotSegs_mem _ s hs with h | h
  · exact splitSlash_noSlash rest s h
  · subst h; simp

/-- The segments of the result are exactly `removeDotSegs` of the segments of the input. -/
theorem removeDotSegments_segments (rest : Bytes) :
    ∃ out, removeDotSegments (47 :: rest) = 47 :: out ∧
      splitSlash out = removeDotSegs (splitSlash rest) :=
  ⟨_, rfl, split_join _ (removeDotSegs_ne_nil _ (splitSlash_ne_nil rest))
    (removeDotSegs_split_noSlash rest)⟩

/-- No `.` or `..` segment survives in the path. -/
theorem removeDotSegments_noDot (rest : Bytes) :
    ∃ out, removeDotSegments (47 :: rest) = 47 :: out ∧
      ∀ s ∈ splitSlash out, s ≠ [46] ∧ s ≠ [46, 46] := by
  obtain ⟨out, h1, h2⟩ := removeDotSegments_segments rest
  exact ⟨out, h1, fun s hs => removeDotSegs_noDot _ s (h2 ▸ hs)⟩

/-- Idempotent on every path. -/
theorem removeDotSegments_idem (p : Bytes) :
    removeDotSegments (removeDotSegments p) = removeDotSegments p := by
  cases p with
  | nil => rfl
  | cons b rest =>
    by_cases hb : b = 47
    · subst hb
      obtain ⟨out, h1, h2⟩ := removeDotSegments_segments rest
      rw [h1, removeDotSegments_abs, h2, removeDotSegs_idem, ← removeDotSegments_abs, h1]
    · have : ∀ q : Bytes, q = b :: rest → removeDotSegments q = q := by
        intro q hq; subst hq
        unfold removeDotSegments
        split
        · rename_i h; injection h with h1 _; exact absurd h1 hb
        · rfl
      rw [this _ rfl, this _ rfl]

/-- A path without dot segments is unchanged. -/
theorem removeDotSegments_fixed (rest : Bytes) :
    (∀ s ∈ splitSlash rest, s ≠ [46] ∧ s ≠ [46, 46]) → removeDotSegments (47 :: rest) = 47 :: rest := by
  intro h
  rw [removeDotSegments_abs, removeDotSegs_fixed _ (fun s hs => (isDot_false_iff s).mpr (h s hs)),
    join_split]

/-! ### the RFC's examples (§5.2.4, §5.4) -/

example : removeDotSegments (str "/a/b/c/./../../g") = str "/a/g" := by decide +kernel
example : removeDotSegments (str "/mid/content=5/../6") = str "/mid/6" := by decide +kernel
example : removeDotSegments (str "/b/c/d;p") = str "/b/c/d;p" := by decide +kernel
example : removeDotSegments (str "/b/c/.") = str "/b/c/" := by decide +kernel
example : removeDotSegments (str "/b/c/..") = str "/b/" := by decide +kernel
example : removeDotSegments (str "/b/c/../g") = str "/b/g" := by decide +kernel
example : removeDotSegments (str "/b/c/../..") = str "/" := by decide +kernel
example : removeDotSegments (str "/b/c/../../../g") = str "/g" := by decide +kernel
example : removeDotSegments (str "/b/c/../../../../g") = str "/g" := by decide +kernel
example : removeDotSegments (str "/b/c/g.") = str "/b/c/g." := by decide +kernel
example : removeDotSegments (str "/b/c/..g") = str "/b/c/..g" := by decide +kernel
example : removeDotSegments (str "/b/c/./g/.") = str "/b/c/g/" := by decide +kernel
example : removeDotSegments (str "/b/c/g/../h") = str "/b/c/h" := by decide +kernel
example : removeDotSegments (str "/b/c/g;x=1/../y") = str "/b/c/y" := by decide +kernel
example : removeDotSegments (str "/a//b/./") = str "/a//b/" := by decide +kernel
example : removeDotSegments (str "/") = str "/" := by decide +kernel
example : removeDotSegments (str "/..") = str "/" := by decide +kernel

end Rfc3986
end Atto
