/- Atto/Driver/SessOp.lean — op `sess`: a history of session / builder operations on the Heap machine. -/
import Atto.Driver.Codec
import Atto.Model.Settings
namespace Atto.Driver
open Atto

def fieldOfString : String → Option Field
  | "mh" => some .maxHeaders | "mr" => some .maxRedirections | "fr" => some .followRedirects
  | "ct" => some .connectTimeout | "rt" => some .readTimeout | "to" => some .timeout
  | "ac" => some .acceptInvalidCerts | "ah" => some .acceptInvalidHostnames | "co" => some .allowCompression
  | "px" => some .proxy | "cs" => some .defaultCharset | "rc" => some .addRootCert
  | _ => none

def sopOfString (s : String) : Option SOp :=
  match s.splitOn ":" with
  | ["ns"] => some .newSession
  | ["cl", i] => i.toNat?.map SOp.cloneSession
  | ["ss", i, f, v] => match i.toNat?, fieldOfString f, v.toNat? with
    | some i, some f, some v => some (.sessSet i f v) | _, _, _ => none
  | ["sh", i, n, v] => match i.toNat?, bytesOfHex n, bytesOfHex v with
    | some i, some n, some v => some (.sessHeader i n v) | _, _, _ => none
  | ["sa", i, n, v] => match i.toNat?, bytesOfHex n, bytesOfHex v with
    | some i, some n, some v => some (.sessAppend i n v) | _, _, _ => none
  | ["cr", "-"] => some (.create none)
  | ["cr", i] => i.toNat?.map (fun i => SOp.create (some i))
  | ["bs", i, f, v] => match i.toNat?, fieldOfString f, v.toNat? with
    | some i, some f, some v => some (.bldSet i f v) | _, _, _ => none
  | ["bh", i, n, v] => match i.toNat?, bytesOfHex n, bytesOfHex v with
    | some i, some n, some v => some (.bldHeader i n v) | _, _, _ => none
  | ["ba", i, n, v] => match i.toNat?, bytesOfHex n, bytesOfHex v with
    | some i, some n, some v => some (.bldAppend i n v) | _, _, _ => none
  | ["ds", i] => i.toNat?.map SOp.dropSession
  | ["db", i] => i.toNat?.map SOp.dropBuilder
  | ["os", i] => i.toNat?.map SOp.obsSession
  | ["ob", i] => i.toNat?.map SOp.obsBuilder
  | _ => none

def b01 (b : Bool) : String := if b then "1" else "0"

def obsToString (o : Obs) : String :=
  let s := o.sc
  let t := match s.timeout with | some v => toString v | none => "~"
  s!"mh={s.maxHeaders},mr={s.maxRedirections},fr={b01 s.followRedirects},ct={s.connectTimeout},rt={s.readTimeout},to={t},ac={b01 s.acceptInvalidCerts},ah={b01 s.acceptInvalidHostnames},co={b01 s.allowCompression},px={s.proxy},cs={s.defaultCharset},rc={s.rootCerts};sh={canonHeaders o.sessHeaders};rh={canonHeaders o.reqHeaders}"

/-- a token of the op line: a machine operation, or `pb:<i>:<ua>` = `try_prepare()` on builder `i`
    (observes it, then the builder is gone) -/
inductive Tok where
  | op (o : SOp)
  | prep (b : Nat) (ua : Bytes)

def tokOfString (s : String) : Option Tok :=
  match s.splitOn ":" with
  | ["pb", i, ua] => match i.toNat?, bytesOfHex ua with
    | some i, some ua => some (.prep i ua) | _, _ => none
  | _ => (sopOfString s).map Tok.op

/-- the prepared header map of a body-less request, from what `obsBuilder` shows -/
def preparedOf (o : Obs) (ua : Bytes) : Headers :=
  tryPrepare { allowCompression := o.sc.allowCompression, userAgent := ua } o.reqHeaders { kind := .empty }

def runToks : Heap → List Tok → List String
  | _, [] => []
  | h, .op o :: r => let p := h.step o; (p.2.map obsToString).toList ++ runToks p.1 r
  | h, .prep b ua :: r =>
    let p := h.step (.obsBuilder b)
    let out := match p.2 with
      | some o => -- `;wire=ok`: the harness also sends the prepared request and compares the field lines on the wire with
        -- the prepared header map; in the model the wire IS the rendering of that map (Model/Request.writeHeaders)
        [obsToString o ++ ";prep=" ++ canonHeaders (preparedOf o ua) ++ ";wire=ok"]
      | none => []
    out ++ runToks (p.1.step (.dropBuilder b)).1 r

/-- `sess <op;op;…>` → one group per observation op, in order -/
def opSess (args : List String) : String :=
  match args with
  | [ops] =>
    match (ops.splitOn ";").mapM tokOfString with
    | some toks => "obs=" ++ "|".intercalate (runToks {} toks)
    | none => "bad-op"
  | _ => "bad-op"

end Atto.Driver
