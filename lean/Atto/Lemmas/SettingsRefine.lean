/-
  Atto/Lemmas/SettingsRefine.lean — simulation between the `Arc`-cell machine `Heap` and the
  by-value specification machine `Val` of Atto/Model/Settings.lean (used by Props/C16.lean).
-/
import Atto.Model.Settings
namespace Atto

/-! ### `getAt` / `setAt` -/

theorem st_getAt_lt {α} {l : List (Option α)} {i : Nat} {x : α} (h : getAt l i = some x) :
    i < l.length := by
  unfold getAt at h
  cases hi : l[i]? with
  | none => simp [hi] at h
  | some y => exact (List.getElem?_eq_some_iff.1 hi).1

theorem st_getAt_ge {α} {l : List (Option α)} {i : Nat} (h : l.length ≤ i) : getAt l i = none := by
  unfold getAt
  rw [List.getElem?_eq_none h]; rfl

theorem st_getAt_append {α} (l : List (Option α)) (x : Option α) (i : Nat) :
    getAt (l ++ [x]) i = if i < l.length then getAt l i else if i = l.length then x else none := by
  unfold getAt
  split
  · rename_i h; rw [List.getElem?_append_left h]
  · rename_i h
    split
    · rename_i h2; subst h2; simp
    · rename_i h2
      rw [List.getElem?_eq_none (by simp; omega)]; rfl

theorem st_setAt_length {α} (l : List (Option α)) (i : Nat) (x : Option α) :
    (setAt l i x).length = l.length := by
  unfold setAt; split <;> simp

theorem st_getAt_setAt {α} (l : List (Option α)) (i j : Nat) (x : Option α) :
    getAt (setAt l i x) j = if j = i ∧ i < l.length then x else getAt l j := by
  unfold getAt setAt
  by_cases hi : i < l.length
  · simp only [hi, if_true, and_true]
    rw [List.getElem?_set]
    by_cases hj : i = j
    · subst hj; simp [hi]
    · have : ¬ j = i := fun e => hj e.symm
      simp [hj, this]
  · simp [hi]

theorem st_getAt_setAt_self {α} {l : List (Option α)} {i : Nat} {y : α} (x : Option α)
    (h : getAt l i = some y) : getAt (setAt l i x) i = x := by
  rw [st_getAt_setAt]; simp [st_getAt_lt h]

theorem st_getAt_setAt_ne {α} (l : List (Option α)) {i j : Nat} (x : Option α) (h : j ≠ i) :
    getAt (setAt l i x) j = getAt l j := by
  rw [st_getAt_setAt]; simp [h]

/-! ### counting the handles that point to an address -/

/-- number of live entries of a pointer table that are equal to `p` -/
def st_cnt : List (Option Nat) → Nat → Nat
  | [], _ => 0
  | x :: l, p => (if x = some p then 1 else 0) + st_cnt l p

def st_ptrs (l : List (Option HBuilder)) : List (Option Nat) := l.map (Option.map HBuilder.ptr)

theorem st_cnt_append (l : List (Option Nat)) (x : Option Nat) (p : Nat) :
    st_cnt (l ++ [x]) p = st_cnt l p + (if x = some p then 1 else 0) := by
  induction l with
  | nil => simp [st_cnt]
  | cons y l ih => simp only [List.cons_append, st_cnt, ih]; omega

theorem st_cnt_set (l : List (Option Nat)) (i : Nat) (x : Option Nat) (p : Nat) (hi : i < l.length) :
    st_cnt (l.set i x) p + (if l[i]? = some (some p) then 1 else 0)
      = st_cnt l p + (if x = some p then 1 else 0) := by
  induction l generalizing i with
  | nil => simp at hi
  | cons y l ih =>
    cases i with
    | zero =>
      simp only [List.set_cons_zero, st_cnt, List.getElem?_cons_zero, Option.some.injEq]
      omega
    | succ i =>
      have := ih i (by simpa using hi)
      simp only [List.set_cons_succ, st_cnt, List.getElem?_cons_succ]
      omega

theorem st_cnt_setAt {l : List (Option Nat)} {i : Nat} {q : Nat} (x : Option Nat) (p : Nat)
    (h : getAt l i = some q) :
    st_cnt (setAt l i x) p + (if q = p then 1 else 0) = st_cnt l p + (if x = some p then 1 else 0) := by
  have hi := st_getAt_lt h
  have h2 : l[i]? = some (some q) := by
    unfold getAt at h
    cases hh : l[i]? with
    | none => simp [hh] at h
    | some y => cases y with
      | none => simp [hh] at h
      | some z => simp [hh] at h; simp [h]
  have := st_cnt_set l i x p hi
  unfold setAt
  simp only [hi, if_true]
  simp only [h2, Option.some.injEq] at this
  exact this

theorem st_cnt_pos {l : List (Option Nat)} {i p : Nat} (h : getAt l i = some p) : 1 ≤ st_cnt l p := by
  have := st_cnt_setAt none p h
  simp at this; omega

/-- two different live entries with the same pointer count at least twice -/
theorem st_cnt_two {l : List (Option Nat)} {i j p : Nat} (hi : getAt l i = some p)
    (hj : getAt l j = some p) (hne : j ≠ i) : 2 ≤ st_cnt l p := by
  have h1 := st_cnt_setAt none p hi
  have h2 : getAt (setAt l i none) j = some p := by rw [st_getAt_setAt_ne _ _ hne]; exact hj
  have h3 := st_cnt_pos h2
  simp at h1; omega

theorem st_cnt_zero {l : List (Option Nat)} {p : Nat} (h : ∀ i q, getAt l i = some q → q ≠ p) :
    st_cnt l p = 0 := by
  induction l with
  | nil => rfl
  | cons y l ih =>
    have h0 : y ≠ some p := by
      intro e; subst e
      exact h 0 p (by simp [getAt]) rfl
    have : st_cnt l p = 0 := ih (fun i q hq => h (i + 1) q (by simpa [getAt] using hq))
    simp [st_cnt, h0, this]

theorem st_getAt_ptrs (l : List (Option HBuilder)) (i : Nat) :
    getAt (st_ptrs l) i = (getAt l i).map HBuilder.ptr := by
  unfold getAt st_ptrs
  rw [List.getElem?_map]
  cases l[i]? with
  | none => rfl
  | some y => cases y <;> rfl

theorem st_ptrs_setAt (l : List (Option HBuilder)) (i : Nat) (x : Option HBuilder) :
    st_ptrs (setAt l i x) = setAt (st_ptrs l) i (x.map HBuilder.ptr) := by
  unfold setAt st_ptrs
  simp only [List.length_map]
  split
  · rw [List.map_set]
  · rfl

theorem st_ptrs_append (l : List (Option HBuilder)) (x : Option HBuilder) :
    st_ptrs (l ++ [x]) = st_ptrs l ++ [x.map HBuilder.ptr] := by
  simp [st_ptrs]

end Atto
