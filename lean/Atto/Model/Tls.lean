/-
  Atto/Model/Tls.lean — src/streams.rs `apply_base_settings` (which settings reach which handshake and
  which name it is given) and src/tls/rustls_impl.rs `CustomCertVerifier::verify_server_cert`.
  The X.509 verdict itself (chain building, validity period, name matching: webpki / OpenSSL) is a
  parameter.
-/
import Atto.Model.Settings
import Atto.Model.Url
namespace Atto
namespace Tls

/-- what the upstream verifier says about (chain, server name, now, roots) -/
inductive Verdict where
  | ok
  | nameMismatch        -- `InvalidCertificate(NotValidForName)`: everything else is fine
  | certError           -- any other `InvalidCertificate(_)` / `NoCertificatesPresented`
  deriving Repr, DecidableEq

/-- how the facts about a certificate map to the upstream verdict (webpki reports chain / validity
    problems before it looks at the name) -/
def upstream (chainOk timeOk nameOk : Bool) : Verdict :=
  if chainOk && timeOk then (if nameOk then .ok else .nameMismatch) else .certError

structure Flags where
  acceptInvalidCerts : Bool
  acceptInvalidHostnames : Bool
  roots : Nat
  deriving Repr, DecidableEq

/-- `apply_base_settings`: the handshaker gets exactly these three settings of the request -/
def applyBaseSettings (s : Scalars) : Flags :=
  { acceptInvalidCerts := s.acceptInvalidCerts, acceptInvalidHostnames := s.acceptInvalidHostnames, roots := s.rootCerts }

/-- `CustomCertVerifier::verify_server_cert` -/
def verify (f : Flags) (v : Verdict) : Bool :=
  match v with
  | .ok => true
  | .nameMismatch => f.acceptInvalidCerts || f.acceptInvalidHostnames
  | .certError => f.acceptInvalidCerts

/-- the handshakes made for one connection and the server name each is given:
    direct https → the URL's host; https through a proxy → (an https proxy: the proxy's host, then)
    the ORIGIN's host inside the tunnel -/
def handshakeNames (url : Url) (proxy : Option Url) : List Bytes :=
  match proxy with
  | none => if url.scheme == str "https" then [url.host] else []
  | some p =>
    (if p.scheme == str "https" then [p.host] else []) ++
    (if url.scheme == str "https" then [url.host] else [])

end Tls
end Atto
