/-
  Atto/Model/Lines.lean — src/parsing/buffers.rs
-/
import Atto.Std.Src
namespace Atto

def LF : UInt8 := 10
def CR : UInt8 := 13
def SP : UInt8 := 32

/-- `buf.ends_with(b"\r\n")` / `buf.ends_with(b"\n")` handling of `read_line`. -/
def stripEol (bs : Bytes) : Option Bytes :=
  match bs.reverse with
  | 10 :: 13 :: r => some r.reverse
  | 10 :: r => some r.reverse
  | _ => none

/-- src/parsing/buffers.rs:3-19 `read_line`: one `read_until` under a `Take(limit)`; CRLF or LF. -/
def readLine (S : Src σ) (r : σ) (limit : Nat) : RR Bytes × σ :=
  match S.readUntil r limit with
  | (.ok (bs, _), r') =>
    (match stripEol bs with
     | some line => (.ok line, r')
     | none => (.err .eof, r'))
  | (.err e, r') => (.err e, r')
  | (.blocked, r') => (.blocked, r')
  | (.panic, r') => (.panic, r')

/-- src/parsing/buffers.rs:21-44 `read_line_strict`: repeated `read_until` on the *same* `Take`;
    only CRLF ends the line, inner bare LFs are kept. `buf[buf.len()-1]` and `buf[buf.len()-2]`
    are guarded by `k == 0 ||` resp. `k >= 2`. -/
def readLineStrictLoop (S : Src σ) : Nat → σ → Nat → Bytes → RR Bytes × σ
  | 0, r, _, _ => (.panic, r)                    -- fuel exhausted: unreachable (lemma)
  | fuel+1, r, limit, buf =>
    match S.readUntil r limit with
    | (.ok (bs, limit'), r') =>
      let buf' := buf ++ bs
      let k := bs.length
      if k = 0 then (.err .eof, r')
      else if buf'.getLast? != some 10 then (.err .eof, r')
      else if k ≥ 2 ∧ (buf'.dropLast).getLast? = some 13 then (.ok (buf'.dropLast.dropLast), r')
      else readLineStrictLoop S fuel r' limit' buf'
    | (.err e, r') => (.err e, r')
    | (.blocked, r') => (.blocked, r')
    | (.panic, r') => (.panic, r')

def readLineStrict (S : Src σ) (r : σ) (limit : Nat) : RR Bytes × σ :=
  readLineStrictLoop S (limit + 1) r limit []

/-- src/parsing/buffers.rs:46-58 `read_line_ending`. -/
def readLineEnding (S : Src σ) (r : σ) : RR Bool × σ :=
  match S.readExact r 1 with
  | (.ok [b], r') =>
    if b = 13 then
      (match S.readExact r' 1 with
       | (.ok [b2], r'') => (.ok (b2 = 10), r'')
       | (.ok _, r'') => (.panic, r'')
       | (.err e, r'') => (.err e, r'')
       | (.blocked, r'') => (.blocked, r'')
       | (.panic, r'') => (.panic, r''))
    else (.ok (b = 10), r')
  | (.ok _, r') => (.panic, r')
  | (.err e, r') => (.err e, r')
  | (.blocked, r') => (.blocked, r')
  | (.panic, r') => (.panic, r')

def trimLeft (b : UInt8) (bs : Bytes) : Bytes := bs.dropWhile (· == b)
def trimRight (b : UInt8) (bs : Bytes) : Bytes := (bs.reverse.dropWhile (· == b)).reverse
/-- `trim_byte`. -/
def trimByte (b : UInt8) (bs : Bytes) : Bytes := trimLeft b (trimRight b bs)
/-- `replace_byte`. -/
def replaceByte (a b : UInt8) (bs : Bytes) : Bytes := bs.map (fun x => if x = a then b else x)

end Atto
