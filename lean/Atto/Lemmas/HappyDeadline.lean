/-
  Atto/Lemmas/HappyDeadline.lean — the overall deadline in the connection race
  (Atto/Model/Happy.lean): under `deadline = some dl` the clock of `race` / `drain` and the
  completion time of every attempt stay at or below `dl`.  Used by Atto/Props/C17d.lean.
-/
import Atto.Lemmas.HappyLemmas
namespace Atto
namespace Happy

/-- the time carried by a result is at most `dl` -/
def hp_Within (dl : Nat) (o : ConnOut) : Prop :=
  match o with
  | .ok _ t => t ≤ dl
  | .err _ _ t => t ≤ dl
  | .noDns => True

theorem hp_attemptLimit_past (timeout dl t : Nat) (h : dl ≤ t) :
    attemptLimit timeout (some dl) t = none := by
  simp [attemptLimit, h]

theorem hp_attemptLimit_none (timeout t : Nat) : attemptLimit timeout none t = some timeout := rfl

theorem hp_attemptLimit_left {timeout dl t : Nat} (h : t < dl) :
    attemptLimit timeout (some dl) t = some (min timeout (dl - t)) := by
  simp only [attemptLimit]
  rw [if_neg (by omega)]

/-- an attempt with limit `lim` completes by `t + lim` -/
theorem hp_startAttempt_done (a : Addr) (t lim : Nat) : (startAttempt a t lim).done ≤ t + lim := by
  unfold startAttempt
  split
  · split
    · simp only; omega
    · exact Nat.le_refl _
  · split
    · simp only; omega
    · exact Nat.le_refl _
  · exact Nat.le_refl _

/-- an attempt started at or before the deadline completes by the deadline -/
theorem hp_pend_done_le (timeout dl : Nat) (a : Addr) (t : Nat) (ht : t ≤ dl) :
    (hp_pend timeout (some dl) a t).done ≤ dl := by
  unfold hp_pend
  by_cases h : dl ≤ t
  · rw [hp_attemptLimit_past timeout dl t h]
    exact ht
  · rw [hp_attemptLimit_left (by omega)]
    have := hp_startAttempt_done a t (min timeout (dl - t))
    simp only at this ⊢
    omega

theorem hp_drain_within {dl : Nat} (fuel : Nat) (ps : List Pending) (t : Nat)
    (fe : Option (Nat × ConnErr)) (ht : t ≤ dl) (hps : ∀ p ∈ ps, p.done ≤ dl) :
    hp_Within dl (drain fuel ps t fe) := by
  induction fuel generalizing ps t fe with
  | zero => simp [drain, hp_Within]
  | succ fuel ih =>
    rcases hp_drain_cases fuel ps t fe with ⟨_, he⟩ | ⟨q, hq, ⟨_, he⟩ | ⟨e, _, he⟩⟩
    · rw [he]
      cases fe with
      | none => trivial
      | some x => obtain ⟨id, e⟩ := x; exact ht
    · rw [he]
      have := hps q (hp_earliest_spec hq).1
      show max t q.done ≤ dl
      omega
    · rw [he]
      have := hps q (hp_earliest_spec hq).1
      exact ih _ _ _ (by omega) (fun p hp => hps p (hp_mem_removeId.mp hp).1)

theorem hp_race_within {timeout dl rd : Nat} (rest : List Addr) (ps : List Pending) (t : Nat)
    (fe : Option (Nat × ConnErr)) (ht : t ≤ dl) (hps : ∀ p ∈ ps, p.done ≤ dl) :
    hp_Within dl (race timeout (some dl) rd rest ps t fe) := by
  induction rest generalizing ps t fe with
  | nil => rw [hp_race_nil]; exact hp_drain_within _ _ _ _ ht hps
  | cons a rest ih =>
    rw [hp_race_cons]
    have hps' : ∀ p ∈ ps ++ [hp_pend timeout (some dl) a t], p.done ≤ dl := by
      intro p hp
      rcases List.mem_append.mp hp with hp | hp
      · exact hps p hp
      · simp only [List.mem_singleton] at hp; subst hp
        exact hp_pend_done_le timeout dl a t ht
    rcases hp_after_cases timeout (some dl) rd rest (ps ++ [hp_pend timeout (some dl) a t]) t fe
      (by simp) with ⟨q, hq, ⟨_, _, he⟩ | ⟨_, e, _, he⟩ | ⟨hc, he⟩⟩
    · rw [he]
      have := hps' q (hp_earliest_spec hq).1
      show max t q.done ≤ dl
      omega
    · rw [he]
      have := hps' q (hp_earliest_spec hq).1
      exact ih _ _ _ (by omega) (fun p hp => hps' p (hp_mem_removeId.mp hp).1)
    · rw [he]
      have := hps' q (hp_earliest_spec hq).1
      exact ih _ _ _ (by omega) hps'

theorem hp_connect_within (addrs : List Addr) (timeout dl rd : Nat) :
    hp_Within dl (connect addrs timeout (some dl) rd) := by
  match addrs with
  | [] => trivial
  | [a] =>
    rw [hp_connect_single]
    have := hp_pend_done_le timeout dl a 0 (Nat.zero_le _)
    split <;> exact this
  | a :: b :: l =>
    rw [hp_connect_race]
    exact hp_race_within _ [] 0 none (Nat.zero_le _) (fun p hp => nomatch hp)

end Happy
end Atto
