/-
  Atto/Lemmas/BufSim.lean — the model of `BufReader` over ANY scripted transport (any split into
  segments, any capacity ≥ 1, interleaved Interrupted errors) simulates the flat stream.
-/
import Atto.Lemmas.BufReaderRefine
import Atto.Lemmas.Sim
namespace Atto

theorem bufSim : Sim bufSrc flatSrc BufR.flat BufR.Ok where
  exact := fun s n h => by
    obtain ⟨h1, h2, h3, _⟩ := readExact_refines s n h
    exact ⟨h1, h2, h3⟩
  until_ := fun s l h => by
    obtain ⟨h1, h2, h3, _⟩ := readUntil_refines s l h
    exact ⟨h1, h2, h3⟩
  size := fun _ _ => rfl

end Atto
