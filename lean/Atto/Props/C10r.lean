/-
  Atto/Props/C10r.lean — a prepared request can be sent again: the only thing a `send` leaves behind in
  the request is the `Host` field of its last connection, and the next `send` overwrites it before
  anything is written. So sending again is the same exchange — same connections, same bytes, same
  outcome — whatever the earlier send did (redirects, proxy decisions, errors).
  (`PreparedRequest::send(&mut self)`: `self.headers` is the state that survives; `self.url`,
  `self.body`, the settings are not written by `send`. Bodies that cannot be written twice are the
  `bodyRewindable = false` case of C10_full_refuted_oneshot.)
-/
import Atto.Model.Send
import Atto.Model.SendT
namespace Atto

/-- `set_host` replaces: what an earlier `set_host` put there is gone -/
theorem setHost_setHost (h : Headers) (a b : Url) : setHost (setHost h a) b = setHost h b := by
  simp only [setHost, Headers.insert, Headers.remove, List.filter_append, List.filter_filter,
    Bool.and_self]
  simp

/-- (r1) the redirect loop does not depend on the `Host` field the header map holds when it starts:
    a header map in which some earlier connection's `Host` has been set gives the same connections,
    the same bytes on each of them and the same outcome -/
theorem C10_loop_forgets_host (s : SendSettings) (req : Req) (cap : Nat) (hops : List Hop)
    (url : Url) (n : Nat) (hdrs : Headers) (first : Bool) (u0 : Url) :
    sendLoop s req cap hops url n (setHost hdrs u0) first = sendLoop s req cap hops url n hdrs first := by
  cases hops with
  | nil => rfl
  | cons hop rest =>
    simp only [sendLoop, setHost_setHost]

/-- (r2) `send` again = `send`: with the header map as ANY earlier send left it (prepared headers with
    the `Host` of that send's last connection), the exchange is the one of a fresh send -/
theorem C10_resend (s : SendSettings) (req : Req) (cap : Nat) (url : Url) (hops : List Hop) (last : Url) :
    sendLoop s req cap hops url 0 (setHost req.headers last) true = send s req cap url hops :=
  C10_loop_forgets_host s req cap hops url 0 req.headers true last

/-- (r3) the same with the requests inside CONNECT tunnels observed (`sendLoopT`) -/
theorem C10_loopT_forgets_host (s : SendSettings) (req : Req) (cap : Nat) (hops : List Hop)
    (url : Url) (n : Nat) (hdrs : Headers) (first : Bool) (u0 : Url) :
    sendLoopT s req cap hops url n (setHost hdrs u0) first = sendLoopT s req cap hops url n hdrs first := by
  cases hops with
  | nil => rfl
  | cons hop rest =>
    simp only [sendLoopT, setHost_setHost]

theorem C10_resendT (s : SendSettings) (req : Req) (cap : Nat) (url : Url) (hops : List Hop) (last : Url) :
    sendLoopT s req cap hops url 0 (setHost req.headers last) true = sendT s req cap url hops :=
  C10_loopT_forgets_host s req cap hops url 0 req.headers true last

/-- non-vacuity: the header map after a send whose last connection went to `b.test` -/
example : setHost (setHost [(hName "accept", str "*/*")]
      { scheme := str "http", user := [], pass := none, host := str "b.test", hostKind := 0, port := none,
        effPort := 80, path := str "/", query := none, fragment := none })
      { scheme := str "http", user := [], pass := none, host := str "a.test", hostKind := 0, port := none,
        effPort := 80, path := str "/", query := none, fragment := none }
    = [(hName "accept", str "*/*"), (hName "host", str "a.test")] := by decide +kernel

end Atto
