/-
  Atto/Lemmas/ChunkBuf.lean — the chunked decoder never holds a buffer proportional to a declared
  chunk size: after every operation `buffer.len() ≤ max(maxBuf, CHUNK_SIZE_LINE_LIMIT)`, whatever
  the peer sends (the size line is read under `Take(CHUNK_SIZE_LINE_LIMIT)`, the data with
  `resize(min(remaining, maxBuf))`).  Proved on the flat stream, lifted to the BufReader model over
  any scripted transport, and along whole read histories.

  NB: must not import `Atto.Lemmas.ChunkedFlat` (name clashes with `HeadFlat`); the two facts on
  `specExact` needed from there are re-proved in `namespace Atto.ChunkBuf`.
-/
import Atto.Model.Body
import Atto.Model.Reads
import Atto.Lemmas.HeadFlat
import Atto.Lemmas.Sim
import Atto.Lemmas.BufSim

namespace Atto.ChunkBuf

/-! ### helper copies (originals live in `Lemmas/ChunkedFlat.lean`) -/

theorem specExact_ok_length (n : Nat) (is : List Item) :
    ∀ bs, (specExact n is).1 = .ok bs → bs.length = n := by
  fun_induction specExact n is with
  | case1 => simp
  | case2 => simp
  | case3 n b is p ih =>
    intro bs h
    simp only at h
    cases hp : p.1 with
    | ok v => rw [hp] at h; simp at h; subst h; simp [ih v hp]
    | _ => rw [hp] at h; simp [RR.map] at h
  | case4 => assumption
  | case5 => simp
  | case6 => simp

/-- `read_line` strips at least the LF. -/
theorem stripEol_length (bs line : Bytes) : stripEol bs = some line → line.length < bs.length := by
  unfold stripEol
  have hlen : bs.reverse.length = bs.length := List.length_reverse
  generalize bs.reverse = rv at hlen
  split
  · intro h
    simp only [Option.some.injEq] at h
    subst h
    simp only [List.length_cons] at hlen
    simp only [List.length_reverse]
    omega
  · intro h
    simp only [Option.some.injEq] at h
    subst h
    simp only [List.length_cons] at hlen
    simp only [List.length_reverse]
    omega
  · intro h; simp at h

/-- A line returned by `read_line` under `Take(l)` is strictly shorter than `l`. -/
theorem readLine_flat_length (r : List Item) (l : Nat) (line : Bytes) :
    (readLine flatSrc r l).1 = .ok line → line.length < l := by
  unfold readLine
  simp only [flatSrc]
  obtain ⟨-, -, h3⟩ := specUntil_mono l r []
  rcases hs : specUntil l r [] with ⟨res, r'⟩
  rw [hs] at h3
  cases res with
  | ok v =>
    obtain ⟨bs, l'⟩ := v
    obtain ⟨more, e1, e2, -⟩ := h3 bs l' rfl
    simp only [List.nil_append] at e1
    subst e1
    simp only
    cases hst : stripEol bs with
    | some ln =>
      simp only [RR.ok.injEq]
      intro h
      subst h
      have := stripEol_length bs ln hst
      omega
    | none => intro h; simp at h
  | err e => intro h; simp at h
  | blocked => intro h; simp at h
  | panic => intro h; simp at h

theorem chunkSizeLineLimit_pos : 0 < Consts.chunkSizeLineLimit := by decide

/-! ### one lemma per layer (flat source) -/

/-- (p5) `read_chunk_size` either leaves the buffer alone or stores a size line that is strictly
    shorter than `CHUNK_SIZE_LINE_LIMIT`. -/
theorem readChunkSize_buffer (c : Chunked (List Item)) :
    (c.readChunkSize flatSrc).2.buffer.length < Consts.chunkSizeLineLimit ∨
    (c.readChunkSize flatSrc).2.buffer = c.buffer := by
  unfold Chunked.readChunkSize
  have hl := readLine_flat_length c.inner Consts.chunkSizeLineLimit
  rcases h : readLine flatSrc c.inner Consts.chunkSizeLineLimit with ⟨res, r'⟩
  rw [h] at hl
  cases res with
  | ok line =>
    have := hl line rfl
    left
    simp only
    split
    · exact this
    · split <;> exact this
  | err e => right; rfl
  | blocked => right; rfl
  | panic => right; rfl

/-- the data part of a refill stores at most `maxBuf` bytes, or leaves the buffer alone -/
theorem refillData_buffer (c : Chunked (List Item)) (maxBuf : Nat) :
    (c.refillData flatSrc maxBuf).2.buffer.length ≤ maxBuf ∨
    (c.refillData flatSrc maxBuf).2.buffer = c.buffer := by
  unfold Chunked.refillData
  rcases h : flatSrc.readExact c.inner (min c.remaining maxBuf) with ⟨res, r'⟩
  cases res with
  | ok bs =>
    have hl : bs.length = min c.remaining maxBuf :=
      specExact_ok_length _ _ _ (show (specExact (min c.remaining maxBuf) c.inner).1 = .ok bs by
        have := congrArg Prod.fst h; simpa [flatSrc] using this)
    have hle : bs.length ≤ maxBuf := by omega
    simp only
    split
    · right; rfl
    · split
      · rcases chunkEnd flatSrc c.reachedEof r' with ⟨res2, r''⟩
        cases res2 with
        | ok b => cases b <;> left <;> simp [hle]
        | err e => left; exact hle
        | blocked => left; exact hle
        | panic => left; exact hle
      · left; exact hle
  | err e => right; rfl
  | blocked => right; rfl
  | panic => right; rfl

theorem refill_buffer (c : Chunked (List Item)) (maxBuf : Nat) :
    (c.refill flatSrc maxBuf).2.buffer.length ≤ max maxBuf Consts.chunkSizeLineLimit ∨
    (c.refill flatSrc maxBuf).2.buffer = c.buffer := by
  unfold Chunked.refill
  split
  · have h1 := readChunkSize_buffer c
    rcases h : c.readChunkSize flatSrc with ⟨res, c'⟩
    rw [h] at h1
    simp only at h1
    cases res with
    | ok n =>
      simp only
      have h2 := refillData_buffer
        { c' with remaining := n, reachedEof := c'.reachedEof || n == 0 } maxBuf
      simp only at h2
      rcases h2 with h2 | h2
      · left; omega
      · rw [h2]
        rcases h1 with h1 | h1
        · left; omega
        · right; exact h1
    | err e => simp only; rcases h1 with h1 | h1; (left; omega); (right; exact h1)
    | blocked => simp only; rcases h1 with h1 | h1; (left; omega); (right; exact h1)
    | panic => simp only; rcases h1 with h1 | h1; (left; omega); (right; exact h1)
  · rcases refillData_buffer c maxBuf with h | h
    · left; omega
    · right; exact h

theorem fillBuf_buffer (c : Chunked (List Item)) (maxBuf : Nat) :
    (c.fillBuf flatSrc maxBuf).2.buffer.length ≤ max maxBuf Consts.chunkSizeLineLimit ∨
    (c.fillBuf flatSrc maxBuf).2.buffer = c.buffer := by
  unfold Chunked.fillBuf
  by_cases hf : c.failed = true
  · rw [if_pos hf]; right; rfl
  · rw [if_neg hf]
    by_cases hc : c.buffer.length = c.consumed ∧ ¬ (c.remaining = 0 ∧ c.reachedEof = true)
    · simp only [if_pos hc]
      have h1 := refill_buffer c maxBuf
      rcases h : c.refill flatSrc maxBuf with ⟨res, c'⟩
      rw [h] at h1
      simp only at h1
      cases res with
      | ok u =>
        simp only
        split <;> exact h1
      | err e => left; simp
      | blocked => left; simp
      | panic => exact h1
    · simp only [if_neg hc]
      split <;> (right; rfl)

theorem read_buffer (c : Chunked (List Item)) (maxBuf n : Nat) :
    (c.read flatSrc maxBuf n).2.buffer.length ≤ max maxBuf Consts.chunkSizeLineLimit ∨
    (c.read flatSrc maxBuf n).2.buffer = c.buffer := by
  unfold Chunked.read
  have h1 := fillBuf_buffer c maxBuf
  rcases h : c.fillBuf flatSrc maxBuf with ⟨res, c'⟩
  rw [h] at h1
  simp only at h1
  cases res with
  | ok av => simpa [Chunked.consume] using h1
  | err e => exact h1
  | blocked => exact h1
  | panic => exact h1

theorem mapInner_buffer {σ τ : Type} (f : σ → τ) (c : Chunked σ) :
    (c.mapInner f).buffer = c.buffer := rfl

end Atto.ChunkBuf

namespace Atto
open ChunkBuf

/-! ### the invariant, layer by layer -/

theorem Chunked.readChunkSize_buffer_bounded_flat (c : Chunked (List Item)) (maxBuf : Nat) :
    c.buffer.length ≤ max maxBuf Consts.chunkSizeLineLimit →
    (c.readChunkSize flatSrc).2.buffer.length ≤ max maxBuf Consts.chunkSizeLineLimit := by
  intro hb
  rcases readChunkSize_buffer c with h | h
  · omega
  · rw [h]; exact hb

/-- (p5) the size line kept in the buffer is strictly shorter than `CHUNK_SIZE_LINE_LIMIT`. -/
theorem Chunked.readChunkSize_buffer_strict_flat (c : Chunked (List Item)) :
    (c.readChunkSize flatSrc).2.buffer.length < Consts.chunkSizeLineLimit ∨
    (c.readChunkSize flatSrc).2.buffer = c.buffer :=
  readChunkSize_buffer c

/-- (p5') when `read_chunk_size` succeeds the buffer *is* the size line, `< CHUNK_SIZE_LINE_LIMIT`. -/
theorem Chunked.readChunkSize_ok_buffer_strict_flat (c : Chunked (List Item)) (n : Nat) :
    (c.readChunkSize flatSrc).1 = .ok n →
    (c.readChunkSize flatSrc).2.buffer.length < Consts.chunkSizeLineLimit := by
  unfold Chunked.readChunkSize
  have hl := readLine_flat_length c.inner Consts.chunkSizeLineLimit
  rcases h : readLine flatSrc c.inner Consts.chunkSizeLineLimit with ⟨res, r'⟩
  rw [h] at hl
  cases res with
  | ok line =>
    have := hl line rfl
    intro _
    simp only
    split
    · exact this
    · split <;> exact this
  | err e => intro h; simp at h
  | blocked => intro h; simp at h
  | panic => intro h; simp at h

theorem Chunked.refillData_buffer_bounded_flat (c : Chunked (List Item)) (maxBuf : Nat) :
    c.buffer.length ≤ max maxBuf Consts.chunkSizeLineLimit →
    (c.refillData flatSrc maxBuf).2.buffer.length ≤ max maxBuf Consts.chunkSizeLineLimit := by
  intro hb
  rcases refillData_buffer c maxBuf with h | h
  · omega
  · rw [h]; exact hb

theorem Chunked.refill_buffer_bounded_flat (c : Chunked (List Item)) (maxBuf : Nat) :
    c.buffer.length ≤ max maxBuf Consts.chunkSizeLineLimit →
    (c.refill flatSrc maxBuf).2.buffer.length ≤ max maxBuf Consts.chunkSizeLineLimit := by
  intro hb
  rcases refill_buffer c maxBuf with h | h
  · exact h
  · rw [h]; exact hb

theorem Chunked.fillBuf_buffer_bounded_flat (c : Chunked (List Item)) (maxBuf : Nat) :
    c.buffer.length ≤ max maxBuf Consts.chunkSizeLineLimit →
    (c.fillBuf flatSrc maxBuf).2.buffer.length ≤ max maxBuf Consts.chunkSizeLineLimit := by
  intro hb
  rcases fillBuf_buffer c maxBuf with h | h
  · exact h
  · rw [h]; exact hb

/-- (p1) one `read` on the flat stream preserves `buffer.len() ≤ max(maxBuf, CHUNK_SIZE_LINE_LIMIT)`. -/
theorem Chunked.read_buffer_bounded_flat (c : Chunked (List Item)) (maxBuf n : Nat) :
    c.buffer.length ≤ max maxBuf Consts.chunkSizeLineLimit →
    (c.read flatSrc maxBuf n).2.buffer.length ≤ max maxBuf Consts.chunkSizeLineLimit := by
  intro hb
  rcases read_buffer c maxBuf n with h | h
  · exact h
  · rw [h]; exact hb

/-- (p2) the property as stated: from a buffer of at most `maxBuf` bytes. -/
theorem Chunked.read_buffer_bounded_flat' (c : Chunked (List Item)) (maxBuf n : Nat) :
    c.buffer.length ≤ maxBuf →
    (c.read flatSrc maxBuf n).2.buffer.length ≤ max maxBuf Consts.chunkSizeLineLimit := by
  intro hb
  exact Chunked.read_buffer_bounded_flat c maxBuf n (by omega)

/-- A fresh decoder (`ChunkedReader::new`) satisfies the invariant. -/
theorem Chunked.fresh_buffer_bounded {σ : Type} (r : σ) (maxBuf : Nat) :
    ({ inner := r } : Chunked σ).buffer.length ≤ max maxBuf Consts.chunkSizeLineLimit := by
  simp

/-! ### lift to the BufReader model over any scripted transport -/

/-- (p3) one `read` through the BufReader model (any segmentation, any capacity ≥ 1). -/
theorem Chunked.read_buffer_bounded_buf (c : Chunked BufR) (maxBuf n : Nat) :
    c.inner.Ok → c.buffer.length ≤ max maxBuf Consts.chunkSizeLineLimit →
    (c.read bufSrc maxBuf n).2.buffer.length ≤ max maxBuf Consts.chunkSizeLineLimit ∧
    (c.read bufSrc maxBuf n).2.inner.Ok := by
  intro hOk hb
  obtain ⟨-, h2, h3⟩ := Chunked.read_sim bufSim c maxBuf n hOk
  refine ⟨?_, h3⟩
  have hflat := Chunked.read_buffer_bounded_flat (c.mapInner BufR.flat) maxBuf n hb
  rw [← h2] at hflat
  exact hflat

/-! ### along a whole read history -/

/-- (p4) the invariant holds after any sequence of reads on the flat stream. -/
theorem readsC_buffer_bounded_flat (maxBuf : Nat) (ns : List Nat) (c : Chunked (List Item)) :
    c.buffer.length ≤ max maxBuf Consts.chunkSizeLineLimit →
    (readsC flatSrc maxBuf ns c).2.buffer.length ≤ max maxBuf Consts.chunkSizeLineLimit := by
  induction ns generalizing c with
  | nil => intro hb; exact hb
  | cons n ns ih =>
    intro hb
    have h1 := Chunked.read_buffer_bounded_flat c maxBuf n hb
    simp only [readsC]
    rcases h : c.read flatSrc maxBuf n with ⟨res, c'⟩
    rw [h] at h1
    exact ih c' h1

/-- (p4, real pipeline) the invariant holds after any sequence of reads through the BufReader model. -/
theorem readsC_buffer_bounded_buf (maxBuf : Nat) (ns : List Nat) (c : Chunked BufR) :
    c.inner.Ok → c.buffer.length ≤ max maxBuf Consts.chunkSizeLineLimit →
    (readsC bufSrc maxBuf ns c).2.buffer.length ≤ max maxBuf Consts.chunkSizeLineLimit ∧
    (readsC bufSrc maxBuf ns c).2.inner.Ok := by
  induction ns generalizing c with
  | nil => intro hOk hb; exact ⟨hb, hOk⟩
  | cons n ns ih =>
    intro hOk hb
    have h1 := Chunked.read_buffer_bounded_buf c maxBuf n hOk hb
    simp only [readsC]
    rcases h : c.read bufSrc maxBuf n with ⟨res, c'⟩
    rw [h] at h1
    exact ih c' h1.2 h1.1

/-- With the production constant: a decoder created by `ChunkedReader::new` over a healthy
    BufReader never holds more than `max(MAX_BUFFER_LEN, CHUNK_SIZE_LINE_LIMIT)` bytes. -/
theorem readsC_fresh_buffer_bounded_buf (ns : List Nat) (r : BufR) : r.Ok →
    (readsC bufSrc Consts.maxBufferLen ns { inner := r }).2.buffer.length ≤
      max Consts.maxBufferLen Consts.chunkSizeLineLimit := by
  intro hOk
  exact (readsC_buffer_bounded_buf Consts.maxBufferLen ns { inner := r } hOk
    (Chunked.fresh_buffer_bounded r _)).1

end Atto
