#!/usr/bin/env python3
"""usage: seed_update.py <seed-id> "<checks run>" "<new result line(s)>" "<history note>"
records a re-run after a strengthening: the previous verdict moves to first_check_result"""
import json, sys
sid, ran, result, hist = sys.argv[1:5]
p = "/verif/seeded/%s/meta.json" % sid
m = json.load(open(p))
if "first_check_result" not in m:
    m["first_check_result"] = m["check_result"]
m["checks_run"] = ran
m["check_result"] = result.strip().splitlines()
m["detected"] = "VIOLATION" in result
m["history"] = hist
json.dump(m, open(p, "w"), indent=1)
print(sid, "detected" if m["detected"] else "MISSED")
