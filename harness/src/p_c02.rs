//! C02 — incomplete or corrupt framing never reads as complete; no bytes are fabricated.
use crate::case::{Case, Sink};
use crate::resp::{run_resp, Ev, HeadOut, Reads, RespCase, RespOut};
use crate::respgen::*;
use crate::rng::Rng;
use crate::script::Seg;
use crate::spec::{self, Decoded, End};

pub struct Mutated {
    pub kind: &'static str,
    pub segs: Vec<Seg>,
    /// flat bytes that arrive (errors removed)
    pub arrived: Vec<u8>,
    /// offset in `arrived` of an injected error and its kind
    pub err_at: Option<(usize, u8)>,
}

/// what the spec says about the arrived bytes
pub fn expected(spec_: &RespSpec, arrived: &[u8], head_len: usize, limits: (usize,)) -> Option<Decoded> {
    if arrived.len() < head_len {
        return None; // head incomplete
    }
    let body = &arrived[head_len..];
    Some(match &spec_.body {
        BodySpec::Chunked { .. } => spec::decode_chunked(body, limits.0),
        BodySpec::Length(b) => spec::decode_length(body, b.len()),
        BodySpec::Close(_) => spec::decode_close(body),
    })
}

pub fn oracle(spec_: &RespSpec, m: &Mutated, head_len: usize, case: &RespCase, out: &RespOut, line_limit: usize) -> Result<(), (String, String)> {
    if let Reads::BufOps(ops) = &case.reads {
        // the BufRead view: judged as the equivalent sequence of reads
        if out.events.iter().any(|e| matches!(e, Ev::Panic)) {
            return Err((format!("panic-{}-{}", spec_.framing_name(), m.kind), "the call panicked".into()));
        }
        let (ns, evs, tracked) = crate::bufview::convert(ops, &out.events)?;
        let case2 = RespCase { reads: Reads::Sizes(ns), ..case.clone() };
        let mut out2 = out.clone();
        out2.events = evs;
        return oracle_ex(spec_, m, head_len, &case2, &out2, line_limit, tracked);
    }
    oracle_ex(spec_, m, head_len, case, out, line_limit, true)
}

/// `judge_end`: the schedule is known to run to the end of the body (drained or failed)
pub fn oracle_ex(spec_: &RespSpec, m: &Mutated, head_len: usize, case: &RespCase, out: &RespOut, line_limit: usize, judge_end: bool) -> Result<(), (String, String)> {
    let fr = spec_.framing_name();
    let tag = format!("{}-{}", fr, m.kind);
    if matches!(out.head, HeadOut::Panic) || out.events.iter().any(|e| matches!(e, Ev::Panic)) {
        return Err((format!("panic-{}", tag), "the call panicked".into()));
    }
    let exp = match expected(spec_, &m.arrived, head_len, (line_limit,)) {
        None => {
            // cut inside the head: send() must not succeed
            return match &out.head {
                HeadOut::Ok(_) => Err((format!("head-accepted-{}", tag), "send() succeeded although the head was cut".into())),
                _ => Ok(()),
            };
        }
        Some(e) => e,
    };
    let err_in_head = matches!(m.err_at, Some((off, k)) if off < head_len && k != 0);
    match &out.head {
        HeadOut::Ok(_) if err_in_head => {
            return Err((format!("head-error-swallowed-{}", tag), "an I/O error inside the head did not fail send()".into()));
        }
        HeadOut::Ok(_) => {}
        _ if err_in_head => return Ok(()),
        h => return Err((format!("head-rejected-{}", tag), format!("send() gave {:?} although the head is intact", h))),
    }
    let complete = matches!(exp.end, End::Complete(_));
    let frame_end = match exp.end {
        End::Complete(n) => head_len + n,
        _ => usize::MAX,
    };
    // an injected (non-Interrupted) error strictly inside the frame must surface
    let err_inside = matches!(m.err_at, Some((off, k)) if k != 0 && off < frame_end && off >= head_len);
    let mut got: Vec<u8> = vec![];
    let mut saw_err = false;
    let ns: Vec<usize> = match &case.reads {
        Reads::Sizes(ns) => ns.clone(),
        Reads::BufOps(_) => unreachable!(),
        Reads::Drain(_) | Reads::Text(_) => vec![usize::MAX],
    };
    for (i, ev) in out.events.iter().enumerate() {
        match ev {
            // the text family returns the DECODING of what it read: only its verdict is judged here
            Ev::Ok(_) if matches!(&case.reads, Reads::Drain(h) if crate::resp::is_text_drain(*h)) => {
                if !complete {
                    return Err((format!("clean-eof-{}", tag), format!("text() / text_with() / text_reader() / text_utf8() returned Ok although the frame is {:?} with {} payload bytes", exp.end, exp.payload.len())));
                }
                got = exp.payload.clone();
            }
            Ev::Ok(bs) => {
                got.extend_from_slice(bs);
                if !exp.payload.starts_with(&got) {
                    return Err((format!("fabricated-{}", tag), format!("after event #{} the delivered bytes ({} B) are not a prefix of the payload that arrived ({} B)", i, got.len(), exp.payload.len())));
                }
                let is_eof_signal = match &case.reads {
                    Reads::Drain(_) | Reads::Text(_) => true,
                    Reads::Sizes(_) | Reads::BufOps(_) => bs.is_empty() && ns[i] > 0,
                };
                if is_eof_signal && !(complete && got.len() == exp.payload.len()) {
                    return Err((format!("clean-eof-{}", tag), format!("end of body signalled (event #{}) after {} bytes although the frame is {:?} with {} payload bytes", i, got.len(), exp.end, exp.payload.len())));
                }
            }
            Ev::Err(k) if k == "io0" => {} // Interrupted: a retry signal, not an end
            Ev::Err(_) | Ev::Blocked => saw_err = true,
            Ev::Panic | Ev::Peek(_) | Ev::Consumed => unreachable!(),
        }
    }
    // what write_to() had put into the caller's sink when it failed is handed out too
    if !out.partial.is_empty() && !exp.payload.starts_with(&out.partial) {
        return Err((format!("fabricated-{}", tag), format!("write_to() wrote {} bytes that are not a prefix of the payload that arrived ({} B)", out.partial.len(), exp.payload.len())));
    }
    if !judge_end {
        return Ok(());
    }
    if (!complete || err_inside) && !saw_err {
        return Err((format!("no-error-{}", tag), format!("schedule drained without any error although frame is {:?} / injected error inside the frame: {}", exp.end, err_inside)));
    }
    if complete && m.err_at.map_or(true, |(_, k)| k == 0) && got != exp.payload {
        return Err((format!("incomplete-{}", tag), format!("complete frame but only {} of {} bytes delivered", got.len(), exp.payload.len())));
    }
    Ok(())
}

pub fn flat(segs: &[Seg]) -> Vec<u8> {
    let mut v = vec![];
    for s in segs {
        if let Seg::Data(d) = s {
            v.extend_from_slice(d);
        }
    }
    v
}

/// split the data segments at flat offset `off` and insert `ins` there; drop everything after if `cut`
pub fn splice(segs: &[Seg], off: usize, ins: Option<Seg>, cut: bool) -> Vec<Seg> {
    let mut out = vec![];
    let mut pos = 0;
    let mut done = false;
    for s in segs {
        if done {
            if !cut {
                out.push(s.clone());
            }
            continue;
        }
        match s {
            Seg::Data(d) => {
                if pos + d.len() <= off {
                    out.push(s.clone());
                    pos += d.len();
                    if pos == off {
                        // insertion exactly at a segment boundary
                        if let Some(i) = ins.clone() {
                            out.push(i);
                        }
                        done = true;
                    }
                } else {
                    let k = off - pos;
                    if k > 0 {
                        out.push(Seg::Data(d[..k].to_vec()));
                    }
                    if let Some(i) = ins.clone() {
                        out.push(i);
                    }
                    if !cut {
                        out.push(Seg::Data(d[k..].to_vec()));
                    }
                    done = true;
                }
            }
            other => out.push(other.clone()),
        }
    }
    if !done {
        if let Some(i) = ins {
            out.push(i);
        }
    }
    out
}

/// offsets (in wire) of chunk-framing bytes: size digits, CR/LF of size lines and after data
pub fn framing_offsets(spec_: &RespSpec, head_len: usize) -> Vec<usize> {
    let mut v = vec![];
    if let BodySpec::Chunked { chunks, last_repr, last_ext, trailers } = &spec_.body {
        let mut off = head_len;
        for c in chunks {
            for i in 0..c.size_repr.len() {
                v.push(off + i);
            }
            off += c.size_repr.len() + c.ext.len();
            v.push(off);
            v.push(off + 1);
            off += 2 + c.data.len();
            v.push(off);
            v.push(off + 1);
            off += 2;
        }
        for i in 0..last_repr.len() {
            v.push(off + i);
        }
        off += last_repr.len() + last_ext.len();
        v.push(off);
        v.push(off + 1);
        off += 2;
        for t in trailers {
            if !t.is_empty() {
                v.push(off);
                v.push(off + t.len() / 2);
            }
            off += t.len();
            v.push(off);
            v.push(off + 1);
            off += 2;
        }
        v.push(off);
        v.push(off + 1);
    }
    v
}

/// A response whose body was abandoned part-way (a few reads, then dropped), then — on the same thread — a
/// response that is cut: nothing of the first may turn up as data of the second, and the cut is still an error
/// (seeds C01-seed9 / C02-seed9: a chunk buffer recycled through a thread-local).
fn abandoned_then_cut(rng: &mut Rng, thorough: bool, sink: &mut Sink) {
    let line_limit = crate::consts().chunk_size_line_limit;
    let rounds = if thorough { 30 } else { 4 };
    for _ in 0..rounds {
        for fa in 0..3u64 {
            for fb in 0..3u64 {
                let big = fa == 0 && rng.chance(1, 3);
                let a = gen_valid(rng, fa, big);
                if a.payload().len() < 2 {
                    continue;
                }
                let take = 1 + rng.below(a.payload().len() as u64 - 1) as usize;
                let ca = RespCase { method: "GET".into(), max_headers: 100, segs: vec![Seg::Data(a.wire())], reads: Reads::Sizes(vec![take.min(5), take]) };
                let _ = run_resp(&ca);
                // the second response: cut right behind its head, or somewhere in its frame
                let b = gen_valid(rng, fb, false);
                let wire = b.wire();
                let head_len = b.head_bytes().len();
                let frame_len = head_len + b.body_bytes().len();
                let p = if rng.chance(1, 2) || frame_len == head_len { head_len } else { head_len + rng.below((frame_len - head_len) as u64) as usize };
                let (segs, _) = segment(rng, &wire[..p], &interesting_offsets(&wire[..p], head_len.min(p)));
                let m = Mutated { kind: "cut-after-abandoned", arrived: wire[..p].to_vec(), segs: segs.clone(), err_at: None };
                let reads = if rng.chance(1, 3) {
                    Reads::Drain(crate::resp::DRAIN_BYTES)
                } else {
                    // (a schedule that takes every piece that arrived and then sees how the body ends)
                    let (ns, _) = read_schedule(rng, p.saturating_sub(head_len).min(4000), crate::p_c01::pieces(&b, segs.len(), crate::resp::max_buffer_len()));
                    Reads::Sizes(ns)
                };
                let case = RespCase { method: "GET".into(), max_headers: 100, segs, reads };
                let out = run_resp(&case);
                let o = oracle(&b, &m, head_len, &case, &out, line_limit);
                sink.push(Case {
                    tags: vec![format!("framing={}", b.framing_name()), "mut=cut-after-abandoned".into(), format!("at={}", if p == head_len { "after-head" } else { "in-frame" }), format!("previous={}", a.framing_name())],
                    op: case.op_line(),
                    impl_line: out.line(),
                    oracle: o,
                });
            }
        }
    }
}

pub fn generate(seed: u64, tier: &str, sink: &mut Sink) {
    abandoned_then_cut(&mut Rng::new(seed ^ 0xC02A), tier == "thorough", sink);
    let mut rng = Rng::new(seed ^ 0xC02);
    let thorough = tier == "thorough";
    let n_base = if thorough { 6000 } else { 500 };
    let max_buf = crate::resp::max_buffer_len();
    let line_limit = crate::consts().chunk_size_line_limit;
    for i in 0..n_base {
        let framing = i % 3;
        let big = rng.chance(1, 15);
        let spec_ = gen_valid(&mut rng, framing as u64, big);
        let wire = spec_.wire();
        let head_len = spec_.head_bytes().len();
        let frame_len = head_len + spec_.body_bytes().len();
        let (base_segs, segname) = segment(&mut rng, &wire, &interesting_offsets(&wire, head_len));
        // mutation points: all offsets for small wires (thorough), a sample otherwise
        let mut points: Vec<usize> = vec![];
        let budget = if thorough { 48 } else { 10 };
        if wire.len() <= budget {
            points = (0..wire.len()).collect();
        } else {
            // bias: head/body boundary, chunk framing bytes, then random
            let mut cands = framing_offsets(&spec_, head_len);
            cands.push(head_len);
            cands.push(head_len.saturating_sub(1));
            cands.push(frame_len.saturating_sub(1));
            cands.push(frame_len);
            while points.len() < budget {
                let p = if !cands.is_empty() && rng.chance(1, 2) {
                    *rng.pick(&cands)
                } else {
                    rng.below(wire.len() as u64) as usize
                };
                if p < wire.len() {
                    points.push(p);
                }
            }
            points.sort_unstable();
            points.dedup();
        }
        for &p in &points {
            let mut muts: Vec<Mutated> = vec![];
            // (i) connection drop at p
            let segs = splice(&base_segs, p, None, true);
            muts.push(Mutated { kind: "cut", arrived: flat(&segs), segs, err_at: None });
            // (ii) I/O error at p, then either silence (EOF) or the rest arrives
            let k = *rng.pick(&[0u8, 1, 2, 3]);
            let resume = rng.chance(1, 2);
            let segs = splice(&base_segs, p, Some(Seg::Err(k)), !resume);
            muts.push(Mutated {
                kind: match (k, resume) {
                    (0, _) => "interrupted",
                    (_, true) => "ioerr-resume",
                    (_, false) => "ioerr-dead",
                },
                arrived: flat(&segs),
                segs,
                err_at: Some((p, k)),
            });
            // (iii) corruption of a chunk-framing byte
            if matches!(spec_.body, BodySpec::Chunked { .. }) && p >= head_len && framing_offsets(&spec_, head_len).contains(&p) {
                let mut w2 = wire.clone();
                let repl = *rng.pick(&[b'x', b'g', b' ', b'\n', b'\r', b'0', b'1', b'f', b';', 0u8, 0xffu8]);
                if w2[p] != repl {
                    w2[p] = repl;
                    let (segs, _) = segment(&mut rng, &w2, &interesting_offsets(&w2, head_len));
                    muts.push(Mutated { kind: "corrupt", arrived: w2, segs, err_at: None });
                }
            }
            for m in muts {
                let payload_len = m.arrived.len();
                let reads = if rng.chance(1, 3) {
                    // every convenience reader in turn: a cut body is an error through each of them
                    Reads::Drain(*rng.pick(&[
                        crate::resp::DRAIN_BYTES,
                        crate::resp::DRAIN_WRITE_TO,
                        crate::resp::DRAIN_SPLIT,
                        crate::resp::DRAIN_TEXT,
                        crate::resp::DRAIN_TEXT_WITH,
                        crate::resp::DRAIN_TEXT_READER,
                        crate::resp::DRAIN_TEXT_UTF8,
                    ]))
                } else if rng.chance(1, 5) {
                    // the BufRead view of the body reader (what the content decoders drive), mixed with read()
                    let tail = crate::p_c01::pieces(&spec_, m.segs.len(), max_buf) + payload_len / 8192 + 3;
                    Reads::BufOps(crate::bufview::gen_ops(&mut rng, payload_len.min(4000), tail).0)
                } else {
                    let (ns, _) = read_schedule(&mut rng, payload_len.min(4000), crate::p_c01::pieces(&spec_, m.segs.len(), max_buf));
                    Reads::Sizes(ns)
                };
                let case = RespCase { method: "GET".into(), max_headers: 100, segs: m.segs.clone(), reads };
                let out = run_resp(&case);
                let o = oracle(&spec_, &m, head_len, &case, &out, line_limit);
                let region = if p < head_len { "in-head" } else if p < frame_len { "in-frame" } else { "after-frame" };
                sink.push(Case {
                    tags: vec![
                        format!("framing={}", spec_.framing_name()),
                        format!("mut={}", m.kind),
                        format!("at={}", region),
                        format!("seg={}", segname),
                        format!("reads={}", match case.reads { Reads::Drain(_) => "bytes()", Reads::BufOps(_) => "bufview", _ => "sizes" }),
                    ],
                    op: case.op_line(),
                    impl_line: out.line(),
                    oracle: o,
                });
            }
        }
    }
    // the streaming text reader after transport errors: what it hands out, before and after an error, is a prefix
    // of the decoded text (its small-read staging buffer must not hand anything out twice)
    crate::p_c18::stage_cases(&mut Rng::new(seed ^ 0xC025), if thorough { 3000 } else { 300 }, true, sink);
    // the JSON readers: `json()` / `json_utf8()` stop parsing at the end of the document — they must still not
    // return Ok unless the framing behind the document is complete (terminating chunk and its final line ending,
    // trailer section, outstanding Content-Length octets)
    let docs: [&[u8]; 3] = [b"{\"a\":[1,2,3],\"b\":\"x\"}", b"[true,null,{\"k\":\"v\"}]", b"\"just a string\""];
    for (di, doc) in docs.iter().enumerate() {
        for framing in 0..3 {
            let body = match framing {
                0 => BodySpec::Chunked { chunks: vec![Chunk { data: doc.to_vec(), size_repr: format!("{:x}", doc.len()).into_bytes(), ext: vec![] }], last_repr: b"0".to_vec(), last_ext: vec![], trailers: vec![] },
                1 => {
                    let k = doc.len() / 2;
                    BodySpec::Chunked {
                        chunks: vec![Chunk { data: doc[..k].to_vec(), size_repr: format!("{:x}", k).into_bytes(), ext: vec![] }, Chunk { data: doc[k..].to_vec(), size_repr: format!("{:X}", doc.len() - k).into_bytes(), ext: b";x".to_vec() }],
                        last_repr: b"00".to_vec(),
                        last_ext: vec![],
                        trailers: vec![b"X-Sum: 1".to_vec()],
                    }
                }
                _ => BodySpec::Length(doc.to_vec()),
            };
            let spec_ = RespSpec { version: b"HTTP/1.1".to_vec(), status: 200, reason: b"OK".to_vec(), fields: vec![(b"Content-Type".to_vec(), b" application/json".to_vec())], te_name: b"Transfer-Encoding".to_vec(), te_value: b"chunked".to_vec(), body, trail: vec![] };
            let wire = spec_.wire();
            let head_len = spec_.head_bytes().len();
            let base_segs = vec![Seg::Data(wire.clone())];
            // every cut from the middle of the document to the end of the frame, and the complete frame
            for p in (head_len + doc.len() / 2)..=wire.len() {
                let segs = if p == wire.len() { base_segs.clone() } else { splice(&base_segs, p, None, true) };
                let m = Mutated { kind: if p == wire.len() { "none" } else { "cut" }, arrived: flat(&segs), segs, err_at: None };
                let how = if (p + di) % 2 == 0 { crate::resp::DRAIN_JSON } else { crate::resp::DRAIN_JSON_UTF8 };
                let case = RespCase { method: "GET".into(), max_headers: 100, segs: m.segs.clone(), reads: Reads::Drain(how) };
                let out = run_resp(&case);
                let o = oracle(&spec_, &m, head_len, &case, &out, line_limit);
                sink.push(Case {
                    tags: vec![format!("framing={}", spec_.framing_name()), format!("mut={}", m.kind), "at=behind-json-document".into(), "seg=one".into(), "reads=json()".into()],
                    op: case.op_line(),
                    impl_line: out.line(),
                    oracle: o,
                });
            }
        }
    }
    coded_frames_cut(&mut rng, thorough, sink);
}

/// The framing layer reports a frame that was cut; a content decoder sits between it and the caller. A gzip- or
/// deflate-coded body whose FRAME is incomplete — the connection closed before the Content-Length octets
/// arrived (at the very first of them included), inside the first chunk, inside a chunk-size line, before the
/// last chunk — is never reported as cleanly finished either, and what was handed out is a prefix of the
/// decoded payload (seed C02-seed11: the decoder layer turned the frame's UnexpectedEof into Ok(0) as long as
/// the decoder had not been fed).
fn coded_frames_cut(rng: &mut Rng, thorough: bool, sink: &mut Sink) {
    use crate::delivery;
    let n = if thorough { 4000 } else { 400 };
    for i in 0..n {
        let len = *rng.pick(&[0usize, 1, 20, 300, 5000, 70_000]);
        let data: Vec<u8> = (0..len).map(|k| if rng.chance(1, 3) { rng.below(256) as u8 } else { b"abcdefgh "[k % 9] }).collect();
        let gz = i % 2 == 0;
        let coded = if gz { crate::p_c06::gzip(&data, rng.below(10) as u32, rng) } else { crate::p_c06::deflate(&data, rng.below(10) as u32) };
        let mut head = b"HTTP/1.1 200 OK\r\n".to_vec();
        head.extend_from_slice(if gz { b"Content-Encoding: gzip\r\n" } else { b"Content-Encoding: deflate\r\n" });
        let framing = rng.below(3);
        let mut body = vec![];
        let mut first_chunk_end = 0usize;
        let mut npieces = 1usize;
        match framing {
            0 => {
                head.extend_from_slice(format!("Content-Length: {}\r\n", coded.len()).as_bytes());
                body = coded.clone();
            }
            _ => {
                head.extend_from_slice(b"Transfer-Encoding: chunked\r\n");
                // one chunk for the whole stream (what most servers send for a small response), or several
                let pieces: Vec<&[u8]> = if framing == 1 { vec![&coded[..]] } else { coded.chunks(rng.range(1, 4000) as usize).collect() };
                npieces = pieces.len();
                for (k, pc) in pieces.iter().enumerate() {
                    body.extend_from_slice(format!("{:x}\r\n", pc.len()).as_bytes());
                    body.extend_from_slice(pc);
                    body.extend_from_slice(b"\r\n");
                    if k == 0 {
                        first_chunk_end = body.len();
                    }
                }
                body.extend_from_slice(b"0\r\n\r\n");
            }
        }
        head.extend_from_slice(b"\r\n");
        // where the connection closes: before the first body byte, inside the first chunk (or the first octets),
        // anywhere, just before the end
        let cut = match rng.below(5) {
            0 => 0,
            1 => rng.below(first_chunk_end.max(body.len().min(16)).max(1) as u64) as usize,
            2 => body.len() - 1,
            3 => body.len().saturating_sub(1 + rng.below(5) as usize),
            _ => rng.below(body.len() as u64) as usize,
        };
        let mut wire = head.clone();
        wire.extend_from_slice(&body[..cut]);
        let (mut segs, segname) = crate::respgen::segment(rng, &wire, &crate::respgen::interesting_offsets(&wire, head.len()));
        // one case in three: the peer does not close, the read runs into the read timeout (and the peer stays
        // silent) — no more a clean end than a close (seed C02-seed13: a timeout behind the end of the compressed
        // stream read as the end of the body)
        if i % 3 == 2 {
            segs.push(Seg::Err(*rng.pick(&[1u8, 2])));
            segs.push(Seg::Pause);
        }
        let reads = match rng.below(4) {
            0 => Reads::Drain(crate::resp::DRAIN_BYTES),
            1 => Reads::Drain(8192),
            // (every read may hand out as little as one segment's or one chunk's worth)
            2 => Reads::Sizes(vec![1 << 16; segs.len() + npieces + 12 + len / 8192]),
            _ => Reads::Sizes(vec![100; segs.len() + npieces + len / 100 + 12]),
        };
        let case = RespCase { method: "GET".into(), max_headers: 100, segs, reads };
        let out = run_resp(&case);
        let tag = format!("{}-frame-cut", if gz { "gzip" } else { "deflate" });
        let o: Result<(), (String, String)> = (|| {
            match &out.head {
                HeadOut::Ok(200) => {}
                HeadOut::Panic => return Err(("panic".into(), "panic in send()".into())),
                // (the gzip decoder reads the stream's header eagerly: an error in send() is a refusal, too)
                HeadOut::Err(_) => return Ok(()),
                h => return Err((format!("head-{}", tag), format!("{:?}", h))),
            }
            let exp = Decoded { payload: data.clone(), end: End::Truncated };
            let upto = out.events.iter().position(|e| matches!(e, Ev::Err(_) | Ev::Blocked)).map(|i| i + 1).unwrap_or(out.events.len());
            let reads_upto = match &case.reads {
                Reads::Sizes(ns) => Reads::Sizes(ns[..upto.min(ns.len())].to_vec()),
                r => r.clone(),
            };
            let d = delivery::check(&exp, &reads_upto, &out.events[..upto], &tag)?;
            if !d.saw_err {
                return Err((format!("cut-unreported-{}", tag), format!("the frame was cut after {} of {} body octets and no read reported an error; delivered {} of {} decoded bytes", cut, body.len(), d.got.len(), data.len())));
            }
            Ok(())
        })();
        sink.push(Case {
            tags: vec![format!("coding={}", if gz { "gzip" } else { "deflate" }), "mut=cut".into(), format!("framing={}", ["length", "chunked-one", "chunked-many"][framing as usize]), format!("cut={}", if cut == 0 { "at-body-start" } else if framing != 0 && cut < first_chunk_end { "in-first-chunk" } else { "later" }), format!("seg={}", segname)],
            op: case.op_line(),
            impl_line: out.line(),
            oracle: o,
        });
    }
}
