/-
  Atto/Lemmas/ExampleData.lean — concrete, non-trivial values on which the hypotheses of the
  property theorems are checked to be satisfiable (non-vacuity `example`s in Props/C01, C02, C19),
  and the `Decidable` instances that let `decide +kernel` evaluate the well-formedness predicates.
-/
import Atto.Lemmas.BodyReads
namespace Atto

namespace Ex

instance decChunkWF (l : Nat) (c : ChunkS) : Decidable (c.WF l) := by unfold ChunkS.WF; infer_instance
instance decLastWF (l : Nat) (c : LastS) : Decidable (c.WF l) := by unfold LastS.WF; infer_instance
instance decFieldWF (l : Nat) (f : FieldS) : Decidable (f.WF l) := by unfold FieldS.WF; infer_instance
instance decHeadWF (l : Nat) (h : HeadS) : Decidable (h.WF l) := by unfold HeadS.WF; infer_instance

deriving instance DecidableEq for Except

instance decWfT : (t : Transport) → Decidable (wfT t)
  | [] => isTrue trivial
  | .data bs :: r =>
    match decWfT r with
    | isTrue h => if hb : bs = [] then isFalse (fun hw => hw.1 hb) else isTrue ⟨hb, h⟩
    | isFalse h => isFalse (fun hw => h hw.2)
  | .err _ :: r => decWfT r
  | .pause :: r => decWfT r

/-- `HTTP/1.1 200 OK` with `Transfer-Encoding: chunked` and a second field -/
def headTE : HeadS :=
  { version := str "HTTP/1.1", sp1 := 1, code := 200, reason := str "OK",
    fields := [⟨str "Transfer-Encoding", 1, str "chunked", 0⟩, ⟨str "X-Note", 0, str "a b", 2⟩] }

/-- `HTTP/1.1 200 OK` with `Content-Length: 11` -/
def headCL : HeadS :=
  { version := str "HTTP/1.1", sp1 := 1, code := 200, reason := str "OK",
    fields := [⟨str "Content-Length", 1, str "11", 0⟩, ⟨str "X-Note", 0, str "a b", 2⟩] }

/-- no framing header: close-delimited -/
def headClose : HeadS :=
  { version := str "HTTP/1.0", sp1 := 2, code := 404, reason := [],
    fields := [⟨str "Server", 1, str "x", 0⟩] }

/-- two chunks: `5\r\nhello\r\n` and `06;x=1\r\n world\r\n` -/
def chunks : List ChunkS := [⟨str "hello", str "5", []⟩, ⟨str " world", str "06", str ";x=1"⟩]
def last : LastS := ⟨str "0", [], []⟩
/-- a last-chunk with an extension and a trailer section of two field lines:
    `00;q\r\nExpires: never\r\nX-Sum: 1\r\n\r\n` -/
def lastT : LastS := ⟨str "00", str ";q", [str "Expires: never", str "X-Sum: 1"]⟩
def body : Bytes := str "hello world"

/-- a segmentation: 7 bytes, 30 bytes, 1 byte, the rest (for `w` longer than 38 bytes) -/
def seg (w : Bytes) : Transport :=
  [.data (w.take 7), .data ((w.drop 7).take 30), .data ((w.drop 37).take 1), .data (w.drop 38)]

/-- a coarser segmentation: 10 bytes, the rest (for `w` longer than 10 bytes) -/
def seg2 (w : Bytes) : Transport := [.data (w.take 10), .data (w.drop 10)]

end Ex
end Atto
