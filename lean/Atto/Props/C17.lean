/-
  Atto/Props/C17.lean — property C17: "connection racing finds a reachable address quickly and
  reports failure honestly".  Model: Atto/Model/Happy.lean (`intertwine`, and `connect` as a
  discrete-event function of the per-address behaviour).  Lemmas: Atto/Lemmas/HappyLemmas.lean.

    (g) `C17_order`, `C17_order_families`, `C17_order_connect`: the dial order is a permutation of
        the resolver's answer, alternating IPv6 / IPv4 starting with IPv6, resolver order kept
        inside each family, the rest of the longer family at the end;
    (h) `C17_ok_accepts` (any deadline): a success is a connection to an address that accepted
        within the connect timeout; `C17_iff` (no deadline, distinct ids): success iff some address
        accepts within the connect timeout;
    (i) `C17_err` (any deadline): nobody accepts in time ⇒ the error of one of the attempts;
        `C17_noDns_iff`: `noDns` only for an empty answer;
    (j) `C17_delay` (no deadline, distinct ids): the k-th address of the dial order accepting after
        `d` gives a connection by `k * raceDelay + d` — a dead predecessor costs one race interval,
        not a connect timeout.
-/
import Atto.Lemmas.HappyLemmas
namespace Atto
open Atto.Happy

/-! ### example data -/

def c17_a0 : Addr := { fam := .v4, beh := .accept 30, id := 0 }
def c17_a1 : Addr := { fam := .v6, beh := .blackhole, id := 1 }
def c17_a2 : Addr := { fam := .v4, beh := .refuse 5, id := 2 }
def c17_a3 : Addr := { fam := .v6, beh := .blackhole, id := 3 }
def c17_a4 : Addr := { fam := .v6, beh := .accept 5000, id := 4 }

/-! ### (g) the order of the attempts -/

/-- `intertwine as bs`: (1) a permutation of `as ++ bs`; (2) positions `2k`, `2k+1` below
    `2 * min |as| |bs|` hold `as[k]`, `bs[k]`; (3) after that the rest of the longer list. -/
theorem C17_order {α : Type} (as bs : List α) :
    (intertwine as bs).Perm (as ++ bs) ∧
    (∀ k, k < min as.length bs.length →
      (intertwine as bs)[2 * k]? = as[k]? ∧ (intertwine as bs)[2 * k + 1]? = bs[k]?) ∧
    (intertwine as bs).drop (2 * min as.length bs.length) =
      as.drop (min as.length bs.length) ++ bs.drop (min as.length bs.length) :=
  ⟨hp_intertwine_perm as bs,
   fun k hk => ⟨hp_intertwine_even as bs k hk, hp_intertwine_odd as bs k hk⟩,
   hp_intertwine_drop as bs⟩

example : intertwine [1, 3, 5, 7] [2, 4] = [1, 2, 3, 4, 5, 7] := by decide
example : (intertwine [1, 3, 5, 7] [2, 4])[2 * 1]? = [1, 3, 5, 7][1]? :=
  ((C17_order [1, 3, 5, 7] [2, 4]).2.1 1 (by decide)).1
example : (intertwine [1, 3, 5, 7] [2, 4]).drop 4 = [5, 7] ++ [] := (C17_order [1, 3, 5, 7] [2, 4]).2.2

/-- when the two inputs are told apart by a tag `p`, filtering the result gives them back: the
    order inside each input is kept -/
theorem C17_order_families {α : Type} (p : α → Bool) (as bs : List α)
    (ha : ∀ a ∈ as, p a = true) (hb : ∀ b ∈ bs, p b = false) :
    (intertwine as bs).filter p = as ∧ (intertwine as bs).filter (fun x => !p x) = bs :=
  hp_intertwine_filter p as bs ha hb

example : (intertwine [(Fam.v6, 1), (Fam.v6, 2)] [(Fam.v4, 7)]).filter (fun x => x.1 == Fam.v6) =
    [(Fam.v6, 1), (Fam.v6, 2)] :=
  (C17_order_families (fun x : Fam × Nat => x.1 == Fam.v6) _ _ (by decide) (by decide)).1

/-- `connect` with two or more addresses dials in the order `hp_order addrs` =
    `intertwine (the v6 addresses) (the v4 addresses)`: a permutation of the answer whose v6 / v4
    subsequences are the answer's, in resolver order, starting with the first IPv6 address. -/
theorem C17_order_connect (addrs : List Addr) (timeout : Nat) (deadline : Option Nat) (rd : Nat) :
    (2 ≤ addrs.length → connect addrs timeout deadline rd =
      race timeout deadline rd (hp_order addrs) [] 0 none) ∧
    (hp_order addrs).Perm addrs ∧
    (hp_order addrs).filter (·.fam == .v6) = addrs.filter (·.fam == .v6) ∧
    (hp_order addrs).filter (·.fam == .v4) = addrs.filter (·.fam == .v4) ∧
    (addrs.filter (·.fam == .v6) ≠ [] →
      (hp_order addrs).head? = (addrs.filter (·.fam == .v6)).head?) := by
  refine ⟨?_, hp_order_perm addrs, ?_, ?_, fun h => hp_intertwine_head _ _ h⟩
  · intro h
    match addrs, h with
    | a :: b :: l, _ => exact hp_connect_race a b l timeout deadline rd
  · exact (hp_intertwine_filter (fun x : Addr => x.fam == Fam.v6) (addrs.filter (·.fam == .v6))
      (addrs.filter (·.fam == .v4))
      (fun a ha => (List.mem_filter.mp ha).2)
      (fun b hb => by
        have := (List.mem_filter.mp hb).2
        cases hf : b.fam <;> simp_all)).1
  · have := (hp_intertwine_filter (fun x : Addr => x.fam == Fam.v6) (addrs.filter (·.fam == .v6))
      (addrs.filter (·.fam == .v4))
      (fun a ha => (List.mem_filter.mp ha).2)
      (fun b hb => by
        have := (List.mem_filter.mp hb).2
        cases hf : b.fam <;> simp_all)).2
    have e : (hp_order addrs).filter (·.fam == .v4) =
        (hp_order addrs).filter (fun x => !(x.fam == .v6)) := by
      apply List.filter_congr
      intro x _
      cases hf : x.fam <;> simp
    rw [e]; exact this

example : hp_order [c17_a0, c17_a1, c17_a2, c17_a3] = [c17_a1, c17_a0, c17_a3, c17_a2] := by decide

/-! ### (h) success -/

/-- Whatever the deadline: a success is a connection to one of the resolved addresses, and that
    address accepted within the connect timeout. -/
theorem C17_ok_accepts (addrs : List Addr) (timeout : Nat) (deadline : Option Nat) (rd : Nat)
    (id t : Nat) (h : connect addrs timeout deadline rd = .ok id t) :
    ∃ a ∈ addrs, a.id = id ∧ ∃ d, a.beh = .accept d ∧ d ≤ timeout := by
  match addrs with
  | [] => simp [connect] at h
  | [a] =>
    rw [hp_connect_single] at h
    split at h
    · next hr =>
      injection h with h1 _
      obtain ⟨d, hb, hd, _⟩ := hp_pend_ok hr
      exact ⟨a, List.mem_singleton.mpr rfl, h1, d, hb, hd⟩
    · cases h
  | a :: b :: l =>
    rw [hp_connect_race] at h
    exact hp_race_ok (A := a :: b :: l) _ [] 0 none (fun x hx => hp_order_mem.mp hx)
      (fun p hp => nomatch hp) h

example : connect [c17_a0, c17_a1, c17_a2] 1000 (some 700) 200 = .ok 0 230 := by decide
example : ∃ a ∈ [c17_a0, c17_a1, c17_a2], a.id = 0 ∧ ∃ d, a.beh = .accept d ∧ d ≤ 1000 :=
  C17_ok_accepts _ 1000 (some 700) 200 0 230 (by decide)

/-! ### (j) delay -/

/-- No deadline, distinct ids.  If the address at position `k` of the dial order accepts after
    `d ≤ timeout`, `connect` succeeds at the latest at `k * raceDelay + d`: each predecessor —
    black hole or not — costs at most one race interval. -/
theorem C17_delay (addrs : List Addr) (timeout rd : Nat) (hid : (addrs.map (·.id)).Nodup)
    (k : Nat) (a : Addr) (d : Nat) (hk : (hp_order addrs)[k]? = some a) (hb : a.beh = .accept d)
    (hd : d ≤ timeout) :
    ∃ id t, connect addrs timeout none rd = .ok id t ∧ t ≤ k * rd + d := by
  match addrs with
  | [] => simp [hp_order, intertwine] at hk
  | [a'] =>
    rw [hp_order_single] at hk
    cases k with
    | succ k => simp at hk
    | zero =>
      simp at hk; subst hk
      rw [hp_connect_single, hp_pend_accept hb hd]
      exact ⟨_, _, rfl, by simp⟩
  | a' :: b' :: l =>
    rw [hp_connect_race]
    obtain ⟨pre, post, hsplit, hlen⟩ := hp_split_at hk
    have hnd : ((hp_order (a' :: b' :: l)).map (·.id)).Nodup :=
      (((hp_order_perm (a' :: b' :: l)).map (·.id)).nodup_iff).mpr hid
    rw [hsplit] at hnd ⊢
    obtain ⟨h1, h2⟩ := hp_nodup_split hnd
    obtain ⟨id, t, he, ht⟩ := hp_race_delay (rd := rd) hb hd pre post [] 0 none
      (fun q hq => nomatch hq) h1 h2
    exact ⟨id, t, he, by rw [hlen] at ht; omega⟩

/-- two v6 black holes and one v4 address (dial order a1, a0, a3): the v4 address at position 1
    connects at 1 * 200 + 30, not after a 1000 ms connect timeout -/
example : connect [c17_a1, c17_a3, c17_a0] 1000 none 200 = .ok 0 230 := by decide
example : ∃ id t, connect [c17_a1, c17_a3, c17_a0] 1000 none 200 = .ok id t ∧ t ≤ 1 * 200 + 30 :=
  C17_delay _ 1000 200 (by decide) 1 c17_a0 30 (by decide) rfl (by decide)
/-- the bound is attained with black-holed predecessors: position 2 → 2 * 200 + 30 -/
example : connect [c17_a1, c17_a3, { c17_a0 with fam := .v6 }] 1000 none 200 = .ok 0 430 := by decide

/-! ### (h) success, iff -/

/-- No deadline, distinct ids: `connect` succeeds iff some resolved address accepts within the
    connect timeout. -/
theorem C17_iff (addrs : List Addr) (timeout rd : Nat) (hid : (addrs.map (·.id)).Nodup) :
    (∃ id t, connect addrs timeout none rd = .ok id t) ↔
      ∃ a ∈ addrs, ∃ d, a.beh = .accept d ∧ d ≤ timeout := by
  constructor
  · rintro ⟨id, t, h⟩
    obtain ⟨a, ha, _, d, hb, hd⟩ := C17_ok_accepts addrs timeout none rd id t h
    exact ⟨a, ha, d, hb, hd⟩
  · rintro ⟨a, ha, d, hb, hd⟩
    obtain ⟨k, hk⟩ := List.getElem?_of_mem (hp_order_mem.mpr ha)
    obtain ⟨id, t, h, _⟩ := C17_delay addrs timeout rd hid k a d hk hb hd
    exact ⟨id, t, h⟩

example : ∃ id t, connect [c17_a1, c17_a2, c17_a3, c17_a0] 1000 none 200 = .ok id t :=
  (C17_iff _ 1000 200 (by decide)).mpr ⟨c17_a0, by decide, 30, rfl, by decide⟩
/-- an address that would accept only after the connect timeout does not count -/
example : ¬ ∃ id t, connect [c17_a1, c17_a2, c17_a4] 1000 none 200 = .ok id t := by
  rw [C17_iff _ 1000 200 (by decide)]
  rintro ⟨a, ha, d, hb, hd⟩
  have := hp_none_accepts (timeout := 1000) (addrs := [c17_a1, c17_a2, c17_a4]) (by decide) a ha d hb
  omega
example : connect [c17_a1, c17_a2, c17_a4] 1000 none 200 = .err 2 .refused 1205 := by decide
/-- distinct ids are needed in the model: a refused attempt removes every pending attempt with its
    id, here also the one that would have connected -/
example : connect [{ c17_a0 with fam := .v6, beh := .accept 300 }, { c17_a2 with id := 0 }] 1000 none 200
    = .err 0 .refused 205 := by decide

/-! ### (i) failure -/

/-- Whatever the deadline: `noDns` is returned for an empty answer only. -/
theorem C17_noDns_iff (addrs : List Addr) (timeout : Nat) (deadline : Option Nat) (rd : Nat) :
    connect addrs timeout deadline rd = .noDns ↔ addrs = [] := by
  constructor
  · intro h
    match addrs with
    | [] => rfl
    | [a] =>
      rw [hp_connect_single] at h
      split at h <;> cases h
    | a :: b :: l =>
      rw [hp_connect_race] at h
      have hs := hp_race_shape (ids := (a :: b :: l).map (·.id)) (timeout := timeout)
        (deadline := deadline) (rd := rd) (hp_order (a :: b :: l)) [] 0 none
        (fun x hx => List.mem_map_of_mem (hp_order_mem.mp hx)) (fun p hp => nomatch hp)
        (fun _ _ h => nomatch h)
        (.inl (fun hnil => by
          have := (hp_order_perm (a :: b :: l)).length_eq
          rw [hnil] at this; simp at this))
      rw [h] at hs; exact hs.elim
  · intro h; subst h; rfl

/-- Whatever the deadline: if no resolved address accepts within the connect timeout (and there is
    at least one), `connect` returns an error, and it is the error of one of the attempts. -/
theorem C17_err (addrs : List Addr) (timeout : Nat) (deadline : Option Nat) (rd : Nat)
    (hne : addrs ≠ []) (hna : ∀ a ∈ addrs, ∀ d, a.beh = .accept d → timeout < d) :
    ∃ id e t, connect addrs timeout deadline rd = .err id e t ∧ ∃ a ∈ addrs, a.id = id := by
  cases hc : connect addrs timeout deadline rd with
  | ok id t =>
    obtain ⟨a, ha, _, d, hb, hd⟩ := C17_ok_accepts addrs timeout deadline rd id t hc
    have := hna a ha d hb; omega
  | noDns => exact absurd ((C17_noDns_iff addrs timeout deadline rd).mp hc) hne
  | err id e t =>
    refine ⟨id, e, t, rfl, ?_⟩
    match addrs with
    | [] => exact absurd rfl hne
    | [a] =>
      rw [hp_connect_single] at hc
      split at hc
      · cases hc
      · injection hc with h1 _; exact ⟨a, List.mem_singleton.mpr rfl, h1⟩
    | a :: b :: l =>
      rw [hp_connect_race] at hc
      have hs := hp_race_shape (ids := (a :: b :: l).map (·.id)) (timeout := timeout)
        (deadline := deadline) (rd := rd) (hp_order (a :: b :: l)) [] 0 none
        (fun x hx => List.mem_map_of_mem (hp_order_mem.mp hx)) (fun p hp => nomatch hp)
        (fun _ _ h => nomatch h)
        (.inl (fun hnil => by
          have := (hp_order_perm (a :: b :: l)).length_eq
          rw [hnil] at this; simp at this))
      rw [hc] at hs
      obtain ⟨x, hx, hxi⟩ := List.mem_map.mp hs
      exact ⟨x, hx, hxi⟩

/-- v6 black hole, v4 refusing after 5 ms (started at 200): the refusal (the first error) is
    reported — once the last attempt has timed out, at 1000 -/
example : connect [c17_a2, c17_a1] 1000 none 200 = .err 2 .refused 1000 := by decide
example : ∃ id e t, connect [c17_a2, c17_a1, c17_a4] 1000 (some 300) 200 = .err id e t ∧
    ∃ a ∈ [c17_a2, c17_a1, c17_a4], a.id = id :=
  C17_err _ 1000 (some 300) 200 (by decide) (hp_none_accepts (by decide))
example : connect [c17_a2, c17_a1, c17_a4] 1000 (some 300) 200 = .err 2 .refused 300 := by decide
example : connect [] 1000 none 200 = .noDns := (C17_noDns_iff [] 1000 none 200).mpr rfl

end Atto
