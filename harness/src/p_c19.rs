//! C19 — response data is delivered as it arrives; reading never waits for later bytes.
use crate::case::{Case, Sink};
use crate::delivery;
use crate::resp::{run_resp, HeadOut, Reads, RespCase};
use crate::respgen::*;
use crate::rng::Rng;
use crate::script::Seg;
use crate::spec::{Decoded, End};

/// "Sending returns as soon as the blank line ending the response head has arrived" holds for every response of
/// the exchange: a redirect that is followed is decided by its head alone (status, Location), so the next hop is
/// dialled without reading — let alone waiting for — the rest of the redirect's body (seed C19-seed8).
fn redirect_stalls(sink: &mut Sink) {
    use crate::send::{run_send, BodyR, FinalObs, ProxyCfg, SendCase};
    let tails: [(&str, &[u8]); 6] = [
        ("length-nothing-yet", b"Content-Length: 10\r\n\r\n"),
        ("length-part", b"Content-Length: 10\r\n\r\nabc"),
        ("chunked-inside-a-chunk", b"Transfer-Encoding: chunked\r\n\r\n5\r\nhe"),
        ("chunked-no-last-chunk", b"Transfer-Encoding: chunked\r\n\r\n5\r\nhello\r\n"),
        ("close-delimited", b"\r\nmoved"),
        ("length-complete", b"Content-Length: 3\r\n\r\nabc"),
    ];
    for st in [301u16, 302, 303, 307, 308] {
        for (name, tail) in tails.iter() {
            for split in [false, true] {
                let mut first = format!("HTTP/1.1 {} X\r\nLocation: /final\r\n", st).into_bytes();
                first.extend_from_slice(tail);
                // the head and what follows it in one piece, or the head first
                let hop0: Vec<Seg> = if split {
                    let p = first.windows(4).position(|w| w == b"\r\n\r\n").unwrap() + 4;
                    let mut v = vec![Seg::Data(first[..p].to_vec())];
                    if p < first.len() {
                        v.push(Seg::Data(first[p..].to_vec()));
                    }
                    v.push(Seg::Pause);
                    v
                } else {
                    vec![Seg::Data(first.clone()), Seg::Pause]
                };
                let case = SendCase {
                    method: "GET".into(),
                    url: "http://verif.test/start".into(),
                    follow: true,
                    max_redirections: 3,
                    max_headers: 100,
                    compress: false,
                    proxy: ProxyCfg { http: None, https: None, no_proxy: vec![] },
                    params: vec![],
                    pre: vec![],
                    body: BodyR::Empty,
                    post: vec![],
                    hops: vec![(hop0, Some(b"/final".to_vec())), (vec![Seg::Data(b"HTTP/1.1 200 OK\r\nContent-Length: 2\r\n\r\nok".to_vec())], None)],
                    plain_tunnel: false,
                };
                let obs = run_send(&case);
                let o = match &obs.fin {
                    FinalObs::Blocked => Err((format!("send-blocked-on-redirect-{}", name), format!("send() waited on the connection of a {} whose head had arrived", st))),
                    FinalObs::Ok(200, _) if obs.hops.len() == 2 && obs.hops[0].read_pauses == 0 => Ok(()),
                    FinalObs::Ok(200, _) if obs.hops.len() == 2 => Err((format!("send-waited-on-redirect-{}", name), format!("the {} was followed, but send() had gone on reading its connection past the head until it would have had to wait for the peer ({} times)", st, obs.hops[0].read_pauses))),
                    f => Err((format!("redirect-not-followed-{}", name), format!("a {} with Location and a body in progress: {} connections, final {:?}", st, obs.hops.len(), f))),
                };
                sink.push(Case { tags: vec!["framing=redirect-hop".into(), format!("pause={}", name), format!("seg={}", if split { "head-first" } else { "one" }), "nontrivial".into()], op: case.op_line(&obs), impl_line: obs.line(), oracle: o });
            }
        }
    }
}

pub fn generate(seed: u64, tier: &str, sink: &mut Sink) {
    redirect_stalls(sink);
    neighbours(sink);
    let mut rng = Rng::new(seed ^ 0xC19);
    let thorough = tier == "thorough";
    let n = if thorough { 8000 } else { 700 };
    let max_buf = crate::resp::max_buffer_len();
    for i in 0..n {
        let framing = i % 3;
        let big = rng.chance(1, 20);
        let spec_ = gen_valid(&mut rng, framing as u64, big);
        let head = spec_.head_bytes();
        let body = spec_.body_bytes();
        let head_len = head.len();
        // pause points: after the head, after each complete chunk, after any byte of a length/close body
        let mut points: Vec<usize> = vec![0];
        match &spec_.body {
            BodySpec::Chunked { .. } => {
                for (off, _) in spec_.chunk_ends() {
                    points.push(off);
                }
                // and inside chunks / size lines
                for _ in 0..3 {
                    points.push(rng.below(body.len() as u64 + 1) as usize);
                }
            }
            _ => {
                if body.len() <= (if thorough { 512 } else { 24 }) {
                    points.extend(0..=body.len());
                } else {
                    for _ in 0..(if thorough { 24 } else { 8 }) {
                        points.push(rng.below(body.len() as u64 + 1) as usize);
                    }
                    points.push(body.len());
                }
            }
        }
        points.sort_unstable();
        points.dedup();
        for p in points {
            let mut arrived = head.clone();
            arrived.extend_from_slice(&body[..p]);
            let (mut segs, segname) = segment(&mut rng, &arrived, &interesting_offsets(&arrived, head_len));
            segs.push(Seg::Pause);
            // what must be readable before any read blocks
            let payload = spec_.payload();
            let must: usize = match &spec_.body {
                BodySpec::Chunked { .. } => spec_.chunk_ends().iter().filter(|(off, _)| *off <= p).map(|(_, pay)| *pay).max().unwrap_or(0),
                _ => p.min(payload.len()),
            };
            // read sizes: 1 byte upward, larger than what is available
            let size = *rng.pick(&[1usize, 2, 7, 100, 4096, 8192, 65536, 1 << 20]);
            let nreads = if size >= 4096 {
                crate::p_c01::pieces(&spec_, segs.len(), max_buf) + payload.len() / size + 3
            } else {
                // every read may return as little as one segment's worth, and never more than one chunk piece
                segs.len() + crate::p_c01::pieces(&spec_, 0, max_buf) + must / size + 3
            };
            if nreads > 6000 {
                continue;
            }
            let ns = vec![size; nreads];
            // one case in six looks at the body through the BufRead view (fill_buf + consume of up to `size`
            // bytes): what has arrived is shown without waiting, too
            let reads = if rng.chance(1, 6) {
                let mut ops = vec![];
                // a `fill_buf` shows at most one buffer's worth (8 KiB) whatever `size` is: enough pairs to
                // reach the stall (a schedule that ended before it would be read as "blocked early")
                for _ in 0..nreads + segs.len() + must / size.min(2048) + 3 {
                    ops.push(crate::resp::BOp::Fill);
                    ops.push(crate::resp::BOp::ConsumeUpTo(size));
                }
                Reads::BufOps(ops)
            } else {
                Reads::Sizes(ns)
            };
            // one case in eight hands the body to the caller through write_to(): what has arrived is in the caller's
            // writer before the library goes back to wait on the connection (seed C19-seed10: a 64 KiB BufWriter
            // between the body and the caller's writer)
            let via_write_to = rng.chance(1, 8);
            let reads = if via_write_to { Reads::Drain(if rng.chance(1, 2) { crate::resp::DRAIN_WRITE_TO } else { crate::resp::DRAIN_WRITE_TO_SHORT }) } else { reads };
            let case = RespCase { method: "GET".into(), max_headers: 100, segs, reads };
            let out = run_resp(&case);
            let tag = format!("{}", spec_.framing_name());
            let o: Result<(), (String, String)> = (|| {
                match &out.head {
                    HeadOut::Ok(s) if *s == spec_.status => {}
                    HeadOut::Blocked => return Err((format!("send-blocked-{}", tag), "send() waited for bytes after the blank line ending the head".into())),
                    h => return Err((format!("head-{}", tag), format!("send() gave {:?}", h))),
                }
                if out.send_ok_waited {
                    return Err((format!("send-waited-{}", tag), "send() returned Ok but had gone on reading the connection past the blank line ending the head until it would have had to wait".into()));
                }
                if let Some(given) = out.sink_before_pause {
                    // write_to(): it ends in the stall (an error here); what counts is what the sink had by then
                    if given < must {
                        return Err((format!("withheld-from-writer-{}", tag), format!("write_to() had given the caller's writer {} bytes when it went back to wait on the connection, although {} payload bytes had arrived completely", given, must)));
                    }
                    if !payload.starts_with(&out.partial) {
                        return Err((format!("fabricated-{}", tag), "write_to() wrote bytes that are not a prefix of the payload".into()));
                    }
                    return Ok(());
                }
                if let Some(i) = out.ok_read_waited {
                    return Err((format!("satisfied-read-waited-{}", tag), format!("read #{} was satisfied from bytes that had arrived and still went on reading the connection until it would have had to wait for the peer", i)));
                }
                // upper bound for what may be handed out: everything that arrived, decoded leniently
                let exp = Decoded { payload: payload.clone(), end: End::Truncated };
                let mut exp2 = exp.clone();
                if p == body.len() {
                    exp2.end = End::Complete(body.len());
                }
                let d = delivery::check(&exp2, &case.reads, &out.events, &tag)?;
                let at_block = d.delivered_at_first_block.unwrap_or(d.got.len());
                if at_block < must {
                    return Err((format!("blocked-early-{}", tag), format!("a read blocked after {} bytes were handed out although {} payload bytes had arrived completely (pause at body offset {})", at_block, must, p)));
                }
                // the whole frame has arrived and its end is known from the framing itself (Content-Length
                // reached, last-chunk and final line break read): the end-of-body read is satisfied from
                // what has arrived as well, it never waits for the peer (seed C19-seed7; the usual keep-alive
                // server goes silent exactly there)
                if p == body.len() && !matches!(&spec_.body, BodySpec::Close(_)) && d.delivered_at_first_block.is_some() {
                    return Err((format!("blocked-after-complete-{}", tag), format!("a read waited for the peer after the complete frame ({} payload bytes) had arrived", payload.len())));
                }
                if d.got.len() < must {
                    return Err((format!("undelivered-{}", tag), format!("only {} of {} arrived payload bytes were handed out", d.got.len(), must)));
                }
                Ok(())
            })();
            sink.push(Case {
                tags: vec![
                    format!("framing={}", spec_.framing_name()),
                    format!("seg={}", segname),
                    format!("readsize={}", size),
                    format!("view={}", if matches!(case.reads, Reads::BufOps(_)) { "bufread" } else { "read" }),
                    format!("pause={}", if p == 0 { "after-head" } else if p == body.len() { "after-body" } else { "in-body" }),
                    if must == 0 { "trivial".into() } else { "nontrivial".into() },
                ],
                op: case.op_line(),
                impl_line: out.line(),
                oracle: o,
            });
        }
    }
}

/// What has arrived for ONE response can be read whatever the peers of OTHER responses of the process are doing:
/// while another thread waits for a silent server (at a chunk boundary, inside a size line, in the trailer
/// section, in a Content-Length body), a chunked response whose chunks arrive 200 ms apart is delivered chunk by
/// chunk as they arrive (seed C19-seed12: a process-wide lock held across the read of a chunk-size line).
/// Real loopback sockets and real time.
fn neighbours(sink: &mut Sink) {
    use crate::p_c13::{server, Srv};
    use std::io::Read;
    use std::time::{Duration, Instant};
    let stalled: [(&str, &[u8]); 4] = [
        ("chunk-boundary", b"HTTP/1.1 200 OK\r\nTransfer-Encoding: chunked\r\n\r\n5\r\nhello\r\n"),
        ("size-line", b"HTTP/1.1 200 OK\r\nTransfer-Encoding: chunked\r\n\r\n5\r\nhello\r\n1"),
        ("trailers", b"HTTP/1.1 200 OK\r\nTransfer-Encoding: chunked\r\n\r\n5\r\nhello\r\n0\r\nX-T: 1\r\n"),
        ("length", b"HTTP/1.1 200 OK\r\nContent-Length: 50\r\n\r\nhello"),
    ];
    let mut hs = vec![];
    for (sname, wire) in stalled {
        let wire = wire.to_vec();
        hs.push(std::thread::spawn(move || {
            // the neighbour: reads its response to the end on a thread of its own; its server goes silent for 2.5 s
            let (aport, _a) = server(vec![vec![Srv::ReadRequest, Srv::Send(wire), Srv::Hold(2500)]]);
            let held = std::thread::spawn(move || {
                let _ = attohttpc::get(format!("http://127.0.0.1:{}/", aport)).read_timeout(Duration::from_millis(3000)).send().and_then(|r| r.bytes());
            });
            std::thread::sleep(Duration::from_millis(250));
            // this response: three chunks 200 ms apart, then the last-chunk with a trailer field
            let (bport, _b) = server(vec![vec![
                Srv::ReadRequest,
                Srv::Send(b"HTTP/1.1 200 OK\r\nTransfer-Encoding: chunked\r\n\r\n3\r\none\r\n".to_vec()),
                Srv::Sleep(200),
                Srv::Send(b"3\r\ntwo\r\n".to_vec()),
                Srv::Sleep(200),
                Srv::Send(b"5\r\nthree\r\n0\r\nX-Sum: 3\r\n\r\n".to_vec()),
                Srv::Hold(200),
            ]]);
            let t0 = Instant::now();
            let mut got: Vec<(u64, Vec<u8>)> = vec![];
            let r = attohttpc::get(format!("http://127.0.0.1:{}/", bport)).read_timeout(Duration::from_millis(3000)).send();
            let o: Result<(), (String, String)> = match r {
                Err(e) => Err(("neighbour-setup".to_string(), format!("{:?}", e.kind()))),
                Ok(mut resp) => {
                    let mut buf = [0u8; 64];
                    let mut err = None;
                    loop {
                        match resp.read(&mut buf) {
                            Ok(0) => break,
                            Ok(n) => got.push((t0.elapsed().as_millis() as u64, buf[..n].to_vec())),
                            Err(e) => {
                                err = Some(e.to_string());
                                break;
                            }
                        }
                    }
                    let total = t0.elapsed().as_millis() as u64;
                    let all: Vec<u8> = got.iter().flat_map(|g| g.1.clone()).collect();
                    if let Some(e) = err {
                        Err(("neighbour-read-error".to_string(), e))
                    } else if all != b"onetwothree" {
                        Err(("neighbour-wrong-bytes".to_string(), format!("{:?}", String::from_utf8_lossy(&all))))
                    } else if total > 400 + 800 {
                        // the chunks arrive at 0 / 200 / 400 ms: everything is there after 400 ms
                        Err((format!("withheld-while-neighbour-stalls-{}", sname), format!("a chunked response whose last byte arrived after 400 ms was only read to its end after {} ms (reads returned at {:?} ms) while another response of the process waited for its silent server ({})", total, got.iter().map(|g| g.0).collect::<Vec<_>>(), sname)))
                    } else {
                        Ok(())
                    }
                }
            };
            drop(held);
            (sname, o)
        }));
    }
    for h in hs {
        let (sname, o) = h.join().unwrap();
        sink.push(Case { tags: vec!["kind=neighbour".into(), format!("neighbour-stalled-in={}", sname)], op: format!("nop neighbour {}", sname), impl_line: "nop".into(), oracle: o });
    }
}
