/-
  Atto/Model/SendW.lean — `PreparedRequest::send` when a connection breaks for writing.
  `write_request(..)?` (and the writes of `initiate_tunnel`) end the call with the I/O error at the
  hop whose connection took only `k` bytes of what was to be written on it; nothing is read from
  that connection and no further hop is made.  Up to that hop the exchange is the fault-free one
  (`send`, Atto/Model/Send.lean): the model is stated on top of it.
-/
import Atto.Model.Send
namespace Atto

/-- a connection that breaks for writing: index of the connection, bytes it takes, the error -/
structure WriteFault where
  hop : Nat
  takes : Nat
  err : E
  deriving Repr

/-- `send` with the `i`-th connection breaking after `k` bytes: if that connection is reached and
    more than `k` bytes are to be written on it, it carries the first `k` of them and the call ends
    with the error; otherwise the fault never shows. -/
def sendW (s : SendSettings) (req : Req) (cap : Nat) (url : Url) (hops : List Hop)
    (f : WriteFault) : List HopOut × Final :=
  let p := send s req cap url hops
  match p.1[f.hop]? with
  | some o =>
    if f.takes < o.wrote.length then
      (p.1.take f.hop ++ [{ o with wrote := o.wrote.take f.takes }], .err f.err)
    else p
  | none => p

end Atto
