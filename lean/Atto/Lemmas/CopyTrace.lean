/-
  Atto/Lemmas/CopyTrace.lean — lemmas about the trace model of `Response::write_to`
  (`copyTrace`, Model/Copy.lean):
  * the trace is a function (`traceEv`) of the events of the constant read schedule
    `List.replicate fuel sz`, like `drainLoop` is the fold `Dr.drEv` over them;
  * structure of a trace: every non-empty `Ok` read is followed at once by the `write_all` of the
    same bytes, nothing else is written;
  * `traceEv` against `Dr.drEv` (the drain model keeps the accumulator of the trace);
  * run lemmas: a complete `Content-Length` / close-delimited body (`BodyClean`), a body of which
    `x` has arrived before the peer goes silent (`BodyStall`), a chunked body whose peer goes silent
    after complete chunks, or inside a chunk.
-/
import Atto.Model.Copy
import Atto.Lemmas.Drain
namespace Atto
namespace Cp

/-! ## The trace as a function of the read results -/

/-- what `io::copy` makes of a list of read results -/
def traceEv : List Ev → List CopyEv
  | [] => []
  | .ok bs :: es =>
    if bs = [] then [.read (.ok [])] else .read (.ok bs) :: .wrote bs :: traceEv es
  | .err e :: es => if e = .io 0 then .read (.err e) :: traceEv es else [.read (.err e)]
  | .blocked :: _ => [.read .blocked]
  | .panic :: _ => [.read .panic]

theorem copyTrace_eq (maxBuf sz : Nat) : ∀ (fuel : Nat) (b : Body),
    copyTrace maxBuf sz fuel b = traceEv (reads maxBuf (List.replicate fuel sz) b).1 := by
  intro fuel
  induction fuel with
  | zero => intro b; simp [copyTrace, reads, traceEv]
  | succ fuel ih =>
    intro b
    rw [List.replicate_succ, reads_cons]
    unfold copyTrace
    rcases h : b.read maxBuf sz with ⟨res, b'⟩
    cases res with
    | ok bs =>
      cases bs with
      | nil => simp [Ev.ofRR, traceEv]
      | cons x xs => simp [Ev.ofRR, traceEv, ih]
    | err e =>
      by_cases he : e = .io 0
      · subst he; simp [Ev.ofRR, traceEv, ih]
      · cases e with
        | io k =>
          cases k with
          | zero => exact absurd rfl he
          | succ k => simp [Ev.ofRR, traceEv]
        | _ => simp [Ev.ofRR, traceEv]
    | blocked => simp [Ev.ofRR, traceEv]
    | panic => simp [Ev.ofRR, traceEv]

theorem traceEv_ok_ne {bs : Bytes} (es : List Ev) (h : bs ≠ []) :
    traceEv (.ok bs :: es) = .read (.ok bs) :: .wrote bs :: traceEv es := by
  simp [traceEv, h]

theorem traceEv_ok_nil (es : List Ev) : traceEv (.ok [] :: es) = [.read (.ok [])] := by
  simp [traceEv]

theorem traceEv_intr (es : List Ev) :
    traceEv (.err (.io 0) :: es) = .read (.err (.io 0)) :: traceEv es := by
  simp [traceEv]

theorem traceEv_err {e : E} (es : List Ev) (h : e ≠ .io 0) :
    traceEv (.err e :: es) = [.read (.err e)] := by
  simp [traceEv, h]

/-! ### one step of `copyTrace` -/

section step
variable (maxBuf sz fuel : Nat) (b : Body)

theorem copyTrace_ok {bs : Bytes} (h : (b.read maxBuf sz).1 = .ok bs) (hne : bs ≠ []) :
    copyTrace maxBuf sz (fuel+1) b =
      .read (.ok bs) :: .wrote bs :: copyTrace maxBuf sz fuel (b.read maxBuf sz).2 := by
  rw [copyTrace_eq, copyTrace_eq, List.replicate_succ, reads_cons, h]
  exact traceEv_ok_ne _ hne

theorem copyTrace_done (h : (b.read maxBuf sz).1 = .ok []) :
    copyTrace maxBuf sz (fuel+1) b = [.read (.ok [])] := by
  rw [copyTrace_eq, List.replicate_succ, reads_cons, h]
  exact traceEv_ok_nil _

theorem copyTrace_blocked (h : (b.read maxBuf sz).1 = .blocked) :
    copyTrace maxBuf sz (fuel+1) b = [.read .blocked] := by
  rw [copyTrace_eq, List.replicate_succ, reads_cons, h]
  rfl

end step

/-! ## Structure of a trace -/

/-- a non-empty `Ok` read is followed at once by the `write_all` of the same bytes -/
theorem traceEv_next (es : List Ev) : ∀ (i : Nat) (bs : Bytes),
    (traceEv es)[i]? = some (.read (.ok bs)) → bs ≠ [] →
    (traceEv es)[i+1]? = some (.wrote bs) := by
  induction es with
  | nil => intro i bs h; simp [traceEv] at h
  | cons e es ih =>
    intro i bs h hne
    cases e with
    | ok bs' =>
      by_cases hb : bs' = []
      · subst hb
        rw [traceEv_ok_nil] at h
        cases i with
        | zero => simp at h; exact absurd h hne
        | succ i => simp at h
      · rw [traceEv_ok_ne _ hb] at h ⊢
        match i with
        | 0 => simp at h; subst h; simp
        | 1 => simp at h
        | i+2 =>
          simp only [List.getElem?_cons_succ] at h ⊢
          exact ih i bs h hne
    | err e =>
      by_cases he : e = .io 0
      · subst he
        rw [traceEv_intr] at h ⊢
        cases i with
        | zero => simp at h
        | succ i =>
          simp only [List.getElem?_cons_succ] at h ⊢
          exact ih i bs h hne
      · rw [traceEv_err _ he] at h
        cases i with
        | zero => simp at h
        | succ i => simp at h
    | blocked =>
      cases i with
      | zero => simp [traceEv] at h
      | succ i => simp [traceEv] at h
    | panic =>
      cases i with
      | zero => simp [traceEv] at h
      | succ i => simp [traceEv] at h

/-- every `write_all` hands over exactly what the read just before it returned -/
theorem traceEv_prev (es : List Ev) : ∀ (i : Nat) (bs : Bytes),
    (traceEv es)[i]? = some (.wrote bs) →
    ∃ j, i = j + 1 ∧ (traceEv es)[j]? = some (.read (.ok bs)) ∧ bs ≠ [] := by
  induction es with
  | nil => intro i bs h; simp [traceEv] at h
  | cons e es ih =>
    intro i bs h
    cases e with
    | ok bs' =>
      by_cases hb : bs' = []
      · subst hb
        rw [traceEv_ok_nil] at h
        cases i with
        | zero => simp at h
        | succ i => simp at h
      · rw [traceEv_ok_ne _ hb] at h ⊢
        match i with
        | 0 => simp at h
        | 1 => simp at h; subst h; exact ⟨0, rfl, by simp, hb⟩
        | i+2 =>
          simp only [List.getElem?_cons_succ] at h
          obtain ⟨j, rfl, hj, hne⟩ := ih i bs h
          exact ⟨j+2, rfl, by simpa using hj, hne⟩
    | err e =>
      by_cases he : e = .io 0
      · subst he
        rw [traceEv_intr] at h ⊢
        cases i with
        | zero => simp at h
        | succ i =>
          simp only [List.getElem?_cons_succ] at h
          obtain ⟨j, rfl, hj, hne⟩ := ih i bs h
          exact ⟨j+1, rfl, by simpa using hj, hne⟩
      · rw [traceEv_err _ he] at h
        cases i with
        | zero => simp at h
        | succ i => simp at h
    | blocked =>
      cases i with
      | zero => simp [traceEv] at h
      | succ i => simp [traceEv] at h
    | panic =>
      cases i with
      | zero => simp [traceEv] at h
      | succ i => simp [traceEv] at h

/-- the writer has been given exactly what the reads returned -/
theorem writtenOf_traceEv (es : List Ev) : writtenOf (traceEv es) = readOf (traceEv es) := by
  induction es with
  | nil => rfl
  | cons e es ih =>
    cases e with
    | ok bs =>
      by_cases hb : bs = []
      · subst hb; simp [traceEv, writtenOf, readOf]
      · rw [traceEv_ok_ne _ hb]; simp [writtenOf, readOf, ih]
    | err e =>
      by_cases he : e = .io 0
      · subst he; rw [traceEv_intr]; simp [writtenOf, readOf, ih]
      · rw [traceEv_err _ he]; simp [writtenOf, readOf]
    | blocked => simp [traceEv, writtenOf, readOf]
    | panic => simp [traceEv, writtenOf, readOf]

theorem readOf_eq (tr : List CopyEv) : readOf tr = deliveredEv (readsOf tr) := by
  induction tr with
  | nil => rfl
  | cons c tr ih =>
    cases c with
    | read e => cases e <;> simp [readOf, readsOf, deliveredEv, ih]
    | wrote bs => simp [readOf, readsOf, ih]

/-- the reads of the trace are the first results of the schedule, up to the one that ends the copy -/
theorem readsOf_traceEv_prefix (es : List Ev) : readsOf (traceEv es) <+: es := by
  induction es with
  | nil => simp [traceEv, readsOf]
  | cons e es ih =>
    cases e with
    | ok bs =>
      by_cases hb : bs = []
      · subst hb; simp [traceEv, readsOf]
      · rw [traceEv_ok_ne _ hb]
        simpa [readsOf, List.cons_prefix_cons] using ih
    | err e =>
      by_cases he : e = .io 0
      · subst he; rw [traceEv_intr]
        simpa [readsOf, List.cons_prefix_cons] using ih
      · rw [traceEv_err _ he]; simp [readsOf]
    | blocked => simp [traceEv, readsOf]
    | panic => simp [traceEv, readsOf]

/-! ## How a trace ends -/

theorem getLast?_cons_of_some {α : Type} {a x : α} {l : List α} (h : l.getLast? = some x) :
    (a :: l).getLast? = some x := by
  cases l with
  | nil => simp at h
  | cons b l => simpa using h

/-- the trace against the drain fold: `drEv` ends the way the trace ends, and on success returns its
    accumulator extended by what the writer got -/
theorem drEv_trace (es : List Ev) : ∀ (acc : Bytes),
    (∀ a, Dr.drEv es acc = .ok a →
      a = acc ++ writtenOf (traceEv es) ∧ (traceEv es).getLast? = some (.read (.ok []))) ∧
    (∀ e, Dr.drEv es acc = .err e →
      (traceEv es).getLast? = some (.read (.err e)) ∧ e ≠ .io 0) ∧
    (Dr.drEv es acc = .blocked → (traceEv es).getLast? = some (.read .blocked)) ∧
    (Dr.drEv es acc = .panic →
      (traceEv es).getLast? = some (.read .panic) ∨ readsOf (traceEv es) = es) := by
  induction es with
  | nil => intro acc; simp [Dr.drEv, traceEv, readsOf]
  | cons e es ih =>
    intro acc
    cases e with
    | ok bs =>
      by_cases hb : bs = []
      · subst hb
        simp [Dr.drEv, traceEv, writtenOf]
      · obtain ⟨h1, h2, h3, h4⟩ := ih (acc ++ bs)
        rw [traceEv_ok_ne _ hb]
        simp only [Dr.drEv, hb, if_false]
        refine ⟨?_, ?_, ?_, ?_⟩
        · intro a ha
          obtain ⟨ha1, ha2⟩ := h1 a ha
          exact ⟨by rw [ha1]; simp [writtenOf],
            getLast?_cons_of_some (getLast?_cons_of_some ha2)⟩
        · intro e' he'
          obtain ⟨ha1, ha2⟩ := h2 e' he'
          exact ⟨getLast?_cons_of_some (getLast?_cons_of_some ha1), ha2⟩
        · intro hbl
          exact getLast?_cons_of_some (getLast?_cons_of_some (h3 hbl))
        · intro hp
          rcases h4 hp with h | h
          · exact .inl (getLast?_cons_of_some (getLast?_cons_of_some h))
          · exact .inr (by simp [readsOf, h])
    | err e =>
      by_cases he : e = .io 0
      · subst he
        obtain ⟨h1, h2, h3, h4⟩ := ih acc
        rw [traceEv_intr]
        simp only [Dr.drEv, if_true]
        refine ⟨?_, ?_, ?_, ?_⟩
        · intro a ha
          obtain ⟨ha1, ha2⟩ := h1 a ha
          exact ⟨by rw [ha1]; simp [writtenOf], getLast?_cons_of_some ha2⟩
        · intro e' he'
          obtain ⟨ha1, ha2⟩ := h2 e' he'
          exact ⟨getLast?_cons_of_some ha1, ha2⟩
        · intro hbl
          exact getLast?_cons_of_some (h3 hbl)
        · intro hp
          rcases h4 hp with h | h
          · exact .inl (getLast?_cons_of_some h)
          · exact .inr (by simp [readsOf, h])
      · rw [traceEv_err _ he]
        simp only [Dr.drEv, he, if_false]
        refine ⟨by simp, ?_, by simp, by simp⟩
        intro e' he'
        simp only [RR.err.injEq] at he'
        subst he'
        exact ⟨by simp, he⟩
    | blocked => simp [Dr.drEv, traceEv]
    | panic => simp [Dr.drEv, traceEv]

/-! ## Complete `Content-Length` / close-delimited bodies -/

section lc
variable (maxBuf sz : Nat) (hsz : 0 < sz)
include hsz

/-- a complete body is copied to exactly its bytes and the copy ends with `Ok(0)` -/
theorem clean_trace : ∀ (fuel : Nat) (b : Body) (rem : Bytes), BodyClean b rem →
    rem.length + 1 ≤ fuel →
    writtenOf (copyTrace maxBuf sz fuel b) = rem ∧
    (copyTrace maxBuf sz fuel b).getLast? = some (.read (.ok [])) := by
  intro fuel
  induction fuel with
  | zero => intro b rem _ h; omega
  | succ fuel ih =>
    intro b rem hcl hfuel
    obtain ⟨⟨bs, hev, _, hiff⟩, rem', hcl', hrem⟩ := clean_step maxBuf b rem sz hcl
    have h1 : (b.read maxBuf sz).1 = .ok bs := Ev.ofRR_inj (y := .ok bs) hev
    rw [hev] at hrem
    simp only [Ev.bytes] at hrem
    by_cases hb : bs = []
    · subst hb
      have : rem = [] := (hiff hsz).1 rfl
      subst this
      rw [copyTrace_done _ _ _ _ h1]
      simp [writtenOf]
    · have hpos := List.length_pos_iff.mpr hb
      have hlen : rem'.length + 1 ≤ fuel := by
        rw [hrem, List.length_append] at hfuel; omega
      obtain ⟨ih1, ih2⟩ := ih _ rem' hcl' hlen
      rw [copyTrace_ok _ _ _ _ h1 hb]
      exact ⟨by simp [writtenOf, ih1, hrem],
        getLast?_cons_of_some (getLast?_cons_of_some ih2)⟩

end lc

/-! ## `x` has arrived, then the peer is silent -/

/-- `x` of a `Content-Length` body that announces more, or of a close-delimited body, has arrived;
    the next item of the stream is a stall -/
def BodyStall (b : Body) (x : Bytes) : Prop :=
  match b with
  | .chunked _ => False
  | .length r lim => r.Ok ∧ x.length < lim ∧ ∃ rest, r.flat = bytesI x ++ .pause :: rest
  | .close r => r.Ok ∧ ∃ rest, r.flat = bytesI x ++ .pause :: rest

theorem bytesI_le_of_pause (bs : Bytes) : ∀ (x : Bytes) (F rest : List Item),
    bytesI bs ++ F = bytesI x ++ .pause :: rest → bs.length ≤ x.length := by
  induction bs with
  | nil => intro x F rest _; simp
  | cons b bs ih =>
    intro x F rest h
    cases x with
    | nil => simp [bytesI] at h
    | cons c x =>
      simp only [bytesI, List.map_cons, List.cons_append, List.cons.injEq] at h
      have := ih x F rest h.2
      simpa using this

theorem stall_step (m : Nat) (b : Body) (x : Bytes) (n : Nat) (h : BodyStall b x) (hx : x ≠ []) :
    ∃ bs x', (b.read m n).1 = .ok bs ∧ (0 < n → bs ≠ []) ∧ x = bs ++ x' ∧
      BodyStall (b.read m n).2 x' := by
  obtain ⟨c, x0, rfl⟩ := List.exists_cons_of_ne_nil hx
  cases b with
  | chunked c => exact h.elim
  | length r lim =>
    obtain ⟨hok, hlim, rest, hfl⟩ := h
    obtain ⟨r', lim', res, hrd, hok', hm⟩ := length_step r lim m n hok (by omega)
    rw [flat_cons_of hfl] at hm
    simp only at hm
    obtain ⟨bs, rfl, rfl, hb1, _, _, hb4⟩ := hm
    have hb4' : bytesI bs ++ r'.flat = bytesI (c :: x0) ++ .pause :: rest := hb4
    have hle := bytesI_le_of_pause bs _ _ _ hb4'
    obtain ⟨hs1, hs2⟩ := bytesI_split bs (c :: x0) _ _ hb4' hle
    rw [hrd]
    refine ⟨bs, (c :: x0).drop bs.length, rfl, hb1, hs1, hok', ?_, rest, hs2⟩
    rw [List.length_drop]; omega
  | close r =>
    obtain ⟨hok, rest, hfl⟩ := h
    rw [close_read_eq]
    obtain ⟨hok', hm⟩ := read_any_spec r n hok
    rw [flat_cons_of hfl] at hm
    simp only at hm
    obtain ⟨bs, hb0, hb1, _, hb4⟩ := hm
    have hb4' : bytesI bs ++ (r.read n).2.flat = bytesI (c :: x0) ++ .pause :: rest := hb4
    have hle := bytesI_le_of_pause bs _ _ _ hb4'
    obtain ⟨hs1, hs2⟩ := bytesI_split bs (c :: x0) _ _ hb4' hle
    exact ⟨bs, (c :: x0).drop bs.length, hb0, hb1, hs1, hok', rest, hs2⟩

theorem stall_end (m : Nat) (b : Body) (n : Nat) (h : BodyStall b []) :
    (b.read m n).1 = .blocked := by
  cases b with
  | chunked c => exact h.elim
  | length r lim =>
    obtain ⟨hok, hlim, rest, hfl⟩ := h
    obtain ⟨r', lim', res, hrd, _, hm⟩ := length_step r lim m n hok hlim
    have hfl' : r.flat = .pause :: rest := by simpa [bytesI] using hfl
    rw [hfl'] at hm
    simp only at hm
    rw [hrd]
    exact hm.1
  | close r =>
    obtain ⟨hok, rest, hfl⟩ := h
    rw [close_read_eq]
    obtain ⟨_, hm⟩ := read_any_spec r n hok
    have hfl' : r.flat = .pause :: rest := by simpa [bytesI] using hfl
    rw [hfl'] at hm
    simp only at hm
    exact hm.1

section stall
variable (maxBuf sz : Nat) (hsz : 0 < sz)
include hsz

/-- everything that has arrived goes to the writer, then the copy sits in a read that cannot
    return -/
theorem stall_trace : ∀ (fuel : Nat) (b : Body) (x : Bytes), BodyStall b x →
    x.length + 1 ≤ fuel →
    writtenOf (copyTrace maxBuf sz fuel b) = x ∧
    (copyTrace maxBuf sz fuel b).getLast? = some (.read .blocked) := by
  intro fuel
  induction fuel with
  | zero => intro b x _ h; omega
  | succ fuel ih =>
    intro b x hst hfuel
    by_cases hx : x = []
    · subst hx
      rw [copyTrace_blocked _ _ _ _ (stall_end maxBuf b sz hst)]
      simp [writtenOf]
    · obtain ⟨bs, x', h1, hne, rfl, hst'⟩ := stall_step maxBuf b x sz hst hx
      have hb := hne hsz
      have hpos := List.length_pos_iff.mpr hb
      obtain ⟨ih1, ih2⟩ := ih _ x' hst' (by rw [List.length_append] at hfuel; omega)
      rw [copyTrace_ok _ _ _ _ h1 hb]
      exact ⟨by simp [writtenOf, ih1], getLast?_cons_of_some (getLast?_cons_of_some ih2)⟩

end stall

/-! ## Chunked bodies -/

/-- the trace of a chunked body behind the BufReader model over any well-formed transport is the
    trace of the decoder on the flat stream -/
theorem copyTrace_chunked_flat (r1 : BufR) (hok : r1.Ok) (maxBuf sz fuel : Nat) :
    copyTrace maxBuf sz fuel (.chunked { inner := r1 }) =
      traceEv (Dr.evsC maxBuf sz fuel (fresh r1.flat)) := by
  rw [copyTrace_eq, reads_chunked_flat r1 hok]
  rfl

/-- the decoder sits at a chunk boundary and the stream stalls there -/
theorem read_at_pause (c : Chunked (List Item)) (rest : List Item) (m n : Nat)
    (hf : c.failed = false) (he : c.reachedEof = false) (hl : c.buffer.length = c.consumed)
    (hr : c.remaining = 0) (hi : c.inner = .pause :: rest) :
    (c.read flatSrc m n).1 = .blocked := by
  have hrl : readLine flatSrc (.pause :: rest) Consts.chunkSizeLineLimit =
      (.blocked, .pause :: rest) := by
    simp [readLine, flatSrc, chunkSizeLineLimit_eq, specUntil]
  have hrc : (c.readChunkSize flatSrc).1 = .blocked := by
    simp [Chunked.readChunkSize, hi, hrl]
  have hrf : (c.refill flatSrc m).1 = .blocked := by
    unfold Chunked.refill
    rcases hq : c.readChunkSize flatSrc with ⟨res, c'⟩
    rw [hq] at hrc
    simp only at hrc
    subst hrc
    simp [hr]
  have hfb : (c.fillBuf flatSrc m).1 = .blocked := by
    rw [fillBuf_refill _ _ _ hf ⟨hl, by simp [he]⟩]
    rcases hq : c.refill flatSrc m with ⟨res, c'⟩
    rw [hq] at hrf
    simp only at hrf
    subst hrf
    rfl
  rcases hq : c.fillBuf flatSrc m with ⟨res, c'⟩
  rw [hq] at hfb
  simp only at hfb
  subst hfb
  rw [read_of_fillBuf_blocked _ _ _ _ n hq]

section chunked
variable (m sz : Nat) (hm : 0 < m) (hsz : 0 < sz)
include hm hsz

/-- complete chunks with payload `P`, then the peer is silent: `P` goes to the writer, then the copy
    sits in a read that cannot return -/
theorem chunk_stall_trace (rest : List Item) : ∀ (fuel : Nat) (c : Chunked (List Item)) (P : Bytes),
    Rep c P (.pause :: rest) → P.length + 1 ≤ fuel →
    writtenOf (traceEv (Dr.evsC m sz fuel c)) = P ∧
    (traceEv (Dr.evsC m sz fuel c)).getLast? = some (.read .blocked) := by
  intro fuel
  induction fuel with
  | zero => intro c P _ h; omega
  | succ fuel ih =>
    intro c P hrep hfuel
    rw [Dr.evsC_succ]
    by_cases hP : P = []
    · subst hP
      obtain ⟨hf, he, hl, hr, hi⟩ := rep_nil c _ hrep
      rw [read_at_pause c rest m sz hf he hl hr hi]
      simp [Ev.ofRR, traceEv, writtenOf]
    · obtain ⟨out, P', h1, rfl, _, hne, hrep'⟩ := step_progress c P _ m sz hm hrep hP
      have hb := hne hsz
      have hpos := List.length_pos_iff.mpr hb
      obtain ⟨ih1, ih2⟩ := ih _ P' hrep' (by rw [List.length_append] at hfuel; omega)
      rw [h1]
      simp only [Ev.ofRR]
      rw [traceEv_ok_ne _ hb]
      exact ⟨by simp [writtenOf, ih1], getLast?_cons_of_some (getLast?_cons_of_some ih2)⟩

/-- how a copy ends on a cut stream: a stall or an error other than `Interrupted` -/
def EndsBad (tr : List CopyEv) : Prop :=
  tr.getLast? = some (.read .blocked) ∨ ∃ e, e ≠ .io 0 ∧ tr.getLast? = some (.read (.err e))

omit hm hsz in
theorem EndsBad.cons {a : CopyEv} {tr : List CopyEv} (h : EndsBad tr) : EndsBad (a :: tr) := by
  rcases h with h | ⟨e, he, h⟩
  · exact .inl (getLast?_cons_of_some h)
  · exact .inr ⟨e, he, getLast?_cons_of_some h⟩

/-- from a state inside the cut chunk: only genuine data of that chunk reaches the writer, and the
    copy ends with a stall or an error -/
theorem trunc_trace (tail : List Item) (hd : Dead tail) :
    ∀ (fuel : Nat) (c : Chunked (List Item)) (P : Bytes), TRep tail c P → P.length + 2 ≤ fuel →
    writtenOf (traceEv (Dr.evsC m sz fuel c)) <+: P ∧ EndsBad (traceEv (Dr.evsC m sz fuel c)) := by
  intro fuel
  induction fuel with
  | zero => intro c P _ h; omega
  | succ fuel ih =>
    intro c P hrep hfuel
    rw [Dr.evsC_succ]
    rcases step_trunc tail hd c P m sz hm hrep with ⟨out, P', h1, rfl, hne, hrep'⟩ | ⟨hb, hfl⟩
    · have hb := hne hsz
      have hpos := List.length_pos_iff.mpr hb
      obtain ⟨ih1, ih2⟩ := ih _ P' hrep' (by rw [List.length_append] at hfuel; omega)
      rw [h1]
      simp only [Ev.ofRR]
      rw [traceEv_ok_ne _ hb]
      exact ⟨by simpa [writtenOf, List.prefix_append_right_inj] using ih1, ih2.cons.cons⟩
    · rcases hb with ⟨e, he⟩ | he
      · rw [he]
        simp only [Ev.ofRR]
        by_cases h0 : e = .io 0
        · subst h0
          obtain ⟨f', rfl⟩ : ∃ f', fuel = f' + 1 := ⟨fuel - 1, by omega⟩
          have hrd : (c.read flatSrc m sz).2.read flatSrc m sz =
              (.err .chunk, (c.read flatSrc m sz).2) :=
            read_of_fillBuf_err _ _ _ _ _ _ (fillBuf_failed flatSrc _ m hfl)
          rw [traceEv_intr, Dr.evsC_succ, hrd]
          simp only [Ev.ofRR]
          rw [traceEv_err _ (by simp)]
          exact ⟨by simp [writtenOf], .inr ⟨.chunk, by simp, by simp⟩⟩
        · rw [traceEv_err _ h0]
          exact ⟨by simp [writtenOf], .inr ⟨e, h0, by simp⟩⟩
      · rw [he]
        simp only [Ev.ofRR, traceEv]
        exact ⟨by simp [writtenOf], .inl (by simp)⟩

/-- complete chunks with payload `P`, then a chunk (data `d`) or the last-chunk (`d = []`) of which
    only a strict prefix `part` has arrived, then nothing more: the writer gets all of `P` and at
    most data of the cut chunk -/
theorem cut_trace (tail : List Item) (hd : Dead tail) (sr ext d : Bytes) (ts : List Bytes)
    (part : Bytes) (hs : CutOK sr ext d ts) (hq : part <+: cutEnc sr ext d ts)
    (hql : part.length < (cutEnc sr ext d ts).length) :
    ∀ (fuel : Nat) (c : Chunked (List Item)) (P : Bytes), Rep c P (bytesI part ++ tail) →
    P.length + d.length + 2 ≤ fuel →
    (∃ w, writtenOf (traceEv (Dr.evsC m sz fuel c)) = P ++ w ∧ w <+: d) ∧
    EndsBad (traceEv (Dr.evsC m sz fuel c)) := by
  intro fuel
  induction fuel with
  | zero => intro c P _ h; omega
  | succ fuel ih =>
    intro c P hrep hfuel
    by_cases hP : P = []
    · subst hP
      obtain ⟨hf, he, hlen, hr, hi⟩ := rep_nil c _ hrep
      have ht : TRep tail c ([] ++ d) :=
        ⟨hrep.1, d, ⟨hf, he, .inr ⟨sr, ext, ts, part, hs, hr, hi, hq, hql⟩⟩, by
          rw [(avail_eq_nil_iff c hrep.1).mpr hlen]⟩
      obtain ⟨h1, h2⟩ := trunc_trace m sz hm hsz tail hd (fuel+1) c _ ht
        (by simp only [List.nil_append, List.length_nil] at hfuel ⊢; omega)
      exact ⟨⟨writtenOf (traceEv (Dr.evsC m sz (fuel+1) c)), by simp, by simpa using h1⟩, h2⟩
    · obtain ⟨out, P', h1, rfl, _, hne, hrep'⟩ := step_progress c P _ m sz hm hrep hP
      have hb := hne hsz
      have hpos := List.length_pos_iff.mpr hb
      obtain ⟨⟨w, ih1, ihw⟩, ih2⟩ := ih _ P' hrep' (by rw [List.length_append] at hfuel; omega)
      rw [Dr.evsC_succ, h1]
      simp only [Ev.ofRR]
      rw [traceEv_ok_ne _ hb]
      exact ⟨⟨w, by simp [writtenOf, ih1], ihw⟩, ih2.cons.cons⟩

end chunked

end Cp
end Atto
