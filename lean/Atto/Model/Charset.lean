/-
  Atto/Model/Charset.lean — src/parsing/response_reader.rs `get_charset` and the text helpers' choice
  of charset. `Encoding::for_label` (encoding_rs) is a parameter.
-/
import Atto.Model.Lines
import Atto.Std.HeaderMap
namespace Atto

def isPrefixOfB (p s : Bytes) : Bool := s.take p.length == p

/-- The label handed to `Encoding::for_label`, if the Content-Type value has the shape
    `… ; [SP*] charset=<label>`: everything after the FIRST `;`, trimmed of SP, must start with the
    literal `charset=`. -/
def charsetLabel (contentType : Bytes) : Option Bytes :=
  match contentType.idxOf? 59 with
  | none => none
  | some i =>
    let rhs := trimByte 32 (contentType.drop (i + 1))
    if isPrefixOfB (str "charset=") rhs then some (rhs.drop 8) else none

/-- `get_charset(headers, default_charset)`; `γ` is the type of charsets, `w1252` = WINDOWS_1252. -/
def getCharset {γ : Type} (forLabel : Bytes → Option γ) (w1252 : γ) (hs : Headers) (dflt : Option γ) : γ :=
  let fromHeader : Option γ :=
    match hs.get (str "content-type") with
    | none => none
    | some v => match charsetLabel v with
      | none => none
      | some l => forLabel l
  match fromHeader with
  | some c => c
  | none => dflt.getD w1252

/-- which charset each text helper decodes with -/
inductive TextCall (γ : Type) where
  | text                 -- `text()` / `text_reader()`
  | textWith (c : γ)     -- `text_with(c)` / `text_reader_with(c)`
  | textUtf8             -- `text_utf8()`

def charsetUsed {γ : Type} (forLabel : Bytes → Option γ) (w1252 utf8 : γ) (hs : Headers) (dflt : Option γ) :
    TextCall γ → γ
  | .text => getCharset forLabel w1252 hs dflt
  | .textWith c => c
  | .textUtf8 => utf8

end Atto
