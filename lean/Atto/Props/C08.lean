/-
  Atto/Props/C08.lean — "requests go to the right peer and name the right resource".

  About every hop of the redirect loop `sendLoop` (so in particular the first hop of `send`):
  who is dialled, which request target is written, what the Host field is.
  `rqIsTunnel s url` = a proxy is selected for an `https` URL (the CONNECT branch, Props/C12).
  Helper lemmas: Lemmas/RqSend.lean, Lemmas/RqHeaders.lean, Lemmas/RqLex.lean, Lemmas/RqRadix.lean.

  Observation (not part of C08's statement, reported): for plain `http` through a proxy the model —
  like src/request/mod.rs:226-229 — sets Host to the PROXY's authority, not the origin's
  (`C08_host_plain_via_proxy`); RFC 9112 §3.2 wants the origin's.
-/
import Atto.Lemmas.RqSend
import Atto.Lemmas.RqHeaders
import Atto.Lemmas.RqLex
import Atto.Lemmas.RqRadix
namespace Atto

/-! ### example data -/
namespace C08
def origin : Url :=
  { scheme := str "http", user := str "bob", pass := some (str "pw"), host := str "example.com", hostKind := 0,
    port := some 8080, effPort := 8080, path := str "/a/b", query := some (str "x=1&y=2"),
    fragment := some (str "frag") }
def originTls : Url := { origin with scheme := str "https", port := none, effPort := 443 }
def proxyUrl : Url :=
  { scheme := str "http", user := str "pu", pass := some (str "pp"), host := str "proxy.local", hostKind := 0,
    port := some 3128, effPort := 3128, path := str "/", query := none, fragment := none }
def viaProxy : SendSettings :=
  { followRedirects := true, maxRedirections := 5, maxHeaders := 100,
    proxy := { httpProxy := some proxyUrl, httpsProxy := some proxyUrl, disabled := false, noProxy := [str "other.org"] } }
def direct : SendSettings := { viaProxy with proxy := { viaProxy.proxy with disabled := true } }
def req : Req :=
  { method := str "POST", methodM := .post,
    headers := [(str "host", str "stale.example"), (str "authorization", str "Bearer t"), (str "content-length", str "2")],
    body := { kind := .known 2, writes := [str "h", [], str "i"] }, bodyRewindable := true }
def hop : Hop := { script := [.data (str "HTTP/1.1 200 OK\r\ncontent-length: 0\r\n\r\n")], resolved := none }

theorem forUrl_proxy : viaProxy.proxy.forUrl origin = some proxyUrl := by decide +kernel
theorem forUrl_proxyTls : viaProxy.proxy.forUrl originTls = some proxyUrl := by decide +kernel
theorem forUrl_direct : direct.proxy.forUrl origin = none := by decide +kernel
end C08

/-! ### (f) the peer -/

/-- (f) Every hop dials the proxy selected for the hop's URL if there is one, else the URL's own
    host and effective port (with the URL's scheme deciding about TLS). -/
theorem C08_peer (s : SendSettings) (req : Req) (cap : Nat) (hop : Hop) (rest : List Hop) (url : Url)
    (n : Nat) (hdrs : Headers) (first : Bool) :
    ((sendLoop s req cap (hop :: rest) url n hdrs first).1.head?).map
        (fun o => (o.dialHost, o.dialPort, o.dialScheme)) =
      some (match s.proxy.forUrl url with
            | some p => (p.host, p.effPort, p.scheme)
            | none => (url.host, url.effPort, url.scheme)) := by
  cases ht : rqIsTunnel s url
  · obtain ⟨tail, f, h⟩ := rq_sendLoop_plain s req cap hop rest url n hdrs first ht
    rw [h]
    cases hp : s.proxy.forUrl url <;> simp [rqPlainOut, rqDialTarget, hp]
  · rw [rq_sendLoop_tunnel s req cap hop rest url n hdrs first ht]
    cases hp : s.proxy.forUrl url <;>
      cases initiateTunnel s.maxHeaders cap hop.script <;> simp [rqTunnelOut, rqDialTarget, hp]

/-- (f) for `send`: the first connection. -/
theorem C08_peer_send (s : SendSettings) (req : Req) (cap : Nat) (url : Url) (hop : Hop) (rest : List Hop) :
    ((send s req cap url (hop :: rest)).1.head?).map (fun o => (o.dialHost, o.dialPort, o.dialScheme)) =
      some (match s.proxy.forUrl url with
            | some p => (p.host, p.effPort, p.scheme)
            | none => (url.host, url.effPort, url.scheme)) :=
  C08_peer s req cap hop rest url 0 req.headers true

/-- non-vacuity: through the proxy, and direct -/
example : ((send C08.viaProxy C08.req 8 C08.origin [C08.hop]).1.head?).map
    (fun o => (o.dialHost, o.dialPort, o.dialScheme)) = some (str "proxy.local", 3128, str "http") := by
  rw [C08_peer_send, C08.forUrl_proxy]; rfl
example : ((send C08.direct C08.req 8 C08.origin [C08.hop]).1.head?).map
    (fun o => (o.dialHost, o.dialPort, o.dialScheme)) = some (str "example.com", 8080, str "http") := by
  rw [C08_peer_send, C08.forUrl_direct]; rfl

/-! ### (g) the request target -/

/-- the second SP-separated token of the first line of what was written -/
def targetOf (w : Bytes) : Bytes := ((w.dropWhile (· != 32)).drop 1).takeWhile (· != 32)

theorem rq_targetOf_writeRequest (m : Bytes) (u : Url) (vp : Bool) (h : Headers) (b : BodyM)
    (hm : (32 : UInt8) ∉ m) (ht : (32 : UInt8) ∉ requestTarget u vp) :
    targetOf (writeRequest m u vp h b) = requestTarget u vp := by
  unfold targetOf writeRequest
  rw [rq_str_http11crlf]
  simp only [List.append_assoc, List.cons_append, List.nil_append]
  rw [rq_dropWhile_ne 32 m _ hm]
  simp only [List.drop_succ_cons, List.drop_zero]
  exact rq_takeWhile_ne 32 _ _ ht

/-- (g) A non-tunnel hop writes `method SP target SP HTTP/1.1 CRLF …` where the target is the
    absolute-form (scheme://authority path ?query) iff a proxy is selected and the URL's scheme is
    `http`, and the origin-form (path ?query) otherwise. -/
theorem C08_target (s : SendSettings) (req : Req) (cap : Nat) (hop : Hop) (rest : List Hop) (url : Url)
    (n : Nat) (hdrs : Headers) (first : Bool) (ht : rqIsTunnel s url = false) :
    ∃ o tail f, sendLoop s req cap (hop :: rest) url n hdrs first = (o :: tail, f) ∧
      (∃ after, o.wrote = req.method ++ [32] ++
          (if (s.proxy.forUrl url).isSome ∧ url.scheme = str "http" then url.absoluteForm else url.originForm)
          ++ str " HTTP/1.1\r\n" ++ after) ∧
      ((32 : UInt8) ∉ req.method → (32 : UInt8) ∉ url.absoluteForm → (32 : UInt8) ∉ url.originForm →
        targetOf o.wrote =
          if (s.proxy.forUrl url).isSome ∧ url.scheme = str "http" then url.absoluteForm else url.originForm) := by
  obtain ⟨tail, f, h⟩ := rq_sendLoop_plain s req cap hop rest url n hdrs first ht
  have hrt : requestTarget url (url.scheme == str "http" && (s.proxy.forUrl url).isSome) =
      if (s.proxy.forUrl url).isSome ∧ url.scheme = str "http" then url.absoluteForm else url.originForm := by
    unfold requestTarget
    by_cases h1 : url.scheme = str "http" <;> cases (s.proxy.forUrl url) <;> simp [h1]
  refine ⟨_, tail, f, h, ⟨writeHeaders (rqHopHeaders s url hdrs) ++ writeBody (rqHopBody req first), ?_⟩, ?_⟩
  · simp only [rqPlainOut, writeRequest, hrt, List.append_assoc]
  · intro hm ha ho
    simp only [rqPlainOut]
    rw [rq_targetOf_writeRequest _ _ _ _ _ hm (by rw [hrt]; split <;> assumption), hrt]

/-- non-vacuity: absolute-form through the proxy (credentials and fragment of the URL absent) -/
example : ∃ o tail f, send C08.viaProxy C08.req 8 C08.origin [C08.hop] = (o :: tail, f) ∧
    targetOf o.wrote = str "http://example.com:8080/a/b?x=1&y=2" := by
  obtain ⟨o, tail, f, h, _, ht⟩ := C08_target C08.viaProxy C08.req 8 C08.hop [] C08.origin 0 C08.req.headers true
    (by decide +kernel)
  refine ⟨o, tail, f, h, ?_⟩
  rw [ht (by decide +kernel) (by decide +kernel) (by decide +kernel), C08.forUrl_proxy]
  decide +kernel
/-- origin-form when sent directly -/
example : ∃ o tail f, send C08.direct C08.req 8 C08.origin [C08.hop] = (o :: tail, f) ∧
    targetOf o.wrote = str "/a/b?x=1&y=2" := by
  obtain ⟨o, tail, f, h, _, ht⟩ := C08_target C08.direct C08.req 8 C08.hop [] C08.origin 0 C08.req.headers true
    (by decide +kernel)
  refine ⟨o, tail, f, h, ?_⟩
  rw [ht (by decide +kernel) (by decide +kernel) (by decide +kernel), C08.forUrl_direct]
  decide +kernel

/-- (g) Neither form depends on the URL's credentials or fragment: two URLs that differ only there
    have the same targets, so userinfo and fragment cannot appear in what is written. -/
theorem C08_no_secret (u : Url) (user : Bytes) (pass frag : Option Bytes) :
    ({ u with user := user, pass := pass, fragment := frag } : Url).absoluteForm = u.absoluteForm ∧
    ({ u with user := user, pass := pass, fragment := frag } : Url).originForm = u.originForm ∧
    ({ u with user := user, pass := pass, fragment := frag } : Url).authority = u.authority :=
  ⟨rfl, rfl, rfl⟩

example : ({ C08.origin with user := [], pass := none, fragment := none } : Url).absoluteForm =
    C08.origin.absoluteForm := (C08_no_secret C08.origin [] none none).1

/-- (g) A byte that is no digit and none of `:` `/` `?` appears in a target only if it appears in
    one of the components scheme, host, path, query: in particular `#` (35) and `@` (64). -/
theorem C08_no_foreign_byte (u : Url) (c : UInt8) (hd : rqIsDigit c = false) (hc : c ≠ 58 ∧ c ≠ 47 ∧ c ≠ 63)
    (hp : c ∉ u.path) (hq : ∀ q, u.query = some q → c ∉ q) :
    c ∉ u.originForm ∧ (c ∉ u.scheme → c ∉ u.host → c ∉ u.absoluteForm) := by
  have ho : c ∉ u.originForm := by
    unfold Url.originForm
    cases hqq : u.query with
    | none => simpa using hp
    | some q =>
      have := hq q hqq
      simp only [List.mem_append, List.mem_cons, List.not_mem_nil, or_false, not_or]
      exact ⟨⟨hp, hc.2.2⟩, this⟩
  refine ⟨ho, fun hs hh => ?_⟩
  have hau : c ∉ u.authority := by
    unfold Url.authority
    cases u.port with
    | none => simpa using hh
    | some p =>
      simp only [List.mem_append, List.mem_cons, List.not_mem_nil, or_false, not_or]
      refine ⟨⟨hh, hc.1⟩, fun hm => ?_⟩
      have := rq_natDigits_digit p c hm
      rw [hd] at this
      exact Bool.noConfusion this
  unfold Url.absoluteForm
  rw [rq_str_css]
  simp only [List.mem_append, List.mem_cons, List.not_mem_nil, or_false, not_or]
  exact ⟨⟨⟨hs, hc.1, hc.2.1, hc.2.1⟩, hau⟩, ho⟩

/-- `#` never appears if the components have none -/
theorem C08_no_hash (u : Url) (hp : (35 : UInt8) ∉ u.path) (hq : ∀ q, u.query = some q → (35 : UInt8) ∉ q) :
    (35 : UInt8) ∉ u.originForm ∧ ((35 : UInt8) ∉ u.scheme → (35 : UInt8) ∉ u.host → (35 : UInt8) ∉ u.absoluteForm) :=
  C08_no_foreign_byte u 35 (by decide) (by decide) hp hq

example : (35 : UInt8) ∉ C08.origin.absoluteForm :=
  (C08_no_hash C08.origin (by decide +kernel) (by decide +kernel)).2 (by decide +kernel) (by decide +kernel)
/-- `@` likewise -/
example : (64 : UInt8) ∉ C08.origin.absoluteForm :=
  (C08_no_foreign_byte C08.origin 64 (by decide) (by decide) (by decide +kernel) (by decide +kernel)).2
    (by decide +kernel) (by decide +kernel)

/-! ### (h) the Host field -/

/-- (h) `set_host` leaves exactly one Host field, whatever the map contained before (a caller's
    Host, the Host of the previous hop): the URL's authority. -/
theorem C08_host (h : Headers) (u : Url) : (setHost h u).getAll (str "host") = [u.authority] := by
  simp [setHost, rq_getAll_insert, rq_hName]

/-- (h) `host:port` iff the URL has a non-default port, else the host alone (IPv6 literals are
    bracketed in `host`). -/
theorem C08_authority (u : Url) :
    (∃ p, u.port = some p ∧ u.authority = u.host ++ [58] ++ natDigits p) ∨
    (u.port = none ∧ u.authority = u.host) := by
  unfold Url.authority
  cases u.port with
  | none => exact .inr ⟨rfl, rfl⟩
  | some p => exact .inl ⟨p, rfl, rfl⟩

/-- (h) A directly sent request — and the request sent inside a tunnel — carries the header map
    `setHost hdrs url`: exactly one Host field, the URL's authority. -/
theorem C08_host_direct (s : SendSettings) (req : Req) (cap : Nat) (hop : Hop) (rest : List Hop) (url : Url)
    (n : Nat) (hdrs : Headers) (first : Bool) (hd : s.proxy.forUrl url = none) :
    ∃ tail f, sendLoop s req cap (hop :: rest) url n hdrs first =
        ({ dialScheme := url.scheme, dialHost := url.host, dialPort := url.effPort,
           wrote := writeRequest req.method url false (setHost hdrs url) (rqHopBody req first),
           tlsName := none } :: tail, f) ∧
      (setHost hdrs url).getAll (str "host") = [url.authority] := by
  have ht : rqIsTunnel s url = false := by simp [rqIsTunnel, hd]
  obtain ⟨tail, f, h⟩ := rq_sendLoop_plain s req cap hop rest url n hdrs first ht
  refine ⟨tail, f, ?_, C08_host hdrs url⟩
  rw [h]
  simp [rqPlainOut, rqDialTarget, rqHopHeaders, hd]

/-- (h) the header map of a hop is `setHost hdrs url` unless it is plain http through a proxy -/
theorem C08_host_hop (s : SendSettings) (url : Url) (hdrs : Headers)
    (h : ¬ (url.scheme = str "http" ∧ (s.proxy.forUrl url).isSome)) :
    rqHopHeaders s url hdrs = setHost hdrs url := by
  unfold rqHopHeaders
  cases hp : s.proxy.forUrl url with
  | none => rfl
  | some p =>
    have : ¬ url.scheme = str "http" := fun e => h ⟨e, by simp [hp]⟩
    simp [this]

/-- observation: plain http through a proxy names the proxy in Host -/
theorem C08_host_plain_via_proxy (s : SendSettings) (url p : Url) (hdrs : Headers)
    (hs : url.scheme = str "http") (hp : s.proxy.forUrl url = some p) :
    (rqHopHeaders s url hdrs).getAll (str "host") = [p.authority] := by
  simp [rqHopHeaders, hp, hs, C08_host]

/-- non-vacuity: the stale Host of the prepared headers is replaced; explicit port -/
example : ∃ tail f, send C08.direct C08.req 8 C08.origin [C08.hop] =
      ({ dialScheme := str "http", dialHost := str "example.com", dialPort := 8080,
         wrote := writeRequest (str "POST") C08.origin false (setHost C08.req.headers C08.origin) C08.req.body,
         tlsName := none } :: tail, f) ∧
    (setHost C08.req.headers C08.origin).getAll (str "host") = [str "example.com:8080"] := by
  obtain ⟨tail, f, h, hh⟩ := C08_host_direct C08.direct C08.req 8 C08.hop [] C08.origin 0 C08.req.headers true
    C08.forUrl_direct
  refine ⟨tail, f, h, ?_⟩
  rw [hh]
  decide +kernel
example : C08.originTls.authority = str "example.com" := by decide +kernel
example : (rqHopHeaders C08.viaProxy C08.origin C08.req.headers).getAll (str "host") = [str "proxy.local:3128"] := by
  rw [C08_host_plain_via_proxy _ _ _ _ (by decide +kernel) C08.forUrl_proxy]; decide +kernel

end Atto
