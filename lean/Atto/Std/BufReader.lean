/-
  Atto/Std/BufReader.lean — model of std::io::BufReader<R> over the scripted transport
  (rustc 1.95 library/std/src/io/buffered/bufreader.rs, io/mod.rs default_read_exact / read_until,
  io::Take). Modelled, not verified; exercised through the real code by the correspondence check.
-/
import Atto.Std.Io
namespace Atto

/-- `BufReader`: `buf` is the unread part of the internal buffer (`buf[pos..filled]`),
    `cap` its capacity, `inner` the transport. -/
structure BufR where
  buf : Bytes
  cap : Nat
  inner : Transport
  deriving Repr

def BufR.flat (r : BufR) : List Item := r.buf.map .byte ++ flatT r.inner

/-- `BufReader::fill_buf`: one inner read of `cap` bytes iff the buffer is empty. -/
def BufR.fillBuf (r : BufR) : RR Unit × BufR :=
  if r.buf ≠ [] then (.ok (), r) else
  match r.inner.read r.cap with
  | (.ok bs, t) => (.ok (), { r with buf := bs, inner := t })
  | (.err e, t) => (.err e, { r with inner := t })
  | (.blocked, t) => (.blocked, { r with inner := t })
  | (.panic, t) => (.panic, { r with inner := t })

def BufR.consume (r : BufR) (n : Nat) : BufR := { r with buf := r.buf.drop n }

/-- `BufReader::read(&mut buf[..n])`: bypass the internal buffer when it is empty and `n ≥ cap`. -/
def BufR.read (r : BufR) (n : Nat) : RR Bytes × BufR :=
  if r.buf = [] ∧ r.cap ≤ n then
    match r.inner.read n with
    | (res, t) => (res, { r with inner := t })
  else
    match r.fillBuf with
    | (.ok (), r') => (.ok (r'.buf.take n), r'.consume n)
    | (.err e, r') => (.err e, r')
    | (.blocked, r') => (.blocked, r')
    | (.panic, r') => (.panic, r')

/-- `default_read_exact` loop (entered by `BufReader::read_exact` when the buffer does not already
    hold `n` bytes): repeat `read`, retry Interrupted (`io 0`), `Ok(0)` → UnexpectedEof. -/
def BufR.readExactLoop : Nat → BufR → Nat → Bytes → RR Bytes × BufR
  | 0, r, n, acc => if n = 0 then (.ok acc, r) else (.panic, r)   -- fuel exhausted: unreachable (lemma)
  | fuel+1, r, n, acc =>
    if n = 0 then (.ok acc, r) else
    match r.read n with
    | (.ok [], r') => (.err .eof, r')
    | (.ok bs, r') => BufR.readExactLoop fuel r' (n - bs.length) (acc ++ bs)
    | (.err (.io 0), r') => BufR.readExactLoop fuel r' n acc
    | (.err e, r') => (.err e, r')
    | (.blocked, r') => (.blocked, r')
    | (.panic, r') => (.panic, r')

def BufR.exactFuel (r : BufR) (n : Nat) : Nat := 2 * n + r.inner.length + 2

/-- `BufReader::read_exact(&mut [0; n])`. -/
def BufR.readExact (r : BufR) (n : Nat) : RR Bytes × BufR :=
  if n ≤ r.buf.length then (.ok (r.buf.take n), r.consume n)
  else BufR.readExactLoop (r.exactFuel n) r n []

/-- `Take<&mut BufReader>::read_until(b'\n', out)`: loop `fill_buf` (retry Interrupted), append up to
    and including the delimiter, `consume`; stop on delimiter, EOF, or exhausted `limit`.
    Returns the appended bytes and the remaining limit of the `Take`. -/
def BufR.readUntilLoop : Nat → BufR → Nat → Bytes → RR (Bytes × Nat) × BufR
  | 0, r, _, _ => (.panic, r)                                       -- fuel exhausted: unreachable (lemma)
  | fuel+1, r, limit, acc =>
    if limit = 0 then (.ok (acc, 0), r) else
    match r.fillBuf with
    | (.err (.io 0), r') => BufR.readUntilLoop fuel r' limit acc
    | (.err e, r') => (.err e, r')
    | (.blocked, r') => (.blocked, r')
    | (.panic, r') => (.panic, r')
    | (.ok (), r') =>
      let avail := r'.buf.take limit
      if avail = [] then (.ok (acc, limit), r') else
      match avail.idxOf? 10 with
      | some i => (.ok (acc ++ avail.take (i+1), limit - (i+1)), r'.consume (i+1))
      | none => BufR.readUntilLoop fuel (r'.consume avail.length) (limit - avail.length) (acc ++ avail)

def BufR.untilFuel (r : BufR) (limit : Nat) : Nat := limit + r.inner.length + 2

def BufR.readUntil (r : BufR) (limit : Nat) : RR (Bytes × Nat) × BufR :=
  BufR.readUntilLoop (r.untilFuel limit) r limit []

end Atto
