/-
  Atto/Model/Send.lean — src/request/mod.rs `PreparedRequest::send` (redirect loop),
  src/streams.rs `BaseStream::connect` (who is dialled) and `initiate_tunnel` (CONNECT).
-/
import Atto.Model.Request
import Atto.Model.Proxy
import Atto.Model.Response
import Atto.Spec.Base64
namespace Atto

structure SendSettings where
  followRedirects : Bool
  maxRedirections : Nat
  maxHeaders : Nat
  proxy : ProxySettings
  deriving Repr

/-- One connection made by `send`: what the peer on that connection sends, and how the `url` crate
    resolves this hop's `Location` against this hop's URL (`none` = `base_redirect_url` fails). -/
structure Hop where
  script : Transport
  resolved : Option Url
  deriving Repr

/-- What was observed on one connection. -/
structure HopOut where
  dialScheme : Bytes
  dialHost : Bytes
  dialPort : Nat
  wrote : Bytes                 -- everything written before the first TLS byte
  tlsName : Option Bytes        -- a TLS handshake was started for this name (tunnel)
  tlsNameIsDomain : Bool := true -- the TLS library sends no SNI for a dotted IPv4 name; a bracketed IPv6 literal is passed (and sent) as if it were a DNS name (observation O7)
  deriving Repr

inductive Final where
  | ok (status : Nat) (url : Url)
  | err (e : E)
  | tooManyRedirections
  | locationHeader
  | redirectionUrl
  | connectError (status : Nat) (body : Bytes)
  | tlsStarted                  -- CONNECT succeeded; the model stops where TLS begins
  | blocked
  | panic
  | outOfHops                   -- the scenario did not provide a further hop (harness error)
  deriving Repr

def connectRequest (remote proxy : Url) : Bytes :=
  let auth := proxy.user ++ [58] ++ (proxy.pass.getD [])
  str "CONNECT " ++ remote.host ++ [58] ++ natDigits remote.effPort ++ str " HTTP/1.1\r\n" ++
  str "Host: " ++ proxy.host ++ [58] ++ natDigits proxy.effPort ++ str "\r\n" ++
  str "Connection: close\r\n" ++
  str "Proxy-Authorization: Basic " ++ b64Encode auth ++ str "\r\n" ++
  str "\r\n"

/-- `take(cap).read_to_end` on the BufReader: at most `cap` bytes, until EOF. -/
def readToEndTake : Nat → BufR → Nat → Bytes → RR Bytes
  | 0, _, _, _ => .panic
  | fuel+1, r, limit, acc =>
    if limit = 0 then .ok acc else
    match r.read (min limit 32) with
    | (.ok [], _) => .ok acc
    | (.ok bs, r') => readToEndTake fuel r' (limit - bs.length) (acc ++ bs)
    | (.err (.io 0), r') => readToEndTake fuel r' limit acc
    | (.err e, _) => .err e
    | (.blocked, _) => .blocked
    | (.panic, _) => .panic

/-- `initiate_tunnel` up to the point where the TLS handshake starts. -/
def initiateTunnel (maxHeaders cap : Nat) (t : Transport) : Final :=
  let r0 : BufR := { buf := [], cap := cap, inner := t }
  match parseResponseHead bufSrc r0 maxHeaders with
  | (.ok (status, _), r1) =>
    if 200 ≤ status ∧ status < 300 then .tlsStarted
    else match readToEndTake (Consts.connectBodyCap + r1.inner.length + 2) r1 Consts.connectBodyCap [] with
      | .ok body => .connectError status body
      | .err e => .err e
      | .blocked => .blocked
      | .panic => .panic
  | (.err e, _) => .err e
  | (.blocked, _) => .blocked
  | (.panic, _) => .panic

def isRedirectStatus (s : Nat) : Bool := s == 301 || s == 302 || s == 303 || s == 307 || s == 308

structure Req where
  method : Bytes
  methodM : Method
  headers : Headers             -- prepared headers (after `try_prepare`)
  body : BodyM
  bodyRewindable : Bool         -- false: a second `Body::write` produces nothing (a caller's one-shot Body)
  deriving Repr

inductive HopRes where
  | final (f : Final)
  | follow (next : Url)

/-- A URL the next turn of the loop cannot dial, and the error that turn ends with before any I/O:
    `set_host` (no host), then in `BaseStream::connect` no known port, then a scheme that is neither
    http nor https (`for_url` has no proxy for such a scheme, so `set_host` looks at the URL itself). -/
def undialable (u : Url) : Option E :=
  if u.hostKind == 9 then some .invalidUrlHost
  else if u.effPort == 0 then some .invalidUrlPort
  else if u.scheme == str "http" || u.scheme == str "https" then none
  else some .invalidBaseUrl

/-- Reading the response of one hop and deciding whether to follow a redirect. -/
def exchange (s : SendSettings) (req : Req) (cap n : Nat) (url : Url) (hop : Hop) : HopRes :=
  match parseResponse req.methodM s.maxHeaders cap hop.script with
  | .err e => .final (.err e)
  | .blocked => .final .blocked
  | .panic => .final .panic
  | .ok resp =>
    if !s.followRedirects || !isRedirectStatus resp.status then .final (.ok resp.status url)
    else if n + 1 > s.maxRedirections then .final .tooManyRedirections
    else match resp.headers.get (hName "location") with
      | none => .final .locationHeader
      | some _ =>
        match hop.resolved with
        | none => .final .redirectionUrl
        | some next =>
          -- the error of the next turn, which happens before anything is dialled or written
          match undialable next with
          | some e => .final (.err e)
          | none => .follow next

/-- The redirect loop. `hops` lists the connections in order, `url` is the URL of the current hop,
    `n` counts the redirections followed so far, `hdrs` are the request's headers (the Host field
    of the previous hop is still in there). -/
def sendLoop (s : SendSettings) (req : Req) (cap : Nat) :
    List Hop → Url → Nat → Headers → Bool → List HopOut × Final
  | [], _, _, _, _ => ([], .outOfHops)
  | hop :: rest, url, n, hdrs, first =>
    let proxy := s.proxy.forUrl url
    let plainViaProxy := url.scheme == str "http" && proxy.isSome
    let hdrs := match proxy with
      | some p => if url.scheme == str "http" then setHost hdrs p else setHost hdrs url
      | none => setHost hdrs url
    let target := proxy.getD url
    let body := if first || req.bodyRewindable then req.body else { req.body with writes := [] }
    let out : HopOut := { dialScheme := target.scheme, dialHost := target.host, dialPort := target.effPort,
                          wrote := writeRequest req.method url plainViaProxy hdrs body, tlsName := none }
    let tunnel := proxy.isSome && url.scheme == str "https"
    if tunnel then
      -- CONNECT tunnel: nothing but the CONNECT head is written before the proxy agrees
      let out := { out with wrote := connectRequest url target }
      match initiateTunnel s.maxHeaders cap hop.script with
      | .tlsStarted => ([{ out with tlsName := some url.host, tlsNameIsDomain := url.hostKind != 1 }], .tlsStarted)
      | f => ([out], f)
    else
      match exchange s req cap n url hop with
      | .final f => ([out], f)
      | .follow next =>
        match rest with
        | [] => ([out], .outOfHops)
        | _ :: _ => let p := sendLoop s req cap rest next (n + 1) hdrs false; (out :: p.1, p.2)

/-- `PreparedRequest::send` -/
def send (s : SendSettings) (req : Req) (cap : Nat) (url : Url) (hops : List Hop) : List HopOut × Final :=
  sendLoop s req cap hops url 0 req.headers true

end Atto
