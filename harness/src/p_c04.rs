//! C04 — status code and header fields are reported exactly as sent.
use crate::case::{Case, Sink};
use crate::resp::{run_resp, HeadOut, Reads, RespCase};
use crate::respgen::{interesting_offsets, segment};
use crate::rng::Rng;
use crate::script::hex;
use crate::send::{run_send, BodyR, FinalObs, ProxyCfg, SendCase};

const TCHARS: &[u8] = b"!#$%&'*+-.^_`|~0123456789abcdefghijklmnopqrstuvwxyzABCDEFGHIJKLMNOPQRSTUVWXYZ";

#[derive(Clone, Debug)]
pub struct Field {
    pub name: Vec<u8>,
    pub pad_l: usize,
    pub value: Vec<u8>, // may contain bare LF continuations; no leading/trailing SP
    pub pad_r: usize,
}

#[derive(Clone, Debug)]
pub struct HeadSpec {
    pub version: Vec<u8>,
    pub sp1: usize,
    pub status: u16,
    pub reason: Vec<u8>,
    pub fields: Vec<Field>,
}

impl HeadSpec {
    pub fn wire(&self) -> Vec<u8> {
        let mut w = self.version.clone();
        w.extend(std::iter::repeat(b' ').take(self.sp1));
        w.extend_from_slice(self.status.to_string().as_bytes());
        if !self.reason.is_empty() {
            w.push(b' ');
            w.extend_from_slice(&self.reason);
        }
        w.extend_from_slice(b"\r\n");
        for f in &self.fields {
            w.extend_from_slice(&f.name);
            w.push(b':');
            w.extend(std::iter::repeat(b' ').take(f.pad_l));
            w.extend_from_slice(&f.value);
            w.extend(std::iter::repeat(b' ').take(f.pad_r));
            w.extend_from_slice(b"\r\n");
        }
        w.extend_from_slice(b"\r\n");
        w
    }
    /// what the caller must see: lower-cased names, LF -> SP, surrounding SP removed, TE hidden,
    /// per-name wire order
    pub fn expected(&self) -> Vec<(String, Vec<u8>)> {
        let mut v = vec![];
        for f in &self.fields {
            let name = String::from_utf8(f.name.to_ascii_lowercase()).unwrap();
            if name == "transfer-encoding" {
                continue;
            }
            let mut val: Vec<u8> = f.value.iter().map(|&b| if b == b'\n' { b' ' } else { b }).collect();
            while val.first() == Some(&b' ') {
                val.remove(0);
            }
            while val.last() == Some(&b' ') {
                val.pop();
            }
            v.push((name, val));
        }
        v
    }
}

fn gen_name(rng: &mut Rng) -> Vec<u8> {
    match rng.below(6) {
        0 => rng.pick(&[&b"Transfer-Encoding"[..], b"transfer-encoding", b"TRANSFER-ENCODING"]).to_vec(),
        1 => rng.pick(&[&b"Set-Cookie"[..], b"set-cookie", b"SET-COOKIE", b"X-Dup", b"x-dup"]).to_vec(),
        2 => rng.pick(&[&b"Content-Type"[..], b"Location", b"ETag", b"Content-Encoding-X", b"Content-Length", b"content-length", b"Content-Length", b"Keep-Alive", b"Upgrade", b"Proxy-Connection", b"Trailer", b"TE", b"Connection", b"Proxy-Authenticate"]).to_vec(),
        _ => {
            let n = rng.range(1, 24) as usize;
            (0..n).map(|_| *rng.pick(TCHARS)).collect()
        }
    }
}

fn gen_value(rng: &mut Rng, max: usize) -> Vec<u8> {
    let n = match rng.below(8) {
        0 => 0,
        1 => 1,
        2 => rng.range(200, 2000) as usize,
        _ => rng.range(1, 60) as usize,
    }
    .min(max);
    let mut v: Vec<u8> = (0..n)
        .map(|_| match rng.below(12) {
            0 => b' ',
            1 => b'\t',
            2 => rng.range(0x80, 0xff) as u8,
            3 => b':',
            _ => rng.range(0x21, 0x7e) as u8,
        })
        .collect();
    // bare-LF continuation inside the value
    if v.len() >= 3 && rng.chance(1, 6) {
        let k = rng.range(1, v.len() as u64 - 2) as usize;
        v[k] = b'\n';
        if v[k - 1] == b'\r' {
            v[k - 1] = b'a';
        }
    }
    while v.first() == Some(&b' ') {
        v.remove(0);
    }
    while v.last() == Some(&b' ') {
        v.pop();
    }
    // a fold at an EDGE of the value: the whole value on the continuation line (`X:\n    text`), or a fold with
    // nothing but blanks behind it — the bare LF becomes a blank like any other, and surrounding blanks are
    // not part of the value (seed C04-seed10: trimmed before the LF was turned into a blank)
    if !v.is_empty() && rng.chance(1, 8) {
        let mut w = vec![b'\n'];
        w.extend(std::iter::repeat(b' ').take(rng.below(5) as usize));
        w.extend_from_slice(&v);
        v = w;
    }
    if !v.is_empty() && v.last() != Some(&b'\r') && rng.chance(1, 8) {
        v.extend(std::iter::repeat(b' ').take(rng.below(3) as usize));
        v.push(b'\n');
    }
    v
}

pub fn gen_head(rng: &mut Rng, max_fields: usize, te_chunked_only: bool) -> HeadSpec {
    let status = match rng.below(4) {
        0 => rng.range(100, 999) as u16,
        1 => *rng.pick(&[100u16, 199, 200, 299, 300, 404, 500, 599, 600, 999]),
        _ => rng.range(200, 599) as u16,
    };
    let nf = match rng.below(5) {
        0 => 0,
        1 => max_fields,
        _ => rng.below(max_fields as u64 + 1) as usize,
    };
    let mut fields: Vec<Field> = (0..nf)
        .map(|_| {
            let name = gen_name(rng);
            let mut value = gen_value(rng, 3000);
            if te_chunked_only && name.eq_ignore_ascii_case(b"transfer-encoding") {
                value = b"identity".to_vec(); // keep the body close-delimited and the decoder plain
            }
            if name.eq_ignore_ascii_case(b"content-encoding") {
                value = b"0".to_vec();
            }
            // repeated Content-Length fields that agree (also in different spellings of the same number) are all
            // reported, in wire order; the body of these heads is empty
            if name.eq_ignore_ascii_case(b"content-length") {
                value = rng.pick(&[&b"0"[..], b"0", b"00", b"000"]).to_vec();
            }
            Field { name, pad_l: rng.below(3) as usize, value, pad_r: rng.below(3) as usize }
        })
        .collect();
    // a `Connection` field whose options name other fields of this very head (RFC 9110 §7.6.1 lets a sender
    // nominate fields as hop-by-hop): the client still reports every field it was sent, only
    // Transfer-Encoding is hidden
    if nf >= 2 && rng.chance(1, 5) {
        let k = rng.below(nf as u64) as usize;
        let mut opts: Vec<Vec<u8>> = vec![];
        for (i, f) in fields.iter().enumerate() {
            if i != k && rng.chance(2, 3) {
                let mut n = f.name.clone();
                match rng.below(3) {
                    0 => n.make_ascii_lowercase(),
                    1 => n.make_ascii_uppercase(),
                    _ => {}
                }
                opts.push(n);
            }
        }
        opts.insert(rng.below(opts.len() as u64 + 1) as usize, rng.pick(&[&b"close"[..], b"keep-alive", b"Keep-Alive"]).to_vec());
        fields[k].name = rng.pick(&[&b"Connection"[..], b"connection", b"CONNECTION"]).to_vec();
        fields[k].value = opts.join(&b", "[..]);
    }
    // sometimes a header block well above the 8 KiB BufReader
    if rng.chance(1, 10) && nf > 0 {
        for f in fields.iter_mut().take(6) {
            if f.name.eq_ignore_ascii_case(b"content-length") || f.name.eq_ignore_ascii_case(b"content-encoding") || f.name.eq_ignore_ascii_case(b"transfer-encoding") {
                continue;
            }
            let n = rng.range(3000, 9000) as usize;
            f.value = (0..n).map(|_| rng.range(0x21, 0x7e) as u8).collect();
        }
    }
    HeadSpec {
        version: rng.pick(&[&b"HTTP/1.1"[..], b"HTTP/1.0", b"HTTP/2", b"ICY", b"http/1.1", b"X"]).to_vec(),
        sp1: *rng.pick(&[1usize, 1, 1, 2, 3]),
        status,
        reason: rng.pick(&[&b"OK"[..], b"", b"Not Found", b"A  B   C", b"\xe9t\xe9", b"200 300"]).to_vec(),
        fields,
    }
}

pub fn compare(exp: &[(String, Vec<u8>)], got: &[(String, Vec<u8>)]) -> Option<String> {
    // per-name sequences must be equal; cross-name order is not part of the contract
    let names: std::collections::BTreeSet<&String> = exp.iter().map(|p| &p.0).chain(got.iter().map(|p| &p.0)).collect();
    for n in names {
        let e: Vec<&Vec<u8>> = exp.iter().filter(|p| &p.0 == n).map(|p| &p.1).collect();
        let g: Vec<&Vec<u8>> = got.iter().filter(|p| &p.0 == n).map(|p| &p.1).collect();
        if e != g {
            return Some(format!(
                "field {:?}: sent {:?}, reported {:?}",
                n,
                e.iter().map(|v| hex(v)).collect::<Vec<_>>(),
                g.iter().map(|v| hex(v)).collect::<Vec<_>>()
            ));
        }
    }
    None
}

pub fn generate(seed: u64, tier: &str, sink: &mut Sink) {
    let mut rng = Rng::new(seed ^ 0xC04);
    let thorough = tier == "thorough";
    // exhaustive status codes (three digits) + malformed code shapes
    for st in 0..1000u32 {
        let code = format!("{:03}", st);
        let wire = format!("HTTP/1.1 {} R\r\nX-A: b\r\n\r\n", code).into_bytes();
        // every fourth code answers a POST / PUT that carried content (the resp op attaches content to those two
        // methods when the response comes in one segment): the status reported is the status sent, whatever the
        // request was — interim codes included (seed C04-seed9)
        let method = match st % 4 { 0 => "POST", 1 => "PUT", _ => "GET" };
        let case = RespCase { method: method.into(), max_headers: 100, segs: vec![crate::script::Seg::Data(wire)], reads: Reads::Sizes(vec![]) };
        let out = run_resp(&case);
        let o = match (&out.head, st >= 100) {
            (HeadOut::Ok(s), true) if *s as u32 == st => Ok(()),
            (HeadOut::Err(k), false) if k == "statusCode" => Ok(()),
            (h, _) => Err(("status-code".to_string(), format!("status {} reported as {:?}", code, h))),
        };
        sink.push(Case { tags: vec!["kind=status-sweep".into()], op: case.op_line(), impl_line: out.line(), oracle: o });
    }
    for code in ["20", "2000", "2 0", "20x", "-20", "+20", "２００"] {
        let wire = format!("HTTP/1.1 {} R\r\n\r\n", code).into_bytes();
        let case = RespCase { method: "GET".into(), max_headers: 100, segs: vec![crate::script::Seg::Data(wire)], reads: Reads::Sizes(vec![]) };
        let out = run_resp(&case);
        let o = match &out.head {
            HeadOut::Err(_) => Ok(()),
            h => Err(("status-code".to_string(), format!("malformed status {:?} reported as {:?}", code, h))),
        };
        sink.push(Case { tags: vec!["kind=status-malformed".into()], op: case.op_line(), impl_line: out.line(), oracle: o });
    }
    // max_headers is a caller-chosen `usize` ("no limit" is spelled usize::MAX): whatever its size, a head with a
    // few fields is reported as sent (seed C04-seed12: the header map pre-sized from the limit, refused beyond 24 576)
    for mh in [0usize, 1, 2, 3, 24_575, 24_576, 24_577, 32_767, 32_768, 32_769, 65_536, 1 << 24, u32::MAX as usize, usize::MAX / 2, usize::MAX] {
        for (k, wire) in [&b"HTTP/1.1 200 OK\r\nX-A: b\r\nx-a: c\r\nContent-Length: 0\r\n\r\n"[..], b"HTTP/1.1 404 Not Found\r\n\r\n", b"HTTP/1.1 200 OK\r\nServer: s\r\n\r\n"].iter().enumerate() {
            let nfields = [3usize, 0, 1][k];
            let case = RespCase { method: "GET".into(), max_headers: mh, segs: vec![crate::script::Seg::Data(wire.to_vec())], reads: Reads::Sizes(vec![]) };
            let out = run_resp(&case);
            let o = match &out.head {
                HeadOut::Panic => Err(("panic".to_string(), format!("max_headers {}", mh))),
                HeadOut::Ok(_) if nfields <= mh => Ok(()),
                HeadOut::Err(_) if nfields > mh => Ok(()),
                h => Err(("valid-head-rejected".to_string(), format!("max_headers {}: a head with {} fields gave {:?}", mh, nfields, h))),
            };
            sink.push(Case { tags: vec!["kind=limit-size".into(), format!("max_headers={}", if mh > 100_000 { "huge".to_string() } else { mh.to_string() })], op: case.op_line(), impl_line: out.line(), oracle: o });
        }
    }
    // the same for a response that reaches the client through a proxy (plain http, absolute-form request): what the
    // proxy relays — or says itself, a 407 included — is a response like any other, status and fields reported
    // as sent (seed C04-seed13: a 407 on that route turned into a connect error, its fields lost)
    for st in [200u16, 401, 403, 404, 407, 407, 502, 503, 511, 305] {
        for with_proxy in [true, false] {
            let wire = format!("HTTP/1.1 {} X\r\nProxy-Authenticate: Basic realm=\"p\"\r\nX-A: b\r\nContent-Length: 2\r\n\r\nno", st).into_bytes();
            let case = SendCase {
                method: "GET".into(),
                url: "http://origin.test/x".into(),
                follow: false,
                max_redirections: 5,
                max_headers: 100,
                compress: false,
                proxy: ProxyCfg { http: if with_proxy { Some("http://pu:pw@proxy.test:3128".into()) } else { None }, https: None, no_proxy: vec![] },
                params: vec![],
                pre: vec![],
                body: BodyR::Empty,
                post: vec![],
                hops: vec![(vec![crate::script::Seg::Data(wire)], None)],
                plain_tunnel: false,
            };
            let obs = run_send(&case);
            let o = match &obs.fin {
                FinalObs::Ok(s, _) if *s == st => obs.resend_check("relayed"),
                f => Err(("status-code".to_string(), format!("status {} {} reported as {:?}", st, if with_proxy { "relayed by a proxy" } else { "sent by the origin" }, f))),
            };
            sink.push(Case { tags: vec!["kind=status-via-proxy".into(), format!("proxy={}", with_proxy)], op: case.op_line(&obs), impl_line: obs.line(), oracle: o });
        }
    }
    let n = if thorough { 40_000 } else { 3000 };
    for _ in 0..n {
        let max_headers = *rng.pick(&[1usize, 2, 5, 100, 100, 100]);
        let cap = if rng.chance(1, 8) { 100 } else { 12 };
        let mut head = gen_head(&mut rng, max_headers.min(cap), true);
        // lines of exactly the length the client accepts, and one / two bytes less (the limit includes the CRLF)
        let limit = crate::consts().max_line_len;
        let exact = rng.chance(1, 8);
        if exact {
            let short = rng.below(3) as usize;
            if !head.fields.is_empty() && rng.chance(3, 4) {
                let k = rng.below(head.fields.len() as u64) as usize;
                let f = &mut head.fields[k];
                if !f.name.eq_ignore_ascii_case(b"content-length") && !f.name.eq_ignore_ascii_case(b"content-encoding") && !f.name.eq_ignore_ascii_case(b"transfer-encoding") {
                    let fixed = f.name.len() + 1 + f.pad_l + f.pad_r + 2;
                    f.value = (0..(limit - short - fixed)).map(|i| b'a' + (i % 26) as u8).collect();
                }
            } else {
                let fixed = head.version.len() + head.sp1 + head.status.to_string().len() + 1 + 2;
                head.reason = (0..(limit - short - fixed)).map(|i| b'A' + (i % 26) as u8).collect();
            }
        }
        let wire = head.wire();
        let too_long = wire.split(|&b| b == b'\n').any(|l| l.len() + 1 > crate::consts().max_line_len);
        if too_long {
            continue;
        }
        let (segs, segname) = segment(&mut rng, &wire, &interesting_offsets(&wire, wire.len()));
        let case = RespCase { method: "GET".into(), max_headers, segs, reads: Reads::Sizes(vec![]) };
        let out = run_resp(&case);
        let exp = head.expected();
        let o = match &out.head {
            HeadOut::Ok(s) if *s == head.status => match compare(&exp, &out.headers) {
                None => Ok(()),
                Some(d) => Err(("header-mismatch".to_string(), d)),
            },
            h => Err(("valid-head-rejected".to_string(), format!("{} fields (max_headers {}) status {}: send() gave {:?}", head.fields.len(), max_headers, head.status, h))),
        };
        sink.push(Case {
            tags: vec![
                "kind=valid-head".into(),
                format!("seg={}", segname),
                format!("fields={}", match head.fields.len() { 0 => "0", 1..=5 => "1-5", 6..=20 => "6-20", _ => ">20" }),
                format!("at-max={}", head.fields.len() == max_headers),
                format!("line-at-limit={}", exact),
                format!("block>8K={}", wire.len() > 8192),
                format!("lf-continuation={}", head.fields.iter().any(|f| f.value.contains(&b'\n'))),
                format!("obs-text={}", head.fields.iter().any(|f| f.value.iter().any(|&b| b >= 0x80))),
                format!("connection-field={}", head.fields.iter().any(|f| f.name.eq_ignore_ascii_case(b"connection"))),
                if head.fields.is_empty() { "trivial".into() } else { "nontrivial".into() },
            ],
            op: case.op_line(),
            impl_line: out.line(),
            oracle: o,
        });
    }
}
