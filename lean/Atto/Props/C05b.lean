/-
  Atto/Props/C05b.lean — "hostile peers cannot balloon the client", the header-field limit for ANY
  field lines: `max_headers` counts every field line, also the ones that are dropped because their
  name is not a token, so a peer cannot make the head parser read an unbounded number of lines by
  sending lines that are never stored.
  Helper lemmas: Lemmas/FieldLines.lean (`FieldLinesOK`, `renderLines` are defined there).
-/
import Atto.Lemmas.FieldLines
import Atto.Lemmas.ExampleData
namespace Atto

/-- After the status line, ANY `mh + 1` or more field lines (whatever their content — valid, invalid
    name, no colon, bad value) make the head parser stop with an error after at most `mh + 1` of them:
    nothing behind them (`rest`, arbitrary, possibly endless) is consumed. Flat stream. -/
theorem C05_field_lines_bounded_flat (statusLine : Bytes) (lines : List Bytes) (rest : List Item) (mh : Nat)
    (hs : (10 : UInt8) ∉ statusLine ∧ statusLine.length + 2 ≤ Consts.maxLineLen ∧
      (∃ c, parseStatusLine statusLine = .ok c))
    (hl : FieldLinesOK lines) (hn : mh < lines.length) :
    ∃ e k, k ≤ mh ∧
      parseResponseHead flatSrc (bytesI (statusLine ++ [13, 10] ++ renderLines lines) ++ rest) mh =
        (.err e, bytesI (renderLines (lines.drop (k + 1))) ++ rest) :=
  head_lines_bounded statusLine lines rest mh hs hl hn

namespace C05b
deriving instance DecidableEq for RR
/-- `HTTP/1.1 200 OK` -/
def exStatus : Bytes := str "HTTP/1.1 200 OK"
/-- a line whose name is not a token (dropped, but counted), a valid field, a line without colon -/
def exLines : List Bytes := [str "x y: v", str "A: b", str "nocolon"]
/-- what follows: bytes, an error, more bytes, silence -/
def exRest : List Item := [.byte 1, .byte 2, .err 5, .byte 3, .pause]
/-- a segmentation of the whole stream: 9 bytes, 20 bytes, the rest of the lines, then `exRest` -/
def exT : Transport :=
  let w := exStatus ++ [13, 10] ++ renderLines exLines
  [.data (w.take 9), .data ((w.drop 9).take 20), .data (w.drop 29), .data [1, 2], .err 5, .data [3], .pause]
end C05b

/-- non-vacuity, `max_headers = 1` (stops at the second line, counted although the first was dropped) -/
example := C05_field_lines_bounded_flat C05b.exStatus C05b.exLines C05b.exRest 1
  ⟨by decide +kernel, by decide +kernel, 200, by decide +kernel⟩ (by decide +kernel) (by decide)

/-- non-vacuity, `max_headers = 2` (stops at the third line) -/
example := C05_field_lines_bounded_flat C05b.exStatus C05b.exLines C05b.exRest 2
  ⟨by decide +kernel, by decide +kernel, 200, by decide +kernel⟩ (by decide +kernel) (by decide)

/-- The same on the real reader (BufReader over any segmentation `t` of the stream, any capacity):
    the head parser returns an error after at most `mh + 1` field lines, and the position in the
    stream (`flat`) is right behind that line — the remaining lines and `rest` are not consumed. -/
theorem C05_field_lines_bounded (statusLine : Bytes) (lines : List Bytes) (rest : List Item) (mh : Nat)
    (t : Transport) (cap : Nat) (hw : wfT t) (hc : 0 < cap)
    (hs : (10 : UInt8) ∉ statusLine ∧ statusLine.length + 2 ≤ Consts.maxLineLen ∧
      (∃ c, parseStatusLine statusLine = .ok c))
    (hl : FieldLinesOK lines) (hn : mh < lines.length)
    (hflat : flatT t = bytesI (statusLine ++ [13, 10] ++ renderLines lines) ++ rest) :
    ∃ e k r', k ≤ mh ∧ parseResponseHead bufSrc { buf := [], cap := cap, inner := t } mh = (.err e, r') ∧
      r'.flat = bytesI (renderLines (lines.drop (k + 1))) ++ rest := by
  obtain ⟨e, k, hk, hr⟩ := C05_field_lines_bounded_flat statusLine lines rest mh hs hl hn
  obtain ⟨r', h1, h2, _⟩ := head_buf_flat_eq (BufR.fresh cap t) mh (BufR.fresh_ok cap t hw hc)
    (.err e) _ (by rw [BufR.fresh_flat, hflat]; exact hr)
  exact ⟨e, k, r', hk, h1, h2⟩

/-- non-vacuity: the three lines cut into segments, capacity 4, `max_headers = 2` -/
example := C05_field_lines_bounded C05b.exStatus C05b.exLines C05b.exRest 2 C05b.exT 4
  (by decide +kernel) (by decide)
  ⟨by decide +kernel, by decide +kernel, 200, by decide +kernel⟩ (by decide +kernel) (by decide)
  (by decide +kernel)

/-- … and where it stops on this input: `Header` after 2 resp. 3 lines; the stream position is right
    behind that line (evaluated on the real reader) -/
example : (parseResponseHead bufSrc { buf := [], cap := 4, inner := C05b.exT } 1).1 = .err .header ∧
    (parseResponseHead bufSrc { buf := [], cap := 4, inner := C05b.exT } 1).2.flat =
      bytesI (renderLines (C05b.exLines.drop 2)) ++ C05b.exRest := by decide +kernel
example : (parseResponseHead bufSrc { buf := [], cap := 4, inner := C05b.exT } 2).1 = .err .header ∧
    (parseResponseHead bufSrc { buf := [], cap := 4, inner := C05b.exT } 2).2.flat =
      bytesI (renderLines (C05b.exLines.drop 3)) ++ C05b.exRest := by decide +kernel

end Atto
