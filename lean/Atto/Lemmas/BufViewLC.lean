/-
  Atto/Lemmas/BufViewLC.lean — the `BufRead` view (`fill_buf` / `consume`) of `Content-Length` and
  close-delimited bodies over the BufReader model: one-step lemmas against the flat stream and the
  run lemmas behind Props/BufView (b2)–(b5).
-/
import Atto.Lemmas.BufViewRun
namespace Atto

/-! ## list helpers -/

theorem bytesI_take_prefix (a : Bytes) : ∀ (b : Bytes) (X Y : List Item),
    bytesI a ++ X = bytesI b ++ Y → a.take b.length <+: b := by
  induction a with
  | nil => intro b X Y _; simp
  | cons x a ih =>
    intro b X Y h
    cases b with
    | nil => simp
    | cons y b =>
      simp only [bytesI, List.map_cons, List.cons_append, List.cons.injEq, Item.byte.injEq] at h
      obtain ⟨rfl, h⟩ := h
      simp only [List.length_cons, List.take_succ_cons]
      exact List.cons_prefix_cons.2 ⟨rfl, ih b X Y h⟩

theorem take_ne_nil {α : Type} {l : List α} {n : Nat} (hl : l ≠ []) (hn : n ≠ 0) : l.take n ≠ [] := by
  cases l with
  | nil => exact absurd rfl hl
  | cons a l =>
    cases n with
    | zero => exact absurd rfl hn
    | succ n => simp

theorem bufr_flat_eq (r : BufR) : r.flat = bytesI r.buf ++ flatT r.inner := rfl

theorem consume_flat (r : BufR) (k : Nat) :
    bytesI (r.buf.take k) ++ (r.consume k).flat = r.flat := by
  simp only [BufR.flat, BufR.consume, bytesI]
  rw [← List.append_assoc, ← List.map_append, List.take_append_drop]

theorem consume_ok (r : BufR) (k : Nat) (h : r.Ok) : (r.consume k).Ok := h

/-- consuming within what is still to come of the frame -/
theorem consume_split (r : BufR) (k : Nat) (rem : Bytes) (trail : List Item)
    (hfl : r.flat = bytesI rem ++ trail) (hk : (r.buf.take k).length ≤ rem.length) :
    rem = r.buf.take k ++ rem.drop (r.buf.take k).length ∧
    (r.consume k).flat = bytesI (rem.drop (r.buf.take k).length) ++ trail :=
  bytesI_split _ rem _ trail ((consume_flat r k).trans hfl) hk

theorem buf_length_le (r : BufR) (rem : Bytes) (hfl : r.flat = bytesI rem) :
    r.buf.length ≤ rem.length := by
  have := congrArg List.length hfl
  simp only [BufR.flat, bytesI, List.length_append, List.length_map] at this
  omega

/-- `BufReader::fill_buf` never panics -/
theorem bufr_fillBuf_ne_panic (r : BufR) (h : r.Ok) : r.fillBuf.1 ≠ .panic := by
  have hm := (fillBuf_spec r h).2.2.2
  rcases hfl : r.flat with _ | ⟨(b | k | _), rest⟩ <;> rw [hfl] at hm <;> simp only at hm <;>
    rw [hm.1] <;> simp

/-! ## `fill_buf` on the two framings -/

/-- close-delimited, a byte ahead: the (non-empty) buffered bytes, the stream is untouched -/
theorem close_fill_byte (r : BufR) (m : Nat) (h : r.Ok) (c : UInt8) (F : List Item)
    (hfl : r.flat = .byte c :: F) :
    ∃ r', (Body.close r).fillBuf m = (.ok r'.buf, .close r') ∧ r'.Ok ∧ r'.buf ≠ [] ∧
      r'.flat = r.flat := by
  obtain ⟨hok, _, _, hm⟩ := fillBuf_spec r h
  rcases hfb : r.fillBuf with ⟨res, r'⟩
  rw [hfb] at hok hm
  rw [hfl] at hm
  simp only at hm hok
  obtain ⟨rfl, hb, hf'⟩ := hm
  exact ⟨r', by simp only [Body.fillBuf, hfb], hok, hb, by rw [hf', hfl]⟩

/-- close-delimited, end of the stream: an empty slice -/
theorem close_fill_eof (r : BufR) (m : Nat) (h : r.Ok) (hfl : r.flat = []) :
    ∃ r', (Body.close r).fillBuf m = (.ok [], .close r') ∧ r'.Ok ∧ r'.flat = [] := by
  obtain ⟨hok, _, _, hm⟩ := fillBuf_spec r h
  rcases hfb : r.fillBuf with ⟨res, r'⟩
  rw [hfb] at hok hm
  rw [hfl] at hm
  simp only at hm hok
  obtain ⟨rfl, hb, hf'⟩ := hm
  exact ⟨r', by simp only [Body.fillBuf, hfb, hb], hok, hf'⟩

theorem length_fill_zero (r : BufR) (m : Nat) :
    (Body.length r 0).fillBuf m = (.ok [], .length r 0) := by
  simp [Body.fillBuf]

/-- `Content-Length`, limit not exhausted, a byte ahead: the buffered bytes cut to the limit -/
theorem length_fill_byte (r : BufR) (lim m : Nat) (h : r.Ok) (hl : lim ≠ 0) (c : UInt8)
    (F : List Item) (hfl : r.flat = .byte c :: F) :
    ∃ r', (Body.length r lim).fillBuf m = (.ok (r'.buf.take lim), .length r' lim) ∧ r'.Ok ∧
      r'.buf.take lim ≠ [] ∧ r'.flat = r.flat := by
  obtain ⟨hok, _, _, hm⟩ := fillBuf_spec r h
  rcases hfb : r.fillBuf with ⟨res, r'⟩
  rw [hfb] at hok hm
  rw [hfl] at hm
  simp only at hm hok
  obtain ⟨rfl, hb, hf'⟩ := hm
  exact ⟨r', by simp only [Body.fillBuf, hl, if_false, hfb, hb], hok, take_ne_nil hb hl,
    by rw [hf', hfl]⟩

/-- `Content-Length`, limit not exhausted, end of the stream: `UnexpectedEof` -/
theorem length_fill_eof (r : BufR) (lim m : Nat) (h : r.Ok) (hl : lim ≠ 0) (hfl : r.flat = []) :
    ∃ r', (Body.length r lim).fillBuf m = (.err .eof, .length r' lim) ∧ r'.Ok ∧ r'.flat = [] := by
  obtain ⟨hok, _, _, hm⟩ := fillBuf_spec r h
  rcases hfb : r.fillBuf with ⟨res, r'⟩
  rw [hfb] at hok hm
  rw [hfl] at hm
  simp only at hm hok
  obtain ⟨rfl, hb, hf'⟩ := hm
  exact ⟨r', by simp only [Body.fillBuf, hl, if_false, hfb, hb, if_true], hok, hf'⟩

/-! ## reads, as `BEv` -/

theorem ofRead_of_ofRR {res : RR Bytes} {bs : Bytes} (h : Ev.ofRR res = .ok bs) :
    BEv.ofRead res = .got bs := by
  cases res <;> simp [Ev.ofRR] at h
  rw [h]; rfl

theorem qclean_got (n : Nat) (rem bs : Bytes) (h : 0 < n → (bs = [] ↔ rem = [])) :
    QClean (.read n) rem (.got bs) := by
  refine ⟨rfl, (by intro bs' h'; cases h'), (by intro h'; cases h'), ?_⟩
  intro n' hn' hpos
  cases hn'
  simp only [BEv.got.injEq]
  exact h hpos

theorem qclean_took (k : Nat) (rem bs : Bytes) : QClean (.consume k) rem (.took bs) :=
  ⟨rfl, (by intro bs' h'; cases h'), (by intro h'; cases h'), (by intro n h'; cases h')⟩

theorem qclean_peek (rem bs : Bytes) (hp : bs <+: rem) (h : bs = [] ↔ rem = []) :
    QClean .fill rem (.peek bs) := by
  refine ⟨rfl, ?_, ?_, (by intro n h'; cases h')⟩
  · intro bs' h'; cases h'; exact hp
  · intro _; simp only [BEv.peek.injEq]; exact h

/-! ## Complete close-delimited bodies (b3) -/

def CloseClean (b : Body) (rem : Bytes) : Prop := ∃ r, b = .close r ∧ r.Ok ∧ r.flat = bytesI rem

theorem close_clean_step (m : Nat) (b : Body) (rem : Bytes) (op : BOp) (h : CloseClean b rem) :
    QClean op rem (b.step m op).1 ∧
    ∃ rem', CloseClean (b.step m op).2 rem' ∧ rem = (b.step m op).1.taken ++ rem' := by
  obtain ⟨r, rfl, hok, hfl⟩ := h
  cases op with
  | read n =>
    obtain ⟨⟨bs, hres, _, hiff⟩, rem', hinv', hrem⟩ := clean_step m (.close r) rem n ⟨hok, hfl⟩
    rw [step_read]
    simp only [BEv.ofRead_taken]
    refine ⟨?_, rem', ?_, hrem⟩
    · rw [ofRead_of_ofRR hres]; exact qclean_got n rem bs hiff
    · rw [close_read_eq] at hinv' ⊢
      exact ⟨_, rfl, hinv'.1, hinv'.2⟩
  | fill =>
    rw [step_fill]
    simp only [BEv.ofFill_taken, List.nil_append]
    cases rem with
    | nil =>
      obtain ⟨r', hfb, hok', hf'⟩ := close_fill_eof r m hok (by simpa [bytesI] using hfl)
      rw [hfb]
      exact ⟨qclean_peek [] [] (List.prefix_refl _) (by simp), [], ⟨r', rfl, hok', hf'⟩, rfl⟩
    | cons c rem =>
      have hfl' : r.flat = bytesI (c :: rem) ++ [] := by simpa using hfl
      obtain ⟨r', hfb, hok', hne, hf'⟩ := close_fill_byte r m hok c _ (flat_cons_of hfl')
      rw [hfb]
      have hp : r'.buf <+: c :: rem := by
        have h1 : bytesI r'.buf ++ flatT r'.inner = bytesI (c :: rem) ++ [] := by
          rw [← bufr_flat_eq, hf', hfl']
        have := bytesI_take_prefix r'.buf (c :: rem) _ _ h1
        rwa [List.take_of_length_le (buf_length_le r' (c :: rem) (by rw [hf', hfl]))] at this
      refine ⟨qclean_peek _ _ hp ⟨fun h => absurd h hne, fun h => by cases h⟩, c :: rem,
        ⟨r', rfl, hok', by rw [hf', hfl]⟩, rfl⟩
  | consume k =>
    rw [step_consume]
    simp only [BEv.taken, Body.window, Body.consume]
    have hk : (r.buf.take k).length ≤ rem.length := by
      have := buf_length_le r rem hfl
      simp only [List.length_take]; omega
    obtain ⟨hs1, hs2⟩ := consume_split r k rem [] (by simpa using hfl) hk
    exact ⟨qclean_took _ _ _, _, ⟨_, rfl, consume_ok r k hok, by simpa using hs2⟩, hs1⟩

/-! ## Complete `Content-Length` bodies, consumer within the `consume` contract (b2) -/

def LengthClean (b : Body) (rem : Bytes) : Prop :=
  ∃ r lim, b = .length r lim ∧ r.Ok ∧ lim = rem.length ∧ ∃ trail, r.flat = bytesI rem ++ trail

theorem length_clean_step (m : Nat) (b : Body) (rem : Bytes) (op : BOp) (h : LengthClean b rem)
    (ha : b.allows op) :
    QClean op rem (b.step m op).1 ∧
    ∃ rem', LengthClean (b.step m op).2 rem' ∧ rem = (b.step m op).1.taken ++ rem' := by
  obtain ⟨r, lim, rfl, hok, hlim, trail, hfl⟩ := h
  cases op with
  | read n =>
    obtain ⟨⟨bs, hres, _, hiff⟩, rem', hinv', hrem⟩ :=
      clean_step m (.length r lim) rem n ⟨hok, hlim, trail, hfl⟩
    rw [step_read]
    simp only [BEv.ofRead_taken]
    refine ⟨?_, rem', ?_, hrem⟩
    · rw [ofRead_of_ofRR hres]; exact qclean_got n rem bs hiff
    · rcases hb' : (Body.length r lim).read m n with ⟨res, b'⟩
      rw [hb'] at hinv'
      cases b' with
      | chunked c => exact hinv'.elim
      | close r' =>
        exfalso
        simp only [Body.read] at hb'
        split at hb'
        · cases hb'
        · split at hb' <;> (try split at hb') <;> (try split at hb') <;> cases hb'
      | length r' lim' => exact ⟨r', lim', rfl, hinv'⟩
  | fill =>
    rw [step_fill]
    simp only [BEv.ofFill_taken, List.nil_append]
    cases rem with
    | nil =>
      simp only [List.length_nil] at hlim; subst hlim
      rw [length_fill_zero]
      exact ⟨qclean_peek [] [] (List.prefix_refl _) (by simp), [],
        ⟨r, 0, rfl, hok, rfl, trail, hfl⟩, rfl⟩
    | cons c rem =>
      have hl0 : lim ≠ 0 := by simp [hlim]
      obtain ⟨r', hfb, hok', hne, hf'⟩ := length_fill_byte r lim m hok hl0 c _ (flat_cons_of hfl)
      rw [hfb]
      have hp : r'.buf.take lim <+: c :: rem := by
        have h1 : bytesI r'.buf ++ flatT r'.inner = bytesI (c :: rem) ++ trail := by
          rw [← bufr_flat_eq, hf', hfl]
        rw [hlim]
        exact bytesI_take_prefix r'.buf (c :: rem) _ _ h1
      refine ⟨qclean_peek _ _ hp ⟨fun h => absurd h hne, fun h => by cases h⟩, c :: rem,
        ⟨r', lim, rfl, hok', hlim, trail, by rw [hf', hfl]⟩, rfl⟩
  | consume k =>
    rw [step_consume]
    simp only [Body.allows, List.length_take] at ha
    have hkl : min k lim = k := by omega
    have hw : (r.buf.take lim).take k = r.buf.take k := by rw [List.take_take, hkl]
    simp only [BEv.taken, Body.window, Body.consume, hkl, hw]
    have hk : (r.buf.take k).length ≤ rem.length := by
      simp only [List.length_take]; omega
    obtain ⟨hs1, hs2⟩ := consume_split r k rem trail hfl hk
    refine ⟨qclean_took _ _ _, _, ⟨_, _, rfl, consume_ok r k hok, ?_, trail, hs2⟩, hs1⟩
    simp only [List.length_drop, List.length_take]; omega

/-! ## A `Content-Length` body closed early, consumer within the contract (b4) -/

def QCut (op : BOp) (rem : Bytes) (e : BEv) : Prop :=
  e ≠ .peek [] ∧ e ≠ .panic ∧ (∀ n, op = .read n → 0 < n → e ≠ .got []) ∧
  (op = .fill → rem = [] → e = .err .eof) ∧
  (∀ n, op = .read n → 0 < n → rem = [] → e = .err .eof)

theorem cut_buf_step (m : Nat) (b : Body) (rem : Bytes) (op : BOp) (h : BodyCut b rem)
    (ha : b.allows op) :
    QCut op rem (b.step m op).1 ∧
    ∃ rem', BodyCut (b.step m op).2 rem' ∧ rem = (b.step m op).1.taken ++ rem' := by
  cases b with
  | chunked c => exact h.elim
  | close r => exact h.elim
  | length r lim =>
    obtain ⟨hok, hlim, hfl⟩ := h
    cases op with
    | read n =>
      obtain ⟨⟨hq1, hq2, hq3, _⟩, rem', hinv', hrem⟩ :=
        cut_step m (.length r lim) rem n ⟨hok, hlim, hfl⟩
      rw [step_read]
      simp only [BEv.ofRead_taken]
      refine ⟨?_, rem', hinv', hrem⟩
      generalize (Body.length r lim).read m n = p at hq1 hq2 hq3 ⊢
      obtain ⟨res, b'⟩ := p
      simp only at hq1 hq2 hq3 ⊢
      cases res with
      | ok bs =>
        refine ⟨by simp [BEv.ofRead], by simp [BEv.ofRead], ?_, (by intro h'; cases h'), ?_⟩
        · intro n' hn' hpos hc
          cases hn'
          simp only [BEv.ofRead, BEv.got.injEq] at hc
          exact hq2 hpos (by rw [hc]; rfl)
        · intro n' hn' hpos hr
          cases hn'
          exact absurd (hq3 hpos hr) (by simp [Ev.ofRR])
      | err e =>
        refine ⟨by simp [BEv.ofRead], by simp [BEv.ofRead], by simp [BEv.ofRead],
          (by intro h'; cases h'), ?_⟩
        intro n' hn' hpos hr
        cases hn'
        have := hq3 hpos hr
        simp only [Ev.ofRR, Ev.err.injEq] at this
        rw [this]; rfl
      | blocked =>
        refine ⟨by simp [BEv.ofRead], by simp [BEv.ofRead], by simp [BEv.ofRead],
          (by intro h'; cases h'), ?_⟩
        intro n' hn' hpos hr
        cases hn'
        exact absurd (hq3 hpos hr) (by simp [Ev.ofRR])
      | panic => exact absurd rfl hq1
    | fill =>
      rw [step_fill]
      simp only [BEv.ofFill_taken, List.nil_append]
      have hl0 : lim ≠ 0 := by omega
      cases rem with
      | nil =>
        obtain ⟨r', hfb, hok', hf'⟩ := length_fill_eof r lim m hok hl0 (by simpa [bytesI] using hfl)
        rw [hfb]
        refine ⟨⟨by simp [BEv.ofFill], by simp [BEv.ofFill], (by intro n h'; cases h'),
          fun _ _ => rfl, (by intro n h'; cases h')⟩, [], ⟨hok', hlim, by simpa [bytesI] using hf'⟩, rfl⟩
      | cons c rem =>
        have hfl' : r.flat = bytesI (c :: rem) ++ [] := by simpa using hfl
        obtain ⟨r', hfb, hok', hne, hf'⟩ :=
          length_fill_byte r lim m hok hl0 c _ (flat_cons_of hfl')
        rw [hfb]
        refine ⟨⟨?_, by simp [BEv.ofFill], (by intro n h'; cases h'), (by intro _ h'; cases h'),
          (by intro n h'; cases h')⟩, c :: rem, ⟨hok', hlim, by rw [hf', hfl]⟩, rfl⟩
        simp only [BEv.ofFill, ne_eq, BEv.peek.injEq]
        exact hne
    | consume k =>
      rw [step_consume]
      simp only [Body.allows, List.length_take] at ha
      have hkl : min k lim = k := by omega
      have hw : (r.buf.take lim).take k = r.buf.take k := by rw [List.take_take, hkl]
      simp only [BEv.taken, Body.window, Body.consume, hkl, hw]
      have hbl := buf_length_le r rem hfl
      have hk : (r.buf.take k).length ≤ rem.length := by
        simp only [List.length_take]; omega
      obtain ⟨hs1, hs2⟩ := consume_split r k rem [] (by simpa using hfl) hk
      refine ⟨⟨by simp, by simp, (by intro n h'; cases h'), (by intro h'; cases h'),
        (by intro n h'; cases h')⟩, _, ⟨consume_ok r k hok, ?_, by simpa using hs2⟩, hs1⟩
      simp only [List.length_drop, List.length_take]; omega

/-- (b4) at the level of `Body` -/
theorem cut_buf_run (m : Nat) (ops : List BOp) (b : Body) (rem : Bytes) (h : BodyCut b rem)
    (ha : runA Body.allows m ops b) :
    let evs := (bufRun m ops b).1
    (∀ e ∈ evs, e ≠ .peek [] ∧ e ≠ .panic) ∧
    (∀ (i n' : Nat), ops[i]? = some (BOp.read n') → 0 < n' → evs[i]? ≠ some (BEv.got [])) ∧
    takenEv evs <+: rem ∧
    (∀ i : Nat, ops[i]? = some BOp.fill → takenEv (evs.take i) = rem →
        evs[i]? = some (BEv.err .eof)) ∧
    (∀ (i n' : Nat), ops[i]? = some (BOp.read n') → 0 < n' → takenEv (evs.take i) = rem →
        evs[i]? = some (BEv.err .eof)) := by
  intro evs
  obtain ⟨h1, h2⟩ := bufRun_inv m Body.allows BodyCut QCut (cut_buf_step m) ops b rem h ha
  refine ⟨?_, ?_, h1, ?_, ?_⟩
  · intro e he
    obtain ⟨i, hi, hie⟩ := mem_bufRun_getElem? he
    obtain ⟨e', he', _, hq1, hq2, _⟩ := h2 i hi
    rw [hie] at he'
    cases he'
    exact ⟨hq1, hq2⟩
  · intro i n hop hn hev
    obtain ⟨hi, hopi⟩ := List.getElem?_eq_some_iff.1 hop
    obtain ⟨e', he', _, _, _, hq, _⟩ := h2 i hi
    rw [hev] at he'
    cases he'
    exact hq n hopi hn rfl
  · intro i hop hd
    obtain ⟨hi, hopi⟩ := List.getElem?_eq_some_iff.1 hop
    obtain ⟨e', he', hp, _, _, _, hq, _⟩ := h2 i hi
    rw [he', hq hopi ((prefix_drop_nil_iff hp).2 hd)]
  · intro i n hop hn hd
    obtain ⟨hi, hopi⟩ := List.getElem?_eq_some_iff.1 hop
    obtain ⟨e', he', hp, _, _, _, _, hq⟩ := h2 i hi
    rw [he', hq n hopi hn ((prefix_drop_nil_iff hp).2 hd)]

/-! ## Arrived bytes (b5) -/

theorem consume_overshoot (r : BufR) (k : Nat) (x : Bytes) (rest : List Item)
    (hfl : r.flat = bytesI x ++ rest) :
    ∃ rest', (r.consume k).flat = bytesI (x.drop (r.buf.take k).length) ++ rest' :=
  bytesI_overshoot _ x _ rest ((consume_flat r k).trans hfl)

theorem avail_buf_step (m : Nat) (b : Body) (x : Bytes) (op : BOp) (h : BodyAvail b x)
    (hx : x ≠ []) (ha : b.allows op) :
    BodyAvail (b.step m op).2 (x.drop (b.step m op).1.taken.length) ∧
    (op = .fill → ∃ bs, (b.step m op).1 = .peek bs ∧ bs ≠ []) ∧
    (∀ n, op = .read n → 0 < n →
      ∃ bs, (b.step m op).1 = .got bs ∧ bs ≠ [] ∧ bs.length ≤ n) := by
  cases op with
  | read n =>
    obtain ⟨bs, hb0, hb1, hb2, hav⟩ := avail_step m b x n h hx
    rw [step_read, hb0]
    refine ⟨hav, (by intro h'; cases h'), ?_⟩
    intro n' hn' hpos
    cases hn'
    exact ⟨bs, rfl, hb1 hpos, hb2⟩
  | fill =>
    rw [step_fill]
    simp only [BEv.ofFill_taken, List.length_nil, List.drop_zero]
    obtain ⟨c, x', rfl⟩ := List.exists_cons_of_ne_nil hx
    cases b with
    | chunked c => exact h.elim
    | length r lim =>
      obtain ⟨hok, hlim, rest, hfl⟩ := h
      have hl0 : lim ≠ 0 := by simp at hlim; omega
      obtain ⟨r', hfb, hok', hne, hf'⟩ := length_fill_byte r lim m hok hl0 c _ (flat_cons_of hfl)
      rw [hfb]
      exact ⟨⟨hok', hlim, rest, by rw [hf', hfl]⟩, fun _ => ⟨_, rfl, hne⟩, (by intro n h'; cases h')⟩
    | close r =>
      obtain ⟨hok, rest, hfl⟩ := h
      obtain ⟨r', hfb, hok', hne, hf'⟩ := close_fill_byte r m hok c _ (flat_cons_of hfl)
      rw [hfb]
      exact ⟨⟨hok', rest, by rw [hf', hfl]⟩, fun _ => ⟨_, rfl, hne⟩, (by intro n h'; cases h')⟩
  | consume k =>
    rw [step_consume]
    refine ⟨?_, (by intro h'; cases h'), (by intro n h'; cases h')⟩
    cases b with
    | chunked c => exact h.elim
    | length r lim =>
      obtain ⟨hok, hlim, rest, hfl⟩ := h
      simp only [Body.allows, List.length_take] at ha
      have hkl : min k lim = k := by omega
      have hw : (r.buf.take lim).take k = r.buf.take k := by rw [List.take_take, hkl]
      simp only [BEv.taken, Body.window, Body.consume, hkl, hw]
      refine ⟨consume_ok r k hok, ?_, consume_overshoot r k x rest hfl⟩
      simp only [List.length_drop, List.length_take]; omega
    | close r =>
      obtain ⟨hok, rest, hfl⟩ := h
      simp only [BEv.taken, Body.window, Body.consume]
      exact ⟨consume_ok r k hok, consume_overshoot r k x rest hfl⟩

/-- (b5) at the level of `Body` -/
theorem avail_buf_run (m : Nat) (ops : List BOp) : ∀ (b : Body) (x : Bytes), BodyAvail b x →
    runA Body.allows m ops b →
    ∀ i, (takenEv ((bufRun m ops b).1.take i)).length < x.length →
      (ops[i]? = some .fill → ∃ bs, (bufRun m ops b).1[i]? = some (.peek bs) ∧ bs ≠ []) ∧
      (∀ n, ops[i]? = some (.read n) → 0 < n →
        ∃ bs, (bufRun m ops b).1[i]? = some (.got bs) ∧ bs ≠ [] ∧ bs.length ≤ n) := by
  induction ops with
  | nil => intro b x _ _ i _; simp
  | cons op ops ih =>
    intro b x hav ha i hlt
    have hx : x ≠ [] := by intro hc; subst hc; simp at hlt
    obtain ⟨hav', hf, hr⟩ := avail_buf_step m b x op hav hx ha.1
    rw [bufRun_cons] at hlt ⊢
    cases i with
    | zero =>
      simp only [List.getElem?_cons_zero, Option.some.injEq]
      refine ⟨fun h => ?_, fun n h hn => ?_⟩
      · obtain ⟨bs, hb, hne⟩ := hf h
        exact ⟨bs, hb, hne⟩
      · obtain ⟨bs, hb, hne, hle⟩ := hr n h hn
        exact ⟨bs, hb, hne, hle⟩
    | succ i =>
      simp only [List.getElem?_cons_succ]
      refine ih _ _ hav' ha.2 i ?_
      simp only [List.take_succ_cons, takenEv_cons, List.length_append] at hlt
      rw [List.length_drop]; omega

end Atto
