/-
  Atto/Model/Multipart.lean — src/multipart.rs `MultipartBuilder::build`, `Body for Multipart`;
  src/multipart_crate/lazy.rs `PreparedFields::from_fields`, `boundary()`, `Read for PreparedFields`.
-/
import Atto.Model.Request
namespace Atto

structure MFile where
  name : Bytes
  data : Bytes
  filename : Option Bytes
  mime : Option Bytes            -- `Mime` as printed by `Display`; none → application/octet-stream
  deriving Repr

structure MForm where
  texts : List (Bytes × Bytes)
  files : List MFile
  deriving Repr

/-- `format!("\r\n--{}", gen_boundary())` -/
def mpDelim (b : Bytes) : Bytes := [13, 10, 45, 45] ++ b

/-- text block of `from_fields` -/
def mpText (b : Bytes) (t : Bytes × Bytes) : Bytes :=
  mpDelim b ++ str "\r\nContent-Disposition: form-data; name=\"" ++ t.1 ++ str "\"\r\n\r\n" ++ t.2

/-- `PreparedField::from_stream` header -/
def mpFileHeader (b : Bytes) (f : MFile) : Bytes :=
  mpDelim b ++ str "\r\nContent-Disposition: form-data; name=\"" ++ f.name ++ str "\"" ++
  (match f.filename with
   | some fn => str "; filename=\"" ++ fn ++ str "\""
   | none => []) ++
  str "\r\nContent-Type: " ++ (f.mime.getD (str "application/octet-stream")) ++ str "\r\n\r\n"

/-- The whole body as `Read for PreparedFields` yields it: the text cursor, then the streams popped
    from the END of the vector (files appear in reverse order of addition), then the close delimiter
    — which is always written, also for a form without fields. -/
def mpBody (b : Bytes) (form : MForm) : Bytes :=
  (form.texts.map (mpText b)).flatten ++
  (form.files.reverse.map (fun f => mpFileHeader b f ++ f.data)).flatten ++
  mpDelim b ++ [45, 45]

/-- `boundary()`: `&end_boundary[4 .. len - 2]`; the subtraction is a `usize` subtraction. -/
def mpBoundaryOf (endBoundary : Bytes) : RR Bytes :=
  if endBoundary.length < 6 then .panic else .ok ((endBoundary.drop 4).take (endBoundary.length - 6))

def mpContentType (b : Bytes) : Bytes := str "multipart/form-data; boundary=" ++ b

/-- `io::copy` from `PreparedFields` (which fills the copy buffer completely while data remains)
    into the chunked writer: pieces of `bufSize` bytes. -/
def copyPieces (bufSize : Nat) : Nat → Bytes → List Bytes
  | 0, _ => []
  | fuel+1, bs => if bs = [] then [] else bs.take bufSize :: copyPieces bufSize fuel (bs.drop bufSize)

def mpWrites (bufSize : Nat) (b : Bytes) (form : MForm) : List Bytes :=
  let body := mpBody b form
  copyPieces bufSize (body.length + 1) body

end Atto
