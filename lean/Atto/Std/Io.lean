/-
  Atto/Std/Io.lean — bytes, scripted transport, result type.
  Import-free (core Lean only) so that the driver links as a `lean_exe`.
-/
namespace Atto

abbrev Bytes := List UInt8

/-- Error values the model distinguishes.  `io k` is an `io::Error` that came from the transport
    (`k` is the harness' kind code, never 0 = Interrupted at this level unless stated);
    the others are produced by attohttpc / std on top of a healthy transport. -/
inductive E where
  | io (k : Nat)
  | eof                -- io::ErrorKind::UnexpectedEof
  | statusLine | statusCode | header | headerValue
  | chunkSize | chunk | contentLength
  | other
  | invalidBaseUrl | invalidUrlHost | invalidUrlPort   -- a URL the client cannot dial (`BaseStream::connect`, `set_host`)
  deriving DecidableEq, Repr, Inhabited

/-- Outcome of a model step.  `blocked` = the peer is silent for ever (scripted `pause`);
    `panic` = the Rust code would panic (slice index, subtraction underflow, unwrap). -/
inductive RR (α : Type) where
  | ok (v : α)
  | err (e : E)
  | blocked
  | panic
  deriving Repr

namespace RR
def map (f : α → β) : RR α → RR β
  | ok v => ok (f v) | err e => err e | blocked => blocked | panic => panic
def bind (x : RR α) (f : α → RR β) : RR β :=
  match x with
  | ok v => f v | err e => err e | blocked => blocked | panic => panic
def isOk : RR α → Bool | ok _ => true | _ => false
def isPanic : RR α → Bool | panic => true | _ => false
@[simp] theorem map_ok (f : α → β) (v : α) : (ok v).map f = ok (f v) := rfl
@[simp] theorem map_err (f : α → β) (e) : (err e : RR α).map f = err e := rfl
@[simp] theorem map_blocked (f : α → β) : (blocked : RR α).map f = blocked := rfl
@[simp] theorem map_panic (f : α → β) : (panic : RR α).map f = panic := rfl
theorem map_map (f : α → β) (g : β → γ) (x : RR α) : (x.map f).map g = x.map (g ∘ f) := by
  cases x <;> rfl
@[simp] theorem map_id' (x : RR α) : x.map (fun v => v) = x := by cases x <;> rfl
end RR

/-- One scripted transport event. `data bs` delivers `bs` (possibly over several reads if the
    caller's buffer is smaller), `err k` is returned by exactly one read (k = 0 is Interrupted),
    `pause` blocks every read for ever. An exhausted script is EOF for ever. -/
inductive Seg where
  | data (bs : Bytes)
  | err (k : Nat)
  | pause
  deriving Repr, DecidableEq

abbrev Transport := List Seg

/-- The flat view of a transport: what a segmentation-agnostic observer sees. -/
inductive Item where
  | byte (b : UInt8)
  | err (k : Nat)
  | pause
  deriving Repr, DecidableEq

def flatT : Transport → List Item
  | [] => []
  | .data bs :: r => bs.map .byte ++ flatT r
  | .err k :: r => .err k :: flatT r
  | .pause :: r => .pause :: flatT r

/-- Well-formed script: no empty data segment (an empty `read` result means EOF to the code). -/
def wfT : Transport → Prop
  | [] => True
  | .data bs :: r => bs ≠ [] ∧ wfT r
  | _ :: r => wfT r

/-- `Read::read(&mut buf[..n])` on the scripted transport (n > 0 expected). -/
def Transport.read : Transport → Nat → RR Bytes × Transport
  | [], _ => (.ok [], [])
  | .data bs :: r, n =>
      if bs.length ≤ n then (.ok bs, r) else (.ok (bs.take n), .data (bs.drop n) :: r)
  | .err k :: r, _ => (.err (.io k), r)
  | .pause :: r, _ => (.blocked, .pause :: r)

end Atto
