/- Atto/Driver/TlsOp.lean — op `tls`. -/
import Atto.Driver.Codec
import Atto.Model.Tls
namespace Atto.Driver
open Atto Atto.Tls

/-- `tls <aic> <aih> <chainOk> <timeOk> <nameOk>` → `accept` | `reject` -/
def opTls (args : List String) : String :=
  match args with
  | [aic, aih, c, t, n] =>
    let f : Flags := { acceptInvalidCerts := aic == "1", acceptInvalidHostnames := aih == "1", roots := 0 }
    if verify f (upstream (c == "1") (t == "1") (n == "1")) then "accept" else "reject"
  | _ => "bad-op"

end Atto.Driver
