/-
  Atto/Spec/HeadSpec.lean — a syntactically valid HTTP/1.1 response head as a server may send it
  (RFC 9112 §4, §5 with the leniencies the property statement lists), and what the caller must see.
  Written from the RFC / the property statement, not from the code.
-/
import Atto.Std.Io
import Atto.Std.HeaderMap
import Atto.Spec.ChunkedSpec
namespace Atto

/-- One header field line: `name ":" SP* value SP* CRLF`. The value may contain bare-LF
    continuations (obsolete line folding without the CR). -/
structure FieldS where
  name : Bytes
  padL : Nat
  value : Bytes
  padR : Nat
  deriving Repr

def spaces (n : Nat) : Bytes := List.replicate n 32

def FieldS.line (f : FieldS) : Bytes := f.name ++ [58] ++ spaces f.padL ++ f.value ++ spaces f.padR

/-- field-name = token; field-value bytes: HTAB, SP, VCHAR, obs-text, or a bare LF (continuation);
    the value proper neither starts nor ends with SP or LF; the whole line fits the client's limit. -/
def FieldS.WF (lineLimit : Nat) (f : FieldS) : Prop :=
  f.name ≠ [] ∧ (∀ b ∈ f.name, isTchar b = true) ∧
  (∀ b ∈ f.value, isValueByte b = true ∨ b = 10) ∧
  f.value.head? ≠ some 32 ∧ f.value.head? ≠ some 10 ∧
  f.value.getLast? ≠ some 32 ∧ f.value.getLast? ≠ some 10 ∧
  f.line.length + 2 ≤ lineLimit

structure HeadS where
  version : Bytes        -- e.g. "HTTP/1.1": any non-empty token without SP / LF
  sp1 : Nat              -- number of spaces before the status code (≥ 1)
  code : Nat             -- 100 … 999
  reason : Bytes         -- anything without LF, possibly empty, possibly with inner spaces
  fields : List FieldS
  deriving Repr

def render3 (code : Nat) : Bytes :=
  [UInt8.ofNat (48 + code / 100), UInt8.ofNat (48 + code / 10 % 10), UInt8.ofNat (48 + code % 10)]

def HeadS.statusLine (h : HeadS) : Bytes :=
  h.version ++ spaces h.sp1 ++ render3 h.code ++ (if h.reason = [] then [] else 32 :: h.reason)

def HeadS.WF (lineLimit : Nat) (h : HeadS) : Prop :=
  h.version ≠ [] ∧ (32 : UInt8) ∉ h.version ∧ (10 : UInt8) ∉ h.version ∧
  1 ≤ h.sp1 ∧ 100 ≤ h.code ∧ h.code ≤ 999 ∧
  (10 : UInt8) ∉ h.reason ∧ h.reason.getLast? ≠ some 13 ∧
  h.statusLine.length + 2 ≤ lineLimit ∧
  (∀ f ∈ h.fields, f.WF lineLimit)

/-- the bytes on the wire: status line, field lines, blank line -/
def HeadS.render (h : HeadS) : Bytes :=
  h.statusLine ++ [13, 10] ++ h.fields.flatMap (fun f => f.line ++ [13, 10]) ++ [13, 10]

/-- what the caller must see for one field: lower-case name; value with LF turned into SP and the
    surrounding spaces removed -/
def FieldS.seen (f : FieldS) : Bytes × Bytes :=
  (lowerBytes f.name, f.value.map (fun b => if b = 10 then 32 else b))

def HeadS.seen (h : HeadS) : Headers := h.fields.map FieldS.seen

end Atto
