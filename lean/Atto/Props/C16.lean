/-
  Atto/Props/C16.lean — "settings flow from session to request by value, never back or sideways".

  src/request/settings.rs keeps `BaseSettings` behind an `Arc`; `Session::clone` and
  `session.get(url)` only bump the reference count, every setter goes through `Arc::make_mut`
  (copy iff shared), and `RequestBuilder::try_with_settings` copies the session's headers once.
  `Heap` (Model/Settings.lean) mirrors that; `Val` is the specification in which every session and
  every builder OWNS a plain value.

  (a) `C16_refine`: for every operation sequence the code's observations are the specification's.
      Proof: simulation relation `st_R` (Lemmas/SettingsRefine.lean) with the reference-count
      invariant "rc p = number of live handles pointing to p".
  (b) isolation, stated on the specification and transferred to every reachable code state:
      `C16_request_isolated`, `C16_clone_isolated`, `C16_snapshot_at_creation` (+ the general frame
      theorems `C16_session_frame`, `C16_builder_frame`, `C16_session_determined`,
      `C16_builder_determined`).
  (c) `C16_header_semantics`: replace / append on the header maps.
  (d) `C16_defaults`: Accept / User-Agent / Accept-Encoding put in by `try_prepare`.
-/
import Atto.Gen.Consts
import Atto.Lemmas.SettingsRefine
namespace Atto

/-! ### (a) refinement -/

/-- (a) For EVERY operation sequence, the `Arc`/`make_mut` machine shows exactly what the by-value
    specification shows. -/
theorem C16_refine (ops : List SOp) : Heap.run {} ops = Val.run {} ops :=
  st_run st_R_init ops

/-- (a) generalised over related start states -/
theorem C16_refine_from {h : Heap} {w : Val} (r : st_R h w) (ops : List SOp) :
    Heap.run h ops = Val.run w ops := st_run r ops

/-- (a) after any common history: every later observation agrees -/
theorem C16_refine_reach (hist : List SOp) (op : SOp) :
    ((Heap.exec {} hist).step op).2 = ((Val.exec {} hist).step op).2 := st_obs_reach hist op

/-- what the relation says about a reachable code state: same live ids, and the reference count of
    every cell is the number of live handles that point to it (≥ 1 for the cell of a live handle) -/
theorem C16_refcount (hist : List SOp) (p : Nat) (c : Cell)
    (hc : (Heap.exec {} hist).cells[p]? = some c) :
    c.rc = st_cnt (Heap.exec {} hist).sessions p + st_cnt (st_ptrs (Heap.exec {} hist).builders) p :=
  (st_reach hist).rc p c hc

/-- no dangling handles, no premature release: in every reachable code state the cell of a live
    session / builder exists and its count is at least 1 -/
theorem C16_live_cells (hist : List SOp) :
    (∀ i p, getAt (Heap.exec {} hist).sessions i = some p →
      ∃ c, (Heap.exec {} hist).cells[p]? = some c ∧ 1 ≤ c.rc) ∧
    (∀ i b, getAt (Heap.exec {} hist).builders i = some b →
      ∃ c, (Heap.exec {} hist).cells[b.ptr]? = some c ∧ 1 ≤ c.rc) := by
  have r := st_reach hist
  exact ⟨fun i p hp => by obtain ⟨c, hc, _, h1⟩ := r.sess_cell hp; exact ⟨c, hc, h1⟩,
         fun i b hb => by obtain ⟨c, hc, _, h1⟩ := r.bld_cell hb; exact ⟨c, hc, h1⟩⟩

/-- the same ids are live in the code and in the specification -/
theorem C16_same_live (hist : List SOp) (i : Nat) :
    (getAt (Heap.exec {} hist).sessions i).isSome = (getAt (Val.exec {} hist).sessions i).isSome ∧
    (getAt (Heap.exec {} hist).builders i).isSome = (getAt (Val.exec {} hist).builders i).isSome :=
  ⟨(st_reach hist).sess_iff i, (st_reach hist).bld_iff i⟩

/-- a history: new session 0, header on it, clone (session 1), builder 0 from session 0, a setter on the
    builder, a setter on session 0, a header on the clone, a header on the builder, observe all three -/
def C16.exOps : List SOp :=
  [.newSession, .sessHeader 0 [120] [49], .cloneSession 0, .create (some 0),
   .bldSet 0 .maxRedirections 9, .sessSet 0 .maxRedirections 2, .sessHeader 1 [120] [50],
   .bldHeader 0 [121] [51], .obsSession 0, .obsSession 1, .obsBuilder 0]

/-- non-vacuity: both machines, evaluated. Session 0 sees only its own setter, the clone only its own
    header, the builder the snapshot (`x: 1`, 5 → 9 redirections) plus its own header. -/
example :
    Heap.run {} C16.exOps =
      [none, none, none, none, none, none, none, none,
       some { sc := { maxRedirections := 2 }, sessHeaders := [([120], [49])], reqHeaders := [] },
       some { sc := {}, sessHeaders := [([120], [50])], reqHeaders := [] },
       some { sc := { maxRedirections := 9 }, sessHeaders := [([120], [49])],
              reqHeaders := [([120], [49]), ([121], [51])] }] ∧
    Val.run {} C16.exOps = Heap.run {} C16.exOps := by decide

/-- non-vacuity: the code machine really shares — after `clone` and `get` there is ONE cell with
    count 3; the first setter through a shared handle copies it (two cells, counts 2 and 1). -/
example :
    ((Heap.exec {} [.newSession, .cloneSession 0, .create (some 0)]).cells.map Cell.rc = [3]) ∧
    ((Heap.exec {} [.newSession, .cloneSession 0, .create (some 0), .sessSet 1 .proxy 7]).cells.map Cell.rc
      = [2, 1]) ∧
    ((Heap.exec {} [.newSession, .sessSet 0 .proxy 7]).cells.map Cell.rc = [1]) := by decide

/-! ### (b) never back or sideways

  `SOp.sessTarget` / `SOp.bldTarget` (Lemmas/SettingsRefine.lean) name the one existing session /
  builder an operation writes to (`sessSet/sessHeader/sessAppend/dropSession s` ↦ session `s`,
  `bldSet/bldHeader/bldAppend/dropBuilder b` ↦ builder `b`, everything else — creation, cloning,
  observation — writes to no existing object). `SOp.actS op s` / `SOp.actB op b` are the effect of
  the operation on the value owned by `s` / `b`. -/

/-- General form ("determined"): the value of an allocated session id after any history is the fold
    of the operations' own actions on it — nothing else in the world matters. -/
theorem C16_session_determined (w : Val) (ops : List SOp) (s : Nat) (hs : s < w.sessions.length) :
    ((w.exec ops).step (.obsSession s)).2
      = (ops.foldl (fun x op => op.actS s x) (getAt w.sessions s)).map st_viewS := by
  rw [st_val_obsS, st_val_sess_exec w ops hs]

theorem C16_builder_determined (w : Val) (ops : List SOp) (b : Nat) (hb : b < w.builders.length) :
    ((w.exec ops).step (.obsBuilder b)).2
      = (ops.foldl (fun x op => op.actB b x) (getAt w.builders b)).map st_viewB := by
  rw [st_val_obsB, st_val_bld_exec w ops hb]

/-- Frame: operations that are not addressed to session `s` do not change what `s` shows. -/
theorem C16_session_frame (w : Val) (ops : List SOp) (s : Nat) (hs : s < w.sessions.length)
    (h : ∀ op ∈ ops, op.sessTarget ≠ some s) :
    ((w.exec ops).step (.obsSession s)).2 = (w.step (.obsSession s)).2 := by
  rw [C16_session_determined w ops s hs, st_foldl_actS_untargeted ops s h, st_val_obsS]

/-- Frame: operations that are not addressed to builder `b` do not change what `b` shows. -/
theorem C16_builder_frame (w : Val) (ops : List SOp) (b : Nat) (hb : b < w.builders.length)
    (h : ∀ op ∈ ops, op.bldTarget ≠ some b) :
    ((w.exec ops).step (.obsBuilder b)).2 = (w.step (.obsBuilder b)).2 := by
  rw [C16_builder_determined w ops b hb, st_foldl_actB_untargeted ops b h, st_val_obsB]

/-- The frame theorems need the id to be allocated already: the next `newSession` takes the first
    unallocated id. (This is the only corner; dead ids stay dead.) -/
def C16_session_frame_full : Prop :=
  ∀ (w : Val) (ops : List SOp) (s : Nat), (∀ op ∈ ops, op.sessTarget ≠ some s) →
    ((w.exec ops).step (.obsSession s)).2 = (w.step (.obsSession s)).2

/-- counterexample to the unrestricted frame statement: id 0 in the empty world -/
theorem C16_session_frame_full_false : ¬ C16_session_frame_full := by
  intro h
  have := h {} [.newSession] 0 (by decide)
  revert this
  decide

def C16_builder_frame_full : Prop :=
  ∀ (w : Val) (ops : List SOp) (b : Nat), (∀ op ∈ ops, op.bldTarget ≠ some b) →
    ((w.exec ops).step (.obsBuilder b)).2 = (w.step (.obsBuilder b)).2

/-- counterexample: builder id 0 in the empty world is taken by the next `create` -/
theorem C16_builder_frame_full_false : ¬ C16_builder_frame_full := by
  intro h
  have := h {} [.create none] 0 (by decide)
  revert this
  decide

private theorem C16.bldop_sessions (w : Val) (op : SOp) (b : Nat) (hop : op.bldTarget = some b) :
    (w.step op).1.sessions = w.sessions := by
  cases op <;> simp [SOp.bldTarget] at hop <;> simp only [Val.step] <;> (try split) <;> rfl

private theorem C16.bldop_builders (w : Val) (op : SOp) (b b' : Nat) (hop : op.bldTarget = some b)
    (hne : b' ≠ b) : getAt (w.step op).1.builders b' = getAt w.builders b' := by
  cases op <;> simp [SOp.bldTarget] at hop <;> subst hop <;> simp only [Val.step] <;> (try split) <;>
    simp [st_getAt_setAt_ne _ _ hne]

/-- (b) Request isolation: an operation on builder `b` (`bldSet`, `bldHeader`, `bldAppend`,
    `dropBuilder`) changes no session observation and no other builder's observation — for every
    id, allocated or not. -/
theorem C16_request_isolated (w : Val) (op : SOp) (b : Nat) (hop : op.bldTarget = some b) :
    (∀ s, ((w.step op).1.step (.obsSession s)).2 = (w.step (.obsSession s)).2) ∧
    (∀ b', b' ≠ b → ((w.step op).1.step (.obsBuilder b')).2 = (w.step (.obsBuilder b')).2) := by
  constructor
  · intro s; rw [st_val_obsS, st_val_obsS, C16.bldop_sessions w op b hop]
  · intro b' hne; rw [st_val_obsB, st_val_obsB, C16.bldop_builders w op b b' hop hne]

/-- (b) the same for any sequence of operations on builder `b` -/
theorem C16_request_isolated_seq (w : Val) (ops : List SOp) (b : Nat)
    (hops : ∀ op ∈ ops, op.bldTarget = some b) :
    (∀ s, ((w.exec ops).step (.obsSession s)).2 = (w.step (.obsSession s)).2) ∧
    (∀ b', b' ≠ b → ((w.exec ops).step (.obsBuilder b')).2 = (w.step (.obsBuilder b')).2) := by
  induction ops generalizing w with
  | nil => exact ⟨fun _ => rfl, fun _ _ => rfl⟩
  | cons op ops ih =>
    have h1 := C16_request_isolated w op b (hops op (by simp))
    have h2 := ih (w.step op).1 (fun o ho => hops o (by simp [ho]))
    rw [st_val_exec_cons]
    exact ⟨fun s => (h2.1 s).trans (h1.1 s), fun b' hne => (h2.2 b' hne).trans (h1.2 b' hne)⟩

/-- (b) Request isolation in the code: in every reachable state of the `Arc` machine, operations on
    builder `b` change no session observation and no other builder's observation. -/
theorem C16_request_isolated_heap (hist ops : List SOp) (b : Nat)
    (hops : ∀ op ∈ ops, op.bldTarget = some b) :
    (∀ s, (((Heap.exec {} hist).exec ops).step (.obsSession s)).2
            = ((Heap.exec {} hist).step (.obsSession s)).2) ∧
    (∀ b', b' ≠ b → (((Heap.exec {} hist).exec ops).step (.obsBuilder b')).2
            = ((Heap.exec {} hist).step (.obsBuilder b')).2) := by
  have h := C16_request_isolated_seq (Val.exec {} hist) ops b hops
  simp only [← st_heap_exec_append, ← st_val_exec_append, st_obs_reach] at h ⊢
  exact h

/-- non-vacuity: builder 0 of the example history is hammered (set, header, append, drop); session 0,
    session 1 and a second builder show the same before and after, on both machines. -/
example :
    let hist : List SOp := [.newSession, .sessHeader 0 [120] [49], .cloneSession 0, .create (some 0), .create (some 1)]
    let ops : List SOp := [.bldSet 0 .timeout 1, .bldHeader 0 [120] [50], .bldAppend 0 [120] [51], .dropBuilder 0]
    let q : List SOp := [.obsSession 0, .obsSession 1, .obsBuilder 1]
    (∀ op ∈ ops, op.bldTarget = some 0) ∧
    (Heap.run {} (hist ++ ops ++ q)).drop 9 = (Heap.run {} (hist ++ q)).drop 5 ∧
    (Heap.run {} (hist ++ q)).drop 5 =
      [some { sc := {}, sessHeaders := [([120], [49])], reqHeaders := [] },
       some { sc := {}, sessHeaders := [([120], [49])], reqHeaders := [] },
       some { sc := {}, sessHeaders := [([120], [49])], reqHeaders := [([120], [49])] }] ∧
    ((Heap.exec {} (hist ++ ops)).step (.obsBuilder 0)).2 = none := by decide

/-- (b) Clone isolation. `cloneSession s` on a live session creates session `s' = #sessions`:
    * the clone starts with the same observation;
    * whatever is then done that is not addressed to `s` (in particular: anything done to `s'` and to
      builders made from `s'`) leaves `obsSession s` as it was;
    * vice versa, whatever is not addressed to `s'` leaves `obsSession s'` as it was at the clone. -/
theorem C16_clone_isolated (w : Val) (s : Nat) (st : BaseSettings) (hs : getAt w.sessions s = some st) :
    ((w.step (.cloneSession s)).1.step (.obsSession w.sessions.length)).2 = (w.step (.obsSession s)).2 ∧
    (∀ ops, (∀ op ∈ ops, op.sessTarget ≠ some s) →
      (((w.step (.cloneSession s)).1.exec ops).step (.obsSession s)).2 = (w.step (.obsSession s)).2) ∧
    (∀ ops, (∀ op ∈ ops, op.sessTarget ≠ some w.sessions.length) →
      (((w.step (.cloneSession s)).1.exec ops).step (.obsSession w.sessions.length)).2
        = (w.step (.obsSession s)).2) := by
  have hlt := st_getAt_lt hs
  have e1 : (w.step (.cloneSession s)).1 = { w with sessions := w.sessions ++ [some st] } := by
    simp only [Val.step, hs]
  have e2 : getAt (w.sessions ++ [some st]) w.sessions.length = some st := by
    rw [st_getAt_append]; simp
  have e3 : getAt (w.sessions ++ [some st]) s = some st := by
    rw [st_getAt_append]; simp [hlt, hs]
  have first : ((w.step (.cloneSession s)).1.step (.obsSession w.sessions.length)).2
      = (w.step (.obsSession s)).2 := by
    rw [e1, st_val_obsS, st_val_obsS, hs]; simp only [e2]
  refine ⟨first, ?_, ?_⟩
  · intro ops hops
    rw [C16_session_frame _ ops s (by rw [e1]; simp; omega) hops, e1, st_val_obsS, st_val_obsS, hs]
    simp only [e3]
  · intro ops hops
    rw [C16_session_frame _ ops _ (by rw [e1]; simp) hops, first]

/-- (b) Clone isolation in the code: in every reachable state, if session `s` shows `o`, then after
    `Session::clone` the clone shows `o`; `s` keeps showing `o` through anything not addressed to `s`,
    and the clone keeps showing `o` through anything not addressed to the clone. -/
theorem C16_clone_isolated_heap (hist : List SOp) (s : Nat) (o : Obs)
    (hs : ((Heap.exec {} hist).step (.obsSession s)).2 = some o) :
    (((Heap.exec {} hist).step (.cloneSession s)).1.step (.obsSession (Heap.exec {} hist).sessions.length)).2
      = some o ∧
    (∀ ops, (∀ op ∈ ops, op.sessTarget ≠ some s) →
      ((((Heap.exec {} hist).step (.cloneSession s)).1.exec ops).step (.obsSession s)).2 = some o) ∧
    (∀ ops, (∀ op ∈ ops, op.sessTarget ≠ some (Heap.exec {} hist).sessions.length) →
      ((((Heap.exec {} hist).step (.cloneSession s)).1.exec ops).step
        (.obsSession (Heap.exec {} hist).sessions.length)).2 = some o) := by
  rw [st_obs_reach, st_val_obsS] at hs
  cases hv : getAt (Val.exec {} hist).sessions s with
  | none => simp [hv] at hs
  | some st =>
    have key := C16_clone_isolated (Val.exec {} hist) s st hv
    have ho : ((Val.exec {} hist).step (.obsSession s)).2 = some o := by rw [st_val_obsS]; exact hs
    rw [ho] at key
    have hl := (st_reach hist).slen
    have ec : ((Heap.exec {} hist).step (.cloneSession s)).1 = Heap.exec {} (hist ++ [.cloneSession s]) := by
      rw [st_heap_exec_append]; rfl
    have ev : ((Val.exec {} hist).step (.cloneSession s)).1 = Val.exec {} (hist ++ [.cloneSession s]) := by
      rw [st_val_exec_append]; rfl
    rw [ec, hl]
    rw [ev] at key
    simp only [← st_heap_exec_append, ← st_val_exec_append, st_obs_reach] at key ⊢
    exact key

/-- non-vacuity: session 0 is cloned; the clone and a builder made from it are modified and dropped —
    session 0 shows the same; then session 0 is modified and dropped — the clone shows its own state. -/
example :
    let hist : List SOp := [.newSession, .sessHeader 0 [120] [49]]
    let ops1 : List SOp := [.sessSet 1 .proxy 3, .sessHeader 1 [120] [50], .create (some 1), .bldSet 0 .proxy 4,
                            .dropSession 1, .dropBuilder 0]
    let ops2 : List SOp := [.sessSet 0 .proxy 5, .sessAppend 0 [120] [52], .dropSession 0]
    (∀ op ∈ ops1, op.sessTarget ≠ some 0) ∧ (∀ op ∈ ops2, op.sessTarget ≠ some 1) ∧
    ((Heap.exec {} hist).step (.obsSession 0)).2
      = some { sc := {}, sessHeaders := [([120], [49])], reqHeaders := [] } ∧
    ((Heap.exec {} (hist ++ [.cloneSession 0] ++ ops1)).step (.obsSession 0)).2
      = ((Heap.exec {} hist).step (.obsSession 0)).2 ∧
    ((Heap.exec {} (hist ++ [.cloneSession 0] ++ ops2)).step (.obsSession 1)).2
      = ((Heap.exec {} hist).step (.obsSession 0)).2 ∧
    ((Heap.exec {} (hist ++ [.cloneSession 0] ++ ops2)).step (.obsSession 0)).2 = none := by decide

/-- (b) Snapshot at creation. A builder made from a live session `s` (id `b = #builders`):
    * shows the scalars and headers `s` had at that moment, the headers also as its own header map;
    * afterwards its value is the fold of the operations addressed to `b` over that snapshot — so later
      `bldSet`s override it, and later `sessSet` / `sessHeader` on `s` (or anything else) do not matter;
    * in particular anything not addressed to `b` leaves `obsBuilder b` at the snapshot. -/
theorem C16_snapshot_at_creation (w : Val) (s : Nat) (st : BaseSettings)
    (hs : getAt w.sessions s = some st) :
    ((w.step (.create (some s))).1.step (.obsBuilder w.builders.length)).2
      = some { sc := st.sc, sessHeaders := st.headers, reqHeaders := st.headers } ∧
    (∀ ops, (((w.step (.create (some s))).1.exec ops).step (.obsBuilder w.builders.length)).2
      = (ops.foldl (fun x op => op.actB w.builders.length x)
          (some { settings := st, headers := st.headers })).map st_viewB) ∧
    (∀ ops, (∀ op ∈ ops, op.bldTarget ≠ some w.builders.length) →
      (((w.step (.create (some s))).1.exec ops).step (.obsBuilder w.builders.length)).2
        = some { sc := st.sc, sessHeaders := st.headers, reqHeaders := st.headers }) := by
  have e1 : (w.step (.create (some s))).1
      = { w with builders := w.builders ++ [some { settings := st, headers := st.headers }] } := by
    simp only [Val.step, hs]
  have e2 : getAt (w.builders ++ [some ({ settings := st, headers := st.headers } : VBuilder)])
      w.builders.length = some { settings := st, headers := st.headers } := by
    rw [st_getAt_append]; simp
  have second : ∀ ops, (((w.step (.create (some s))).1.exec ops).step (.obsBuilder w.builders.length)).2
      = (ops.foldl (fun x op => op.actB w.builders.length x)
          (some { settings := st, headers := st.headers })).map st_viewB := by
    intro ops
    rw [C16_builder_determined _ ops _ (by rw [e1]; simp), e1]
    simp only [e2]
  refine ⟨?_, second, ?_⟩
  · have := second []
    simpa [Val.exec, st_viewB] using this
  · intro ops hops
    rw [second ops, st_foldl_actB_untargeted ops _ hops]
    rfl

/-- (b) a builder made without a session (`attohttpc::get(url)`) starts from the defaults -/
theorem C16_snapshot_default (w : Val) :
    (∀ ops, (((w.step (.create none)).1.exec ops).step (.obsBuilder w.builders.length)).2
      = (ops.foldl (fun x op => op.actB w.builders.length x)
          (some { settings := {}, headers := [] })).map st_viewB) := by
  intro ops
  have e1 : (w.step (.create none)).1
      = { w with builders := w.builders ++ [some { settings := {}, headers := [] }] } := rfl
  have e2 : getAt (w.builders ++ [some ({ settings := {}, headers := [] } : VBuilder)])
      w.builders.length = some { settings := {}, headers := [] } := by
    rw [st_getAt_append]; simp
  rw [C16_builder_determined _ ops _ (by rw [e1]; simp), e1]
  simp only [e2]

/-- only the operations addressed to `b` count in the fold -/
theorem C16_actB_filter (ops : List SOp) (b : Nat) (x : Option VBuilder) :
    ops.foldl (fun x op => op.actB b x) x
      = (ops.filter (fun op => op.bldTarget == some b)).foldl (fun x op => op.actB b x) x := by
  induction ops generalizing x with
  | nil => rfl
  | cons op ops ih =>
    by_cases h : op.bldTarget = some b
    · simp [h, ih]
    · simp [h, ih, st_actB_untargeted h]

/-- (b) Snapshot at creation in the code: in every reachable state in which session `s` shows `o`, a
    builder created from `s` shows `o`'s scalars and headers (the headers also as request headers),
    and keeps showing that through anything not addressed to the builder itself. -/
theorem C16_snapshot_at_creation_heap (hist : List SOp) (s : Nat) (o : Obs)
    (hs : ((Heap.exec {} hist).step (.obsSession s)).2 = some o) :
    ∀ ops, (∀ op ∈ ops, op.bldTarget ≠ some (Heap.exec {} hist).builders.length) →
      ((((Heap.exec {} hist).step (.create (some s))).1.exec ops).step
        (.obsBuilder (Heap.exec {} hist).builders.length)).2
        = some { sc := o.sc, sessHeaders := o.sessHeaders, reqHeaders := o.sessHeaders } := by
  rw [st_obs_reach, st_val_obsS] at hs
  cases hv : getAt (Val.exec {} hist).sessions s with
  | none => simp [hv] at hs
  | some st =>
    have key := (C16_snapshot_at_creation (Val.exec {} hist) s st hv).2.2
    have ho : st_viewS st = o := by simpa [hv] using hs
    have hl := (st_reach hist).blen
    have ec : ((Heap.exec {} hist).step (.create (some s))).1 = Heap.exec {} (hist ++ [.create (some s)]) := by
      rw [st_heap_exec_append]; rfl
    have ev : ((Val.exec {} hist).step (.create (some s))).1 = Val.exec {} (hist ++ [.create (some s)]) := by
      rw [st_val_exec_append]; rfl
    rw [ec, hl]
    rw [ev] at key
    subst ho
    simp only [← st_heap_exec_append, ← st_val_exec_append, st_obs_reach] at key ⊢
    exact key

/-- non-vacuity: builder 0 is made from session 0 (header `x: 1`); then the session is changed, cloned
    and dropped: the builder still shows the snapshot, overridden only by its own `bldSet`. -/
example :
    let hist : List SOp := [.newSession, .sessHeader 0 [120] [49], .sessSet 0 .maxHeaders 7]
    let ops : List SOp := [.sessSet 0 .maxHeaders 8, .sessHeader 0 [120] [50], .cloneSession 0,
                           .sessAppend 1 [121] [51], .dropSession 0]
    (∀ op ∈ ops, op.bldTarget ≠ some 0) ∧
    ((Heap.exec {} (hist ++ [.create (some 0)] ++ ops)).step (.obsBuilder 0)).2
      = some { sc := { maxHeaders := 7 }, sessHeaders := [([120], [49])], reqHeaders := [([120], [49])] } ∧
    ((Heap.exec {} (hist ++ [.create (some 0)] ++ ops ++ [.bldSet 0 .maxHeaders 3])).step (.obsBuilder 0)).2
      = some { sc := { maxHeaders := 3 }, sessHeaders := [([120], [49])], reqHeaders := [([120], [49])] } ∧
    ((Heap.exec {} (hist ++ [.create (some 0)] ++ ops)).step (.obsSession 1)).2
      = some { sc := { maxHeaders := 8 }, sessHeaders := [([120], [50]), ([121], [51])], reqHeaders := [] } := by
  decide

/-! ### (c) header semantics -/

/-- (c) `insert` (= `header`) replaces all values of the name, `append` (= `header_append`) adds one
    at the end; other names are untouched. -/
theorem C16_header_semantics (h : Headers) (n v : Bytes) :
    (h.insert n v).getAll n = [v] ∧
    (∀ n', n' ≠ n → (h.insert n v).getAll n' = h.getAll n') ∧
    (h.append n v).getAll n = h.getAll n ++ [v] ∧
    (∀ n', n' ≠ n → (h.append n v).getAll n' = h.getAll n') :=
  ⟨st_getAll_insert_self h n v, fun _ hne => st_getAll_insert_ne h n v hne,
   st_getAll_append_self h n v, fun _ hne => st_getAll_append_ne h n v hne⟩

/-- (c) what the four header operations do to the observation of their target (specification) -/
theorem C16_header_ops (w : Val) (i : Nat) (n v : Bytes) :
    (∀ st, getAt w.sessions i = some st →
      ((w.step (.sessHeader i n v)).1.step (.obsSession i)).2
        = some { sc := st.sc, sessHeaders := st.headers.insert n v, reqHeaders := [] } ∧
      ((w.step (.sessAppend i n v)).1.step (.obsSession i)).2
        = some { sc := st.sc, sessHeaders := st.headers.append n v, reqHeaders := [] }) ∧
    (∀ bl, getAt w.builders i = some bl →
      ((w.step (.bldHeader i n v)).1.step (.obsBuilder i)).2
        = some { sc := bl.settings.sc, sessHeaders := bl.settings.headers, reqHeaders := bl.headers.insert n v } ∧
      ((w.step (.bldAppend i n v)).1.step (.obsBuilder i)).2
        = some { sc := bl.settings.sc, sessHeaders := bl.settings.headers, reqHeaders := bl.headers.append n v }) := by
  constructor
  · intro st hs
    have hlt := st_getAt_lt hs
    constructor <;>
    · rw [st_val_obsS, st_val_sess_step w _ hlt]; simp [SOp.actS, hs, st_viewS]
  · intro bl hb
    have hlt := st_getAt_lt hb
    constructor <;>
    · rw [st_val_obsB, st_val_bld_step w _ hlt]; simp [SOp.actB, hb, st_viewB]

/-- (c) session level, in `getAll` terms: after `sessHeader s n v` the session shows exactly `[v]` for
    `n`; after `sessAppend` the old values followed by `v`; every other name as before; scalars as
    before. -/
theorem C16_header_semantics_session (w : Val) (s : Nat) (st : BaseSettings) (n v : Bytes)
    (hs : getAt w.sessions s = some st) :
    (∃ o, ((w.step (.sessHeader s n v)).1.step (.obsSession s)).2 = some o ∧ o.sc = st.sc ∧
      o.sessHeaders.getAll n = [v] ∧ ∀ n', n' ≠ n → o.sessHeaders.getAll n' = st.headers.getAll n') ∧
    (∃ o, ((w.step (.sessAppend s n v)).1.step (.obsSession s)).2 = some o ∧ o.sc = st.sc ∧
      o.sessHeaders.getAll n = st.headers.getAll n ++ [v] ∧
      ∀ n', n' ≠ n → o.sessHeaders.getAll n' = st.headers.getAll n') := by
  obtain ⟨h1, h2⟩ := (C16_header_ops w s n v).1 st hs
  exact ⟨⟨_, h1, rfl, st_getAll_insert_self _ n v, fun _ hne => st_getAll_insert_ne _ n v hne⟩,
         ⟨_, h2, rfl, st_getAll_append_self _ n v, fun _ hne => st_getAll_append_ne _ n v hne⟩⟩

/-- (c) builder level: `bldHeader` / `bldAppend` act on the request's own header map only; the settings
    part of the observation (scalars, session-level headers) is unchanged. -/
theorem C16_header_semantics_builder (w : Val) (b : Nat) (bl : VBuilder) (n v : Bytes)
    (hb : getAt w.builders b = some bl) :
    (∃ o, ((w.step (.bldHeader b n v)).1.step (.obsBuilder b)).2 = some o ∧ o.sc = bl.settings.sc ∧
      o.sessHeaders = bl.settings.headers ∧
      o.reqHeaders.getAll n = [v] ∧ ∀ n', n' ≠ n → o.reqHeaders.getAll n' = bl.headers.getAll n') ∧
    (∃ o, ((w.step (.bldAppend b n v)).1.step (.obsBuilder b)).2 = some o ∧ o.sc = bl.settings.sc ∧
      o.sessHeaders = bl.settings.headers ∧
      o.reqHeaders.getAll n = bl.headers.getAll n ++ [v] ∧
      ∀ n', n' ≠ n → o.reqHeaders.getAll n' = bl.headers.getAll n') := by
  obtain ⟨h1, h2⟩ := (C16_header_ops w b n v).2 bl hb
  exact ⟨⟨_, h1, rfl, rfl, st_getAll_insert_self _ n v, fun _ hne => st_getAll_insert_ne _ n v hne⟩,
         ⟨_, h2, rfl, rfl, st_getAll_append_self _ n v, fun _ hne => st_getAll_append_ne _ n v hne⟩⟩

/-- (c) in the code: in every reachable state where session `s` shows `o`, `Session::header` /
    `header_append` make it show `o` with the header replaced / appended. -/
theorem C16_header_semantics_heap (hist : List SOp) (s : Nat) (o : Obs) (n v : Bytes)
    (hs : ((Heap.exec {} hist).step (.obsSession s)).2 = some o) :
    (((Heap.exec {} hist).step (.sessHeader s n v)).1.step (.obsSession s)).2
      = some { o with sessHeaders := o.sessHeaders.insert n v } ∧
    (((Heap.exec {} hist).step (.sessAppend s n v)).1.step (.obsSession s)).2
      = some { o with sessHeaders := o.sessHeaders.append n v } := by
  rw [st_obs_reach, st_val_obsS] at hs
  cases hv : getAt (Val.exec {} hist).sessions s with
  | none => simp [hv] at hs
  | some st =>
    have ho : st_viewS st = o := by simpa [hv] using hs
    obtain ⟨h1, h2⟩ := (C16_header_ops (Val.exec {} hist) s n v).1 st hv
    have r := st_reach hist
    subst ho
    exact ⟨by rw [(st_step (st_step r _).1 _).2, h1]; rfl, by rw [(st_step (st_step r _).1 _).2, h2]; rfl⟩

/-- non-vacuity: replace after two appends leaves one value; another name is untouched -/
example :
    let h : Headers := [([120], [49]), ([121], [50]), ([120], [51])]
    h.getAll [120] = [[49], [51]] ∧ (h.insert [120] [52]).getAll [120] = [[52]] ∧
    (h.insert [120] [52]).getAll [121] = [[50]] ∧ (h.append [120] [52]).getAll [120] = [[49], [51], [52]] := by
  decide

example :
    ((Heap.exec {} [.newSession, .sessAppend 0 [120] [49], .sessAppend 0 [120] [50], .sessHeader 0 [120] [51],
        .sessAppend 0 [120] [52]]).step (.obsSession 0)).2
      = some { sc := {}, sessHeaders := [([120], [51]), ([120], [52])], reqHeaders := [] } := by decide

/-! ### (d) the defaults `try_prepare` adds -/

private theorem C16.ne1 : str "accept" ≠ str "connection" := by decide +kernel
private theorem C16.ne2 : str "accept" ≠ nameCL := by decide +kernel
private theorem C16.ne3 : str "accept" ≠ nameTE := by decide +kernel
private theorem C16.ne4 : str "accept" ≠ str "content-type" := by decide +kernel
private theorem C16.ne5 : str "accept" ≠ str "accept-encoding" := by decide +kernel
private theorem C16.ne6 : str "accept" ≠ str "user-agent" := by decide +kernel
private theorem C16.ue1 : str "user-agent" ≠ str "connection" := by decide +kernel
private theorem C16.ue2 : str "user-agent" ≠ nameCL := by decide +kernel
private theorem C16.ue3 : str "user-agent" ≠ nameTE := by decide +kernel
private theorem C16.ue4 : str "user-agent" ≠ str "content-type" := by decide +kernel
private theorem C16.ue5 : str "user-agent" ≠ str "accept-encoding" := by decide +kernel
private theorem C16.ee1 : str "accept-encoding" ≠ str "connection" := by decide +kernel
private theorem C16.ee2 : str "accept-encoding" ≠ nameCL := by decide +kernel
private theorem C16.ee3 : str "accept-encoding" ≠ nameTE := by decide +kernel
private theorem C16.ee4 : str "accept-encoding" ≠ str "content-type" := by decide +kernel

/-- a name that none of the first stages of `try_prepare` touches keeps its values up to the defaults -/
private theorem C16.pre (s : PrepSettings) (h : Headers) (b : BodyM) (n : Bytes)
    (h0 : n ≠ str "accept-encoding") (h1 : n ≠ str "connection") (h2 : n ≠ nameCL) (h3 : n ≠ nameTE)
    (h4 : n ≠ str "content-type") :
    (st_prepMid (if s.allowCompression then h.insert (str "accept-encoding") (str "gzip, deflate") else h) b
      ).getAll n = h.getAll n := by
  rw [st_prepMid_getAll _ b n h1 h2 h3 h4]
  split
  · exact st_getAll_insert_ne h _ _ h0
  · rfl

private theorem C16.preC (s : PrepSettings) (h : Headers) (b : BodyM) (n : Bytes)
    (h0 : n ≠ str "accept-encoding") (h1 : n ≠ str "connection") (h2 : n ≠ nameCL) (h3 : n ≠ nameTE)
    (h4 : n ≠ str "content-type") :
    (st_prepMid (if s.allowCompression then h.insert (str "accept-encoding") (str "gzip, deflate") else h) b
      ).contains n = h.contains n := by
  rw [st_contains_iff, C16.pre s h b n h0 h1 h2 h3 h4, ← st_contains_iff]

/-- (d) `Accept: */*` is added iff the caller gave no `Accept`; otherwise the caller's values stay. -/
theorem C16_defaults_accept (s : PrepSettings) (h : Headers) (b : BodyM) :
    (tryPrepare s h b).getAll (str "accept")
      = if h.contains (str "accept") then h.getAll (str "accept") else [str "*/*"] := by
  rw [st_tryPrepare_eq]
  simp only [hName]
  rw [st_getAll_insertIfMissing, st_getAll_insertIfMissing]
  have hne : ¬ (str "user-agent" = str "accept") := fun e => C16.ne6 e.symm
  simp only [hne, false_and, if_false]
  rw [C16.pre s h b _ C16.ne5 C16.ne1 C16.ne2 C16.ne3 C16.ne4,
      C16.preC s h b _ C16.ne5 C16.ne1 C16.ne2 C16.ne3 C16.ne4]
  cases hc : h.contains (str "accept") <;> simp

/-- (d) `User-Agent: <DEFAULT_USER_AGENT>` is added iff the caller gave none. -/
theorem C16_defaults_user_agent (s : PrepSettings) (h : Headers) (b : BodyM) :
    (tryPrepare s h b).getAll (str "user-agent")
      = if h.contains (str "user-agent") then h.getAll (str "user-agent") else [s.userAgent] := by
  rw [st_tryPrepare_eq]
  simp only [hName]
  rw [st_getAll_insertIfMissing, st_getAll_insertIfMissing, st_contains_insertIfMissing]
  have hne : ¬ (str "accept" = str "user-agent") := C16.ne6
  simp only [hne, false_and, if_false]
  rw [C16.pre s h b _ C16.ue5 C16.ue1 C16.ue2 C16.ue3 C16.ue4,
      C16.preC s h b _ C16.ue5 C16.ue1 C16.ue2 C16.ue3 C16.ue4]
  cases hc : h.contains (str "user-agent") <;> simp [hne]

/-- (d) with compression allowed `Accept-Encoding` is forced to `gzip, deflate` (the caller's values
    are replaced); with compression off the caller's values go through and nothing is added. -/
theorem C16_defaults_accept_encoding (s : PrepSettings) (h : Headers) (b : BodyM) :
    (tryPrepare s h b).getAll (str "accept-encoding")
      = if s.allowCompression then [str "gzip, deflate"] else h.getAll (str "accept-encoding") := by
  rw [st_tryPrepare_eq]
  simp only [hName]
  rw [st_getAll_insertIfMissing, st_getAll_insertIfMissing]
  have hne1 : ¬ (str "user-agent" = str "accept-encoding") := C16.ue5
  have hne2 : ¬ (str "accept" = str "accept-encoding") := C16.ne5
  simp only [hne1, hne2, false_and, if_false]
  rw [st_prepMid_getAll _ b _ C16.ee1 C16.ee2 C16.ee3 C16.ee4]
  split
  · exact st_getAll_insert_self h _ _
  · rfl

/-- (d) all three together -/
theorem C16_defaults (s : PrepSettings) (h : Headers) (b : BodyM) :
    (tryPrepare s h b).getAll (str "accept")
      = (if h.contains (str "accept") then h.getAll (str "accept") else [str "*/*"]) ∧
    (tryPrepare s h b).getAll (str "user-agent")
      = (if h.contains (str "user-agent") then h.getAll (str "user-agent") else [s.userAgent]) ∧
    (tryPrepare s h b).getAll (str "accept-encoding")
      = (if s.allowCompression then [str "gzip, deflate"] else h.getAll (str "accept-encoding")) :=
  ⟨C16_defaults_accept s h b, C16_defaults_user_agent s h b, C16_defaults_accept_encoding s h b⟩

/-- non-vacuity: a caller-supplied `accept` and `accept-encoding`, compression on and off -/
example :
    let h : Headers := [(str "accept", str "text/html"), (str "accept-encoding", str "br")]
    let b : BodyM := { kind := .known 3, contentType := some (str "text/plain"), writes := [[1, 2, 3]] }
    (tryPrepare ⟨true, str "ua"⟩ h b).getAll (str "accept") = [str "text/html"] ∧
    (tryPrepare ⟨true, str "ua"⟩ h b).getAll (str "user-agent") = [str "ua"] ∧
    (tryPrepare ⟨true, str "ua"⟩ h b).getAll (str "accept-encoding") = [str "gzip, deflate"] ∧
    (tryPrepare ⟨false, str "ua"⟩ h b).getAll (str "accept-encoding") = [str "br"] ∧
    (tryPrepare ⟨false, str "ua"⟩ [] b).getAll (str "accept") = [str "*/*"] ∧
    (tryPrepare ⟨false, str "ua"⟩ [] b).getAll (str "accept-encoding") = [] := by decide +kernel


/-- Tie to the source: the model's default settings are the field values of
    `BaseSettings::default()` extracted from src/request/settings.rs on this run. -/
theorem C16_defaults_table :
    ({} : Scalars).maxHeaders = Consts.defaultMaxHeaders ∧
    ({} : Scalars).maxRedirections = Consts.defaultMaxRedirections ∧
    ({} : Scalars).followRedirects = Consts.defaultFollowRedirects ∧
    ({} : Scalars).connectTimeout = Consts.defaultConnectTimeoutMs ∧
    ({} : Scalars).readTimeout = Consts.defaultReadTimeoutMs ∧
    (({} : Scalars).timeout = none) = (Consts.defaultTimeoutNone = true) ∧
    ({} : Scalars).allowCompression = Consts.defaultAllowCompression := by decide

end Atto
