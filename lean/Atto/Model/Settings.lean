/-
  Atto/Model/Settings.lean — src/request/settings.rs (`BaseSettings`, `basic_setter!` = `Arc::make_mut`),
  src/request/session.rs (`Session { base_settings: Arc<BaseSettings> }`, `Clone`), src/request/builder.rs
  (`RequestBuilder { headers, base_settings: Arc<..> }`, `try_with_settings` copies the session's headers).

  Two machines over the same operations:
  * `Heap` — the code: settings live in reference-counted cells, setters go through `make_mut`
    (copy iff shared);
  * `Val`  — the specification: every object owns a plain value.
  `Props/C16.lean` proves that they are observationally equal for every operation sequence.
-/
import Atto.Std.HeaderMap
import Atto.Model.Request
namespace Atto

/-- the scalar part of `BaseSettings` (durations in ms; proxy / charset as opaque tags) -/
structure Scalars where
  maxHeaders : Nat := 100
  maxRedirections : Nat := 5
  followRedirects : Bool := true
  connectTimeout : Nat := 30000
  readTimeout : Nat := 30000
  timeout : Option Nat := none
  acceptInvalidCerts : Bool := false
  acceptInvalidHostnames : Bool := false
  allowCompression : Bool := true
  proxy : Nat := 0
  defaultCharset : Nat := 0
  rootCerts : Nat := 0
  deriving Repr, DecidableEq

structure BaseSettings where
  sc : Scalars := {}
  headers : Headers := []
  deriving Repr, DecidableEq

inductive Field where
  | maxHeaders | maxRedirections | followRedirects | connectTimeout | readTimeout | timeout
  | acceptInvalidCerts | acceptInvalidHostnames | allowCompression | proxy | defaultCharset | addRootCert
  deriving Repr, DecidableEq

def Scalars.set (s : Scalars) (f : Field) (v : Nat) : Scalars :=
  match f with
  | .maxHeaders => { s with maxHeaders := v }
  | .maxRedirections => { s with maxRedirections := v }
  | .followRedirects => { s with followRedirects := v != 0 }
  | .connectTimeout => { s with connectTimeout := v }
  | .readTimeout => { s with readTimeout := v }
  | .timeout => { s with timeout := some v }
  | .acceptInvalidCerts => { s with acceptInvalidCerts := v != 0 }
  | .acceptInvalidHostnames => { s with acceptInvalidHostnames := v != 0 }
  | .allowCompression => { s with allowCompression := v != 0 }
  | .proxy => { s with proxy := v }
  | .defaultCharset => { s with defaultCharset := v }
  | .addRootCert => { s with rootCerts := s.rootCerts + 1 }

/-- Operations on sessions (ids `s`) and request builders (ids `b`). Ids are allocated in order of
    creation; an op on a dead or unknown id is ignored by both machines. -/
inductive SOp where
  | newSession
  | cloneSession (s : Nat)
  | sessSet (s : Nat) (f : Field) (v : Nat)
  | sessHeader (s : Nat) (n v : Bytes)          -- `Session::header`: replaces
  | sessAppend (s : Nat) (n v : Bytes)          -- `Session::header_append`
  | create (s : Option Nat)                     -- `session.get(url)` / `attohttpc::get(url)` (none = fresh default settings)
  | bldSet (b : Nat) (f : Field) (v : Nat)
  | bldHeader (b : Nat) (n v : Bytes)
  | bldAppend (b : Nat) (n v : Bytes)
  | dropSession (s : Nat)
  | dropBuilder (b : Nat)
  | obsSession (s : Nat)                        -- observe the settings a session would give a new request
  | obsBuilder (b : Nat)                        -- observe what the request will be sent with
  deriving Repr

/-- What an observation shows. -/
structure Obs where
  sc : Scalars
  sessHeaders : Headers           -- headers stored in the settings (session level)
  reqHeaders : Headers            -- the request's own header map (builder); [] for a session
  deriving Repr, DecidableEq

-- ------------------------------------------------------------------ specification machine
structure VBuilder where
  settings : BaseSettings
  headers : Headers
  deriving Repr

structure Val where
  sessions : List (Option BaseSettings) := []
  builders : List (Option VBuilder) := []
  deriving Repr

def setAt {α} (l : List (Option α)) (i : Nat) (x : Option α) : List (Option α) :=
  if i < l.length then l.set i x else l

def getAt {α} (l : List (Option α)) (i : Nat) : Option α := (l[i]?).join

def Val.step (w : Val) : SOp → Val × Option Obs
  | .newSession => ({ w with sessions := w.sessions ++ [some {}] }, none)
  | .cloneSession s =>
    match getAt w.sessions s with
    | some v => ({ w with sessions := w.sessions ++ [some v] }, none)
    | none => (w, none)
  | .sessSet s f v =>
    match getAt w.sessions s with
    | some st => ({ w with sessions := setAt w.sessions s (some { st with sc := st.sc.set f v }) }, none)
    | none => (w, none)
  | .sessHeader s n v =>
    match getAt w.sessions s with
    | some st => ({ w with sessions := setAt w.sessions s (some { st with headers := st.headers.insert n v }) }, none)
    | none => (w, none)
  | .sessAppend s n v =>
    match getAt w.sessions s with
    | some st => ({ w with sessions := setAt w.sessions s (some { st with headers := st.headers.append n v }) }, none)
    | none => (w, none)
  | .create none => ({ w with builders := w.builders ++ [some { settings := {}, headers := [] }] }, none)
  | .create (some s) =>
    match getAt w.sessions s with
    | some st => ({ w with builders := w.builders ++ [some { settings := st, headers := st.headers }] }, none)
    | none => (w, none)
  | .bldSet b f v =>
    match getAt w.builders b with
    | some bl => ({ w with builders := setAt w.builders b (some { bl with settings := { bl.settings with sc := bl.settings.sc.set f v } }) }, none)
    | none => (w, none)
  | .bldHeader b n v =>
    match getAt w.builders b with
    | some bl => ({ w with builders := setAt w.builders b (some { bl with headers := bl.headers.insert n v }) }, none)
    | none => (w, none)
  | .bldAppend b n v =>
    match getAt w.builders b with
    | some bl => ({ w with builders := setAt w.builders b (some { bl with headers := bl.headers.append n v }) }, none)
    | none => (w, none)
  | .dropSession s => ({ w with sessions := setAt w.sessions s none }, none)
  | .dropBuilder b => ({ w with builders := setAt w.builders b none }, none)
  | .obsSession s =>
    match getAt w.sessions s with
    | some st => (w, some { sc := st.sc, sessHeaders := st.headers, reqHeaders := [] })
    | none => (w, none)
  | .obsBuilder b =>
    match getAt w.builders b with
    | some bl => (w, some { sc := bl.settings.sc, sessHeaders := bl.settings.headers, reqHeaders := bl.headers })
    | none => (w, none)

def Val.run (w : Val) : List SOp → List (Option Obs)
  | [] => []
  | op :: ops => let p := w.step op; p.2 :: Val.run p.1 ops

-- ------------------------------------------------------------------ the code: Arc cells
structure Cell where
  val : BaseSettings
  rc : Nat
  deriving Repr

structure HBuilder where
  ptr : Nat
  headers : Headers
  deriving Repr

structure Heap where
  cells : List Cell := []
  sessions : List (Option Nat) := []       -- Arc pointer of each live session
  builders : List (Option HBuilder) := []
  deriving Repr

def Heap.cell (h : Heap) (p : Nat) : Option Cell := h.cells[p]?

def Heap.alloc (h : Heap) (v : BaseSettings) : Heap × Nat :=
  ({ h with cells := h.cells ++ [{ val := v, rc := 1 }] }, h.cells.length)

def Heap.incr (h : Heap) (p : Nat) : Heap :=
  match h.cells[p]? with
  | some c => { h with cells := h.cells.set p { c with rc := c.rc + 1 } }
  | none => h

def Heap.decr (h : Heap) (p : Nat) : Heap :=
  match h.cells[p]? with
  | some c => { h with cells := h.cells.set p { c with rc := c.rc - 1 } }
  | none => h

/-- `Arc::make_mut(&mut arc)`: unique → mutate in place; shared → clone the value into a fresh cell
    and release one reference of the old one. Returns the pointer the handle now holds. -/
def Heap.makeMut (h : Heap) (p : Nat) (f : BaseSettings → BaseSettings) : Heap × Nat :=
  match h.cells[p]? with
  | some c =>
    if c.rc = 1 then ({ h with cells := h.cells.set p { c with val := f c.val } }, p)
    else
      let h1 := h.decr p
      ({ h1 with cells := h1.cells ++ [{ val := f c.val, rc := 1 }] }, h1.cells.length)
  | none => (h, p)

def Heap.step (h : Heap) : SOp → Heap × Option Obs
  | .newSession =>
    let (h1, p) := h.alloc {}
    ({ h1 with sessions := h1.sessions ++ [some p] }, none)
  | .cloneSession s =>
    match getAt h.sessions s with
    | some p => let h1 := h.incr p; ({ h1 with sessions := h1.sessions ++ [some p] }, none)
    | none => (h, none)
  | .sessSet s f v =>
    match getAt h.sessions s with
    | some p =>
      let (h1, p') := h.makeMut p (fun st => { st with sc := st.sc.set f v })
      ({ h1 with sessions := setAt h1.sessions s (some p') }, none)
    | none => (h, none)
  | .sessHeader s n v =>
    match getAt h.sessions s with
    | some p =>
      let (h1, p') := h.makeMut p (fun st => { st with headers := st.headers.insert n v })
      ({ h1 with sessions := setAt h1.sessions s (some p') }, none)
    | none => (h, none)
  | .sessAppend s n v =>
    match getAt h.sessions s with
    | some p =>
      let (h1, p') := h.makeMut p (fun st => { st with headers := st.headers.append n v })
      ({ h1 with sessions := setAt h1.sessions s (some p') }, none)
    | none => (h, none)
  | .create none =>
    let (h1, p) := h.alloc {}
    ({ h1 with builders := h1.builders ++ [some { ptr := p, headers := [] }] }, none)
  | .create (some s) =>
    match getAt h.sessions s with
    | some p =>
      match h.cell p with
      | some c =>
        let h1 := h.incr p      -- `self.base_settings.clone()`
        ({ h1 with builders := h1.builders ++ [some { ptr := p, headers := c.val.headers }] }, none)
      | none => (h, none)
    | none => (h, none)
  | .bldSet b f v =>
    match getAt h.builders b with
    | some bl =>
      let (h1, p') := h.makeMut bl.ptr (fun st => { st with sc := st.sc.set f v })
      ({ h1 with builders := setAt h1.builders b (some { bl with ptr := p' }) }, none)
    | none => (h, none)
  | .bldHeader b n v =>
    match getAt h.builders b with
    | some bl => ({ h with builders := setAt h.builders b (some { bl with headers := bl.headers.insert n v }) }, none)
    | none => (h, none)
  | .bldAppend b n v =>
    match getAt h.builders b with
    | some bl => ({ h with builders := setAt h.builders b (some { bl with headers := bl.headers.append n v }) }, none)
    | none => (h, none)
  | .dropSession s =>
    match getAt h.sessions s with
    | some p => let h1 := h.decr p; ({ h1 with sessions := setAt h1.sessions s none }, none)
    | none => (h, none)
  | .dropBuilder b =>
    match getAt h.builders b with
    | some bl => let h1 := h.decr bl.ptr; ({ h1 with builders := setAt h1.builders b none }, none)
    | none => (h, none)
  | .obsSession s =>
    match getAt h.sessions s with
    | some p =>
      match h.cell p with
      | some c => (h, some { sc := c.val.sc, sessHeaders := c.val.headers, reqHeaders := [] })
      | none => (h, none)
    | none => (h, none)
  | .obsBuilder b =>
    match getAt h.builders b with
    | some bl =>
      match h.cell bl.ptr with
      | some c => (h, some { sc := c.val.sc, sessHeaders := c.val.headers, reqHeaders := bl.headers })
      | none => (h, none)
    | none => (h, none)

def Heap.run (h : Heap) : List SOp → List (Option Obs)
  | [] => []
  | op :: ops => let p := h.step op; p.2 :: Heap.run p.1 ops

end Atto
