/- Atto/Driver/CharsetOp.lean — op `charset`. -/
import Atto.Driver.SendOp
import Atto.Model.Charset
namespace Atto.Driver
open Atto

/-- `charset <content-type values hex,hex|-> <default namehex|~> <table: labelhex=namehex|~ ; …|->`
    → `cs=<namehex>`; `for_label` is given as the table (labels not listed are unknown). -/
def opCharset (args : List String) : String :=
  match args with
  | [cts, dflt, table] =>
    match (splitComma cts).mapM bytesOfHex, optBytes dflt with
    | some cts, some dflt =>
      let entries := (if table == "-" then [] else table.splitOn ";").filterMap (fun e =>
        match e.splitOn "=" with
        | [k, v] => match bytesOfHex k, optBytes v with
          | some k, some v => some (k, v)
          | _, _ => none
        | _ => none)
      let forLabel : Bytes → Option Bytes := fun l => (entries.find? (fun e => e.1 == l)).bind (·.2)
      let hs : Headers := cts.map (fun v => (str "content-type", v))
      "cs=" ++ hexOfBytes (getCharset forLabel (str "windows-1252") hs dflt)
    | _, _ => "bad-op"
  | _ => "bad-op"

end Atto.Driver
