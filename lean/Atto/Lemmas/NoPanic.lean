/-
  Atto/Lemmas/NoPanic.lean — absence of panics (slice index, usize underflow, `Take`'s assert,
  exhausted fuel) in the response pipeline over the BufReader model, for ANY scripted transport.

  Part 1 re-proves, inside `namespace Atto.NoPanic`, the "no panic on any input" part of
  Lemmas/ChunkedFlat.lean: that module cannot be imported together with Lemmas/HeadFlat.lean
  (both declare `Atto.readLine_line`, `Atto.bytesI_append`, …).
-/
import Atto.Lemmas.Pipeline
import Atto.Lemmas.ReadsSim
import Atto.Model.Response
namespace Atto
namespace NoPanic

/-! ## Part 1: the chunked decoder on the flat stream (copy of ChunkedFlat, Part D) -/

theorem RR.map_ne_panic {f : α → β} {x : RR α} (h : x ≠ .panic) : x.map f ≠ .panic := by
  cases x <;> simp_all [RR.map]

theorem specExact_ne_panic (n : Nat) (is : List Item) : (specExact n is).1 ≠ .panic := by
  fun_induction specExact n is <;> first | (simp; done) | (simp only; apply RR.map_ne_panic; assumption) | assumption

theorem specExact_ok_length (n : Nat) (is : List Item) :
    ∀ bs, (specExact n is).1 = .ok bs → bs.length = n := by
  fun_induction specExact n is with
  | case1 => simp
  | case2 => simp
  | case3 n b is p ih =>
    intro bs h
    simp only at h
    cases hp : p.1 with
    | ok v => rw [hp] at h; simp at h; subst h; simp [ih v hp]
    | _ => rw [hp] at h; simp [RR.map] at h
  | case4 => assumption
  | case5 => simp
  | case6 => simp

theorem specUntil_ne_panic (l : Nat) (is : List Item) (acc : Bytes) :
    (specUntil l is acc).1 ≠ .panic := by
  fun_induction specUntil l is acc <;> first | (simp; done) | assumption

theorem readLine_flat_ne_panic (r : List Item) (l : Nat) : (readLine flatSrc r l).1 ≠ .panic := by
  unfold readLine
  have := specUntil_ne_panic l r []
  simp only [flatSrc]
  split
  · split <;> simp
  · simp
  · simp
  · rename_i h; rw [h] at this; exact absurd rfl this

theorem specExact_one_ok {r : List Item} {bs : Bytes} (h : (specExact 1 r).1 = .ok bs) :
    ∃ b, bs = [b] := by
  have := specExact_ok_length 1 r bs h
  match bs, this with
  | [b], _ => exact ⟨b, rfl⟩

theorem readLineEnding_flat_ne_panic (r : List Item) : (readLineEnding flatSrc r).1 ≠ .panic := by
  unfold readLineEnding
  simp only [flatSrc]
  rcases h1 : specExact 1 r with ⟨res, r'⟩
  cases res with
  | ok bs =>
    obtain ⟨b, rfl⟩ := specExact_one_ok (r := r) (by rw [h1])
    simp only
    split
    · rcases h2 : specExact 1 r' with ⟨res2, r''⟩
      cases res2 with
      | ok bs2 =>
        obtain ⟨b2, rfl⟩ := specExact_one_ok (r := r') (by rw [h2])
        simp
      | err e => simp
      | blocked => simp
      | panic => exact absurd (by rw [h2]) (specExact_ne_panic 1 r')
    · simp
  | err e => simp
  | blocked => simp
  | panic => exact absurd (by rw [h1]) (specExact_ne_panic 1 r)

theorem skipTrailersLoop_flat_ne_panic (k : Nat) (r : List Item) :
    (skipTrailersLoop flatSrc k r).1 ≠ .panic := by
  induction k generalizing r with
  | zero => simp [skipTrailersLoop]
  | succ k ih =>
    unfold skipTrailersLoop
    rcases h : readLine flatSrc r Consts.trailerLineLimit with ⟨res, r'⟩
    cases res with
    | ok line =>
      simp only
      split
      · simp
      · exact ih r'
    | err e => simp
    | blocked => simp
    | panic => exact absurd (by rw [h]) (readLine_flat_ne_panic r _)

theorem skipTrailers_flat_ne_panic (r : List Item) : (skipTrailers flatSrc r).1 ≠ .panic :=
  skipTrailersLoop_flat_ne_panic _ r

theorem chunkEnd_flat_ne_panic (last : Bool) (r : List Item) :
    (chunkEnd flatSrc last r).1 ≠ .panic := by
  unfold chunkEnd
  cases last
  · exact readLineEnding_flat_ne_panic r
  · exact skipTrailers_flat_ne_panic r

theorem readChunkSize_flat_ne_panic (c : Chunked (List Item)) :
    (c.readChunkSize flatSrc).1 ≠ .panic := by
  unfold Chunked.readChunkSize
  rcases h : readLine flatSrc c.inner Consts.chunkSizeLineLimit with ⟨res, r'⟩
  cases res with
  | ok line =>
    simp only
    split
    · simp
    · split <;> simp
  | err e => simp
  | blocked => simp
  | panic => exact absurd (by rw [h]) (readLine_flat_ne_panic c.inner _)

theorem refillData_flat_ne_panic (c : Chunked (List Item)) (m : Nat) :
    (Chunked.refillData flatSrc c m).1 ≠ .panic ∧
    ((Chunked.refillData flatSrc c m).1 = .ok () → (Chunked.refillData flatSrc c m).2.consumed = 0) := by
  unfold Chunked.refillData
  rcases h : flatSrc.readExact c.inner (min c.remaining m) with ⟨res, r'⟩
  cases res with
  | ok bs =>
    have hl := specExact_ok_length _ _ _ (show (specExact (min c.remaining m) c.inner).1 = .ok bs by
      have := congrArg Prod.fst h; simpa [flatSrc] using this)
    have : ¬ c.remaining < bs.length := by omega
    simp only [this, if_false]
    split
    · rcases h2 : chunkEnd flatSrc c.reachedEof r' with ⟨res2, r''⟩
      cases res2 with
      | ok b => cases b <;> simp
      | err e => simp
      | blocked => simp
      | panic => exact absurd (by rw [h2]) (chunkEnd_flat_ne_panic _ r')
    · simp
  | err e => simp
  | blocked => simp
  | panic =>
    exact absurd (by have := congrArg Prod.fst h; simpa [flatSrc] using this) (specExact_ne_panic _ _)

theorem refill_flat_ne_panic (c : Chunked (List Item)) (m : Nat) :
    (Chunked.refill flatSrc c m).1 ≠ .panic ∧
    ((Chunked.refill flatSrc c m).1 = .ok () → (Chunked.refill flatSrc c m).2.consumed = 0) := by
  unfold Chunked.refill
  split
  · rcases h : c.readChunkSize flatSrc with ⟨res, c'⟩
    cases res with
    | ok n => exact refillData_flat_ne_panic _ m
    | err e => simp
    | blocked => simp
    | panic => exact absurd (by rw [h]) (readChunkSize_flat_ne_panic c)
  · exact refillData_flat_ne_panic _ m

/-! ### `fill_buf` equations -/

theorem fillBuf_failed (S : Src σ) (c : Chunked σ) (m : Nat) (h : c.failed = true) :
    c.fillBuf S m = (.err .chunk, c) := by
  simp [Chunked.fillBuf, h]

theorem fillBuf_noRefill (S : Src σ) (c : Chunked σ) (m : Nat) (hf : c.failed = false)
    (h : ¬ (c.buffer.length = c.consumed ∧ ¬ (c.remaining = 0 ∧ c.reachedEof)))
    (hc : c.consumed ≤ c.buffer.length) :
    c.fillBuf S m = (.ok (c.buffer.drop c.consumed), c) := by
  have : ¬ c.buffer.length < c.consumed := by omega
  simp only [Chunked.fillBuf, hf, h, if_false, Bool.false_eq_true, this]

theorem fillBuf_refill (S : Src σ) (c : Chunked σ) (m : Nat) (hf : c.failed = false)
    (h : c.buffer.length = c.consumed ∧ ¬ (c.remaining = 0 ∧ c.reachedEof)) :
    c.fillBuf S m =
      match c.refill S m with
      | (.ok (), c') =>
        if c'.buffer.length < c'.consumed then (.panic, c') else (.ok (c'.buffer.drop c'.consumed), c')
      | (.err e, c') => (.err e, { c' with failed := true, buffer := [], consumed := 0 })
      | (.blocked, c') => (.blocked, { c' with failed := true, buffer := [], consumed := 0 })
      | (.panic, c') => (.panic, c') := by
  simp only [Chunked.fillBuf, hf, h, Bool.false_eq_true, if_false]
  rcases c.refill S m with ⟨res, c'⟩
  cases res <;> rfl

theorem fillBuf_flat_ne_panic (c : Chunked (List Item)) (m : Nat) (hc : c.consumed ≤ c.buffer.length) :
    (Chunked.fillBuf flatSrc c m).1 ≠ .panic ∧
    (Chunked.fillBuf flatSrc c m).2.consumed ≤ (Chunked.fillBuf flatSrc c m).2.buffer.length := by
  cases hf : c.failed with
  | true => simp [fillBuf_failed _ _ _ hf, hc]
  | false =>
    by_cases h : c.buffer.length = c.consumed ∧ ¬ (c.remaining = 0 ∧ c.reachedEof)
    · rw [fillBuf_refill _ _ _ hf h]
      have hr := refill_flat_ne_panic c m
      rcases h2 : c.refill flatSrc m with ⟨res, c'⟩
      rw [h2] at hr
      cases res with
      | ok u =>
        have := hr.2 rfl
        simp only at this
        simp [this]
      | err e => simp
      | blocked => simp
      | panic => simp at hr
    · simp [fillBuf_noRefill _ _ _ hf h hc, hc]

theorem read_flat_ne_panic (c : Chunked (List Item)) (m n : Nat) (hc : c.consumed ≤ c.buffer.length) :
    (Chunked.read flatSrc c m n).1 ≠ .panic ∧
    (Chunked.read flatSrc c m n).2.consumed ≤ (Chunked.read flatSrc c m n).2.buffer.length := by
  have := fillBuf_flat_ne_panic c m hc
  unfold Chunked.read
  rcases h : c.fillBuf flatSrc m with ⟨res, c'⟩
  rw [h] at this
  cases res with
  | ok av => simp [Chunked.consume]; omega
  | err e => simpa using this
  | blocked => simpa using this
  | panic => simp at this


end NoPanic

/-! ## Part 2: `BodyReader` over the BufReader model -/

/-- Invariant of a `BodyReader`: the BufReader invariant, and for the chunked decoder
    `consumed ≤ buffer.len()` (the slice `&buffer[consumed..]` is in range). -/
def Body.Ok : Body → Prop
  | .chunked c => c.inner.Ok ∧ c.consumed ≤ c.buffer.length
  | .length r _ => r.Ok
  | .close r => r.Ok

theorem Body.new_ok (f : Framing) (r : BufR) (h : r.Ok) : (Body.new f r).Ok := by
  cases f <;> simp [Body.new, Body.Ok, h]

/-- a `BufReader::read` with any caller buffer size (0 included): no panic, at most `n` bytes -/
theorem bufRead_any (r : BufR) (n : Nat) (h : r.Ok) :
    (r.read n).1 ≠ .panic ∧ (r.read n).2.Ok ∧ ∀ bs, (r.read n).1 = .ok bs → bs.length ≤ n := by
  by_cases hn : n = 0
  · subst hn
    obtain ⟨h1, _, h3⟩ := read_zero_spec r h
    refine ⟨?_, h1, ?_⟩
    · rcases hfl : r.flat with _ | ⟨(b | k | _), rest⟩ <;> rw [hfl] at h3 <;> simp only at h3 <;>
        rw [h3.1] <;> simp
    · intro bs hbs
      rcases hfl : r.flat with _ | ⟨(b | k | _), rest⟩ <;> rw [hfl] at h3 <;> simp only at h3 <;>
        rw [h3.1] at hbs <;> cases hbs <;> simp
  · obtain ⟨h1, _, h3⟩ := read_spec r n h (by omega)
    refine ⟨?_, h1, ?_⟩
    · rcases hfl : r.flat with _ | ⟨(b | k | _), rest⟩ <;> rw [hfl] at h3 <;> simp only at h3
      · rw [h3.1]; simp
      · obtain ⟨bs, e, _⟩ := h3; rw [e]; simp
      · rw [h3.1]; simp
      · rw [h3.1]; simp
    · intro bs hbs
      rcases hfl : r.flat with _ | ⟨(b | k | _), rest⟩ <;> rw [hfl] at h3 <;> simp only at h3
      · rw [h3.1] at hbs; cases hbs; simp
      · obtain ⟨bs', e, _, hle, _⟩ := h3; rw [e] at hbs; cases hbs; exact hle
      · rw [h3.1] at hbs; cases hbs
      · rw [h3.1] at hbs; cases hbs

/-- one `read` on the chunked decoder over the BufReader model -/
theorem chunked_read_buf (c : Chunked BufR) (maxBuf n : Nat) (hi : c.inner.Ok)
    (hc : c.consumed ≤ c.buffer.length) :
    (c.read bufSrc maxBuf n).1 ≠ .panic ∧ (c.read bufSrc maxBuf n).2.inner.Ok ∧
    (c.read bufSrc maxBuf n).2.consumed ≤ (c.read bufSrc maxBuf n).2.buffer.length := by
  obtain ⟨h1, h2, h3⟩ := Chunked.read_sim bufSim c maxBuf n hi
  have hf := NoPanic.read_flat_ne_panic (c.mapInner BufR.flat) maxBuf n hc
  rw [← h1, ← h2] at hf
  exact ⟨hf.1, h3, hf.2⟩

/-- One `read` on a `BodyReader`: no panic (in particular `Take`'s `assert!(n <= limit)` holds:
    the inner read is asked for `min n limit` bytes and returns at most that), invariant kept. -/
theorem Body.read_no_panic (b : Body) (maxBuf n : Nat) (h : b.Ok) :
    (b.read maxBuf n).1 ≠ .panic ∧ (b.read maxBuf n).2.Ok := by
  cases b with
  | chunked c =>
    obtain ⟨h1, h2, h3⟩ := chunked_read_buf c maxBuf n h.1 h.2
    simp only [Body.read]
    exact ⟨h1, h2, h3⟩
  | close r =>
    obtain ⟨h1, h2, _⟩ := bufRead_any r n h
    simp only [Body.read]
    exact ⟨h1, h2⟩
  | length r limit =>
    simp only [Body.read]
    by_cases hl : limit = 0
    · simp only [hl, if_true]; exact ⟨by simp, by simpa [hl] using h⟩
    · simp only [hl, if_false]
      obtain ⟨h1, h2, h3⟩ := bufRead_any r (min n limit) h
      rcases hrd : r.read (min n limit) with ⟨res, r'⟩
      rw [hrd] at h1 h2 h3
      cases res with
      | ok bs =>
        have hle := h3 bs rfl
        have : ¬ limit < bs.length := by omega
        simp only [this, if_false]
        split
        · exact ⟨by simp, h2⟩
        · exact ⟨by simp, h2⟩
      | err e => exact ⟨by simp, h2⟩
      | blocked => exact ⟨by simp, h2⟩
      | panic => simp at h1

/-- A caller issuing any sequence of reads never observes a panic. -/
theorem reads_no_panic (maxBuf : Nat) (ns : List Nat) : ∀ (b : Body), b.Ok →
    (∀ e ∈ (reads maxBuf ns b).1, e ≠ Ev.panic) ∧ (reads maxBuf ns b).2.Ok := by
  induction ns with
  | nil => intro b h; exact ⟨by simp [reads], h⟩
  | cons n ns ih =>
    intro b h
    obtain ⟨h1, h2⟩ := Body.read_no_panic b maxBuf n h
    simp only [reads]
    rcases hrd : b.read maxBuf n with ⟨res, b'⟩
    rw [hrd] at h1 h2
    obtain ⟨i1, i2⟩ := ih b' h2
    refine ⟨?_, i2⟩
    intro e he
    simp only [List.mem_cons] at he
    rcases he with rfl | he
    · cases res <;> simp_all [Ev.ofRR]
    · exact i1 e he

/-- `parse_response` never panics and the body it returns satisfies the invariant. -/
theorem parseResponse_ok (m : Method) (t : Transport) (cap mh : Nat) (hw : wfT t) (hc : 0 < cap) :
    parseResponse m mh cap t ≠ .panic ∧
    ∀ resp, parseResponse m mh cap t = .ok resp →
      ∃ f r1, resp.body = Body.new f r1 ∧ r1.Ok ∧ chooseFraming m resp.status resp.rawHeaders = .ok f := by
  have hok : (BufR.fresh cap t).Ok := BufR.fresh_ok cap t hw hc
  obtain ⟨h1, _, h3⟩ := head_buf_flat (BufR.fresh cap t) mh hok
  have hnp := head_no_panic (BufR.fresh cap t).flat mh
  rw [← h1] at hnp
  unfold parseResponse
  simp only [BufR.fresh] at hnp h3 ⊢
  rcases hh : parseResponseHead bufSrc { buf := [], cap := cap, inner := t } mh with ⟨res, r1⟩
  rw [hh] at hnp h3
  cases res with
  | ok v =>
    obtain ⟨st, hs⟩ := v
    simp only
    cases hf : chooseFraming m st hs with
    | error e => simp
    | ok f =>
      refine ⟨by simp, ?_⟩
      intro resp hr
      simp only [RR.ok.injEq] at hr
      subst hr
      exact ⟨f, r1, rfl, h3, hf⟩
  | err e => simp
  | blocked => simp
  | panic => simp at hnp

end Atto
