/-
  Atto/Spec/TextSpec.lean — two reference text decoders, specification side (the real ones live in
  encoding_rs / std, third-party):

  (1) single-byte charsets (windows-1252, ISO-8859-x, …): one table lookup per byte;
  (2) UTF-8 with replacement, as in the WHATWG Encoding Standard §8.1.1 "UTF-8 decoder" (the
      "maximal subpart → U+FFFD" practice of Unicode §3.9, which `String::from_utf8_lossy` and
      encoding_rs follow): a small automaton with a pending partial sequence.  A byte that cannot
      continue the pending sequence ends it with ONE U+FFFD and is then examined again as a first
      byte; an incomplete sequence at the end of input gives ONE U+FFFD.

  Both are total functions: there is no error result.  BOM handling is not part of them.
-/
import Atto.Std.HeaderMap
namespace Atto

/-! ### (1) single-byte charsets -/

def decodeSB (table : UInt8 → Char) (bs : Bytes) : List Char := bs.map table

/-- a streaming single-byte decoder: chunk after chunk -/
def decodeSBChunks (table : UInt8 → Char) (chunks : List Bytes) : List Char :=
  (chunks.map (decodeSB table)).flatten

/-! ### (2) UTF-8 with replacement -/

def replacementChar : Char := Char.ofNat 0xFFFD

/-- decoder state: the bits collected so far, the number of continuation bytes still needed
    (`0` = no sequence pending) and the range allowed for the next continuation byte -/
structure U8State where
  cp : Nat := 0
  needed : Nat := 0
  lower : UInt8 := 0x80
  upper : UInt8 := 0xBF
  deriving Repr, DecidableEq

def U8State.init : U8State := {}

/-- a byte examined with no sequence pending -/
def utf8Start (b : UInt8) : U8State × List Char :=
  if b ≤ 0x7F then ({}, [Char.ofNat b.toNat])
  else if 0xC2 ≤ b ∧ b ≤ 0xDF then ({ cp := (b &&& 0x1F).toNat, needed := 1 }, [])
  else if 0xE0 ≤ b ∧ b ≤ 0xEF then
    ({ cp := (b &&& 0x0F).toNat, needed := 2,
       lower := if b = 0xE0 then 0xA0 else 0x80, upper := if b = 0xED then 0x9F else 0xBF }, [])
  else if 0xF0 ≤ b ∧ b ≤ 0xF4 then
    ({ cp := (b &&& 0x07).toNat, needed := 3,
       lower := if b = 0xF0 then 0x90 else 0x80, upper := if b = 0xF4 then 0x8F else 0xBF }, [])
  else ({}, [replacementChar])

def utf8Step (s : U8State) (b : UInt8) : U8State × List Char :=
  if s.needed = 0 then utf8Start b
  else if s.lower ≤ b ∧ b ≤ s.upper then
    let cp := s.cp * 64 + (b &&& 0x3F).toNat
    if s.needed = 1 then ({}, [Char.ofNat cp])
    else ({ cp := cp, needed := s.needed - 1 }, [])
  else
    let r := utf8Start b
    (r.1, replacementChar :: r.2)

/-- run the automaton over a piece of input -/
def utf8Run (s : U8State) : Bytes → U8State × List Char
  | [] => (s, [])
  | b :: bs =>
    let r1 := utf8Step s b
    let r2 := utf8Run r1.1 bs
    (r2.1, r1.2 ++ r2.2)

/-- end of input -/
def utf8Finish (s : U8State) : List Char := if s.needed = 0 then [] else [replacementChar]

def decodeUtf8 (bs : Bytes) : List Char :=
  let r := utf8Run .init bs
  r.2 ++ utf8Finish r.1

/-- a streaming decoder fed chunk after chunk, the state carried over -/
def utf8RunChunks (s : U8State) : List Bytes → U8State × List Char
  | [] => (s, [])
  | c :: cs =>
    let r1 := utf8Run s c
    let r2 := utf8RunChunks r1.1 cs
    (r2.1, r1.2 ++ r2.2)

def decodeUtf8Chunks (chunks : List Bytes) : List Char :=
  let r := utf8RunChunks .init chunks
  r.2 ++ utf8Finish r.1

/-! ### sanity: evaluation -/

def cps (cs : List Char) : List Nat := cs.map Char.toNat

/-- 1-, 2-, 3-, 4-byte sequences: `A`, U+00E9, U+20AC, U+1D11E; the extremes of each length -/
example : cps (decodeUtf8 [0x41, 0xC3, 0xA9, 0xE2, 0x82, 0xAC, 0xF0, 0x9D, 0x84, 0x9E])
    = [0x41, 0xE9, 0x20AC, 0x1D11E] := by decide +kernel
example : cps (decodeUtf8 [0x00, 0x7F, 0xC2, 0x80, 0xDF, 0xBF, 0xE0, 0xA0, 0x80, 0xEF, 0xBF, 0xBF,
    0xF0, 0x90, 0x80, 0x80, 0xF4, 0x8F, 0xBF, 0xBF, 0xED, 0x9F, 0xBF, 0xEE, 0x80, 0x80])
    = [0, 0x7F, 0x80, 0x7FF, 0x800, 0xFFFF, 0x10000, 0x10FFFF, 0xD7FF, 0xE000] := by decide +kernel
/-- `FE EA D9`: an invalid byte, a first byte cut by a non-continuation, a first byte cut by the end -/
example : cps (decodeUtf8 [0xFE, 0xEA, 0xD9]) = [0xFFFD, 0xFFFD, 0xFFFD] := by decide +kernel
/-- truncated `E6 97` (of `E6 97 A5`): ONE replacement character -/
example : cps (decodeUtf8 [0xE6, 0x97]) = [0xFFFD] := by decide +kernel
/-- the byte that breaks a sequence is decoded itself -/
example : cps (decodeUtf8 [0xE6, 0x97, 0x41, 0xE6, 0x97, 0xA5]) = [0xFFFD, 0x41, 0x65E5] := by
  decide +kernel
/-- overlong forms, a surrogate, beyond U+10FFFF: one U+FFFD per byte (no maximal subpart > 1) -/
example : cps (decodeUtf8 [0xC0, 0x80]) = [0xFFFD, 0xFFFD] := by decide +kernel
example : cps (decodeUtf8 [0xE0, 0x80, 0x80]) = [0xFFFD, 0xFFFD, 0xFFFD] := by decide +kernel
example : cps (decodeUtf8 [0xED, 0xA0, 0x80]) = [0xFFFD, 0xFFFD, 0xFFFD] := by decide +kernel
example : cps (decodeUtf8 [0xF4, 0x90, 0x80, 0x80]) = [0xFFFD, 0xFFFD, 0xFFFD, 0xFFFD] := by
  decide +kernel
/-- Unicode 15 §3.9 table 3-11: `61 F1 80 80 E1 80 C2 62 80 63 80 BF 64` -/
example : cps (decodeUtf8 [0x61, 0xF1, 0x80, 0x80, 0xE1, 0x80, 0xC2, 0x62, 0x80, 0x63, 0x80, 0xBF, 0x64])
    = [0x61, 0xFFFD, 0xFFFD, 0xFFFD, 0x62, 0xFFFD, 0x63, 0xFFFD, 0xFFFD, 0x64] := by decide +kernel
/-- a sequence split over three chunks -/
example : cps (decodeUtf8Chunks [[0x41, 0xF0], [0x9D], [], [0x84, 0x9E, 0xE6], [0x97]])
    = [0x41, 0x1D11E, 0xFFFD] := by decide +kernel

end Atto
