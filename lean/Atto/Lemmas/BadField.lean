/-
  Atto/Lemmas/BadField.lean — a head whose well-formed field lines are followed by ONE field line
  that `parseFieldLine` refuses: the header loop stops there with that error, on the flat stream and
  through the BufReader model. Used by Props/C03v.
-/
import Atto.Lemmas.Pipeline
namespace Atto

/-! ### `read_line_strict` returns exactly the bytes before the FIRST CRLF

  `readLineStrict_line` (HeadFlat) asks for a line without any CR; a refused field value may well
  contain one (a bare CR is not a value byte). What the reader needs is only that the CRLF which
  ends the line is the first one: `¬ [13, 10] <:+: ln ++ [13]` (no CR LF inside `ln`, and `ln` does
  not end in a CR … followed by the LF of the terminator; a CR before the terminating CR is fine). -/

theorem readLineStrictLoop_first_crlf (fuel : Nat) : ∀ (ln buf : Bytes) (limit : Nat) (rest : List Item),
    ¬ [13, 10] <:+: ln ++ [13] → ln.length + 2 ≤ limit → ln.length < fuel →
    readLineStrictLoop flatSrc fuel (bytesI (ln ++ [13, 10]) ++ rest) limit buf =
      (.ok (buf ++ ln), rest) := by
  induction fuel with
  | zero => intro ln buf limit rest _ _ h; omega
  | succ fuel ih =>
    intro ln buf limit rest hcr hlim hfuel
    by_cases h10 : (10 : UInt8) ∈ ln
    · obtain ⟨pre, post, e, hpre⟩ := split_first_lf ln h10
      subst e
      have hs : bytesI (pre ++ 10 :: post ++ [13, 10]) ++ rest
          = bytesI pre ++ .byte 10 :: (bytesI (post ++ [13, 10]) ++ rest) := by simp
      simp only [List.length_append, List.length_cons] at hlim hfuel
      unfold readLineStrictLoop
      rw [flatSrc_readUntil, hs, specUntil_run pre limit [] _ hpre (by omega)]
      have hg : ¬ (1 ≤ pre.length ∧
          (pre.getLast? = some 13 ∨ pre = [] ∧ List.getLast? buf = some 13)) := by
        intro ⟨hk, hl⟩
        rcases hl with hl | ⟨hl, _⟩
        · obtain ⟨ys, rfl⟩ := List.getLast?_eq_some_iff.mp hl
          exact hcr ⟨ys, post ++ [13], by simp⟩
        · simp [hl] at hk
      have hcr' : ¬ [13, 10] <:+: post ++ [13] := by
        intro ⟨s, u, e⟩
        exact hcr ⟨pre ++ 10 :: s, u, by simp [← e]⟩
      have ih' := ih post (buf ++ (pre ++ [10])) (limit - (pre.length + 1)) rest hcr' (by omega)
        (by omega)
      simp only [bytesI_append, bytesI_cons, bytesI_nil, List.append_assoc, List.cons_append,
        List.nil_append] at ih'
      simp [hg, ih']
    · have hpre : (10 : UInt8) ∉ ln ++ [13] := by simp [h10]
      have hs : bytesI (ln ++ [13, 10]) ++ rest = bytesI (ln ++ [13]) ++ .byte 10 :: rest := by simp
      unfold readLineStrictLoop
      rw [flatSrc_readUntil, hs, specUntil_run (ln ++ [13]) limit [] _ hpre (by simp; omega)]
      simp

theorem readLineStrict_first_crlf (ln : Bytes) (limit : Nat) (rest : List Item)
    (hcr : ¬ [13, 10] <:+: ln ++ [13]) (hlim : ln.length + 2 ≤ limit) :
    readLineStrict flatSrc (bytesI (ln ++ [13, 10]) ++ rest) limit = (.ok ln, rest) := by
  unfold readLineStrict
  rw [readLineStrictLoop_first_crlf (limit + 1) ln [] limit rest hcr hlim (by omega)]
  simp

/-- two handier sufficient conditions -/
theorem first_crlf_of_no_cr (ln : Bytes) (h : (13 : UInt8) ∉ ln) : ¬ [13, 10] <:+: ln ++ [13] := by
  intro ⟨s, u, e⟩
  have hl := congrArg List.length e
  simp only [List.length_append, List.length_cons, List.length_nil] at hl
  have hg := congrArg (·[s.length]?) e
  simp only [List.append_assoc, List.getElem?_append_right (Nat.le_refl _), Nat.sub_self,
    List.cons_append, List.getElem?_cons_zero] at hg
  rw [List.getElem?_append_left (by omega)] at hg
  exact h (List.mem_of_getElem? hg.symm)

theorem first_crlf_of_no_lf (ln : Bytes) (h : (10 : UInt8) ∉ ln) : ¬ [13, 10] <:+: ln ++ [13] := by
  intro ⟨s, u, e⟩
  have h10 : (10 : UInt8) ∈ ln ++ [13] := by rw [← e]; simp
  simp only [List.mem_append, List.mem_singleton] at h10
  rcases h10 with h10 | h10
  · exact h h10
  · cases h10

/-! ### the header loop: well-formed field lines, then a refused line -/

theorem parseHeadersLoop_fields_then_bad (fields : List FieldS) (bad : Bytes) (e : E) :
    ∀ (fuel : Nat) (rest : List Item) (mh : Nat) (acc : Headers),
    (∀ f ∈ fields, f.WF Consts.maxLineLen) → fields.length < fuel →
    acc.length + fields.length < mh → acc.length + fields.length ≤ Headers.maxSize →
    ¬ [13, 10] <:+: bad ++ [13] → bad.length + 2 ≤ Consts.maxLineLen → bad ≠ [] →
    parseFieldLine bad = .bad e →
    parseHeadersLoop flatSrc fuel (bytesI (renderFields fields ++ bad ++ [13, 10]) ++ rest) mh acc.length acc =
      (.err e, rest) := by
  induction fields with
  | nil =>
    intro fuel rest mh acc _ hf hmh _ hcr hlen hne hbad
    cases fuel with
    | zero => simp at hf
    | succ fuel =>
      have hrl := readLineStrict_first_crlf bad Consts.maxLineLen rest hcr hlen
      have hs : bytesI (renderFields [] ++ bad ++ [13, 10]) ++ rest = bytesI (bad ++ [13, 10]) ++ rest := by
        simp [renderFields]
      simp only [List.length_nil, Nat.add_zero] at hmh
      unfold parseHeadersLoop
      rw [hs, hrl]
      simp only [hne, if_false, hbad]
      rw [if_neg (by omega)]
  | cons f fs ih =>
    intro fuel rest mh acc hwf hf hmh hcap hcr hlen hne hbad
    cases fuel with
    | zero => simp at hf
    | succ fuel =>
      have hfw := hwf f (by simp)
      have hs : bytesI (renderFields (f :: fs) ++ bad ++ [13, 10]) ++ rest
          = bytesI (f.line ++ [13, 10]) ++ (bytesI (renderFields fs ++ bad ++ [13, 10]) ++ rest) := by
        simp [renderFields]
      have hrl := readLineStrict_line f.line Consts.maxLineLen
        (bytesI (renderFields fs ++ bad ++ [13, 10]) ++ rest) (f.line_no_cr hfw) hfw.2.2.2.2.2.2.2
      simp only [List.length_cons] at hf hmh hcap
      unfold parseHeadersLoop
      rw [hs, hrl]
      simp only [f.line_ne_nil, if_false, parseFieldLine_wf f hfw]
      rw [if_neg (by omega), full_of_lt acc _ (by omega)]
      simp only [Bool.false_eq_true, if_false, Headers.append]
      have hl : acc.length + 1 = (acc ++ [(lowerBytes f.name, f.value.map lfToSp)]).length := by simp
      rw [hl]
      exact ih fuel rest mh (acc ++ [(lowerBytes f.name, f.value.map lfToSp)])
        (fun g hg => hwf g (by simp [hg])) (by omega) (by simp; omega) (by simp; omega) hcr hlen hne hbad

/-- the bytes of a head cut off after a (refused) field line: no blank line is needed -/
def HeadS.renderThen (h : HeadS) (bad : Bytes) : Bytes :=
  h.statusLine ++ [13, 10] ++ renderFields h.fields ++ bad ++ [13, 10]

/-- Flat stream: the head parser stops with the error of the refused line, right after that line. -/
theorem head_fields_then_bad (h : HeadS) (hwf : h.WF Consts.maxLineLen) (bad : Bytes) (e : E)
    (rest : List Item) (mh : Nat)
    (hmh : h.fields.length < mh) (hcap : h.fields.length ≤ Headers.maxSize)
    (hcr : ¬ [13, 10] <:+: bad ++ [13]) (hlen : bad.length + 2 ≤ Consts.maxLineLen) (hne : bad ≠ [])
    (hbad : parseFieldLine bad = .bad e) :
    parseResponseHead flatSrc (bytesI (h.renderThen bad) ++ rest) mh = (.err e, rest) := by
  have hs : bytesI (h.renderThen bad) ++ rest = bytesI (h.statusLine ++ [13, 10]) ++
      (bytesI (renderFields h.fields ++ bad ++ [13, 10]) ++ rest) := by
    simp [HeadS.renderThen]
  unfold parseResponseHead
  rw [hs, readLine_crlf_line _ _ _ (h.statusLine_no_lf hwf) hwf.2.2.2.2.2.2.2.2.1]
  simp only [parseStatusLine_wf h hwf]
  rw [show (0 : Nat) = ([] : Headers).length from rfl,
    parseHeadersLoop_fields_then_bad h.fields bad e _ rest mh [] hwf.2.2.2.2.2.2.2.2.2
    (by have := renderFields_length h.fields; simp [headFuel]; omega) (by simpa using hmh)
    (by simpa using hcap) hcr hlen hne hbad]

/-- The same through the BufReader model, for every segmentation and capacity. -/
theorem head_fields_then_bad_buf (h : HeadS) (hwf : h.WF Consts.maxLineLen) (bad : Bytes) (e : E)
    (rest : List Item) (t : Transport) (cap mh : Nat) (hw : wfT t) (hc : 0 < cap)
    (hmh : h.fields.length < mh) (hcap : h.fields.length ≤ Headers.maxSize)
    (hcr : ¬ [13, 10] <:+: bad ++ [13]) (hlen : bad.length + 2 ≤ Consts.maxLineLen) (hne : bad ≠ [])
    (hbad : parseFieldLine bad = .bad e)
    (hflat : flatT t = bytesI (h.renderThen bad) ++ rest) :
    ∃ r', parseResponseHead bufSrc { buf := [], cap := cap, inner := t } mh = (.err e, r') ∧
      r'.flat = rest ∧ r'.Ok := by
  exact head_buf_flat_eq (BufR.fresh cap t) mh (BufR.fresh_ok cap t hw hc) (.err e) rest
    (by rw [BufR.fresh_flat, hflat]
        exact head_fields_then_bad h hwf bad e rest mh hmh hcap hcr hlen hne hbad)

end Atto
