/- Atto/Driver/SendOp.lean — op `send`: a whole exchange (prepare, redirect loop, tunnel). -/
import Atto.Driver.Codec
import Atto.Model.Send
import Atto.Model.SendT
import Atto.Model.SendW
namespace Atto.Driver
open Atto

def optBytes (s : String) : Option (Option Bytes) :=
  if s == "~" then some none else (bytesOfHex s).map some

def optNat (s : String) : Option (Option Nat) :=
  if s == "~" then some none else s.toNat?.map some

/-- `scheme/user/pass|~/host/kind/port|~/effport/path/query|~/frag|~` (hex fields, `-` = empty) -/
def urlOfString (s : String) : Option Url :=
  match s.splitOn "/" with
  | [sc, us, pw, ho, kind, po, ep, pa, qu, fr] =>
    match bytesOfHex sc, bytesOfHex us, optBytes pw, bytesOfHex ho, kind.toNat?, optNat po, ep.toNat?,
          bytesOfHex pa, optBytes qu, optBytes fr with
    | some sc, some us, some pw, some ho, some kind, some po, some ep, some pa, some qu, some fr =>
      some { scheme := sc, user := us, pass := pw, host := ho, hostKind := kind, port := po, effPort := ep,
             path := pa, query := qu, fragment := fr }
    | _, _, _, _, _, _, _, _, _, _ => none
  | _ => none

def optUrl (s : String) : Option (Option Url) :=
  if s == "~" then some none else (urlOfString s).map some

def hopOfString (s : String) : Option Hop :=
  match s.splitOn "@" with
  | [segs, res] =>
    match segsOfString segs, optUrl res with
    | some t, some r => some { script := t, resolved := r }
    | _, _ => none
  | _ => none

def hopOp (s : String) : Option HOp :=
  match s.splitOn ":" with
  | ["basic", u, p] =>
    match bytesOfHex u, optBytes p with
    | some u, some p => some (.basic u p)
    | _, _ => none
  | ["bearer", t] => (bytesOfHex t).map HOp.bearer
  | [k, n, v] =>
    match bytesOfHex n, bytesOfHex v with
    | some n, some v =>
      if k == "s" then some (.set n v) else if k == "a" then some (.append n v)
      else if k == "d" then some (.default n v) else none
    | _, _ => none
  | _ => none

def bodyOfString (s : String) : Option (BodyM × Bool) :=
  match s.splitOn ";" with
  | [kind, ct, rw, ws] =>
    let k : Option BodyKind :=
      match kind.toList with
      | ['E'] => some .empty
      | ['C'] => some .chunked
      | 'K' :: rest => (String.ofList rest).toNat?.map BodyKind.known
      | _ => none
    match k, optBytes ct, (splitComma ws).mapM bytesOfHex with
    | some k, some ct, some ws => some ({ kind := k, contentType := ct, writes := ws }, rw == "1")
    | _, _, _ => none
  | _ => none

structure SendCfg where
  s : SendSettings
  compress : Bool
  ua : Bytes

/-- `follow;maxredir;maxheaders;compress;uahex;disabled;httpproxy|~;httpsproxy|~;noproxy(hex,hex|-)` -/
def cfgOfString (st : String) : Option SendCfg :=
  match st.splitOn ";" with
  | [fo, mr, mh, co, ua, di, hp, hsp, np] =>
    match mr.toNat?, mh.toNat?, bytesOfHex ua, optUrl hp, optUrl hsp, (splitComma np).mapM bytesOfHex with
    | some mr, some mh, some ua, some hp, some hsp, some np =>
      some { s := { followRedirects := fo == "1", maxRedirections := mr, maxHeaders := mh,
                    proxy := { httpProxy := hp, httpsProxy := hsp, disabled := di == "1", noProxy := np } },
             compress := co == "1", ua := ua }
    | _, _, _, _, _, _ => none
  | _ => none

/-- request line, header lines sorted by name (stable), blank line, body — what both sides compare -/
def canonRequest (bs : Bytes) : String := hexOrDash bs

def sortHeaders (hs : Headers) : Headers := hs.foldl (fun acc p => insertSorted p acc) []

/-- the whole URL as the `url` crate serialises it (`Url::as_str`): userinfo and fragment included -/
def urlShow (u : Url) : String :=
  let userinfo : Bytes :=
    match u.user, u.pass with
    | [], none => []
    | us, none => us ++ [64]
    | us, some pw => us ++ [58] ++ pw ++ [64]
  let frag : Bytes := match u.fragment with | some f => [35] ++ f | none => []
  hexOfBytes (u.scheme ++ str "://" ++ userinfo ++ u.authority ++ u.originForm ++ frag)

def finalToString : Final → String
  | .ok st u => s!"ok:{st}:{urlShow u}"
  | .err e => "e:" ++ errName e
  | .tooManyRedirections => "e:tooManyRedirections"
  | .locationHeader => "e:locationHeader"
  | .redirectionUrl => "e:redirectionUrl"
  | .connectError st body => s!"connectError:{st}:{hexOrDash body}"
  | .tlsStarted => "tls"
  | .blocked => "b"
  | .panic => "P"
  | .outOfHops => "out-of-hops"

def hopOutToString (h : HopOut) : String :=
  let tls := match h.tlsName with
    | some n => if h.tlsNameIsDomain then hexOrDash n else "no-sni"
    | none => "~"
  s!"{hexOfBytes h.dialScheme}:{hexOfBytes h.dialHost}:{h.dialPort}:{hexOrDash h.wrote}:{tls}"

/-- `send <METHOD> <cfg> <ops|-> <body> <url> <hops>`; hops separated by `|`.
    The model writes header lines in sorted order (HeaderMap iteration order is canonicalised).
    `pt = true` (op `sendpt`): CONNECT tunnels without their TLS layer (`Model/SendT.lean`); every hop
    then prints a sixth field, the request written inside the tunnel (`~` when there is none), and the
    TLS name is printed as handed to the handshaker. -/
def opSendGen (pt : Bool) (args : List String) (fault : Option WriteFault := none) : String :=
  match args with
  | [m, cfg, ops, body, url, hops] =>
    match cfgOfString cfg, (splitComma ops).mapM hopOp, bodyOfString body, urlOfString url,
          (hops.splitOn "|").mapM hopOfString with
    | some cfg, some ops, some (b, rw), some u, some hs =>
      let h0 := applyOps [] ops
      let prepared := tryPrepare { allowCompression := cfg.compress, userAgent := cfg.ua } h0 b
      let req : Req := { method := m.toUTF8.toList, methodM := methodOfString m, headers := prepared,
                         body := b, bodyRewindable := rw }
      -- canonical header order: sort once more at every hop (setHost appends)
      if pt then
        let (outs, fin) := sendT cfg.s req 8192 u hs
        let show1 (o : HopOutT) : String :=
          let h := o.out
          let tls := match h.tlsName with | some n => hexOrDash n | none => "~"
          let inner := match o.inner with | some w => hexOrDash (canonWire w) | none => "~"
          s!"{hexOfBytes h.dialScheme}:{hexOfBytes h.dialHost}:{h.dialPort}:{hexOrDash (canonWire h.wrote)}:{tls}:{inner}"
        s!"hops={"|".intercalate (outs.map show1)} final={finalToString fin}"
      else
        match fault with
        | none =>
          let (outs, fin) := send cfg.s req 8192 u hs
          let outs := outs.map (fun o => { o with wrote := canonWire o.wrote })
          s!"hops={"|".intercalate (outs.map hopOutToString)} final={finalToString fin}"
        | some f =>
          -- op `sendf`: the connection that broke shows how many bytes it took (`cut<k>`), not which: the order
          -- of the header lines on the wire is not part of the model
          let free := send cfg.s req 8192 u hs
          let shown := match free.1[f.hop]? with | some o => decide (f.takes < o.wrote.length) | none => false
          let (outs, fin) := sendW cfg.s req 8192 u hs f
          let strs := outs.mapIdx (fun i o =>
            if shown && i == f.hop then
              let tls := match o.tlsName with | some n => if o.tlsNameIsDomain then hexOrDash n else "no-sni" | none => "~"
              s!"{hexOfBytes o.dialScheme}:{hexOfBytes o.dialHost}:{o.dialPort}:cut{o.wrote.length}:{tls}"
            else hopOutToString { o with wrote := canonWire o.wrote })
          s!"hops={"|".intercalate strs} final={finalToString fin}"
    | _, _, _, _, _ => "bad-op"
  | _ => "bad-op"
where
  /-- sort the header lines of a serialized head (first line kept, up to the first blank line) -/
  canonWire (w : Bytes) : Bytes :=
    let (head, body) := splitHead w []
    match splitLines head with
    | [] => w
    | first :: lines =>
      let sorted := lines.foldl (fun acc l => insLine l acc) []
      first ++ [13, 10] ++ (sorted.map (· ++ [13, 10])).flatten ++ [13, 10] ++ body
  splitHead : Bytes → Bytes → Bytes × Bytes
    | 13 :: 10 :: 13 :: 10 :: rest, acc => (acc.reverse, rest)
    | b :: rest, acc => splitHead rest (b :: acc)
    | [], acc => (acc.reverse, [])
  splitLines (bs : Bytes) : List Bytes :=
    let rec go : Bytes → Bytes → List Bytes
      | 13 :: 10 :: rest, cur => cur.reverse :: go rest []
      | b :: rest, cur => go rest (b :: cur)
      | [], cur => [cur.reverse]
    go bs []
  lineName (l : Bytes) : Bytes := l.takeWhile (· != 58)
  insLine (l : Bytes) : List Bytes → List Bytes
    | [] => [l]
    | q :: qs => if hexOfBytes (lineName q) ≤ hexOfBytes (lineName l) then q :: insLine l qs else l :: q :: qs

def opSend (args : List String) : String := opSendGen false args
def opSendPt (args : List String) : String := opSendGen true args

/-- `sendf <hop> <takes> <kind> <the arguments of send>`: the connection `hop` breaks for writing after
    `takes` bytes with the I/O error kind `kind` (Model/SendW.lean) -/
def opSendF (args : List String) : String :=
  match args with
  | i :: k :: kind :: rest =>
    match i.toNat?, k.toNat?, kind.toNat? with
    | some i, some k, some kind => opSendGen false rest (some { hop := i, takes := k, err := .io kind })
    | _, _, _ => "bad-op"
  | _ => "bad-op"

end Atto.Driver
