/-
  Atto/Props/C13h.lean — property C13, the TLS handshake as a phase (fix F20): a peer that stays
  silent inside the handshake for the read timeout ends the call with an error, after ONE read
  timeout — whatever the TLS library reports otherwise.  Model: Atto/Model/Handshake.lean; the shape
  of the code (loop or not) is regenerated from /repo/src/tls/*.rs on every run.
-/
import Atto.Model.Handshake
namespace Atto
open Handshake

/-- the code does not keep driving the handshake in a loop (regenerated constant) -/
theorem C13_handshake_no_retry : Consts.tlsHandshakeRetries = false := by decide

/-- For every behaviour of the TLS library and of the peer, the handshake call is over after its first
    attempt: it never spins, and it waits for at most one read timeout. -/
theorem C13_handshake_ends (lib : Nat → Step) (fuel : Nat) (hf : 0 < fuel) :
    (handshake lib fuel).1 ≠ .spinning ∧ (handshake lib fuel).2 ≤ 1 := by
  unfold handshake
  rw [C13_handshake_no_retry]
  cases fuel with
  | zero => omega
  | succ n =>
    unfold run
    cases lib 0 <;> simp

/-- a silence of one read timeout is reported as an error (a timeout), not waited out -/
theorem C13_handshake_silence_is_error (lib : Nat → Step) (fuel : Nat) (hf : 0 < fuel)
    (h : lib 0 = .silent) : handshake lib fuel = (.timedOut, 1) := by
  unfold handshake
  rw [C13_handshake_no_retry]
  cases fuel with
  | zero => omega
  | succ n => unfold run; rw [h]; simp

/-- and nothing else is turned into a timeout: a handshake the library completes or fails at once is
    reported as such, with no waiting -/
theorem C13_handshake_only_silence_times_out (lib : Nat → Step) (fuel : Nat) :
    (handshake lib fuel).1 = .timedOut → lib 0 = .silent := by
  unfold handshake
  rw [C13_handshake_no_retry]
  cases fuel with
  | zero => intro h; simp [run] at h
  | succ n =>
    unfold run
    cases h0 : lib 0 <;> simp

/-- What F20 repaired, on the model: the retrying shape (both back ends before the fix) waits one read
    timeout after the other against a peer that stays silent, for as long as it is given. -/
theorem C13_handshake_retry_unbounded (n k : Nat) :
    run true (fun _ => .silent) n k = (.spinning, k + n) := by
  induction n generalizing k with
  | zero => simp [run]
  | succ n ih => unfold run; simp [ih]; omega

/-- non-vacuity: a silent peer, a peer that completes, a peer that fails -/
example : handshake (fun _ => .silent) 5 = (.timedOut, 1) ∧ handshake (fun _ => .done) 5 = (.ok, 0) ∧
    handshake (fun k => if k = 0 then .failure else .silent) 5 = (.err, 0) := by decide

end Atto
