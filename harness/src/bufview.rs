//! The `BufRead` view of the body reader (`fill_buf` / `consume`, mixed with `read`): generator of call
//! sequences and the translation of what such a consumer saw into the event form the oracles of C01 / C02 /
//! C19 judge (a `read` hands out bytes, an empty `fill_buf` slice is an end-of-body signal, `consume(k)`
//! takes the first k bytes of the slice last shown).
use crate::resp::{BOp, Ev};
use crate::rng::Rng;

/// A call sequence that ends by draining: `tail` rounds of `fill_buf` + `consume(everything shown)`.
pub fn gen_ops(rng: &mut Rng, payload: usize, tail: usize) -> (Vec<BOp>, &'static str) {
    let mut ops = vec![];
    let mode = rng.below(4);
    let name = match mode {
        0 => "bufview-drain",
        1 => {
            // what a decoder does: look, take part of it, look again
            let k = if payload <= 600 { payload + 2 } else { rng.range(3, 40) as usize };
            for _ in 0..k {
                ops.push(BOp::Fill);
                if rng.chance(1, 6) {
                    ops.push(BOp::Fill); // looking twice shows the same slice
                }
                ops.push(BOp::ConsumeUpTo(*rng.pick(&[0usize, 1, 1, 2, 3, 7, 100, 1000])));
            }
            "bufview-partial"
        }
        2 => {
            // both interfaces in turn
            for _ in 0..rng.range(3, 30) {
                match rng.below(5) {
                    0 => ops.push(BOp::Read(*rng.pick(&[0usize, 1, 2, 7, 100, 4096, 8192, 65536]))),
                    1 => {
                        ops.push(BOp::Fill);
                        ops.push(BOp::Read(*rng.pick(&[1usize, 3, 100, 9000])));
                    }
                    2 => {
                        ops.push(BOp::Fill);
                        ops.push(BOp::ConsumeUpTo(*rng.pick(&[0usize, 1, 5, 4096, 1 << 20])));
                    }
                    3 => {
                        ops.push(BOp::Fill);
                        ops.push(BOp::ConsumeUpTo(rng.range(0, 300) as usize));
                        ops.push(BOp::ConsumeUpTo(rng.range(0, 300) as usize));
                    }
                    _ => ops.push(BOp::Fill),
                }
            }
            "bufview-mixed"
        }
        _ => {
            // consume more than was shown / without looking first: outside the BufRead contract (for a
            // Content-Length body std's Take charges the whole amount against the announced length), so the
            // stream is not judged from there on; it must still never panic, and the model must agree
            for _ in 0..rng.range(2, 12) {
                match rng.below(3) {
                    0 => ops.push(BOp::Consume(*rng.pick(&[0usize, 1, 9, 70000, usize::MAX / 2]))),
                    1 => {
                        ops.push(BOp::Fill);
                        ops.push(BOp::Consume(1 << 30));
                    }
                    _ => ops.push(BOp::Read(*rng.pick(&[1usize, 64, 8192]))),
                }
            }
            "bufview-overconsume"
        }
    };
    for _ in 0..tail {
        ops.push(BOp::Fill);
        ops.push(BOp::ConsumeUpTo(1 << 20));
    }
    // the end is reported again and again
    ops.push(BOp::Fill);
    ops.push(BOp::Read(16));
    (ops, name)
}

/// Translate the consumer's observations into `(sizes, events)` as if every step had been a `read`:
/// * `read(n)` -> as it is;
/// * `fill_buf` -> a non-empty slice takes nothing (size 0, `Ok([])`), an EMPTY slice is an end-of-body signal
///   (size 1, `Ok([])`), an error is an error;
/// * `consume(k)` -> takes the first k bytes of what the last `fill_buf` showed and has not been taken since.
/// View-specific rules are judged here: a slice shown twice without anything taken in between is the same
/// slice; a `read` issued while a shown slice is outstanding returns the first bytes of that slice.
/// `consume` without a known slice (none shown since the last `read` ran it out) takes an unknown amount: the
/// translation stops there (third component `false`: only the calls before it are judged; the model
/// comparison still covers the whole case).
pub fn convert(ops: &[BOp], events: &[Ev]) -> Result<(Vec<usize>, Vec<Ev>, bool), (String, String)> {
    let mut sizes = vec![];
    let mut evs = vec![];
    let mut known: Option<Vec<u8>> = None; // the part of the last shown slice not taken yet
    for (i, (op, ev)) in ops.iter().zip(events.iter()).enumerate() {
        match (op, ev) {
            (_, Ev::Panic) => {
                sizes.push(1);
                evs.push(Ev::Panic);
            }
            (BOp::Read(n), Ev::Ok(bs)) => {
                if let Some(w) = &known {
                    if !w.is_empty() {
                        let want = &w[..(*n).min(w.len())];
                        if bs != want {
                            return Err(("bufview-read-not-window".into(), format!("call #{}: read({}) returned {} bytes that are not the first bytes of the slice fill_buf had shown ({} outstanding)", i, n, bs.len(), w.len())));
                        }
                        known = Some(w[bs.len()..].to_vec());
                    } else {
                        known = None;
                    }
                }
                sizes.push(*n);
                evs.push(Ev::Ok(bs.clone()));
            }
            (BOp::Read(n), e) => {
                sizes.push(*n);
                evs.push(e.clone());
            }
            (BOp::Fill, Ev::Peek(bs)) => {
                if let Some(w) = &known {
                    if !w.is_empty() && w != bs {
                        return Err(("bufview-fill-changed".into(), format!("call #{}: fill_buf showed {} bytes, but {} bytes of the slice shown before were still outstanding and are not what it shows now", i, bs.len(), w.len())));
                    }
                }
                known = Some(bs.clone());
                if bs.is_empty() {
                    sizes.push(1);
                } else {
                    sizes.push(0);
                }
                evs.push(Ev::Ok(vec![]));
            }
            (BOp::Fill, e) => {
                known = None;
                sizes.push(1);
                evs.push(e.clone());
            }
            (BOp::ConsumeUpTo(k), Ev::Consumed) => {
                // resolved by the executor against what was outstanding: takes min(k, outstanding)
                let w = known.clone().unwrap_or_default();
                let t = w[..(*k).min(w.len())].to_vec();
                known = Some(w[t.len()..].to_vec());
                sizes.push(t.len());
                evs.push(Ev::Ok(t));
            }
            (BOp::Consume(k), Ev::Consumed) => match &known {
                Some(w) if *k > w.len() => return Ok((sizes, evs, false)),
                Some(w) => {
                    let t = w[..(*k).min(w.len())].to_vec();
                    known = Some(w[t.len()..].to_vec());
                    sizes.push(t.len());
                    evs.push(Ev::Ok(t));
                }
                None if *k == 0 => {
                    sizes.push(0);
                    evs.push(Ev::Ok(vec![]));
                }
                None => return Ok((sizes, evs, false)),
            },
            (BOp::Consume(_), e) | (BOp::ConsumeUpTo(_), e) => {
                sizes.push(1);
                evs.push(e.clone());
            }
        }
    }
    Ok((sizes, evs, true))
}
