/-
  Atto/Lemmas/ProxyLemmas.lean — helper lemmas for property C11 (proxy choice):
  `endsWith`, `noProxyMatch`, `ProxySettings.forUrl`, `getEnv`, `getEnvUrl`, `fromEnv`.
-/
import Atto.Model.Proxy
namespace Atto
namespace Px

/-! ### byte-string constants -/

theorem px_str_http : str "http" = [104, 116, 116, 112] := by decide +kernel
theorem px_str_https : str "https" = [104, 116, 116, 112, 115] := by decide +kernel
theorem px_http_ne_https : str "http" ≠ str "https" := by decide +kernel

/-! ### `endsWith` -/

theorem px_endsWith_iff (s suf : Bytes) : endsWith s suf = true ↔ ∃ pre, s = pre ++ suf := by
  unfold endsWith
  simp only [Bool.and_eq_true, decide_eq_true_eq, beq_iff_eq]
  constructor
  · rintro ⟨_, hd⟩
    refine ⟨s.take (s.length - suf.length), ?_⟩
    conv => lhs; rw [← List.take_append_drop (s.length - suf.length) s]
    rw [hd]
  · rintro ⟨pre, rfl⟩
    simp

/-! ### `noProxyMatch` -/

theorem px_match_iff (h e : Bytes) :
    noProxyMatch h e = true ↔ e ≠ [] ∧ (h = e ∨ ∃ pre, h = pre ++ [46] ++ e) := by
  unfold noProxyMatch
  simp only [Bool.and_eq_true, Bool.or_eq_true, decide_eq_true_eq, beq_iff_eq, px_endsWith_iff,
    List.append_assoc]

theorem px_match_false_iff (h e : Bytes) :
    noProxyMatch h e = false ↔ (e = [] ∨ (h ≠ e ∧ ∀ pre, h ≠ pre ++ [46] ++ e)) := by
  rw [← Bool.not_eq_true, px_match_iff]
  constructor
  · intro hn
    by_cases he : e = []
    · exact Or.inl he
    · refine Or.inr ⟨fun hh => hn ⟨he, Or.inl hh⟩, fun pre hp => hn ⟨he, Or.inr ⟨pre, hp⟩⟩⟩
  · rintro (he | ⟨h1, h2⟩) ⟨hne, hm⟩
    · exact hne he
    · rcases hm with hm | ⟨pre, hp⟩
      · exact h1 hm
      · exact h2 pre hp

theorem px_match_empty (h : Bytes) : noProxyMatch h [] = false := by
  simp [noProxyMatch]

/-- Host `x ++ e` against entry `e`: matched exactly when `x` is empty or ends with a dot. -/
theorem px_match_append_iff (x e : Bytes) :
    noProxyMatch (x ++ e) e = true ↔ e ≠ [] ∧ (x = [] ∨ x.getLast? = some 46) := by
  rw [px_match_iff]
  constructor
  · rintro ⟨he, hm⟩
    refine ⟨he, ?_⟩
    rcases hm with hm | ⟨pre, hp⟩
    · left
      have : (x ++ e).length = e.length := by rw [hm]
      simp at this
      exact this
    · right
      have : x = pre ++ [46] := by
        rw [List.append_assoc] at hp
        rw [← List.append_assoc] at hp
        exact List.append_cancel_right hp
      rw [this]; simp
  · rintro ⟨he, hx⟩
    refine ⟨he, ?_⟩
    rcases hx with rfl | hx
    · left; simp
    · right
      refine ⟨x.dropLast, ?_⟩
      have hne : x ≠ [] := by intro h0; rw [h0] at hx; simp at hx
      have hl : x.getLast hne = 46 := by
        have := List.getLast?_eq_some_getLast hne
        rw [this] at hx; exact Option.some.inj hx
      rw [← hl, List.dropLast_concat_getLast hne]

/-! ### `forUrl` -/

theorem px_any_false_iff (l : List Bytes) (h : Bytes) :
    l.any (fun e => noProxyMatch h (lowerBytes e)) = false ↔
      ∀ e ∈ l, noProxyMatch h (lowerBytes e) = false := by
  simp [List.any_eq_false]

theorem px_forUrl_iff (s : ProxySettings) (u p : Url) :
    s.forUrl u = some p ↔
      (s.disabled = false ∧ (∀ e ∈ s.noProxy, noProxyMatch u.host (lowerBytes e) = false) ∧
        ((u.scheme = str "http" ∧ s.httpProxy = some p) ∨
         (u.scheme = str "https" ∧ s.httpsProxy = some p))) := by
  unfold ProxySettings.forUrl
  cases hd : s.disabled with
  | true => simp
  | false =>
    cases ha : s.noProxy.any (fun e => noProxyMatch u.host (lowerBytes e)) with
    | true =>
      have : ¬ ∀ e ∈ s.noProxy, noProxyMatch u.host (lowerBytes e) = false := by
        intro hall; rw [← px_any_false_iff] at hall; rw [ha] at hall; cases hall
      simp [this]
    | false =>
      have hall := (px_any_false_iff _ _).mp ha
      by_cases h1 : u.scheme = str "http"
      · have h2 : u.scheme ≠ str "https" := by rw [h1]; exact px_http_ne_https
        simp [h1, px_http_ne_https]; exact fun _ => hall
      · by_cases h2 : u.scheme = str "https"
        · have : str "https" ≠ str "http" := fun h => px_http_ne_https h.symm
          simp [h2, this]; exact fun _ => hall
        · simp [h1, h2]

theorem px_forUrl_disabled (s : ProxySettings) (u : Url) : s.disabled = true → s.forUrl u = none := by
  intro h; simp [ProxySettings.forUrl, h]

/-- Entries whose lower-cased form is empty have no influence on the decision. -/
theorem px_lower_eq_nil (e : Bytes) : lowerBytes e = [] ↔ e = [] := by
  simp [lowerBytes]

theorem px_any_filter (l : List Bytes) (h : Bytes) :
    (l.filter (fun e => e != [])).any (fun e => noProxyMatch h (lowerBytes e)) =
      l.any (fun e => noProxyMatch h (lowerBytes e)) := by
  induction l with
  | nil => rfl
  | cons a l ih =>
    by_cases ha : a = []
    · subst ha
      have h0 : (([] : Bytes) != []) = false := by decide
      have h1 : noProxyMatch h (lowerBytes []) = false := px_match_empty h
      rw [List.filter_cons]
      simp only [h0, Bool.false_eq_true, if_false]
      rw [List.any_cons, ih, h1, Bool.false_or]
    · have h0 : (a != []) = true := by simpa using ha
      rw [List.filter_cons]
      simp only [h0, if_true]
      rw [List.any_cons, List.any_cons, ih]

theorem px_forUrl_filter (s : ProxySettings) (u : Url) :
    ({ s with noProxy := s.noProxy.filter (fun e => e != []) } : ProxySettings).forUrl u = s.forUrl u := by
  simp only [ProxySettings.forUrl, px_any_filter]

/-! ### environment -/

theorem px_getEnv_lower (v : Bytes) (up : Option Bytes) : getEnv (some v) up = some v := rfl
theorem px_getEnv_upper (up : Option Bytes) : getEnv none up = up := rfl

theorem px_getEnvUrl_iff (parse : Bytes → Option Url) (v : Option Bytes) (u : Url) :
    getEnvUrl parse v = some u ↔
      ∃ val, v = some val ∧ getEnvUrl.strTrim val ≠ [] ∧ parse val = some u ∧
        (u.scheme = str "http" ∨ u.scheme = str "https") := by
  cases v with
  | none => simp [getEnvUrl]
  | some val =>
    simp only [getEnvUrl]
    by_cases ht : getEnvUrl.strTrim val = []
    · simp [ht]
    · cases hp : parse val with
      | none => simp [ht, hp]
      | some w =>
        by_cases hs : (w.scheme == str "http" || w.scheme == str "https") = true
        · simp only [ht, if_false, hs, if_true]
          constructor
          · intro h; cases h
            refine ⟨val, rfl, ht, hp, ?_⟩
            simpa using hs
          · rintro ⟨val', hv, _, hw, _⟩
            cases hv; rw [hp] at hw; exact hw
        · simp only [ht, if_false, hs]
          constructor
          · intro h; cases h
          · rintro ⟨val', hv, _, hw, hsch⟩
            cases hv; rw [hp] at hw; cases hw
            exact absurd (by simpa using hsch) hs

end Px
end Atto

namespace Atto
namespace Px

/-- Example data: a URL record with default port. -/
def px_url (scheme host : String) (effPort : Nat) : Url :=
  { scheme := str scheme, user := [], pass := none, host := str host, hostKind := 0, port := none,
    effPort := effPort, path := str "/", query := none, fragment := none }

/-- Example `Url::parse` stand-in: recognises three fixed values. -/
def px_parse (v : Bytes) : Option Url :=
  if v = str "http://p1:3128" then some { px_url "http" "p1" 3128 with port := some 3128 }
  else if v = str "http://p2:3128" then some { px_url "http" "p2" 3128 with port := some 3128 }
  else if v = str "socks5://p3" then some (px_url "socks5" "p3" 1080)
  else none

def px_env0 : Env :=
  { all_proxy := none, ALL_PROXY := none, http_proxy := none, HTTP_PROXY := none,
    https_proxy := none, HTTPS_PROXY := none, no_proxy := none, NO_PROXY := none }

theorem px_fromEnv_congr (parse : Bytes → Option Url) (e e' : Env)
    (g1 : getEnv e.all_proxy e.ALL_PROXY = getEnv e'.all_proxy e'.ALL_PROXY)
    (g2 : getEnv e.http_proxy e.HTTP_PROXY = getEnv e'.http_proxy e'.HTTP_PROXY)
    (g3 : getEnv e.https_proxy e.HTTPS_PROXY = getEnv e'.https_proxy e'.HTTPS_PROXY)
    (g4 : getEnv e.no_proxy e.NO_PROXY = getEnv e'.no_proxy e'.NO_PROXY) :
    fromEnv parse e = fromEnv parse e' := by
  simp only [fromEnv, g1, g2, g3, g4]

theorem px_getEnv_congr {lo up lo' up' : Option Bytes} (h1 : lo = lo') (h2 : lo = none → up = up') :
    getEnv lo up = getEnv lo' up' := by
  subst h1
  cases lo with
  | none => simp [getEnv, h2 rfl]
  | some v => rfl

end Px
end Atto
