/-
  Atto/Model/Body.lean — src/parsing/body_reader.rs, src/parsing/chunked_reader.rs and the
  framing decision in src/parsing/response.rs `parse_response`.
-/
import Atto.Model.Head
import Atto.Std.Utf8
namespace Atto

def nameTE : Bytes := str "transfer-encoding"
def nameCL : Bytes := str "content-length"

def eqIgnoreAsciiCase (a b : Bytes) : Bool := lowerBytes a == lowerBytes b

/-- `val.split(',').map(|s| s.trim()).any(|s| s.eq_ignore_ascii_case(tok))` on a `to_str`-able value. -/
def listHasToken (val tok : Bytes) : Bool :=
  (splitOnByte 44 val).any (fun s => eqIgnoreAsciiCase (strTrim s) tok)

/-- src/parsing/body_reader.rs:49-60 `is_chunked` -/
def isChunked (hs : Headers) : Bool :=
  ((hs.getAll nameTE).filterMap valueToStr).any (fun v => listHasToken v (str "chunked"))

/-- src/parsing/body_reader.rs:62-66 `parse_content_length` (1*DIGIT, fits u64). -/
def parseContentLength (v : Bytes) : Option Nat :=
  match valueToStr v with
  | none => none
  | some s =>
    if s = [] ∨ ¬ s.all isDigit then none
    else parseUnsigned decVal? 10 s

/-- src/parsing/body_reader.rs:68-82 `is_content_length` -/
def isContentLengthLoop : List Bytes → Option Nat → Except E (Option Nat)
  | [], last => .ok last
  | v :: vs, last =>
    match parseContentLength v with
    | none => .error .contentLength
    | some n =>
      match last with
      | none => isContentLengthLoop vs (some n)
      | some l => if l = n then isContentLengthLoop vs (some n) else .error .contentLength

def isContentLength (hs : Headers) : Except E (Option Nat) :=
  isContentLengthLoop (hs.getAll nameCL) none

inductive Framing where
  | chunked
  | length (n : Nat)
  | close
  deriving Repr, DecidableEq

inductive Method where
  | get | head | post | put | delete | options | patch | trace | other
  deriving Repr, DecidableEq

/-- HEAD request, or 1xx / 204 / 304 status: no body whatever the headers say. -/
def bodyless (m : Method) (status : Nat) : Bool :=
  m == .head || (100 ≤ status && status < 200) || status == 204 || status == 304

/-- `parse_response` framing decision + `BodyReader::new`. -/
def chooseFraming (m : Method) (status : Nat) (hs : Headers) : Except E Framing :=
  if bodyless m status then .ok (.length 0)
  else if isChunked hs then .ok .chunked
  else match isContentLength hs with
    | .error e => .error e
    | .ok (some n) => .ok (.length n)
    | .ok none => .ok .close

/-- src/parsing/chunked_reader.rs:8-15 `parse_chunk_size` -/
def parseChunkSize (line : Bytes) : Except E Nat :=
  let field := match line.idxOf? 59 with
    | some i => line.take i
    | none => line
  if ¬ validUtf8 field then .error .chunkSize
  else match parseUnsigned hexVal? 16 (strTrim field) with
    | some n => .ok n
    | none => .error .chunkSize

/-- `ChunkedReader<R>` state. -/
structure Chunked (σ : Type) where
  inner : σ
  buffer : Bytes := []
  consumed : Nat := 0
  remaining : Nat := 0
  reachedEof : Bool := false
  failed : Bool := false

/-- src/parsing/chunked_reader.rs `read_chunk_size` -/
def Chunked.readChunkSize (S : Src σ) (c : Chunked σ) : RR Nat × Chunked σ :=
  match readLine S c.inner Consts.chunkSizeLineLimit with
  | (.ok line, r') =>
    let c' := { c with inner := r', buffer := line }
    if line = [] then (.err .eof, c')
    else (match parseChunkSize line with
          | .ok n => (.ok n, c')
          | .error e => (.err e, c'))
  | (.err e, r') => (.err e, { c with inner := r' })
  | (.blocked, r') => (.blocked, { c with inner := r' })
  | (.panic, r') => (.panic, { c with inner := r' })

/-- src/parsing/chunked_reader.rs `skip_trailers`: `for _ in 0..=MAX_TRAILER_LINES { read_line(..)?;
    if line.is_empty() { return Ok(true) } } Ok(false)`; `k` = iterations left. -/
def skipTrailersLoop (S : Src σ) : Nat → σ → RR Bool × σ
  | 0, r => (.ok false, r)
  | k+1, r =>
    match readLine S r Consts.trailerLineLimit with
    | (.ok line, r') => if line = [] then (.ok true, r') else skipTrailersLoop S k r'
    | (.err e, r') => (.err e, r')
    | (.blocked, r') => (.blocked, r')
    | (.panic, r') => (.panic, r')

def skipTrailers (S : Src σ) (r : σ) : RR Bool × σ :=
  skipTrailersLoop S (Consts.maxTrailerLines + 1) r

/-- What ends a chunk once its data is complete: the trailer section and the empty line after the
    last chunk (`reached_eof`), a line ending after any other chunk. -/
def chunkEnd (S : Src σ) (last : Bool) (r : σ) : RR Bool × σ :=
  if last then skipTrailers S r else readLineEnding S r

/-- Second half of the refill: `buffer.resize(min(remaining, MAX_BUFFER_LEN))`, `read_exact`,
    `remaining -= buffer.len()`, and the line ending (after the last chunk: the trailer section and
    the empty line) once the chunk is complete. -/
def Chunked.refillData (S : Src σ) (c1 : Chunked σ) (maxBuf : Nat) : RR Unit × Chunked σ :=
  match S.readExact c1.inner (min c1.remaining maxBuf) with
  | (.ok bs, r') =>
    -- `self.remaining -= self.buffer.len()` : usize subtraction
    if c1.remaining < bs.length then (.panic, { c1 with inner := r' }) else
    if c1.remaining - bs.length = 0 then
      (match chunkEnd S c1.reachedEof r' with
       | (.ok true, r'') =>
         (.ok (), { c1 with inner := r'', buffer := bs, consumed := 0, remaining := 0 })
       | (.ok false, r'') =>
         (.err .chunk, { c1 with inner := r'', buffer := [], consumed := 0, remaining := 0, reachedEof := true })
       | (.err e, r'') => (.err e, { c1 with inner := r'', buffer := bs, consumed := 0, remaining := 0 })
       | (.blocked, r'') => (.blocked, { c1 with inner := r'', buffer := bs, consumed := 0, remaining := 0 })
       | (.panic, r'') => (.panic, { c1 with inner := r'', buffer := bs, consumed := 0, remaining := 0 }))
    else (.ok (), { c1 with inner := r', buffer := bs, consumed := 0, remaining := c1.remaining - bs.length })
  | (.err e, r') => (.err e, { c1 with inner := r' })
  | (.blocked, r') => (.blocked, { c1 with inner := r' })
  | (.panic, r') => (.panic, { c1 with inner := r' })

/-- The refill part of `fill_buf` (entered when `buffer.len() == consumed` and not at the end):
    a chunk-size line first if the previous chunk is complete. -/
def Chunked.refill (S : Src σ) (c : Chunked σ) (maxBuf : Nat) : RR Unit × Chunked σ :=
  if c.remaining = 0 then
    match c.readChunkSize S with
    | (.ok n, c') =>
      Chunked.refillData S { c' with remaining := n, reachedEof := c'.reachedEof || n == 0 } maxBuf
    | (.err e, c') => (.err e, c')
    | (.blocked, c') => (.blocked, c')
    | (.panic, c') => (.panic, c')
  else Chunked.refillData S c maxBuf

/-- `BufRead::fill_buf` for `ChunkedReader`; a failed refill is latched. Returns the readable slice. -/
def Chunked.fillBuf (S : Src σ) (c : Chunked σ) (maxBuf : Nat) : RR Bytes × Chunked σ :=
  if c.failed then (.err .chunk, c) else
  let res : RR Unit × Chunked σ :=
    if c.buffer.length = c.consumed ∧ ¬ (c.remaining = 0 ∧ c.reachedEof) then
      match c.refill S maxBuf with
      | (.ok (), c') => (.ok (), c')
      | (.err e, c') => (.err e, { c' with failed := true, buffer := [], consumed := 0 })
      | (.blocked, c') => (.blocked, { c' with failed := true, buffer := [], consumed := 0 })
      | (.panic, c') => (.panic, c')
    else (.ok (), c)
  match res with
  | (.ok (), c') =>
    -- `&self.buffer[self.consumed..]` : slice index
    if c'.buffer.length < c'.consumed then (.panic, c') else (.ok (c'.buffer.drop c'.consumed), c')
  | (.err e, c') => (.err e, c')
  | (.blocked, c') => (.blocked, c')
  | (.panic, c') => (.panic, c')

def Chunked.consume (c : Chunked σ) (amt : Nat) : Chunked σ :=
  { c with consumed := min (c.consumed + amt) c.buffer.length }

/-- `Read::read` for `ChunkedReader` with a caller buffer of `n` bytes. -/
def Chunked.read (S : Src σ) (c : Chunked σ) (maxBuf n : Nat) : RR Bytes × Chunked σ :=
  match c.fillBuf S maxBuf with
  | (.ok avail, c') => let out := avail.take n; (.ok out, c'.consume out.length)
  | (.err e, c') => (.err e, c')
  | (.blocked, c') => (.blocked, c')
  | (.panic, c') => (.panic, c')

/-- `BodyReader` -/
inductive Body where
  | chunked (c : Chunked BufR)
  | length (r : BufR) (limit : Nat)
  | close (r : BufR)

def Body.new (f : Framing) (r : BufR) : Body :=
  match f with
  | .chunked => .chunked { inner := r }
  | .length n => .length r n
  | .close => .close r

/-- `Read::read` for `BodyReader` (caller buffer of `n` bytes). `Length` = `Take<BufReader>` plus the
    early-EOF check. -/
def Body.read (b : Body) (maxBuf n : Nat) : RR Bytes × Body :=
  match b with
  | .chunked c => match c.read bufSrc maxBuf n with | (res, c') => (res, .chunked c')
  | .close r => match r.read n with | (res, r') => (res, .close r')
  | .length r limit =>
    if limit = 0 then (.ok [], b) else
    match r.read (min n limit) with
    | (.ok bs, r') =>
      if limit < bs.length then (.panic, .length r' limit)        -- Take's assert!(n <= limit)
      else if bs = [] ∧ n ≠ 0 then (.err .eof, .length r' limit)
      else (.ok bs, .length r' (limit - bs.length))
    | (.err e, r') => (.err e, .length r' limit)
    | (.blocked, r') => (.blocked, .length r' limit)
    | (.panic, r') => (.panic, .length r' limit)

end Atto
