/-
  Atto/Std/Utf8.lean — `str::from_utf8` validity, `str::trim` (Unicode White_Space) on UTF-8 bytes,
  `u64::from_str` / `usize::from_str_radix(_, 16)` on 64-bit targets. Modelled, not verified.
-/
import Atto.Std.Io
namespace Atto

def isCont (b : UInt8) : Bool := 0x80 ≤ b && b ≤ 0xBF

/-- `core::str::from_utf8(bs).is_ok()` -/
def validUtf8 : Bytes → Bool
  | [] => true
  | b :: rest =>
    if b < 0x80 then validUtf8 rest
    else if 0xC2 ≤ b && b ≤ 0xDF then
      match rest with
      | c1 :: r => isCont c1 && validUtf8 r
      | _ => false
    else if 0xE0 ≤ b && b ≤ 0xEF then
      match rest with
      | c1 :: c2 :: r =>
        (if b == 0xE0 then 0xA0 ≤ c1 && c1 ≤ 0xBF
         else if b == 0xED then 0x80 ≤ c1 && c1 ≤ 0x9F
         else isCont c1) && isCont c2 && validUtf8 r
      | _ => false
    else if 0xF0 ≤ b && b ≤ 0xF4 then
      match rest with
      | c1 :: c2 :: c3 :: r =>
        (if b == 0xF0 then 0x90 ≤ c1 && c1 ≤ 0xBF
         else if b == 0xF4 then 0x80 ≤ c1 && c1 ≤ 0x8F
         else isCont c1) && isCont c2 && isCont c3 && validUtf8 r
      | _ => false
    else false

/-- If `bs` starts with the UTF-8 encoding of a White_Space code point, its byte length. -/
def wsPrefixLen : Bytes → Nat
  | b :: rest =>
    if (9 ≤ b && b ≤ 13) || b == 32 then 1
    else match b, rest with
      | 0xC2, c :: _ => if c == 0x85 || c == 0xA0 then 2 else 0
      | 0xE1, 0x9A :: 0x80 :: _ => 3
      | 0xE2, 0x80 :: c :: _ => if (0x80 ≤ c && c ≤ 0x8A) || c == 0xA8 || c == 0xA9 || c == 0xAF then 3 else 0
      | 0xE2, 0x81 :: 0x9F :: _ => 3
      | 0xE3, 0x80 :: 0x80 :: _ => 3
      | _, _ => 0
  | [] => 0

def trimWsStart : Nat → Bytes → Bytes
  | 0, bs => bs
  | f+1, bs => let k := wsPrefixLen bs; if k = 0 then bs else trimWsStart f (bs.drop k)

/-- Length of a White_Space code point that `rev` (the reversed byte string) starts with. -/
def wsSuffixLen (rev : Bytes) : Nat :=
  match rev with
  | b :: rest =>
    if (9 ≤ b && b ≤ 13) || b == 32 then 1
    else match rest with
      | 0xC2 :: _ => if b == 0x85 || b == 0xA0 then 2 else 0
      | c2 :: c1 :: _ =>
        if wsPrefixLen [c1, c2, b] == 3 then 3 else 0
      | _ => 0
  | [] => 0

def trimWsEndRev : Nat → Bytes → Bytes
  | 0, rev => rev
  | f+1, rev => let k := wsSuffixLen rev; if k = 0 then rev else trimWsEndRev f (rev.drop k)

/-- `str::trim` on valid UTF-8. -/
def strTrim (bs : Bytes) : Bytes :=
  let a := trimWsStart bs.length bs
  (trimWsEndRev a.length a.reverse).reverse

def hexVal? (b : UInt8) : Option Nat :=
  if 48 ≤ b && b ≤ 57 then some (b.toNat - 48)
  else if 97 ≤ b && b ≤ 102 then some (b.toNat - 87)
  else if 65 ≤ b && b ≤ 70 then some (b.toNat - 55)
  else none

def decVal? (b : UInt8) : Option Nat :=
  if 48 ≤ b && b ≤ 57 then some (b.toNat - 48) else none

/-- Accumulate digits in `radix`; `none` on a non-digit. -/
def digitsVal (digit? : UInt8 → Option Nat) (radix : Nat) : Bytes → Nat → Option Nat
  | [], acc => some acc
  | b :: bs, acc => match digit? b with
    | some d => digitsVal digit? radix bs (acc * radix + d)
    | none => none

def u64Bound : Nat := 18446744073709551616

/-- `u64::from_str_radix(s, radix)`: optional leading `+`, at least one digit, overflow → error. -/
def parseUnsigned (digit? : UInt8 → Option Nat) (radix : Nat) (s : Bytes) : Option Nat :=
  let ds := match s with
    | 43 :: rest => rest
    | _ => s
  if ds = [] then none else
  match digitsVal digit? radix ds 0 with
  | some v => if v < u64Bound then some v else none
  | none => none

end Atto
