//! C05 — hostile peers cannot crash, hang or balloon the client.
use crate::case::{Case, Sink};
use crate::resp::{run_resp, Ev, HeadOut, Reads, RespCase, RespOut};
use crate::respgen::*;
use crate::rng::Rng;
use crate::script::Seg;

const ALPHABET: [u8; 8] = [b'1', b'a', b';', b':', b' ', b'\r', b'\n', b'x'];
const CHUNKED_HEAD: &[u8] = b"HTTP/1.1 200 OK\r\nTransfer-Encoding: chunked\r\n\r\n";

/// Allocation allowed for a call that pulled `pulled` bytes: fixed buffers (BufReader 8 KiB, line
/// buffer up to 2 x 16 KiB, chunk buffer 64 KiB, decoder state) + a small multiple of the input
/// actually received.  No term depends on a size merely declared on the wire.
pub fn alloc_bound(pulled: usize, lines: usize) -> usize {
    // + per-entry bookkeeping of the header map (one entry per received header line at most)
    320 * 1024 + 4 * pulled + 160 * lines
}

pub fn base_oracle(case: &RespCase, out: &RespOut, what: &str) -> Result<(), (String, String)> {
    if matches!(out.head, HeadOut::Panic) {
        return Err((format!("panic-send-{}", what), "send() panicked".into()));
    }
    if out.events.iter().any(|e| matches!(e, Ev::Panic)) {
        return Err((format!("panic-read-{}", what), "a body read panicked".into()));
    }
    let lines: usize = case.segs.iter().map(|s| if let Seg::Data(d) = s { d.iter().filter(|&&b| b == b'\n').count() } else { 0 }).sum();
    // (the BufRead-view cases keep a copy of every slice fill_buf showed, the same slice many times over:
    // that is the harness' memory, not the library's)
    if !matches!(case.reads, Reads::BufOps(_)) && out.peak_alloc > alloc_bound(out.pulled, lines) {
        return Err((format!("alloc-{}", what), format!("peak live allocation {} B after pulling only {} B ({} lines) from the peer (bound {})", out.peak_alloc, out.pulled, lines, alloc_bound(out.pulled, lines))));
    }
    Ok(())
}

fn emit(sink: &mut Sink, tags: Vec<String>, case: &RespCase, out: &RespOut, o: Result<(), (String, String)>) {
    sink.push(Case { tags, op: case.op_line(), impl_line: out.line(), oracle: o });
}

fn one_byte_segs(w: &[u8]) -> Vec<Seg> {
    w.iter().map(|&b| Seg::Data(vec![b])).collect()
}

fn exhaustive(len: usize, sink: &mut Sink) {
    let total = 8usize.pow(len as u32);
    for idx in 0..total {
        let mut s = Vec::with_capacity(len);
        let mut k = idx;
        for _ in 0..len {
            s.push(ALPHABET[k % 8]);
            k /= 8;
        }
        for as_body in [false, true] {
            let mut wire = if as_body { CHUNKED_HEAD.to_vec() } else { vec![] };
            wire.extend_from_slice(&s);
            for one in [true, false] {
                if !one && len > 5 && idx % 4 != 0 {
                    continue; // 1-byte segmentation on a quarter of the longest strings
                }
                let segs = if one { vec![Seg::Data(wire.clone())] } else { one_byte_segs(&wire) };
                let segs = if wire.is_empty() { vec![] } else { segs };
                let case = RespCase { method: "GET".into(), max_headers: 2, segs, reads: Reads::Sizes(vec![16, 16, 0, 16]) };
                let out = run_resp(&case);
                let o = base_oracle(&case, &out, if as_body { "chunked-body" } else { "head" });
                emit(
                    sink,
                    vec![
                        format!("kind=exhaustive-{}", if as_body { "chunked-body" } else { "head" }),
                        format!("len={}", len),
                        format!("seg={}", if one { "one" } else { "1-byte" }),
                        format!("outcome={}", match (&out.head, out.events.first()) {
                            (HeadOut::Ok(_), Some(Ev::Ok(_))) => "ok",
                            (HeadOut::Ok(_), _) => "body-err",
                            _ => "head-err",
                        }),
                    ],
                    &case,
                    &out,
                    o,
                );
            }
        }
    }
}

fn mutate(rng: &mut Rng, wire: &[u8]) -> (Vec<u8>, &'static str) {
    let mut w = wire.to_vec();
    if w.is_empty() {
        return (w, "none");
    }
    match rng.below(7) {
        0 => {
            let p = rng.below(w.len() as u64) as usize;
            w[p] ^= 1 << rng.below(8);
            (w, "bitflip")
        }
        1 => {
            let p = rng.below(w.len() as u64) as usize;
            let q = rng.range(p as u64, w.len() as u64) as usize;
            w.drain(p..q.min(p + 40));
            (w, "delete")
        }
        2 => {
            let p = rng.below(w.len() as u64) as usize;
            let q = (p + rng.range(1, 60) as usize).min(w.len());
            let piece = w[p..q].to_vec();
            let at = rng.below(w.len() as u64) as usize;
            let mut v = w[..at].to_vec();
            v.extend(piece);
            v.extend_from_slice(&w[at..]);
            (v, "duplicate")
        }
        3 => {
            let p = rng.below(w.len() as u64) as usize;
            let other: &[u8] = *rng.pick(&[&b"\r\n"[..], b"\n", b"\r", b":", b";", b"0\r\n\r\n", b"\r\n\r\n", b"ffffffffffffffff\r\n", b" ", b"\0"]);
            let mut v = w[..p].to_vec();
            v.extend_from_slice(other);
            v.extend_from_slice(&w[p..]);
            (v, "splice")
        }
        4 => {
            // numeric blow-up: replace a run of digits/hex digits by a huge number
            let big: &[u8] = *rng.pick(&[&b"2147483648"[..], b"9223372036854775808", b"18446744073709551615", b"18446744073709551616", b"80000000", b"7fffffffffffffff", b"ffffffffffffffff", b"10000000000000000", b"fffffffffffffffffffffffff"]);
            let starts: Vec<usize> = (0..w.len()).filter(|&i| w[i].is_ascii_hexdigit() && (i == 0 || !w[i - 1].is_ascii_hexdigit())).collect();
            if starts.is_empty() {
                return (w, "none");
            }
            let s = *rng.pick(&starts);
            let mut e = s;
            while e < w.len() && w[e].is_ascii_hexdigit() {
                e += 1;
            }
            let mut v = w[..s].to_vec();
            v.extend_from_slice(big);
            v.extend_from_slice(&w[e..]);
            (v, "blowup")
        }
        5 => {
            let p = rng.below(w.len() as u64) as usize;
            w.truncate(p);
            (w, "truncate")
        }
        _ => {
            let p = rng.below(w.len() as u64) as usize;
            w[p] = rng.next() as u8;
            (w, "randbyte")
        }
    }
}

pub fn generate(seed: u64, tier: &str, sink: &mut Sink) {
    let mut rng = Rng::new(seed ^ 0xC05);
    let thorough = tier == "thorough";
    let consts = crate::consts();
    // (1) exhaustive small alphabet
    let maxlen = if thorough { 6 } else { 4 };
    for len in 0..=maxlen {
        exhaustive(len, sink);
    }
    // (1b) Content-Type values around the edges of the charset parameter syntax (the charset is looked up while the
    // head is parsed, i.e. inside send(), also on redirect hops)
    for (v, _) in crate::p_c18::CONTENT_TYPE_EDGES.iter() {
        for (status, extra) in [(200u16, ""), (302, "Location: /next\r\n")] {
            let w = format!("HTTP/1.1 {} X\r\nContent-Type: {}\r\n{}Content-Length: 2\r\n\r\nok", status, v, extra).into_bytes();
            for reads in [Reads::Text(8192), Reads::Sizes(vec![1, 1 << 16])] {
                let case = RespCase { method: "GET".into(), max_headers: 100, segs: vec![Seg::Data(w.clone())], reads };
                let out = run_resp(&case);
                let o = base_oracle(&case, &out, "content-type-syntax");
                emit(sink, vec!["kind=content-type-syntax".into()], &case, &out, o);
            }
        }
    }
    // (2) mutation stream over valid responses
    let n = if thorough { 60_000 } else { 4000 };
    for i in 0..n {
        let big = rng.below(30) == 0;
        let spec_ = gen_valid(&mut rng, (i % 3) as u64, big);
        let wire0 = spec_.wire();
        let (mut wire, mut mname) = mutate(&mut rng, &wire0);
        if rng.chance(1, 4) {
            let (w2, m2) = mutate(&mut rng, &wire);
            wire = w2;
            if mname == "none" {
                mname = m2;
            }
        }
        let head_len = spec_.head_bytes().len().min(wire.len());
        let (mut segs, segname) = segment(&mut rng, &wire, &interesting_offsets(&wire, head_len));
        // a hostile or flaky transport: transient and hard I/O errors (and a silence) between or inside
        // the segments, after which the script goes on — the caller keeps reading after every error
        if rng.chance(1, 3) && !wire.is_empty() {
            for _ in 0..rng.range(1, 4) {
                let p = rng.below(wire.len() as u64) as usize;
                let k = *rng.pick(&[0u8, 1, 2, 2, 3, 5]);
                segs = crate::p_c02::splice(&segs, p, Some(Seg::Err(k)), false);
            }
            if mname == "none" {
                mname = "ioerrs";
            }
        }
        let reads = if rng.chance(1, 6) {
            Reads::Drain(8192)
        } else if rng.chance(1, 6) {
            // the BufRead view (fill_buf / consume with any amounts) on hostile input: never a panic
            Reads::BufOps(crate::bufview::gen_ops(&mut rng, 300, 6).0)
        } else {
            let mut ns: Vec<usize> = vec![];
            let k = rng.range(1, 8);
            for _ in 0..k {
                ns.push(*rng.pick(&[0usize, 1, 7, 100, 8192, 65536, 1 << 20]));
            }
            for _ in 0..6 {
                ns.push(1 << 20);
            }
            Reads::Sizes(ns)
        };
        let case = RespCase { method: (*rng.pick(&["GET", "GET", "HEAD", "POST"])).into(), max_headers: *rng.pick(&[100usize, 100, 3, 0]), segs, reads };
        let out = run_resp(&case);
        let o = base_oracle(&case, &out, "mutated");
        emit(sink, vec!["kind=mutation".into(), format!("mut={}", mname), format!("seg={}", segname), format!("framing={}", spec_.framing_name())], &case, &out, o);
    }
    // (3) endless constructs: 1 MiB prefixes standing for an infinite stream
    let endless_len = 1 << 20;
    let cap = crate::resp::bufreader_cap();
    let filler: Vec<u8> = vec![b'a'; endless_len];
    let mut run_endless = |name: &str, wire: Vec<u8>, max_headers: usize, pulled_bound: usize, sink: &mut Sink, must_fail_head: bool| {
        for seg_mode in 0..3 {
            let segs: Vec<Seg> = match seg_mode {
                0 => vec![Seg::Data(wire.clone())],
                1 => wire.chunks(1460).map(|c| Seg::Data(c.to_vec())).collect(),
                _ => wire.chunks(7).take(40_000).map(|c| Seg::Data(c.to_vec())).collect(),
            };
            let case = RespCase { method: "GET".into(), max_headers, segs, reads: Reads::Sizes(vec![1 << 16, 1 << 16, 1 << 16, 1 << 16]) };
            let out = run_resp(&case);
            let mut o = base_oracle(&case, &out, name);
            if o.is_ok() {
                let failed = if must_fail_head { !matches!(out.head, HeadOut::Ok(_)) } else { out.events.iter().any(|e| matches!(e, Ev::Err(_))) };
                if !failed {
                    o = Err((format!("not-rejected-{}", name), "the unbounded construct was accepted".into()));
                } else if out.pulled > pulled_bound {
                    o = Err((format!("unbounded-input-{}", name), format!("{} bytes were pulled from the peer before the limit fired (bound {})", out.pulled, pulled_bound)));
                }
            }
            emit(sink, vec![format!("kind=endless-{}", name), format!("seg={}", ["one", "mss", "7-byte"][seg_mode])], &case, &out, o);
        }
    };
    // a status line without end
    run_endless("status-line", filler.clone(), 100, consts.max_line_len + cap, sink, true);
    // a header line without end
    let mut w = b"HTTP/1.1 200 OK\r\nX-A: ".to_vec();
    w.extend_from_slice(&filler);
    run_endless("header-line", w.clone(), 100, 17 + consts.max_line_len + cap, sink, true);
    // header line with endless bare-LF continuations
    let mut w = b"HTTP/1.1 200 OK\r\nX-A: ".to_vec();
    for _ in 0..(endless_len / 4) {
        w.extend_from_slice(b"abc\n");
    }
    run_endless("header-continuations", w, 100, 17 + consts.max_line_len + cap, sink, true);
    // more header fields than max_headers, without end
    for mh in [0usize, 1, 10, 100] {
        let mut w = b"HTTP/1.1 200 OK\r\n".to_vec();
        let mut i = 0;
        while w.len() < endless_len {
            w.extend_from_slice(format!("X-{}: v\r\n", i).as_bytes());
            i += 1;
        }
        // every accepted field is at least 8 bytes; (mh+1) lines of at most 16 bytes here
        run_endless("too-many-headers", w, mh, 17 + (mh + 2) * 16 + cap, sink, true);
    }
    // the same with one legal name repeated (`Set-Cookie: v` for ever) and with a few names in rotation: every
    // field line counts, whether or not its name was seen before
    for mh in [0usize, 1, 10, 100] {
        for distinct in [1usize, 3] {
            let mut w = b"HTTP/1.1 200 OK\r\n".to_vec();
            let mut i = 0;
            while w.len() < endless_len {
                w.extend_from_slice(format!("Set-Cookie{}: v{}\r\n", i % distinct, i % 7).as_bytes());
                i += 1;
            }
            run_endless(if distinct == 1 { "too-many-headers-one-name" } else { "too-many-headers-few-names" }, w, mh, 17 + (mh + 2) * 18 + cap, sink, true);
        }
    }
    // the same with field names the client cannot represent (`x y3: v` — dropped, not stored):
    // they are header fields of the peer all the same and must run into max_headers
    for mh in [0usize, 1, 8, 100] {
        for mixed in [false, true] {
            let mut w = b"HTTP/1.1 200 OK\r\n".to_vec();
            let mut i = 0;
            while w.len() < endless_len {
                if mixed && i % 3 == 0 {
                    w.extend_from_slice(format!("X-{}: v\r\n", i).as_bytes());
                } else {
                    w.extend_from_slice(format!("x y{}: v\r\n", i).as_bytes());
                }
                i += 1;
            }
            run_endless(if mixed { "too-many-headers-some-invalid-names" } else { "too-many-headers-invalid-names" }, w, mh, 17 + (mh + 2) * 16 + cap, sink, true);
        }
    }
    // caller raised max_headers beyond what the header map can hold: still no panic
    {
        let mut w = b"HTTP/1.1 200 OK\r\n".to_vec();
        for i in 0..40_000 {
            w.extend_from_slice(format!("X-{}: v\r\n", i).as_bytes());
        }
        w.extend_from_slice(b"\r\nbody");
        let case = RespCase { method: "GET".into(), max_headers: 100_000, segs: vec![Seg::Data(w)], reads: Reads::Sizes(vec![16, 16]) };
        let out = run_resp(&case);
        let o = base_oracle(&case, &out, "header-map-capacity");
        emit(sink, vec!["kind=header-map-capacity".into()], &case, &out, o);
    }
    // interim responses without end: a peer that answers a request that carried content with `100 Continue` heads
    // for ever (each a complete head, so no line or header limit is ever reached) — the client hands the first
    // one to the caller, it does not read on (seed C05-seed9). POST + one segment = the request carries content.
    {
        let mut w = vec![];
        while w.len() < endless_len {
            w.extend_from_slice(b"HTTP/1.1 100 Continue\r\n\r\n");
        }
        for method in ["POST", "PUT", "GET"] {
            let case = RespCase { method: method.into(), max_headers: 100, segs: vec![Seg::Data(w.clone())], reads: Reads::Sizes(vec![16, 16]) };
            let out = run_resp(&case);
            let mut o = base_oracle(&case, &out, "interim-responses");
            if o.is_ok() && out.pulled > 2 * cap {
                o = Err(("unbounded-input-interim-responses".to_string(), format!("{} bytes were pulled from a peer that sends interim responses for ever (bound {})", out.pulled, 2 * cap)));
            }
            emit(sink, vec!["kind=endless".into(), "construct=interim-responses".into()], &case, &out, o);
        }
    }
    // an endless chunk-size line
    let mut w = CHUNKED_HEAD.to_vec();
    w.extend(std::iter::repeat(b'1').take(endless_len));
    run_endless("chunk-size-line", w, 100, CHUNKED_HEAD.len() + consts.chunk_size_line_limit + cap, sink, false);
    // an endless chunk extension
    let mut w = CHUNKED_HEAD.to_vec();
    w.extend_from_slice(b"5;");
    w.extend(std::iter::repeat(b'x').take(endless_len));
    run_endless("chunk-ext", w, 100, CHUNKED_HEAD.len() + consts.chunk_size_line_limit + cap, sink, false);
    // an endless trailer line behind the last chunk, and trailer lines without end
    let mut w = CHUNKED_HEAD.to_vec();
    w.extend_from_slice(b"3\r\nabc\r\n0\r\nX-T: ");
    w.extend(std::iter::repeat(b'y').take(endless_len));
    run_endless("trailer-line", w, 100, CHUNKED_HEAD.len() + 20 + consts.trailer_line_limit + cap, sink, false);
    let mut w = CHUNKED_HEAD.to_vec();
    w.extend_from_slice(b"3\r\nabc\r\n0\r\n");
    let mut i = 0;
    while w.len() < endless_len {
        w.extend_from_slice(format!("X-T{}: v\r\n", i).as_bytes());
        i += 1;
    }
    run_endless("trailer-lines", w, 100, CHUNKED_HEAD.len() + 20 + (consts.max_trailer_lines + 2) * 16 + cap, sink, false);
    // a CONNECT refusal body beyond the cap is cut, never buffered whole
    crate::p_c12::generate_sel(seed, tier, sink, true);
    // declared sizes far beyond what is sent
    for decl in ["7fffffff", "80000000", "7fffffffffffffff", "ffffffffffffffff", "10000000000000000"] {
        let mut w = CHUNKED_HEAD.to_vec();
        w.extend_from_slice(decl.as_bytes());
        w.extend_from_slice(b"\r\nabc");
        let case = RespCase { method: "GET".into(), max_headers: 100, segs: vec![Seg::Data(w)], reads: Reads::Sizes(vec![1 << 16, 1 << 16, 1 << 16]) };
        let out = run_resp(&case);
        let o = base_oracle(&case, &out, "declared-chunk-size");
        emit(sink, vec!["kind=declared-size".into(), "framing=chunked".into()], &case, &out, o);
    }
    // Content-Length values around every width a hostile peer can pick: 2^31, 2^63, 2^64 - 1 (the largest value
    // that fits), 2^64 and other 20-digit values that do not, 21 digits and more (seed C05-seed8: a value of
    // exactly 20 digits above u64::MAX), 2^128, a thousand digits
    let thousand = "9".repeat(1000);
    for decl in [
        "2147483648",
        "9223372036854775807",
        "9223372036854775808",
        "18446744073709551615",
        "18446744073709551616",
        "18446744073709551617",
        "20000000000000000000",
        "99999999999999999999",
        "100000000000000000000",
        "000000000000000000003",
        "340282366920938463463374607431768211456",
        thousand.as_str(),
    ] {
        let w = format!("HTTP/1.1 200 OK\r\nContent-Length: {}\r\n\r\nabc", decl).into_bytes();
        for reads in [Reads::Drain(8192), Reads::Sizes(vec![1 << 16, 1 << 16, 1 << 16])] {
            let case = RespCase { method: "GET".into(), max_headers: 100, segs: vec![Seg::Data(w.clone())], reads };
            let out = run_resp(&case);
            let o = base_oracle(&case, &out, "declared-content-length");
            emit(sink, vec!["kind=declared-size".into(), "framing=length".into()], &case, &out, o);
        }
    }
    // a coded body whose FIRST byte is all that has arrived (or all there is): every value of that byte, under
    // every framing — whatever looks at the start of the stream to tell formats apart meets a one-byte buffer
    // (seed C05-seed12: `head[1]` behind a check of `head.first()`)
    for (ci, coding) in [&b"Content-Encoding: deflate\r\n"[..], b"Content-Encoding: gzip\r\n", b"Transfer-Encoding: deflate, chunked\r\n", b"Content-Encoding: x-gzip, deflate\r\n"].iter().enumerate() {
        for b in 0..=255u8 {
            for framing in 0..3 {
                if ci == 2 && framing != 1 {
                    continue;
                }
                let mut w = b"HTTP/1.1 200 OK\r\n".to_vec();
                w.extend_from_slice(coding);
                match framing {
                    0 => w.extend_from_slice(b"Content-Length: 1\r\n\r\n"),
                    1 => {
                        if ci != 2 {
                            w.extend_from_slice(b"Transfer-Encoding: chunked\r\n");
                        }
                        w.extend_from_slice(b"\r\n1\r\n");
                    }
                    _ => w.extend_from_slice(b"\r\n"),
                }
                let head = w.clone();
                let mut rest = vec![b];
                if framing == 1 {
                    rest.extend_from_slice(b"\r\n3\r\nabc\r\n0\r\n\r\n");
                }
                // the first byte in a segment of its own: alone in the buffer when the decoder is set up
                let segs = vec![Seg::Data(head), Seg::Data(rest[..1].to_vec()), Seg::Data(rest[1..].to_vec())].into_iter().filter(|s| !matches!(s, Seg::Data(d) if d.is_empty())).collect();
                let case = RespCase { method: "GET".into(), max_headers: 100, segs, reads: if b % 2 == 0 { Reads::Drain(8192) } else { Reads::Sizes(vec![1, 1 << 16, 1 << 16, 7]) } };
                let out = run_resp(&case);
                let o = base_oracle(&case, &out, "coded-first-byte");
                emit(sink, vec!["kind=coded-first-byte".into(), format!("coding={}", ci), format!("framing={}", framing)], &case, &out, o);
            }
        }
    }
    // calls of OTHER threads while a hostile peer holds one call (real sockets)
    crate::p_c05b::generate(sink);
}
