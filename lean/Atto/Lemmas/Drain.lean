/-
  Atto/Lemmas/Drain.lean — the convenience readers (`Response::bytes`, `write_to`, `text_utf8`):
  `drainLoop` is the fold `drEv` over the events of the constant read schedule
  `List.replicate fuel sz`; event-level run lemmas for complete bodies; and, for cut chunked
  bodies, a byte-counting measure on the flat decoder that bounds the number of successful reads
  by the number of items of the stream (so the fuel of `drain` is never exhausted).
-/
import Atto.Lemmas.BodyReads
import Atto.Lemmas.LengthClose
namespace Atto
namespace Dr

/-! ## `drainLoop` as a fold over the event list -/

/-- what `io::copy` / `read_to_end` make of a list of read results: stop at the first `Ok(0)`
    (success) or the first error other than Interrupted; an exhausted list is fuel exhaustion -/
def drEv : List Ev → Bytes → RR Bytes
  | [], _ => .panic
  | .ok bs :: es, acc => if bs = [] then .ok acc else drEv es (acc ++ bs)
  | .err e :: es, acc => if e = .io 0 then drEv es acc else .err e
  | .blocked :: _, _ => .blocked
  | .panic :: _, _ => .panic

theorem drainLoop_eq (maxBuf sz : Nat) : ∀ (fuel : Nat) (b : Body) (acc : Bytes),
    (drainLoop maxBuf sz fuel b acc).1 =
      drEv (reads maxBuf (List.replicate fuel sz) b).1 acc := by
  intro fuel
  induction fuel with
  | zero => intro b acc; simp [drainLoop, reads, drEv]
  | succ fuel ih =>
    intro b acc
    rw [List.replicate_succ, reads_cons]
    unfold drainLoop
    rcases h : b.read maxBuf sz with ⟨res, b'⟩
    cases res with
    | ok bs =>
      cases bs with
      | nil => simp [Ev.ofRR, drEv]
      | cons x xs => simp [Ev.ofRR, drEv, ih]
    | err e =>
      by_cases he : e = .io 0
      · subst he; simp [Ev.ofRR, drEv, ih]
      · cases e with
        | io k =>
          cases k with
          | zero => exact absurd rfl he
          | succ k => simp [Ev.ofRR, drEv]
        | _ => simp [Ev.ofRR, drEv]
    | blocked => simp [Ev.ofRR, drEv]
    | panic => simp [Ev.ofRR, drEv]

theorem drain_eq (maxBuf sz : Nat) (b : Body) :
    (drain maxBuf sz b).1 =
      drEv (reads maxBuf (List.replicate (2 * b.inner.flat.length + 4) sz) b).1 [] :=
  drainLoop_eq maxBuf sz _ b []

/-! ## Event-level run lemma: payload `P`, then the terminal event `x` -/

theorem deliveredEv_take_prefix (evs : List Ev) (i : Nat) :
    deliveredEv (evs.take i) <+: deliveredEv evs := by
  induction evs generalizing i with
  | nil => simp
  | cons e es ih =>
    cases i with
    | zero => simp
    | succ i =>
      rw [List.take_succ_cons, deliveredEv_cons, deliveredEv_cons]
      exact (List.prefix_append_right_inj _).2 (ih i)

/-- If, on an event list longer than `P`, every read issued before all of `P` was delivered returns
    a non-empty piece of `P`, and a read issued when all of `P` was delivered returns `x`, then the
    drain fold ends with whatever `x` makes it end with, having accumulated exactly `P`. -/
theorem drEv_run (x : Ev) (res : Bytes → RR Bytes)
    (hx : ∀ es acc, drEv (x :: es) acc = res acc) :
    ∀ (evs : List Ev) (P acc : Bytes),
      (∀ i, i < evs.length → deliveredEv (evs.take i) <+: P) →
      (∀ i, i < evs.length → (deliveredEv (evs.take i)).length < P.length →
          ∃ bs, evs[i]? = some (.ok bs) ∧ bs ≠ []) →
      (∀ i, i < evs.length → deliveredEv (evs.take i) = P → evs[i]? = some x) →
      P.length < evs.length → drEv evs acc = res (acc ++ P) := by
  intro evs
  induction evs with
  | nil => intro P acc _ _ _ hl; simp at hl
  | cons e es ih =>
    intro P acc h1 h2 h3 hl
    by_cases hP : P = []
    · subst hP
      have := h3 0 (by simp) (by simp)
      simp only [List.getElem?_cons_zero, Option.some.injEq] at this
      subst this
      simp [hx]
    · have hpos : 0 < P.length := List.length_pos_iff.mpr hP
      obtain ⟨bs, hb, hne⟩ := h2 0 (by simp) (by simpa using hpos)
      simp only [List.getElem?_cons_zero, Option.some.injEq] at hb
      subst hb
      simp only [List.length_cons] at hl
      have hpre := h1 1 (by simp; omega)
      simp only [List.take_succ_cons, List.take_zero, deliveredEv, List.append_nil] at hpre
      obtain ⟨P', rfl⟩ := hpre
      simp only [drEv, hne, if_false]
      rw [ih P' (acc ++ bs), List.append_assoc]
      · intro i hi
        have := h1 (i+1) (by simpa using hi)
        simpa [List.take_succ_cons, deliveredEv, List.prefix_append_right_inj] using this
      · intro i hi hlt
        have := h2 (i+1) (by simpa using hi)
          (by simp only [List.take_succ_cons, deliveredEv, List.length_append] at hlt ⊢; omega)
        simpa using this
      · intro i hi hd
        have := h3 (i+1) (by simpa using hi) (by simp [List.take_succ_cons, deliveredEv, hd])
        simpa using this
      · have := List.length_pos_iff.mpr hne
        simp only [List.length_append] at hl; omega

/-! ## A byte-counting measure on the flat chunked decoder

`mu c` = readable slice + items left in the stream.  Every successful `read` pays for the bytes it
hands out with items of the stream, on ANY stream. -/

theorem specExact_len (n : Nat) (is : List Item) :
    (specExact n is).2.length ≤ is.length ∧
    ∀ bs, (specExact n is).1 = .ok bs → bs.length + (specExact n is).2.length ≤ is.length := by
  fun_induction specExact n is with
  | case1 => simp
  | case2 => simp
  | case3 n b is p ih =>
    have ih1 : p.2.length ≤ is.length := ih.1
    refine ⟨by simp only [List.length_cons]; omega, ?_⟩
    intro bs h
    simp only at h
    cases hp : p.1 with
    | ok v =>
      rw [hp] at h; simp at h; subst h
      have ih2 : v.length + p.2.length ≤ is.length := ih.2 v hp
      simp only [List.length_cons]; omega
    | _ => rw [hp] at h; simp [RR.map] at h
  | case4 n is ih =>
    refine ⟨by simp only [List.length_cons]; omega, ?_⟩
    intro bs h
    have := ih.2 bs h
    simp only [List.length_cons]; omega
  | case5 => simp
  | case6 => simp

theorem specUntil_len (l : Nat) (is : List Item) (acc : Bytes) :
    (specUntil l is acc).2.length ≤ is.length := by
  fun_induction specUntil l is acc <;> simp_all <;> omega

theorem readLine_len (r : List Item) (l : Nat) : (readLine flatSrc r l).2.length ≤ r.length := by
  unfold readLine
  have := specUntil_len l r []
  simp only [flatSrc]
  rcases h : specUntil l r [] with ⟨res, r'⟩
  rw [h] at this
  cases res with
  | ok v => simp only; split <;> exact this
  | _ => exact this

theorem readLineEnding_len (r : List Item) :
    (readLineEnding flatSrc r).2.length ≤ r.length := by
  unfold readLineEnding
  simp only [flatSrc]
  have h1l := (specExact_len 1 r).1
  rcases h1 : specExact 1 r with ⟨res, r'⟩
  rw [h1] at h1l
  simp only at h1l
  cases res with
  | ok bs =>
    obtain ⟨b, rfl⟩ := specExact_one_ok (r := r) (by rw [h1])
    simp only
    split
    · have h2l := (specExact_len 1 r').1
      rcases h2 : specExact 1 r' with ⟨res2, r''⟩
      rw [h2] at h2l
      simp only at h2l
      cases res2 with
      | ok bs2 =>
        obtain ⟨b2, rfl⟩ := specExact_one_ok (r := r') (by rw [h2])
        simp only; omega
      | _ => simp only; omega
    · exact h1l
  | _ => exact h1l

theorem skipTrailersLoop_len (k : Nat) (r : List Item) :
    (skipTrailersLoop flatSrc k r).2.length ≤ r.length := by
  induction k generalizing r with
  | zero => simp [skipTrailersLoop]
  | succ k ih =>
    unfold skipTrailersLoop
    have hl := readLine_len r Consts.trailerLineLimit
    rcases h : readLine flatSrc r Consts.trailerLineLimit with ⟨res, r'⟩
    rw [h] at hl
    simp only at hl
    cases res with
    | ok line =>
      simp only
      split
      · exact hl
      · exact Nat.le_trans (ih r') hl
    | _ => exact hl

theorem chunkEnd_len (last : Bool) (r : List Item) :
    (chunkEnd flatSrc last r).2.length ≤ r.length := by
  unfold chunkEnd
  cases last
  · exact readLineEnding_len r
  · exact skipTrailersLoop_len _ r

theorem readChunkSize_len (c : Chunked (List Item)) :
    (c.readChunkSize flatSrc).2.inner.length ≤ c.inner.length := by
  unfold Chunked.readChunkSize
  have := readLine_len c.inner Consts.chunkSizeLineLimit
  rcases h : readLine flatSrc c.inner Consts.chunkSizeLineLimit with ⟨res, r'⟩
  rw [h] at this
  simp only at this
  cases res with
  | ok line =>
    simp only
    split
    · exact this
    · split <;> exact this
  | _ => exact this

theorem refillData_mu (c : Chunked (List Item)) (m : Nat)
    (h : (Chunked.refillData flatSrc c m).1 = .ok ()) :
    (Chunked.refillData flatSrc c m).2.consumed = 0 ∧
    (Chunked.refillData flatSrc c m).2.buffer.length +
      (Chunked.refillData flatSrc c m).2.inner.length ≤ c.inner.length := by
  refine ⟨(refillData_flat_ne_panic c m).2 h, ?_⟩
  revert h
  unfold Chunked.refillData
  have hx := (specExact_len (min c.remaining m) c.inner).2
  rcases hs : flatSrc.readExact c.inner (min c.remaining m) with ⟨res, r'⟩
  have hs' : specExact (min c.remaining m) c.inner = (res, r') := hs
  rw [hs'] at hx
  cases res with
  | ok bs =>
    have hb := hx bs rfl
    simp only at hb
    simp only
    split
    · simp
    · split
      · have hle := chunkEnd_len c.reachedEof r'
        rcases h2 : chunkEnd flatSrc c.reachedEof r' with ⟨res2, r''⟩
        rw [h2] at hle
        simp only at hle
        cases res2 with
        | ok b => cases b <;> simp <;> omega
        | _ => simp
      · intro _; simp only; omega
  | _ => simp

theorem refill_mu (c : Chunked (List Item)) (m : Nat)
    (h : (Chunked.refill flatSrc c m).1 = .ok ()) :
    (Chunked.refill flatSrc c m).2.consumed = 0 ∧
    (Chunked.refill flatSrc c m).2.buffer.length +
      (Chunked.refill flatSrc c m).2.inner.length ≤ c.inner.length := by
  revert h
  unfold Chunked.refill
  split
  · have hl := readChunkSize_len c
    rcases hr : c.readChunkSize flatSrc with ⟨res, c'⟩
    rw [hr] at hl
    simp only at hl
    cases res with
    | ok n =>
      intro h
      have := refillData_mu _ m h
      exact ⟨this.1, Nat.le_trans this.2 hl⟩
    | _ => simp
  · exact refillData_mu c m

/-- the measure: readable slice plus items left in the stream -/
def mu (c : Chunked (List Item)) : Nat := (avail c).length + c.inner.length

theorem fillBuf_mu (c c' : Chunked (List Item)) (m : Nat) (av : Bytes)
    (hc : c.consumed ≤ c.buffer.length) (h : c.fillBuf flatSrc m = (.ok av, c')) :
    av = avail c' ∧ mu c' ≤ mu c := by
  cases hf : c.failed with
  | true => rw [fillBuf_failed _ _ _ hf] at h; simp at h
  | false =>
    by_cases hcond : c.buffer.length = c.consumed ∧ ¬ (c.remaining = 0 ∧ c.reachedEof)
    · rw [fillBuf_refill _ _ _ hf hcond] at h
      have hm := refill_mu c m
      rcases hr : c.refill flatSrc m with ⟨res, c1⟩
      rw [hr] at h hm
      cases res with
      | ok u =>
        obtain ⟨h0, hle⟩ := hm rfl
        simp only at h0 hle
        simp only [h0, Nat.not_lt_zero, if_false, List.drop_zero, Prod.mk.injEq, RR.ok.injEq] at h
        obtain ⟨rfl, rfl⟩ := h
        refine ⟨by simp [avail, h0], ?_⟩
        simp only [mu, avail, h0, List.drop_zero]
        omega
      | _ => simp at h
    · rw [fillBuf_noRefill _ _ _ hf hcond hc] at h
      simp only [Prod.mk.injEq, RR.ok.injEq] at h
      obtain ⟨rfl, rfl⟩ := h
      exact ⟨rfl, Nat.le_refl _⟩

/-- a successful `read` pays for its output with items of the stream -/
theorem read_mu (c : Chunked (List Item)) (m n : Nat) (out : Bytes)
    (hc : c.consumed ≤ c.buffer.length) (h : (c.read flatSrc m n).1 = .ok out) :
    mu (c.read flatSrc m n).2 + out.length ≤ mu c := by
  rcases hfb : c.fillBuf flatSrc m with ⟨res, c'⟩
  cases res with
  | ok av =>
    obtain ⟨rfl, hle⟩ := fillBuf_mu c c' m av hc hfb
    rw [read_of_fillBuf _ _ _ _ n _ hfb] at h ⊢
    simp only [RR.ok.injEq] at h
    subst h
    have : mu (c'.consume ((avail c').take n).length) + ((avail c').take n).length ≤ mu c' := by
      have hi : ∀ k, (c'.consume k).inner = c'.inner := fun _ => rfl
      simp only [mu, avail_consume, hi, List.length_drop, List.length_take]
      omega
    simp only at this ⊢
    omega
  | err e => rw [read_of_fillBuf_err _ _ _ _ n _ hfb] at h; simp at h
  | blocked => rw [read_of_fillBuf_blocked _ _ _ _ n hfb] at h; simp at h
  | panic => exact absurd (by rw [hfb]) (fillBuf_flat_ne_panic c m hc).1

/-! ## Draining a cut chunked body (flat decoder) -/

/-- the events of the constant schedule `sz, sz, …` (`fuel` reads) on the flat decoder -/
def evsC (m sz fuel : Nat) (c : Chunked (List Item)) : List Ev :=
  (readsC flatSrc m (List.replicate fuel sz) c).1.map Ev.ofRR

theorem evsC_succ (m sz fuel : Nat) (c : Chunked (List Item)) :
    evsC m sz (fuel+1) c =
      Ev.ofRR (c.read flatSrc m sz).1 :: evsC m sz fuel (c.read flatSrc m sz).2 := by
  simp [evsC, List.replicate_succ, readsC_cons]

/-- a latched decoder: the drain stops with `InvalidData` at the next read -/
theorem drEv_failed (m sz fuel : Nat) (c : Chunked (List Item)) (hf : c.failed = true)
    (acc : Bytes) : drEv (evsC m sz (fuel+1) c) acc = .err .chunk := by
  have hrd : c.read flatSrc m sz = (.err .chunk, c) :=
    read_of_fillBuf_err _ _ _ _ _ _ (fillBuf_failed flatSrc c m hf)
  rw [evsC_succ, hrd]
  simp [Ev.ofRR, drEv]

theorem bad_step (m sz fuel : Nat) (c : Chunked (List Item)) (acc : Bytes)
    (hb : (c.read flatSrc m sz).1.Bad) (hfl : (c.read flatSrc m sz).2.failed = true)
    (hfuel : 1 ≤ fuel) : (drEv (evsC m sz (fuel+1) c) acc).Bad := by
  rw [evsC_succ]
  rcases hb with ⟨e, he⟩ | he
  · rw [he]
    by_cases h0 : e = .io 0
    · obtain ⟨f', rfl⟩ : ∃ f', fuel = f' + 1 := ⟨fuel - 1, by omega⟩
      simp only [Ev.ofRR, drEv, h0, if_true]
      rw [drEv_failed m sz f' _ hfl]
      exact .inl ⟨_, rfl⟩
    · simp only [Ev.ofRR, drEv, h0, if_false]
      exact .inl ⟨_, rfl⟩
  · rw [he]
    exact .inr rfl

/-- draining from a state inside the cut chunk: an error or a stall, never `Ok`, and the fuel
    `mu c + 2` suffices -/
theorem drEv_trunc (tail : List Item) (hd : Dead tail) (m : Nat) (hm : 0 < m) (sz : Nat)
    (hsz : 0 < sz) : ∀ (fuel : Nat) (c : Chunked (List Item)) (P : Bytes) (N : Nat) (acc : Bytes),
      TRep tail c P → mu c ≤ N → N + 2 ≤ fuel → (drEv (evsC m sz fuel c) acc).Bad := by
  intro fuel
  induction fuel with
  | zero => intro c P N acc _ _ h; omega
  | succ fuel ih =>
    intro c P N acc hrep hmu hfuel
    rcases step_trunc tail hd c P m sz hm hrep with ⟨out, P', h1, rfl, hne, hrep'⟩ | ⟨hb, hfl⟩
    · have hmu' := read_mu c m sz out hrep.1 h1
      have hpos := List.length_pos_iff.mpr (hne hsz)
      rw [evsC_succ, h1]
      simp only [Ev.ofRR, drEv, hne hsz, if_false]
      exact ih _ P' (N - 1) _ hrep' (by omega) (by omega)
    · exact bad_step m sz fuel c acc hb hfl (by omega)

/-- draining complete chunks followed by a cut chunk / last-chunk -/
theorem drEv_cut (tail : List Item) (hd : Dead tail) (m : Nat) (hm : 0 < m) (sz : Nat)
    (hsz : 0 < sz) (sr ext d : Bytes) (ts : List Bytes) (part : Bytes) (hs : CutOK sr ext d ts)
    (hq : part <+: cutEnc sr ext d ts)
    (hql : part.length < (cutEnc sr ext d ts).length) :
    ∀ (fuel : Nat) (c : Chunked (List Item)) (P : Bytes) (N : Nat) (acc : Bytes),
      Rep c P (bytesI part ++ tail) → mu c ≤ N → N + 2 ≤ fuel →
      (drEv (evsC m sz fuel c) acc).Bad := by
  intro fuel
  induction fuel with
  | zero => intro c P N acc _ _ h; omega
  | succ fuel ih =>
    intro c P N acc hrep hmu hfuel
    by_cases hP : P = []
    · subst hP
      obtain ⟨hf, he, hlen, hr, hi⟩ := rep_nil c _ hrep
      have ht : TRep tail c ([] ++ d) :=
        ⟨hrep.1, d, ⟨hf, he, .inr ⟨sr, ext, ts, part, hs, hr, hi, hq, hql⟩⟩, by
          rw [(avail_eq_nil_iff c hrep.1).mpr hlen]⟩
      exact drEv_trunc tail hd m hm sz hsz (fuel+1) c _ N acc ht hmu hfuel
    · obtain ⟨out, P', h1, rfl, _, hne, hrep'⟩ := step_progress c P _ m sz hm hrep hP
      have hmu' := read_mu c m sz out hrep.1 h1
      have hpos := List.length_pos_iff.mpr (hne hsz)
      rw [evsC_succ, h1]
      simp only [Ev.ofRR, drEv, hne hsz, if_false]
      exact ih _ P' (N - 1) _ hrep' (by omega) (by omega)

theorem mu_fresh (is : List Item) : mu (fresh is) = is.length := by
  simp [mu, avail, fresh]

/-! ## The drain helpers on bodies -/

theorem payloadOf_length_le (cs : List ChunkS) : (payloadOf cs).length ≤ (encChunks cs).length := by
  induction cs with
  | nil => simp [payloadOf, encChunks]
  | cons c cs ih =>
    rw [payloadOf_cons, encChunks_cons]
    simp only [ChunkS.enc, List.length_append]
    omega

section sched
variable (maxBuf sz : Nat) (hsz : 0 < sz)
include hsz

/-- (e) at the level of the post-head reader: a chunked body cut inside a chunk or the last-chunk
    makes the drain helpers fail (error or stall — not `Ok`, not a panic / fuel exhaustion). -/
theorem drain_chunked_cut (r1 : BufR) (hok : r1.Ok) (hmb : 0 < maxBuf)
    (cs : List ChunkS) (hcs : ∀ c ∈ cs, c.WF Consts.chunkSizeLineLimit)
    (part : Bytes) (tailItems : List Item)
    (hp : (∃ c : ChunkS, c.WF Consts.chunkSizeLineLimit ∧ part.length < c.enc.length ∧ part <+: c.enc) ∨
          (∃ l : LastS, l.WF Consts.chunkSizeLineLimit ∧ part.length < l.enc.length ∧ part <+: l.enc))
    (ht : Dead tailItems)
    (hfl : r1.flat = bytesI (encChunks cs ++ part) ++ tailItems) :
    (drain maxBuf sz (.chunked { inner := r1 })).1.Bad := by
  rw [drain_eq, reads_chunked_flat r1 hok]
  have hin : (Body.chunked ({ inner := r1 } : Chunked BufR)).inner = r1 := rfl
  have hfl' : r1.flat = bytesI (encChunks cs) ++ (bytesI part ++ tailItems) := by
    rw [hfl]; simp [bytesI_append]
  rw [hin, hfl']
  have hrep := rep_fresh cs hcs (bytesI part ++ tailItems)
  have hmu := mu_fresh (bytesI (encChunks cs) ++ (bytesI part ++ tailItems))
  rcases hp with ⟨c, hc, hlen, hpre⟩ | ⟨l, hl, hlen, hpre⟩
  · exact drEv_cut tailItems ht maxBuf hmb sz hsz c.sizeRepr c.ext c.data [] part
      (CutOK.of_chunk hc) (by rw [cutEnc_chunk]; exact hpre) (by rw [cutEnc_chunk]; exact hlen)
      _ _ _ _ [] hrep (Nat.le_of_eq hmu) (by omega)
  · exact drEv_cut tailItems ht maxBuf hmb sz hsz l.zeros l.ext [] l.trailers part
      (CutOK.of_last hl) (by rw [cutEnc_last]; exact hpre) (by rw [cutEnc_last]; exact hlen)
      _ _ _ _ [] hrep (Nat.le_of_eq hmu) (by omega)

/-- (b), (c) at the level of `Body`: a complete `Content-Length` / close-delimited body is drained
    to exactly its bytes. -/
theorem drain_clean (b : Body) (rem : Bytes) (h : BodyClean b rem) :
    (drain maxBuf sz b).1 = .ok rem := by
  rw [drain_eq]
  have hfuel : rem.length < 2 * b.inner.flat.length + 4 := by
    cases b with
    | chunked c => exact h.elim
    | length r lim =>
      obtain ⟨_, _, trail, hfl⟩ := h
      simp only [Body.inner, hfl, List.length_append, bytesI_length]; omega
    | close r =>
      obtain ⟨_, hfl⟩ := h
      simp only [Body.inner, hfl, bytesI_length]; omega
  generalize 2 * b.inner.flat.length + 4 = fuel at hfuel
  obtain ⟨_, h2, _, h4, h5⟩ := clean_run maxBuf (List.replicate fuel sz) b rem h
  have hlen : (reads maxBuf (List.replicate fuel sz) b).1.length = fuel := by
    rw [reads_length, List.length_replicate]
  have := drEv_run (.ok []) .ok (by intro es acc; simp [drEv])
    (reads maxBuf (List.replicate fuel sz) b).1 rem []
    (fun i _ => (deliveredEv_take_prefix _ i).trans h2)
    (fun i hi hlt => h5 i (by simpa [hlen] using hi) (by simpa using hsz) hlt)
    (fun i hi hd => h4 i (by simpa [hlen] using hi) (by simpa using hsz) hd)
    (by rw [hlen]; exact hfuel)
  simpa using this

/-- (f) at the level of `Body`: a `Content-Length` body closed early drains to `UnexpectedEof`. -/
theorem drain_cut (b : Body) (rem : Bytes) (h : BodyCut b rem) :
    (drain maxBuf sz b).1 = .err .eof := by
  rw [drain_eq]
  have hfuel : rem.length < 2 * b.inner.flat.length + 4 := by
    cases b with
    | chunked c => exact h.elim
    | close r => exact h.elim
    | length r lim =>
      obtain ⟨_, _, hfl⟩ := h
      simp only [Body.inner, hfl, bytesI_length]; omega
  generalize 2 * b.inner.flat.length + 4 = fuel at hfuel
  obtain ⟨h1, h2, _, h4, h5⟩ := cut_run maxBuf (List.replicate fuel sz) b rem h
  have hlen : (reads maxBuf (List.replicate fuel sz) b).1.length = fuel := by
    rw [reads_length, List.length_replicate]
  exact drEv_run (.err .eof) (fun _ => .err .eof) (by intro es acc; simp [drEv])
    (reads maxBuf (List.replicate fuel sz) b).1 rem []
    (fun i _ => (deliveredEv_take_prefix _ i).trans h2)
    (fun i hi hlt => by
      have hi' : i < (List.replicate fuel sz).length := by simpa [hlen] using hi
      obtain ⟨bs, hb⟩ := h5 i hi' hlt
      refine ⟨bs, hb, fun hc => ?_⟩
      subst hc
      exact h1 i hi' (by simpa using hsz) hb)
    (fun i hi hd => h4 i (by simpa [hlen] using hi) (by simpa using hsz) hd)
    (by rw [hlen]; exact hfuel)

/-- (a) at the level of the post-head reader: a complete chunked body is drained to exactly the
    concatenated chunk data; `trail` is never touched. -/
theorem drain_chunked_complete (r1 : BufR) (hok : r1.Ok) (hmb : 0 < maxBuf)
    (cs : List ChunkS) (hcs : ∀ c ∈ cs, c.WF Consts.chunkSizeLineLimit)
    (last : LastS) (hl : last.WF Consts.chunkSizeLineLimit) (trail : List Item)
    (hfl : r1.flat = bytesI (encChunks cs ++ last.enc) ++ trail) :
    (drain maxBuf sz (.chunked { inner := r1 })).1 = .ok (payloadOf cs) := by
  rw [drain_eq]
  have hin : (Body.chunked ({ inner := r1 } : Chunked BufR)).inner = r1 := rfl
  have hfuel : (payloadOf cs).length <
      2 * (Body.chunked ({ inner := r1 } : Chunked BufR)).inner.flat.length + 4 := by
    have := payloadOf_length_le cs
    rw [hin, hfl]
    simp only [List.length_append, bytesI_length]; omega
  generalize 2 * (Body.chunked ({ inner := r1 } : Chunked BufR)).inner.flat.length + 4 = fuel at hfuel
  have hfl' : r1.flat = bytesI (encChunks cs) ++ (bytesI last.enc ++ trail) := by
    rw [hfl]; simp [bytesI_append]
  obtain ⟨_, h2, _, h4⟩ :=
    chunked_complete_ev r1 hok maxBuf hmb (List.replicate fuel sz) cs hcs last hl trail hfl
  have h5 := chunked_progress_ev r1 hok maxBuf hmb (List.replicate fuel sz) cs hcs _ hfl'
  have hlen : (reads maxBuf (List.replicate fuel sz) (.chunked { inner := r1 })).1.length = fuel := by
    rw [reads_length, List.length_replicate]
  have := drEv_run (.ok []) .ok (by intro es acc; simp [drEv])
    (reads maxBuf (List.replicate fuel sz) (.chunked { inner := r1 })).1 (payloadOf cs) []
    (fun i _ => (deliveredEv_take_prefix _ i).trans h2)
    (fun i hi hlt => by
      have hi' : i < (List.replicate fuel sz).length := by simpa [hlen] using hi
      obtain ⟨bs, hb, hne, _⟩ := (h5 i hi' hlt).2.1 (by simpa using hsz)
      exact ⟨bs, hb, hne⟩)
    (fun i hi hd => h4 i (by simpa [hlen] using hi) (by simpa using hsz) hd)
    (by rw [hlen]; exact hfuel)
  simpa using this

end sched

end Dr
end Atto
