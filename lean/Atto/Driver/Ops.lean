/- Atto/Driver/Ops.lean — op dispatch. -/
import Atto.Driver.Codec
import Atto.Spec.TextSpec
import Atto.Driver.SendOp
import Atto.Driver.ProxyOp
import Atto.Driver.MpOp
import Atto.Driver.SessOp
import Atto.Driver.CharsetOp
import Atto.Driver.HappyOp
import Atto.Driver.WdOp
import Atto.Driver.TlsOp
import Atto.Driver.StageOp
namespace Atto.Driver
open Atto

/-- `resp <METHOD> <maxHeaders> <cap> <maxBuf> <segs> <reads>`
    reads: comma-separated sizes, or `B<sz>` (`bytes()`: drain with reads of `sz`), `W<sz>` (`write_to`),
    `S<sz>` (`split()` + `read_to_end`), `J<sz>` (`json()` / `json_utf8()` on a body that is a canonical JSON
    document: Ok stands for the whole body) — the same drain —, `Q<sz>` (`error_for_status()?.bytes()`:
    `StatusCode::is_success` = 200 ≤ status < 300, else `ErrorKind::StatusCode`), `T<sz>` (`text_utf8()`). -/
def opResp (args : List String) : String :=
  match args with
  | [m, mh, cap, mb, segs, rds] =>
    match mh.toNat?, cap.toNat?, mb.toNat?, segsOfString segs with
    | some maxHeaders, some cap, some maxBuf, some t =>
      (match parseResponse (methodOfString m) maxHeaders cap t with
       | .err e => s!"head=e:{errName e}"
       | .blocked => "head=b"
       | .panic => "head=P"
       | .ok resp =>
         let drainEv (rest : List Char) : List String :=
           match (String.ofList rest).toNat? with
           | some sz => match drain maxBuf sz resp.body with
              | (res, _) => [evToString (Ev.ofRR res)]
           | none => []
         let evs : List String :=
           match rds.toList with
           | 'T' :: rest =>
             -- `text_utf8()`: read_to_end, then lossy UTF-8 (WHATWG maximal-subpart replacement)
             (match (String.ofList rest).toNat? with
              | some sz => match drain maxBuf sz resp.body with
                 | (.ok bs, _) => [evToString (Ev.ok (String.ofList (decodeUtf8 bs)).toUTF8.toList)]
                 | (res, _) => [evToString (Ev.ofRR res)]
              | none => [])
           | 'B' :: rest => drainEv rest
           | 'W' :: rest => drainEv rest
           | 'S' :: rest => drainEv rest
           | 'J' :: rest => drainEv rest
           | 'Q' :: rest =>
             if 200 ≤ resp.status ∧ resp.status < 300 then drainEv rest else [s!"e:status{resp.status}"]
           | _ =>
             let ns := (splitComma rds).filterMap String.toNat?
             ((reads maxBuf ns resp.body).1).map evToString
         match resp.coding with
         | .plain => s!"head={resp.status} coding=plain hdrs={canonHeaders resp.headers} ev={",".intercalate evs}"
         | .gzip => s!"head={resp.status} coding=gzip hdrs={canonHeaders resp.headers} ev=~"
         | .deflate => s!"head={resp.status} coding=deflate hdrs={canonHeaders resp.headers} ev=~")
    | _, _, _, _ => "bad-op"
  | _ => "bad-op"

def runLine (line : String) : String :=
  match line.trimAscii.toString.splitOn " " with
  | "resp" :: args => opResp args
  | "send" :: args => opSend args
  | "sendpt" :: args => opSendPt args
  | "pfor" :: args => opPfor args
  | "mpart" :: args => opMpart args
  | "sess" :: args => opSess args
  | "charset" :: args => opCharset args
  | "happy" :: args => opHappy args
  | "twine" :: args => opTwine args
  | "wd" :: args => opWd args
  | "nop" :: _ => "nop"
  | "tls" :: args => opTls args
  | "stage" :: args => opStage args
  | "penv" :: args => opPenv args
  | _ => "bad-op"

end Atto.Driver
