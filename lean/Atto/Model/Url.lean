/-
  Atto/Model/Url.lean — the view of a `url::Url` that attohttpc's logic depends on.
  `Url::parse` / `join` / serialisation are third-party (url 2.5): the record is an input.
-/
import Atto.Std.HeaderMap
namespace Atto

structure Url where
  scheme : Bytes
  user : Bytes                 -- `username()` ("" if none)
  pass : Option Bytes          -- `password()`
  host : Bytes                 -- `host_str()`: lower-cased domain, dotted IPv4, or bracketed IPv6
  hostKind : Nat               -- 0 domain, 1 IPv4 literal, 2 IPv6 literal, 9 no host (`host_str()` is None)
  port : Option Nat            -- `port()`: none when it is the scheme's default
  effPort : Nat                -- `port_or_known_default()` (0: None — the scheme has no known default)
  path : Bytes
  query : Option Bytes
  fragment : Option Bytes
  deriving Repr, DecidableEq

def natDigits (n : Nat) : Bytes := (toString n).toUTF8.toList

/-- `host[:port]` with the port only when it is not the scheme default. -/
def Url.authority (u : Url) : Bytes :=
  match u.port with
  | some p => u.host ++ [58] ++ natDigits p
  | none => u.host

/-- origin-form: `path [ "?" query ]` -/
def Url.originForm (u : Url) : Bytes :=
  match u.query with
  | some q => u.path ++ [63] ++ q
  | none => u.path

/-- absolute-form without userinfo and fragment: `scheme "://" authority path [ "?" query ]` -/
def Url.absoluteForm (u : Url) : Bytes :=
  u.scheme ++ str "://" ++ u.authority ++ u.originForm

end Atto
