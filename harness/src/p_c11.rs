//! C11 — proxy choice follows the curl conventions the documentation cites.
use crate::case::{Case, Sink};
use crate::rng::Rng;
use crate::script::{hex, hex_or_dash};
use crate::send::{url_show, urlrec};
use url::Url;

const PROXY_H: &str = "http://proxy-h.test:3128";
const PROXY_S: &str = "http://proxy-s.test:3129";

fn show(o: Option<&Url>) -> String {
    match o {
        None => "none".into(),
        Some(u) => hex(url_show(u).as_bytes()),
    }
}

/// the statement's rule, on strings
fn bypass(host: &str, entries: &[String]) -> bool {
    let h = host.to_ascii_lowercase();
    entries.iter().any(|e| {
        let e = e.to_ascii_lowercase();
        !e.is_empty() && (h == e || h.ends_with(&format!(".{}", e)))
    })
}

fn pfor_case(sink: &mut Sink, host: &str, scheme: &str, entries: &[String], tagset: Vec<String>) {
    let url = Url::parse(&format!("{}://{}/p", scheme, host)).unwrap();
    // a configuration written with a builder is that configuration and nothing else, however the builder was
    // obtained (`ProxySettings::builder()`, `ProxySettingsBuilder::new()`, `::default()`) and whatever the
    // environment holds at that moment (seed C11-seed12: the derived Default of the builder starts from the
    // environment's settings: NO_PROXY=* disables everything, its entries exempt hosts nobody listed)
    static WAY: std::sync::atomic::AtomicUsize = std::sync::atomic::AtomicUsize::new(0);
    let way = WAY.fetch_add(1, std::sync::atomic::Ordering::Relaxed);
    let env_set = way % 2 == 0;
    if env_set {
        std::env::set_var("NO_PROXY", if way % 4 == 0 { "*" } else { "b, a.b, other, localhost" });
        std::env::set_var("ALL_PROXY", "http://env-all.test:1");
    }
    let start = match way % 3 {
        0 => attohttpc::ProxySettingsBuilder::default(),
        1 => attohttpc::ProxySettingsBuilder::new(),
        _ => attohttpc::ProxySettings::builder(),
    };
    if env_set {
        std::env::remove_var("NO_PROXY");
        std::env::remove_var("ALL_PROXY");
    }
    let mut pb = start.http_proxy(Url::parse(PROXY_H).ok()).https_proxy(Url::parse(PROXY_S).ok());
    for e in entries {
        pb = pb.add_no_proxy_host(e);
    }
    let s = pb.build();
    let got = std::panic::catch_unwind(std::panic::AssertUnwindSafe(|| s.for_url(&url).cloned()));
    let (line, o) = match got {
        Err(_) => ("P".to_string(), Err(("panic".to_string(), "for_url panicked".to_string()))),
        Ok(g) => {
            let hs = url.host_str().unwrap();
            let want = if bypass(hs, entries) { None } else { Url::parse(if scheme == "http" { PROXY_H } else { PROXY_S }).ok() };
            let o = if g == want {
                Ok(())
            } else {
                let kind = if g.is_none() { "bypassed" } else { "not-bypassed" };
                let why = if entries.iter().any(|e| e.is_empty()) && g.is_none() { "empty-entry" } else if g.is_none() { "near-miss" } else { "missed" };
                Err((format!("{}-{}", kind, why), format!("host {:?} no_proxy {:?}: got {:?}, curl convention gives {:?}", hs, entries, g.as_ref().map(|u| u.as_str()), want.as_ref().map(|u| u.as_str()))))
            };
            (show(g.as_ref()), o)
        }
    };
    let np = if entries.is_empty() { "-".to_string() } else { entries.iter().map(|e| hex_or_dash(e.to_lowercase().as_bytes())).collect::<Vec<_>>().join(",") };
    let op = format!("pfor 0 {} {} {} {}", urlrec(&Url::parse(PROXY_H).unwrap()), urlrec(&Url::parse(PROXY_S).unwrap()), np, urlrec(&url));
    sink.push(Case { tags: tagset, op, impl_line: line, oracle: o });
}

const VARS: [&str; 8] = ["all_proxy", "ALL_PROXY", "http_proxy", "HTTP_PROXY", "https_proxy", "HTTPS_PROXY", "no_proxy", "NO_PROXY"];

fn clear_env() {
    for v in VARS {
        std::env::remove_var(v);
    }
}

pub fn generate(seed: u64, tier: &str, sink: &mut Sink) {
    let mut rng = Rng::new(seed ^ 0xC11);
    let thorough = tier == "thorough";
    // ---- for_url: hosts over a small label alphabet x no-proxy lists (exhaustive)
    let labels = ["a", "b", "ab", "ba"];
    let mut hosts: Vec<String> = vec![];
    for l1 in labels {
        hosts.push(l1.to_string());
        for l2 in labels {
            hosts.push(format!("{}.{}", l1, l2));
            if thorough {
                for l3 in labels {
                    hosts.push(format!("{}.{}.{}", l1, l2, l3));
                }
            }
        }
    }
    hosts.push("a.b.ab".into());
    hosts.push("127.0.0.1".into());
    hosts.push("[::1]".into());
    hosts.push("[fd00::12]".into());
    hosts.push("A.B".into());
    // absolute DNS names (trailing dot, kept by the url crate)
    hosts.push("a.".into());
    hosts.push("a.b.".into());
    hosts.push("ab.a.".into());
    let entry_alpha: Vec<String> = ["a", "b", "ab", "a.b", "b.a", "", ".b", "B", "A.b", "0.1", "1", "::1]", "]", "b.", ".", "[::1]", "[FD00::12]", "[::2]", "127.0.0.1"].iter().map(|s| s.to_string()).collect();
    let mut lists: Vec<Vec<String>> = vec![vec![]];
    for e in &entry_alpha {
        lists.push(vec![e.clone()]);
    }
    for e in &entry_alpha {
        for f in &entry_alpha {
            if thorough || rng.chance(1, 4) {
                lists.push(vec![e.clone(), f.clone()]);
            }
        }
    }
    for host in &hosts {
        for list in &lists {
            for scheme in ["http", "https"] {
                if scheme == "https" && !thorough && !list.is_empty() && rng.chance(3, 4) {
                    continue;
                }
                let h = host.to_ascii_lowercase();
                let rel = if list.is_empty() {
                    "no-entries"
                } else if list.iter().any(|e| e.is_empty()) {
                    "has-empty-entry"
                } else if bypass(&h, list) {
                    "match"
                } else if list.iter().any(|e| !e.is_empty() && h.ends_with(&e.to_ascii_lowercase())) {
                    "near-miss"
                } else {
                    "unrelated"
                };
                pfor_case(sink, host, scheme, list, vec!["kind=for_url".into(), format!("rel={}", rel), format!("scheme={}", scheme)]);
            }
        }
    }
    // ---- the decision as send() uses it: per hop of a redirect chain (dial peer, target form, Host)
    crate::p_c09::generate_chains(seed ^ 0xC11C, if thorough { 3000 } else { 250 }, true, false, sink);
    // … and when the selected proxy cannot be reached: the decision stands, nothing else is dialled instead
    // (seed C11-seed10; the cases are C08's)
    crate::p_c08::proxy_unreachable_cases(sink);
    // ---- from_env: assignments of the eight variables
    let proxy_vals: [Option<&str>; 7] = [None, Some(""), Some("  "), Some("http://env-h.test:8080"), Some("https://env-s.test"), Some("socks5://socks.test:1080"), Some("not a url")];
    let np_vals: [Option<&str>; 11] = [None, Some(""), Some("*"), Some(" * "), Some("a.b,ab"), Some(" a.b , .ab ,, B "), Some("A.B"), Some(".b"), Some("localhost, "), Some("., a.b"), Some("[::1], [FD00::12]")];
    let probes: Vec<Url> = ["http://a.b/", "https://a.b/", "http://x.a.b/", "http://xa.b/", "https://ab/", "http://zab/", "http://b/", "https://q.b/", "http://other/", "http://x.b./", "https://other./", "http://[::1]:8080/s", "https://[fd00::12]/", "http://[::2]/"].iter().map(|s| Url::parse(s).unwrap()).collect();
    let npn = np_vals.len() as u64;
    let total: u64 = 7u64.pow(6) * npn * npn;
    let n = if thorough { 400_000 } else { 12_000 };
    for i in 0..n {
        let code = if thorough && (i as u64) < total { i as u64 } else { rng.below(total) };
        let mut c = code;
        let mut vals: Vec<Option<&str>> = vec![];
        for _ in 0..6 {
            vals.push(proxy_vals[(c % 7) as usize]);
            c /= 7;
        }
        vals.push(np_vals[(c % npn) as usize]);
        c /= npn;
        vals.push(np_vals[(c % npn) as usize]);
        clear_env();
        // the order in which the variables entered the environment block must not matter (upper-case spellings
        // first in every other case: a shell that exports HTTP_PROXY before http_proxy, a sorted block)
        let mut order: Vec<usize> = (0..VARS.len()).collect();
        if i % 2 == 1 {
            order.reverse();
        }
        for j in order {
            if let Some(v) = vals[j] {
                std::env::set_var(VARS[j], v);
            }
        }
        // the eight variables decide, nothing else in the environment does (seed C11-seed13: HTTP_PROXY ignored
        // when REQUEST_METHOD is set)
        if i % 3 == 0 {
            std::env::set_var("REQUEST_METHOD", if i % 2 == 0 { "GET" } else { "" });
            std::env::set_var("GATEWAY_INTERFACE", "CGI/1.1");
        } else {
            std::env::remove_var("REQUEST_METHOD");
            std::env::remove_var("GATEWAY_INTERFACE");
        }
        let settings = attohttpc::ProxySettings::from_env();
        // a request / a session created now, without proxy settings of its own, works with the environment as it is
        // NOW (seed C11-seed8: settings read once per process): its settings are what from_env() gives here
        let stale: Option<String> = {
            let direct = format!("{:?}", settings);
            let of_request = attohttpc::get("http://probe.test/").verif_settings().proxy;
            let of_session = attohttpc::Session::new().verif_settings().proxy;
            if of_request != direct {
                Some(format!("a request created in this environment has {} where from_env() gives {}", of_request, direct))
            } else if of_session != direct {
                Some(format!("a session created in this environment has {} where from_env() gives {}", of_session, direct))
            } else {
                None
            }
        };
        clear_env();
        let choices: Vec<Option<Url>> = probes.iter().map(|p| settings.for_url(p).cloned()).collect();
        let line = format!("choices={}", choices.iter().map(|c| show(c.as_ref())).collect::<Vec<_>>().join(","));
        // ---- oracle from the statement
        let usable = |v: Option<&str>| -> Option<Url> {
            let v = v?;
            if v.trim().is_empty() {
                return None;
            }
            match Url::parse(v) {
                Ok(u) if u.scheme() == "http" || u.scheme() == "https" => Some(u),
                _ => None,
            }
        };
        // lower-case name over upper-case (by presence); a present-but-unusable lower-case variable
        // shadowing a usable upper-case one is left open by the statement
        let pick = |lo: Option<&str>, up: Option<&str>| -> (Option<Url>, bool) {
            match (lo, up) {
                (Some(l), Some(u)) => (usable(Some(l)), usable(Some(l)).is_none() && usable(Some(u)).is_some()),
                (Some(l), None) => (usable(Some(l)), false),
                (None, u) => (usable(u), false),
            }
        };
        let (all_p, open_a) = pick(vals[0], vals[1]);
        let (http_p, open_h) = pick(vals[2], vals[3]);
        let (https_p, open_s) = pick(vals[4], vals[5]);
        let np = vals[6].or(vals[7]);
        let open_np = false;
        let disabled = np == Some("*");
        let entries: Vec<String> = match np {
            Some(v) if !disabled => v.split(',').map(|s| s.trim().trim_start_matches('.').to_lowercase()).collect(),
            _ => vec![],
        };
        let o: Result<(), (String, String)> = (|| {
            if let Some(why) = &stale {
                return Err(("env-stale-defaults".to_string(), format!("env {:?}: {}", VARS.iter().zip(vals.iter()).filter(|(_, v)| v.is_some()).map(|(k, v)| format!("{}={:?}", k, v.unwrap())).collect::<Vec<_>>(), why)));
            }
            for (p, got) in probes.iter().zip(choices.iter()) {
                let scheme_specific = if p.scheme() == "http" { &http_p } else { &https_p };
                let open = open_a || open_np || if p.scheme() == "http" { open_h } else { open_s };
                if open {
                    continue;
                }
                let want = if disabled || bypass(p.host_str().unwrap(), &entries) { None } else { scheme_specific.clone().or(all_p.clone()) };
                if *got != want {
                    let sig = if disabled { "env-wildcard" } else if got.is_none() && want.is_some() { "env-bypassed" } else if got.is_some() && want.is_none() { "env-not-bypassed" } else { "env-wrong-proxy" };
                    return Err((sig.to_string(), format!("env {:?} probe {}: got {:?}, conventions give {:?}", VARS.iter().zip(vals.iter()).filter(|(_, v)| v.is_some()).map(|(k, v)| format!("{}={:?}", k, v.unwrap())).collect::<Vec<_>>(), p, got.as_ref().map(|u| u.as_str()), want.as_ref().map(|u| u.as_str()))));
                }
            }
            Ok(())
        })();
        // op line for the model: values, parse table (url crate's view of each distinct value), probes
        let mut table: Vec<String> = vec![];
        for v in vals.iter().take(6).flatten() {
            let k = hex_or_dash(v.as_bytes());
            let e = format!("{}={}", k, Url::parse(v).ok().map(|u| urlrec(&u)).unwrap_or("~".into()));
            if !table.contains(&e) {
                table.push(e);
            }
        }
        let op = format!(
            "penv {} {} {}",
            vals.iter().map(|v| v.map(|s| hex_or_dash(s.as_bytes())).unwrap_or("~".into())).collect::<Vec<_>>().join(","),
            if table.is_empty() { "-".to_string() } else { table.join(";") },
            probes.iter().map(urlrec).collect::<Vec<_>>().join(";")
        );
        sink.push(Case {
            tags: vec!["kind=from_env".into(), format!("no_proxy={}", match np { None => "unset", Some("") => "empty", Some("*") => "star", Some(" * ") => "blank-star", _ => "list" }), format!("set={}", vals.iter().filter(|v| v.is_some()).count()), format!("upper-case-entered-first={}", i % 2 == 1)],
            op,
            impl_line: line,
            oracle: o,
        });
    }
}
